import TfPwaV.Proofs.BExpr
/-!
# C16b — custom bound expressions: the slopes handed to the fit are the derivatives of the transform

`tf_pwa.variable.Bound(a, b, func)` accepts a user string `func` in the fit variable `x`; `get_func` substitutes the
numbers `a`, `b`, and lets sympy compute `df = diff(f, x)` and `df2 = diff(df, x)`, which `get_dydx` / `get_d2ydx2`
evaluate to turn `dNLL/dy` into `dNLL/dx`.  `templates/BExpr.lean.in` models the expression grammar (`Expr`), its value
(`eval`), the differentiation rules (`diff`) and their side conditions (`Dom`; executable twin `domB`).  The same text is
instantiated at `Float` (compared against the real sympy output by the harness) and at `ℝ` (theorems below).
-/
open TfPwaV.ScalarR TfPwaV.BExprR

namespace TfPwaV.C16b

/-! ## Every expression of the grammar -/

/-- **The first slope is the derivative.**  For every expression `e` of the grammar and every real `x` at which the side
conditions hold (every denominator non-zero, every argument of `log`/`sqrt` strictly positive), the value of the
symbolic derivative `diff e` at `x` is the derivative of `x ↦ eval e x` at `x`. -/
theorem diff_is_deriv (e : Expr) (x : ℝ) (h : Dom e x) : HasDerivAt (eval e) (eval (diff e) x) x :=
  BExprR.diff_is_deriv e x h

/-- **The second slope is the derivative of the first**, under the side conditions of `e` alone. -/
theorem second_slope_is_deriv (e : Expr) (x : ℝ) (h : Dom e x) :
    HasDerivAt (eval (diff e)) (eval (diff (diff e)) x) x :=
  BExprR.diff2_is_deriv e x h

/-- **Differentiation creates no new side condition**: where `e` is admissible, so is `diff e` (hence every iterate). -/
theorem dom_closed_under_diff (e : Expr) (x : ℝ) (h : Dom e x) : Dom (diff e) x :=
  BExprR.dom_diff e x h

/-- all orders: `diffN (k+1) e` is the derivative of `diffN k e` wherever `e` is admissible -/
theorem every_order_is_deriv (k : ℕ) (e : Expr) (x : ℝ) (h : Dom e x) :
    Dom (diffN k e) x ∧ HasDerivAt (eval (diffN k e)) (eval (diffN (k + 1) e) x) x :=
  ⟨dom_diffN k e x h, diffN_is_deriv k e x h⟩

/-- the executable check `domB` (the one the Float model answers on `C16E dom …`) decides exactly `Dom` over ℝ -/
theorem domB_decides_dom (e : Expr) (x : ℝ) : domB e x = true ↔ Dom e x :=
  BExprR.domB_iff e x

/-- **Expressions without `/`, `log`, `sqrt` have no side conditions**: both slopes are derivatives at every real `x`. -/
theorem smooth_everywhere (e : Expr) (hs : Smooth e) (x : ℝ) :
    Dom e x ∧ HasDerivAt (eval e) (eval (diff e) x) x ∧
      HasDerivAt (eval (diff e)) (eval (diff (diff e)) x) x :=
  ⟨dom_total e hs x, BExprR.diff_is_deriv e x (dom_total e hs x), diff2_is_deriv e x (dom_total e hs x)⟩

/-- non-vacuity: an expression with genuine side conditions, `log(x)/sqrt(x*x+1)`, is admissible at `x = 1`
(and `log(x)` is NOT admissible at `x = 0`, so `Dom` is not trivially true) -/
example : Dom (.div (.log .x) (.sqrt (.add (.mul .x .x) (.const 1)))) 1 ∧ ¬ Dom (.log .x) 0 := by
  refine ⟨⟨⟨trivial, ?_⟩, ⟨⟨⟨trivial, trivial⟩, trivial⟩, ?_⟩, ?_⟩, fun h => lt_irrefl _ h.2⟩
  · show (0 : ℝ) < 1
    norm_num
  · show (0 : ℝ) < 1 * 1 + 1
    norm_num
  · show Real.sqrt (1 * 1 + 1) ≠ 0
    exact (Real.sqrt_pos.2 (by norm_num)).ne'

/-- non-vacuity of `smooth_everywhere`: `x**3*sin(exp(-x))` -/
example : Smooth (.mul (.pow .x 3) (.sin (.exp (.neg .x)))) := ⟨trivial, trivial⟩

/-! ## The four custom forms of the documentation, with arbitrary real `a`, `b` -/

/-- `"a+(b-a)/(1+exp(-x))"`: the `Expr` value denotes that function; it is admissible at every real `x` (the
denominator `1+exp(-x)` is positive), so both slopes are derivatives everywhere; closed forms of the slopes. -/
theorem logistic_slopes (a b x : ℝ) :
    eval (logistic a b) x = a + (b - a) / (1 + Real.exp (-x)) ∧ Dom (logistic a b) x ∧
    HasDerivAt (eval (logistic a b)) (eval (diff (logistic a b)) x) x ∧
    HasDerivAt (eval (diff (logistic a b))) (eval (diff (diff (logistic a b))) x) x ∧
    eval (diff (logistic a b)) x = (b - a) * Real.exp (-x) / (1 + Real.exp (-x)) ^ 2 ∧
    eval (diff (diff (logistic a b))) x =
      (b - a) * Real.exp (-x) * (Real.exp (-x) - 1) / (1 + Real.exp (-x)) ^ 3 :=
  ⟨rfl, logistic_dom a b x, BExprR.diff_is_deriv _ x (logistic_dom a b x), diff2_is_deriv _ x (logistic_dom a b x),
    logistic_slope a b x, logistic_slope2 a b x⟩

/-- `"a+exp(x)"` -/
theorem expLower_slopes (a x : ℝ) :
    eval (expLower a) x = a + Real.exp x ∧ Dom (expLower a) x ∧
    HasDerivAt (eval (expLower a)) (eval (diff (expLower a)) x) x ∧
    HasDerivAt (eval (diff (expLower a))) (eval (diff (diff (expLower a))) x) x ∧
    eval (diff (expLower a)) x = Real.exp x ∧ eval (diff (diff (expLower a))) x = Real.exp x :=
  ⟨rfl, expLower_dom a x, BExprR.diff_is_deriv _ x (expLower_dom a x), diff2_is_deriv _ x (expLower_dom a x),
    expLower_slope a x, expLower_slope2 a x⟩

/-- `"b-exp(-x)"` -/
theorem expUpper_slopes (b x : ℝ) :
    eval (expUpper b) x = b - Real.exp (-x) ∧ Dom (expUpper b) x ∧
    HasDerivAt (eval (expUpper b)) (eval (diff (expUpper b)) x) x ∧
    HasDerivAt (eval (diff (expUpper b))) (eval (diff (diff (expUpper b))) x) x ∧
    eval (diff (expUpper b)) x = Real.exp (-x) ∧ eval (diff (diff (expUpper b))) x = -Real.exp (-x) :=
  ⟨rfl, expUpper_dom b x, BExprR.diff_is_deriv _ x (expUpper_dom b x), diff2_is_deriv _ x (expUpper_dom b x),
    expUpper_slope b x, expUpper_slope2 b x⟩

/-- `"(a+b)/2+(b-a)/2*tanh(x)"` -/
theorem tanhAB_slopes (a b x : ℝ) :
    eval (tanhAB a b) x = (a + b) / 2 + (b - a) / 2 * Real.tanh x ∧ Dom (tanhAB a b) x ∧
    HasDerivAt (eval (tanhAB a b)) (eval (diff (tanhAB a b)) x) x ∧
    HasDerivAt (eval (diff (tanhAB a b))) (eval (diff (diff (tanhAB a b))) x) x ∧
    eval (diff (tanhAB a b)) x = (b - a) / 2 * (1 - Real.tanh x ^ 2) ∧
    eval (diff (diff (tanhAB a b))) x = -(b - a) * Real.tanh x * (1 - Real.tanh x ^ 2) :=
  ⟨rfl, tanhAB_dom a b x, BExprR.diff_is_deriv _ x (tanhAB_dom a b x), diff2_is_deriv _ x (tanhAB_dom a b x),
    tanhAB_slope a b x, tanhAB_slope2 a b x⟩

/-! ## The transforms respect the bounds and are strictly increasing (so `y2x` is well defined) -/

/-- logistic form, `a < b`: the physical value lies strictly inside `(a, b)` for every real fit value, and the map is
strictly increasing -/
theorem logistic_bounds (a b : ℝ) (hab : a < b) :
    (∀ x, a < eval (logistic a b) x ∧ eval (logistic a b) x < b) ∧ StrictMono (eval (logistic a b)) :=
  ⟨fun x => logistic_range a b x hab, logistic_strictMono a b hab⟩

/-- `a+exp(x)` stays strictly above `a` and is strictly increasing -/
theorem expLower_bounds (a : ℝ) : (∀ x, a < eval (expLower a) x) ∧ StrictMono (eval (expLower a)) :=
  ⟨fun x => by rw [expLower_eval]; linarith [Real.exp_pos x], expLower_strictMono a⟩

/-- `b-exp(-x)` stays strictly below `b` and is strictly increasing -/
theorem expUpper_bounds (b : ℝ) : (∀ x, eval (expUpper b) x < b) ∧ StrictMono (eval (expUpper b)) :=
  ⟨fun x => by rw [expUpper_eval]; linarith [Real.exp_pos (-x)], expUpper_strictMono b⟩

/-- tanh form, `a < b`: strictly inside `(a, b)`, strictly increasing -/
theorem tanhAB_bounds (a b : ℝ) (hab : a < b) :
    (∀ x, a < eval (tanhAB a b) x ∧ eval (tanhAB a b) x < b) ∧ StrictMono (eval (tanhAB a b)) :=
  ⟨fun x => tanhAB_range a b x hab, tanhAB_strictMono a b hab⟩

/-- non-vacuity of `a < b` -/
example : ∃ a b : ℝ, a < b := ⟨0, 1, by norm_num⟩

/-! ## The built-in forms are instances: the generic rules give the hand-written slopes of C16 -/

/-- `"(b-a)*(sin(x)+1)/2+a"`, `"a-1+sqrt(x**2+1)"`, `"b+1-sqrt(x**2+1)"` as expressions: admissible at every real `x`,
and value / first slope / second slope coincide with `x2y*`, `dydx*`, `d2*` of `templates/Bound.lean.in` (the functions
the C16 correspondence compares with `Bound.get_x2y/get_dydx/get_d2ydx2`). -/
theorem builtin_forms_agree (a b x : ℝ) :
    (Dom (sinAB a b) x ∧ eval (sinAB a b) x = BoundR.x2yAB a b x ∧
      eval (diff (sinAB a b)) x = BoundR.dydxAB a b x ∧ eval (diff (diff (sinAB a b))) x = BoundR.d2AB a b x) ∧
    (Dom (sqrtA a) x ∧ eval (sqrtA a) x = BoundR.x2yA a x ∧
      eval (diff (sqrtA a)) x = BoundR.dydxA x ∧ eval (diff (diff (sqrtA a))) x = BoundR.d2A x) ∧
    (Dom (sqrtB b) x ∧ eval (sqrtB b) x = BoundR.x2yB b x ∧
      eval (diff (sqrtB b)) x = BoundR.dydxB x ∧ eval (diff (diff (sqrtB b))) x = BoundR.d2B x) :=
  ⟨⟨sinAB_dom a b x, sinAB_agrees a b x⟩, ⟨sqrtA_dom a x, sqrtA_agrees a x⟩, ⟨sqrtB_dom b x, sqrtB_agrees b x⟩⟩

end TfPwaV.C16b
