import TfPwaV.Props.C17
/-!
# C17 (round 3) — further read-only entry points, sequence / nested forms of `temp_params`, `set_params` in a body

* the entry points of the library that are documented as read-only and were not in the model of round 1
  (`ConfigLoader.cal_fitfractions`, `cal_signal_yields`, `_cal_partial_wave` = the weight computation of
  `plot_partial_wave`, the `weights_function` of `plot_partial_wave_interf`, `cal_bins_numbers`,
  `PlotAllData` = `get_all_plotdatas` / `get_plotter`, `likelihood_profile`, `get_params_error`,
  `factor_system.partial_amp`, `eval_normal_factors`) restore the state: every argument, every fault position,
  every state (patched variant), as instances of `restore_all`;
* for the four sites that do NOT restore in the tree as it is (`PlotAllData`, `likelihood_profile`,
  `get_params_error`, `factor_system.temp_var`) one witness per way of leaking (`asis_*`), replayed on the real
  objects by the harness;
* what the code guarantees about `set_params` inside a block body.
-/
namespace TfPwaV.C17
open TfPwaV.Override

/-! ## derived programs are guarded -/

theorem guarded_calSignalYields (p : List (Nat × PV)) (nb : Nat) (res : List Sel) :
    ∀ fs : List (Option Nat), guarded (calSignalYields p nb res fs) = true := by
  intro fs
  induction fs with
  | nil => rfl
  | cons f fs ih => simp [calSignalYields, guarded, fitFractions, ih]

theorem guarded_pwBatches (comb : List (List Sel)) : ∀ fs : List (Option Nat), guarded (pwBatches comb fs) = true := by
  intro fs
  induction fs with
  | nil => rfl
  | cons f fs ih => simp [pwBatches, guarded, ih]

theorem guarded_evalNormalFactors :
    ∀ items : List (List Sel × List (Nat × Val) × Option Nat), guarded (evalNormalFactors items) = true := by
  intro items
  induction items with
  | nil => rfl
  | cons it rest ih =>
    obtain ⟨r, m, f⟩ := it
    simp [evalNormalFactors, guarded, ih]

/-! ## the entry points restore (patched variant): all arguments, all fault positions, all states -/

/-- `ConfigLoader.cal_fitfractions(params, mcdata, res, batch, method)`: any parameter dict (rejected values
included), any number of batches, any resonance list, old / new method, any evaluation raising. -/
theorem restore_cfg_cal_fitfractions (E : Env) (params : List (Nat × PV)) (nb : Nat) (res : List Sel) (new : Bool)
    (fault : Option Nat) (s : St) : (exec Fix.all E (cfgCalFitfractions params nb res new fault) s).1 = s :=
  restore_fit_fractions E params nb res new fault s

/-- `ConfigLoader.cal_signal_yields`: any number of data sets, a fault position per data set. -/
theorem restore_cal_signal_yields (E : Env) (params : List (Nat × PV)) (nb : Nat) (res : List Sel)
    (faults : List (Option Nat)) (s : St) : (exec Fix.all E (calSignalYields params nb res faults) s).1 = s :=
  restore_all E _ (guarded_calSignalYields params nb res faults) s

/-- `_cal_partial_wave` (weights of `plot_partial_wave` / `_get_plot_partial_wave_input`): any `params`, any number of
batches, any `res` combination, a fault position in the total-weight pass and in every batch of partial weights. -/
theorem restore_cal_partial_wave (E : Env) (params : List (Nat × PV)) (nb : Nat) (comb : List (List Sel))
    (f0 : Option Nat) (fs : List (Option Nat)) (s : St) :
    (exec Fix.all E (calPartialWave params nb comb f0 fs) s).1 = s :=
  restore_all E _ rfl s

/-- the weights of `plot_partial_wave_interf(res1, res2)`. -/
theorem restore_interf_weights (E : Env) (r1 r2 : List Sel) (f1 f2 f3 : Option Nat) (s : St) :
    (exec Fix.all E (interfWeights r1 r2 f1 f2 f3) s).1 = s :=
  restore_all E _ rfl s

/-- `cal_bins_numbers` does not depend on any patch: it only evaluates. -/
theorem restore_cal_bins_numbers (fx : Fix) (E : Env) (f : Option Nat) (s : St) :
    (exec fx E (calBinsNumbers f) s).1 = s :=
  restore_covered fx E _ rfl rfl s

/-- `eval_normal_factors` of the constrained-fraction likelihoods (model/custom.py): any list of constraints. -/
theorem restore_eval_normal_factors (E : Env) (items : List (List Sel × List (Nat × Val) × Option Nat)) (s : St) :
    (exec Fix.all E (evalNormalFactors items) s).1 = s :=
  restore_all E _ (guarded_evalNormalFactors items) s

/-- `PlotAllData(amp, data, phsp, res=res)` (`get_all_plotdatas`, `get_plotter`). -/
theorem restore_plot_all (E : Env) (res : List (List Sel)) (fault : Option Nat) (s : St) :
    (exec Fix.all E (.compute (.plotAll res) fault) s).1 = s :=
  restore_all E _ rfl s

/-- `likelihood_profile(var, …)`: any variable (trainable or not, bounded or not, unknown), any scan points, whichever
fit raises, whatever values the fits leave in the trainable variables: stored values AND the order of
`trainable_vars` are those before the call. -/
theorem restore_likelihood_profile (E : Env) (v : Nat) (up down : List Val) (fault : Option Nat) (s : St) :
    (exec Fix.all E (.compute (.likeProf v up down) fault) s).1 = s :=
  restore_all E _ rfl s

/-- `get_params_error(params, …)`: any `params` (rejected values included), any number of finite-difference
evaluations (`correct_params`, `method="3-point"`), whichever evaluation raises. -/
theorem restore_params_error (E : Env) (p : List (Nat × PV)) (nfd : Nat) (fault : Option Nat) (s : St) :
    (exec Fix.all E (.compute (.paramsError p nfd) fault) s).1 = s :=
  restore_all E _ rfl s

/-- `factor_system.partial_amp` (`get_all_partial_amp`). -/
theorem restore_partial_amp (E : Env) (zs : List Nat) (fault : Option Nat) (s : St) :
    (exec Fix.all E (.compute (.partialAmp zs) fault) s).1 = s :=
  restore_all E _ rfl s

/-! ## the tree as it is: the four unpatched sites leak (witnesses; `E0`, `s0`, `s1` of Props/C17.lean) -/

/-- `PlotAllData`: "restores" all resonances instead of the selection that was active -/
theorem asis_plot_all_forgets_selection :
    exec Fix.none E0 (.compute (.plotAll [[.res 0]]) none) s1 = (s0, false) ∧ s1 ≠ s0 := by decide +kernel

/-- `PlotAllData`: the selection of the evaluation that raised stays -/
theorem asis_plot_all_eval_raises :
    exec Fix.none E0 (.compute (.plotAll [[.res 0], [.res 1]]) (some 2)) s0
      = ({ s0 with chainsIdx := [1], notFull := true }, true) := by decide +kernel

/-- `likelihood_profile` on a trainable variable, normal exit: the values are back but the variable has moved to the
END of `trainable_vars` (a value sequence / a cached error matrix no longer matches the names) -/
theorem asis_likelihood_profile_reorders :
    exec Fix.none E0 (.compute (.likeProf 0 [.lit 10, .lit 30] [.lit 9]) none) s0
      = ({ s0 with trainable := [2, 3, 0] }, false) := by decide +kernel

/-- `likelihood_profile`, second fit raises: the variable stays fixed at the scan point, the other trainable
variables stay where the first fit left them -/
theorem asis_likelihood_profile_fit_raises :
    exec Fix.none E0 (.compute (.likeProf 0 [.lit 10, .lit 30] [.lit 9]) (some 1)) s0
      = ({ s0 with params := [.lit 30, .lit 11, .tmp, .tmp], trainable := [2, 3] }, true) := by decide +kernel

/-- `likelihood_profile` on a variable with a bound: `set_fix` writes `Bound.get_y2x(value)` into the variable -/
theorem asis_likelihood_profile_bounded :
    exec Fix.none E0 (.compute (.likeProf 1 [.lit 11] []) none) s0
      = ({ s0 with params := [.lit 10, .y2x 1 (.lit 11), .lit 12, .lit 13] }, false) := by decide +kernel

/-- `likelihood_profile` inside `mask_params`: `set_params(get_params())` writes the masked view into the variables -/
theorem asis_likelihood_profile_under_mask :
    (exec Fix.none E0 (.block (.maskParams [(2, .lit 0)]) (.compute (.likeProf 0 [] []) none)) s0).1.params
      = [.lit 10, .lit 11, .f32 (.lit 0), .lit 13] := by decide +kernel

/-- `get_params_error(params)`: the model stays at `params` -/
theorem asis_params_error_keeps_params :
    exec Fix.none E0 (.compute (.paramsError [(2, .good (.lit 5))] 0) none) s0
      = ({ s0 with params := [.lit 10, .lit 11, .lit 5, .lit 13] }, false) := by decide +kernel

/-- `get_params_error(correct_params=…)` / `method="3-point"` raising midway: every trainable variable stays at the
last finite-difference point (on a normal exit of `cal_hesse_correct` too) -/
theorem asis_params_error_displaced :
    exec Fix.none E0 (.compute (.paramsError [] 4) none) s0
      = ({ s0 with params := [.tmp, .lit 11, .tmp, .tmp] }, false) := by decide +kernel

/-- `factor_system.temp_var` has no `finally` and saves the masked view -/
theorem asis_partial_amp_leaks :
    exec Fix.none E0 (.compute (.partialAmp [2, 3]) (some 0)) s0
      = ({ s0 with params := [.lit 10, .lit 11, .lit 0, .lit 0] }, true) ∧
    (exec Fix.none E0 (.block (.maskParams [(0, .lit 7)]) (.compute (.partialAmp [2]) none)) s0).1.params
      = [.f32 (.lit 7), .lit 11, .lit 12, .lit 13] := by decide +kernel

/-- with only the four new patches missing the property is false -/
theorem restore_all_false_without_round3_patches :
    ¬ ∀ (E : Env) (p : Prog) (s : St), noSet p = true →
      (exec { Fix.all with plotAll := false, likeProf := false, hesse := false, tempVar := false } E p s).1 = s := by
  intro h
  have h1 := h E0 (.compute (.likeProf 0 [.lit 10, .lit 30] [.lit 9]) none) s0 rfl
  revert h1
  decide +kernel

/-! ## sequence form, nested forms -/

/-- `amp.temp_params(<sequence>)` nested with the dict form and a mask, around ANY body (faults, computations,
`set_params` calls): restored. -/
theorem restore_nested_forms (E : Env) (vals : List PV) (m : List (Nat × Val)) (p : List (Nat × PV)) (body : Prog)
    (s : St) :
    (exec Fix.all E (.block (.absTempSeq vals) (.block (.maskParams m) (.block (.absTemp p) body))) s).1 = s :=
  restore_all E _ rfl s

/-- and in the other order (dict form outside, sequence form inside a `temp_used_res`) -/
theorem restore_nested_forms_rev (E : Env) (vals : List PV) (r : List Sel) (p : List (Nat × PV)) (body : Prog) (s : St) :
    (exec Fix.all E (.block (.absTemp p) (.block (.usedRes r) (.block (.absTempSeq vals) body))) s).1 = s :=
  restore_all E _ rfl s

/-- a sequence that is too short: `IndexError` after the first values were assigned — raised, restored -/
theorem seq_form_too_short :
    exec Fix.all E0 (.block (.absTempSeq [.good (.lit 1)]) .skip) s0 = (s0, true) ∧
    exec Fix.none E0 (.block (.absTempSeq [.good (.lit 1)]) .skip) s0
      = ({ s0 with params := [.lit 1, .lit 11, .lit 12, .lit 13] }, true) := by decide +kernel

/-- the sequence is assigned to `trainable_vars` IN ORDER (variable 1 is not trainable in `s0`) -/
theorem seq_form_order :
    exec Fix.all E0 (.block (.absTempSeq [.good (.lit 1), .good (.lit 2), .good (.lit 3)])
      (.setParams [])) { s0 with trainable := [3, 0, 2] } = ({ s0 with trainable := [3, 0, 2] }, false) ∧
    (setSeq [3, 0, 2] [.good (.lit 1), .good (.lit 2), .good (.lit 3)] s0.params).1 = [.lit 2, .lit 11, .lit 3, .lit 1] := by
  decide +kernel

/-- `vm.temp_params(<sequence>)` raises before it touches anything (any variant of the tree, any body) -/
theorem vm_temp_params_seq (fx : Fix) (E : Env) (vals : List PV) (body : Prog) (s : St) :
    exec fx E (.block (.vmTempSeq vals) body) s = (s, true) := rfl

/-! ## `set_params` inside a block body: what the code guarantees -/

/-- `set_params` is a permanent assignment (any variant of the tree) -/
theorem set_params_alone (fx : Fix) (E : Env) (q : List (Nat × PV)) (s : St) :
    exec fx E (.setParams q) s = ({ s with params := (setAll q s.params).1 }, (setAll q s.params).2) := rfl

/-- inside `amp.temp_params` (dict form) every `set_params` of the body — wherever it sits, whatever follows — is
undone at exit -/
theorem set_params_in_temp_params_undone (E : Env) (p : List (Nat × PV)) (body : Prog) (s : St) :
    (exec Fix.all E (.block (.absTemp p) body) s).1 = s :=
  restore_all E _ rfl s

/-- … and inside the sequence form -/
theorem set_params_in_temp_params_seq_undone (E : Env) (vals : List PV) (body : Prog) (s : St) :
    (exec Fix.all E (.block (.absTempSeq vals) body) s).1 = s :=
  restore_all E _ rfl s

/-- inside the other blocks (`mask_params`, `temp_used_res`, `temp_total_gls_one`, `temp_config`) a `set_params` of
the body is KEPT: after the block the state is the entry state with exactly the assignments of `set_params` -/
theorem set_params_in_other_blocks_kept (E : Env) (q : List (Nat × PV)) (s : St) :
    (∀ m, exec Fix.all E (.block (.maskParams m) (.setParams q)) s = exec Fix.all E (.setParams q) s) ∧
    (∀ r, exec Fix.all E (.block (.usedRes r) (.setParams q)) s = exec Fix.all E (.setParams q) s) ∧
    exec Fix.all E (.block .glsOne (.setParams q)) s = exec Fix.all E (.setParams q) s ∧
    (∀ k v, k < s.config.length →
      exec Fix.all E (.block (.tempConfig k v) (.setParams q)) s = exec Fix.all E (.setParams q) s) := by
  refine ⟨fun m => ?_, fun r => ?_, ?_, fun k v hk => ?_⟩
  · simp [exec, execBlock, Fix.all]
  · simp [exec, execBlock, Fix.all, restoreChains, setUsedRes, setUsedChains]
  · simp [exec, execBlock, Fix.all]
  · have hnot : ¬ s.config.length ≤ k := by omega
    simp [exec, execBlock, Fix.all, hnot, set_set_back s.config k v hnot]

/-- in general: everything but the parameters is restored whatever `set_params` the bodies do (`restore_upTo`) -/
theorem set_params_touches_params_only (E : Env) (p : Prog) (s : St) : UpTo s (exec Fix.all E p s).1 :=
  restore_upTo Fix.all E p (covered_all p) s

/-- `vm.temp_params(dict)` snapshots ITS keys only: a `set_params` of the body is undone on those keys and kept on
the others (key 2 is back at 12, key 3 keeps the 7 written by the body) -/
theorem vm_temp_params_restores_its_keys_only :
    exec Fix.all E0 (.block (.vmTemp [(2, .good (.lit 5))]) (.setParams [(2, .good (.lit 6)), (3, .good (.lit 7))])) s0
      = ({ s0 with params := [.lit 10, .lit 11, .lit 12, .lit 7] }, false) := by decide +kernel

end TfPwaV.C17
