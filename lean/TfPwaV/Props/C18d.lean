import TfPwaV.Proofs.DataZ
import TfPwaV.Props.C18c
/-!
# C18d — merge of LazyCalls = merge of their eager values (also batch by batch), files, LazyFile, cache naming

Theorems about the model `TfPwaV.DataZ` (tied to the source by the exact correspondence of harness/c18_d.py).
Every statement quantifies over every operand list / data tree / batch size / history of reads.
Equality of two dicts is stated key by key (`lookup k a = lookup k b` for every `k`): that is Python's `==` on dicts,
and the key order of a `data_merge` result comes out of a Python `set`.
-/
namespace TfPwaV.C18d
open TfPwaV.Data TfPwaV.DataX TfPwaV.DataY TfPwaV.DataZ

variable {α β γ : Type}

/-! ## data_merge(L0, L1, …) of LazyCalls -/

/-- ★ `lazy_merge_eq_eager_merge`: for every LazyCall `L`, every list `others` of further LazyCalls (ANY operands, not
    only pieces of one sample; any extras) and every `f` such that
    * `data_merge` of the `x` succeeds (`hx`: matching structures and inner shapes) and so does `data_merge` of the
      attached items (`he`),
    * `f` returns dicts and is event-wise on these operands: `f` of the merged `x` is the merge of the `f(xᵢ)` (`hfm`),
    * (the stated hypothesis) a key that is an output key of `f` for some operand is attached to ALL operands or to NONE,
    `data_merge(L, *others)` is the LazyCall `(X, e)` and its `eval()` = `{**f(X), **e}` equals
    `data_merge(L.eval(), *[o.eval() for o in others])` -- which succeeds -- key by key. -/
theorem lazy_merge_eq_eager_merge (f : D α → D β) (L : Lazy α β) (others : List (Lazy α β))
    (X : D α) (e fx0 fX : List (String × D β)) (fx : Lazy α β → List (String × D β))
    (hx : merge1 L.x (others.map (·.x)) = some X)
    (he : mergeKV L.extra (others.map (·.extra)) = some e)
    (hf0 : f L.x = .node .dict fx0) (hfo : ∀ o ∈ others, f o.x = .node .dict (fx o)) (hfX : f X = .node .dict fX)
    (hfm : merge1 (f L.x) (others.map fun o => f o.x) = some (f X))
    (hnd0 : (fx0.map (·.1)).Nodup)
    (hndL : (L.extra.map (·.1)).Nodup) (hndo : ∀ o ∈ others, (o.extra.map (·.1)).Nodup)
    (hyp : ∀ k, OutputKey fx0 fx others k → AttachedAll L others k ∨ AttachedNone L others k) :
    L.merge others = some ⟨X, e, none⟩ ∧
    (⟨X, e, none⟩ : Lazy α β).eval f = some (.node .dict (dictUpdate fX e)) ∧
    ∃ ev, eagerMerge f L others = some (.node .dict ev) ∧ ∀ k, lookup k ev = lookup k (dictUpdate fX e) := by
  have hA : L.merge others = some ⟨X, e, none⟩ := by
    unfold Lazy.merge
    have h1 := merge1_dicts L.extra (others.map (·.extra))
    rw [List.map_map, he] at h1
    simp only [Function.comp_def, Option.map_some] at h1
    rw [h1, hx]
  have hfm' : mergeKV fx0 (others.map fx) = some fX := by
    have h1 : (others.map fun o => f o.x) = (others.map fx).map (fun c => D.node .dict c) := by
      rw [List.map_map]; exact List.map_congr_left (fun o ho => hfo o ho)
    rw [hf0, h1, merge1_dicts, hfX] at hfm
    cases hm : mergeKV fx0 (others.map fx) with
    | none => simp [hm] at hfm
    | some r => simp only [hm, Option.map_some, Option.some.injEq, D.node.injEq, true_and] at hfm; rw [hfm]
  obtain ⟨ev, hev, _, _, hlk⟩ := merge_eager_core L others e fx0 fX fx he hfm' hnd0 hndL hndo hyp
  refine ⟨hA, lazyEval_dict f X fX e hfX, ev, ?_, hlk⟩
  unfold eagerMerge
  have h0 : L.eval f = some (.node .dict (dictUpdate fx0 L.extra)) := lazyEval_dict f L.x fx0 L.extra hf0
  have h1 : others.mapM (Lazy.eval f) = some (others.map fun o => D.node .dict (dictUpdate (fx o) o.extra)) :=
    mapM_of_forall_mem (Lazy.eval f) _ others (fun o ho => lazyEval_dict f o.x (fx o) o.extra (hfo o ho))
  rw [h0, h1]
  have h2 := merge1_dicts (dictUpdate fx0 L.extra) (others.map fun o => dictUpdate (fx o) o.extra)
  rw [List.map_map, hev] at h2
  simpa [Function.comp_def] using h2

/-- the hypotheses are satisfiable by non-trivial operands: two pieces (2 and 1 events), `f` doubles `x["a"]` into "y",
    "weight" attached to both, "tag" to the first only -/
example :
    let f : D Int → D Int := fun d => .node .dict [("y", mapLeaves (fun r => r.map (2 * ·)) d)]
    let L : Lazy Int Int := ⟨.leaf [1, 2], [("weight", .leaf [5, 6]), ("tag", .leaf [0, 0])], none⟩
    let o : Lazy Int Int := ⟨.leaf [3], [("weight", .leaf [7])], none⟩
    merge1 L.x ([o].map (·.x)) = some (.leaf [1, 2, 3]) ∧
    mergeKV L.extra ([o].map (·.extra)) = some [("weight", .leaf [5, 6, 7])] ∧
    merge1 (f L.x) ([o].map fun o => f o.x) = some (f (.leaf [1, 2, 3])) ∧
    (∀ k, OutputKey [("y", D.leaf [2, 4])] (fun _ => [("y", D.leaf [6])]) [o] k → AttachedAll L [o] k ∨ AttachedNone L [o] k) := by
  refine ⟨by rfl, by rfl, by rfl, ?_⟩
  intro k hk
  have hy : k = "y" := by
    rcases hk with h | ⟨o', _, h⟩
    · by_cases e : "y" = k
      · exact e.symm
      · simp [lookup, e] at h
    · by_cases e : "y" = k
      · exact e.symm
      · simp [lookup, e] at h
  subst hy
  exact Or.inr ⟨by decide, by intro o' ho'; simp at ho'; subst ho'; decide⟩

/-- ★ `merged_iter_eq_split_eager`: under the hypotheses of `lazy_merge_eq_eager_merge`, for every batch size `b > 0`, when the
    merged `x` has `n > 0` rows per array and holds an array, the merged attached items have `n` rows, `f` is event-wise on the
    row windows of the merged `x`, and the eager value has `n` rows per array and holds an array:
    `iter(data_merge(L, *others).as_dataset(b))` yields the `ceil(n/b)` row windows of `{**f(X), **e}`,
    `data_split(data_merge(L.eval(), …), b)` yields the `ceil(n/b)` row windows of the eager merge, and batch `j` of the one
    equals batch `j` of the other key by key.  (Without an array in the eager value the two differ in length: the lazy
    iteration follows `x`, `data_split` of an array-less structure yields MAX_ITER copies.) -/
theorem merged_iter_eq_split_eager (f : D α → D β) (L : Lazy α β) (others : List (Lazy α β))
    (X : D α) (e fx0 fX : List (String × D β)) (fx : Lazy α β → List (String × D β)) (b n : Nat)
    (hx : merge1 L.x (others.map (·.x)) = some X)
    (he : mergeKV L.extra (others.map (·.extra)) = some e)
    (hf0 : f L.x = .node .dict fx0) (hfo : ∀ o ∈ others, f o.x = .node .dict (fx o)) (hfX : f X = .node .dict fX)
    (hfm : merge1 (f L.x) (others.map fun o => f o.x) = some (f X))
    (hnd0 : (fx0.map (·.1)).Nodup)
    (hndL : (L.extra.map (·.1)).Nodup) (hndo : ∀ o ∈ others, (o.extra.map (·.1)).Nodup)
    (hyp : ∀ k, OutputKey fx0 fx others k → AttachedAll L others k ∨ AttachedNone L others k)
    (hf : ∀ j, f (mapLeaves (win b j) X) = mapLeaves (win b j) (f X))
    (huX : uniform n X = true) (hleaf : noArray X = false) (hue : uniform n (D.node .dict e) = true)
    (hu : uniform n (D.node .dict (dictUpdate fX e)) = true) (hleafv : noArray (D.node .dict (dictUpdate fX e)) = false) :
    ∃ ev, eagerMerge f L others = some (.node .dict ev) ∧
      mergedIter f L others b = some (tab (nChunks b n) fun j => D.node .dict (mapLeavesCh (win b j) (dictUpdate fX e))) ∧
      eagerSplit f L others b = some (tab (nChunks b n) fun j => D.node .dict (mapLeavesCh (win b j) ev)) ∧
      ∀ j k, lookup k (mapLeavesCh (win b j) (dictUpdate fX e)) = lookup k (mapLeavesCh (win b j) ev) := by
  obtain ⟨hA, _, _⟩ := lazy_merge_eq_eager_merge f L others X e fx0 fX fx hx he hf0 hfo hfX hfm hnd0 hndL hndo hyp
  have hfm' : mergeKV fx0 (others.map fx) = some fX := by
    have h1 : (others.map fun o => f o.x) = (others.map fx).map (fun c => D.node .dict c) := by
      rw [List.map_map]; exact List.map_congr_left (fun o ho => hfo o ho)
    rw [hf0, h1, merge1_dicts, hfX] at hfm
    cases hm : mergeKV fx0 (others.map fx) with
    | none => simp [hm] at hfm
    | some r => simp only [hm, Option.map_some, Option.some.injEq, D.node.injEq, true_and] at hfm; rw [hfm]
  obtain ⟨ev, hev, hndev, hndv, hlk⟩ := merge_eager_core L others e fx0 fX fx he hfm' hnd0 hndL hndo hyp
  have hE : eagerMerge f L others = some (.node .dict ev) := by
    unfold eagerMerge
    have h0 : L.eval f = some (.node .dict (dictUpdate fx0 L.extra)) := lazyEval_dict f L.x fx0 L.extra hf0
    have h1 : others.mapM (Lazy.eval f) = some (others.map fun o => D.node .dict (dictUpdate (fx o) o.extra)) :=
      mapM_of_forall_mem (Lazy.eval f) _ others (fun o ho => lazyEval_dict f o.x (fx o) o.extra (hfo o ho))
    rw [h0, h1]
    have h2 := merge1_dicts (dictUpdate fx0 L.extra) (others.map fun o => dictUpdate (fx o) o.extra)
    rw [List.map_map, hev] at h2
    simpa [Function.comp_def] using h2
  have hmem := mem_iff_of_lookup_eq ev (dictUpdate fX e) hndev hndv hlk
  have huev : uniform n (D.node .dict ev) = true := by
    simp only [uniform] at hu ⊢
    rw [uniformCh_eq_all] at hu ⊢
    rw [all_eq_of_mem_iff _ ev (dictUpdate fX e) hmem]; exact hu
  have hlev : noArray (D.node .dict ev) = false := by
    simp only [noArray] at hleafv ⊢
    rw [noArrayCh_eq_all] at hleafv ⊢
    rw [all_eq_of_mem_iff _ ev (dictUpdate fX e) hmem]; exact hleafv
  refine ⟨ev, hE, ?_, ?_, ?_⟩
  · unfold mergedIter
    rw [hA]
    simp only [Option.bind_some, Lazy.asDataset, Lazy.iter]
    rw [C18.lazyIterF_batches f X fX e b n hfX hf huX hleaf hue]
    simp only [mapLeaves]
  · unfold eagerSplit
    rw [hE]
    simp only [Option.map_some]
    rw [splitF_eq b n _ huev, hlev]
    simp only [Bool.false_eq_true, if_false, mapLeaves]
  · intro j k
    rw [lookup_mapLeavesCh_map, lookup_mapLeavesCh_map, hlk]

/-- the counter-example OUTSIDE the hypothesis: "y" is an output key of `f` and is attached to the first operand only.
    The lazy merge drops the item (key intersection of the extras) and returns `f` of all events under "y"; the eager merge
    concatenates the attached item of the first operand with the output of `f` for the second: the two sides differ. -/
theorem lazy_merge_excluded_differs :
    let f : D Int → D Int := fun d => .node .dict [("y", mapLeaves (fun r => r.map (2 * ·)) d)]
    let L : Lazy Int Int := ⟨.leaf [1, 2], [("y", .leaf [100, 200])], none⟩
    let o : Lazy Int Int := ⟨.leaf [3], [], none⟩
    ((L.merge [o]).bind (Lazy.eval f)).map leafList = some [[2, 4, 6]] ∧
    (eagerMerge f L [o]).map leafList = some [[100, 200, 6]] ∧
    ¬ (AttachedAll L [o] "y" ∨ AttachedNone L [o] "y") := by
  refine ⟨by decide, by decide, ?_⟩
  intro h
  rcases h with h | h
  · have := h.2 ⟨.leaf [3], [], none⟩ (by simp)
    simp [lookup] at this
  · have := h.1
    simp [lookup] at this

/-- the hypotheses of `merged_iter_eq_split_eager` that are not already in the example above are satisfiable (same operands):
    3 merged events, batch size 2 -/
example :
    let f : D Int → D Int := fun d => .node .dict [("y", mapLeaves (fun r => r.map (2 * ·)) d)]
    (∀ j, f (mapLeaves (win 2 j) (.leaf [1, 2, 3])) = mapLeaves (win 2 j) (f (.leaf [1, 2, 3]))) ∧
    uniform 3 (D.leaf [1, 2, 3] : D Int) = true ∧ noArray (D.leaf [1, 2, 3] : D Int) = false ∧
    uniform 3 (D.node .dict [("weight", (D.leaf [5, 6, 7] : D Int))]) = true ∧
    uniform 3 (D.node .dict (dictUpdate [("y", (D.leaf [2, 4, 6] : D Int))] [("weight", .leaf [5, 6, 7])])) = true ∧
    noArray (D.node .dict (dictUpdate [("y", (D.leaf [2, 4, 6] : D Int))] [("weight", .leaf [5, 6, 7])])) = false := by
  refine ⟨?_, by decide, by decide, by decide, by decide, by decide⟩
  intro j
  simp [mapLeaves, mapLeavesCh, win, List.map_drop, List.map_take]

/-! ## save_data / save_dataz / load_data -/

/-- ★ `save_load_roundtrip`: for EVERY dict `d` (any nesting below it: dicts, lists, tuples, empty containers, any arrays),
    `load_data(save_data(d))` (npy: a pickled 0-d object array) and `load_data(save_dataz(d))` (npz with the one entry
    "arr_0") return `d`: the `try data["arr_0"].item() / except IndexError: data.item() / except ValueError` chain of
    `load_data` ends in the branch that unwraps the object, for both formats; also after the proposed fix. -/
theorem save_load_roundtrip (one : α → Bool) (fixed : Bool) (ch : List (String × D α)) :
    (saveData (.node .dict ch)).bind (loadDataV fixed one) = some (.tree (.node .dict ch)) ∧
    (saveDataz (.node .dict ch)).bind (loadDataV fixed one) = some (.tree (.node .dict ch)) := by
  cases fixed <;> exact ⟨rfl, rfl⟩

/-- a bare array saved with `save_data`: `load_data` returns the array unless it has exactly ONE element -- then
    `data.item()` succeeds and a Python scalar comes back (`load_bare_array_one`: the boundary case, reported by the search
    under `load_data:bare-array:one-element`); saved with `save_dataz` the `ValueError` of `.item()` is not caught.
    After the proposed fix all four return the array. -/
theorem load_bare_array (one : α → Bool) (r : List α) (h : ∀ x, r = [x] → one x = false) :
    (saveData (.leaf r)).bind (loadDataV false one) = some (.tree (.leaf r)) ∧
    (saveDataz (.leaf r)).bind (loadDataV false one) = none ∧
    (saveData (.leaf r)).bind (loadDataV true one) = some (.tree (.leaf r)) ∧
    (saveDataz (.leaf r)).bind (loadDataV true one) = some (.tree (.leaf r)) := by
  refine ⟨?_, ?_, rfl, rfl⟩
  · match r, h with
    | [], _ => rfl
    | [x], h => simp [saveData, toNp, loadDataV, DataZ.loadData, item, h x rfl, unwrap]
    | _ :: _ :: _, _ => rfl
  · match r, h with
    | [], _ => rfl
    | [x], h => simp [saveDataz, toNp, loadDataV, DataZ.loadData, item, h x rfl, lookupP]
    | _ :: _ :: _, _ => rfl

example : ∀ x : List Int, ([[1, 2]] : List (List Int)) = [x] → oneRow x = false := by
  intro x hx; simp at hx; subst hx; decide

theorem load_bare_array_one (one : α → Bool) (x : α) (h : one x = true) :
    (saveData (.leaf [x])).bind (loadDataV false one) = some (.scalar x) ∧
    (saveDataz (.leaf [x])).bind (loadDataV false one) = some (.scalar x) := by
  simp [saveData, saveDataz, toNp, loadDataV, DataZ.loadData, item, h, lookupP]

example : oneRow [5] = true := by decide

/-! ## flat npz files: `np.savez(file, **flatten_dict_data(d))` read back by key -/

theorem noColl_child : (ch : List (String × D α)) → C18b.NoCollCh ch → ∀ p ∈ ch, C18b.NoColl p.2
  | [], _, p, hp => by simp at hp
  | (k, v) :: rest, h, p, hp => by
    have h' : C18b.NoColl v ∧ C18b.NoCollCh rest := by simpa [C18b.NoCollCh] using h
    rcases List.mem_cons.mp hp with e | e
    · subst e; exact h'.1
    · exact noColl_child rest h'.2 p e

/-- the entry of the array reached by `path` from a child flattened under `key` -/
theorem flat_entry_of_path : (path : List Key) → (v : D α) → (key : String) → C18b.NoColl v → (r : List α) →
    indexExact v path = some r → (flatKeyFrom key path, r) ∈ flatV key v
  | [], v, key, _, r, h => by
    cases v with
    | leaf r' => simp [indexExact, asLeaf] at h; subst h; simp [flatV, flatKeyFrom]
    | node k ch => simp [indexExact, asLeaf] at h
  | q :: qs, v, key, hnc, r, h => by
    cases v with
    | leaf r' => cases q <;> simp [indexExact, stepExact] at h
    | node k ch =>
      have hnc' : ((flatIns (k == .dict) 0 ch).map (·.1)).Nodup ∧ C18b.NoCollCh ch := by simpa [C18b.NoColl] using hnc
      simp only [indexExact] at h
      cases hs : stepExact (.node k ch) q with
      | none => simp [hs] at h
      | some w =>
        simp only [hs, Option.bind_some] at h
        have hsub : C18b.NoColl w ∧ ∀ e ∈ flatV (rawKey q) w, e ∈ flatIns (k == .dict) 0 ch := by
          cases q with
          | name s =>
            cases k with
            | dict =>
              simp only [stepExact] at hs
              exact ⟨noColl_child ch hnc'.2 (s, w) (mem_of_lookup ch s w hs), flatV_sub_dict s w ch hs 0⟩
            | list => simp [stepExact] at hs
            | tuple => simp [stepExact] at hs
          | pos i =>
            cases k with
            | dict => simp [stepExact] at hs
            | list =>
              simp only [stepExact] at hs
              cases hp : ch[i]? with
              | none => simp [hp] at hs
              | some p =>
                simp only [hp, Option.map_some, Option.some.injEq] at hs
                subst hs
                have := flatV_sub_list p ch i hp 0
                simp only [Nat.zero_add] at this
                exact ⟨noColl_child ch hnc'.2 p (List.mem_of_getElem? hp), this⟩
            | tuple =>
              simp only [stepExact] at hs
              cases hp : ch[i]? with
              | none => simp [hp] at hs
              | some p =>
                simp only [hp, Option.map_some, Option.some.injEq] at hs
                subst hs
                have := flatV_sub_list p ch i hp 0
                simp only [Nat.zero_add] at this
                exact ⟨noColl_child ch hnc'.2 p (List.mem_of_getElem? hp), this⟩
        have ih := flat_entry_of_path qs w (rawKey q) hsub.1 r h
        simp only [flatV, flatKeyFrom]
        rw [insAll_fresh _ [] (by simpa using hnc'.1)]
        simp only [List.nil_append]
        exact List.mem_map.mpr ⟨_, hsub.2 _ ih, rfl⟩

/-- ★ `dataz_roundtrip`: for every container `d` in which no two joined keys collide (`NoColl`, the guard of
    `flatten_lossless`), the file written by `np.savez(file, **flatten_dict_data(d))`
    * lists its keys in the order of the loop of `flatten_dict_data` and holds every array of `d` exactly once, in
      `data_map` order (empty containers contribute nothing -- they are the part of `d` the file does not determine);
    * returns, for EVERY key path that addresses an array `r` of `d` (dict keys, list / tuple positions, any depth),
      that array under the key `flatKey path` = the `str()` of the path elements joined by "/":
      `np.load(file)[flatKey path] = r`.
    So reading the flat file by key (as `NpzData.load_data` does with `npz[str(k)]`) is the inverse of the flattening on
    the arrays; tf_pwa has no function that rebuilds the containers. -/
theorem dataz_roundtrip (k : Kind) (ch : List (String × D α)) (h : C18b.NoColl (.node k ch)) :
    npzFiles (saveFlat (.node k ch)) = (flatIns (k == .dict) 0 ch).map (·.1) ∧
    (flatten (.node k ch)).map (·.2) = leafList (.node k ch) ∧
    ∀ path r, indexExact (.node k ch) path = some r → npzGet (flatKey path) (saveFlat (.node k ch)) = some r := by
  have hl := C18b.flatten_lossless k ch h
  have hnc' : ((flatIns (k == .dict) 0 ch).map (·.1)).Nodup ∧ C18b.NoCollCh ch := by simpa [C18b.NoColl] using h
  refine ⟨?_, hl.2, ?_⟩
  · simp [saveFlat, npzFiles, hl.1, List.map_map, Function.comp_def]
  · intro path r hidx
    cases path with
    | nil => simp [indexExact, asLeaf] at hidx
    | cons q qs =>
      simp only [indexExact] at hidx
      cases hs : stepExact (.node k ch) q with
      | none => simp [hs] at hidx
      | some w =>
        simp only [hs, Option.bind_some] at hidx
        have hsub : C18b.NoColl w ∧ ∀ e ∈ flatV (rawKey q) w, e ∈ flatIns (k == .dict) 0 ch := by
          cases q with
          | name s =>
            cases k with
            | dict =>
              simp only [stepExact] at hs
              exact ⟨noColl_child ch hnc'.2 (s, w) (mem_of_lookup ch s w hs), flatV_sub_dict s w ch hs 0⟩
            | list => simp [stepExact] at hs
            | tuple => simp [stepExact] at hs
          | pos i =>
            cases k with
            | dict => simp [stepExact] at hs
            | list =>
              simp only [stepExact] at hs
              cases hp : ch[i]? with
              | none => simp [hp] at hs
              | some p =>
                simp only [hp, Option.map_some, Option.some.injEq] at hs
                subst hs
                have := flatV_sub_list p ch i hp 0
                simp only [Nat.zero_add] at this
                exact ⟨noColl_child ch hnc'.2 p (List.mem_of_getElem? hp), this⟩
            | tuple =>
              simp only [stepExact] at hs
              cases hp : ch[i]? with
              | none => simp [hp] at hs
              | some p =>
                simp only [hp, Option.map_some, Option.some.injEq] at hs
                subst hs
                have := flatV_sub_list p ch i hp 0
                simp only [Nat.zero_add] at this
                exact ⟨noColl_child ch hnc'.2 p (List.mem_of_getElem? hp), this⟩
        have hmem := hsub.2 _ (flat_entry_of_path qs w (rawKey q) hsub.1 r hidx)
        have hlk := lookupP_of_mem_nodup _ hnc'.1 _ hmem
        simp only [saveFlat, npzGet, flatKey, hl.1, lookupP_map_arr, hlk, Option.map_some]

/-- the exact addressing used in `dataz_roundtrip` is `data_index`: whenever a key path reaches an array by exact keys /
    positions, `data_index(d, path)` returns that array -/
theorem index_exact_is_data_index : (qs : List Key) → (q : Key) → (d : D α) → (r : List α) →
    indexExact d (q :: qs) = some r → index d (q :: qs) = some (.leaf r)
  | qs, q, d, r, h => by
    simp only [indexExact] at h
    cases hs : stepExact d q with
    | none => simp [hs] at h
    | some w =>
      simp only [hs, Option.bind_some] at h
      have hi : idx1 d q = some w := by
        cases q with
        | name s =>
          cases d with
          | leaf _ => simp [stepExact] at hs
          | node k ch =>
            cases k with
            | dict => simp only [stepExact] at hs; simp [idx1, hs]
            | list => simp [stepExact] at hs
            | tuple => simp [stepExact] at hs
        | pos i =>
          cases d with
          | leaf _ => simp [stepExact] at hs
          | node k ch =>
            cases k with
            | dict => simp [stepExact] at hs
            | list => simpa [stepExact, idx1] using hs
            | tuple => simpa [stepExact, idx1] using hs
      cases qs with
      | nil =>
        cases w with
        | leaf r' => simp [indexExact, asLeaf] at h; subst h; simp [index, hi]
        | node k ch => simp [indexExact, asLeaf] at h
      | cons q' qs' =>
        have ih := index_exact_is_data_index qs' q' w r h
        simp only [index, hi]
        exact ih

/-- the hypotheses are satisfiable: an array inside a tuple inside a dict, addressed by ("t", 1), flat key "t/1" -/
example : C18b.NoColl (D.node .dict [("a", .leaf [1]), ("t", .node .tuple [("-", .leaf [2]), ("-", .leaf [3])])] : D Nat) ∧
    indexExact (D.node .dict [("a", .leaf [1]), ("t", .node .tuple [("-", .leaf [2]), ("-", .leaf [3])])] : D Nat)
      [.name "t", .pos 1] = some [3] ∧ flatKey [.name "t", .pos 1] = "t/1" := by
  refine ⟨?_, by decide, by decide +kernel⟩
  simp only [C18b.NoColl, C18b.NoCollCh]
  decide +kernel

/-- the excluded case: with a collision the file holds ONE array under the joined key; the array at path ("a", "b") is not
    the one found under "a/b" -/
theorem dataz_collision_loses (x y : List α) :
    npzGet (flatKey [.name "a", .name "b"]) (saveFlat (D.node .dict [("a", .node .dict [("b", .leaf x)]), ("a/b", .leaf y)])) = some y ∧
    indexExact (D.node .dict [("a", .node .dict [("b", .leaf x)]), ("a/b", .leaf y)]) [.name "a", .name "b"] = some x := by
  constructor
  · have := C18b.flatten_collision_loses "a" "b" "a/b" x y (by decide +kernel)
    simp only [saveFlat, this]
    have e : flatKey [.name "a", .name "b"] = "a/b" := by decide +kernel
    simp [npzGet, e, lookupP]
  · simp [indexExact, stepExact, lookup, asLeaf]

/-! ## LazyFile under a HeavyCall -/

/-- ★ `lazy_file_batches`: `LazyCall(HeavyCall(g), LazyFile(x))` iterates the cached `from_generator(data_split(x, b)).map(g)`
    pipeline (first branch of `__iter__`); for EVERY `g`, `x`, extra and batch size this is what the plain branch
    `{**g(i), **j}` over `data_split(x, b)` yields; and for every dict `x` with `n` rows per array holding an array, every
    event-wise `g` returning a dict, every extra with `n` rows: batch `j` is the `j`-th row window of the eager value
    `{**g(x), **extra}` = `eval()` -- the slices of the lazy file are the slices of the eager data. -/
theorem lazy_file_batches (g : D α → D β) (x : D α) (e2 : D β) (b : Nat) :
    lazyFileHeavyIter g x e2 b = lazyIterF g x e2 b ∧
    ∀ (gx ex : List (String × D β)) (n : Nat), e2 = .node .dict ex → g x = .node .dict gx →
      (∀ j, g (mapLeaves (win b j) x) = mapLeaves (win b j) (g x)) →
      uniform n x = true → noArray x = false → uniform n (D.node .dict ex) = true →
      lazyFileHeavyIter g x e2 b = some (tab (nChunks b n) fun j => mapLeaves (win b j) (D.node .dict (dictUpdate gx ex))) ∧
      lazyFileEval g x e2 = some (.node .dict (dictUpdate gx ex)) := by
  have h1 : lazyFileHeavyIter g x e2 b = lazyIterF g x e2 b := by
    simp only [lazyFileHeavyIter, lazyIterF, lazyIterOverF, List.length_map, List.zipWith_map_left]
  refine ⟨h1, ?_⟩
  intro gx ex n he hgx hg hux hleaf hue
  subst he
  rw [h1]
  exact ⟨C18.lazyIterF_batches g x gx ex b n hgx hg hux hleaf hue, lazyEval_dict g x gx ex hgx⟩

example : uniform 3 (D.node .dict [("a", (D.leaf [1, 2, 3] : D Nat))]) = true ∧
    noArray (D.node .dict [("a", (D.leaf [1, 2, 3] : D Nat))]) = false ∧
    uniform 3 (D.node .dict [("weight", (D.leaf [7, 8, 9] : D Nat))]) = true := by
  refine ⟨by decide, by decide, by decide⟩

/-! ## the cache of a HeavyCall LazyCall: one cache per (sample name, batch size) -/

/-- the cache name of `as_dataset` separates batch sizes: `cached_file + name + "_" + str(b)` is injective in `b` -/
theorem cache_name_injective (dir name : String) (b b' : Nat) (h : cacheName true dir name b = cacheName true dir name b') :
    b = b' := by
  simp only [cacheName, if_true] at h
  exact natToString_inj b b' ((String.append_right_inj _).mp h)

/-- ★ `cache_key_separates_batch_sizes`: for every sample (`dir`, `name`), every pipeline (`compute b` = the batches the
    pipeline yields for batch size `b`), every store in which every entry was written by a pass with the batch size its key
    names (in particular the empty store, and the store a previous session left on disk), and EVERY history of batch sizes
    read by new objects: each pass sees exactly `compute b` for its own `b` -- re-reading with another batch size never
    replays stale batches -- and the store stays consistent.  Holds for every injective key; the key of the code is one. -/
theorem cache_key_separates_batch_sizes (dir name : String) (compute : Nat → List β) (st : Store String β)
    (hst : Consistent (cacheName true dir name) compute st) (hist : List Nat) :
    (readAll (cacheName true dir name) compute st hist).1 = hist.map compute ∧
    Consistent (cacheName true dir name) compute (readAll (cacheName true dir name) compute st hist).2 :=
  readAll_fresh _ (cache_name_injective dir name) compute hist st hst

example (dir name : String) (compute : Nat → List Nat) : Consistent (cacheName true dir name) compute [] := by
  intro p hp; simp at hp

/-- the refuted alternative (the name without the batch size, seeded change C18-03): the second pass with ANOTHER batch size
    replays the batches of the first one, for every pipeline -/
theorem cache_without_batch_size_replays_stale (dir name : String) (compute : Nat → List β) (b1 b2 : Nat) :
    (readAll (cacheName false dir name) compute [] [b1, b2]).1 = [compute b1, compute b1] := by
  simp [readAll, readThrough, lookupK, cacheName]

/-- e.g. 5 events read with batch size 2 and then 3: the second pass sees batches of 2, 2, 1 events instead of 3, 2 -/
example : (readAll (cacheName false "d/" "smp") (fun b => (chunks b (List.range 5)).map List.length) [] [2, 3]).1 =
    [[2, 2, 1], [2, 2, 1]] ∧ (fun b => (chunks b (List.range 5)).map List.length) 3 = [3, 2] := by
  constructor
  · rw [cache_without_batch_size_replays_stale]; decide
  · decide

end TfPwaV.C18d
