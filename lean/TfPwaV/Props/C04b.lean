import TfPwaV.Proofs.AngleBeta
import TfPwaV.Proofs.Cascade
import TfPwaV.Gen.SpinlessR
/-!
# C04b — the helicity angle of `cal_angle` IS the boost-defined angle of the closed form

`Props/C04.lean` proves `helAmp = closedTerm` given the polar helicity angle `β` of the resonance decay; the closed
form of the property statement takes `cos θ_k` "computed independently from the four-momenta"
(`SpinlessR.chainKin`: boost everything to the parent rest frame, then along the flight direction of the resonance).
This file closes the gap between the two: for the chain `A → R c, R → a b` the angle that the model of
`cal_angle.py` (`CascadeR.calAngle`: `infer_momentum`, `cal_chain_boost`, `cal_helicity_angle` with
`angle_zx_z_getx` / `cross_unit`, the model that C11 ties to the implementation) returns for the vertex `R → a b`
satisfies `cos β = chainKin.cosT` — for ALL final four-momenta outside the code's own degenerate branches
(`cross_unit` falls back when `|z × w| < 1e-14`).
-/
open TfPwaV.ScalarR
namespace TfPwaV.C04
open TfPwaV.KinR TfPwaV.AngleR TfPwaV.CascadeR TfPwaV.SpinlessR

/-- the momenta tree `{A: {R: {a, b}, c}}` of the chain `A → R c, R → a b` -/
def chainTree (pa pb pc : V4) : MTree := .node (.node (.leaf pa) (.leaf pb)) (.leaf pc)

/-- `ang[R → a b][a]["beta"]` as the model of `cal_angle_from_momentum` computes it -/
noncomputable def calBetaR (pa pb pc : V4) : ℝ :=
  match calAngle (chainTree pa pb pc) with
  | .node _ _ _ _ _ (.node _ _ b1 _ _ _ _) _ => b1
  | _ => 0

/-- momentum of the resonance and of `a` as `cal_chain_boost` sees them: R in the rest frame of A, a in the rest
frame of R reached from there -/
noncomputable def rInA (pa pb pc : V4) : V4 := ((pa.add pb).add pc).restVector (pa.add pb)
noncomputable def aInR (pa pb pc : V4) : V4 :=
  (rInA pa pb pc).restVector (((pa.add pb).add pc).restVector pa)

theorem restVector_add (s p q : V4) : s.restVector (p.add q) = (s.restVector p).add (s.restVector q) := by
  unfold V4.restVector; exact C11.boost_add p q _

theorem helicity_angle_is_boost_angle (pa pb pc : V4)
    (hs : eps ≤ ((rInA pa pb pc).vect.cross (aInR pa pb pc).vect).norm)
    (hz : eps ≤ (rInA pa pb pc).vect.norm) :
    kcos (calBetaR pa pb pc) = (chainKin pa pb pc).cosT := by
  have hb := beta_cos (rInA pa pb pc).vect
    (angleZxZGetx ⟨0, 0, 1⟩ ⟨1, 0, 0⟩ (rInA pa pb pc).vect).x2 (aInR pa pb pc).vect hs hz
  have hr : (((pa.add pb).add pc).restVector pa).add (((pa.add pb).add pc).restVector pb) = rInA pa pb pc := by
    unfold rInA; rw [restVector_add]
  unfold chainKin
  simp only [hr]
  unfold calBetaR chainTree calAngle calChainBoost
  simp only [inferMomentum, MTree.total, chainBoost, PTree.p, helicityAngle]
  exact hb

/-- a boost by the zero velocity is the identity (guard branch `gamma2 = 0`) -/
theorem restVector_at_rest (E : ℝ) (q : V4) : (⟨E, 0, 0, 0⟩ : V4).restVector q = q := by
  have h0 : ¬ ((0 : ℝ) > eps) := not_lt.mpr TfPwaV.KinR.eps_pos.le
  unfold V4.restVector V4.boost V4.boostVector V3.neg gammaOf gamma2Of ksqrt
  simp [V3.norm2, V3.dot, V4.vect, h0]

/-- non-vacuity: the event `p_a = (5/2, 3/2, 2, 0)`, `p_b = (5/2, 3/2, -2, 0)`, `p_c = (3, -3, 0, 0)` (parent at rest,
resonance of mass 4 flying along x with β = 3/5, `a` emitted along y in the resonance frame) meets the guards -/
example : ∃ pa pb pc : V4, eps ≤ ((rInA pa pb pc).vect.cross (aInR pa pb pc).vect).norm ∧
    eps ≤ (rInA pa pb pc).vect.norm := by
  refine ⟨⟨5/2, 3/2, 2, 0⟩, ⟨5/2, 3/2, -2, 0⟩, ⟨3, -3, 0, 0⟩, ?_⟩
  have hsq : Real.sqrt (1 - (9:ℝ)/25) = 4/5 := by
    rw [show (1 - (9:ℝ)/25) = (4/5) * (4/5) by norm_num]; exact Real.sqrt_mul_self (by norm_num)
  have htot : (((⟨5/2, 3/2, 2, 0⟩ : V4).add ⟨5/2, 3/2, -2, 0⟩).add ⟨3, -3, 0, 0⟩) = ⟨8, 0, 0, 0⟩ := by
    ext <;> simp [V4.add] <;> norm_num
  have hR : ((⟨5/2, 3/2, 2, 0⟩ : V4).add ⟨5/2, 3/2, -2, 0⟩) = ⟨5, 3, 0, 0⟩ := by
    ext <;> simp [V4.add]
  have hr : rInA ⟨5/2, 3/2, 2, 0⟩ ⟨5/2, 3/2, -2, 0⟩ ⟨3, -3, 0, 0⟩ = ⟨5, 3, 0, 0⟩ := by
    unfold rInA; rw [htot, hR, restVector_at_rest 8]
  have hgt : ((9:ℝ)/25 > eps) := by unfold eps; norm_num
  have ha : aInR ⟨5/2, 3/2, 2, 0⟩ ⟨5/2, 3/2, -2, 0⟩ ⟨3, -3, 0, 0⟩ = ⟨2, 0, 2, 0⟩ := by
    unfold aInR; rw [hr, htot, restVector_at_rest 8]
    unfold V4.restVector V4.boost V4.boostVector V3.neg gammaOf gamma2Of ksqrt
    have hb2 : (⟨-(3/5), -(0/5), -(0/5)⟩ : V3).norm2 = 9/25 := by simp [V3.norm2]; norm_num
    have hg : gammaOf (9/25) = 5/4 := by unfold gammaOf ksqrt; rw [hsq]; norm_num
    simp only [hb2, if_pos hgt, hsq]
    ext <;> simp [V3.dot, V4.vect, hg] <;> norm_num
  rw [hr, ha]
  have hn1 : ((⟨5, 3, 0, 0⟩ : V4).vect.cross (⟨2, 0, 2, 0⟩ : V4).vect).norm = 6 := by
    unfold V3.norm ksqrt
    rw [show ((⟨5, 3, 0, 0⟩ : V4).vect.cross (⟨2, 0, 2, 0⟩ : V4).vect).norm2 = 6 * 6 by
      simp [V3.norm2, V3.cross, V4.vect]; norm_num]
    exact Real.sqrt_mul_self (by norm_num)
  have hn2 : ((⟨5, 3, 0, 0⟩ : V4).vect).norm = 3 := by
    unfold V3.norm ksqrt
    rw [show ((⟨5, 3, 0, 0⟩ : V4).vect).norm2 = 3 * 3 by simp [V3.norm2, V4.vect]]
    exact Real.sqrt_mul_self (by norm_num)
  rw [hn1, hn2]
  constructor <;> (unfold eps; norm_num)

end TfPwaV.C04
