import TfPwaV.Proofs.DataY
import TfPwaV.Props.C18b
/-!
# C18c — data plumbing of `config_loader/data.py`, `data_cut` expressions, LazyCall identities, merge of LazyCalls

Theorems about the model `TfPwaV.DataY` (tied to the source by the exact correspondence of harness/c18_y.py).
Every statement quantifies over every card / particle list / data tree / expression / history of object operations.
-/
namespace TfPwaV.C18c
open TfPwaV.Data TfPwaV.DataX TfPwaV.DataY

variable {α β γ : Type}

/-! ## dat_order: which particle receives which column of the file -/

/-- ★ `dat_order_is_permutation`: for every list `outs` of pairwise different final particles and every card:
    * the order is determined by the card alone when it has a `dat_order` entry, and is `outs` when it has none;
    * without `dat_order` column `i` goes to final particle `i` (the identity);
    * with a `dat_order` that lists the final particles in any order, the column → particle assignment is a permutation
      of the final particles (every particle receives exactly one column). -/
theorem dat_order_is_permutation (outs : List String) (hnd : outs.Nodup) :
    (∀ c outs', datOrder outs (some c) = datOrder outs' (some c)) ∧
    datOrder outs none = outs ∧
    assign outs none = List.range outs.length ∧
    ∀ c, c.Perm outs → (assign outs (some c)).Perm (List.range outs.length) := by
  refine ⟨fun _ _ => rfl, rfl, map_idxOf_nodup outs hnd, fun c hc => ?_⟩
  have := hc.map (fun k => outs.idxOf k)
  rw [map_idxOf_nodup outs hnd] at this
  exact this

example : (["B", "C", "D"] : List String).Nodup ∧ (["D", "B", "C"] : List String).Perm ["B", "C", "D"] ∧
    assign ["B", "C", "D"] (some ["D", "B", "C"]) = [2, 0, 1] := by
  refine ⟨by decide, by decide, by decide⟩

/-- ★ `load_column_to_particle`: for ANY files (not only files written by `savetxt`), whenever `load_p4` succeeds under
    a duplicate-free `dat_order`, the array found under particle `order[idx]` is column `idx` of what `load_dat_file`
    cut out of the files -- for every `idx`; `cal_angle` on a list of momenta makes the same assignment. -/
theorem load_column_to_particle (order : List String) (hnd : order.Nodup) (files : List (List α))
    (r : List (String × List α)) (h : loadOrd order files = some r) :
    ∃ cols, loadDat order.length files none true = some cols ∧ cols.length ≤ order.length ∧
      r = order.zip cols ∧ calAngleList order cols = r ∧
      ∀ i (hi : i < cols.length) (ho : i < order.length), lookupP order[i] r = some cols[i] := by
  unfold loadOrd at h
  cases hl : loadDat order.length files none true with
  | none => simp [hl] at h
  | some cols =>
    have hlen : cols.length ≤ order.length := by
      unfold loadDat at hl
      simp only at hl
      split at hl
      · exact absurd hl (by simp)
      · split at hl
        · exact absurd hl (by simp)
        · split at hl
          · exact absurd hl (by simp)
          · have := Option.some.inj hl
            subst this
            omega
    have hr : r = order.zip cols := by
      have hk := insAll_fresh (order.zip cols) [] (by simpa using zip_keys_nodup order cols hnd)
      simp only [hl, Option.map_some, Option.some.injEq] at h
      rw [← h, hk]; simp
    have hc : calAngleList order cols = r := by
      have hk := insAll_fresh (order.zip cols) [] (by simpa using zip_keys_nodup order cols hnd)
      simp only [calAngleList, hk, hr]; simp
    exact ⟨cols, rfl, hlen, hr, hc, fun i hi ho => hr ▸ lookupP_zip_getElem order cols hnd hlen i hi ho⟩

/-- the hypotheses are satisfiable: two particles listed as C, B; one file of two events -/
example : (["C", "B"] : List String).Nodup ∧
    loadOrd ["C", "B"] [[1, 2, 3, 4]] = some [("C", [1, 3]), ("B", [2, 4])] := by
  refine ⟨by decide, by decide⟩

/-! ## get_dat_order(standard=True), re_map, get_data_index -/

/-- the chain maps are consistent: a particle `l` of a decay chain is sent to the same standard particle `s` by every
    chain map in which it occurs -/
def Functional (items : List (String × String)) : Prop := ∀ p ∈ items, ∀ q ∈ items, p.2 = q.2 → p.1 = q.1

/-- different chain particles are sent to different standard particles -/
def Injective (items : List (String × String)) : Prop := ∀ p ∈ items, ∀ q ∈ items, p.1 = q.1 → p.2 = q.2

/-- ★ `standard_eq_remap`: for consistent chain maps, `get_dat_order(standard=True)` (FIRST item whose `str(l)` matches)
    and the `re_map` built in `__init__` (LAST assignment wins) agree on every particle of every order list: the key under
    which `get_data_index("p", name)` looks a particle up is the name `get_dat_order(standard=True)` gives it. -/
theorem standard_eq_remap (items : List (String × String)) (hf : Functional items) (order : List String) :
    standardOrder items order = order.map (reMapGet items) ∧
    ∀ name, dataIndexP items "p" name = some [.name "particle", .name ("@" ++ reMapGet items name), .name "p"] := by
  refine ⟨?_, fun name => by simp [dataIndexP]⟩
  unfold standardOrder
  apply List.map_congr_left
  intro i _
  unfold reMapGet reMap
  cases h1 : items.find? (fun p => p.2 == i) with
  | none =>
    have hn : items.reverse.find? (fun p => p.2 == i) = none := by
      rw [List.find?_eq_none] at h1 ⊢
      intro x hx; exact h1 x (List.mem_reverse.mp hx)
    simp [hn]
  | some p =>
    have hp := List.find?_some h1
    have hpm := List.mem_of_find?_eq_some h1
    cases h2 : items.reverse.find? (fun p => p.2 == i) with
    | none =>
      rw [List.find?_eq_none] at h2
      exact absurd hp (h2 p (List.mem_reverse.mpr hpm))
    | some q =>
      have hq := List.find?_some h2
      have hqm := List.mem_reverse.mp (List.mem_of_find?_eq_some h2)
      have : p.2 = q.2 := by
        have a : p.2 = i := by simpa using hp
        have b : q.2 = i := by simpa using hq
        rw [a, b]
      simp [hf p hpm q hqm this]

/-- the excluded case: two chain maps that disagree on `R` -- the two look-ups give different names -/
example : standardOrder [("S1", "R"), ("S2", "R")] ["R"] = ["S1"] ∧ reMapGet [("S1", "R"), ("S2", "R")] "R" = "S2" := by
  decide

/-- ★ `standard_order_roundtrip`: for injective chain maps and an order list of particles that occur in the
    chains, translating to standard names and back through the inverse maps returns the order list. -/
theorem standard_order_roundtrip (items : List (String × String)) (hi : Injective items)
    (order : List String) (hocc : ∀ i ∈ order, ∃ p ∈ items, p.2 = i) :
    standardOrder (items.map Prod.swap) (standardOrder items order) = order := by
  unfold standardOrder
  rw [List.map_map]
  conv => rhs; rw [← List.map_id order]
  apply List.map_congr_left
  intro i hio
  obtain ⟨p0, hp0, hp0i⟩ := hocc i hio
  simp only [Function.comp, id]
  cases h1 : items.find? (fun p => p.2 == i) with
  | none =>
    rw [List.find?_eq_none] at h1
    exact absurd (by simpa using hp0i) (h1 p0 hp0)
  | some p =>
    have hp : p.2 = i := by simpa using List.find?_some h1
    have hpm := List.mem_of_find?_eq_some h1
    simp only []
    cases h2 : (items.map Prod.swap).find? (fun q => q.2 == p.1) with
    | none =>
      rw [List.find?_eq_none] at h2
      have := h2 p.swap (List.mem_map.mpr ⟨p, hpm, rfl⟩)
      simp at this
    | some q =>
      have hq : q.2 = p.1 := by simpa using List.find?_some h2
      obtain ⟨q0, hq0m, hq0⟩ := List.mem_map.mp (List.mem_of_find?_eq_some h2)
      subst hq0
      simp only [Prod.swap] at hq ⊢
      rw [hi q0 hq0m p hpm hq, hp]

example : Functional [("sB", "B"), ("sC", "C"), ("sB", "B")] ∧ Injective [("sB", "B"), ("sC", "C"), ("sB", "B")] := by
  unfold Functional Injective
  constructor <;> simp

/-! ## MultiData.get_data: per-sample lists -/

/-- ★ `multi_sample_plumbing`: whenever `MultiData.get_data` succeeds on a list of per-sample file lists, it returns one
    data set per sample, and sample `i` is `load_data(files[i], weight_sign, **kwargs_i)` where, for every entry `s` of
    `extra_var`, `kwargs_i[s.name]` is: entry `i` of the card's list (per-sample list), the card's value itself (number /
    one file name), or `None` (no card entry: the default of `extra_var` is used).  Every card, every number of samples. -/
theorem multi_sample_plumbing (pre : List (String × List Row) → List (String × List Int) → List (String × D Row))
    (order : List String) (specs : List ExtraSpec) (fss : List (List (List Row))) (sign : Int) (card : String → CardV)
    (res : List (D Row)) (h : multiGetData pre order specs (.inr fss) sign card = some res) :
    res.length = fss.length ∧
    ∀ (i : Nat) (files : List (List Row)), fss[i]? = some files → ∃ kw d,
      loadData pre order specs files sign kw = some d ∧ res[i]? = some d ∧
      ∀ (j : Nat) (s : ExtraSpec), specs[j]? = some s → ∃ a, kw[j]? = some (s.name, a) ∧
        match card s.name with
        | .absent => (match a with | .absent => True | _ => False)
        | .one _ => card s.name = .one a
        | .perSample l => l[i]? = some a := by
  simp only [multiGetData, multiFiles] at h
  cases hk : multiKwargs fss.length specs card with
  | none => simp [hk] at h
  | some kws =>
    simp only [hk] at h
    have hK := mapM_getElem? _ _ kws hk
    have hR := mapM_getElem? id _ res h
    have hkl : kws.length = fss.length := by simpa using hK.1
    refine ⟨by simpa [hkl] using hR.1, ?_⟩
    intro i files hfi
    have hi : i < fss.length := (List.getElem?_eq_some_iff.mp hfi).1
    obtain ⟨kw, hkw, hkwi⟩ := hK.2 i i (by simp [hi])
    have hz : (List.zipWith (fun f k => loadData pre order specs f sign k) fss kws)[i]? =
        some (loadData pre order specs files sign kw) := by
      simp [List.getElem?_zipWith, hfi, hkwi]
    obtain ⟨d, hd, hres⟩ := hR.2 i _ hz
    refine ⟨kw, d, hd, hres, ?_⟩
    intro j s hs
    have hS := mapM_getElem? _ specs kw hkw
    obtain ⟨y, hy, hyj⟩ := hS.2 j s hs
    cases hc : card s.name with
    | absent => simp only [hc] at hy; cases hy; exact ⟨.absent, hyj, trivial⟩
    | one a => simp only [hc] at hy; cases hy; exact ⟨a, hyj, rfl⟩
    | perSample l =>
      simp only [hc] at hy
      cases hl : l[i]? with
      | none => simp [hl] at hy
      | some a => simp [hl] at hy; subst hy; exact ⟨a, hyj, hl⟩

/-- the hypothesis is satisfiable: two samples (1 and 2 events), `data_weight: [2, 3]` -/
example : (multiGetData stubPre ["B"] [⟨"weight", none, some 1⟩]
    (.inr [[[[1, 0, 0, 0]]], [[[2, 0, 0, 0], [3, 0, 0, 0]]]]) 1 (fun _ => .perSample [.num 2, .num 3])).isSome = true := by
  decide

/-- a single sample given as a flat list of files is ONE sample (and a per-sample list in the card then contributes only
    its entry 0 to it) -/
theorem multi_flat_files (fs : List β) : multiFiles (.inl fs : Sum (List β) (List (List β))) = [fs] := rfl

/-! ## data_cut: the mask is the event-wise value of the expression -/

/-- ★ `cut_mask_eq_eval`: for every boolean expression `e` built from `& | ~`, the comparisons `< <= > >=` and
    `+ - *`, unary minus, integer literals and variable names, every data tree `d` whose arrays have `n` rows and every
    `var_map` that sends each variable of `e` to a 1-d array (`cols v`) of `d`:
    `data_cut(d, e, var_map)` -- whose mask is computed by whole-array tensor operations, one per node of `e` --
    succeeds and keeps in every array exactly the rows `i` for which `e`, evaluated on the `i`-th entries of its
    variables, is true; order kept, structure kept. -/
theorem cut_mask_eq_eval (val : α → Int) (vm : String → List Key) (e : BExp) (d : D α) (n : Nat)
    (cols : String → List Int) (hv : e.vars ≠ [])
    (hcol : ∀ v ∈ e.vars, column val d (vm v) = some (cols v) ∧ (cols v).length = n)
    (hu : uniform n d = true) :
    cutE val vm e d = some (mapLeaves (fun r => (List.range r.length).filterMap fun i =>
      if e.evalAt (fun v => (cols v).getD i 0) then r[i]? else none) d) ∧
    ∀ i, i < n → (e.evalArr n cols)[i]? = some (e.evalAt fun v => (cols v).getD i 0) := by
  have hspec := BExp.evalArr_spec n cols e (fun v hv' => (hcol v hv').2)
  refine ⟨?_, hspec.2⟩
  have hm := mapM_columns val vm d cols e.vars (fun v hv' => (hcol v hv').1)
  unfold cutE
  rw [hm]
  cases hvs : e.vars with
  | nil => exact absurd hvs hv
  | cons v0 rest =>
    have hv0 : (cols v0).length = n := (hcol v0 (by simp [hvs])).2
    have hall : (rest.map fun v => (v, cols v)).all (fun p => p.2.length == (cols v0).length) = true := by
      simp only [List.all_map, List.all_eq_true, Function.comp]
      intro v hvm
      simp [(hcol v (by simp [hvs, hvm])).2, hv0]
    simp only [List.map_cons, hall, if_true]
    have hcg : e.evalArr (cols v0).length (colsOf ((v0, cols v0) :: rest.map fun v => (v, cols v))) = e.evalArr n cols := by
      rw [hv0]
      apply BExp.evalArr_congr
      intro v hv'
      have : lookupP v ((v0 :: rest).map fun v => (v, cols v)) = some (cols v) :=
        lookupP_map_self cols v (v0 :: rest) (hvs ▸ hv')
      simp only [List.map_cons] at this
      simp [colsOf, this]
    rw [hcg]
    have hu' : uniform (e.evalArr n cols).length d = true := by rw [hspec.1]; exact hu
    rw [(C18.mask_leaf (e.evalArr n cols) d hu').1]
    congr 1
    apply mapLeaves_congr_uniform _ _ n _ d hu
    intro r hr
    apply filterMap_congr_mem
    intro i hi
    have hi' : i < n := by simpa [hr] using hi
    simp [List.getD_eq_getElem?_getD, hspec.2 i hi']

/-- the hypotheses are satisfiable: `(m > 1) & ~(x < 3)` on `{"m": [1,5,7], "q": {"x": [3,0,4]}, "p": …}` -/
example : (BExp.and (.cmp .gt (.var "m") (.const 1)) (.not (.cmp .lt (.var "x") (.const 3)))).vars ≠ [] ∧
    column (fun r : Int => r) (D.node .dict [("m", .leaf [1, 5, 7]), ("q", .node .dict [("x", .leaf [3, 0, 4])]), ("p", .leaf [10, 50, 70])])
      [.name "q", .name "x"] = some [3, 0, 4] ∧
    uniform 3 (D.node .dict [("m", .leaf [1, 5, 7]), ("q", .node .dict [("x", .leaf [3, 0, 4])]), ("p", .leaf [10, 50, 70])] : D Int) = true := by
  refine ⟨by simp [BExp.vars, AExp.vars], ?_, by decide⟩
  simp [column, index, idx1, lookup]

/-- ★ `cut_complement_merge`: under the same hypotheses, `data_cut(d, e)` and `data_cut(d, ~e)` partition the events:
    both succeed, `data_merge` of the two is `d` with every array replaced by "selected rows ++ rejected rows", which is
    a permutation of the rows of that array (the same permutation in every array). -/
theorem cut_complement_merge (val : α → Int) (vm : String → List Key) (e : BExp) (d : D α) (n : Nat)
    (cols : String → List Int) (hv : e.vars ≠ []) (hwf : WF d)
    (hcol : ∀ v ∈ e.vars, column val d (vm v) = some (cols v) ∧ (cols v).length = n)
    (hu : uniform n d = true) :
    ∃ a c sel, sel.length = n ∧ cutE val vm e d = some a ∧ cutE val vm (.not e) d = some c ∧
      merge [a, c] = some (mapLeaves (fun r => maskRows sel r ++ maskRows (sel.map (!·)) r) d) ∧
      ∀ r ∈ leafList d, (maskRows sel r ++ maskRows (sel.map (!·)) r).Perm r := by
  have hspec := BExp.evalArr_spec n cols e (fun v hv' => (hcol v hv').2)
  -- both cuts are masks with the array-wise value of the expression
  have key : ∀ e' : BExp, e'.vars = e.vars → cutE val vm e' d = mask (e'.evalArr n cols) d := by
    intro e' he'
    have hm := mapM_columns val vm d cols e'.vars (fun v hv' => (hcol v (he' ▸ hv')).1)
    unfold cutE
    rw [hm]
    cases hvs : e'.vars with
    | nil => exact absurd (he' ▸ hvs) hv
    | cons v0 rest =>
      have hmem : ∀ v, v ∈ v0 :: rest → v ∈ e.vars := fun v h => he' ▸ hvs ▸ h
      have hv0 : (cols v0).length = n := (hcol v0 (hmem v0 (by simp))).2
      have hall : (rest.map fun v => (v, cols v)).all (fun p => p.2.length == (cols v0).length) = true := by
        simp only [List.all_map, List.all_eq_true, Function.comp]
        intro v hvm
        simp [(hcol v (hmem v (by simp [hvm]))).2, hv0]
      simp only [List.map_cons, hall, if_true]
      rw [hv0]
      congr 1
      apply BExp.evalArr_congr
      intro v hv'
      have : lookupP v ((v0 :: rest).map fun v => (v, cols v)) = some (cols v) :=
        lookupP_map_self cols v (v0 :: rest) (hvs ▸ hv')
      simp only [List.map_cons] at this
      simp [colsOf, this]
  have hu' : uniform (e.evalArr n cols).length d = true := by rw [hspec.1]; exact hu
  obtain ⟨a, c, ha, hc, hm, hp⟩ := C18b.cut_then_merge (e.evalArr n cols) d hwf hu'
  refine ⟨a, c, e.evalArr n cols, hspec.1, ?_, ?_, hm, hp⟩
  · rw [key e rfl]; exact ha
  · rw [key (.not e) rfl]; exact hc

/-- (hypotheses as in `cut_mask_eq_eval`, plus a well-formed tree) -/
example : WF (D.node .dict [("m", .leaf [1, 5, 7]), ("q", .node .dict [("x", .leaf [3, 0, 4])])] : D Int) := by
  simp [WF, WFCh]

/-! ## LazyCall objects: `copy()` / `data_replace` give an object that shares nothing mutable with the original -/

/-- ★ `copy_independent`: in EVERY heap reachable from the empty one by any history of `LazyCall(f, x)`, `L[k] = v`,
    `L.copy()`, `data_replace(L, k, v)`: two different objects never hold the same `extra` dict (`WFH`), therefore
    * `copy()` returns an object with the same `x` (shared, never mutated by these operations) and the same items,
      `data_replace` additionally with `v` under `k`;
    * an assignment `objs[o][k] = v` changes `objs[o][k]` only: every other object -- in particular the original of a copy
      and every copy of the original -- returns what it returned before, for every key. -/
theorem copy_independent (ops : List Op) :
    let h := run Heap.empty ops
    WFH h ∧
    (∀ o ob, h.objs[o]? = some ob →
      (step h (.copy o)).items h.objs.length = h.items o ∧
      (step h (.copy o)).objs[h.objs.length]? = some ⟨ob.x, h.dicts.length⟩ ∧
      ∀ k v k', (step h (.replace o k v)).getItem h.objs.length k' = if k' = k then some v else h.getItem o k') ∧
    (∀ o k v o', o' ≠ o → ∀ k', (step h (.set o k v)).getItem o' k' = h.getItem o' k') ∧
    (∀ o k v, o < h.objs.length → ∀ k', (step h (.set o k v)).getItem o k' = if k' = k then some v else h.getItem o k') := by
  intro h
  have hw : WFH h := wfh_run ops Heap.empty wfh_empty
  refine ⟨hw, ?_, ?_, ?_⟩
  · intro o ob ho
    have hlt := hw.1 o ob ho
    refine ⟨?_, ?_, ?_⟩
    · simp [step, ho, Heap.items]
    · simp [step, ho]
    · intro k v k'
      simp only [step, ho, Heap.getItem, Heap.items, List.getElem?_append_right (Nat.le_refl _), Nat.sub_self,
        List.getElem?_cons_zero, Option.getD_some]
      exact lookupP_setKV _ k k' v
  · intro o k v o' hne k'
    simp only [step]
    cases ho : h.objs[o]? with
    | none => rfl
    | some ob =>
      simp only [Heap.getItem, Heap.items]
      cases ho' : h.objs[o']? with
      | none => rfl
      | some ob' =>
        have hdiff : ob.extra ≠ ob'.extra := fun he => hne (hw.2 o o' ob ob' ho ho' he).symm
        simp [setAt, hdiff]
  · intro o k v ho k'
    have ⟨ob, hob⟩ : ∃ ob, h.objs[o]? = some ob := ⟨h.objs[o], by simp [ho]⟩
    have hlt := hw.1 o ob hob
    simp only [step, hob, Heap.getItem, Heap.items, setAt, List.getElem?_modify]
    simp only [List.getElem?_eq_getElem hlt, if_true, Option.getD_some]
    exact lookupP_setKV _ k k' v

/-- the refuted alternative (`ret.extra = self.extra` without `.copy()`): one shared dict, and an assignment through the
    copy is visible through the original -/
example : lookupP "w" (setKV ([] : List (String × Nat)) "w" 5) = some 5 := by simp [setKV, lookupP]

end TfPwaV.C18c
