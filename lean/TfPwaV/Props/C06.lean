import TfPwaV.Proofs.NLL
/-!
# C06 — the negative log-likelihood equals its defining formula

Theorems over ℝ about `TfPwaV.NLLR`, the ℝ-instance of `templates/NLL.lean.in` (the *same text* is instantiated
at Float and compared with `FCN.__call__ / nll_grad / nll_grad_hessian` of every selectable model class on every
run).  Events are pairs `(w, f)` = (weight, density value); all statements quantify over **all** lists.
`eps = 1e-6` is `clip_log`'s threshold: the exact formula holds for densities above it, below it the code's
own continuation (`clipPoly`, the 2nd-order Taylor polynomial of `log` at ε) applies.
-/
open TfPwaV.ScalarR
namespace TfPwaV.C06
open TfPwaV.NLLR

/-! ## `clip_log` -/

/-- `clip_log` is the logarithm above ε. -/
theorem clipLog_eq_log (x : ℝ) (h : eps < x) : clipLog x = Real.log x := clipLog_above x h

/-- What the code's continuation below ε actually is: `log ε + (x-ε)/ε - ((x-ε)/ε)²/2`. -/
theorem clipLog_continuation (x : ℝ) (h : x ≤ eps) :
    clipLog x = Real.log eps + (x - eps) / eps - ((x - eps) / eps) ^ 2 / 2 := by
  rw [clipLog_below x h]; unfold clipPoly NLLR.sq; ring

/-- `clip_log` is continuous, differentiable at every point with derivative `clipDeriv`
(`1/x` above ε, `1/ε - (x-ε)/ε²` below), and that derivative is again differentiable everywhere
(second derivative `-1/x²` above, `-1/ε²` below): value, first and second derivative match at ε. -/
theorem clipLog_C2 :
    Continuous clipLog ∧ (∀ x, HasDerivAt clipLog (clipDeriv x) x) ∧ (∀ x, HasDerivAt clipDeriv (clipDeriv2 x) x)
      ∧ clipLog eps = Real.log eps ∧ clipDeriv eps = 1 / eps ∧ clipDeriv2 eps = -(1 / (eps * eps)) := by
  refine ⟨clipLog_continuous, clipLog_hasDerivAt, clipDeriv_hasDerivAt, ?_, ?_, ?_⟩
  · rw [clipLog_below eps le_rfl, clipPoly_eps]
  · unfold clipDeriv; rw [if_neg (lt_irrefl _)]; simp
  · unfold clipDeriv2; rw [if_neg (lt_irrefl _)]

/-! ## α -/

/-- Re-applying `get_weight_data` to already α-scaled weights gives the factor 1 (the code applies it twice
on the `__call__` path and three times on the Hessian path). -/
theorem alpha_idempotent (w : List ℝ) (h : lsum w ≠ 0) :
    alphaOf (scaleW w) = 1 ∧ scaleW (scaleW w) = scaleW w := by
  have h1 := alphaOf_scaleW w h
  refine ⟨h1, ?_⟩
  conv_lhs => unfold scaleW
  rw [show alphaOf (List.map (fun x => alphaOf w * x) w) = 1 from h1]
  simp [scaleW]

example : lsum [1, -0.5, 2] ≠ (0 : ℝ) := by norm_num [lsum]

/-! ## batch invariance -/

/-- The value of `sum_gradient`/`sum_hessian` does not depend on how the sample is cut into batches:
for every list of batches it equals the one-batch value on the concatenation. -/
theorem batch_sum_partition_invariant (t : ℝ → ℝ) (bs : List (List (ℝ × ℝ))) :
    sumBatches t bs = batchSum t bs.flatten := sumBatches_flatten t bs

/-- `_data_split` with any batch size `n > 0` (dividing the sample size or not) is a partition of the sample. -/
theorem split_is_partition {α : Type} (n : ℕ) (hn : 0 < n) (l : List α) : (chunk n l).flatten = l :=
  chunk_flatten n hn l

/-- The value returned along the gradient path is independent of the batch partition of data and MC:
any two partitions of the same samples give the same value. -/
theorem nll_grad_batch_invariant (ext : Bool) (bs bs' mbs mbs' : List (List (ℝ × ℝ)))
    (h : bs.flatten = bs'.flatten) (hm : mbs.flatten = mbs'.flatten) :
    modelNllGradBatch ext bs mbs = modelNllGradBatch ext bs' mbs' := by
  unfold modelNllGradBatch
  rw [sumBatches_flatten, sumBatches_flatten, sumW_flatten, sumBatches_flatten clipLog bs',
    sumBatches_flatten kid mbs', sumW_flatten bs', h, hm]

-- non-vacuity: a sample cut as [1 | 2] and as [1, 2]
example : ([[(1, 2)], [(3, 4)]] : List (List (ℝ × ℝ))).flatten = ([[(1, 2), (3, 4)]] : List (List (ℝ × ℝ))).flatten := by simp

/-- … in particular for the batches the code makes, for all batch sizes `n, k > 0`. -/
theorem nll_grad_batch_size_invariant (ext : Bool) (n k : ℕ) (hn : 0 < n) (hk : 0 < k) (d m : List (ℝ × ℝ)) :
    modelNllGradBatch ext (chunk n d) (chunk n m) = modelNllGradBatch ext (chunk k d) (chunk k m) :=
  nll_grad_batch_invariant ext _ _ _ _ (by rw [chunk_flatten n hn, chunk_flatten k hk])
    (by rw [chunk_flatten n hn, chunk_flatten k hk])

/-! ## the defining formula -/

/-- `BaseModel.nll` on densities above ε:
`-α[Σ wᵢ ln fᵢ − (Σ wᵢ)·ln(Σ vⱼ gⱼ / Σ vⱼ)]`, `α = Σw/Σw²` — for all weights (either sign, zeros included). -/
theorem base_nll_formula (d m : List (ℝ × ℝ)) (hf : ∀ p ∈ d, eps < p.2) :
    baseNll false d m =
      -(lsum (weights d) / lsum ((weights d).map NLLR.sq)) *
        (lsum (d.map fun p => p.1 * Real.log p.2)
          - lsum (weights d) * Real.log (dotp m / lsum (weights m))) := by
  unfold baseNll intF klog
  simp only [Bool.false_eq_true, ↓reduceIte]
  rw [batchSum_eq_plain]
  unfold plainSum
  rw [lsum_map_congr _ (fun p => p.1 * Real.log p.2) d (fun p hp => by rw [clipLog_above p.2 (hf p hp)])]

example : ∀ p ∈ ([(1, 2), (-0.5, 3)] : List (ℝ × ℝ)), eps < p.2 := by
  intro p hp
  simp only [List.mem_cons, List.not_mem_nil, or_false] at hp
  rcases hp with h | h <;> subst h <;> unfold eps <;> norm_num

/-- extended likelihood: the normalisation term is `(Σ wᵢ)·(Σ vⱼ gⱼ / Σ vⱼ)` instead of its logarithm. -/
theorem base_nll_extended_formula (d m : List (ℝ × ℝ)) (hf : ∀ p ∈ d, eps < p.2) :
    baseNll true d m =
      -(lsum (weights d) / lsum ((weights d).map NLLR.sq)) *
        (lsum (d.map fun p => p.1 * Real.log p.2)
          - lsum (weights d) * (dotp m / lsum (weights m))) := by
  unfold baseNll intF
  simp only [↓reduceIte]
  rw [batchSum_eq_plain]
  unfold plainSum
  rw [lsum_map_congr _ (fun p => p.1 * Real.log p.2) d (fun p hp => by rw [clipLog_above p.2 (hf p hp)])]

/-- `FCN.__call__` for `Model`, extended or not, densities above ε: `-α[Σ Wᵢ ln fᵢ − (Σ Wᵢ)·int_f(I)] + constraints`
with `I = Σ vⱼ gⱼ / Σ vⱼ` and `int_f = ln` (or the identity when extended). -/
theorem fcn_call_formula_gen (ext : Bool) (w bgw f v g : List ℝ) (cs : List (ℝ × ℝ × ℝ))
    (hlen : f.length = (w ++ bgw).length) (hlen' : g.length = v.length)
    (hW : lsum (w ++ bgw) ≠ 0) (hV : lsum v ≠ 0) (hf : ∀ x ∈ f, eps < x) :
    fcnCall ext w bgw f v g cs =
      -(alphaOf (w ++ bgw)) *
        (lsum (((w ++ bgw).zip f).map fun p => p.1 * Real.log p.2)
          - lsum (w ++ bgw) * intF ext (dotp (v.zip g) / lsum v))
      + gaussConstr cs := by
  set W := w ++ bgw with hWdef
  set D := W.zip f with hD
  have wD : weights D = W := weights_zip W f hlen
  have wM : weights (v.zip g) = v := weights_zip v g hlen'
  have hDW : lsum (weights D) ≠ 0 := by rw [wD]; exact hW
  have hα : alphaOf (scaleW W) = 1 := alphaOf_scaleW W hW
  unfold fcnCall fcnData fcnMc getWeightData modelNll
  rw [← hWdef, zip_scaleW, ← hD, zip_normMc v g hlen']
  have e1 : alphaOf W = alphaOf (weights D) := by rw [wD]
  rw [e1, reweight_scaleEv D hDW]
  have hfD : ∀ p ∈ scaleEv (alphaOf (weights D)) D, eps < p.2 := by
    intro p hp
    unfold scaleEv at hp
    obtain ⟨q, hq, rfl⟩ := List.mem_map.mp hp
    exact hf q.2 (List.of_mem_zip (by rw [hD] at hq; exact hq)).2
  have hbase : ∀ d m : List (ℝ × ℝ), (∀ p ∈ d, eps < p.2) → baseNll ext d m =
      -(lsum (weights d) / lsum ((weights d).map NLLR.sq)) *
        (lsum (d.map fun p => p.1 * Real.log p.2) - lsum (weights d) * intF ext (dotp m / lsum (weights m))) := by
    intro d m hd
    cases ext
    · rw [base_nll_formula d m hd]; simp [intF, klog]
    · rw [base_nll_extended_formula d m hd]; simp [intF]
  rw [hbase _ _ hfD, weights_scaleEv_alpha, wD]
  have hα' : lsum (scaleW W) / lsum ((scaleW W).map NLLR.sq) = 1 := hα
  rw [hα', dotp_normMcEv, lsum_weights_normMcEv _ (by rw [wM]; exact hV), wM]
  have e2 : lsum ((scaleEv (alphaOf W) D).map fun p => p.1 * Real.log p.2) =
      alphaOf W * lsum (D.map fun p => p.1 * Real.log p.2) := plainSum_scaleEv Real.log (alphaOf W) D
  have e3 : lsum (scaleW W) = alphaOf W * lsum W := by
    have := lsum_weights_scaleEv (alphaOf W) D
    rw [weights_scaleEv, wD] at this
    exact this
  rw [e2, e3, div_one]
  ring

/-- ★ `FCN.__call__` (default model): with raw weights `W = w ++ bgw` (background entering with its negative
weights, `bgw = [-w_bkg]*n_bg` or the sample's own), densities `f` above ε and MC weights `v`:
`NLL = -α[Σ Wᵢ ln fᵢ − (Σ Wᵢ) ln(Σ vⱼ gⱼ / Σ vⱼ)] + Gaussian terms`, `α = ΣW/ΣW²`. -/
theorem fcn_call_formula (w bgw f v g : List ℝ) (cs : List (ℝ × ℝ × ℝ))
    (hlen : f.length = (w ++ bgw).length) (hlen' : g.length = v.length)
    (hW : lsum (w ++ bgw) ≠ 0) (hV : lsum v ≠ 0) (hf : ∀ x ∈ f, eps < x) :
    fcnCall false w bgw f v g cs =
      -(alphaOf (w ++ bgw)) *
        (lsum (((w ++ bgw).zip f).map fun p => p.1 * Real.log p.2)
          - lsum (w ++ bgw) * Real.log (dotp (v.zip g) / lsum v))
      + gaussConstr cs :=
  fcn_call_formula_gen false w bgw f v g cs hlen hlen' hW hV hf

/-- ★ extended: the λ-term `(Σ Wᵢ)·(Σ vⱼ gⱼ / Σ vⱼ)` replaces the logarithm of the normalisation. -/
theorem fcn_call_extended_formula (w bgw f v g : List ℝ) (cs : List (ℝ × ℝ × ℝ))
    (hlen : f.length = (w ++ bgw).length) (hlen' : g.length = v.length)
    (hW : lsum (w ++ bgw) ≠ 0) (hV : lsum v ≠ 0) (hf : ∀ x ∈ f, eps < x) :
    fcnCall true w bgw f v g cs =
      -(alphaOf (w ++ bgw)) *
        (lsum (((w ++ bgw).zip f).map fun p => p.1 * Real.log p.2)
          - lsum (w ++ bgw) * (dotp (v.zip g) / lsum v))
      + gaussConstr cs :=
  fcn_call_formula_gen true w bgw f v g cs hlen hlen' hW hV hf

/-- the background sample with default weights enters with `-w_bkg` per event: `Σ bgw = -n_bg·w_bkg`. -/
theorem bg_enters_negative (wbkg : ℝ) (n : ℕ) : lsum (bgWeights wbkg n) = -(n * wbkg) := by
  unfold bgWeights; rw [lsum_replicate]; ring

-- non-vacuity: two events, one background event with weight -0.5, two MC events
example : ([3, 2, 1] : List ℝ).length = (([1, 1] : List ℝ) ++ [-0.5]).length ∧ lsum (([1, 1] : List ℝ) ++ [-0.5]) ≠ 0
    ∧ lsum ([1, 1] : List ℝ) ≠ 0 ∧ ∀ x ∈ ([3, 2, 1] : List ℝ), eps < x := by
  refine ⟨rfl, by norm_num [lsum], by norm_num [lsum], ?_⟩
  intro x hx
  simp only [List.mem_cons, List.not_mem_nil, or_false] at hx
  rcases hx with h | h | h <;> subst h <;> unfold eps <;> norm_num

/-! ## the three reported values agree -/

/-- ★ For the FCN state (α-scaled weights, normalised MC weights) the value of `__call__`, of `nll_grad` and of
`nll_grad_hessian` are the same number, for every batch size, extended or not, *including* the clip region
(no hypothesis on the densities). -/
theorem value_paths_agree (ext : Bool) (n : ℕ) (hn : 0 < n) (D M : List (ℝ × ℝ))
    (hW : lsum (weights D) ≠ 0) (hV : lsum (weights M) ≠ 0) :
    let d := scaleEv (alphaOf (weights D)) D
    let m := normMcEv M
    modelNll ext d m = modelNllGradBatch ext (chunk n d) (chunk n m)
      ∧ modelNllGradHessian ext n d m = modelNllGradBatch ext (chunk n d) (chunk n m) := by
  intro d m
  have hre : reweight d = d := reweight_scaleEv D hW
  have hone : lsum (weights m) = 1 := lsum_weights_normMcEv M hV
  have hα : lsum (weights d) / lsum ((weights d).map NLLR.sq) = 1 := by
    have := alphaOf_scaleW (weights D) hW
    rw [← weights_scaleEv_alpha] at this
    exact this
  have hgrad : modelNllGradBatch ext (chunk n d) (chunk n m)
      = -(plainSum clipLog d) + lsum (weights d) * intF ext (dotp m) := by
    unfold modelNllGradBatch
    rw [sumBatches_flatten, sumBatches_flatten, sumW_flatten, chunk_flatten n hn, chunk_flatten n hn,
      batchSum_eq_plain, batchSum_eq_plain, plainSum_kid]
  refine ⟨?_, ?_⟩
  · rw [hgrad]
    unfold modelNll baseNll
    simp only []
    rw [hre, hα, hone, batchSum_eq_plain]
    simp only [div_one]
    ring
  · rw [hgrad]
    unfold modelNllGradHessian
    simp only []
    rw [hre, hre, normMcEv_of_sum_one m hone, sumBatches_flatten, sumBatches_flatten, chunk_flatten n hn,
      chunk_flatten n hn, batchSum_eq_plain, batchSum_eq_plain, plainSum_kid]

example : lsum (weights [((1 : ℝ), (2 : ℝ)), (-0.5, 3)]) ≠ 0 := by norm_num [lsum, weights]

/-- ★ FCN level: `FCN.__call__`, `FCN.nll_grad()[0]` and `FCN.nll_grad_hessian()[0]` report the same number for
every batch size `n > 0`, extended or not, with or without Gaussian constraints, for all weights with `ΣW ≠ 0`,
`Σv ≠ 0` — including densities at or below ε. -/
theorem fcn_value_paths_agree (ext : Bool) (n : ℕ) (hn : 0 < n) (w bgw f v g : List ℝ) (cs : List (ℝ × ℝ × ℝ))
    (hlen : f.length = (w ++ bgw).length) (hlen' : g.length = v.length)
    (hW : lsum (w ++ bgw) ≠ 0) (hV : lsum v ≠ 0) :
    fcnNllGrad ext n w bgw f v g cs = fcnCall ext w bgw f v g cs
      ∧ fcnNllGradHessian ext n w bgw f v g cs = fcnCall ext w bgw f v g cs := by
  have wD : weights ((w ++ bgw).zip f) = w ++ bgw := weights_zip _ f hlen
  have wM : weights (v.zip g) = v := weights_zip v g hlen'
  have key := value_paths_agree ext n hn ((w ++ bgw).zip f) (v.zip g) (by rw [wD]; exact hW) (by rw [wM]; exact hV)
  simp only [wD] at key
  unfold fcnNllGrad fcnNllGradHessian fcnCall fcnData fcnMc getWeightData
  rw [zip_scaleW, zip_normMc v g hlen']
  constructor
  · rw [key.1]
  · rw [key.2, key.1]

/-! ## rescaling -/

/-- ★ Not extended: multiplying every density (data and MC) by a common `c > 0` leaves the NLL unchanged,
**given** all values stay above ε and the normalisation integral is positive. -/
theorem scale_invariant (c : ℝ) (hc : 0 < c) (d m : List (ℝ × ℝ))
    (hf : ∀ p ∈ d, eps < p.2) (hcf : ∀ p ∈ d, eps < c * p.2)
    (hI : 0 < dotp m / lsum (weights m)) :
    baseNll false (d.map fun p => (p.1, c * p.2)) (m.map fun p => (p.1, c * p.2)) = baseNll false d m := by
  have hf' : ∀ p ∈ (d.map fun p : ℝ × ℝ => (p.1, c * p.2)), eps < p.2 := by
    intro p hp
    obtain ⟨q, hq, rfl⟩ := List.mem_map.mp hp
    exact hcf q hq
  rw [base_nll_formula _ _ hf', base_nll_formula _ _ hf]
  have w1 : weights (d.map fun p : ℝ × ℝ => (p.1, c * p.2)) = weights d := by
    simp [weights, List.map_map, Function.comp_def]
  have w2 : weights (m.map fun p : ℝ × ℝ => (p.1, c * p.2)) = weights m := by
    simp [weights, List.map_map, Function.comp_def]
  have d1 : dotp (m.map fun p : ℝ × ℝ => (p.1, c * p.2)) = c * dotp m := by
    unfold dotp
    rw [List.map_map]
    have : ((fun p : ℝ × ℝ => p.1 * p.2) ∘ fun p : ℝ × ℝ => (p.1, c * p.2)) = fun p => c * (p.1 * p.2) := by
      funext p; simp; ring
    rw [this, lsum_map_mul_left]
  have s1 : lsum ((d.map fun p : ℝ × ℝ => (p.1, c * p.2)).map fun p => p.1 * Real.log p.2)
      = Real.log c * lsum (weights d) + lsum (d.map fun p => p.1 * Real.log p.2) := by
    rw [List.map_map]
    have hcongr := lsum_map_congr
      ((fun p : ℝ × ℝ => p.1 * Real.log p.2) ∘ fun p : ℝ × ℝ => (p.1, c * p.2))
      (fun p => Real.log c * p.1 + p.1 * Real.log p.2) d
      (fun p hp => by
        have hp2 : p.2 ≠ 0 := ne_of_gt (eps_pos.trans (hf p hp))
        simp only [Function.comp_apply]
        rw [Real.log_mul (ne_of_gt hc) hp2]; ring)
    rw [hcongr, lsum_map_add, lsum_map_mul_left]
    rfl
  rw [w1, w2, d1, s1, mul_div_assoc, Real.log_mul (ne_of_gt hc) (ne_of_gt hI)]
  ring

example : (∀ p ∈ ([(1, 2)] : List (ℝ × ℝ)), eps < p.2) ∧ (∀ p ∈ ([(1, 2)] : List (ℝ × ℝ)), eps < 2 * p.2) := by
  constructor <;> intro p hp <;> simp only [List.mem_cons, List.not_mem_nil, or_false] at hp <;> subst hp <;>
    unfold eps <;> norm_num

example : (0 : ℝ) < dotp [((1 : ℝ), (2 : ℝ))] / lsum (weights [((1 : ℝ), (2 : ℝ))]) := by
  norm_num [dotp, lsum, weights]

/-! ## Gaussian constraints and simultaneous fits -/

/-- The constraint term is `Σ (θ-μ)²/(2σ²)`. -/
theorem gauss_terms (cs : List (ℝ × ℝ × ℝ)) :
    gaussConstr cs = lsum (cs.map fun c => (c.1 - c.2.1) ^ 2 / (2 * c.2.2 ^ 2)) := by
  induction cs with
  | nil => rfl
  | cons c cs ih =>
    obtain ⟨v, m, s⟩ := c
    simp only [gaussConstr, List.map_cons, lsum_cons, ih, NLLR.sq]
    congr 1
    rw [div_div]
    ring

/-- ★ A simultaneous fit's NLL is the sum of its parts (plus one constraint term), and combining is
associative over groupings of the data sets. -/
theorem combine_sum (p q : List ℝ) (c : ℝ) :
    combineFcn (p ++ q) c = lsum p + lsum q + c ∧ combineFcn (p ++ q) c = combineFcn p 0 + combineFcn q c := by
  unfold combineFcn
  rw [lsum_append]
  constructor <;> ring

/-! ## cfit -/

/-- ★ `Model_cfit.nll`: for FCN-scaled weights (α re-application is the identity) that are all non-zero,
`NLL = -Σ wᵢ ln[(1-f_bg)·sᵢ/∫s + f_bg·bᵢ/∫b]`, `s = eff·A`, `∫s = Σ vⱼ sⱼ`, `∫b = Σ vⱼ bⱼ`. -/
theorem cfit_mixture (fb : ℝ) (d m : List (ℝ × ℝ × ℝ)) (hα : alphaOf (w3 d) = 1) (hw : ∀ p ∈ d, p.1 ≠ 0) :
    cfitNll fb d m =
      -(lsum (d.map fun p => p.1 * Real.log ((1 - fb) * p.2.1 / dotp (sigEv m) + fb * p.2.2 / dotp (bgEv m)))) := by
  unfold cfitNll reweight3
  rw [hα]
  simp only [one_mul, klog, cfitProb]
  congr 1
  have : (d.map fun p : ℝ × ℝ × ℝ => (p.1, p.2.1, p.2.2)) = d := by simp
  rw [this]
  apply lsum_map_congr
  intro p hp
  have h := hw p hp
  have e1 : p.1 * p.2.1 / p.1 = p.2.1 := by field_simp
  have e2 : p.1 * p.2.2 / p.1 = p.2.2 := by field_simp
  rw [e1, e2]

example : alphaOf (w3 [((1 : ℝ), (2 : ℝ), (3 : ℝ)), (1, 1, 1)]) = 1
    ∧ ∀ p ∈ ([((1 : ℝ), (2 : ℝ), (3 : ℝ)), (1, 1, 1)] : List (ℝ × ℝ × ℝ)), p.1 ≠ 0 := by
  refine ⟨by norm_num [alphaOf, w3, lsum, NLLR.sq], ?_⟩
  intro p hp
  simp only [List.mem_cons, List.not_mem_nil, or_false] at hp
  rcases hp with h | h <;> subst h <;> norm_num

/-- cfit at FCN level: with raw weights `w` (no zero weight, `Σw ≠ 0`) the `__call__` value is
`-α Σ wᵢ ln[(1-f_bg) sᵢ/∫s + f_bg bᵢ/∫b]`, `α = Σw/Σw²`. -/
theorem cfit_fcn_formula (fb : ℝ) (d m : List (ℝ × ℝ × ℝ)) (hW : lsum (w3 d) ≠ 0) (hw : ∀ p ∈ d, p.1 ≠ 0) :
    cfitNll fb (reweight3 d) m =
      -(alphaOf (w3 d)) *
        (lsum (d.map fun p => p.1 * Real.log ((1 - fb) * p.2.1 / dotp (sigEv m) + fb * p.2.2 / dotp (bgEv m)))) := by
  have hsq := lsum_sq_pos (w3 d) hW
  have ha : alphaOf (w3 d) ≠ 0 := by
    unfold alphaOf; exact div_ne_zero hW (ne_of_gt hsq)
  have hw3 : w3 (reweight3 d) = scaleW (w3 d) := by
    unfold reweight3 w3 scaleW; rw [List.map_map, List.map_map]; rfl
  have hα : alphaOf (w3 (reweight3 d)) = 1 := by rw [hw3]; exact alphaOf_scaleW _ hW
  have hw' : ∀ p ∈ reweight3 d, p.1 ≠ 0 := by
    intro p hp
    unfold reweight3 at hp
    obtain ⟨q, hq, rfl⟩ := List.mem_map.mp hp
    exact mul_ne_zero ha (hw q hq)
  rw [cfit_mixture fb (reweight3 d) m hα hw']
  unfold reweight3
  rw [List.map_map, neg_mul, ← lsum_map_mul_left]
  congr 1
  apply lsum_map_congr
  intro p _
  simp only [Function.comp_apply]
  ring

example : lsum (w3 [((1 : ℝ), (2 : ℝ), (3 : ℝ)), (-0.5, 1, 1)]) ≠ 0
    ∧ ∀ p ∈ ([((1 : ℝ), (2 : ℝ), (3 : ℝ)), (-0.5, 1, 1)] : List (ℝ × ℝ × ℝ)), p.1 ≠ 0 := by
  refine ⟨by norm_num [w3, lsum], ?_⟩
  intro p hp
  simp only [List.mem_cons, List.not_mem_nil, or_false] at hp
  rcases hp with h | h <;> subst h <;> norm_num

/-- The cfit gradient-path value is independent of the batch partition. -/
theorem cfit_batch_invariant (fb : ℝ) (bs bs' mbs mbs' : List (List (ℝ × ℝ × ℝ)))
    (h : bs.flatten = bs'.flatten) (hm : mbs.flatten = mbs'.flatten) :
    cfitNllGradBatch fb bs mbs = cfitNllGradBatch fb bs' mbs' := by
  have key : ∀ (g : List (ℝ × ℝ × ℝ) → List (ℝ × ℝ)) (hg : ∀ l : List (List (ℝ × ℝ × ℝ)), (l.map g).flatten = g l.flatten)
      (t : ℝ → ℝ) (a b : List (List (ℝ × ℝ × ℝ))), a.flatten = b.flatten →
      sumBatches t (a.map g) = sumBatches t (b.map g) := by
    intro g hg t a b hab
    rw [sumBatches_flatten, sumBatches_flatten, hg, hg, hab]
  have hsig : ∀ l : List (List (ℝ × ℝ × ℝ)), (l.map sigEv).flatten = sigEv l.flatten := by
    intro l; unfold sigEv; rw [List.map_flatten]
  have hbg : ∀ l : List (List (ℝ × ℝ × ℝ)), (l.map bgEv).flatten = bgEv l.flatten := by
    intro l; unfold bgEv; rw [List.map_flatten]
  unfold cfitNllGradBatch
  simp only []
  rw [key sigEv hsig kid mbs mbs' hm, key bgEv hbg kid mbs mbs' hm]
  have hpe : ∀ (a b : ℝ) (l : List (List (ℝ × ℝ × ℝ))), (l.map (probEv fb a b)).flatten = probEv fb a b l.flatten := by
    intro a b l; unfold probEv; rw [List.map_flatten]
  rw [key _ (hpe _ _) clipLog bs bs' h]

/-- ★ cfit: `__call__` and the gradient-path value agree when every mixture density is above ε and no weight is
zero (below ε the gradient path uses `clip_log`, `__call__` the plain logarithm — they differ there). -/
theorem cfit_value_paths_agree (fb : ℝ) (n : ℕ) (hn : 0 < n) (d m : List (ℝ × ℝ × ℝ))
    (hα : alphaOf (w3 d) = 1) (hw : ∀ p ∈ d, p.1 ≠ 0)
    (hp : ∀ p ∈ d, eps < cfitProb fb (dotp (sigEv m)) (dotp (bgEv m)) p.2.1 p.2.2) :
    cfitNllGradBatch fb (chunk n d) (chunk n m) = cfitNll fb d m := by
  rw [cfit_mixture fb d m hα hw]
  unfold cfitNllGradBatch
  simp only []
  have hsig : ∀ l : List (List (ℝ × ℝ × ℝ)), (l.map sigEv).flatten = sigEv l.flatten := by
    intro l; unfold sigEv; rw [List.map_flatten]
  have hbg : ∀ l : List (List (ℝ × ℝ × ℝ)), (l.map bgEv).flatten = bgEv l.flatten := by
    intro l; unfold bgEv; rw [List.map_flatten]
  have hpe : ∀ (a b : ℝ) (l : List (List (ℝ × ℝ × ℝ))), (l.map (probEv fb a b)).flatten = probEv fb a b l.flatten := by
    intro a b l; unfold probEv; rw [List.map_flatten]
  rw [sumBatches_flatten, sumBatches_flatten, sumBatches_flatten, hsig, hbg, hpe, chunk_flatten n hn,
    chunk_flatten n hn, batchSum_eq_plain, batchSum_eq_plain, batchSum_eq_plain, plainSum_kid, plainSum_kid]
  congr 1
  unfold plainSum probEv
  rw [List.map_map]
  apply lsum_map_congr
  intro p hpm
  simp only [Function.comp_apply]
  rw [clipLog_above _ (hp p hpm)]
  rfl

example : ∀ p ∈ ([((1 : ℝ), (2 : ℝ), (3 : ℝ)), (1, 1, 1)] : List (ℝ × ℝ × ℝ)),
    eps < cfitProb (1 / 2) (dotp (sigEv [((1 : ℝ), (1 : ℝ), (1 : ℝ))])) (dotp (bgEv [((1 : ℝ), (1 : ℝ), (1 : ℝ))])) p.2.1 p.2.2 := by
  intro p hp
  simp only [List.mem_cons, List.not_mem_nil, or_false] at hp
  rcases hp with h | h <;> subst h <;> norm_num [eps, cfitProb, dotp, sigEv, bgEv, lsum]

/-! ## custom models -/

/-- `simple` model: `-Σ wᵢ ln fᵢ + (Σ wᵢ) ln Σ vⱼ gⱼ` (no clipping at all). -/
theorem simple_formula (d m : List (ℝ × ℝ)) :
    simpleNll klog d m = -(lsum (d.map fun p => p.1 * Real.log p.2)) + lsum (weights d) * Real.log (dotp m) := rfl

/-- … and its batched value (gradient and Hessian path) equals it for every partition into batches. -/
theorem simple_batch_invariant (lg : ℝ → ℝ) (bs mbs : List (List (ℝ × ℝ))) :
    simpleNllBatch lg bs mbs = simpleNll lg bs.flatten mbs.flatten := by
  unfold simpleNllBatch simpleNll
  have hnorm : lsum (mbs.map dotp) = dotp mbs.flatten := by
    unfold dotp; exact lsum_flatten (fun p => p.1 * p.2) mbs
  rw [hnorm]
  generalize dotp mbs.flatten = nrm
  unfold simplePart
  induction bs with
  | nil => simp [weights]
  | cons b bs ih =>
    simp only [List.map_cons, lsum_cons, List.flatten_cons, List.map_append, lsum_append, weights_append] at ih ⊢
    rw [ih]
    ring


/-- `simple_chi2`: batched value = one-batch value for every partition. -/
theorem chi2_batch_invariant (bs : List (List (ℝ × ℝ))) : chi2Batch bs = chi2Part bs.flatten := by
  unfold chi2Batch chi2Part
  induction bs with
  | nil => simp
  | cons b bs ih =>
    simp only [List.map_cons, lsum_cons, List.flatten_cons, List.map_append, lsum_append] at ih ⊢
    rw [ih]; ring

/-! ## cached variants and cfit_extended -/

/-- `cached_int` / `cached_amp`: when the cached integral equals `Σ vⱼ gⱼ` (C05's claim) the gradient-path value
is the default model's, for every partition into batches. -/
theorem cached_paths_agree (bs mbs : List (List (ℝ × ℝ))) :
    cachedNllGradBatch bs (dotp mbs.flatten) = modelNllGradBatch false bs mbs := by
  unfold cachedNllGradBatch modelNllGradBatch intF
  rw [sumPlain_flatten, sumBatches_flatten, sumBatches_flatten, batchSum_eq_plain, batchSum_eq_plain, plainSum_kid]
  simp

/-- `cfit_cached`: **if** the signal values integrated for the normalisation are `eff·A` (they are the bare
amplitude on the unchanged tree — see the known finding) the value equals `Model_cfit`'s. -/
theorem cfit_cached_agrees_if_eff (fb : ℝ) (bs mbs : List (List (ℝ × ℝ × ℝ))) :
    cfitCachedNllGradBatch fb bs mbs (mbs.map sigEv) = cfitNllGradBatch fb bs mbs := by
  unfold cfitCachedNllGradBatch cfitNllGradBatch
  simp only []
  rw [sumPlain_flatten, sumBatches_flatten kid (mbs.map sigEv), batchSum_eq_plain, sumPlain_flatten,
    sumBatches_flatten clipLog, batchSum_eq_plain]

/-- `ModelCfitExtended.nll` for FCN-scaled weights:
`-Σ wᵢ ln Pᵢ − (Σ wᵢ) ln(∫s/(1-f_bg)) + ∫s/(1-f_bg)`. -/
theorem cfit_extended_formula (fb : ℝ) (d m : List (ℝ × ℝ × ℝ)) (hα : alphaOf (w3 d) = 1) :
    cfitExtNll fb d m =
      -(lsum (d.map fun p => p.1 * Real.log ((1 - fb) * p.2.1 / dotp (sigEv m) + fb * p.2.2 / dotp (bgEv m))))
        - lsum (w3 d) * Real.log (dotp (sigEv m) / (1 - fb)) + dotp (sigEv m) / (1 - fb) := by
  unfold cfitExtNll reweight3
  rw [hα]
  simp only [one_mul, klog, cfitProb]
  have : (d.map fun p : ℝ × ℝ × ℝ => (p.1, p.2.1, p.2.2)) = d := by simp
  rw [this]

end TfPwaV.C06
