import TfPwaV.Proofs.VarsTied
/-!
# C16 (c) — "tied parameters always read the same value and count once" for the `set_same` of the current tree

`cfg.fixSame = true` is the `set_same` after commit 647ec00.  All theorems are about `TfPwaV.Vars.step` for **every**
value arithmetic `A : Arith V`, every initial `polar` setting and every finite history in the order a configuration
applies operations (`WellPhased`), with repeated / overlapping tie calls on real and complex names.

* `counted_once_every_named_history` — free list duplicate-free, no two free names on one object, every `same_list`
  group contributes at most one free name: for every `WellNamed` history (no separation hypothesis: a complex parameter
  may be tied as a whole AND through its parts).
* `tied_stays_tied_partial` — additionally all members of every `same_list` group are bound to one object (read equal),
  groups are pairwise disjoint and only grow: for histories that are `WellSeparated` (a complex parameter is tied as a
  whole or through its parts, not both).
* `tied_stays_tied_refuted_outside` — outside that sub-domain the statement is false (kernel-decided witness; the
  harness shows the same history on a real `VarsManager`: finding `set_same:whole-and-part:tie-broken`).
* the two listed findings as sub-domain theorem + witness: coordinate operations on parameters with a shared part,
  `set_all(get_all_dic())` under a mask.
-/
open TfPwaV.Vars

namespace TfPwaV.C16c

variable {V : Type}

/-- **Counted once, for every named history of the current `set_same`** — including histories in which a complex
parameter is tied both as a whole and through its parts.  For every arithmetic, `polar` setting and `WellPhased`,
`WellNamed` history: `trainable_vars` has no duplicates and only bound names, no two different free names are bound to
one object, and every group of `same_list` (real names, or complex parameters counted through their parts) has at most
one free member. -/
theorem counted_once_every_named_history (A : Arith V) (cfg : Cfg) (hc : cfg.fixSame = true) (d : V) (pol : Bool)
    (ops : List (Op V)) (hw : WellPhased ops) (hn : WellNamed A cfg (State.empty d pol) ops) :
    let s := run A cfg (State.empty d pol) ops
    s.trainable.Nodup ∧ (∀ n ∈ s.trainable, (cellOf s n).isSome) ∧
      (∀ a ∈ s.trainable, ∀ b ∈ s.trainable, a ≠ b → cellOf s a ≠ cellOf s b) ∧
      (∀ g ∈ s.same, (∀ a ∈ g, ∀ b ∈ g, a ∈ s.trainable → b ∈ s.trainable → a = b) ∨
                     (∀ a ∈ g, ∀ b ∈ g, trC s a → trC s b → a = b)) := by
  intro s
  have h := run_invF A cfg hc ops 0 _ hw hn (empty_invF d pol) (fun _ => ⟨(empty_inv d pol).2, rfl⟩)
  refine ⟨h.inv.nodup, fun n hn => h.inv.sub n hn, h.inv.once, ?_⟩
  intro g hg
  rcases h.groups g hg with h' | h'
  · exact Or.inl h'.2
  · exact Or.inr h'.2

/-- FULL: for EVERY `WellPhased`, `WellNamed` history of the current `set_same`, all members of every `same_list` group
are bound to one object (tied parameters read the same value).  That is false (`tied_stays_tied_refuted_outside`).

**Proved sub-domain**: histories that are in addition `WellSeparated` — every real tie lists no part `c+"r"`/`c+"i"` of a
complex parameter `c` that already belongs to a group, every complex tie / shared radius lists no parameter one of whose
parts already belongs to a group.  Then the full invariant `InvT` holds after the history: `InvF` (counted once), every
group is of one kind and **all its members are bound to one object** (`GT`: real names — one object; complex
parameters — the `r` parts one object and the `i` parts one object), the groups are pairwise disjoint. -/
theorem tied_stays_tied_partial (A : Arith V) (cfg : Cfg) (hc : cfg.fixSame = true) (d : V) (pol : Bool)
    (ops : List (Op V)) (hw : WellPhased ops) (hn : WellNamed A cfg (State.empty d pol) ops)
    (hs : WellSeparated A cfg (State.empty d pol) ops) : InvT (run A cfg (State.empty d pol) ops) :=
  run_invT A cfg hc ops 0 _ hw hn hs (empty_invT d pol) (fun _ => ⟨(empty_inv d pol).2, rfl⟩)

/-- the consequence in terms of values: members of one group read the same value -/
theorem tie_groups_read_equal (A : Arith V) (cfg : Cfg) (hc : cfg.fixSame = true) (d : V) (pol : Bool)
    (ops : List (Op V)) (hw : WellPhased ops) (hn : WellNamed A cfg (State.empty d pol) ops)
    (hs : WellSeparated A cfg (State.empty d pol) ops) :
    let s := run A cfg (State.empty d pol) ops
    ∀ g ∈ s.same, (∀ a ∈ g, ∀ b ∈ g, readN s a = readN s b) ∨
      (∀ a ∈ g, ∀ b ∈ g, readN s (a ++ "r") = readN s (b ++ "r") ∧ readN s (a ++ "i") = readN s (b ++ "i")) := by
  intro s g hg
  rcases (tied_stays_tied_partial A cfg hc d pol ops hw hn hs).tied g hg with ⟨_, h⟩ | ⟨_, h⟩
  · exact Or.inl fun a ha b hb => read_eq_of_cell_eq s a b (h a ha b hb)
  · exact Or.inr fun a ha b hb => ⟨read_eq_of_cell_eq s _ _ (h a ha b hb).1, read_eq_of_cell_eq s _ _ (h a ha b hb).2⟩

/-- **Ties only grow**: in every state with pairwise disjoint groups, after any `set_same` call every old group is
contained in a group of the new `same_list` (it is kept, or swallowed by the group the call creates). -/
theorem ties_only_grow (cfg : Cfg) (hc : cfg.fixSame = true) (s : State V) (hi : InvT s) (names : List Name) (cplx : Bool) :
    ∀ g ∈ s.same, ∃ g' ∈ (setSame cfg s names cplx).1.same, ∀ f ∈ g, f ∈ g' :=
  setSame_groups_grow cfg hc s hi.disj names cplx

/-- the arithmetic used for closed examples: values are `Nat`, all functions trivial -/
def arithN : Arith Nat :=
  ⟨id, id, id, id, fun _ x => x, Nat.add, Nat.sub, Nat.mul, fun _ => false, 3, id, fun _ _ x => x,
   fun _ _ x => x, fun _ _ x => x, fun _ _ x => x, id⟩

/-- repeated, overlapping and chained tie calls on real and complex names (each parameter tied as a whole or through
its parts): merges of two real groups, a complex chain, a shared radius joined to a real tie of parts -/
def separatedHistory : List (Op Nat) :=
  [.addReal "a" 1 true true, .addReal "b" 2 true true, .addReal "c" 3 true false, .addReal "d" 4 true true,
   .addComplex "p" none true 5 6, .addComplex "q" none true 7 8, .addComplex "u" none true 9 10,
   .addComplex "v" none true 11 12, .addComplex "w" none false 13 14,
   .setFix "b" none false, .setSame ["a", "b"] false, .setSame ["c", "d"] false, .setSame ["b", "d"] false,
   .setSame ["b", "a", "d"] false,
   .setSame ["p", "q"] true, .setSame ["u", "q"] true, .setSame ["q", "p"] true,
   .setShareR ["v", "w"], .setSame ["wi", "a"] false, .setSame ["vr", "vi"] false,
   .setAllList [1, 2, 3] false]

-- non-vacuity of `tied_stays_tied_partial`: the three hypotheses hold for `separatedHistory`, with 3 groups at the end
example : WellPhased separatedHistory ∧ WellNamed arithN ⟨true, true, false, false⟩ (State.empty 0 true) separatedHistory ∧
    WellSeparated arithN ⟨true, true, false, false⟩ (State.empty 0 true) separatedHistory ∧
    (run arithN ⟨true, true, false, false⟩ (State.empty 0 true) separatedHistory).same.length = 3 := by
  unfold WellPhased WellNamed WellSeparated; decide +kernel

/-- a complex parameter tied through a part (`qi` to the fixed real `x`) and then as a whole (`p`, `q`) -/
def mixedHistory : List (Op Nat) :=
  [.addReal "x" 1 true false, .addComplex "p" none true 2 3, .addComplex "q" none true 4 5,
   .setSame ["x", "qi"] false, .setSame ["p", "q"] true]

/-- **`WellSeparated` is needed** (finding `set_same:whole-and-part:tie-broken`): the history is in phase order and
`WellNamed`, but the second call re-binds `qi` to the object of `pi` and leaves `x` behind — `x` and `qi` are still
listed in one `same_list` group and are bound to different objects.  "Counted once" still holds. -/
theorem tied_stays_tied_refuted_outside :
    let s := run arithN ⟨true, true, false, false⟩ (State.empty 0 true) mixedHistory
    wellPhasedFrom 0 mixedHistory = true ∧ wellNamedFrom arithN ⟨true, true, false, false⟩ (State.empty 0 true) mixedHistory = true ∧
      wellSepFrom arithN ⟨true, true, false, false⟩ (State.empty 0 true) mixedHistory = false ∧
      ["x", "qi"] ∈ s.same ∧ cellOf s "x" ≠ cellOf s "qi" ∧ readN s "x" ≠ readN s "qi" := by
  decide +kernel

/-! ## the two listed findings: sub-domain and witness -/

/-- FULL: a coordinate operation on the complex parameter `c` (`rp2xy`, `xy2rp`) leaves every OTHER complex parameter
`d` as it was.  False when `d` shares a part with `c` through `set_share_r` / a real tie of parts
(`shared_radius_coordinate_op_moves_partner`).

**Proved sub-domain**: in EVERY state, if neither part of `d` is bound to the object of a part of `c`, the stored parts
of `d` are unchanged by `rp2xy(c)` and `xy2rp(c)`. -/
theorem coordinate_op_frame_partial (A : Arith V) (cfg : Cfg) (s : State V) (c d : Name) (cr ci : Nat)
    (hr : cellOf s (d ++ "r") = some cr) (hi : cellOf s (d ++ "i") = some ci)
    (h1 : cellOf s (c ++ "r") ≠ some cr) (h2 : cellOf s (c ++ "i") ≠ some cr)
    (h3 : cellOf s (c ++ "r") ≠ some ci) (h4 : cellOf s (c ++ "i") ≠ some ci) :
    (readN (step A cfg s (.rp2xy c)).1 (d ++ "r") = readN s (d ++ "r") ∧
     readN (step A cfg s (.rp2xy c)).1 (d ++ "i") = readN s (d ++ "i")) ∧
    (readN (step A cfg s (.xy2rp c)).1 (d ++ "r") = readN s (d ++ "r") ∧
     readN (step A cfg s (.xy2rp c)).1 (d ++ "i") = readN s (d ++ "i")) :=
  ⟨⟨(HF_rp2xy A cr s c h1 h2).read_eq _ hr, (HF_rp2xy A ci s c h3 h4).read_eq _ hi⟩,
   ⟨(HF_xy2rp A cr s c h1 h2).read_eq _ hr, (HF_xy2rp A ci s c h3 h4).read_eq _ hi⟩⟩

/-- **Witness outside the sub-domain** (finding `tied-part:coordinate-op-changes-value`): `p`, `q` polar with a shared
radius; `rp2xy(p)` overwrites the shared object with `r·cos φ_p`, so the stored radius of `q` changes while `q` is
still flagged polar — its complex value changes although the call did not name it. -/
theorem shared_radius_coordinate_op_moves_partner :
    let s := run arithN ⟨true, true, false, false⟩ (State.empty 0 true)
      [.addComplex "p" (some true) false 2 3, .addComplex "q" (some true) false 5 7, .setShareR ["p", "q"]]
    let t := (step arithN ⟨true, true, false, false⟩ s (.rp2xy "p")).1
    cellOf s "qr" = cellOf s "pr" ∧ readN s "qr" = some 2 ∧ readN t "qr" = some 6 ∧
      dget t.cplx "q" = some true ∧ readN t "qi" = readN s "qi" := by
  decide +kernel

/-- FULL: `set_all(get_all_dic())` changes nothing.  False while `mask_params` is active
(`C16.getall_setall_under_mask_writes_mask`).

**Proved sub-domain, wider than "no mask"**: in EVERY state in which no masked name is bound
(`∀ n, n masked → n ∉ variables`; in particular with no mask), the whole state is unchanged. -/
theorem getall_setall_id_partial (A : Arith V) (cfg : Cfg) (s : State V)
    (hm : ∀ n, dhas s.mask n = true → dhas s.vars n = false) (trainableOnly : Bool) :
    (step A cfg s (.setAllDict (getAllDic A s trainableOnly) false)).1 = s := by
  simp only [step]
  apply setAllDict_self
  intro kv hkv
  unfold getAllDic at hkv
  obtain ⟨n, _, hn⟩ := List.mem_filterMap.1 hkv
  unfold readMasked at hn
  cases hc : cellOf s n with
  | none => simp [hc] at hn
  | some c =>
    have hv : dhas s.vars n = true := by unfold dhas; unfold cellOf at hc; simp [hc]
    have hmn : dget s.mask n = none := by
      cases hd : dget s.mask n with
      | none => rfl
      | some m =>
        have := hm n (by unfold dhas; simp [hd])
        rw [hv] at this; simp at this
    simp only [hc, hmn, Option.map_some, Option.some.injEq] at hn
    subst hn
    unfold readN
    simp [hc]

end TfPwaV.C16c
