import TfPwaV.Proofs.InterpND
import TfPwaV.Proofs.InterpNDInt
/-!
# C20 (part 4) — `InterpND` / `InterpNDHist`: points stay in the selected cell, cells are selected with the integral
# of the interpolant, the within-cell law is the interpolant

Theorems over ℝ about `TfPwaV.InterpNDR`, the ℝ-instance of `templates/InterpND.lean.in`, which mirrors
`tf_pwa/generator/interp_nd.py` after the fix commits (cell volumes in the table, corner numbering of `build_coeffs`);
the Float instance of the same text is compared bit-for-bit with `InterpND.generate` / `InterpNDHist.generate` on
recorded uniforms, with `int_all` and with `coeffs`, in every dimension used (1…4), on every run.
All statements are for every dimension `n`, every grid and every node array.
-/
open TfPwaV.ScalarR
namespace TfPwaV.C20d
open TfPwaV.InterpNDR

/-- ★ `interp_nd_in_range`: for uniforms in `[0,1]` (and ANY value of the bin-selecting uniform), every coordinate of
the point returned by `InterpND.generate` lies between the edges of the cell decoded from the selected table entry,
hence between the first and the last node of its axis. -/
theorem interp_nd_in_range (g : Grid) (hg : GridOK g) (us : List ℝ) (ub : ℝ) (hl : us.length = g.nDim)
    (hu : ∀ u ∈ us, 0 ≤ u ∧ u ≤ 1) :
    InCell g.xs (decode g.counts (select (table g) 0 (ub * total (table g) 0) 0 % g.nBins)) (genPoint g us ub) ∧
    InRange g.xs (genPoint g us ub) := by
  have hc := cellOK_decode g hg (select (table g) 0 (ub * total (table g) 0) 0 % g.nBins)
  have h1 : InCell g.xs (decode g.counts (select (table g) 0 (ub * total (table g) 0) 0 % g.nBins))
      (genPoint g us ub) := by
    unfold genPoint
    exact genCoords_inCell g.xs _ _ us hc (lookupCoeff_length _ _) hl hu
  exact ⟨h1, inCell_inRange g.xs _ _ (fun x hx => (hg x hx).1) hc h1⟩

/-- the same for `InterpNDHist.generate` -/
theorem interp_nd_hist_in_range (g : Grid) (hg : GridOK g) (us : List ℝ) (ub : ℝ) (hl : us.length = g.nDim)
    (hu : ∀ u ∈ us, 0 ≤ u ∧ u ≤ 1) :
    InCell g.xs (decode g.counts (select (histTable g) 0 (ub * total (histTable g) 0) 0 % g.nBins))
      (histPoint g us ub) ∧ InRange g.xs (histPoint g us ub) := by
  have hc := cellOK_decode g hg (select (histTable g) 0 (ub * total (histTable g) 0) 0 % g.nBins)
  have h1 : InCell g.xs (decode g.counts (select (histTable g) 0 (ub * total (histTable g) 0) 0 % g.nBins))
      (histPoint g us ub) := by
    unfold histPoint
    exact histCoords_inCell g.xs _ us hc hl hu
  exact ⟨h1, inCell_inRange g.xs _ _ (fun x hx => (hg x hx).1) hc h1⟩

/-- ★ cell selection: for `u ∈ [0,1)` and a table of positive total, the entry `k` chosen by
`digitize(u·T, cumsum(table)[:-1])` is the one whose cumulative interval `[S_k, S_k + w_k)` contains `u·T`
(so an entry is chosen for a set of `u` of length `w_k / T`, never an entry of weight 0), and it is the entry
`int_all[p][cell c]` with `p = k // n_bins`, `c = k % n_bins` that `generate` decodes. -/
theorem interp_nd_selected_entry (g : Grid) (hb : 0 < g.nBins) (ub : ℝ) (h0 : 0 ≤ ub) (h1 : ub < 1)
    (hT : 0 < total (table g) 0) :
    let k := select (table g) 0 (ub * total (table g) 0) 0
    k / g.nBins < 2 ^ g.nDim ∧ k % g.nBins < g.nBins ∧
    ((table g).take k).sum ≤ ub * total (table g) 0 ∧
    ub * total (table g) 0 < ((table g).take k).sum + entry g (k / g.nBins) (k % g.nBins) ∧
    0 < entry g (k / g.nBins) (k % g.nBins) := by
  intro k
  have hlen : (table g).length = 2 ^ g.nDim * g.nBins := flatMap_range_length _ _ _
  have hne : table g ≠ [] := by
    intro h
    have : 0 < (table g).length := by rw [hlen]; positivity
    rw [h] at this; simp at this
  obtain ⟨j, hj1, hj2, hj3, hj4⟩ := select_spec (table g) 0 (ub * total (table g) 0) 0 hne
    (mul_nonneg h0 hT.le) (by nlinarith)
  have hk : k = j := by simpa using hj1
  rw [← hk] at hj2 hj3 hj4
  have hp : k / g.nBins < 2 ^ g.nDim := by
    rw [Nat.div_lt_iff_lt_mul hb, ← hlen]; exact hj2
  have hc : k % g.nBins < g.nBins := Nat.mod_lt _ hb
  have hent : (table g).getD k 0 = entry g (k / g.nBins) (k % g.nBins) := by
    have := flatMap_range_getD (2 ^ g.nDim) g.nBins (entry g) (k / g.nBins) (k % g.nBins) hp hc
    rw [Nat.div_add_mod'] at this
    exact this
  rw [hent] at hj4
  simp only [zero_add] at hj3 hj4
  exact ⟨hp, hc, hj3, hj4, by linarith⟩

/-- ★ `interp_nd_bin_mass`: the total weight with which a cell is selected (sum over its `2^n` corner entries) is
`(cell volume) × ∫_{[0,1]^n} (multilinear interpolant of the cell's corner values)` — the integral of the interpolant
over the cell in cell coordinates — which is `(mean corner value) × (cell volume)`; all dimensions. -/
theorem interp_nd_bin_mass (g : Grid) (c : Nat) :
    ((List.range (2 ^ g.nDim)).map fun p => entry g p c).sum =
      vol g (decode g.counts c) * iint g.nDim (evalL g.nDim (cornerVals g (decode g.counts c))) ∧
    iint g.nDim (evalL g.nDim (cornerVals g (decode g.counts c))) =
      (cornerVals g (decode g.counts c)).sum / 2 ^ g.nDim := by
  have h := iint_evalL g.nDim _ (cornerVals_length g (decode g.counts c))
  refine ⟨?_, h⟩
  rw [cell_weight, h]
  unfold kofNat
  push_cast
  ring

/-- ★ corner numbering (`build_coeffs` after the fix): row `p` of `self.coeffs` — the within-cell sampling shape used
when table row `p` is selected — belongs to the same corner as row `p` of `int_all`: both are the `p`-th tuple of
`itertools.product`, whose bits are the binary digits of `p`, first dimension most significant. -/
theorem build_coeffs_numbering (n p : Nat) (h : p < 2 ^ n) :
    lookupCoeff n p = bitsOf n p ∧ (paths n)[p]? = some (bitsOf n p) :=
  ⟨lookupCoeff_eq n p h, paths_get n p h⟩

/-- … so the value weighting table row `p` of a cell is the node value at `cell + bits(p)` -/
theorem corner_value (g : Grid) (cell : List Nat) (p : Nat) (h : p < 2 ^ g.nDim) :
    (cornerVals g cell).getD p 0 =
      g.z.getD (flatIndex (g.xs.map List.length) (List.zipWith (· + ·) cell (bitsOf g.nDim p)) 0) 0 := by
  unfold cornerVals
  rw [List.getD_eq_getElem?_getD, List.getElem?_map, paths_get _ _ h]
  simp

/-- ★ within-cell law, one coordinate: `√u` is the inverse of the cumulative function of the density `2t` (coordinate
drawn towards the upper corner), `1 − √u` is the inverse of the survival function of the density `2(1 − t)`
(towards the lower corner). -/
theorem within_cell_inverse_cdf (u : ℝ) (h : 0 ≤ u) :
    cdfHi (unitCoord 1 (ksqrt u)) = u ∧ cdfLo (unitCoord 0 (ksqrt u)) = 1 - u := by
  have hs : Real.sqrt u ^ 2 = u := Real.sq_sqrt h
  constructor
  · rw [cdfHi_eq]; simp only [unitCoord, ksqrt]; linarith [hs]
  · rw [cdfLo_eq]; simp only [unitCoord, ksqrt]; nlinarith [hs]

/-- ★ within-cell law, `n` dimensions (product structure): choosing corner `p` with probability proportional to its
table weight `vals[p] / 2^n` and then drawing the coordinates independently with the densities `2t` / `2(1−t)` of that
corner's bits gives, as density on the unit cell, exactly the multilinear interpolant of the corner values. -/
theorem within_cell_mixture (n : Nat) (vals ts : List ℝ) (hv : vals.length = 2 ^ n) (ht : ts.length = n) :
    (List.zipWith (fun v bits => v / 2 ^ n * prodDens bits ts) vals (paths n)).sum = evalL n vals ts :=
  mix_eq_evalL n vals ts hv ht

-- non-vacuity: a 2-d grid with a repeated node; and the 2-d interpolant at a point
example : GridOK ⟨[[0, 1, 3], [0, 2, 2, 4]], [1, 2, 0, 1, 3, 1, 1, 0, 0, 2, 2, 1]⟩ := by
  intro x hx
  simp only [List.mem_cons, List.not_mem_nil, or_false] at hx
  rcases hx with rfl | rfl
  · exact ⟨by simp [List.pairwise_cons], by simp⟩
  · exact ⟨by simp [List.pairwise_cons]; norm_num, by simp⟩
example : evalL 2 [3, 1, 0, 2] [0, 1] = 1 := by simp [evalL]

end TfPwaV.C20d
