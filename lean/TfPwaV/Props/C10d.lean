import TfPwaV.Proofs.PhspChain
import TfPwaV.Props.C10b
/-!
# C10 (part d) — nested chains in full: `_restruct_pi ∘ generate_momentum`, every nesting

`chain_structure` / `chain_on_shell` (`Props/C10b.lean`) take the *outputs* of the node generators as a hypothesis
(`GoodNode`).  Here that hypothesis is discharged for what `generate_momentum` actually returns
(`momentum_sum`, `on_shell`, and the new energy-positivity lemma `generated_energy_positive`), so the statement is
about the composition the code runs: for EVERY struct (any depth, any number of daughters per node), every final and
every intermediate particle is on its mass shell and four-momentum is conserved at every vertex.

Hypotheses are the code's own regime, per node (`NodeInput`): non-negative daughter masses, the mass ordering
`generate_mass` produces (`MomChain`, see `domain_is_chain`), uniforms for `cos θ` in [0,1], the regular branch
`ε < |v|² < 1` of `LorentzVector.boost` at every recoil boost (`RegChain`) and at the boost by every *nested*
daughter's momentum (`Regular`), and a first two-body step that produces no zero four-vector (`FirstOK`: `q > 0`
or massive daughters).  The guard branch `|v|² ≤ ε` of the boost is exact only to `O(|v|²)` (`C11.boost_guard_branch`).
-/
open TfPwaV.ScalarR
namespace TfPwaV.C10
open TfPwaV.PhspR TfPwaV.KinR

/-- **Positive energies**: every momentum returned by `generate_momentum` has `E > 0` — every number of bodies, all
angles.  (Needed to boost *by* a nested daughter's momentum: `boost_vector = p⃗ / E`.) -/
theorem generated_energy_positive (m0 : ℝ) (mass ms : List ℝ) (us : List (ℝ × ℝ))
    (hreg : RegChain m0 (mass.reverse.headD 0) true ms (mass.reverse.drop 1))
    (hfirst : FirstOK m0 (mass.reverse.headD 0) ms (mass.reverse.drop 1))
    (hlen : us.length + 1 = mass.length) (hu : ∀ u ∈ us, 0 ≤ u.1 ∧ u.1 ≤ 1) :
    ∀ p ∈ generateMomentum id m0 mass ms us, 0 < p.t :=
  generateMomentum_energy m0 mass ms us hreg hfirst hlen hu

/-- A boost with `|v| < 1` keeps the energy of a time-like or light-like momentum positive (all vectors, no
regular-branch hypothesis). -/
theorem boost_keeps_energy_positive (p : V4) (v : V3) (h2 : v.norm2 < 1) (hE : 0 < p.t) (hm : 0 ≤ p.m2) :
    0 < (p.boost v).t := boost_energy_pos p v h2 hE hm

/-- the inputs of one node's generator (its intermediate masses `i.1` and angle uniforms `i.2`) are in the code's
regime; the last clause is the regular boost branch for the momenta the sub-trees will be boosted by -/
def NodeInput (s : ℝ × List MTree) (i : List ℝ × List (ℝ × ℝ)) : Prop :=
  (∀ m ∈ s.2.map MTree.mass, 0 ≤ m) ∧
  MomChain s.1 ((s.2.map MTree.mass).reverse.headD 0) i.1 ((s.2.map MTree.mass).reverse.drop 1) ∧
  RegChain s.1 ((s.2.map MTree.mass).reverse.headD 0) true i.1 ((s.2.map MTree.mass).reverse.drop 1) ∧
  FirstOK s.1 ((s.2.map MTree.mass).reverse.headD 0) i.1 ((s.2.map MTree.mass).reverse.drop 1) ∧
  i.2.length + 1 = (s.2.map MTree.mass).length ∧ (∀ u ∈ i.2, 0 ≤ u.1 ∧ u.1 ≤ 1) ∧
  List.Forall₂ (fun c p => match c with | .leaf _ => True | .node _ _ => Regular p) s.2
    (generateMomentum id s.1 (s.2.map MTree.mass) i.1 i.2)

/-- **What `generate_momentum` returns for a node satisfies `GoodNode`** (the hypothesis of `chain_structure`):
adds up to `(m_node,0,0,0)`, positive energies, daughters on their mass shells. -/
theorem generated_good_node (s : ℝ × List MTree) (i : List ℝ × List (ℝ × ℝ)) (h : NodeInput s i) :
    GoodNode s (generateMomentum id s.1 (s.2.map MTree.mass) i.1 i.2) := by
  obtain ⟨hpos, hchain, hreg, hfirst, hlen, hu, hR⟩ := h
  refine ⟨momentum_sum s.1 _ i.1 i.2 hpos hchain hlen hu, generateMomentum_energy s.1 _ i.1 i.2 hreg hfirst hlen hu, ?_⟩
  exact forall₂_and (forall₂_flip_map s.2 _ (on_shell s.1 _ i.1 i.2 hreg hlen hu)) hR

/-- **Nested chains, in full, every nesting**: for every struct `node m ch` (any depth, any number of daughters per
node, positive node masses) and every list `inp` of per-node generator inputs in the code's regime (`NodeInput`, in
`_get_generator` order): if `_restruct_pi` consumes the momenta `generate_momentum` returns for these inputs, then
* all final-state momenta add up to `(m,0,0,0)`;
* the returned momentum tree realises the struct (`MatchL`): every final particle is on its mass shell, every
  intermediate particle is on its fixed mass shell AND equals the sum of the final-state momenta below it
  (four-momentum conservation at every vertex, at every depth);
* in particular the flat list of final-state momenta (`strip_tree` order) is on the list of final-state masses.
Structural induction over the tree (`chain_structure`) composed with `momentum_sum`, `on_shell`,
`generated_energy_positive` of the flat generator. -/
theorem chain_on_shell_full (m : ℝ) (ch : List MTree) (inp : List (List ℝ × List (ℝ × ℝ))) (forest : List PTree)
    (hin : List.Forall₂ NodeInput (MTree.node m ch).specs inp) (hpos : (MTree.node m ch).posNodes)
    (h : (MTree.node m ch).restruct
        (List.zipWith (fun s i => generateMomentum id s.1 (s.2.map MTree.mass) i.1 i.2) (MTree.node m ch).specs inp)
          = some (forest, [])) :
    sumV4 (leavesL forest) = ⟨m, 0, 0, 0⟩ ∧ MatchL ch forest ∧
      List.Forall₂ OnShell (leavesL forest) (MTree.node m ch).leafMasses := by
  have hgood : List.Forall₂ GoodNode (MTree.node m ch).specs
      (List.zipWith (fun s i => generateMomentum id s.1 (s.2.map MTree.mass) i.1 i.2) (MTree.node m ch).specs inp) :=
    forall₂_zipWith _ (fun s i hsi => generated_good_node s i hsi) hin
  obtain ⟨h1, h2⟩ := chain_structure m ch _ forest h hpos hgood
  exact ⟨h1, h2, chain_on_shell m ch _ forest h hpos hgood⟩

/-- the generators `chainRun` runs are exactly the `(mass, daughters' masses)` of `specs`, in this order -/
theorem chain_inputs_are_gens (t : MTree) : t.specs.map (fun s => (s.1, s.2.map MTree.mass)) = t.gens :=
  specs_gens t

-- non-vacuity of `NodeInput`: the node 1.0 → 0.1 0.2 0.3 (all final) at the mass point 0.6 with any angles in range
example : NodeInput (1.0, [.leaf 0.1, .leaf 0.2, .leaf 0.3]) ([0.6], [(0.25, 0.5), (0.5, 0.125)]) := by
  have hq : getP 1.0 0.6 0.1 * getP 1.0 0.6 0.1 = g2 1.0 0.6 0.1 := getP_sq (by norm_num) (by norm_num) (by norm_num) (by norm_num)
  refine ⟨?_, ?_, ?_, ?_, rfl, ?_, ?_⟩
  · intro m hm; simp [MTree.mass] at hm; rcases hm with h | h | h <;> rw [h] <;> norm_num
  · simp [MomChain, MTree.mass]; norm_num
  · simp only [RegChain, MTree.mass, List.map_cons, List.map_nil, List.reverse_cons, List.reverse_nil, List.nil_append,
      List.cons_append, List.headD_cons, List.drop_succ_cons, List.drop_zero, true_or, true_and]
    right
    rw [hq]
    unfold g2 p2Of eps
    norm_num
  · simp only [FirstOK, firstQ, MTree.mass, List.map_cons, List.map_nil, List.reverse_cons, List.reverse_nil,
      List.nil_append, List.cons_append, List.headD_cons, List.drop_succ_cons, List.drop_zero]
    constructor <;> nlinarith [mul_self_nonneg (getP 0.6 0.3 0.2)]
  · intro u hu; simp at hu; rcases hu with h | h <;> rw [h] <;> norm_num
  · simp [generateMomentum, genMomAux, momStep, MTree.mass]

end TfPwaV.C10
