import TfPwaV.Proofs.EinsumOrder
import TfPwaV.Proofs.EinsumLoop

/-!
# C05 — the library's own tensor contraction returns the reference contraction (or declines)

Model: `TfPwaV.Einsum` (`Model/Einsum.lean`), a step-by-step transcription of `tf_pwa/einsum.py` on
(shape, flat row-major data) tensors over any commutative semiring `R`; reference semantics `einsumRef`
(sum over the non-output labels of the product of entries). The model is tied to the code by exact
correspondence on integer-valued operands (harness/c05.py).

/-- FULL: einsum_correct.  For every expression without a repeated index inside an operand, every shape
    assignment consistent with it, every contraction path and every commutative semiring:
      einsumCustom fixed ins out path procOrder ts = .ok T  →  T = einsumRef sizes (ins1.zip ts) out1
    (ins1/out1 = the expression with the ellipsis replaced).
    Proved below, for all inputs: the single contraction step for any number of operands (`einsum_step_correct`),
    the early-contraction identity (`einsum_contract_early`), the induction over ANY path for the loop of `einsum`
    (`einsum_loop_correct`, `einsum_correct_partial`), the declining cases, and that the strict ranking of the fixed
    ordered_indices can never trigger the tie guard (`einsum_fixed_order_never_ties`).
    The full statement — the wrapper around the loop (`replace_ellipsis`, the removal of the size-1 axes before the
    loop and the final reshape that re-inserts them) and numpy-style broadcasting of a label that has size 1 in one
    operand and n in another — is proved in `Props/C05b.lean` (`C05b.einsum_correct`); the theorems of this file
    are the non-broadcast core it was built from and are kept. -/
-/
namespace TfPwaV.C05
open TfPwaV.Einsum

variable {R : Type} [CommSemiring R]

/-- **The single-step routine equals the reference for its sub-expression** (Fubini for finite sums,
    broadcasting = product of 1-extended tensors, transposition / reshape = re-indexing).
    For EVERY number of operands, label lists, sizes, data, key function and every commutative semiring: whenever
    `tensor_einsum_reduce_sum` (model `stepReduceSum`) returns a tensor for operands whose dimensions are the label
    sizes, that tensor is the reference contraction `Σ_{labels not in O} Π_k T_k` laid out along the returned
    labels `O`.  (It returns `tie` instead when two labels have the same order value: see
    `einsum_step_tie_declines`; it delegates to the reference when a label is repeated inside an operand.) -/
theorem einsum_step_correct (sizes key : Idx → Nat) (ops : List (List Idx × Tensor R)) (final O : List Idx)
    (T : Tensor R) (hshape : ∀ p ∈ ops, p.2.shape = p.1.map sizes)
    (h : stepReduceSum sizes key ops final = .ok (O, T)) :
    T = einsumRef sizes ops O :=
  stepReduceSum_ok sizes key ops final O T hshape h

/-- non-vacuity: "ab,bc->ac" with a transposition ("ba" stored) really returns a tensor, and it is the matrix product -/
example :
    stepReduceSum (R := Int) (fun _ => 2) (fun l => l) [([98, 97], ⟨[2, 2], #[1, 3, 2, 4]⟩), ([98, 99], ⟨[2, 2], #[5, 6, 7, 8]⟩)] [97, 99]
      = .ok ([97, 99], ⟨[2, 2], #[19, 22, 43, 50]⟩) := by
  decide +kernel

/-- Outside the hypothesis "the labels of a step have pairwise different order values" the step declines
    (it never returns a tensor): this is the region where the Python result depends on set iteration order. -/
theorem einsum_step_tie_declines (sizes key : Idx → Nat) (ops : List (List Idx × Tensor R)) (final : List Idx)
    (hnodup : ops.any (fun p => hasDup p.1) = false)
    (htie : keysDistinct key (labelSet (ops.map (·.1)).flatten) = false) :
    stepReduceSum sizes key ops final = .error "tie" := by
  unfold stepReduceSum
  simp [hnodup, htie]

/-- non-vacuity: the finding "xab,bx->xa" with equal order values for a and b -/
example : keysDistinct (fun l => if l = 120 then 0 else 1) (labelSet ([[120, 97, 98], [98, 120]] : List (List Idx)).flatten) = false := by
  decide +kernel

/-- **With the fixed `ordered_indices` a tie is impossible**: its ranking (position in the sorted list of
    (value, name) pairs) is injective on the ranked labels — for every list of double values, i.e. independently of
    the floating-point comparisons — so the tie guard of a step never fires. -/
theorem einsum_fixed_order_never_ties (ord : List (Idx × Float)) (labels : List Idx) (hnd : labels.Nodup)
    (hsub : ∀ l ∈ labels, l ∈ ord.map (·.1)) :
    keysDistinct (rankFixed ord) labels = true :=
  keysDistinct_rankFixed ord labels hnd hsub

theorem rankFixed_injective (ord : List (Idx × Float)) (a b : Idx) (ha : a ∈ ord.map (·.1)) (hb : b ∈ ord.map (·.1))
    (h : rankFixed ord a = rankFixed ord b) : a = b :=
  rankFixed_inj ord a b ha hb h

/-- **Contracting a pair (or any group) early, keeping exactly the labels needed later, preserves the total**
    (distributivity): for all operand lists `part`, `rest`, all data, output labels `F`, if `O` consists of the
    labels of the group that occur in the output or in a remaining operand, then replacing the group by its
    reference contraction along `O` does not change the reference value of the whole expression. -/
theorem einsum_contract_early (sizes : Idx → Nat) (part rest : List (List Idx × Tensor R)) (F O : List Idx)
    (hpart : part ≠ []) (hF : F.Nodup) (hOnd : O.Nodup)
    (hO : ∀ a, a ∈ O ↔ (∃ p ∈ part, a ∈ p.1) ∧ (a ∈ F ∨ ∃ q ∈ rest, a ∈ q.1)) :
    einsumRef sizes (rest ++ [(O, einsumRef sizes part O)]) F = einsumRef sizes (part ++ rest) F :=
  einsumRef_contract sizes part rest F O hpart hF hOnd hO

/-- non-vacuity of the hypotheses: "ab,bc,cd->ad", group = first two operands, O = "ac" -/
example : ∀ a, a ∈ ([97, 99] : List Idx) ↔
    (∃ p ∈ ([([97, 98], (⟨[2, 2], #[1, 2, 3, 4]⟩ : Tensor Int)), ([98, 99], ⟨[2, 2], #[1, 2, 3, 4]⟩)] : List (List Idx × Tensor Int)), a ∈ p.1) ∧
      (a ∈ ([97, 100] : List Idx) ∨ ∃ q ∈ ([([99, 100], (⟨[2, 2], #[1, 2, 3, 4]⟩ : Tensor Int))] : List (List Idx × Tensor Int)), a ∈ q.1) := by
  intro a
  simp only [List.mem_cons, List.not_mem_nil, or_false, exists_eq_or_imp, exists_eq_left]
  constructor
  · rintro (rfl | rfl) <;> simp
  · rintro ⟨h1, h2⟩
    rcases h1 with (rfl | rfl) | (rfl | rfl) <;> simp at h2 ⊢

/-- **Induction over the contraction path**: for EVERY path (any sequence of position tuples, pairs or not), all
    operand lists whose dimensions are the label sizes, all data and every commutative semiring: whenever the loop
    `for idx in path:` of `einsum` returns (it declines on a tie, on a malformed path, or when a TensorFlow reshape
    would fail), the operand list it returns has the same reference contraction as the one it started from. -/
theorem einsum_loop_correct (sizes key : Idx → Nat) (F : List Idx) (hF : F.Nodup) (path : List (List Nat))
    (data data' : List (List Idx × Tensor R)) (hshape : ∀ p ∈ data, p.2.shape = p.1.map sizes)
    (h : loop sizes key F path data = .ok data') :
    einsumRef sizes data' F = einsumRef sizes data F :=
  (loop_ok sizes key F hF path data data' hshape h).1

/-- `einsum_correct` for the loop of `einsum` (see FULL above for what the wrapper adds): if the path reduces the
    operands to a single tensor along the output labels, that tensor has the shape and the entries of the reference
    contraction of the original operands — for every path. -/
theorem einsum_correct_partial (sizes key : Idx → Nat) (F : List Idx) (hF : F.Nodup) (path : List (List Nat))
    (data : List (List Idx × Tensor R)) (t : Tensor R) (hshape : ∀ p ∈ data, p.2.shape = p.1.map sizes)
    (h : loop sizes key F path data = .ok [(F, t)]) :
    t.shape = (einsumRef sizes data F).shape ∧
    ∀ oi, InRange (F.map sizes) oi → t.get oi = (einsumRef sizes data F).get oi :=
  loop_single sizes key F hF path data t hshape h

/-- non-vacuity: "ab,bc,cd->ad" along the path [(0,1),(0,1)] really ends with one tensor along "ad" -/
example :
    loop (R := Int) (fun _ => 2) (fun l => l) [97, 100] [[0, 1], [0, 1]]
      [([97, 98], ⟨[2, 2], #[1, 2, 3, 4]⟩), ([98, 99], ⟨[2, 2], #[0, 1, 1, 0]⟩), ([99, 100], ⟨[2, 2], #[1, 1, 0, 1]⟩)]
      = .ok [([97, 100], ⟨[2, 2], #[2, 3, 4, 7]⟩)] := by
  decide +kernel

/-- An expression rejected by the validation of `contract_path` (rank mismatch, inconsistent sizes, output label
    missing or repeated) is declined: the routine raises, callers fall back to `tf.einsum`. -/
theorem einsum_invalid_declines (fixed : Bool) (ins : List (List Idx)) (out : List Idx) (path : List (List Nat))
    (proc : List Idx) (ts : List (Tensor R))
    (hno : (ins.flatten ++ out).contains 0 = false)
    (hbad : validate ins out (ts.map (·.shape)) = false) :
    einsumCustom fixed ins out path proc ts = .error "raise" := by
  have hrep : ∀ r0, replaceEllipsis ins out r0 = some (ins, out, []) := by
    intro r0
    unfold replaceEllipsis
    rw [if_neg (by rw [hno]; simp)]
  unfold einsumCustom
  simp only [hrep, hbad]
  rfl

/-- non-vacuity: "ab,bc->ad" (d is not an input label) is invalid -/
example : validate [[97, 98], [98, 99]] [97, 100] [[2, 2], [2, 2]] = false := by decide +kernel

end TfPwaV.C05
