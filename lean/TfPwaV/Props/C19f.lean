import TfPwaV.Model.ConfigC
/-!
# C19 (continued) — repeated loads in one process: history independence

The process-wide memo of per-decay factors is an explicit parameter (`Proc.cache`, `CacheMode`).
`load_independent_of_history`: with the memo on the decay OBJECT (the tree since /repo commit 0e31b14) the factors a
loaded model carries are those of its own card, whatever cards were loaded before and in whatever order.
`load_depends_on_history_byName`: with the memo keyed by the decay's NAMES (the tree before that commit) they are not:
a concrete pair of cards.  Which mode the tree has is observed on every run (harness `history_demo`, correspondence
`C19k hist`).
-/
namespace TfPwaV.C19
open TfPwaV.Config TfPwaV.ConfigC

/-- a memo agrees with `f` on the keys of `xs` -/
def Consistent {α : Type} (key : α → Key) (f : α → Sig) (c : Cache) (xs : List α) : Prop :=
  ∀ x ∈ xs, ∀ v, lookup c (key x) = some v → v = f x

theorem lookup_cons (c : Cache) (k k' : Key) (v : Sig) :
    lookup ((k', v) :: c) k = if k' = k then some v else lookup c k := rfl

/-- a memo that is consistent with `f` is invisible: the memoised evaluation is `map f` -/
theorem mapCached_eq_map {α : Type} (key : α → Key) (f : α → Sig) (xs : List α) :
    ∀ c : Cache, Consistent key f c xs → (∀ x ∈ xs, ∀ y ∈ xs, key x = key y → f x = f y) →
      (mapCached key f xs c).1 = xs.map f := by
  induction xs with
  | nil => intro c _ _; rfl
  | cons x xs ih =>
    intro c hc hinj
    have hc' : Consistent key f c xs := fun y hy v hv => hc y (List.mem_cons_of_mem _ hy) v hv
    have hinj' : ∀ a ∈ xs, ∀ b ∈ xs, key a = key b → f a = f b :=
      fun a ha b hb => hinj a (List.mem_cons_of_mem _ ha) b (List.mem_cons_of_mem _ hb)
    unfold mapCached
    cases hl : lookup c (key x) with
    | some v =>
      simp only [List.map_cons]
      rw [ih c hc' hinj', hc x (by simp) v hl]
    | none =>
      simp only [List.map_cons]
      rw [ih ((key x, f x) :: c) ?_ hinj']
      intro y hy v hv
      rw [lookup_cons] at hv
      split at hv
      · rename_i hk
        simp only [Option.some.injEq] at hv
        rw [← hv]
        exact hinj x (by simp) y (List.mem_cons_of_mem _ hy) hk
      · exact hc' y hy v hv

theorem mapCached_keys {α : Type} (key : α → Key) (f : α → Sig) (xs : List α) :
    ∀ c : Cache, ∀ e ∈ (mapCached key f xs c).2, e ∈ c ∨ ∃ x ∈ xs, e.1 = key x := by
  induction xs with
  | nil => intro c e he; exact Or.inl he
  | cons x xs ih =>
    intro c e he
    unfold mapCached at he
    cases hl : lookup c (key x) with
    | some v =>
      rw [hl] at he
      rcases ih c e he with h | ⟨y, hy, h⟩
      · exact Or.inl h
      · exact Or.inr ⟨y, List.mem_cons_of_mem _ hy, h⟩
    | none =>
      rw [hl] at he
      rcases ih _ e he with h | ⟨y, hy, h⟩
      · rcases List.mem_cons.1 h with h | h
        · exact Or.inr ⟨x, by simp, by rw [h]⟩
        · exact Or.inl h
      · exact Or.inr ⟨y, List.mem_cons_of_mem _ hy, h⟩

theorem lookup_none_of_fresh (c : Cache) (i : Nat) (d : BDecay) (h : ∀ e ∈ c, e.1.1 ≠ i) : lookup c (i, d) = none := by
  induction c with
  | nil => rfl
  | cons e es ih =>
    obtain ⟨k, v⟩ := e
    rw [lookup_cons]
    have hk : k ≠ (i, d) := by
      intro hk
      exact h (k, v) (by simp) (by rw [hk])
    rw [if_neg hk]
    exact ih fun e he => h e (List.mem_cons_of_mem _ he)

/-- object identities handed out so far are below `nextId` -/
def Fresh (p : Proc) : Prop := ∀ e ∈ p.cache, e.1.1 < p.nextId

theorem fresh_init : Fresh {} := by intro e he; simp at he

theorem loadObs_fresh (p : Proc) (c : Card) (h : Fresh p) : Fresh (loadObs .byObject p c).2 := by
  unfold loadObs
  cases hd : decaysOfOutcome c.expand with
  | none => intro e he; exact Nat.lt_succ_of_lt (h e he)
  | some x =>
    obtain ⟨ctx, ds⟩ := x
    intro e he
    rcases mapCached_keys _ _ ds p.cache e he with h1 | ⟨d, _, h1⟩
    · exact Nat.lt_succ_of_lt (h e h1)
    · show e.1.1 < p.nextId + 1
      rw [h1]
      exact Nat.lt_succ_self _

theorem runHistory_fresh (hist : List Card) : ∀ p : Proc, Fresh p → Fresh (runHistory .byObject p hist) := by
  induction hist with
  | nil => intro p h; exact h
  | cons c cs ih => intro p h; exact ih _ (loadObs_fresh p c h)

/-- one load on top of ANY process state whose identities are used up: the model carries its own factors -/
theorem loadObs_own (p : Proc) (c : Card) (h : Fresh p) : (loadObs .byObject p c).1 = ownObs c := by
  unfold loadObs ownObs
  cases hd : decaysOfOutcome c.expand with
  | none => rfl
  | some x =>
    obtain ⟨ctx, ds⟩ := x
    simp only
    apply mapCached_eq_map
    · intro d _ v hv
      have : lookup p.cache (keyOf .byObject p.nextId d) = none :=
        lookup_none_of_fresh p.cache p.nextId d fun e he => Nat.ne_of_lt (h e he)
      rw [this] at hv
      exact absurd hv (by simp)
    · intro a _ b _ hk
      have : a = b := by
        simp only [keyOf, Prod.mk.injEq] at hk
        exact hk.2
      rw [this]

/-- History independence (memo on the decay object): for EVERY list of cards loaded before — loadable or not, with
the same particle names or not — and every card, the factors of the loaded model are those of a load in a fresh
process, namely the card's own. -/
theorem load_independent_of_history (hist : List Card) (c : Card) :
    (loadObs .byObject (runHistory .byObject {} hist) c).1 = (loadObs .byObject {} c).1 ∧
    (loadObs .byObject (runHistory .byObject {} hist) c).1 = ownObs c := by
  have h1 := loadObs_own _ c (runHistory_fresh hist {} fresh_init)
  have h2 := loadObs_own {} c fresh_init
  exact ⟨by rw [h1, h2], h1⟩

/-- … and the ordered chains / (l,s) lists / parameter names do not involve the memo at all (`Card.expand` has no
process argument): two loads of one card agree whatever happened in between -/
theorem expand_history_free (hist₁ hist₂ : List Card) (c : Card) :
    (loadObs .byObject (runHistory .byObject {} hist₁) c).1 = (loadObs .byObject (runHistory .byObject {} hist₂) c).1 := by
  rw [(load_independent_of_history hist₁ c).2, (load_independent_of_history hist₂ c).2]

/-! ## the memo keyed by names is visible -/

/-- `A(1/2+) → R D, R → B(1/2+) C(0-)` with `R` of spin `j2/2`, parity + (the J^P scan of harness `lambda_card`) -/
def lambdaCard (j2 : Nat) : Card :=
  { top := "A", topDict := some [("J", .spin 1), ("P", .int 1)], finals := ["B", "C", "D"]
    finalsDict := some [("B", [("J", .spin 1), ("P", .int 1)]), ("C", [("J", .spin 0), ("P", .int (-1))]),
      ("D", [("J", .spin 2), ("P", .int (-1))])]
    includes := []
    particle := [.props "R" [("J", .spin j2), ("P", .int 1), ("mass", .other "1.8"), ("width", .other "0.1")]]
    decay := [("A", .nested [[.name "R", .name "D", .opt { pBreak := some true }]]), ("R", .flat [.name "B", .name "C"])] }

/-- both cards load, with one coupling (l,s) = (1,1/2) for `R → B C`, but different spins
(rendering `2ja.2jb.2jc:l,2s;…` per decay) -/
theorem lambda_cards_load :
    (ownObs (lambdaCard 1)).map showSig = ["1.1.2:0,1;1,1;1,3;2,3", "1.1.0:1,1"] ∧
    (ownObs (lambdaCard 3)).map showSig = ["1.3.2:0,1;1,1;1,3;2,3;2,5;3,5", "3.1.0:1,1"] := by
  decide +kernel

/-- Refutation for the memo keyed by names (tree before 0e31b14): after the card with `R(1/2+)` the card with
`R(3/2+)` carries the factors of the FIRST card; in a fresh process it carries its own. -/
theorem load_depends_on_history_byName :
    ((loadObs .byName (runHistory .byName {} [lambdaCard 1]) (lambdaCard 3)).1).map showSig = (ownObs (lambdaCard 1)).map showSig ∧
    ((loadObs .byName (runHistory .byName {} [lambdaCard 1]) (lambdaCard 3)).1).map showSig ≠ (ownObs (lambdaCard 3)).map showSig ∧
    ((loadObs .byName {} (lambdaCard 3)).1).map showSig = (ownObs (lambdaCard 3)).map showSig := by
  decide +kernel

end TfPwaV.C19
