import TfPwaV.Proofs.Align
/-!
# C02 — the density does not depend on the alignment reference or on the chain order

Theorems over ℝ about `TfPwaV.AlignR`, the ℝ-instance of `templates/Align.lean.in` (a transcription of the SU(2) /
SL(2,ℂ) bookkeeping of `tf_pwa.cal_angle`), built on the `SU2M` model of C12 (`Props/C12b.lean`:
`su2_mul_assoc`, `su2_det_mul`, `su2_inv`, `det_rotZ`, `det_rotY`, `det_boostZ`, `euler_roundtrip`) and on
`Proofs/UnitaryMix.lean`.  The Float instance of the same text is compared on every run with the matrices the real
`cal_angle` builds.  The discrete clause (which chain is the reference) is `Props/C02b.lean`.
-/
open TfPwaV.ScalarR
open Matrix
namespace TfPwaV.C02
open TfPwaV.SU2R TfPwaV.AlignR TfPwaV.C12 TfPwaV.UnitaryMix

/-! ### (i) everything `cal_helicity_angle` stores has determinant one -/

/-- `r = Rotation_y(β) * Rotation_z(α)` -/
theorem det_stepR (α β : ℝ) : (stepR α β).det = Cx.one :=
  det_mul_one _ _ (det_rotY β) (det_rotZ α)

/-- `r * b_matrix[core] * r_matrix[core]` -/
theorem det_accR (r b rc : M2) (hr : r.det = Cx.one) (hb : b.det = Cx.one) (hrc : rc.det = Cx.one) :
    (accR r b rc).det = Cx.one :=
  det_mul_one _ _ (det_mul_one _ _ hr hb) hrc

/-- **every `r_matrix` has determinant one**, for a decay path of ANY depth, any helicity angles and any mother boosts
of determinant one (in the code they are `Boost_z(ω)`, `det_boostZ`) -/
theorem det_pathR (α₀ β₀ : ℝ) (rest : List Level) (h : ∀ l ∈ rest, l.bcore.det = Cx.one) :
    (pathR α₀ β₀ rest).det = Cx.one := by
  unfold pathR
  suffices H : ∀ (acc : M2), acc.det = Cx.one →
      (rest.foldl (fun acc l => accR (stepR l.alpha l.beta) l.bcore acc) acc).det = Cx.one from
    H _ (det_stepR α₀ β₀)
  induction rest with
  | nil => intro acc h0; simpa using h0
  | cons l ls ih =>
    intro acc h0
    rw [List.foldl_cons]
    exact ih (fun x hx => h x (List.mem_cons_of_mem _ hx)) _
      (det_accR _ _ _ (det_stepR _ _) (h l List.mem_cons_self) h0)

/-- the same with the boosts the code uses -/
theorem det_pathR_boost (α₀ β₀ : ℝ) (rest : List (ℝ × ℝ × ℝ)) :
    (pathR α₀ β₀ (rest.map fun t => ⟨t.1, t.2.1, boostZ t.2.2⟩)).det = Cx.one := by
  apply det_pathR
  intro l hl
  obtain ⟨t, _, rfl⟩ := List.mem_map.mp hl
  exact det_boostZ _

/-- the rule-2 (`align_ref = "center_mass"`) reference `r.inv() * Bp * r` -/
theorem det_rule2R (α β ω : ℝ) : (rule2R α β ω).det = Cx.one := by
  unfold rule2R
  refine det_mul_one _ _ (det_mul_one _ _ ?_ (det_boostZ ω)) (det_stepR α β)
  rw [M2.det_inv]; exact det_stepR α β

/-- the alignment element handed to `get_euler_angle` has determinant one -/
theorem det_alignR (bref rref r b : M2) (h1 : bref.det = Cx.one) (h2 : rref.det = Cx.one) (h3 : r.det = Cx.one)
    (h4 : b.det = Cx.one) : (alignR bref rref r b).det = Cx.one := by
  unfold alignR
  refine det_mul_one _ _ (det_mul_one _ _ h1 (det_mul_one _ _ h2 ?_)) ?_
  · rw [M2.det_inv]; exact h3
  · rw [M2.det_inv]; exact h4

/-! ### (ii) change of reference: the cocycle identity -/

/-- the change-of-reference element: `(b' r') (b r)⁻¹`, built from the two references only -/
def changeRef (bref rref bref' rref' : M2) : M2 := (bref'.mul rref').mul (bref.mul rref).inv

/-- closed form of the alignment element -/
theorem alignR_eq (bref rref r b : M2) : alignR bref rref r b = (bref.mul rref).mul (r.inv.mul b.inv) := by
  unfold alignR
  rw [← su2_mul_assoc bref rref r.inv, su2_mul_assoc]

/-- **`align_cocycle`** — for two references `(b, r)` and `(b', r')` (any two chains, or rule 1 vs rule 2) and EVERY
chain `k` with matrices `(b_k, r_k)`: `R'_k = G · R_k` with ONE element `G = (b' r')(b r)⁻¹` that does not depend
on `k`.  Needs only `det (b r) = 1`. -/
theorem align_cocycle (bref rref bref' rref' rk bk : M2) (h1 : bref.det = Cx.one) (h2 : rref.det = Cx.one) :
    alignR bref' rref' rk bk = (changeRef bref rref bref' rref').mul (alignR bref rref rk bk) := by
  rw [alignR_eq, alignR_eq, changeRef, su2_mul_assoc (bref'.mul rref') (bref.mul rref).inv,
    inv_mul_cancel_left _ _ (det_mul_one _ _ h1 h2)]

/-- `G` is the alignment element of the OLD reference chain with respect to the NEW reference:
`G = R^{ρ'}_{ρ}` when `(b, r)` are the matrices of chain `ρ` -/
theorem changeRef_eq_align (bρ rρ bref' rref' : M2) :
    changeRef bρ rρ bref' rref' = alignR bref' rref' rρ bρ := by
  rw [alignR_eq, changeRef, M2.inv_mul]

/-- a chain aligned to itself is not rotated (the code skips it: `decay_chain != set_x[i][0]`) -/
theorem align_self (b r : M2) (hb : b.det = Cx.one) (hr : r.det = Cx.one) : alignR b r r b = M2.one := by
  rw [alignR_eq, ← M2.inv_mul]
  exact (su2_inv _ (det_mul_one _ _ hb hr)).2

/-- the change of reference composes: `ρ → ρ' → ρ''` is `ρ → ρ''` -/
theorem changeRef_trans (b r b' r' b'' r'' : M2) (h1 : b'.det = Cx.one) (h2 : r'.det = Cx.one) :
    (changeRef b' r' b'' r'').mul (changeRef b r b' r') = changeRef b r b'' r'' := by
  unfold changeRef
  rw [su2_mul_assoc, inv_mul_cancel_left _ _ (det_mul_one _ _ h1 h2)]

/-- `G` has determinant one -/
theorem det_changeRef (b r b' r' : M2) (h1 : b.det = Cx.one) (h2 : r.det = Cx.one) (h3 : b'.det = Cx.one)
    (h4 : r'.det = Cx.one) : (changeRef b r b' r').det = Cx.one := by
  unfold changeRef
  refine det_mul_one _ _ (det_mul_one _ _ h3 h4) ?_
  rw [M2.det_inv]; exact det_mul_one _ _ h1 h2

/-- **the cocycle for the matrices the code builds, no hypotheses left**: references `ρ`, `ρ'` and chain `k` are
decay paths of any depth with arbitrary helicity angles and rapidities (`b = Boost_z(ω)`, `r = pathR …`) -/
theorem align_cocycle_paths (aρ bρ ωρ aρ' bρ' ωρ' ak bk ωk : ℝ) (pρ pρ' pk : List (ℝ × ℝ × ℝ)) :
    let lv := fun (l : List (ℝ × ℝ × ℝ)) => l.map fun t => (⟨t.1, t.2.1, boostZ t.2.2⟩ : Level)
    alignR (boostZ ωρ') (pathR aρ' bρ' (lv pρ')) (pathR ak bk (lv pk)) (boostZ ωk) =
      (changeRef (boostZ ωρ) (pathR aρ bρ (lv pρ)) (boostZ ωρ') (pathR aρ' bρ' (lv pρ'))).mul
        (alignR (boostZ ωρ) (pathR aρ bρ (lv pρ)) (pathR ak bk (lv pk)) (boostZ ωk)) := by
  intro lv
  exact align_cocycle _ _ _ _ _ _ (det_boostZ ωρ) (det_pathR_boost aρ bρ pρ)

/-- **rule 1 → rule 2** (`align_ref = None` vs `"center_mass"`): the rule-2 reference `(1, r⁻¹ Bp r)` differs from a
chain reference by one `G` for all chains -/
theorem align_cocycle_rule2 (aρ bρ ωρ a b w ak bk ωk : ℝ) (pρ pk : List (ℝ × ℝ × ℝ)) :
    let lv := fun (l : List (ℝ × ℝ × ℝ)) => l.map fun t => (⟨t.1, t.2.1, boostZ t.2.2⟩ : Level)
    alignR M2.one (rule2R a b w) (pathR ak bk (lv pk)) (boostZ ωk) =
      (changeRef (boostZ ωρ) (pathR aρ bρ (lv pρ)) M2.one (rule2R a b w)).mul
        (alignR (boostZ ωρ) (pathR aρ bρ (lv pρ)) (pathR ak bk (lv pk)) (boostZ ωk)) := by
  intro lv
  exact align_cocycle _ _ _ _ _ _ (det_boostZ ωρ) (det_pathR_boost aρ bρ pρ)

/-- non-vacuity of the determinant hypotheses: the matrices of a two-level path and a rule-2 reference -/
example (α β ω α' β' ω' a b w : ℝ) :
    alignR M2.one (rule2R a b w) (pathR α β [⟨α', β', boostZ ω⟩]) (boostZ ω') =
      (changeRef (boostZ ω') (pathR α β [⟨α', β', boostZ ω⟩]) M2.one (rule2R a b w)).mul
        (alignR (boostZ ω') (pathR α β [⟨α', β', boostZ ω⟩]) (pathR α β [⟨α', β', boostZ ω⟩]) (boostZ ω')) :=
  align_cocycle _ _ _ _ _ _ (det_boostZ ω') (det_pathR α β _ (by simp [det_boostZ]))

/-! ### (iii)/(iv) invariance of the helicity-summed density -/

/-- FULL: for every decay group, event, and two admissible reference conventions the density computed by the code is
the same.  Proved here: the algebraic skeleton.  `A k` is the amplitude vector of chain `k` over all helicity
configurations before alignment, `D` the representation by which an alignment element acts on it
(`aligned = D(R_k) · A_k`; in the code the transposed Wigner matrices `D^{j}(α,β,γ)ᵀ` of `get_euler_angle(R_k)`, one
Kronecker factor per spinning final particle).  Hypotheses that are NOT proved (validated on the implementation):
`hmul` — `D` is multiplicative (C12 search, 2j ≤ 4); `hU` — `D(G)` is unitary, i.e. the boosts in `G` cancel to a pure
rotation. -/
theorem convention_invariant_partial {ι κ : Type} [Fintype ι] [DecidableEq ι] [Fintype κ]
    (D : M2 → Matrix ι ι ℂ) (hmul : ∀ a b, D (a.mul b) = D a * D b)
    (bref rref bref' rref' : M2) (h1 : bref.det = Cx.one) (h2 : rref.det = Cx.one)
    (hU : star (D (changeRef bref rref bref' rref')) * D (changeRef bref rref bref' rref') = 1)
    (r b : κ → M2) (A : κ → ι → ℂ) :
    density (fun k => D (alignR bref' rref' (r k) (b k)) *ᵥ A k) =
      density (fun k => D (alignR bref rref (r k) (b k)) *ᵥ A k) := by
  have h : (fun k => D (alignR bref' rref' (r k) (b k)) *ᵥ A k) =
      fun k => D (changeRef bref rref bref' rref') *ᵥ (D (alignR bref rref (r k) (b k)) *ᵥ A k) := by
    funext k
    rw [align_cocycle bref rref bref' rref' (r k) (b k) h1 h2, hmul, Matrix.mulVec_mulVec]
  rw [h]
  exact unitary_mix _ hU _

/-- **spin-½ final particle, no unproved algebra**: with the 2×2 matrix itself as the representation (tensored with
the identity on all other helicity indices `ι'`), the only remaining hypothesis is the kinematic one, `G ∈ SU(2)`. -/
theorem convention_invariant_spin_half {ι' κ : Type} [Fintype ι'] [DecidableEq ι'] [Fintype κ]
    (bref rref bref' rref' : M2) (h1 : bref.det = Cx.one) (h2 : rref.det = Cx.one)
    (hG : IsSU2 (changeRef bref rref bref' rref'))
    (r b : κ → M2) (A : κ → ι' × Fin 2 → ℂ) :
    density (fun k => kroneckerMap (· * ·) (1 : Matrix ι' ι' ℂ) (alignR bref' rref' (r k) (b k)).toMatrix *ᵥ A k) =
      density (fun k => kroneckerMap (· * ·) (1 : Matrix ι' ι' ℂ) (alignR bref rref (r k) (b k)).toMatrix *ᵥ A k) := by
  apply convention_invariant_partial (fun x => kroneckerMap (· * ·) (1 : Matrix ι' ι' ℂ) x.toMatrix) _ _ _ _ _ h1 h2
  · exact kron_unitary _ _ (by simp) (M2.toMatrix_unitary _ hG)
  · intro a b
    rw [M2.toMatrix_mul]
    change _ = (kroneckerMap (· * ·) 1 a.toMatrix) * (kroneckerMap (· * ·) 1 b.toMatrix)
    rw [← Matrix.mul_kronecker_mul, Matrix.one_mul]

/-- non-vacuity of `IsSU2 (changeRef …)`: two references that differ by a rotation `Rz(γ)Ry(β)Rz(α)` applied after
the same boost-rotation — `G` is that rotation -/
example (α β γ ω a b : ℝ) :
    IsSU2 (changeRef (boostZ ω) (stepR a b) ((ofEuler ⟨α, β, γ⟩).mul (boostZ ω)) (stepR a b)) := by
  have : changeRef (boostZ ω) (stepR a b) ((ofEuler ⟨α, β, γ⟩).mul (boostZ ω)) (stepR a b) = ofEuler ⟨α, β, γ⟩ := by
    unfold changeRef
    rw [su2_mul_assoc, su2_mul_assoc, ← su2_mul_assoc (boostZ ω),
      (su2_inv _ (det_mul_one _ _ (det_boostZ ω) (det_stepR a b))).2, M2.mul_one]
  rw [this]
  exact ofEuler_isSU2 α β γ

/-- **chain order** — the density of a LIST of chain amplitudes: a permuted list gives the same density -/
def densityL {ι : Type} [Fintype ι] (l : List (ι → ℂ)) : ℝ := ∑ h, Complex.normSq ((l.map fun a => a h).sum)

theorem chain_order_invariant {ι : Type} [Fintype ι] (l l' : List (ι → ℂ)) (hp : l.Perm l') :
    densityL l = densityL l' := by
  unfold densityL
  refine Finset.sum_congr rfl fun h _ => ?_
  rw [(hp.map fun a => a h).sum_eq]

/-- … and permuting the chains together with a change of the reference (what a reordering of the configuration
does: rule 1 may pick another chain) leaves the density unchanged, under the hypotheses of `convention_invariant_partial` -/
theorem order_and_reference_invariant_partial {ι κ : Type} [Fintype ι] [DecidableEq ι] [Fintype κ]
    (σ : Equiv.Perm κ) (D : M2 → Matrix ι ι ℂ) (hmul : ∀ a b, D (a.mul b) = D a * D b)
    (bref rref bref' rref' : M2) (h1 : bref.det = Cx.one) (h2 : rref.det = Cx.one)
    (hU : star (D (changeRef bref rref bref' rref')) * D (changeRef bref rref bref' rref') = 1)
    (r b : κ → M2) (A : κ → ι → ℂ) :
    density (fun k => D (alignR bref' rref' (r (σ k)) (b (σ k))) *ᵥ A (σ k)) =
      density (fun k => D (alignR bref rref (r k) (b k)) *ᵥ A k) := by
  rw [density_perm σ (fun k => D (alignR bref' rref' (r k) (b k)) *ᵥ A k)]
  exact convention_invariant_partial D hmul _ _ _ _ h1 h2 hU r b A

end TfPwaV.C02
