import TfPwaV.Proofs.Override
/-!
# C17 — Temporary overrides and derived computations leave the model unchanged

`Override.exec fx E p s` is the big-step semantics of a program `p` (nested override blocks, derived computations,
faults) on the observable state `s` of the model; `fx` says, per defect site, whether the statements are those of
the source tree as it is (`Fix.none`) or those after the proposed `fix_C17_*.diff` patches (`Fix.all`).
Which variant the tree under test has is observed by the harness (harness/c17.py), which also checks the
semantics against the real objects.

* `restore_covered` / `restore_all` — the property, for programs that only go through patched sites / for the fully
  patched variant: every program, every fault, every state.
* `asis_*` / `restore_all_false_asis` — the property is false for the tree as it is: one witness per defect.
* `restore_all_partial` — the fragment on which the tree as it is does restore.
-/
namespace TfPwaV.C17
open TfPwaV.Override

/-- Everything but the stored parameter values is restored by **any** program that only goes through patched
sites — also by programs whose bodies call `set_params` (a permanent assignment by the user code) anywhere. -/
theorem restore_upTo (fx : Fix) (E : Env) (p : Prog) (hp : covered fx p = true) :
    ∀ s : St, UpTo s (exec fx E p s).1 := by
  induction p with
  | skip => intro s; exact UpTo.refl s
  | raise => intro s; exact UpTo.refl s
  | compute c fault => intro s; exact UpTo.of_eq (execComp_covered fx E c hp fault s)
  | setParams q => intro s; exact UpTo.setParams s _
  | block b body ih =>
    intro s
    simp only [covered, Bool.and_eq_true] at hp
    exact execBlock_upTo fx E b hp.1 _ (ih hp.2) s
  | seq p q ihp ihq =>
    intro s
    simp only [covered, Bool.and_eq_true] at hp
    simp only [exec]
    have h1 := ihp hp.1 s
    generalize exec fx E p s = res at h1
    obtain ⟨s1, r⟩ := res
    simp only at h1 ⊢
    split
    · exact h1
    · exact UpTo.trans h1 (ihq hp.2 s1)

/-- ★ (general form) For **any** assignment `fx` of patches to defect sites: after every program that only goes
through patched sites (`covered fx p`) and whose `set_params` calls all sit inside some `amp.temp_params` block
(`guarded p`; in particular every program without `set_params`) — whatever it nests, whichever body raises,
whichever inner evaluation of whichever computation raises, whichever value is rejected — the observable state
(stored parameter values, mask, chain selection, `not_full`, `mask_factor` flags, configuration, ls selection,
list of trainable variables) is the state before the program.  All environments, all states. -/
theorem restore_covered (fx : Fix) (E : Env) (p : Prog) (hp : covered fx p = true) (hg : guarded p = true) :
    ∀ s : St, (exec fx E p s).1 = s := by
  induction p with
  | skip => intro s; rfl
  | raise => intro s; rfl
  | compute c fault => intro s; exact execComp_covered fx E c hp fault s
  | setParams q => simp [guarded] at hg
  | block b body ih =>
    intro s
    simp only [covered, Bool.and_eq_true] at hp
    have habs : ∀ (hb : (∃ p, b = .absTemp p) ∨ (∃ vals, b = .absTempSeq vals)), (exec fx E (.block b body) s).1 = s := by
      intro hb
      have hfx : fx.absTemp = true := by
        rcases hb with ⟨q, rfl⟩ | ⟨q, rfl⟩ <;> exact hp.1
      exact execBlock_absTemp_full fx hfx E b hb _ (restore_upTo fx E body hp.2) s
    cases b with
    | absTemp q => exact habs (Or.inl ⟨q, rfl⟩)
    | absTempSeq q => exact habs (Or.inr ⟨q, rfl⟩)
    | vmTemp q => exact execBlock_covered fx E _ hp.1 _ (ih hp.2 hg) s
    | maskParams q => exact execBlock_covered fx E _ hp.1 _ (ih hp.2 hg) s
    | usedRes q => exact execBlock_covered fx E _ hp.1 _ (ih hp.2 hg) s
    | glsOne => exact execBlock_covered fx E _ hp.1 _ (ih hp.2 hg) s
    | tempConfig k v => exact execBlock_covered fx E _ hp.1 _ (ih hp.2 hg) s
    | vmTempSeq q => exact execBlock_covered fx E _ hp.1 _ (ih hp.2 hg) s
  | seq p q ihp ihq =>
    intro s
    simp only [covered, Bool.and_eq_true] at hp
    simp only [guarded, Bool.and_eq_true] at hg
    simp only [exec]
    have h1 := ihp hp.1 hg.1 s
    generalize exec fx E p s = res at h1
    obtain ⟨s1, r⟩ := res
    simp only at h1 ⊢
    subst h1
    split
    · rfl
    · exact ihq hp.2 hg.2 s1

/-- ★ `restore_all`: with all patches applied, **every** program whose `set_params` calls sit inside an
`amp.temp_params` block restores the state — every nesting (dict and sequence forms of `temp_params` included),
every fault position, every environment, every state. -/
theorem restore_all (E : Env) (p : Prog) (hg : guarded p = true) (s : St) : (exec Fix.all E p s).1 = s :=
  restore_covered Fix.all E p (covered_all p) hg s

/-- the language of round 1 (no `set_params` in a body): no side condition at all -/
theorem restore_all_noSet (E : Env) (p : Prog) (hn : noSet p = true) (s : St) : (exec Fix.all E p s).1 = s :=
  restore_all E p (guarded_of_noSet p hn) s

/-- `guarded` is satisfiable by a program that does call `set_params`, nested under a sequence-form and a dict-form
`temp_params` -/
example : guarded (.block (.absTempSeq [.good (.lit 1), .good (.lit 2)]) (.block (.maskParams [(0, .lit 0)])
    (.block (.absTemp [(1, .good (.lit 3))]) (.seq (.setParams [(0, .good (.lit 4)), (1, .good (.lit 5))]) .raise)))) = true := by
  decide

/-- the hypothesis of `restore_covered` is satisfiable by a non-trivial program on a partially patched tree
(only fix_C17_used_chains.diff and fix_C17_variable_contexts.diff applied) -/
example : covered { Fix.none with usedRes := true, vmMask := true, vmTemp := true, pw := true, factorIter := true }
    (.block (.usedRes [.res 0]) (.block (.maskParams [(2, .lit 0)])
      (.seq (.compute (.pw [[.idx 1]]) (some 0)) (.compute (.factorIter 2) (some 3))))) = true := by decide

/-- Hence anything computed from the observable state — in particular the density of any event — is unchanged. -/
theorem density_unchanged {Event D : Type} (density : St → Event → D) (E : Env) (p : Prog) (hg : guarded p = true)
    (s : St) (x : Event) :
    density (exec Fix.all E p s).1 x = density s x := by
  rw [restore_all E p hg]

/-- `applications.fit_fractions` (a `temp_params` block around `cal_fitfractions` / `FitFractions.integral`). -/
theorem restore_fit_fractions (E : Env) (params : List (Nat × PV)) (nb : Nat) (res : List Sel) (new : Bool)
    (fault : Option Nat) (s : St) : (exec Fix.all E (fitFractions params nb res new fault) s).1 = s :=
  restore_all E _ (by cases new <;> rfl) s

/-! ## a concrete model: 3 chains, one resonance each; 4 variables, variable 1 bounded -/

def E0 : Env :=
  { nChains := 3, resChains := [[0], [1], [2]], bounded := [1],
    factorMasks := [[[(2, .lit 0)], [(3, .lit 0)]], [[(2, .lit 0)]], [[(3, .lit 0)]]],
    chainDecays := [[0, 1], [2, 3], [4, 5]] }

def s0 : St :=
  { params := [.lit 10, .lit 11, .lit 12, .lit 13], mask := [], chainsIdx := [0, 1, 2], notFull := false,
    maskFactor := [false, false, false], config := [.lit 20, .lit 21],
    ls := [[0, 1], [0, 1, 2], [0, 1, 2], [0, 1], [0, 1, 2], [0, 1]], trainable := [0, 2, 3] }

/-- a selection of two chains made by the user before the program -/
def s1 : St := { s0 with chainsIdx := [2, 0], notFull := true }

/-- Non-vacuity: four nested blocks, the innermost computation raises in its second evaluation; the exception
reaches the top (`raised = true`) through every `finally`, and the state is restored. -/
def nested : Prog :=
  .block (.usedRes [.res 0, .idx 2])
    (.block (.maskParams [(2, .lit 0)])
      (.block (.absTemp [(2, .good (.lit 5)), (3, .good (.lit 6))])
        (.seq (.compute (.factorIter 2) none)
          (.block .glsOne (.compute (.calFF 2 [.res 0, .res 1]) (some 1))))))

example : exec Fix.all E0 nested s0 = (s0, true) := by decide +kernel

/-- on the tree as it is the same program leaves parameters, mask, selection, `not_full` and `mask_factor` changed -/
theorem asis_nested_leaks :
    (exec Fix.none E0 nested s0).1 =
      { s0 with params := [.lit 10, .lit 11, .lit 5, .lit 6], mask := [(2, .lit 0)], chainsIdx := [0, 1],
                notFull := true, maskFactor := [true, true, true] } := by decide +kernel

/-! ## the tree as it is: one witness per defect (each is replayed on the real objects by the harness) -/

/-- `VarsManager.temp_params` / `AbsPDF.temp_params`: no `finally`, the temporary value stays when the body raises -/
theorem asis_temp_params_body_raises :
    (exec Fix.none E0 (.block (.absTemp [(2, .good (.lit 5))]) .raise) s0).1.params = [.lit 10, .lit 11, .lit 5, .lit 13] ∧
    (exec Fix.none E0 (.block (.vmTemp [(2, .good (.lit 5))]) .raise) s0).1.params = [.lit 10, .lit 11, .lit 5, .lit 13] := by
  decide +kernel

/-- a value rejected by `assign` after the first one was set: the first one stays -/
theorem asis_temp_params_enter_raises :
    (exec Fix.none E0 (.block (.absTemp [(2, .good (.lit 5)), (3, .bad)]) .skip) s0).1.params
      = [.lit 10, .lit 11, .lit 5, .lit 13] := by decide +kernel

/-- `AbsPDF.temp_params` inside `mask_params`: the masked value (rounded through float32) is written into the
variable permanently, on a NORMAL exit -/
theorem asis_temp_params_under_mask :
    exec Fix.none E0 (.block (.maskParams [(2, .lit 0)]) (.block (.absTemp [(3, .good (.lit 6))]) .skip)) s0
      = ({ s0 with params := [.lit 10, .lit 11, .f32 (.lit 0), .lit 13] }, false) := by decide +kernel

/-- `VarsManager.temp_params` on a bounded variable: `get` returns the fit-space value, which is written back raw -/
theorem asis_vm_temp_params_bounded :
    exec Fix.none E0 (.block (.vmTemp [(1, .good (.lit 5))]) .skip) s0
      = ({ s0 with params := [.lit 10, .y2x 1 (.lit 11), .lit 12, .lit 13] }, false) := by decide +kernel

theorem asis_mask_params_body_raises :
    (exec Fix.none E0 (.block (.maskParams [(2, .lit 0)]) .raise) s0).1.mask = [(2, .lit 0)] := by decide +kernel

/-- `temp_used_res`: `not_full` stays `True` after a NORMAL exit -/
theorem asis_temp_used_res_normal :
    exec Fix.none E0 (.block (.usedRes [.res 1]) .skip) s0 = ({ s0 with notFull := true }, false) := by decide +kernel

theorem asis_temp_used_res_body_raises :
    (exec Fix.none E0 (.block (.usedRes [.res 1]) .raise) s0).1 = { s0 with chainsIdx := [1], notFull := true } := by
  decide +kernel

theorem asis_gls_one_body_raises :
    (exec Fix.none E0 (.block .glsOne .raise) s0).1.maskFactor = [true, true, true] := by decide +kernel

theorem asis_temp_config_body_raises :
    (exec Fix.none E0 (.block (.tempConfig 1 (.lit 7)) .raise) s0).1.config = [.lit 20, .lit 7] := by decide +kernel

/-- `partial_weight`, `partial_weight_interference`, `BaseAmplitudeModel.partial_weight`: the selection of the
evaluation that raised stays -/
theorem asis_partial_weight_eval_raises :
    (exec Fix.none E0 (.compute (.pw [[.idx 0], [.idx 1]]) (some 1)) s0).1 = { s0 with chainsIdx := [1], notFull := true } ∧
    (exec Fix.none E0 (.compute (.pwBase [[0], [1]]) (some 1)) s0).1 = { s0 with chainsIdx := [1], notFull := true } ∧
    (exec Fix.none E0 (.compute .pwi (some 2)) s0).1 = { s0 with chainsIdx := [1, 2], notFull := true } := by
  decide +kernel

/-- `cal_fitfractions` / `FitFractions`: "restores" all resonances, not the selection that was active -/
theorem asis_fit_fractions_forget_selection :
    exec Fix.none E0 (.compute (.calFF 1 [.res 0]) none) s1 = (s0, false) ∧
    exec Fix.none E0 (.compute (.ffNew 1 [.res 0]) none) s1 = (s0, false) ∧
    exec Fix.none E0 (fitFractions [] 1 [.res 0] false none) s1 = (s0, false) ∧ s1 ≠ s0 := by decide +kernel

theorem asis_fit_fractions_eval_raises :
    (exec Fix.none E0 (.compute (.calFF 1 [.res 0, .res 1]) (some 2)) s0).1 = { s0 with chainsIdx := [1], notFull := true } ∧
    (exec Fix.none E0 (.compute (.ffNew 1 [.res 0, .res 1]) (some 3)) s0).1 = { s0 with chainsIdx := [0, 1], notFull := true } := by
  decide +kernel

/-- `factor_iteration`: `not_full` stays `True` after a complete iteration; an abandoned iteration leaves the
single-chain selection and the mask of the current item -/
theorem asis_factor_iteration :
    exec Fix.none E0 (.compute (.factorIter 2) none) s0 = ({ s0 with notFull := true }, false) ∧
    exec Fix.none E0 (.compute (.factorIter 2) (some 2)) s0
      = ({ s0 with chainsIdx := [1], notFull := true, mask := [(2, .lit 0)] }, true) := by decide +kernel

/-- `build_amp_matrix` / `split_gls`: an evaluation that raises leaves one chain and single ls couplings selected -/
theorem asis_build_amp_matrix_eval_raises :
    exec Fix.none E0 (.compute .bam (some 7)) s0
      = ({ s0 with chainsIdx := [1], notFull := true, ls := [[0, 1], [0, 1, 2], [0], [1], [0, 1, 2], [0, 1]] }, true) := by
  decide +kernel

/-- the selection-restoring computations recompute `not_full` from the length of the selection: a flag that
`set_used_res` with chain indices left `True` on a full selection is silently cleared -/
theorem asis_stale_not_full :
    exec Fix.none E0 (.compute (.pw [[.idx 0]]) none) { s0 with notFull := true } = (s0, false) := by decide +kernel

/-- The property is false for the tree as it is. -/
theorem restore_all_false_asis : ¬ ∀ (E : Env) (p : Prog) (s : St), (exec Fix.none E p s).1 = s := by
  intro h
  have h1 := h E0 (.block (.usedRes [.res 1]) .skip) s0
  rw [asis_temp_used_res_normal] at h1
  exact absurd h1 (by decide)

/-! ## the fragment on which the tree as it is restores -/

/-- Fault-free programs that never nest `temp_params` under a mask and never restrict the chains themselves:
`temp_params`, `vm.temp_params` (unbounded variables), `temp_total_gls_one`, `temp_config` blocks around the
`partial_weight*` computations.  `np`, `nc`: number of variables / configuration keys. -/
inductive Safe (np nc : Nat) : Prog → Prop
  | skip : Safe np nc .skip
  | pw (comb) : Safe np nc (.compute (.pw comb) none)
  | pwBase (comb) : Safe np nc (.compute (.pwBase comb) none)
  | pwi : Safe np nc (.compute .pwi none)
  | absTemp (p body) : goodKeys np p → Safe np nc body → Safe np nc (.block (.absTemp p) body)
  | vmTemp (p body) : goodKeys np p → Safe np nc body → Safe np nc (.block (.vmTemp p) body)
  | glsOne (body) : Safe np nc body → Safe np nc (.block .glsOne body)
  | tempConfig (k v body) : k < nc → Safe np nc body → Safe np nc (.block (.tempConfig k v) body)
  | seq (p q) : Safe np nc p → Safe np nc q → Safe np nc (.seq p q)

/-- FULL: `∀ E p s, (exec Fix.none E p s).1 = s` — false, see `restore_all_false_asis`.
Proved here for the tree as it is: a `Safe` program started with an empty mask, a consistent `not_full` flag and no
bounded variables terminates normally in the state it started from.  Missing from the full statement: every
fault, `temp_params` under a mask, bounded variables, `temp_used_res`, `mask_params` (restores on normal exit
only), the fit-fraction routines (restore the default selection only), `factor_iteration`, `build_amp_matrix`
(restores for consistent `not_full` only). -/
theorem restore_all_partial (E : Env) (hE : E.bounded = []) (np nc : Nat) (p : Prog) (hp : Safe np nc p) :
    ∀ s : St, s.mask = [] → WF E s → s.params.length = np → s.config.length = nc →
      exec Fix.none E p s = (s, false) := by
  induction hp with
  | skip => intro s _ _ _ _; rfl
  | pw comb =>
    intro s _ hwf _ _
    simp only [exec, execComp, none_flags.2.2.2.2.1]
    apply saveRunRestore_asis E _ s hwf <;>
    · intro st h
      simp only [List.mem_flatMap, List.mem_cons, List.not_mem_nil, or_false] at h
      obtain ⟨_, _, h | h⟩ := h <;> subst h <;> rfl
  | pwBase comb =>
    intro s _ hwf _ _
    simp only [exec, execComp, none_flags.2.2.2.2.2.1]
    apply saveRunRestore_asis E _ s hwf <;>
    · intro st h
      simp only [List.mem_flatMap, List.mem_cons, List.not_mem_nil, or_false] at h
      obtain ⟨_, _, h | h⟩ := h <;> subst h <;> rfl
  | pwi =>
    intro s _ hwf _ _
    simp only [exec, execComp, none_flags.2.2.2.2.2.2.1]
    apply saveRunRestore_asis E _ s hwf <;>
    · intro st h
      simp only [List.mem_flatMap, List.mem_cons, List.not_mem_nil, or_false] at h
      obtain ⟨_, _, h | h⟩ := h <;> subst h <;> rfl
  | absTemp p body hk _ ih =>
    intro s hmask hwf hnp hnc
    have hgood := setAll_good np p hk s.params
    have hlen := (setAll_frame p s.params).1
    have hb := ih { s with params := (setAll p s.params).1 } hmask hwf (by simp [hlen, hnp]) hnc
    have hv : s.view = s.params := by simp only [St.view, hmask, viewFrom_nil]
    simp only [exec, execBlock, none_flags.1, Bool.false_eq_true, if_false, hgood, hb, hv]
  | vmTemp p body hk _ ih =>
    intro s hmask hwf hnp hnc
    have hgood := setAll_good np p hk s.params
    obtain ⟨hlen, hoff⟩ := setAll_frame p s.params
    have hany : (p.any fun kv => decide (s.params.length ≤ kv.1)) = false := by
      simp only [List.any_eq_false, decide_eq_true_eq, Nat.not_le]
      intro kv hkv
      rw [hnp]; exact (hk kv hkv).1
    have hold : (p.map fun kv => (kv.1, getFit E s.params kv.1)) =
        ((p.map (·.1)).map fun k => (k, getRaw s.params k)) := by
      simp [List.map_map, Function.comp_def, getFit, getRaw, hE]
    have hb := ih { s with params := (setAll p s.params).1 } hmask hwf (by simp [hlen, hnp]) hnc
    simp only [exec, execBlock, none_flags.2.1, Bool.false_eq_true, if_false, hgood, hany, hb, hold,
      setVals_restore s.params (p.map (·.1)) _ hlen hoff]
  | glsOne body _ ih =>
    intro s hmask hwf hnp hnc
    have hb := ih { s with maskFactor := s.maskFactor.map fun _ => true } hmask hwf hnp hnc
    simp only [exec, execBlock, none_flags.2.2.1, hb, Bool.false_or, Bool.not_false, if_true]
  | tempConfig k v body hk _ ih =>
    intro s hmask hwf hnp hnc
    have hnot : ¬ s.config.length ≤ k := by omega
    have hb := ih { s with config := s.config.set k v } hmask hwf hnp (by simp [hnc])
    simp only [exec, execBlock, none_flags.2.2.2.1, hnot, if_false, hb, Bool.false_or, Bool.not_false, if_true,
      set_set_back s.config k v hnot]
  | seq p q _ _ ihp ihq =>
    intro s hmask hwf hnp hnc
    simp only [exec, ihp s hmask hwf hnp hnc, Bool.false_eq_true, if_false]
    exact ihq s hmask hwf hnp hnc

/-- the hypotheses of `restore_all_partial` are satisfiable by a non-trivial program and state -/
example : Safe 4 2 (.block (.absTemp [(2, .good (.lit 5))]) (.seq (.compute .pwi none)
    (.block (.tempConfig 1 (.lit 7)) (.block (.vmTemp [(3, .good (.lit 6))]) (.compute (.pw [[.res 0], [.idx 1, .res 2]]) none))))) :=
  .absTemp _ _ (by intro kv h; simp at h; subst h; exact ⟨by decide, _, rfl⟩)
    (.seq _ _ .pwi (.tempConfig _ _ _ (by decide)
      (.vmTemp _ _ (by intro kv h; simp at h; subst h; exact ⟨by decide, _, rfl⟩) (.pw _))))

example : s0.mask = [] ∧ WF { E0 with bounded := [] } s0 ∧ s0.params.length = 4 ∧ s0.config.length = 2 := by
  refine ⟨rfl, ?_, rfl, rfl⟩
  simp [WF, s0, E0]

/-- `mask_params` alone restores on a normal exit (tree as it is), whatever the state -/
theorem asis_mask_params_normal (E : Env) (m : List (Nat × Val)) (s : St) :
    exec Fix.none E (.block (.maskParams m) .skip) s = (s, false) := by
  simp [exec, execBlock, none_flags.2.2.2.2.2.2.2]

end TfPwaV.C17
