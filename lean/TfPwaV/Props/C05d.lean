import TfPwaV.Proofs.FactoriseY

/-!
# C05d — `cached_shape`, `mask_factor`, `p4_directly` / `cached_angle`, and the id()-switch of `AbsPDF.__call__`

Model: `TfPwaV.FactoriseY` (`Model/FactoriseY.lean`).

1. `temp_total_gls_one` as a protocol on a table of `mask_factor` flags, one cell per OBJECT (a decay object shared by
   several chains is visited several times): save all / set all / restore all is the identity on the table for ANY
   visiting sequence; the fused loop of seeded change C05-03 leaves exactly the cells visited twice masked.
2. `cached_shape`: the preprocessor stores, for the chains of `cached_shape_idx`, (params vector under the mask) ⊙ (angular
   cache); the amplitude model multiplies with the couplings only.  `cached_shape_eq_direct`: equal to plain evaluation
   for every commutative ring, any number of chains / decays / ls terms, any decay table with any sharing pattern, any
   couplings at caching time — GIVEN the line-shape parts of the cached chains are the same at caching and at evaluation
   time (counter-example without).
3. The id()-switch: a state machine over calls; the returned value is `pdf(current parameters, data)` on every history.
4. The preprocessor / amplitude pipelines `default`, `p4_directly`, `base_factor`, `cached_angle` as compositions.
-/
namespace TfPwaV.C05d
open TfPwaV.Factorise TfPwaV.FactoriseY

/-! ## 1. the mask protocol -/

/-- **`mask_all_then_restore`.**  For every flag table, every visiting sequence (repetitions allowed: shared decay
    objects) and every body (also one that raises — the restore is in `finally`): after `with temp_total_gls_one()` every
    object has the flag it had before. -/
theorem mask_all_then_restore {α : Type} (fl : Flags) (vis : List Nat) (body : Flags → α) :
    (tempGlsOne fl vis body).2 = fl := by
  funext j
  simp only [tempGlsOne, saveAll]
  rw [restoreAll_saved]
  split
  · rfl
  · next h => exact setAll_not_mem fl vis j h

/-- during the body every visited object is masked and no other flag is touched -/
theorem masked_during_body {α : Type} (fl : Flags) (vis : List Nat) (body : Flags → α) :
    (tempGlsOne fl vis body).1 = body (setAll fl vis)
      ∧ (∀ i ∈ vis, setAll fl vis i = true) ∧ (∀ i, i ∉ vis → setAll fl vis i = fl i) :=
  ⟨rfl, setAll_mem fl vis, setAll_not_mem fl vis⟩

/-- the visiting sequence of `temp_total_gls_one` contains every chain and every decay of every chain -/
theorem mask_part_visits (decs : List (List Nat)) (c : Nat) (h : c < decs.length) :
    chainId c ∈ maskPart decs ∧ ∀ d ∈ decs.getD c [], decayId d ∈ maskPart decs :=
  mem_maskPart decs c h

/-- a 4-body cascade: chains 0 and 1 share decay object 0 (`Qa -> Qx Fe`); it is visited twice -/
example : maskPart [[0, 1], [0, 2]] = [0, 1, 3, 2, 1, 5] := by decide +kernel

/-- **The fused loop of C05-03 (record and set in one pass), completely described**: for every table and visiting
    sequence the flag of object j afterwards is `True` if j was visited at least twice, else its old value. -/
theorem fused_final_flags {α : Type} (fl : Flags) (vis : List Nat) (body : Flags → α) (j : Nat) :
    (tempGlsOneFused fl vis body).2 j = if 2 ≤ vis.count j then true else fl j :=
  fused_final fl vis j

/-- hence the fused loop is correct exactly where nothing is shared … -/
theorem fused_restores_without_sharing {α : Type} (fl : Flags) (vis : List Nat) (body : Flags → α) (h : vis.Nodup) :
    (tempGlsOneFused fl vis body).2 = fl := by
  funext j
  rw [fused_final_flags]
  have := List.nodup_iff_count.mp h j
  rw [if_neg (by omega)]

example : ([0, 1, 3, 2, 5] : List Nat).Nodup := by decide

/-- … and **refuted on any shared decay**: an object visited twice that was not masked before stays masked -/
theorem fused_breaks_on_shared {α : Type} (fl : Flags) (vis : List Nat) (body : Flags → α) (j : Nat)
    (h2 : 2 ≤ vis.count j) (h0 : fl j = false) :
    (tempGlsOneFused fl vis body).2 j ≠ fl j := by
  rw [fused_final_flags, if_pos h2, h0]; decide

/-- the cascade above: decay object 0 (cell 1) keeps `mask_factor = True` after the fused loop, not after the real one -/
example :
    let vis := maskPart [[0, 1], [0, 2]]
    let fl : Flags := fun _ => false
    2 ≤ vis.count (decayId 0) ∧ fl (decayId 0) = false ∧
    (tempGlsOneFused fl vis fun _ => ()).2 (decayId 0) = true ∧ (tempGlsOne fl vis fun _ => ()).2 (decayId 0) = false := by
  decide +kernel

/-! ## 2. `cached_shape` -/

variable {R : Type} [CommRing R]

/-- **`cached_shape_eq_direct`.**  `S` = chains as lists of indices into a decay table (ANY sharing pattern) with their
    angular caches; `P0` = parameters at caching time, `P` = parameters at evaluation time (couplings, totals, barrier
    factors, propagators: all arbitrary); `fl0` / `fl` = flag tables before caching / at evaluation; `used` = `chains_idx`,
    `idx` = `cached_shape_idx`.  If
    * the two selections have no repeated entry and the cached chains exist,
    * the cached chains are well shaped (as many couplings as barrier factors per decay) at both parameter points,
    * **the line-shape parts of the cached chains are the same at `P0` and `P`** (fixed masses / widths),
    then `CachedShapeAmplitudeModel.pdf` on the tensors stored by `CachedShapePreProcessor` equals plain evaluation
    `Σ_{c ∈ used} Σ_k pv_k(P) · ang_k` (which Props/C05c `cached_eq_direct` identifies with Σ Π_decays Σ_ls …). -/
theorem cached_shape_eq_direct (S : Struct R) (P0 P : Params R) (fl0 fl : Flags) (used idx : List Nat)
    (hu : used.Nodup) (hi : idx.Nodup) (hidx : ∀ c ∈ idx, c < S.decs.length)
    (hw0 : ∀ c ∈ idx, WellShaped S P0 c) (hw : ∀ c ∈ idx, WellShaped S P c)
    (hfix : ∀ c ∈ idx, P.bf.getD c [] = P0.bf.getD c [] ∧ P.rs.getD c 0 = P0.rs.getD c 0) :
    shapePdf fl S P (preprocess fl0 S P0 idx).1 used idx = defaultAmp fl S P used := by
  have hcache : (preprocess fl0 S P0 idx).1 = cacheOf (setAll fl0 (maskPart S.decs)) S P0 idx := rfl
  rw [hcache]
  unfold shapePdf defaultAmp
  have hA : ((used.filter fun i => !idx.contains i).map fun c =>
        dot (pvBuild fl S P c) (cacheOf (setAll fl0 (maskPart S.decs)) S P0 idx c))
      = (used.filter fun i => !idx.contains i).map (chainAmp fl S P) := by
    apply List.map_congr_left
    intro c hc
    have hc' : idx.contains c = false := by simpa using (List.mem_filter.mp hc).2
    simp only [cacheOf, hc', chainAmp]
    rfl
  have hB : ((idx.filter fun i => used.contains i).map fun c =>
        dot (pvCoupling fl S P c) (cacheOf (setAll fl0 (maskPart S.decs)) S P0 idx c))
      = (idx.filter fun i => used.contains i).map (chainAmp fl S P) := by
    apply List.map_congr_left
    intro c hc
    have hci : c ∈ idx := (List.mem_filter.mp hc).1
    have hc' : idx.contains c = true := by simpa using hci
    obtain ⟨hm, hmd⟩ := mem_maskPart S.decs c (hidx c hci)
    simp only [cacheOf, hc', if_true, chainAmp]
    rw [dot_hmul, pv_split fl _ S P0 P c (setAll_mem _ _ _ hm) (fun d hd => setAll_mem _ _ _ (hmd d hd))
      (hw0 c hci) (hw c hci) (hfix c hci).1 (hfix c hci).2]
  rw [hA, hB]
  exact sum_split_perm (chainAmp fl S P) used idx hu hi

/-- non-vacuity + the 4-body cascade: two chains share decay object 0 (two partial waves); chain 1 additionally has a
    third chain next to it whose line shape FLOATS (not in `idx`); couplings and totals all change between caching and
    evaluation; the line-shape parts of the cached chains 0 and 1 do not -/
example :
    let S : Struct Int := ⟨[[0, 1], [0, 2], [3]], [[1, 2, 3, 4], [2, -1], [5, 7]]⟩
    let P0 : Params Int := ⟨[[1, 1], [1, 5], [4], [1, 1]], [1, 1, 1], [[[2, 3], [1, 2]], [[2, 3], [5]], [[1, 1]]], [3, -2, 4]⟩
    let P : Params Int := ⟨[[1, -3], [1, 2], [7], [1, 6]], [2, -5, 3], [[[2, 3], [1, 2]], [[2, 3], [5]], [[3, -1]]], [3, -2, 9]⟩
    let fl0 : Flags := fun _ => false
    let used := [0, 1, 2]
    let idx := [0, 1]
    used.Nodup ∧ idx.Nodup ∧ (∀ c ∈ idx, c < S.decs.length) ∧
    (∀ c ∈ idx, P.bf.getD c [] = P0.bf.getD c [] ∧ P.rs.getD c 0 = P0.rs.getD c 0) ∧
    shapePdf fl0 S P (preprocess fl0 S P0 idx).1 used idx = 2903 ∧ defaultAmp fl0 S P used = 2903 := by
  decide +kernel

example : WellShaped (⟨[[0, 1], [0, 2], [3]], [[1, 2, 3, 4], [2, -1], [5, 7]]⟩ : Struct Int)
    ⟨[[1, 1], [1, 5], [4], [1, 1]], [1, 1, 1], [[[2, 3], [1, 2]], [[2, 3], [5]], [[1, 1]]], [3, -2, 4]⟩ 1 := by
  unfold WellShaped
  exact .cons rfl (.cons rfl .nil)

/-- **`cached_shape_eq_multilinear`.**  Under the hypotheses of `cached_shape_eq_direct`, for angular caches of product
    form (`ang_c = ⊗_decays part_{c,d}` in the order of `split_gls`; one term of the inner-helicity sum) the value of
    `CachedShapeAmplitudeModel.pdf` is the direct multilinear expression
    `Σ_{c ∈ used} total_c · rs_c · Π_decays Σ_ls g_ls · bf_ls · part_ls`. -/
theorem cached_shape_eq_multilinear (S : Struct R) (P0 P : Params R) (fl0 fl : Flags) (used idx : List Nat)
    (hu : used.Nodup) (hi : idx.Nodup) (hidx : ∀ c ∈ idx, c < S.decs.length)
    (hw0 : ∀ c ∈ idx, WellShaped S P0 c) (hw : ∀ c ∈ idx, WellShaped S P c)
    (hfix : ∀ c ∈ idx, P.bf.getD c [] = P0.bf.getD c [] ∧ P.rs.getD c 0 = P0.rs.getD c 0)
    (parts : Nat → List (List R))
    (hang : ∀ c ∈ used, S.ang.getD c [] = angOf (parts c ++ [[1]]))
    (hl : ∀ c ∈ used, List.Forall₂ (fun f p => f.length = p.length) (lsAmps fl S P c) (parts c)) :
    shapePdf fl S P (preprocess fl0 S P0 idx).1 used idx
      = (used.map fun c => (getTotal fl P c * P.rs.getD c 0) * prodL (List.zipWith dot (lsAmps fl S P c) (parts c))).sum := by
  rw [cached_shape_eq_direct S P0 P fl0 fl used idx hu hi hidx hw0 hw hfix]
  unfold defaultAmp
  congr 1
  apply List.map_congr_left
  intro c hc
  exact chainAmp_multilinear fl S P c (parts c) (hang c hc) (hl c hc)

/-- non-vacuity: the cascade with product-form caches; chain 0 = (2·3)·(1·2·5 − 3·3·7)·(1·1·1 + 2·2·2), chain 1 = (−5·−2)·(1·2·1 + 3·3·1)·(7·5·3) -/
example :
    let parts : Nat → List (List Int) := fun c => if c = 0 then [[5, 7], [1, 2]] else [[1, -1], [3]]
    let S : Struct Int := ⟨[[0, 1], [0, 2]], [angOf (parts 0 ++ [[1]]), angOf (parts 1 ++ [[1]])]⟩
    let P : Params Int := ⟨[[1, -3], [1, 2], [7]], [2, -5], [[[2, 3], [1, 2]], [[2, 3], [5]]], [3, -2]⟩
    let fl : Flags := fun _ => false
    S.ang = [[5, 10, 7, 14], [3, -3]] ∧
    shapePdf fl S P (preprocess fl S P [0, 1]).1 [0, 1] [0, 1] = 6 * (-53) * 9 + 10 * 11 * 105 ∧
    ([0, 1].map fun c => (getTotal fl P c * P.rs.getD c 0) * prodL (List.zipWith dot (lsAmps fl S P c) (parts c))).sum = 8688 := by
  decide +kernel

/-- **without the hypothesis the identity fails**: the propagator of the cached chain changes between caching
    (`rs = 3`) and evaluation (`rs = 4`): a floating mass or width in a chain that was declared fixed-shape -/
example :
    let S : Struct Int := ⟨[[0]], [[1, 1]]⟩
    let P0 : Params Int := ⟨[[1, 2]], [1], [[[1, 1]]], [3]⟩
    let P : Params Int := ⟨[[1, 2]], [1], [[[1, 1]]], [4]⟩
    let fl0 : Flags := fun _ => false
    shapePdf fl0 S P (preprocess fl0 S P0 [0]).1 [0] [0] = 9 ∧ defaultAmp fl0 S P [0] = 12 := by
  decide +kernel

/-- the excluded branch: a chain listed twice in a user-supplied `cached_shape_idx` is summed twice (model and code) -/
example :
    let S : Struct Int := ⟨[[0]], [[1, 1]]⟩
    let P : Params Int := ⟨[[1, 2]], [1], [[[1, 1]]], [3]⟩
    let fl0 : Flags := fun _ => false
    shapePdf fl0 S P (preprocess fl0 S P [0, 0]).1 [0] [0, 0] = 18 ∧ defaultAmp fl0 S P [0] = 9 := by
  decide +kernel

/-- **the cached tensor is the amplitude with EVERY coupling set to one**: it does not depend on the couplings and
    totals in force at caching time (`P0`, `P0'` differ only there), nor on the flags before -/
theorem cache_independent_of_couplings (S : Struct R) (P0 P0' : Params R) (fl0 fl0' : Flags) (idx : List Nat) (c : Nat)
    (hc : c < S.decs.length) (hw : WellShaped S P0 c) (hw' : WellShaped S P0' c)
    (hbf : P0'.bf.getD c [] = P0.bf.getD c []) (hrs : P0'.rs.getD c 0 = P0.rs.getD c 0) :
    (preprocess fl0 S P0 idx).1 c = (preprocess fl0' S P0' idx).1 c := by
  have h1 : (preprocess fl0 S P0 idx).1 = cacheOf (setAll fl0 (maskPart S.decs)) S P0 idx := rfl
  have h2 : (preprocess fl0' S P0' idx).1 = cacheOf (setAll fl0' (maskPart S.decs)) S P0' idx := rfl
  rw [h1, h2]
  unfold cacheOf
  split
  · obtain ⟨hm, hmd⟩ := mem_maskPart S.decs c hc
    congr 1
    rw [pvBuild_eq, pvBuild_eq,
      masked_lsamp _ P0 _ _ hw (fun d hd => setAll_mem _ _ _ (hmd d hd)),
      masked_lsamp _ P0' _ _ hw' (fun d hd => setAll_mem _ _ _ (hmd d hd)), hbf, hrs]
    unfold getTotal
    rw [if_pos (setAll_mem _ _ _ hm), if_pos (setAll_mem _ _ _ hm)]
  · rfl

example :
    let S : Struct Int := ⟨[[0, 1]], [[1, 2, 3, 4]]⟩
    let P0 : Params Int := ⟨[[1, 1], [1, 5]], [1], [[[2, 3], [1, 2]]], [3]⟩
    let P0' : Params Int := ⟨[[4, -1], [2, 2]], [7], [[[2, 3], [1, 2]]], [3]⟩
    (preprocess (fun _ => false) S P0 [0]).1 0 = [6, 24, 27, 72] ∧ (preprocess (fun _ => true) S P0' [0]).1 0 = [6, 24, 27, 72] := by
  decide +kernel

/-- **the whole session**: caching with the real protocol leaves the flags as they were, so evaluating afterwards —
    with whatever the protocol left behind — is plain evaluation with the original flags -/
theorem cached_shape_session (S : Struct R) (P0 P : Params R) (fl0 : Flags) (used idx : List Nat)
    (hu : used.Nodup) (hi : idx.Nodup) (hidx : ∀ c ∈ idx, c < S.decs.length)
    (hw0 : ∀ c ∈ idx, WellShaped S P0 c) (hw : ∀ c ∈ idx, WellShaped S P c)
    (hfix : ∀ c ∈ idx, P.bf.getD c [] = P0.bf.getD c [] ∧ P.rs.getD c 0 = P0.rs.getD c 0) :
    shapePdf (preprocess fl0 S P0 idx).2 S P (preprocess fl0 S P0 idx).1 used idx = defaultAmp fl0 S P used := by
  have hfl : (preprocess fl0 S P0 idx).2 = fl0 := mask_all_then_restore fl0 _ _
  rw [hfl]
  exact cached_shape_eq_direct S P0 P fl0 fl0 used idx hu hi hidx hw0 hw hfix

/-- with the fused loop of C05-03 the same session is wrong on the cascade: the shared decay stays masked, so the free
    second partial wave of decay 0 (coupling −3) is evaluated as 1 — by the cached model AND by every later plain call -/
example :
    let S : Struct Int := ⟨[[0, 1], [0, 2]], [[1, 2, 3, 4], [2, -1]]⟩
    let P : Params Int := ⟨[[1, -3], [1, 2], [7]], [2, -5], [[[2, 3], [1, 2]], [[2, 3], [5]]], [3, -2]⟩
    let fl0 : Flags := fun _ => false
    let pre := preprocessFused fl0 S P [0, 1]
    pre.2 (decayId 0) = true ∧
    shapePdf pre.2 S P pre.1 [0, 1] [0, 1] = 800 ∧ defaultAmp pre.2 S P [0, 1] = 800 ∧ defaultAmp fl0 S P [0, 1] = 3632 := by
  decide +kernel

/-! ## 3. the id()-based switch of `AbsPDF.__call__` -/

/-- one call: the value is `pdf(current parameters, data)` whichever branch is taken; the parameters are untouched -/
theorem step_call_value {P D O : Type} (env : PdfEnv P D O) (hwrap : ∀ p d, env.cachedFun p d = env.pdf p d)
    (st : PdfSt P) (i : Nat) (d : D) :
    ∃ w, (stepPdf env st (.call i d)).2 = some (env.pdf st.params d, w) ∧ (stepPdf env st (.call i d)).1.params = st.params := by
  simp only [stepPdf]
  by_cases h1 : (st.fData.contains i || env.noIdCached) = true
  · rw [if_pos h1]
    by_cases h3 : st.avail = true
    · rw [if_pos h3]; exact ⟨true, by rw [hwrap], rfl⟩
    · rw [if_neg h3]; exact ⟨false, rfl, rfl⟩
  · rw [if_neg h1]; exact ⟨false, rfl, rfl⟩

/-- **`call_value_independent_of_history`.**  For every pair of implementations that agree as functions
    (`cached_fun = WrapFun(pdf)` or `pdf` itself), every option `no_id_cached`, every initial `f_data`, and every sequence
    of calls (with ANY object identities — repeated, fresh, or reused for different data), parameter updates and chain
    selections in between: the i-th call returns `pdf(parameters in force at that call, its data)`.  The switch decides
    only WHICH implementation runs. -/
theorem call_value_independent_of_history {P D O : Type} (env : PdfEnv P D O)
    (hwrap : ∀ p d, env.cachedFun p d = env.pdf p d) (st : PdfSt P) (ops : List (Op P D)) :
    (runPdf env st ops).1.map Prod.fst = runRef env.pdf st.params ops := by
  induction ops generalizing st with
  | nil => rfl
  | cons op ops ih =>
    cases op with
    | call i d =>
      obtain ⟨w, h2, h1⟩ := step_call_value env hwrap st i d
      simp only [runPdf, h2, runRef, List.map_cons, ih, h1]
    | setParams p => simp only [runPdf, stepPdf, runRef]; exact ih _
    | setAvail b => simp only [runPdf, stepPdf, runRef]; exact ih _

/-- non-vacuity: the same object called three times around a parameter update, then another object reusing its id -/
example :
    let env : PdfEnv Int Int Int := ⟨fun p x => p * x, fun p x => p * x, false⟩
    (∀ p d, env.cachedFun p d = env.pdf p d) ∧
    (runPdf env ⟨[], 2, true⟩ [.call 7 5, .call 7 5, .setParams 3, .call 7 5, .call 7 11]).1
      = [(10, false), (10, true), (15, true), (33, true)] := by
  refine ⟨fun _ _ => rfl, by decide +kernel⟩

/-- which implementation runs: `cached_fun` iff (the id was seen before or `no_id_cached`) and the chain selection is full -/
theorem switch_selects_impl {P D O : Type} (env : PdfEnv P D O) (st : PdfSt P) (i : Nat) (d : D) :
    ((stepPdf env st (.call i d)).2.map Prod.snd = some true ↔ (i ∈ st.fData ∨ env.noIdCached = true) ∧ st.avail = true)
    ∧ ((stepPdf env st (.call i d)).1.fData = if i ∈ st.fData ∨ env.noIdCached = true then st.fData else st.fData ++ [i]) := by
  unfold stepPdf
  by_cases h1 : i ∈ st.fData <;> by_cases h2 : env.noIdCached = true <;> by_cases h3 : st.avail = true <;>
    simp [h1, h2, h3]

/-- **without the hypothesis the property fails**: a `cached_fun` that froze the parameters when it was traced
    (a Python scalar leaf — the listed WrapFun finding) returns the stale value on the second call -/
example :
    let env : PdfEnv Int Int Int := ⟨fun p x => p * x, fun _ x => 2 * x, false⟩
    (runPdf env ⟨[], 2, true⟩ [.call 7 5, .setParams 3, .call 7 5]).1.map Prod.fst = [10, 10] ∧
    runRef env.pdf 2 [.call 7 5, .setParams 3, .call 7 5] = [10, 15] := by
  decide +kernel

/-! ## 4. pipelines -/

section pipes
variable {P4 Ang T M Θ Out : Type}

/-- **`p4_directly_eq_default`.**  GIVEN the same `cal_angle` function, the same parity map and the same resolved
    `cp_trans` flag, computing the angles inside the model call (after the flip) is computing them in the preprocessor:
    for every event, charge (also `None`), parameters. -/
theorem p4_directly_eq_default (cp : Bool) (neg : P4 → P4) (calAngle : P4 → Ang) (sumAmp : Θ → Ang → Option Int → Out)
    (θ : Θ) (p : P4) (ch : Option Int) :
    pipeP4 cp neg calAngle sumAmp θ p ch = pipeDefault cp neg calAngle sumAmp θ p ch := rfl

/-- through ConfigLoader both sides resolve the flag from the same `data:` entry with the same default (`True`,
    also when the entry is absent): the two pipelines agree for EVERY content of that entry -/
theorem p4_directly_eq_default_config (o : Option Bool) (neg : P4 → P4) (calAngle : P4 → Ang)
    (sumAmp : Θ → Ang → Option Int → Out) (θ : Θ) (p : P4) (ch : Option Int) :
    pipeP4 (resolveCp o) neg calAngle sumAmp θ p ch = pipeDefault (resolveCp o) neg calAngle sumAmp θ p ch
      ∧ resolveCp none = true ∧ resolveCpBare none = false :=
  ⟨rfl, rfl, rfl⟩

/-- … whereas the bare preprocessor class defaults to `False`: outside ConfigLoader the two pipelines differ on a
    charge −1 event (here `P4 = Int`, parity = negation, `cal_angle` = identity) -/
example :
    resolveCp none ≠ resolveCpBare none ∧
    pipeP4 (resolveCp none) (fun p : Int => -p) id (fun (_ : Unit) a _ => a) () 5 (some (-1)) = -5 ∧
    pipeDefault (resolveCpBare none) (fun p : Int => -p) id (fun (_ : Unit) a _ => a) () 5 (some (-1)) = 5 := by
  decide

/-- the pre-fix behaviour (fe556ab): `p4_directly` without the flip differs from the default on a charge −1 event -/
example :
    pipeP4 false (fun p : Int => -p) id (fun (_ : Unit) a _ => a) () 5 (some (-1))
      ≠ pipeDefault true (fun p : Int => -p) id (fun (_ : Unit) a _ => a) () 5 (some (-1)) := by
  decide

/-- **the flip commutes with batching** (`LazyCall`, `batch`): it is decided event by event from that event's charge -/
theorem cp_flip_commutes_with_batching (neg : P4 → P4) (k : Nat) (evs : List (P4 × Option Int)) :
    batched (fun e => parityTrans neg e.1 e.2) k evs = evs.map fun e => parityTrans neg e.1 e.2 := by
  unfold batched
  rw [← List.map_append, List.take_append_drop]

/-- the flip is an involution-free selection: charge > 0 and `None` leave the momenta alone -/
theorem parity_trans_cases (neg : P4 → P4) (p : P4) (c : Int) :
    parityTrans neg p none = p ∧ (0 < c → parityTrans neg p (some c) = p) ∧ (¬ 0 < c → parityTrans neg p (some c) = neg p) := by
  refine ⟨rfl, ?_, ?_⟩ <;> intro h <;> simp [parityTrans, h]

/-- **`cached_angle_eq_base_factor`.**  What `cached_angle` stores is a function of the angles only, so storing it at
    load time or recomputing it at every call is the same — for all parameters. -/
theorem cached_angle_eq_base_factor (calAngle : P4 → Ang) (angAmp : Ang → T) (mdep : Θ → Ang → M) (contract : M → T → Out)
    (θ : Θ) (p : P4) :
    pipeCachedAngle calAngle angAmp mdep contract θ p = pipeBaseFactor calAngle angAmp mdep contract θ p := rfl

/-- if the cached tensor did depend on the parameters, the cache built at θ0 is right at θ GIVEN it is unchanged … -/
theorem cached_angle_param_dependent (calAngle : P4 → Ang) (angAmpθ : Θ → Ang → T) (mdep : Θ → Ang → M)
    (contract : M → T → Out) (θ0 θ : Θ) (p : P4) (hfix : angAmpθ θ (calAngle p) = angAmpθ θ0 (calAngle p)) :
    pipeCachedAngleθ calAngle angAmpθ mdep contract θ0 θ p = pipeBaseFactor calAngle (angAmpθ θ) mdep contract θ p := by
  simp only [pipeCachedAngleθ, pipeBaseFactor, hfix]

/-- … and wrong otherwise -/
example :
    pipeCachedAngleθ (id : Int → Int) (fun θ a => θ * a) (fun θ _ => θ) (fun m t => m + t) 1 2 5
      ≠ pipeBaseFactor (id : Int → Int) (fun a => 2 * a) (fun θ _ => θ) (fun m t => m + t) 2 5 := by
  decide

end pipes

end TfPwaV.C05d
