import TfPwaV.Proofs.AxesIndVertex
import TfPwaV.Props.C01g
import TfPwaV.Props.C02e
/-!
# C01 (base-axes clause) — what a change of the base axes does to the output of `cal_helicity_angle`

`Props/C01g.lean` reduces frame independence of the density to ONE named hypothesis, `AxesIndependent`: for a FIXED event
the density does not depend on the base axes `(z, x)` from which `cal_helicity_angle` starts.  `Props/C01b.lean`
(`density_rot_fixed_axes_partial`) derives it from two named links, `hcomp` (the top-vertex angles of every chain compose
with one common SU(2) element) and `hB` (the rest of the chain absorbs the third Euler angle).  Here `hcomp` is PROVED on
the model of `cal_angle` (`templates/Cascade.lean.in`, `templates/Angle.lean.in`, the `SU2M` matrices of
`templates/SU2.lean.in` / `Align.lean.in`), and the geometric half of `hB` — that the angle which appears as the third
Euler angle at the top vertex IS the angle by which the next-level azimuths are lowered, and that nothing else below the
top vertex moves — is proved too.

Setting: one event (`chainBoost T g`: the output of `cal_chain_boost` for ANY binary decay tree, any momenta), two choices
of base axes `(z, x)` and `(z', x')` (arbitrary, not normalised, both passing the code's `cross_unit` guards) whose
orthonormal top frames `(topX, topY, topZ)` are related by an SU(2) element `U` (`FrameChange`: coordinates along the
second frame are `lor U` of coordinates along the first).

1. `top_angles_compose` — for BOTH daughters of the top vertex the passive vertex rotations
   `r = Rotation_y(β)·Rotation_z(α)` (the code's `r_matrix` factor, with the code's `alpha` range shifts `−π`, `−2π`)
   satisfy `r' · U = Rotation_z(γ_j) · r`, exactly in SU(2), with one real `γ_j` per daughter; in active form
   `Rz(α')·Ry(β')·Rz(0) = mirror(U) · Rz(α)·Ry(β)·Rz(γ_j)` with the SAME `mirror U` for every chain of the event.
2. `top_D_compose` — hence (`C12.D_hom_su2`, all spins `2j ≤ 8`) the top D-function of every chain is left-multiplied by
   ONE matrix `D(mirror U)` and right-multiplied by the diagonal phase `e^{i l γ_j}`.
3. `below_top_azimuth_shift` — the complete angle trees below the top vertex computed with the two choices of axes are
   related by `AzShift γ_j`: all masses, all polar angles, all angles two or more levels down are EQUAL, the two azimuths of
   the daughter's own vertex are lowered by the same `γ_j` (mod `2π`).
4. `density_axes_independent_partial` — `C01b.density_rot_fixed_axes_partial` with `hcomp` discharged: any number of chains,
   parent spin `2j ≤ 8`; remaining named link `hB` (index structure of `get_amp` + alignment), now stated against the
   `γ_k` that the model itself determines.
-/
open Matrix BigOperators
open TfPwaV.ScalarR
namespace TfPwaV.C01h
open TfPwaV.SU2R TfPwaV.AlignR TfPwaV.KinR TfPwaV.AngleR TfPwaV.SL2CR TfPwaV.LorentzSLR TfPwaV.CascadeR TfPwaV.RouteRestR
open TfPwaV.C12 TfPwaV.C02 TfPwaV.C01 TfPwaV.C11 TfPwaV.AxesInd TfPwaV.UnitaryMix TfPwaV.FrameAlg

/-- the base axes pass the two `cross_unit` guards of the top particle, and `U` relates the two top frames -/
structure AxesPair (U : M2) (z x z' x' : V3) : Prop where
  ok : TopOK z x
  ok' : TopOK z' x'
  su2 : IsSU2 U
  change : FrameChange U (topX z x) (topY z x) (topZ z) (topX z' x') (topY z' x') (topZ z')

/-- the top-vertex angles `(alpha_1, beta_1, alpha_2, beta_2)` stored by `cal_helicity_angle` -/
def topAngles : ATree → ℝ × ℝ × ℝ × ℝ
  | .leaf _ => (0, 0, 0, 0)
  | .node _ a1 b1 a2 b2 _ _ => (a1, b1, a2, b2)

/-! ## (1) the top-vertex angles compose with one SU(2) element -/

/-- **`top_angles_compose`** — every event (`T1`, `T2`: the decay trees of the two daughters, any depth; `g`: the boost into
the rest frame of the top particle), any two admissible choices of base axes related by `U`: for both daughters
`r' · U = Rotation_z(γ) · r` in SU(2). -/
theorem top_angles_compose (U : M2) (z x z' x' : V3) (hA : AxesPair U z x z' x') (p : V4) (T1 T2 : PTree) (g : V4 → V4)
    (hG : Guards (chainBoost (.node p T1 T2) g) z x) (hG' : Guards (chainBoost (.node p T1 T2) g) z' x') :
    let a := topAngles (helicityAngle (chainBoost (.node p T1 T2) g) z x)
    let a' := topAngles (helicityAngle (chainBoost (.node p T1 T2) g) z' x')
    (∃ γ1 : ℝ, (stepR a'.1 a'.2.1).mul U = (rotZ γ1).mul (stepR a.1 a.2.1)) ∧
      ∃ γ2 : ℝ, (stepR a'.2.2.1 a'.2.2.2).mul U = (rotZ γ2).mul (stepR a.2.2.1 a.2.2.2) := by
  intro a a'
  obtain ⟨F, hbz, hY⟩ := top_frame z x hA.ok.1 hA.ok.2
  obtain ⟨F', hbz', hY'⟩ := top_frame z' x' hA.ok'.1 hA.ok'.2
  simp only [chainBoost, Guards] at hG hG'
  obtain ⟨_, ok1, ok2, _⟩ := hG
  obtain ⟨_, ok1', ok2', _⟩ := hG'
  simp only [a, a', chainBoost, helicityAngle, topAngles]
  rw [hbz] at ok1 ok2 ⊢
  rw [hbz'] at ok1' ok2' ⊢
  exact ⟨vertex_compose _ _ _ _ _ _ F F' _ _ hA.ok.2 hA.ok'.2 x x' hY hY' U hA.su2 hA.change _ ok1 ok1' _ _,
    vertex_compose _ _ _ _ _ _ F F' _ _ hA.ok.2 hA.ok'.2 x x' hY hY' U hA.su2 hA.change _ ok2 ok2' _ _⟩

/-- the same in ACTIVE form, the form `C12.D_hom_su2` consumes -/
theorem top_angles_compose_active (U : M2) (hU : IsSU2 U) (α β α' β' γ : ℝ)
    (h : (stepR α' β').mul U = (rotZ γ).mul (stepR α β)) :
    rot3 α' β' 0 = (mirror U).mul (rot3 α β γ) := active_of_passive U hU α β α' β' γ h

/-! ## (2) the top D-function -/

/-- **`top_D_compose`** — spin `2j = N ≤ 8`: if the passive vertex rotations compose as in `top_angles_compose`, the top
D-function `D^{j*}(α', β', 0)` is `D(mirror U) · D^{j*}(α, β, 0) · diag(e^{i l γ})`, where `D(mirror U)` is the D-function
at the Euler angles `get_euler_angle` extracts from `mirror U` — the same matrix for every chain and both daughters. -/
theorem top_D_compose (N : ℕ) (hN : N ≤ 8) (U : M2) (hU : IsSU2 U) (α β α' β' γ : ℝ)
    (h : (stepR α' β').mul U = (rotZ γ).mul (stepR α β)) (i k : Fin (N + 1)) :
    DConj N α' β' 0 i k =
      (DConj N (eulerOf (mirror U)).gamma (eulerOf (mirror U)).beta (eulerOf (mirror U)).alpha * DConj N α β 0) i k *
        FrameAlg.phase N γ k := by
  have hm := mirror_isSU2 U hU
  have hact := active_of_passive U hU α β α' β' γ h
  have he : rot3 (eulerOf (mirror U)).gamma (eulerOf (mirror U)).beta (eulerOf (mirror U)).alpha = mirror U := by
    rw [rot3_eq_ofEuler]; exact euler_roundtrip _ hm
  rw [← he] at hact
  rw [DConj_compose N hN _ _ _ α β γ α' β' 0 hact, Matrix.mul_apply, Matrix.mul_apply, Finset.sum_mul]
  refine Finset.sum_congr rfl fun l _ => ?_
  rw [DConj_gamma N α β γ l k]
  ring

/-! ## (3) below the top vertex -/

/-- two angle trees that differ only by a common lowering `γ` (mod `2π`) of the two azimuths of their root vertex -/
def AzShift (γ : ℝ) : ATree → ATree → Prop
  | .leaf m, .leaf m' => m' = m
  | .node m a1 b1 a2 b2 d1 d2, .node m' a1' b1' a2' b2' d1' d2' =>
    m' = m ∧ b1' = b1 ∧ b2' = b2 ∧ d1' = d1 ∧ d2' = d2 ∧
      Real.cos a1' = Real.cos (a1 - γ) ∧ Real.sin a1' = Real.sin (a1 - γ) ∧
      Real.cos a2' = Real.cos (a2 - γ) ∧ Real.sin a2' = Real.sin (a2 - γ)
  | _, _ => False

/-- the `x2` and `beta` outputs of `angle_zx_z_getx` do not read its `x1` argument -/
theorem getx_x2_beta (z1 xa xb z2 : V3) :
    (angleZxZGetx z1 xa z2).x2 = (angleZxZGetx z1 xb z2).x2 ∧ (angleZxZGetx z1 xa z2).beta = (angleZxZGetx z1 xb z2).beta :=
  ⟨rfl, rfl⟩

theorem shiftAlpha_sub_cos_sin (a b γ : ℝ) :
    Real.cos (shiftAlpha a b - γ) = Real.cos (a - γ) ∧ Real.sin (shiftAlpha a b - γ) = Real.sin (a - γ) := by
  have h : shiftAlpha a b - γ = a - γ - (⌊(a - b) / (2 * kpi)⌋ : ℤ) * (2 * Real.pi) := by
    unfold shiftAlpha kmod kfloor kpi; ring
  rw [h]
  exact ⟨Real.cos_sub_int_mul_two_pi _ _, Real.sin_sub_int_mul_two_pi _ _⟩

/-- **`below_top_azimuth_shift`** — first daughter of the top vertex (`bias = −π`; the second daughter is the same statement
with `r2`, `T2`): the angle tree `cal_helicity_angle` computes below it from the axes `(z', x')` is the `AzShift γ` of the
one computed from `(z, x)`, with the SAME `γ` as in `top_angles_compose`.  Hypotheses: the code's guards for both
choices of axes (`Guards`), nothing else. -/
theorem below_top_azimuth_shift (U : M2) (z x z' x' : V3) (hA : AxesPair U z x z' x') (r : V4) (T : PTree) (g : V4 → V4)
    (bias bias' : ℝ) (hok : StepOK z r) (hok' : StepOK z' r)
    (hreg : RDecays (chainBoost T (fun q => r.restVector (g q))) → eps < r.boostVector.norm2)
    (hG : Guards (chainBoost T (fun q => r.restVector (g q))) r.vect (angleZxZGetx z x r.vect).x2)
    (hG' : Guards (chainBoost T (fun q => r.restVector (g q))) r.vect (angleZxZGetx z' x' r.vect).x2) :
    ∃ γ : ℝ, (stepR (shiftAlpha (angleZxZGetx z' x' r.vect).alpha bias') (angleZxZGetx z' x' r.vect).beta).mul U =
        (rotZ γ).mul (stepR (shiftAlpha (angleZxZGetx z x r.vect).alpha bias) (angleZxZGetx z x r.vect).beta) ∧
      AzShift γ (helicityAngle (chainBoost T (fun q => r.restVector (g q))) r.vect (angleZxZGetx z x r.vect).x2)
        (helicityAngle (chainBoost T (fun q => r.restVector (g q))) r.vect (angleZxZGetx z' x' r.vect).x2) := by
  obtain ⟨F, hbz, hY⟩ := top_frame z x hA.ok.1 hA.ok.2
  obtain ⟨F', hbz', hY'⟩ := top_frame z' x' hA.ok'.1 hA.ok'.2
  cases T with
  | leaf p0 =>
    rw [hbz] at hok ⊢
    rw [hbz'] at hok' ⊢
    obtain ⟨γ, hγ⟩ := vertex_compose _ _ _ _ _ _ F F' _ _ hA.ok.2 hA.ok'.2 x x' hY hY' U hA.su2 hA.change r hok hok'
      bias bias'
    exact ⟨γ, hγ, rfl⟩
  | node p0 T1 T2 =>
    have hreg' := hreg (by simp only [chainBoost, RDecays])
    simp only [chainBoost, Guards] at hG hG'
    obtain ⟨hP, o1, o2, _⟩ := hG
    obtain ⟨hP', _, _, _⟩ := hG'
    rw [hbz] at hok hP
    rw [hbz'] at hok' hP'
    obtain ⟨γ, hγ, h2⟩ := vertex_compose_level2 _ _ _ _ _ _ F F' _ _ hA.ok.2 hA.ok'.2 x x' hY hY' U hA.su2 hA.change
      r hok hok' bias bias' hreg' hP hP'
    rw [← hbz, ← hbz'] at hγ h2
    refine ⟨γ, hγ, ?_⟩
    obtain ⟨_, _, c1, s1⟩ := h2 (g T1.p) o1
    obtain ⟨_, _, c2, s2⟩ := h2 (g T2.p) o2
    simp only [chainBoost, helicityAngle, AzShift]
    refine ⟨trivial, rfl, rfl, rfl, rfl, ?_, ?_, ?_, ?_⟩
    · rw [(shiftAlpha_cos_sin _ _).1, c1, (shiftAlpha_sub_cos_sin _ _ γ).1]
    · rw [(shiftAlpha_cos_sin _ _).2, s1, (shiftAlpha_sub_cos_sin _ _ γ).2]
    · rw [(shiftAlpha_cos_sin _ _).1, c2, (shiftAlpha_sub_cos_sin _ _ γ).1]
    · rw [(shiftAlpha_cos_sin _ _).2, s2, (shiftAlpha_sub_cos_sin _ _ γ).2]


/-! ## (4) the density: `hcomp` of `C01b.density_rot_fixed_axes_partial` discharged -/

theorem rot3_split (α β γ : ℝ) : rot3 α β γ = (rot3 α β 0).mul (rotZ γ) := by
  unfold rot3
  rw [rotZ_zero, M2.mul_one]

/-- FULL: for a FIXED event the helicity-summed density of the amplitude model does not depend on the base axes
(`C01g.AxesIndependent` for `F` = `AmpR.density ∘ (chains built from the angle trees)`).

Proved part (any number of chains `κ`, parent spin `2j = N ≤ 8`, all remainders): write each chain tensor as
`A_k[a,f] = Σ_l D^{J*}(α_k, β_k, 0)[a,l] · B_k[l,f]`.  `hcomp` is now the statement PROVED by `top_angles_compose` for the
angles of the model (`r'_k · U = Rotation_z(γ_k) · r_k`), no longer a hypothesis about composed angles.
Missing, named `hB`: the remainder of chain `k` computed from the second choice of axes is `e^{−i l γ_k}` times the
remainder computed from the first — by `below_top_azimuth_shift` the ONLY difference between the two angle trees below
the top vertex is that the azimuths of the daughters' own vertices are lowered by that same `γ_k`; what is not proved is
the index structure of `DecayChain.get_amp` that turns this (together with the change of the alignment angles of final
particles that are direct daughters of the top particle) into the stated phase, up to a common unitary on the final
helicities — for half-integer spins this includes the bookkeeping of the `4π` range of `γ_k`. -/
theorem density_axes_independent_partial {ιF κ : Type} [Fintype ιF] [DecidableEq ιF] [Fintype κ]
    (N : ℕ) (hN : N ≤ 8) (U : M2) (hU : IsSU2 U) (α β α' β' γ : κ → ℝ)
    (B B' : κ → Fin (N + 1) → ιF → ℂ)
    (hcomp : ∀ k, (stepR (α' k) (β' k)).mul U = (rotZ (γ k)).mul (stepR (α k) (β k)))
    (hB : ∀ k l f, B' k l f = FrameAlg.phase N (-(γ k)) l * B k l f) :
    density (fun k (p : Fin (N + 1) × ιF) => ∑ l, DConj N (α' k) (β' k) 0 p.1 l * B' k l p.2)
      = density (fun k (p : Fin (N + 1) × ιF) => ∑ l, DConj N (α k) (β k) 0 p.1 l * B k l p.2) := by
  have hm := mirror_isSU2 U hU
  have he : rot3 (eulerOf (mirror U)).gamma (eulerOf (mirror U)).beta (eulerOf (mirror U)).alpha = mirror U := by
    rw [rot3_eq_ofEuler]; exact euler_roundtrip _ hm
  apply density_rot_fixed_axes_partial N hN (eulerOf (mirror U)).gamma (eulerOf (mirror U)).beta
    (eulerOf (mirror U)).alpha α β α' β' (fun k => -(γ k)) B B' _ hB
  intro k
  have hact := active_of_passive U hU _ _ _ _ _ (hcomp k)
  have hz : (rotZ (γ k)).mul (rotZ (-(γ k))) = M2.one := by
    rw [← rotZ_inv]; exact (su2_inv _ (det_rotZ _)).2
  rw [he, rot3_split (α' k) (β' k) (-(γ k)), hact, rot3_split (α k) (β k) (γ k), su2_mul_assoc, su2_mul_assoc, hz,
    M2.mul_one]

/-- … with the angles READ OFF THE MODEL: `κ` chains of one event (decay trees `T1 k`, `T2 k` of the two daughters of the top
particle, boosts `g k`), two admissible choices of base axes related by `U`; the top D-function of chain `k` is taken at
the angles `(alpha, beta)` that `helicityAngle` stores for `outs[0]`.  `hB` is asked only for a `γ` that satisfies the
vertex equation of chain `k` (which determines it up to `4π`). -/
theorem density_axes_independent_model_partial {ιF κ : Type} [Fintype ιF] [DecidableEq ιF] [Fintype κ]
    (N : ℕ) (hN : N ≤ 8) (U : M2) (z x z' x' : V3) (hA : AxesPair U z x z' x')
    (p : κ → V4) (T1 T2 : κ → PTree) (g : κ → V4 → V4)
    (hG : ∀ k, Guards (chainBoost (.node (p k) (T1 k) (T2 k)) (g k)) z x)
    (hG' : ∀ k, Guards (chainBoost (.node (p k) (T1 k) (T2 k)) (g k)) z' x')
    (B B' : κ → Fin (N + 1) → ιF → ℂ)
    (hB : ∀ k γ, (stepR (topAngles (helicityAngle (chainBoost (.node (p k) (T1 k) (T2 k)) (g k)) z' x')).1
          (topAngles (helicityAngle (chainBoost (.node (p k) (T1 k) (T2 k)) (g k)) z' x')).2.1).mul U =
        (rotZ γ).mul (stepR (topAngles (helicityAngle (chainBoost (.node (p k) (T1 k) (T2 k)) (g k)) z x)).1
          (topAngles (helicityAngle (chainBoost (.node (p k) (T1 k) (T2 k)) (g k)) z x)).2.1) →
      ∀ l f, B' k l f = FrameAlg.phase N (-γ) l * B k l f) :
    density (fun k (q : Fin (N + 1) × ιF) => ∑ l,
        DConj N (topAngles (helicityAngle (chainBoost (.node (p k) (T1 k) (T2 k)) (g k)) z' x')).1
          (topAngles (helicityAngle (chainBoost (.node (p k) (T1 k) (T2 k)) (g k)) z' x')).2.1 0 q.1 l * B' k l q.2)
      = density (fun k (q : Fin (N + 1) × ιF) => ∑ l,
        DConj N (topAngles (helicityAngle (chainBoost (.node (p k) (T1 k) (T2 k)) (g k)) z x)).1
          (topAngles (helicityAngle (chainBoost (.node (p k) (T1 k) (T2 k)) (g k)) z x)).2.1 0 q.1 l * B k l q.2) := by
  have h := fun k => (top_angles_compose U z x z' x' hA (p k) (T1 k) (T2 k) (g k) (hG k) (hG' k)).1
  choose γ hγ using h
  exact density_axes_independent_partial N hN U hA.su2 _ _ _ _ γ B B' hγ (fun k => hB k (γ k) (hγ k))

/-! ## non-vacuity -/

/-- identical axes, and axes that are rescaled / tilted inside the same half-plane, give `U = 1` -/
example (z x : V3) (h : TopOK z x) : AxesPair M2.one z x z x :=
  ⟨h, h, ⟨by simp [M2.one, Cx.one, Cx.conj], by ext <;> simp [M2.one, Cx.zero, Cx.conj, Cx.neg],
    by simp [M2.one, Cx.one, Cx.zero, Cx.normSq]⟩, fun q => (lor_one _).symm⟩

/-- the vertex equation is satisfiable with a NON-trivial `U` and `γ`: `U = Rotation_z(δ)` lowers every azimuth by `δ`
(`γ = 0`), and `U = 1` with `α' = α + ε`… is excluded — `γ` is determined by the angles -/
example (α β δ : ℝ) : (stepR (α - δ) β).mul (rotZ δ) = (rotZ 0).mul (stepR α β) := by
  rw [rotZ_zero, M2.one_mul]
  unfold stepR
  rw [su2_mul_assoc]
  congr 1
  simp only [rotZ_eq]
  have e : α / 2 = (α - δ) / 2 + δ / 2 := by ring
  rw [e, Real.cos_add, Real.sin_add]
  ext <;> simp [M2.mul, Cx.mul, Cx.add, Cx.zero] <;> ring

end TfPwaV.C01h
