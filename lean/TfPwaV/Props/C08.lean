import TfPwaV.Proofs.Fit
import TfPwaV.Proofs.FitR
/-!
# C08 — A returned fit result and the model state describe the same point

Theorems about `TfPwaV.Fit.fit`, the model of the bookkeeping of `tf_pwa.fit.fit_scipy` (all method branches),
`fit_newton_cg`, `fit_minuit_v2` and `except_result` around an **oracle** minimiser (`Model/Fit.lean`), for EVERY value
arithmetic `A`, EVERY state `s` satisfying the C16 invariant `Vars.Inv` (which C16 proves for every well-phased
configuration history), EVERY set of bounds and EVERY oracle (any finite list of evaluations, any answer of the right
length).  `Fix` flags: `false` = statements of the unchanged tree, `true` = after the proposed patches; the harness
observes the flags on the real code in every run.  `Matches` (Proofs/Fit.lean) bundles the clauses: the result lists
exactly what the model holds, bindings / free list / tie groups untouched, tied names read equal, parameters without a
free name keep their value, and the i-th free parameter holds the ANSWER `x[i]` mapped through its bound transform —
whatever was evaluated last.

The theorems are stated for `Fit.fitCore` — the body of `fit_scipy` for an ARBITRARY dict `bounds` handed to `set_bound`
and an ARBITRARY list `bd` handed to `standard_complex(bounded=…)`; `Fit.fit` is `fitCore` at the dict / list the tree
computes from `bounds_dict` (`Fit.regBounds`, `Fit.stdBoundedNames`: the argument itself and `[]` on the tree as it is), so
every statement here holds for `fit` in every variant.  The repaired variants of `standard_complex` / `set_bound`
(`Cfg.stdFree`, `Cfg.boundHead`, `Fix.stdBounded`) have their own theorems in `Props/C08c.lean`.

Not proved here (depends on the external minimiser, validated by the harness): `min_nll = NLL(params)`,
`min_nll ≤ NLL(start)`, bounds enforced by L-BFGS-B / Minuit limits.
-/
open TfPwaV.Vars TfPwaV.Fit

namespace TfPwaV.C08

variable {V : Type}

/-! ## BFGS / CG / Nelder-Mead / test -/

/-- **`result_matches_state`, quasi-Newton branch** (unchanged tree when the `OptimizeResult` has `hess_inv`, i.e. BFGS;
every method of the branch after `fix_fit_hess_inv_optional.diff`): for any evaluations and any answer, the fit returns
a result that matches the model state, the free parameters hold `x2y(answer)`, and `vm.bnd_dic` is empty again. -/
theorem result_matches_state_quasi (A : Arith V) (cfg : Cfg) (fx : Fix) (stdc : Bool) (s : State V)
    (bounds : Dict (Option V × Option V)) (bd : List Name) (o : Oracle V) (hi : Inv s) (hm : s.mask = [])
    (hx : o.x.length = s.trainable.length) (hab : o.abort = false) (hh : o.hasHessInv = true ∨ fx.hessOpt = true) :
    ∃ r, (fitCore A cfg fx .quasi stdc s bounds bd o).2 = .ok r ∧
      Matches A s (fitCore A cfg fx .quasi stdc s bounds bd o).1 r stdc (yOf A (setBound s bounds).bnd) o.x ∧
      (fitCore A cfg fx .quasi stdc s bounds bd o).1.bnd = [] := by
  obtain ⟨h1, h2, h3, h4, h5, h6⟩ := transWrite_facts A cfg s bounds o.evals o.x hi hm hx
  have hcond : (!o.hasHessInv && !fx.hessOpt) = false := by rcases hh with h | h <;> simp [h]
  simp only [fitCore, afterEvals, hab, hcond, evalOps, Bool.false_eq_true, if_false]
  generalize hs2 : (step A cfg (run A cfg (setBound s bounds) (List.map Eval.op o.evals)) (Op.setTransVar o.x)).1 = s2 at *
  have ht : (step A cfg s2 .removeBound).1.skel = s2.skel ∧ (step A cfg s2 .removeBound).1.heap = s2.heap ∧
      (step A cfg s2 .removeBound).1.mask = s2.mask ∧ (step A cfg s2 .removeBound).1.cplx = s2.cplx := ⟨rfl, rfl, rfl, rfl⟩
  obtain ⟨r, hr, hmch⟩ := finish_matches A cfg stdc s s2 _ o (yOf A (setBound s bounds).bnd) h1 h2 h3 h5 h6 ht bd
  refine ⟨r, hr, hmch, ?_⟩
  exact (finish_facts A cfg stdc _ o bd).2.2.1.1

/-- **Unchanged tree, CG / Nelder-Mead / `test`** (no `hess_inv` on the result): for every input the call raises
`AttributeError` after `set_trans_var`, returns no result, and leaves the bounds registered. -/
theorem quasi_without_hess_inv_raises (A : Arith V) (cfg : Cfg) (fx : Fix) (stdc : Bool) (s : State V)
    (bounds : Dict (Option V × Option V)) (bd : List Name) (o : Oracle V) (hab : o.abort = false) (hh : o.hasHessInv = false)
    (hf : fx.hessOpt = false) :
    (fitCore A cfg fx .quasi stdc s bounds bd o).2.exc = some "AttributeError" ∧
    (fitCore A cfg fx .quasi stdc s bounds bd o).1.bnd = (setBound s bounds).bnd := by
  simp only [fitCore, afterEvals, hab, hh, hf, evalOps, Bool.false_eq_true, if_false, Bool.not_false, Bool.and_self, if_true,
    Outcome.exc, true_and]
  have h1 := (step_setTransVar_BM A cfg (run A cfg (setBound s bounds) (List.map Eval.op o.evals)) o.x).1
  have h2 := (run_evals A cfg (setBound s bounds) o.evals).2.1.1
  exact h1.trans h2

/-- **`LargeNumberError` path** (`except_result`): a result is returned with `success = False` and the values the model
holds; bindings are untouched; the bounds stay registered on the unchanged tree and are removed after
`fix_fit_except_remove_bound.diff`. -/
theorem quasi_abort (A : Arith V) (cfg : Cfg) (fx : Fix) (stdc : Bool) (s : State V)
    (bounds : Dict (Option V × Option V)) (bd : List Name) (o : Oracle V) (hm : s.mask = []) (hab : o.abort = true) :
    let s' := (fitCore A cfg fx .quasi stdc s bounds bd o).1
    ∃ r, (fitCore A cfg fx .quasi stdc s bounds bd o).2 = .ok r ∧ r.success = false ∧ r.params = getAllDic A s' false ∧
      (∀ kv ∈ r.params, readN s' kv.1 = some kv.2) ∧ s'.vars = s.vars ∧ s'.trainable = s.trainable ∧
      (∀ n c, cellOf s n = some c → FixedCell s c → readN s' n = readN s n) ∧
      s'.bnd = (if fx.exceptRm then [] else (setBound s bounds).bnd) := by
  intro s'
  obtain ⟨h1, h2, h3, h4, h5⟩ := afterEvals_bounded A cfg s bounds o.evals
  have hs' : s' = (exceptResult A fx (run A cfg (setBound s bounds) (List.map Eval.op o.evals)) o).1 := by
    show (fitCore A cfg fx .quasi stdc s bounds bd o).1 = _
    simp only [fitCore, afterEvals, hab, evalOps, if_true]
  generalize hs1 : run A cfg (setBound s bounds) (List.map Eval.op o.evals) = s1 at *
  have hsk : s'.skel = s1.skel ∧ s'.heap = s1.heap ∧ s'.mask = s1.mask := by
    rw [hs']; unfold exceptResult; cases fx.exceptRm <;> exact ⟨rfl, rfl, rfl⟩
  have hcell : ∀ n, cellOf s' n = cellOf s n := fun n => cellOf_of_skel (hsk.1.trans h1) n
  obtain ⟨e1, e2, _, _⟩ := (skel_eq_iff _ _).1 (hsk.1.trans h1)
  refine ⟨⟨getAllDic A s' false, o.fval, s1.trainable.length, false⟩, ?_, rfl, rfl, ?_, e1, e2, ?_, ?_⟩
  · simp only [fitCore, afterEvals, hab, evalOps, if_true, hs1]
    rw [hs']; rfl
  · exact getAllDic_reads A s' (by rw [hsk.2.2, h3, hm]) false
  · intro n c hn hf
    have : readN s' n = readN s1 n := by unfold readN; rw [hcell, cellOf_of_skel h1, hsk.2.1]
    rw [this]
    exact (h5 c hf).read_eq n hn
  · rw [hs']; unfold exceptResult
    cases fx.exceptRm
    · simp only [Bool.false_eq_true, if_false]; exact h2
    · simp only [if_true]

/-! ## L-BFGS-B -/

/-- **Unchanged tree: `method="L-BFGS-B"` never returns a result** — after the minimisation `fcn.vm.set_var(xn)` raises
`AttributeError` for every input; the model is left at the last evaluated point. -/
theorem lbfgsb_unfixed_raises (A : Arith V) (cfg : Cfg) (fx : Fix) (stdc : Bool) (s : State V)
    (bounds : Dict (Option V × Option V)) (bd : List Name) (o : Oracle V) (hab : o.abort = false) (hf : fx.lbfgsb = false) :
    (fitCore A cfg fx .lbfgsb stdc s bounds bd o).2.exc = some "AttributeError" ∧
    (fitCore A cfg fx .lbfgsb stdc s bounds bd o).1 = run A cfg s (evalOps o) := by
  simp only [fitCore, afterEvals, hab, hf, Bool.false_eq_true, if_false, Bool.not_false, if_true, Outcome.exc, and_self]

/-- **`result_matches_state`, L-BFGS-B after `fix_fit_lbfgsb_set_all.diff`**: the model holds the answer itself (the
bounds are enforced by the external minimiser, not by a transform), the result matches, `bnd_dic` is as before. -/
theorem result_matches_state_lbfgsb (A : Arith V) (cfg : Cfg) (fx : Fix) (stdc : Bool) (s : State V)
    (bounds : Dict (Option V × Option V)) (bd : List Name) (o : Oracle V) (hi : Inv s) (hm : s.mask = [])
    (hab : o.abort = false) (hf : fx.lbfgsb = true) :
    ∃ r, (fitCore A cfg fx .lbfgsb stdc s bounds bd o).2 = .ok r ∧
      Matches A s (fitCore A cfg fx .lbfgsb stdc s bounds bd o).1 r stdc (fun _ x => x) o.x ∧
      (fitCore A cfg fx .lbfgsb stdc s bounds bd o).1.bnd = s.bnd := by
  obtain ⟨h1, h2, h3, h4, h5, h6⟩ := rawWrite_facts A cfg s o.evals o.x hi hm
  simp only [fitCore, afterEvals, hab, hf, evalOps, Bool.false_eq_true, if_false, Bool.not_true]
  generalize hs2 : (step A cfg (run A cfg s (List.map Eval.op o.evals)) (Op.setAllList o.x false)).1 = s2 at *
  obtain ⟨r, hr, hmch⟩ := finish_matches A cfg stdc s s2 s2 o (fun _ x => x) h1 h2 h3 h5 h6 ⟨rfl, rfl, rfl, rfl⟩ bd
  refine ⟨r, hr, hmch, ?_⟩
  rw [(finish_facts A cfg stdc s2 o bd).2.2.1.1, h4]

/-! ## Newton-CG / trust-* (`fit_newton_cg`) -/

/-- **`result_matches_state`, Newton branch** (both variants): the result matches the model state and the free
parameters hold `x2y(answer)` — all clauses without exception, because `fit_newton_cg` does not call
`standard_complex`; `vm.bnd_dic` is empty again only after `fix_fit_newton_remove_bound.diff`, on the unchanged tree
it still holds the bounds. -/
theorem result_matches_state_newton (A : Arith V) (cfg : Cfg) (fx : Fix) (stdc : Bool) (s : State V)
    (bounds : Dict (Option V × Option V)) (bd : List Name) (o : Oracle V) (hi : Inv s) (hm : s.mask = [])
    (hx : o.x.length = s.trainable.length) :
    ∃ r, (fitCore A cfg fx .newton stdc s bounds bd o).2 = .ok r ∧
      Matches A s (fitCore A cfg fx .newton stdc s bounds bd o).1 r false (yOf A (setBound s bounds).bnd) o.x ∧
      (fitCore A cfg fx .newton stdc s bounds bd o).1.bnd = (if fx.newtonRm then [] else (setBound s bounds).bnd) := by
  obtain ⟨h1, h2, h3, h4, h5, h6⟩ := transWrite_facts A cfg s bounds o.evals o.x hi hm hx
  simp only [fitCore, afterEvals, evalOps]
  generalize hs2 : (step A cfg (run A cfg (setBound s bounds) (List.map Eval.op o.evals)) (Op.setTransVar o.x)).1 = s2 at *
  cases hn : fx.newtonRm
  · simp only [Bool.false_eq_true, if_false]
    obtain ⟨r, hr, hmch⟩ := finish_matches A cfg false s s2 s2 o (yOf A (setBound s bounds).bnd) h1 h2 h3 h5 h6 ⟨rfl, rfl, rfl, rfl⟩ bd
    exact ⟨r, hr, hmch, h4⟩
  · simp only [if_true]
    have ht : (step A cfg s2 .removeBound).1.skel = s2.skel ∧ (step A cfg s2 .removeBound).1.heap = s2.heap ∧
        (step A cfg s2 .removeBound).1.mask = s2.mask ∧ (step A cfg s2 .removeBound).1.cplx = s2.cplx := ⟨rfl, rfl, rfl, rfl⟩
    obtain ⟨r, hr, hmch⟩ := finish_matches A cfg false s s2 _ o (yOf A (setBound s bounds).bnd) h1 h2 h3 h5 h6 ht bd
    exact ⟨r, hr, hmch, rfl⟩

/-! ## iminuit (`fit_minuit_v2` through `fit_scipy(method="iminuit")`) -/

/-- **iminuit, both variants — what always holds**: the result lists the free parameters with `m.values`
(`dict(zip(var_names, m.values))`), bindings and registered bounds are untouched, parameters without a free name keep
their value. -/
theorem minuit_partial (A : Arith V) (cfg : Cfg) (fx : Fix) (stdc : Bool) (s : State V)
    (bounds : Dict (Option V × Option V)) (bd : List Name) (o : Oracle V) (hi : Inv s) (hm : s.mask = []) :
    let s' := (fitCore A cfg fx .minuit stdc s bounds bd o).1
    (fitCore A cfg fx .minuit stdc s bounds bd o).2.result =
      some ⟨s.trainable.zip o.x, o.fval, s.trainable.length, o.success⟩ ∧
    s'.vars = s.vars ∧ s'.trainable = s.trainable ∧ s'.same = s.same ∧ s'.bnd = s.bnd ∧
    (∀ a b, cellOf s a = cellOf s b → readN s' a = readN s' b) ∧
    (∀ n c, cellOf s n = some c → FixedCell s c → readN s' n = readN s n) := by
  intro s'
  obtain ⟨h1, h2, h3, h4, h5⟩ := afterEvals_plain A cfg s o.evals
  obtain ⟨g1, g2, g3, g4, g5, g6⟩ := rawWrite_facts A cfg s o.evals o.x hi hm
  have key : s'.skel = s.skel ∧ s'.bnd = s.bnd ∧ ∀ c, FixedCell s c → HF c s s' := by
    show (fitCore A cfg fx .minuit stdc s bounds bd o).1.skel = s.skel ∧ (fitCore A cfg fx .minuit stdc s bounds bd o).1.bnd = s.bnd ∧
      ∀ c, FixedCell s c → HF c s (fitCore A cfg fx .minuit stdc s bounds bd o).1
    simp only [fitCore, afterEvals, evalOps]
    cases fx.minuitSet
    · exact ⟨h1, h2, h5⟩
    · exact ⟨g1, g4, g5⟩
  obtain ⟨e1, e2, e3, _⟩ := (skel_eq_iff _ _).1 key.1
  refine ⟨?_, e1, e2, e3, key.2.1, ?_, ?_⟩
  · simp only [fitCore, Outcome.result]
  · intro a b hab
    apply read_eq_of_cell_eq
    rw [cellOf_of_skel key.1, cellOf_of_skel key.1]; exact hab
  · intro n c hn hf
    exact (key.2.2 c hf).read_eq n hn

/-- **`result_matches_state`, iminuit after `fix_fit_minuit_model_state.diff`**: every listed (free) parameter is held by
the model with exactly the listed value `m.values[i]`. -/
theorem result_matches_state_minuit (A : Arith V) (cfg : Cfg) (fx : Fix) (stdc : Bool) (s : State V)
    (bounds : Dict (Option V × Option V)) (bd : List Name) (o : Oracle V) (hi : Inv s) (hm : s.mask = []) (hf : fx.minuitSet = true) :
    ∃ r, (fitCore A cfg fx .minuit stdc s bounds bd o).2 = .ok r ∧ r.params = s.trainable.zip o.x ∧
      ∀ kv ∈ r.params, readN (fitCore A cfg fx .minuit stdc s bounds bd o).1 kv.1 = some kv.2 := by
  obtain ⟨g1, g2, g3, g4, g5, g6⟩ := rawWrite_facts A cfg s o.evals o.x hi hm
  refine ⟨⟨s.trainable.zip o.x, o.fval, s.trainable.length, o.success⟩, ?_, rfl, ?_⟩
  · simp only [fitCore]
  · intro kv hkv
    simp only [fitCore, afterEvals, evalOps, hf, if_true]
    exact g6 kv hkv

/-- **Unchanged tree, iminuit: the statement is false** — the model keeps the LAST EVALUATED point, not `m.values`.
Witness: one free parameter `a`, the minimiser evaluates at 7 and answers 5: the result lists `a = 5`, the model holds 7. -/
theorem minuit_unfixed_state_is_last_evaluation :
    let s := run arithN ⟨true, true, false, false⟩ (State.empty 0 true) [.addReal "a" 1 true true, .addReal "b" 2 true false]
    let o : Oracle Nat := ⟨[.raw [7]], false, [5], 0, true, false⟩
    let r := fit arithN ⟨true, true, false, false⟩ ⟨false, false, false, false, false, false⟩ .minuit true s [] o
    (r.2.result.map (·.params)) = some [("a", 5)] ∧ readN r.1 "a" = some 7 := by
  decide +kernel

/-- the same input after the patch: the model holds 5 -/
theorem minuit_fixed_state_is_answer :
    let s := run arithN ⟨true, true, false, false⟩ (State.empty 0 true) [.addReal "a" 1 true true, .addReal "b" 2 true false]
    let o : Oracle Nat := ⟨[.raw [7]], false, [5], 0, true, false⟩
    let r := fit arithN ⟨true, true, false, false⟩ ⟨false, false, false, true, false, false⟩ .minuit true s [] o
    (r.2.result.map (·.params)) = some [("a", 5)] ∧ readN r.1 "a" = some 5 := by
  decide +kernel

/-! ## unknown method -/

theorem unknown_method_raises (A : Arith V) (cfg : Cfg) (fx : Fix) (stdc : Bool) (s : State V)
    (bounds : Dict (Option V × Option V)) (bd : List Name) (o : Oracle V) :
    (fitCore A cfg fx .unknown stdc s bounds bd o).1 = s ∧ (fitCore A cfg fx .unknown stdc s bounds bd o).2.exc = some "Exception" :=
  ⟨rfl, rfl⟩

/-! ## closed witnesses for the unchanged tree -/

/-- a small reachable state: `a` free and bounded by the fit, `b` fixed, `c` free and tied to `d` -/
def demo : State Nat :=
  run arithN ⟨true, true, false, false⟩ (State.empty 0 true)
    [.addReal "a" 1 true true, .addReal "b" 2 true false, .addReal "c" 3 true true, .addReal "d" 3 true true,
     .setSame ["c", "d"] false]

def demoBounds : Dict (Option Nat × Option Nat) := [("a", (some 0, some 500))]

/-- **Unchanged tree, Newton branch: `bnd_dic` is NOT empty after the fit returns**, and `vm.get("a")` (which applies
`y2x` while the bound is registered) no longer returns the stored value. -/
theorem newton_unfixed_leaves_bounds :
    let o : Oracle Nat := ⟨[.trans [9, 9]], false, [5, 6], 0, true, false⟩
    let r := fit arithN ⟨true, true, false, false⟩ ⟨false, false, false, false, false, false⟩ .newton true demo demoBounds o
    dkeys r.1.bnd = ["a"] ∧ readN r.1 "a" = some 105 ∧ getV arithN r.1 "a" true = some 5 ∧
      readN r.1 "c" = some 6 ∧ readN r.1 "d" = some 6 ∧ readN r.1 "b" = some 2 := by
  decide +kernel

/-- the same input after `fix_fit_newton_remove_bound.diff` -/
theorem newton_fixed_clears_bounds :
    let o : Oracle Nat := ⟨[.trans [9, 9]], false, [5, 6], 0, true, false⟩
    let r := fit arithN ⟨true, true, false, false⟩ ⟨false, true, false, false, false, false⟩ .newton true demo demoBounds o
    r.1.bnd = [] ∧ readN r.1 "a" = some 105 ∧ getV arithN r.1 "a" true = some 105 := by
  decide +kernel

/-- **Unchanged tree, CG: raises with the bounds registered** (concrete instance of `quasi_without_hess_inv_raises`) -/
theorem cg_unfixed_raises_with_bounds :
    let o : Oracle Nat := ⟨[], false, [5, 6], 0, true, false⟩
    let r := fit arithN ⟨true, true, false, false⟩ ⟨false, false, false, false, false, false⟩ .quasi true demo demoBounds o
    r.2.exc = some "AttributeError" ∧ dkeys r.1.bnd = ["a"] := by
  decide +kernel

/-- **Unchanged tree, `LargeNumberError`: the result is returned with the bounds still registered** -/
theorem abort_unfixed_leaves_bounds :
    let o : Oracle Nat := ⟨[.trans [9, 9]], true, [], 0, false, true⟩
    let r := fit arithN ⟨true, true, false, false⟩ ⟨false, false, false, false, false, false⟩ .quasi true demo demoBounds o
    (r.2.result.map (·.success)) = some false ∧ dkeys r.1.bnd = ["a"] := by
  decide +kernel

/-! ### why the clauses about fixed and bounded values exclude components of complex parameters -/

/-- FULL: `Matches.fixed` and `Matches.answer` without the hypothesis `stdc = true → NotCplxPart s c`.  That statement is
false for the code: `fit_scipy` calls `standard_complex` after `remove_bound`, which rewrites polar components whether
they are fixed or were bounded.  The two theorems below are the witnesses (toy integer arithmetic `arithZ`). -/
def polarDemo : State Int :=
  run arithZ ⟨true, true, false, false⟩ (State.empty 0 true)
    [.addReal "a" 1 true true, .addComplex "z" (some true) true 1 4, .addComplex "w" (some true) false (-1) 4]

/-- **Finding: a FIXED polar parameter is rewritten by the fit** — `w = (-1, 4)` fixed; after a BFGS-branch fit the
model holds `w = (1, 1)` (|r|, phase + pi wrapped): same complex number, different stored "fixed" values. -/
theorem standard_complex_moves_fixed_polar :
    let o : Oracle Int := ⟨[], false, [5, 2, 1], 0, true, true⟩
    let r := fit arithZ ⟨true, true, false, false⟩ ⟨false, false, false, false, false, false⟩ .quasi true polarDemo [] o
    readN polarDemo "wr" = some (-1) ∧ readN polarDemo "wi" = some 4 ∧ readN r.1 "wr" = some 1 ∧ readN r.1 "wi" = some 1 ∧
      FixedCell polarDemo 3 ∧ cellOf polarDemo "wr" = some 3 := by
  refine ⟨by decide +kernel, by decide +kernel, by decide +kernel, by decide +kernel, ?_, by decide +kernel⟩
  unfold FixedCell; decide +kernel

/-- **Finding: a BOUNDED phase does not keep the value `x2y(answer)`** — the phase `zi` is bounded, the answer maps to
`x2y(1) = 101` (inside the bounds by construction), but the model holds the wrapped `95`: `standard_complex` ran after
`remove_bound`, so its own test for registered bounds saw none. -/
theorem standard_complex_ignores_removed_bounds :
    let o : Oracle Int := ⟨[], false, [5, 2, 1], 0, true, true⟩
    let b : Dict (Option Int × Option Int) := [("zi", (some 100, some 200))]
    let r := fit arithZ ⟨true, true, false, false⟩ ⟨false, false, false, false, false, false⟩ .quasi true polarDemo b o
    polarDemo.trainable = ["a", "zr", "zi"] ∧ yOf arithZ (setBound polarDemo b).bnd "zi" 1 = 101 ∧
      readN r.1 "zi" = some 95 ∧ r.1.bnd = [] := by
  decide +kernel

/-- with the polar standardisation switched off (`standard_complex=False`) the same fit stores `x2y(answer)` -/
theorem without_standard_complex_bounded_phase_kept :
    let o : Oracle Int := ⟨[], false, [5, 2, 1], 0, true, true⟩
    let b : Dict (Option Int × Option Int) := [("zi", (some 100, some 200))]
    let r := fit arithZ ⟨true, true, false, false⟩ ⟨false, false, false, false, false, false⟩ .quasi false polarDemo b o
    readN r.1 "zi" = some 101 ∧ readN r.1 "wr" = some (-1) := by
  decide +kernel

-- non-vacuity of the hypotheses of the `result_matches_state_*` theorems: `demo` satisfies the invariant, has no mask,
-- two free parameters (one of them tied to a third name), and a fixed one
example : Inv demo ∧ demo.mask = [] ∧ demo.trainable = ["a", "c"] ∧ cellOf demo "c" = cellOf demo "d" ∧
    FixedCell demo 1 ∧ cellOf demo "b" = some 1 := by
  refine ⟨⟨by decide +kernel, by decide +kernel, ?_, by decide +kernel⟩, rfl, by decide +kernel, by decide +kernel,
    by unfold FixedCell; decide +kernel, by decide +kernel⟩
  intro n c h
  have : demo.vars = [("a", 0), ("b", 1), ("c", 2), ("d", 2)] := by decide +kernel
  have hn : demo.next = 4 := by decide +kernel
  rw [this] at h
  rw [hn]
  simp only [dget] at h
  repeat (split at h; · (injection h with h; omega))
  simp at h

example : (⟨[.trans [9, 9]], false, [5, 6], 0, true, true⟩ : Oracle Nat).x.length = demo.trainable.length := by decide +kernel

/-! ## bounded parameters lie inside their bounds (ℝ) -/

/-- **Inside the bounds**: for the real-number arithmetic with the library's bound transforms (any `A : Arith ℝ` with
`A.x2y = BoundR.x2y`), the value the quasi-Newton / Newton branches store for a bounded free parameter — `yOf` of the
answer, see `Matches.answer` — satisfies `lo ≤ value ≤ hi` for EVERY answer `x` of the minimiser. -/
theorem bounded_inside (A : Arith ℝ) (hA : A.x2y = BoundR.x2y) (bnd : Dict (Option ℝ × Option ℝ)) (n : Name)
    (lo hi : Option ℝ) (hb : dget bnd n = some (lo, hi)) (h : ∀ a b, lo = some a → hi = some b → a ≤ b) (x : ℝ) :
    (∀ a, lo = some a → a ≤ yOf A bnd n x) ∧ (∀ b, hi = some b → yOf A bnd n x ≤ b) :=
  yOf_inside A hA bnd n lo hi hb h x

example : ∀ a b : ℝ, (some (1 : ℝ)) = some a → (some (2 : ℝ)) = some b → a ≤ b := by
  intro a b ha hb; simp only [Option.some.injEq] at ha hb; subst ha; subst hb; norm_num

/-! ## save / load -/

/-- **`save_load_roundtrip`**: let `s'` be the fitted model and `r` a result whose listed values are what `s'` holds
(`Matches.params_read`, or `result_matches_state_minuit` for the free-names-only result of iminuit).  Loading the saved
map into a fresh model `s0` with the same bindings (`set_params(file)`: neglected names dropped, then `vm.set_all`)
reproduces EVERY stored value of `s'`, provided `s0` already agrees with `s'` on the parameters that are neither listed
nor tied to a listed one (fixed parameters of the same configuration, `_neglect_when_set_params`). -/
theorem save_load_roundtrip (A : Arith V) (s' s0 : State V) (r : FitResult V) (neglect : List Name)
    (hv : s0.vars = s'.vars) (hr : ∀ kv ∈ r.params, readN s' kv.1 = some kv.2)
    (hrest : ∀ n, (∀ kv ∈ (saved r).filter (fun kv => !(neglect.contains kv.1)), cellOf s' kv.1 ≠ cellOf s' n) →
      readN s0 n = readN s' n) :
    ∀ n, readN (loadInto A s0 (saved r) neglect) n = readN s' n := by
  unfold loadInto
  apply load_reads A s' s0 _ hv
  · intro kv hkv
    exact hr kv (List.mem_filter.1 hkv).1
  · exact hrest

/-- reading everything back after the load gives the saved map again (full result, nothing neglected, fresh model
with the same bindings and no mask) -/
theorem save_load_same_params (A : Arith V) (s' s0 : State V) (r : FitResult V)
    (hv : s0.vars = s'.vars) (hm : s0.mask = []) (hm' : s'.mask = []) (hp : r.params = getAllDic A s' false) :
    getAllDic A (loadInto A s0 (saved r) []) false = r.params := by
  have hreads : ∀ n, readN (loadInto A s0 (saved r) []) n = readN s' n := by
    apply save_load_roundtrip A s' s0 r [] hv
    · rw [hp]; exact getAllDic_reads A s' hm' false
    · intro n hn
      -- every name of the model is listed, so the premise is contradictory for bound names and trivial otherwise
      cases hc : cellOf s' n with
      | none =>
        unfold readN; rw [hc]
        have : cellOf s0 n = none := by unfold cellOf; rw [hv]; exact hc
        rw [this]; rfl
      | some c =>
        exfalso
        have hmem : n ∈ dkeys s'.vars := dkeys_mem_of_dget s'.vars n c hc
        have hin : (n, (s'.heap c).val) ∈ (saved r).filter (fun kv => !(([] : List Name).contains kv.1)) := by
          simp only [List.contains_nil, Bool.not_false, List.filter_true, saved]
          rw [hp]
          unfold getAllDic
          simp only [Bool.false_eq_true, if_false, List.mem_filterMap]
          refine ⟨n, hmem, ?_⟩
          unfold readMasked
          rw [hc, hm']
          simp [dget]
        exact hn _ hin rfl
  have hvars : (loadInto A s0 (saved r) []).vars = s'.vars := by
    unfold loadInto
    have := (skel_eq_iff _ _).1 (setAllDict_skel A s0 ((saved r).filter fun kv => !(([] : List Name).contains kv.1)) false)
    rw [this.1, hv]
  have hmask : (loadInto A s0 (saved r) []).mask = [] := by
    unfold loadInto
    rw [(BM_setAllDict A s0 _ false).2, hm]
  rw [hp]
  unfold getAllDic
  simp only [Bool.false_eq_true, if_false, hvars]
  apply List.filterMap_congr
  intro n _
  have h1 := hreads n
  unfold readMasked
  unfold readN at h1
  rw [hmask, hm']
  simp only [dget]
  cases hc1 : cellOf (loadInto A s0 (saved r) []) n <;> cases hc2 : cellOf s' n <;> rw [hc1, hc2] at h1 <;> simp_all

end TfPwaV.C08
