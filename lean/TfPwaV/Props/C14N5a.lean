import TfPwaV.Props.C14
/-! C14, n = 5 (105 chains), part a: kernel evaluation of the whole enumeration — every chain is a binary tree on the
given finals, and its `topology_id` is the sorted grouping set of the tree of `enumeration_pairwise_distinct`. -/
namespace TfPwaV.C14
open TfPwaV.Topology

theorem enumTrees_5_partial : enumTreesOK 5 = true := by decide +kernel

theorem topology_id_link_5_partial : linkSpec 5 = true := by decide +kernel

end TfPwaV.C14
