import TfPwaV.Proofs.SU2
/-!
# C12 (SU(2) clause) — `SU2M` algebra and Euler-angle extraction

Theorems over ℝ about `TfPwaV.SU2R`, the ℝ-instance of `templates/SU2.lean.in` (a transcription of
`tf_pwa.angle.SU2M`); the Float instance of the same text is compared with the real class on every run.
-/
open TfPwaV.ScalarR
namespace TfPwaV.C12
open TfPwaV.SU2R

/-- `SU2M.__mul__` is associative (all 2×2 complex matrices). -/
theorem su2_mul_assoc (a b c : M2) : (a.mul b).mul c = a.mul (b.mul c) := by
  ext <;> simp [M2.mul, Cx.mul, Cx.add] <;> ring

/-- determinants multiply -/
theorem su2_det_mul (a b : M2) : (a.mul b).det = a.det.mul b.det := by
  ext <;> simp [M2.mul, M2.det, Cx.mul, Cx.add, Cx.neg] <;> ring

/-- `SU2M.inv` is the two-sided inverse of every matrix of determinant one (SU(2) and SL(2,ℂ)). -/
theorem su2_inv (a : M2) (h : a.det = Cx.one) : a.inv.mul a = M2.one ∧ a.mul a.inv = M2.one := by
  have hr := congrArg Cx.re h
  have hi := congrArg Cx.im h
  simp only [M2.det, Cx.mul, Cx.add, Cx.neg, Cx.one] at hr hi
  constructor <;>
  · ext <;> simp [M2.mul, M2.inv, M2.one, Cx.mul, Cx.add, Cx.neg, Cx.one, Cx.zero] <;> linarith

theorem det_rotZ (α : ℝ) : (rotZ α).det = Cx.one := by
  have h : Real.cos (α / 2) * Real.cos (α / 2) + Real.sin (α / 2) * Real.sin (α / 2) = 1 := by
    have := Real.sin_sq_add_cos_sq (α / 2); nlinarith
  rw [rotZ_eq]
  ext <;> simp [M2.det, Cx.mul, Cx.add, Cx.neg, Cx.one, Cx.zero]
  · linarith
  · ring

theorem det_rotY (β : ℝ) : (rotY β).det = Cx.one := by
  have h : Real.cos (β / 2) * Real.cos (β / 2) + Real.sin (β / 2) * Real.sin (β / 2) = 1 := by
    have := Real.sin_sq_add_cos_sq (β / 2); nlinarith
  unfold rotY ksin kcos
  ext <;> simp [M2.det, Cx.mul, Cx.add, Cx.neg, Cx.one]
  linarith

theorem det_boostZ (ω : ℝ) : (boostZ ω).det = Cx.one := by
  have h : Real.exp (ω / 2) ≠ 0 := Real.exp_ne_zero _
  unfold boostZ kexp
  ext <;> simp [M2.det, Cx.mul, Cx.add, Cx.neg, Cx.one, Cx.zero, Cx.inv, Cx.normSq]

/-- membership in SU(2) in the pair representation: `[[a, -conj b], [b, conj a]]`, `|a|² + |b|² = 1` -/
def IsSU2 (x : M2) : Prop :=
  x.x11 = x.x00.conj ∧ x.x01 = x.x10.conj.neg ∧ x.x00.normSq + x.x10.normSq = 1

/-- **Euler-angle extraction reproduces the rotation, for every element of SU(2)** — including the
degenerate cases β = 0 (`x10 = 0`) and β = π (`x11 = 0`) where `angle(0) = 0`:
`Rz(γ)·Ry(β)·Rz(α) = U` exactly (same sheet of the double cover) for `(α,β,γ) = get_euler_angle(U)`. -/
theorem euler_roundtrip (x : M2) (h : IsSU2 x) : ofEuler (eulerOf x) = x := by
  obtain ⟨h11, h01, hn⟩ := h
  obtain ⟨⟨ar, ai⟩, x01, ⟨br, bi⟩, x11⟩ := x
  simp only at h11 h01 hn
  subst h11 h01
  simp only [Cx.normSq] at hn
  -- cos β = |a|² - |b|², already in [-1, 1]
  set t := ar * ar + ai * ai - (br * br + bi * bi) with ht
  have ht1 : -1 ≤ t := by nlinarith [mul_self_nonneg ar, mul_self_nonneg ai]
  have ht2 : t ≤ 1 := by nlinarith [mul_self_nonneg br, mul_self_nonneg bi]
  have hcb : clip1 t = t := by
    unfold clip1
    rw [if_neg (by linarith), if_neg (by linarith)]
  have hβ0 := Real.arccos_nonneg t
  have hβπ := Real.arccos_le_pi t
  have hcos : Real.cos (Real.arccos t / 2) = Real.sqrt (ar * ar + ai * ai) := by
    rw [Real.cos_half (by linarith [Real.pi_pos]) hβπ, Real.cos_arccos ht1 ht2]
    congr 1; rw [ht]; linarith
  have hsin : Real.sin (Real.arccos t / 2) = Real.sqrt (br * br + bi * bi) := by
    rw [Real.sin_half_eq_sqrt hβ0 (by linarith [Real.pi_pos]), Real.cos_arccos ht1 ht2]
    congr 1; rw [ht]; linarith
  -- |z| (cos arg z, sin arg z) = z for z = conj a and z = b
  have na : ‖(⟨ar, -ai⟩ : ℂ)‖ = Real.sqrt (ar * ar + ai * ai) := by
    rw [Complex.norm_def, Complex.normSq_mk]; congr 1; ring
  have nb : ‖(⟨br, bi⟩ : ℂ)‖ = Real.sqrt (br * br + bi * bi) := by
    rw [Complex.norm_def, Complex.normSq_mk]
  have ca := Complex.norm_mul_cos_arg (⟨ar, -ai⟩ : ℂ)
  have sa := Complex.norm_mul_sin_arg (⟨ar, -ai⟩ : ℂ)
  have cb := Complex.norm_mul_cos_arg (⟨br, bi⟩ : ℂ)
  have sb := Complex.norm_mul_sin_arg (⟨br, bi⟩ : ℂ)
  rw [na] at ca sa
  rw [nb] at cb sb
  simp only at ca sa cb sb
  -- the extracted angles
  have hE : eulerOf ⟨⟨ar, ai⟩, (Cx.conj ⟨br, bi⟩).neg, ⟨br, bi⟩, Cx.conj ⟨ar, ai⟩⟩ =
      ⟨Complex.arg ⟨ar, -ai⟩ + -Complex.arg ⟨br, bi⟩, Real.arccos t,
       Complex.arg ⟨ar, -ai⟩ - -Complex.arg ⟨br, bi⟩⟩ := by
    unfold eulerOf
    simp only [Cx.angle, katan2, kacos, Cx.conj, Cx.neg, Cx.mul, Cx.add]
    have : ar * ar - ai * -ai + (-br * br - - -bi * bi) = t := by rw [ht]; ring
    rw [this, hcb]
  rw [hE, ofEuler_eq]
  have e1 : (Complex.arg ⟨ar, -ai⟩ + -Complex.arg ⟨br, bi⟩ + (Complex.arg ⟨ar, -ai⟩ - -Complex.arg ⟨br, bi⟩)) / 2
      = Complex.arg ⟨ar, -ai⟩ := by ring
  have e2 : (Complex.arg ⟨ar, -ai⟩ + -Complex.arg ⟨br, bi⟩ - (Complex.arg ⟨ar, -ai⟩ - -Complex.arg ⟨br, bi⟩)) / 2
      = -Complex.arg ⟨br, bi⟩ := by ring
  rw [e1, e2, hcos, hsin, Real.cos_neg, Real.sin_neg]
  ext <;> simp only [Cx.conj, Cx.neg] <;> linarith

/-- non-vacuity: every product of the code's rotations is in SU(2) in the sense of `IsSU2`; e.g. `Rz(γ)Ry(β)Rz(α)` -/
theorem ofEuler_isSU2 (α β γ : ℝ) : IsSU2 (ofEuler ⟨α, β, γ⟩) := by
  have h1 := Real.sin_sq_add_cos_sq (β / 2)
  have h2 := Real.sin_sq_add_cos_sq ((α + γ) / 2)
  have h3 := Real.sin_sq_add_cos_sq ((α - γ) / 2)
  rw [ofEuler_eq]
  refine ⟨by simp [Cx.conj], by simp [Cx.conj, Cx.neg], ?_⟩
  simp only [Cx.normSq]
  nlinarith [h1, h2, h3, mul_self_nonneg (Real.sin (β / 2)), mul_self_nonneg (Real.cos (β / 2))]

/-- Consequently extraction followed by reconstruction is idempotent on Euler triples:
the angles returned for `Rz(γ)Ry(β)Rz(α)` rebuild the same matrix, for ALL real α, β, γ. -/
theorem euler_of_euler (α β γ : ℝ) : ofEuler (eulerOf (ofEuler ⟨α, β, γ⟩)) = ofEuler ⟨α, β, γ⟩ :=
  euler_roundtrip _ (ofEuler_isSU2 α β γ)

end TfPwaV.C12
