import TfPwaV.Proofs.Deriv
/-!
# C07 — Returned gradients and Hessians are the true derivatives of the returned NLL

Theorems over ℝ about `TfPwaV.DerivR`, the ℝ-instance of `templates/Deriv.lean.in` (the *same text* is instantiated at
Float and compared on every run with `nll_grad_batch / grad_hessp_batch / nll_grad_hessian` of every likelihood
model, the bound wrappers, `GaussianConstr`, `FCN`, `CombineFCN`, fed with what the library's own tapes return).

Form of the statements: parameters move along an arbitrary line `θ(s) = θ₀ + s·p`.  What the tapes return (`ln_data`,
`int_mc`, … and their gradients / Hessians) enters as HYPOTHESES `HasDerivAt … (∑ k, g k * p k) t`; the conclusion is
that the numbers ASSEMBLED by the code are the derivative (`HasDerivAt`, which is unique) of the ASSEMBLED value along
that line.  First derivatives for every `p` determine the gradient; `qᵀ H p` for every `p, q` determines the Hessian.
TensorFlow's autodiff itself is not verified here (finite differences on the implementation cover it).
-/
open TfPwaV.ScalarR
namespace TfPwaV.C07
open TfPwaV.DerivR

/-! ## default / extended likelihood (`BaseModel`, model.py:407-561) -/

/-- `nll_grad_batch` / `nll_grad` / `nll_grad_hessian`: the returned gradient is the gradient of the returned value
`-ln_data + sw·int_f(int_mc)`: its derivative along every line is `g·p`. -/
theorem grad_is_deriv (ext : Bool) {n : Nat} (L I : ℝ → ℝ) (gLn gInt p : Fin n → ℝ) (sw t : ℝ)
    (hL : HasDerivAt L (∑ k, gLn k * p k) t) (hI : HasDerivAt I (∑ k, gInt k * p k) t)
    (h0 : ext = false → I t ≠ 0) :
    HasDerivAt (fun s => nllVal ext (L s) sw (I s))
      (dot (nllGrad ext (List.ofFn gLn) (List.ofFn gInt) sw (I t)) (List.ofFn p)) t := by
  rw [nllGrad_ofFn, dot_ofFn]
  have e : ∑ k, (-gLn k + sw * gInt k * intG ext (I t)) * p k
      = -(∑ k, gLn k * p k) + sw * ((∑ k, gInt k * p k) * intG ext (I t)) := by
    have h : ∀ k, (-gLn k + sw * gInt k * intG ext (I t)) * p k
        = (-1) * (gLn k * p k) + (sw * intG ext (I t)) * (gInt k * p k) := fun k => by ring
    rw [Finset.sum_congr rfl (fun k _ => h k), sum_lin2]
    ring
  rw [e]
  cases ext with
  | true =>
    simp only [nllVal, intF, intG, if_true, mul_one]
    exact hL.neg.add (hI.const_mul sw)
  | false =>
    simp only [nllVal, intF, intG, klog, Bool.false_eq_true, if_false]
    have h := hL.neg.add ((hI.log (h0 rfl)).const_mul sw)
    refine h.congr_deriv ?_
    ring

example : ∃ (I : ℝ → ℝ), I 0 ≠ 0 ∧ HasDerivAt I (∑ k : Fin 1, (fun _ => (2 : ℝ)) k * (fun _ => (1 : ℝ)) k) 0 :=
  ⟨fun s => 1 + 2 * s, by norm_num, by
    simpa using ((hasDerivAt_id' (0 : ℝ)).const_mul 2).const_add 1⟩

/-- derivative of `int_g(int_mc)` along the line is `int_h(int_mc)·int_mc'` -/
theorem intG_hasDerivAt (ext : Bool) (I : ℝ → ℝ) (I' t : ℝ) (hI : HasDerivAt I I' t) (h0 : ext = false → I t ≠ 0) :
    HasDerivAt (fun s => intG ext (I s)) (intH ext (I t) * I') t := by
  cases ext with
  | true =>
    simp only [intG, intH, if_true, zero_mul]
    exact hasDerivAt_const _ _
  | false =>
    simp only [intG, intH, Bool.false_eq_true, if_false]
    have h := (hasDerivAt_const t (1 : ℝ)).div hI (h0 rfl)
    refine h.congr_deriv ?_
    have := h0 rfl
    field_simp
    ring

/-- one component of the returned gradient, along the line: its derivative is the corresponding row of the returned
Hessian applied to `p`. -/
theorem hess_row (ext : Bool) {n : Nat} (I : ℝ → ℝ) (gLn gInt : Fin n → ℝ → ℝ) (hLn hInt : Fin n → Fin n → ℝ)
    (p : Fin n → ℝ) (sw t : ℝ)
    (hgL : ∀ k, HasDerivAt (gLn k) (∑ j, hLn k j * p j) t)
    (hgI : ∀ k, HasDerivAt (gInt k) (∑ j, hInt k j * p j) t)
    (hI : HasDerivAt I (∑ j, gInt j t * p j) t) (h0 : ext = false → I t ≠ 0) (k : Fin n) :
    HasDerivAt (fun s => -gLn k s + sw * gInt k s * intG ext (I s))
      (∑ j, ((-hLn k j + sw * (gInt k t * gInt j t * intH ext (I t))) + sw * hInt k j * intG ext (I t)) * p j) t := by
  have hG := intG_hasDerivAt ext I _ t hI h0
  have h := (hgL k).neg.add (((hgI k).const_mul sw).mul hG)
  refine h.congr_deriv ?_
  have e : ∀ j, ((-hLn k j + sw * (gInt k t * gInt j t * intH ext (I t))) + sw * hInt k j * intG ext (I t)) * p j
      = (-1) * (hLn k j * p j) + (sw * intG ext (I t)) * (hInt k j * p j)
        + (sw * gInt k t * intH ext (I t)) * (gInt j t * p j) := fun j => by ring
  rw [Finset.sum_congr rfl (fun j _ => e j), sum_lin3]
  ring

/-- `nll_grad_hessian`: the returned Hessian is the derivative of the returned gradient: for all directions `p`, `q`,
`d/ds (q·g(θ₀+s p)) = qᵀ H p`. -/
theorem hess_is_deriv (ext : Bool) {n : Nat} (I : ℝ → ℝ) (gLn gInt : Fin n → ℝ → ℝ) (hLn hInt : Fin n → Fin n → ℝ)
    (p q : Fin n → ℝ) (sw t : ℝ)
    (hgL : ∀ k, HasDerivAt (gLn k) (∑ j, hLn k j * p j) t)
    (hgI : ∀ k, HasDerivAt (gInt k) (∑ j, hInt k j * p j) t)
    (hI : HasDerivAt I (∑ j, gInt j t * p j) t) (h0 : ext = false → I t ≠ 0) :
    HasDerivAt (fun s => dot (nllGrad ext (List.ofFn fun k => gLn k s) (List.ofFn fun k => gInt k s) sw (I s)) (List.ofFn q))
      (dot (matVec (nllHess ext (ofFn2 hLn) (List.ofFn fun k => gInt k t) (ofFn2 hInt) sw (I t)) (List.ofFn p)) (List.ofFn q)) t := by
  rw [nllHess_ofFn, dot_matVec_ofFn]
  have hf : (fun s => dot (nllGrad ext (List.ofFn fun k => gLn k s) (List.ofFn fun k => gInt k s) sw (I s)) (List.ofFn q))
      = fun s => ∑ k, (-gLn k s + sw * gInt k s * intG ext (I s)) * q k := by
    funext s; rw [nllGrad_ofFn, dot_ofFn]
  rw [hf]
  have h := HasDerivAt.fun_sum (u := Finset.univ)
    (fun k _ => (hess_row ext I gLn gInt hLn hInt p sw t hgL hgI hI h0 k).mul_const (q k))
  refine h.congr_deriv ?_
  apply Finset.sum_congr rfl
  intro i _
  rw [Finset.sum_mul]
  apply Finset.sum_congr rfl
  intro j _
  ring

/-- `grad_hessp_batch`: fed with Hessian-vector products `H_ln·p`, `H_int·p`, the returned vector is (returned
Hessian)·p — the forward-over-reverse path and the full-Hessian path assemble the same thing. -/
theorem hessp_eq_hess_mul (ext : Bool) {n : Nat} (hLn hInt : Fin n → Fin n → ℝ) (g p : Fin n → ℝ) (sw I : ℝ) :
    nllHessp ext (matVec (ofFn2 hLn) (List.ofFn p)) (List.ofFn g) (matVec (ofFn2 hInt) (List.ofFn p)) (List.ofFn p) sw I
      = matVec (nllHess ext (ofFn2 hLn) (List.ofFn g) (ofFn2 hInt) sw I) (List.ofFn p) := by
  rw [matVec_ofFn, matVec_ofFn, nllHessp_ofFn, nllHess_ofFn, matVec_ofFn]
  congr 1
  funext i
  have e : ∀ j, ((-hLn i j + sw * (g i * g j * intH ext I)) + sw * hInt i j * intG ext I) * p j
      = (-1) * (hLn i j * p j) + (sw * intG ext I) * (hInt i j * p j) + (sw * g i * intH ext I) * (p j * g j) :=
    fun j => by ring
  rw [Finset.sum_congr rfl (fun j _ => e j), sum_lin3]
  ring

/-- `grad_hessp_batch`: the returned Hessian-vector product is the derivative of the returned gradient along `p`. -/
theorem hessp_is_deriv (ext : Bool) {n : Nat} (I : ℝ → ℝ) (gLn gInt : Fin n → ℝ → ℝ) (hLn hInt : Fin n → Fin n → ℝ)
    (p q : Fin n → ℝ) (sw t : ℝ)
    (hgL : ∀ k, HasDerivAt (gLn k) (∑ j, hLn k j * p j) t)
    (hgI : ∀ k, HasDerivAt (gInt k) (∑ j, hInt k j * p j) t)
    (hI : HasDerivAt I (∑ j, gInt j t * p j) t) (h0 : ext = false → I t ≠ 0) :
    HasDerivAt (fun s => dot (nllGrad ext (List.ofFn fun k => gLn k s) (List.ofFn fun k => gInt k s) sw (I s)) (List.ofFn q))
      (dot (nllHessp ext (matVec (ofFn2 hLn) (List.ofFn p)) (List.ofFn fun k => gInt k t)
              (matVec (ofFn2 hInt) (List.ofFn p)) (List.ofFn p) sw (I t)) (List.ofFn q)) t := by
  rw [hessp_eq_hess_mul]
  exact hess_is_deriv ext I gLn gInt hLn hInt p q sw t hgL hgI hI h0

/-- non-vacuity of `hess_is_deriv` / `hessp_is_deriv` (normalised model): `int_mc(s) = 1 + s`, constant `g_int = 1`,
`g_ln(s) = 3 s`: all hypotheses hold together. -/
example (q : Fin 1 → ℝ) (sw : ℝ) :=
  hessp_is_deriv false (n := 1) (fun s => 1 + s) (fun _ s => 3 * s) (fun _ _ => 1) (fun _ _ => 3) (fun _ _ => 0)
    (fun _ => 1) q sw 0
    (fun _ => by simpa using (hasDerivAt_id' (0 : ℝ)).const_mul 3)
    (fun _ => by simpa using hasDerivAt_const (0 : ℝ) (1 : ℝ))
    (by simpa using (hasDerivAt_id' (0 : ℝ)).const_add 1)
    (fun _ => by norm_num)

/-! ## cached variants (opt_int.py): differently written, same numbers -/

/-- `ModelCachedInt / ModelCachedAmp`: their gradient, Hessian (`-sw·outer(g/I) + sw/I·H`) and Hessian-vector product
(`… / int_mc**2`) are those of the normalised default model, so `grad_is_deriv`, `hess_is_deriv`, `hessp_is_deriv`
apply to them. -/
theorem cached_eq_default {n : Nat} (hLn hInt : Fin n → Fin n → ℝ) (gLn g hpLn hpInt p : Fin n → ℝ) (lnData sw I : ℝ)
    (hI : I ≠ 0) :
    cachedVal lnData sw I = nllVal false lnData sw I ∧
    cachedGrad (List.ofFn gLn) (List.ofFn g) sw I = nllGrad false (List.ofFn gLn) (List.ofFn g) sw I ∧
    cachedIntHess (ofFn2 hLn) (List.ofFn g) (ofFn2 hInt) sw I = nllHess false (ofFn2 hLn) (List.ofFn g) (ofFn2 hInt) sw I ∧
    cachedAmpHessp (List.ofFn hpLn) (List.ofFn g) (List.ofFn hpInt) (List.ofFn p) sw I
      = nllHessp false (List.ofFn hpLn) (List.ofFn g) (List.ofFn hpInt) (List.ofFn p) sw I := by
  refine ⟨by simp [cachedVal, nllVal, intF], ?_, ?_, ?_⟩
  · rw [cachedGrad_ofFn, nllGrad_ofFn]
    congr 1; funext k
    simp only [intG, Bool.false_eq_true, if_false]; ring
  · rw [cachedIntHess_ofFn, nllHess_ofFn]
    unfold ofFn2
    congr 1; funext i; congr 1; funext j
    simp only [intG, intH, Bool.false_eq_true, if_false]
    field_simp
    ring
  · rw [cachedAmpHessp_ofFn, nllHessp_ofFn]
    congr 1; funext i
    simp only [intG, intH, Bool.false_eq_true, if_false]
    field_simp
    ring

/-- `ModelCachedInt.nll_grad_hessian` reports `sw·log(int_mc / n_mc)`: it differs from the gradient path's value by
the constant `sw·log n_mc` (zero for the normalised MC weights FCN passes), so it has the same derivatives. -/
theorem cachedIntValH_eq (lnData sw I nMc : ℝ) (hI : I ≠ 0) (hn : nMc ≠ 0) :
    cachedIntValH lnData sw I nMc = nllVal false lnData sw I - sw * Real.log nMc := by
  simp only [cachedIntValH, nllVal, intF, klog, Bool.false_eq_true, if_false]
  rw [Real.log_div hI hn]
  ring

/-! ## Gaussian constraints (`GaussianConstr`, model.py:915-986) -/

theorem cTerm_hasDerivAt (c : Option (ℝ × ℝ)) (x : ℝ → ℝ) (x' t : ℝ) (hx : HasDerivAt x x' t) :
    HasDerivAt (fun s => cTerm (x s) c) (cGrad (x t) c * x') t := by
  cases c with
  | none => simp only [cTerm, cGrad, zero_mul]; exact hasDerivAt_const _ _
  | some ms =>
    obtain ⟨m, sg⟩ := ms
    simp only [cTerm, cGrad, gaussTerm1]
    have h := ((((hx.sub_const m).mul (hx.sub_const m)).div_const (sg * sg)).div_const 2)
    refine h.congr_deriv ?_
    ring

theorem cGrad_hasDerivAt (c : Option (ℝ × ℝ)) (x : ℝ → ℝ) (x' t : ℝ) (hx : HasDerivAt x x' t) :
    HasDerivAt (fun s => cGrad (x s) c) (cHess c * x') t := by
  cases c with
  | none => simp only [cGrad, cHess, zero_mul]; exact hasDerivAt_const _ _
  | some ms =>
    obtain ⟨m, sg⟩ := ms
    simp only [cGrad, cHess]
    have h := (hx.sub_const m).div_const (sg * sg)
    refine h.congr_deriv ?_
    ring

/-- `get_constrain_grad` is the gradient of `get_constrain_term` and `get_constrain_hessian` its Hessian, along every
line and for every assignment of constraints to the trainable variables (σ = 0 included: both sides are 0 then). -/
theorem gauss_terms_deriv {n : Nat} (cs : Fin n → Option (ℝ × ℝ)) (x0 p q : Fin n → ℝ) (t : ℝ) :
    HasDerivAt (fun s => gaussTerm (List.ofFn fun k => x0 k + s * p k) (List.ofFn cs))
      (dot (gaussGrad (List.ofFn fun k => x0 k + t * p k) (List.ofFn cs)) (List.ofFn p)) t ∧
    HasDerivAt (fun s => dot (gaussGrad (List.ofFn fun k => x0 k + s * p k) (List.ofFn cs)) (List.ofFn q))
      (dot (matVec (gaussHess (List.ofFn cs)) (List.ofFn p)) (List.ofFn q)) t := by
  have hx : ∀ k, HasDerivAt (fun s => x0 k + s * p k) (p k) t := fun k => by
    simpa using ((hasDerivAt_id' t).mul_const (p k)).const_add (x0 k)
  constructor
  · rw [gaussGrad_ofFn, dot_ofFn]
    have hf : (fun s => gaussTerm (List.ofFn fun k => x0 k + s * p k) (List.ofFn cs))
        = fun s => ∑ k, cTerm (x0 k + s * p k) (cs k) := by funext s; rw [gaussTerm_ofFn]
    rw [hf]
    exact HasDerivAt.fun_sum (u := Finset.univ) (fun k _ => cTerm_hasDerivAt (cs k) _ _ t (hx k))
  · rw [gaussHess_ofFn, dot_matVec_ofFn]
    have hf : (fun s => dot (gaussGrad (List.ofFn fun k => x0 k + s * p k) (List.ofFn cs)) (List.ofFn q))
        = fun s => ∑ k, cGrad (x0 k + s * p k) (cs k) * q k := by funext s; rw [gaussGrad_ofFn, dot_ofFn]
    rw [hf]
    have h := HasDerivAt.fun_sum (u := Finset.univ)
      (fun k _ => (cGrad_hasDerivAt (cs k) _ _ t (hx k)).mul_const (q k))
    refine h.congr_deriv ?_
    apply Finset.sum_congr rfl
    intro i _
    simp only [mul_ite, ite_mul, mul_zero, zero_mul, Finset.sum_ite_eq, Finset.mem_univ, if_true]
    ring

/-! ## what `FCN` / `CombineFCN` return -/

/-- `FCN.nll_grad`, `FCN.nll_grad_hessian`, and `FCN.grad_hessp` AFTER `fix_grad_hessp.diff`: if the model part
(`get_nll_grad`, `get_nll_grad_hessian`, `get_grad_hessp`) returns derivatives of the model NLL, then value + constraint
term, gradient + constraint gradient, Hessian + constraint Hessian, and Hessian-vector product + constraint Hessian·p
are value, gradient, Hessian and Hessian-vector product of ONE function. -/
theorem fcn_is_deriv {n : Nat} (N : ℝ → ℝ) (g : Fin n → ℝ → ℝ) (H : Fin n → Fin n → ℝ)
    (cs : Fin n → Option (ℝ × ℝ)) (x0 p q : Fin n → ℝ) (t : ℝ)
    (hN : HasDerivAt N (∑ k, g k t * p k) t) (hg : ∀ k, HasDerivAt (g k) (∑ j, H k j * p j) t) :
    HasDerivAt (fun s => fcnVal (N s) (gaussTerm (List.ofFn fun k => x0 k + s * p k) (List.ofFn cs)))
      (dot (fcnGrad (List.ofFn fun k => g k t) (gaussGrad (List.ofFn fun k => x0 k + t * p k) (List.ofFn cs))) (List.ofFn p)) t ∧
    HasDerivAt (fun s => dot (fcnGrad (List.ofFn fun k => g k s) (gaussGrad (List.ofFn fun k => x0 k + s * p k) (List.ofFn cs))) (List.ofFn q))
      (dot (matVec (fcnHess (ofFn2 H) (gaussHess (List.ofFn cs))) (List.ofFn p)) (List.ofFn q)) t ∧
    fcnHessp (matVec (ofFn2 H) (List.ofFn p)) (gaussHess (List.ofFn cs)) (List.ofFn p)
      = matVec (fcnHess (ofFn2 H) (gaussHess (List.ofFn cs))) (List.ofFn p) := by
  obtain ⟨hc1, hc2⟩ := gauss_terms_deriv cs x0 p q t
  rw [gaussGrad_ofFn, dot_ofFn] at hc1
  rw [gaussHess_ofFn, dot_matVec_ofFn] at hc2
  refine ⟨?_, ?_, ?_⟩
  · unfold fcnVal fcnGrad
    rw [gaussGrad_ofFn, vadd_ofFn, dot_ofFn]
    refine (hN.add hc1).congr_deriv ?_
    rw [← Finset.sum_add_distrib]
    apply Finset.sum_congr rfl; intro k _; ring
  · unfold fcnHess
    rw [gaussHess_ofFn, madd_ofFn, dot_matVec_ofFn]
    have hf : (fun s => dot (fcnGrad (List.ofFn fun k => g k s) (gaussGrad (List.ofFn fun k => x0 k + s * p k) (List.ofFn cs))) (List.ofFn q))
        = fun s => (∑ k, g k s * q k) + dot (gaussGrad (List.ofFn fun k => x0 k + s * p k) (List.ofFn cs)) (List.ofFn q) := by
      funext s
      unfold fcnGrad
      rw [gaussGrad_ofFn, vadd_ofFn, dot_ofFn, dot_ofFn, ← Finset.sum_add_distrib]
      apply Finset.sum_congr rfl; intro k _; ring
    rw [hf]
    have h1 := HasDerivAt.fun_sum (u := Finset.univ) (fun k _ => (hg k).mul_const (q k))
    refine (h1.add hc2).congr_deriv ?_
    rw [← Finset.sum_add_distrib]
    apply Finset.sum_congr rfl; intro i _
    rw [Finset.sum_mul, ← Finset.sum_add_distrib]
    apply Finset.sum_congr rfl; intro j _
    ring
  · unfold fcnHessp fcnHess
    rw [gaussHess_ofFn, madd_ofFn, matVec_ofFn, matVec_ofFn, matVec_ofFn, vadd_ofFn]
    congr 1; funext i
    rw [← Finset.sum_add_distrib]
    apply Finset.sum_congr rfl; intro j _; ring

/-- The text of `FCN.grad_hessp` BEFORE the fix (`constr_hessian = 0.0`) is NOT the derivative of the gradient it is
returned with: witness with one parameter, flat model part, constraint `(mean, σ) = (0, 1)`: the returned gradient is
`θ`, its derivative 1, the returned Hessian-vector product for `p = 1` is 0. -/
theorem fcn_hessp_legacy_violates :
    fcnHesspLegacy [0] (gaussHess [some (0, 1)]) [1] = [(0 : ℝ) + 0] ∧
    ¬ HasDerivAt (fun s : ℝ => dot (fcnGrad [0] (gaussGrad [0 + s * 1] [some (0, 1)])) [1])
        (dot (fcnHesspLegacy [0] (gaussHess [some (0, 1)]) [1]) [1]) 0 := by
  refine ⟨by simp [fcnHesspLegacy], fun h => ?_⟩
  have hf : (fun s : ℝ => dot (fcnGrad [0] (gaussGrad [0 + s * 1] [some (0, 1)])) [1]) = fun s => s := by
    funext s
    simp [fcnGrad, vadd, gaussGrad, cGrad, dot]
  rw [hf] at h
  have h1 : HasDerivAt (fun s : ℝ => s) 1 0 := hasDerivAt_id' 0
  have := h.unique h1
  simp [fcnHesspLegacy, dot] at this

/-- … while the text after the fix returns, on the same witness, the derivative. -/
theorem fcn_hessp_fixed_witness :
    HasDerivAt (fun s : ℝ => dot (fcnGrad [0] (gaussGrad [0 + s * 1] [some (0, 1)])) [1])
        (dot (fcnHessp [0] (gaussHess [some (0, 1)]) [1]) [1]) 0 := by
  have hf : (fun s : ℝ => dot (fcnGrad [0] (gaussGrad [0 + s * 1] [some (0, 1)])) [1]) = fun s => s := by
    funext s
    simp [fcnGrad, vadd, gaussGrad, cGrad, dot]
  rw [hf]
  have : dot (fcnHessp [0] (gaussHess [some (0, 1)]) [1]) [1] = (1 : ℝ) := by
    simp [fcnHessp, gaussHess, gaussHessDiag, cHess, diagMat, matVec, vadd, dot]
  rw [this]
  exact hasDerivAt_id' 0

end TfPwaV.C07
