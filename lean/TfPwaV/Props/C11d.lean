import TfPwaV.Proofs.CascadeTree
/-!
# C11 (helicity-angle clause, CASCADE) — `build_data → cal_angle → find_variable` returns the inputs, for every decay tree

Model: `templates/Cascade.lean.in` (the ℝ instance `TfPwaV.CascadeR`; the Float instance of the same text is compared
with `HelicityAngle.build_data` and `cal_angle` on every run).
* constructor `buildData : DTree → MTree` = `create_rotate_p_decay`: per decay the rest-frame momenta
  `p1 = (E1, P·n)`, `p2 = (E2, −P·n)` along the axes handed down (`[x', y', z']` to `outs[0]`, `[x', −y', −z']` to `outs[1]`),
  then bottom-up `boost(·, boost_vector(p_daughter))` of everything below a decaying daughter;
* extractor `calChainBoost` = `infer_momentum` + `add_mass` + `cal_chain_boost` (nested `rest_vector`),
  `calAngle` = `cal_helicity_angle` on top of it (`angle_zx_z_getx` per daughter, axis propagation
  `set_z[j] = vect(rest_p[j])`, `set_x[j] = x`, the `alpha` range shift with `bias = −π / −2π`), `findVariable`.

Hypotheses are recursive predicates on the tree (defined in `Proofs/CascadeTree.lean`):
* `RegB t` — every decay above threshold (`m > m1 + m2`), final masses `≥ 0`, and for every DECAYING daughter the velocity
  guard of `LorentzVector.boost` is passed: `P²/(m_d² + P²) > 1e-14`;
* `RegA s t` — at every decay `−1 < cosθ < 1`, `−π < φ < π`, and the two `cross_unit` guards of `angle_zx_z_getx` are not
  triggered: `s ≥ 1e-14`, `s·P·sinθ ≥ 1e-14`, where `s` is the length of the z-axis handed to the decaying particle
  (`1` for the top particle, the mother's break-up momentum below — the extractor hands an UN-normalised z-axis).
The theorems quantify over ALL trees (any shape: sequential, branching, any number of final particles).
-/
open TfPwaV.ScalarR
namespace TfPwaV.C11
open TfPwaV.KinR TfPwaV.AngleR TfPwaV.CascadeR

/-- The axes the constructor hands to BOTH daughters are again orthonormal right-handed frames
(`[x', y', z']` for `outs[0]`, `[x', −y', −z']` for `outs[1]`), for every `cosθ`, `φ` and every mother frame;
only a positive break-up momentum is needed (for the two normalisations). -/
theorem daughter_frames (X Y Z : V3) (hF : IsFrame X Y Z) (m0 m1 m2 c φ : ℝ) (hP : 0 < relP m0 m1 m2) :
    let v := vertex m0 m1 m2 c φ X Y Z
    IsFrame v.x v.y v.z ∧ IsFrame v.x v.y.neg v.z.neg := by
  intro v
  have hv : v = _ := vertex_eq hF m0 m1 m2 c φ _ rfl hP
  rw [hv]
  exact ⟨frame_first hF _ φ, frame_second hF _ φ⟩

/-- Momentum conservation of the constructor: the built final momenta sum to `(m_top, 0, 0, 0)`, for every tree. -/
theorem cascade_total (t : DTree) (hB : RegB t) (hd : Decays t) :
    (buildData t).total = ⟨t.mass, 0, 0, 0⟩ :=
  total_contents t _ _ _ lab_frame hB hd

/-- **Undoing the boosts.**  For every decay tree: the masses recomputed from the built momenta and the extractor's nested
`rest_vector` boosts (`cal_chain_boost`) return EXACTLY the masses and the rest-frame momenta `monmentum_in_rest` the
constructor started from, at every decay of the tree.  No hypothesis on the angles. -/
theorem cascade_boost_undo (t : DTree) (hB : RegB t) (hd : Decays t) :
    calChainBoost (buildData t) = builtRest t ⟨1, 0, 0⟩ ⟨0, 1, 0⟩ ⟨0, 0, 1⟩ := by
  have ht := cascade_total t hB hd
  have := chain_general t _ _ _ _ _ lab_frame hB hd (good_top t.mass)
  rw [map_id'] at this
  unfold calChainBoost buildData at *
  simp only [infer_p, ht]
  exact this

/-- **What `cal_angle` returns**, for every decay tree: at every decay the recomputed mass, `(alpha, beta) = (φ, θ)` for
`outs[0]`, and `(alpha, beta) = (φ − π, π − θ)` for `outs[1]` (`θ = arccos c`; the second `alpha` lies in `(−2π, 0)`:
the code's `bias = −2π` bookkeeping). -/
theorem cascade_angles (t : DTree) (hB : RegB t) (hA : RegA 1 t) (hd : Decays t) :
    calAngle (buildData t) = expectedA t := by
  unfold calAngle
  rw [cascade_boost_undo t hB hd]
  have := helicity_general t _ _ _ 1 lab_frame hB hA
  rwa [one_smul'] at this

/-- **The cascade round trip.**  For every decay tree (any topology) whose decays are above threshold and pass the
code's own ε-guards, with `−1 < cosθ < 1` and `−π < φ < π` at every decay:
`find_variable(cal_angle(build_data(masses, cosθ, φ)))` returns exactly the masses, `cosθ` and `φ` that were put in. -/
theorem cascade_roundtrip (t : DTree) (hB : RegB t) (hA : RegA 1 t) (hd : Decays t) :
    findVariable (calAngle (buildData t)) = t := by
  rw [cascade_angles t hB hA hd]
  exact find_expected t 1 hA

/-- `find_variable` reads `outs[0]` only: the angles stored for `outs[1]` do not influence its result. -/
theorem find_variable_ignores_second (m a1 b1 a2 b2 a2' b2' : ℝ) (d1 d2 : ATree) :
    findVariable (.node m a1 b1 a2 b2 d1 d2) = findVariable (.node m a1 b1 a2' b2' d1 d2) := rfl

/-- The excluded boundary `φ = π` (own statement): `angle_zx_z_getx` returns `alpha = π`, and the range shift of
`cal_helicity_angle` (`bias = −π`, range `[−π, π)`) turns it into `−π` — the round trip returns `−π`, not `π`. -/
theorem alpha_at_pi (X Y Z : V3) (hF : IsFrame X Y Z) (s P θ : ℝ) (hs : eps ≤ s) (hP : 0 < P)
    (hθ0 : 0 < θ) (hθπ : θ < Real.pi) (hguard : eps ≤ s * (P * Real.sin θ)) :
    shiftAlpha (angleZxZGetx (V3.smul s Z) X (V3.smul P (dir X Y Z θ Real.pi))).alpha (-kpi) = -Real.pi := by
  obtain ⟨ha, -, -⟩ := angle_step_scaled X Y Z hF s P θ Real.pi hs hP hθ0 hθπ (by linarith [Real.pi_pos]) le_rfl hguard
  rw [ha]; exact shift_first_pi

/-! ### non-vacuity: the BRANCHING 4-body cascade `A(4) → R1(1) + R2(1)`, `R1 → a(0) + b(0)`, `R2 → c(0) + d(0)` at
`cosθ = 0, φ = 0` satisfies all hypotheses (break-up momenta `√3` and `1/2`, velocity² of `R1`, `R2` = 3/4) -/

example : RegB (.node 4 0 0 (.node 1 0 0 (.leaf 0) (.leaf 0)) (.node 1 0 0 (.leaf 0) (.leaf 0))) ∧
    RegA 1 (.node 4 0 0 (.node 1 0 0 (.leaf 0) (.leaf 0)) (.node 1 0 0 (.leaf 0) (.leaf 0))) ∧
    Decays (.node 4 0 0 (.node 1 0 0 (.leaf 0) (.leaf 0)) (.node 1 0 0 (.leaf 0) (.leaf 0))) := by
  have e : eps = 1.0e-14 := rfl
  have hpi := Real.pi_pos
  have h4 := ex_P4
  have h4' := ex_P4_ge
  refine ⟨?_, ?_, trivial⟩
  · simp only [RegB, DTree.mass, Decays, VelGuard, ex_P1, h4]
    rw [e]; norm_num
  · simp only [RegA, DTree.mass, ex_P1]
    rw [e]
    norm_num
    (repeat' apply And.intro) <;> linarith

end TfPwaV.C11
