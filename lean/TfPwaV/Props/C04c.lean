import TfPwaV.Proofs.AmpSpinless
import TfPwaV.Props.C04
/-!
# C04 (part c) — the spinless closed form is a corollary about the GENERAL amplitude-tensor model

`templates/Amp.lean.in` (`AmpR`) is the executable model of `tf_pwa/amp/core.py` for arbitrary binary chains and spins; its
Float instance is compared per helicity component with `DecayChain.get_amp` / `DecayGroup.get_amp` / `sum_amp` on every
run of C01 (harness/c01_amp.py).  `templates/Spinless.lean.in` (`SpinlessR.helAmp`) is the hand-specialised formula for a
spin-0 parent and spin-0 finals that `C04.spinless_closed_form` is about.  Here:

* `spinlessChain`: the two-vertex chain `A(0) → R(J) c(0)`, `R → a(0) b(0)` built with the general model's own
  constructors (`mkVertex`: `calCgMatrix`, `barrierFactors`, `lsAmp`, `hTable`, `dMatrixConj`, `dGather`), one (l,s) pair
  per vertex ((J,J) resp. (J,0)), `g_ls = 1` (fixed first coupling), no alignment;
* `spinless_reduction`: for EVERY resonance spin `J` (no bound), both daughter orders, all real couplings, `|q|²`, `|q0|²`,
  line-shape values and angles, the general model's `Chain.amp` of this chain at the (only) helicity component equals
  `SpinlessR.helAmp`;
* `general_model_closed_form`, `general_model_spinless_density`: hence, for `J ≤ 4`, the general model gives the closed form
  `c · (-1)^J · p^J B_J(p) · q^J B_J(q) · BW · P_J(cos θ)` and the density `|Σ_k closed_k|²` (corollaries of
  `C04.spinless_closed_form`), and with `C04b.helicity_angle_is_boost_angle` the angle is the boost-defined one.
-/
open TfPwaV.ScalarR
namespace TfPwaV.C04
open TfPwaV.AmpR TfPwaV.SpinlessR TfPwaV.LineShapeR TfPwaV.Wigner

/-- the two-vertex chain of the GENERAL model for `A(0) → R(J) c(0)` (or `[c, R]` when `swapA`), `R → a b`, all external
spins 0.  Particle ids: `A = 0, a = 1, b = 2, c = 3, R = 4`. -/
noncomputable def spinlessChain (P : ChainPar) (q2A q02A q2R q02R : ℝ) (bw : Cx) (αA βA αR βR : ℝ) : Chain :=
  let N := 2 * P.J
  let top : Vertex :=
    if P.swapA then
      mkVertex 0 3 4 0 [0] (mRange N) [(N, N)] (calCgMatrix 0 0 N [(N, N)] [0] (mRange N)) [⟨1, 0⟩] q2A q02A αA βA 0
    else
      mkVertex 0 4 3 0 (mRange N) [0] [(N, N)] (calCgMatrix 0 N 0 [(N, N)] (mRange N) [0]) [⟨1, 0⟩] q2A q02A αA βA 0
  let res : Vertex := mkVertex 4 1 2 N [0] [0] [(N, 0)] (calCgMatrix N 0 0 [(N, 0)] [0] [0]) [⟨1, 0⟩] q2R q02R αR βR 0
  ⟨coupling P.polar P.c1 P.c2, [bw], top, [res], [], [(4, mRange N)]⟩

/-- the mass-dependent factors as the general model computes them (`barrierFactors` with `l = J`) -/
noncomputable def mdOf (P : ChainPar) (q2A q02A q2R q02R : ℝ) (bw : Cx) : MassDep :=
  ⟨barrier P.J q2A q02A dRad, barrier P.J q2R q02R dRad, bw⟩

theorem hel2_mid (J : ℕ) : hel2 (2 * J) ⟨J, by omega⟩ = 0 := by
  unfold hel2; simp only; omega

/-- the summand of the general model's einsum at resonance helicity `lam` is `Spinless.helTerm` -/
theorem spinless_term (P : ChainPar) (q2A q02A q2R q02R : ℝ) (bw : Cx) (αA βA αR βR : ℝ) (ext : Hel)
    (h1 : ext 1 = 0) (h2 : ext 2 = 0) (h3 : ext 3 = 0) (lam : Int) (hl : lam ∈ mRange (2 * P.J)) :
    let C := spinlessChain P q2A q02A q2R q02R bw αA βA αR βR
    C.term C.top.D (fun A => A.D) 0 ext (ext.set 4 lam) = helTerm P (mdOf P q2A q02A q2R q02R bw) αA βA αR βR lam := by
  intro C
  obtain ⟨i, hi⟩ := mem_mRange _ _ hl
  have s1 : (ext.set 4 lam) 1 = 0 := by unfold Hel.set; simpa using h1
  have s2 : (ext.set 4 lam) 2 = 0 := by unfold Hel.set; simpa using h2
  have s3 : (ext.set 4 lam) 3 = 0 := by unfold Hel.set; simpa using h3
  have s4 : (ext.set 4 lam) 4 = lam := by unfold Hel.set; simp
  have hJ2 : 2 * P.J / 2 = P.J := by omega
  have m0 : (0 : Int) ∈ ([0] : List Int) := by simp
  -- the D-function of the resonance's decay: row `lam`, column `0 - 0`
  have dR : mkD (2 * P.J) αR βR 0 lam (0 - 0) = dConjDelta (2 * P.J) lam (0 - 0) αR βR 0 := by
    rw [hi, Int.sub_self, ← hel2_mid P.J]
    exact mkD_hel2 _ _ _ _ _ _
  -- the D-function of the parent's decay: spin 0, row 0, column δ
  have dA : ∀ δ : Int, mkD 0 αA βA 0 0 δ = dConjDelta 0 0 δ αA βA 0 := by
    intro δ
    by_cases hδ : δ.natAbs ≤ 0
    · have : δ = 0 := by omega
      subst this
      exact mkD_hel2 0 ⟨0, by omega⟩ ⟨0, by omega⟩ αA βA 0
    · rw [mkD_pad 0 0 δ αA βA 0 hδ]
      unfold dConjDelta
      rw [if_neg hδ]
  unfold Chain.term
  simp only [C, spinlessChain, mdOf, helTerm, mkVertex, Vertex.amp, List.map_cons, List.map_nil, cprod]
  cases hsw : P.swapA
  · simp only [Bool.false_eq_true, if_false, s1, s2, s3, s4]
    rw [mkH_single 0 (2 * P.J) 0 _ _ _ _ _ _ lam 0 hl m0, mkH_single (2 * P.J) 0 0 _ _ _ _ _ _ 0 0 m0 m0, dA, dR]
    simp only [hJ2]
    rw [Cx.eq_iff]
    simp only [Cx.mul, Cx.add, Cx.smul]
    constructor <;> ring
  · simp only [if_true, s1, s2, s3, s4]
    rw [mkH_single 0 0 (2 * P.J) _ _ _ _ _ _ 0 lam m0 hl, mkH_single (2 * P.J) 0 0 _ _ _ _ _ _ 0 0 m0 m0, dA, dR]
    simp only [hJ2]
    rw [Cx.eq_iff]
    simp only [Cx.mul, Cx.add, Cx.smul]
    constructor <;> ring

/-- **spinless reduction**: for EVERY resonance spin `J`, both daughter orders of the parent's decay, polar or Cartesian
coupling, all real `|q|²`, `|q0|²`, line-shape values and angles, the amplitude of the general model (`DecayChain.get_amp`
as modelled by `AmpR.Chain.amp`: CG tables, barrier factors, D-function tables, gather, einsum over the helicity of the
resonance) at the only helicity component of spin-0 external particles IS `SpinlessR.helAmp`. -/
theorem spinless_reduction (P : ChainPar) (q2A q02A q2R q02R : ℝ) (bw : Cx) (αA βA αR βR : ℝ) (ext : Hel)
    (h1 : ext 1 = 0) (h2 : ext 2 = 0) (h3 : ext 3 = 0) :
    (spinlessChain P q2A q02A q2R q02R bw αA βA αR βR).amp 0 ext
      = helAmp P (mdOf P q2A q02A q2R q02R bw) αA βA αR βR := by
  have hterm := spinless_term P q2A q02A q2R q02R bw αA βA αR βR ext h1 h2 h3
  simp only at hterm
  unfold Chain.amp Chain.ampWith helAmp
  have e1 : (spinlessChain P q2A q02A q2R q02R bw αA βA αR βR).inner = [(4, mRange (2 * P.J))] := rfl
  have e2 : (spinlessChain P q2A q02A q2R q02R bw αA βA αR βR).props = [bw] := rfl
  have e3 : (spinlessChain P q2A q02A q2R q02R bw αA βA αR βR).total = coupling P.polar P.c1 P.c2 := rfl
  rw [e1, e2, e3]
  simp only [sumOver, cprod, Cx.mul_one']
  rw [csum_eq_sumFrom]
  congr 2
  apply List.map_congr_left
  intro lam hl
  exact hterm lam hl

-- the hypotheses are satisfiable (helicity 0 for the three spin-0 finals) and the statement is not restricted to small spins
example : ∃ (P : ChainPar) (ext : Hel), P.J = 7 ∧ ext 1 = 0 ∧ ext 2 = 0 ∧ ext 3 = 0 :=
  ⟨⟨7, true, false, 1, 2, 3, 1, 0.1, 0.1, 0.5, 0.9⟩, fun _ => 0, rfl, rfl, rfl, rfl⟩

/-- **C04 as a corollary about the general model**: for `J ≤ 4` the general model's chain amplitude is the closed form
`c · (-1)^J · p^J B_J(p) · q^J B_J(q) · BW · P_J(cos β_R)`; it depends neither on the azimuths nor on the angles of the
parent's decay. -/
theorem general_model_closed_form (P : ChainPar) (hJ : P.J ≤ 4) (q2A q02A q2R q02R : ℝ) (bw : Cx) (αA βA αR βR : ℝ) :
    (spinlessChain P q2A q02A q2R q02R bw αA βA αR βR).amp 0 (fun _ => 0)
      = closedOf P (mdOf P q2A q02A q2R q02R bw) (Real.cos βR) := by
  rw [spinless_reduction P q2A q02A q2R q02R bw αA βA αR βR (fun _ => 0) rfl rfl rfl]
  exact spinless_closed_form P hJ _ _ _ _ _

example : ∃ P : ChainPar, P.J ≤ 4 ∧ P.J ≠ 0 ∧ P.swapA = true := ⟨⟨3, true, true, 1, 2, 3, 1, 0.1, 0.1, 0.5, 0.9⟩, by decide, by decide, rfl⟩

/-- the kinematic inputs of one chain on one event: `(|q|²_A, |q0|²_A, |q|²_R, |q0|²_R, line shape, α_A, β_A, α_R, β_R)` -/
abbrev ChainIn := ChainPar × ℝ × ℝ × ℝ × ℝ × Cx × ℝ × ℝ × ℝ × ℝ

noncomputable def chainOf (t : ChainIn) : Chain :=
  spinlessChain t.1 t.2.1 t.2.2.1 t.2.2.2.1 t.2.2.2.2.1 t.2.2.2.2.2.1 t.2.2.2.2.2.2.1 t.2.2.2.2.2.2.2.1 t.2.2.2.2.2.2.2.2.1
    t.2.2.2.2.2.2.2.2.2

noncomputable def closedOfIn (t : ChainIn) : Cx :=
  closedOf t.1 (mdOf t.1 t.2.1 t.2.2.1 t.2.2.2.1 t.2.2.2.2.1 t.2.2.2.2.2.1) (Real.cos t.2.2.2.2.2.2.2.2.2)

/-- **density**: `DecayGroup.sum_amp` of the general model (`AmpR.density`: sum over chains, helicity sum over the single
component of a spin-0 parent with spin-0 finals) for ANY list of interfering spinless chains of spin `≤ 4` is
`|Σ_k closed_k|²`. -/
theorem general_model_spinless_density (ts : List ChainIn) (h : ∀ t ∈ ts, t.1.J ≤ 4) :
    density (ts.map chainOf) [0] [] = (Cx.sumFrom ⟨0, 0⟩ (ts.map closedOfIn)).normSq := by
  unfold AmpR.density densityWith groupAmpWith
  simp only [List.map_cons, List.map_nil, rsum, sumOverR, add_zero, List.map_map]
  rw [csum_eq_sumFrom]
  congr 2
  apply List.map_congr_left
  intro t ht
  exact general_model_closed_form t.1 (h t ht) _ _ _ _ _ _ _ _ _

example : ∃ ts : List ChainIn, ts.length = 2 ∧ ∀ t ∈ ts, t.1.J ≤ 4 :=
  ⟨[(⟨1, true, false, 1, 2, 3, 1, 0.1, 0.1, 0.5, 0.9⟩, 1, 1, 1, 1, ⟨1, 1⟩, 0, 0, 0, 1),
    (⟨4, false, true, 1, 2, 3, 1, 0.1, 0.1, 0.5, 0.9⟩, 1, 1, 1, 1, ⟨1, 1⟩, 0, 0, 0, 1)], rfl, by simp⟩

end TfPwaV.C04
