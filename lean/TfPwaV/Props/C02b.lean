import TfPwaV.Proofs.AlignD
/-!
# C02 (discrete clause) — the reference-chain bookkeeping of `aligned_angle_ref_rule1`

Theorems about `TfPwaV.Align` (`Model/Align.lean`), a transcription of `cal_angle.aligned_angle_ref_rule1` and of the
alignment loop of `cal_angle_from_particle`, compared with the real functions on every run.  Core Lean only.
All statements are for EVERY ordered chain list, hence for every ordering of a given set of chains.
-/
set_option linter.unusedSimpArgs false
namespace TfPwaV.C02
open TfPwaV.Align

/-- `next(iter([]))`: with an empty chain list and a final particle to place the real function raises -/
theorem ref_rule1_empty (top i : Nat) (outs : List Nat) : refRule1 top (i :: outs) [] = none := by
  simp [refRule1, setX, pass1From, pass2]

/-- **`ref_choice_total`** — for EVERY non-empty ordered chain list whose first chain contains every final particle
(every chain of a decay group does), `aligned_angle_ref_rule1` succeeds and assigns to every final particle exactly
one reference chain: the first chain (in list order) that produces it directly from the top particle, and chain 0
when no chain does.  Holding for every list, it holds for every ordering of the chains. -/
theorem ref_choice_total (top : Nat) (outs : List Nat) (c0 : Chain) (cs : List Chain)
    (hwf : ∀ i ∈ outs, produced i c0 = true) :
    refRule1 top outs (c0 :: cs) = some (outs.map fun i => (i, refSpec top (c0 :: cs) i)) := by
  unfold refRule1 setX
  obtain ⟨m', h1, h2⟩ := pass2_cons c0 cs outs (pass1From top outs 0 [] (c0 :: cs))
  rw [h1]
  simp only [Option.bind_eq_bind, Option.bind_some]
  apply mapM_some
  intro i hi
  rw [h2, lookup_pass1From]
  have ho : outs.contains i = true := by simpa using hi
  simp only [List.lookup_nil, Option.none_or, ho, if_true, hwf i hi, Bool.and_self, refSpec, Nat.add_zero]
  cases List.findIdx? (producedAtTop top i) (c0 :: cs) <;> simp [optIf]

/-- non-vacuity: a 4-body group `A→(BC)(DE)`, `A→((DE)C)B` in both orders; B is produced by the top particle in
the second chain only, C, D, E in no chain -/
example : refRule1 0 [1, 2, 3, 4]
    [[⟨0, [5, 6]⟩, ⟨5, [1, 2]⟩, ⟨6, [3, 4]⟩], [⟨0, [7, 1]⟩, ⟨7, [6, 2]⟩, ⟨6, [3, 4]⟩]]
    = some [(1, 1), (2, 0), (3, 0), (4, 0)] := by decide
example : refRule1 0 [1, 2, 3, 4]
    [[⟨0, [7, 1]⟩, ⟨7, [6, 2]⟩, ⟨6, [3, 4]⟩], [⟨0, [5, 6]⟩, ⟨5, [1, 2]⟩, ⟨6, [3, 4]⟩]]
    = some [(1, 0), (2, 0), (3, 0), (4, 0)] := by decide

/-- the reference index is a position in the list -/
theorem ref_lt_length (top : Nat) (c0 : Chain) (cs : List Chain) (i : Nat) :
    refSpec top (c0 :: cs) i < (c0 :: cs).length := by
  unfold refSpec
  cases h : List.findIdx? (producedAtTop top i) (c0 :: cs) with
  | none => simp
  | some k =>
    have := (List.findIdx?_eq_some_iff_getElem.mp h).1
    simpa using this

/-- whenever SOME chain of the list produces the particle directly from the top particle, the reference chain is such
a chain — in every ordering -/
theorem ref_is_top_producer (top : Nat) (chains : List Chain) (i : Nat)
    (h : ∃ c ∈ chains, producedAtTop top i c = true) :
    ∃ c, chains[refSpec top chains i]? = some c ∧ producedAtTop top i c = true := by
  unfold refSpec
  cases hf : List.findIdx? (producedAtTop top i) chains with
  | none =>
    obtain ⟨c, hc, hp⟩ := h
    have := List.findIdx?_eq_none_iff.mp hf c hc
    simp [hp] at this
  | some k =>
    obtain ⟨hk, hp, _⟩ := List.findIdx?_eq_some_iff_getElem.mp hf
    exact ⟨chains[k], by simp [hk], hp⟩

/-- the KIND of reference (a top-level producer, or "first chain" fallback) does not depend on the ordering -/
theorem ref_kind_perm (top : Nat) (chains chains' : List Chain) (hp : chains.Perm chains') (i : Nat) :
    (∃ c ∈ chains, producedAtTop top i c = true) ↔ (∃ c ∈ chains', producedAtTop top i c = true) := by
  constructor <;> rintro ⟨c, hc, h⟩
  · exact ⟨c, hp.mem_iff.mp hc, h⟩
  · exact ⟨c, hp.mem_iff.mpr hc, h⟩

/-! #### which entries receive an aligned angle -/

/-- **who is aligned**: entry `(chain k, decay n, particle i)` receives an `aligned_angle` iff `i` is a daughter of
that decay, a final particle of the group, and chain `k` is not the reference chain of `i` -/
theorem mem_alignedKeys (outs : List Nat) (ref : Nat → Option Nat) (chains : List Chain) (k n i : Nat) :
    (k, n, i) ∈ alignedKeys outs ref chains ↔
      ∃ c d, chains[k]? = some c ∧ c[n]? = some d ∧ i ∈ d.outs ∧ i ∈ outs ∧ ref i ≠ some k := by
  unfold alignedKeys
  rw [mem_alignedKeysFrom]
  simp

/-- the reference chain of a particle never rotates that particle (its own alignment element would be the identity,
`align_self` in `Props/C02.lean`) -/
theorem ref_chain_not_aligned (outs : List Nat) (ref : Nat → Option Nat) (chains : List Chain) (k n i : Nat)
    (h : ref i = some k) : (k, n, i) ∉ alignedKeys outs ref chains := by
  rw [mem_alignedKeys]
  rintro ⟨_, _, _, _, _, _, h6⟩
  exact h6 h

/-- under rule 2 (`align_ref = "center_mass"`, no chain is the reference) every final particle is aligned in every chain -/
theorem rule2_all_aligned (outs : List Nat) (chains : List Chain) (k n i : Nat) (c : Chain) (d : Decay)
    (hc : chains[k]? = some c) (hd : c[n]? = some d) (hi : i ∈ d.outs) (ho : i ∈ outs) :
    (k, n, i) ∈ alignedKeys outs (fun _ => none) chains := by
  rw [mem_alignedKeys]
  exact ⟨c, d, hc, hd, hi, ho, by simp⟩

/-! #### `only_left_angle` -/

/-- **`only_left_angle` is a frame condition**: when the two daughters of every decay are different particles, no
entry read by a two-body amplitude (the angles of `decay.outs[0]`, looked up in the chain's OWN topology data) is
among the deleted ones.  (Chains that share the angle data of one topology but list the daughters in the opposite
order are outside this statement: see the finding `only_left_angle:mixed-daughter-order`.) -/
theorem only_left_frame (chains : List Chain)
    (hd : ∀ c ∈ chains, ∀ d ∈ c, ∀ i, d.outs[0]? = some i → d.outs[1]? ≠ some i) (k n i : Nat)
    (hr : (k, n, i) ∈ readKeys chains) : (k, n, i) ∉ deletedKeys chains := by
  rw [mem_readKeys] at hr
  rw [mem_deletedKeys]
  obtain ⟨c, d, hc, hdn, h0⟩ := hr
  rintro ⟨c', d', hc', hdn', h1⟩
  rw [hc] at hc'
  obtain rfl := Option.some.inj hc'
  rw [hdn] at hdn'
  obtain rfl := Option.some.inj hdn'
  exact hd c (List.mem_of_getElem? hc) d (List.mem_of_getElem? hdn) i h0 h1

example : readKeys [[⟨0, [5, 3]⟩, ⟨5, [1, 2]⟩]] = [(0, 0, 5), (0, 1, 1)] ∧
    deletedKeys [[⟨0, [5, 3]⟩, ⟨5, [1, 2]⟩]] = [(0, 0, 3), (0, 1, 2)] := by decide

end TfPwaV.C02
