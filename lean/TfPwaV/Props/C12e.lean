import TfPwaV.Props.C02d
/-!
# C12 (last clause) — Euler angles of rotation–boost products that compose to a rotation

The property: "Euler angles extracted from any SU(2) rotation, *including products of rotations and boosts that compose
to a rotation*, reproduce that rotation".  `C12.euler_roundtrip` (Props/C12b.lean) is the statement for every element of
SU(2).  That the rotation–boost products the library hands to `SU2M.get_euler_angle` ARE elements of SU(2) used to be
validated only (search on the implementation).  With the spinor map of Props/C02d.lean it is a theorem:

* `euler_roundtrip_two_routes`: ANY two determinant-one products `A`, `B` of `Rotation_z/y` and `Boost_z` matrices that
  bring the same massive four-momentum to rest give `B·A⁻¹ ∈ SU(2)`, and the Euler angles extracted from `B·A⁻¹`
  reproduce it exactly (same sheet of the double cover);
* `euler_roundtrip_changeRef` / `euler_roundtrip_alignR`: the same for the very matrices `cal_helicity_angle`
  accumulates (`b_matrix`, `r_matrix` of two decay paths of any depth, `changeRef` / the alignment element);
* `euler_roundtrip_rotation_boost_rotation`: an instance with no hypothesis left — the rule-2 reference
  `r⁻¹·Boost_z(ω)·r` against the one-vertex route of a chain.

Hypothesis kept by name: `RouteToRest` (C02d) — the composed transformation of a route brings the particle's momentum
to rest; for a single vertex it is `routeToRest_single`.
-/
namespace TfPwaV.C12
open TfPwaV.ScalarR TfPwaV.SU2R TfPwaV.AlignR TfPwaV.KinR TfPwaV.SL2CR TfPwaV.C02

/-- **products of rotations and boosts that compose to a rotation**: two determinant-one matrices mapping the same
Hermitian matrix (the spinor image of a massive momentum) to `m·1` differ by an element of SU(2), and
`get_euler_angle` reproduces that element. -/
theorem euler_roundtrip_two_routes (a b : M2) (ha : a.det = Cx.one) (hb : b.det = Cx.one) (x : M2) (m : ℝ)
    (hm : m ≠ 0) (h1 : act a x = scalarM m) (h2 : act b x = scalarM m) :
    ofEuler (eulerOf (b.mul a.inv)) = b.mul a.inv :=
  euler_roundtrip _ (two_routes_rotation a b ha hb x m hm h1 h2)

/-- the change-of-reference element built from the `b_matrix` / `r_matrix` of two decay paths (any depth) -/
theorem euler_roundtrip_changeRef (q : V4) (m : ℝ) (hm : m ≠ 0) (ρ ρ' : Route) (h : RouteToRest ρ q m)
    (h' : RouteToRest ρ' q m) :
    ofEuler (eulerOf (changeRef ρ.b ρ.r ρ'.b ρ'.r)) = changeRef ρ.b ρ.r ρ'.b ρ'.r :=
  euler_roundtrip _ (changeRef_isSU2 q m hm ρ ρ' h h')

/-- the alignment element `cal_helicity_angle` hands to `get_euler_angle` -/
theorem euler_roundtrip_alignR (q : V4) (m : ℝ) (hm : m ≠ 0) (ρ k : Route) (h : RouteToRest ρ q m)
    (hk : RouteToRest k q m) :
    ofEuler (eulerOf (alignR ρ.b ρ.r k.r k.b)) = alignR ρ.b ρ.r k.r k.b :=
  euler_roundtrip _ (alignR_isSU2 q m hm ρ k h hk)

/-- instance with NO kinematic hypothesis left: the one-vertex route `(α, β, ω)` of a decay chain and the rule-2 reference
`r⁻¹·Boost_z(ω)·r` (`aligned_angle_ref_rule2`, a rotation–boost–rotation product) both bring `polar m α β ω` to rest
(`routeToRest_single`, `rule2_to_rest`), so their quotient is a rotation and its Euler angles reproduce it. -/
theorem euler_roundtrip_rotation_boost_rotation (m α β ω : ℝ) (hm : m ≠ 0) :
    let ρ : Route := (⟨α, β, ω⟩, [])
    let a := ρ.b.mul ρ.r
    let b := M2.one.mul (rule2R α β ω)
    IsSU2 (b.mul a.inv) ∧ ofEuler (eulerOf (b.mul a.inv)) = b.mul a.inv := by
  intro ρ a b
  have ha : a.det = Cx.one := det_mul_one _ _ (det_route_b ρ) (det_route_r ρ)
  have hb : b.det = Cx.one := det_mul_one _ _ M2.det_one (det_rule2R α β ω)
  have h1 : act a (herm (polar m α β ω)) = scalarM m := route_to_rest ρ _ m (routeToRest_single ⟨α, β, ω⟩ m)
  have h2 : act b (herm (polar m α β ω)) = scalarM m := rule2_to_rest m α β ω
  exact ⟨two_routes_rotation a b ha hb _ m hm h1 h2, euler_roundtrip_two_routes a b ha hb _ m hm h1 h2⟩

-- non-vacuity: a concrete massive momentum and non-trivial angles / rapidity
example : IsSU2 ((M2.one.mul (rule2R 0.3 1.1 0.7)).mul ((Route.b (⟨0.3, 1.1, 0.7⟩, [])).mul (Route.r (⟨0.3, 1.1, 0.7⟩, []))).inv) :=
  (euler_roundtrip_rotation_boost_rotation 2 0.3 1.1 0.7 (by norm_num)).1

end TfPwaV.C12
