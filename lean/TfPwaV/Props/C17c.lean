import TfPwaV.Proofs.OverrideY
import TfPwaV.Props.C17
/-!
# C17 (round 4) — selection statements in block bodies, `keep_used_chains`

`OverrideY.execY` extends `Override.exec` (same blocks, same computations, `execY_agrees_on_old_programs`) by the
permanent selection edits `add_used_chains` / `set_used_chains` / `set_used_res` as body STATEMENTS and by the block
`keep_used_chains`.

* `restoreY_rel` — for every program through patched sites, every fault, every state: mask, `mask_factor`, configuration,
  ls selection, trainable list are restored; the parameters are restored when every `set_params` is inside an
  `amp.temp_params` block (`gP`); the chain selection is restored when every selection statement is inside a
  chain-restoring block (`gC`).  `restoreY_covered` / `restoreY_all`: both ⇒ the whole state.
* `chain_block_restores_selection` — a chain-restoring block (`temp_used_res`, `keep_used_chains`) restores
  `chainsIdx` / `notFull` for ANY body (any statements in any order, any nesting, normal exit or exception).
* `keep_live_*` — the variant that keeps the LIVE list instead of a copy is refuted, and characterised.
-/
namespace TfPwaV.C17
open TfPwaV.Override TfPwaV.OverrideY

/-- the new semantics agrees with `Override.exec` on every program of the old grammar (so every theorem of
Props/C17.lean, Props/C17b.lean is a theorem about `execY ∘ embed`) -/
theorem execY_agrees_on_old_programs (fx : Fix) (E : Env) (p : Prog) (s : St) :
    execY fx E (embed p) s = exec fx E p s := execY_embed fx E p s

/-- ★ (general form)  For **any** assignment of patches to sites, **every** program that only goes through patched
sites — any nesting of the 9 block kinds, any computations, `set_params` / `add_used_chains` / `set_used_chains` /
`set_used_res` statements anywhere, any body raising, any evaluation raising — and **every** state:
mask, `mask_factor`, configuration, ls selection and trainable list after the program are those before it; so are the
stored parameter values if `gP p`; so are `chainsIdx` and `notFull` if `gC p`. -/
theorem restoreY_rel (fx : Fix) (E : Env) (p : ProgY) (hp : coveredY fx p = true) :
    ∀ s : St, Rel (gP p) (gC p) s (execY fx E p s).1 := by
  induction p with
  | skip => intro s; exact Rel.refl _ _ s
  | raise => intro s; exact Rel.refl _ _ s
  | compute c fault => intro s; exact Rel.of_eq (execComp_covered fx E c hp fault s)
  | setParams q => intro s; exact Rel.setParams _ s _
  | addUsedChains l => intro s; exact Rel.setChains _ s _ _
  | setUsedChains l => intro s; exact Rel.setChains _ s _ _
  | setUsedRes r => intro s; exact Rel.setChains _ s _ _
  | block b body ih =>
    intro s
    simp only [coveredY, Bool.and_eq_true] at hp
    exact execBlock_rel fx E b hp.1 _ _ _ (ih hp.2) s
  | keepChains body ih =>
    intro s
    simp only [coveredY, Bool.and_eq_true] at hp
    exact execKeep_rel fx _ _ _ (ih hp.2) s
  | seq p q ihp ihq =>
    intro s
    simp only [coveredY, Bool.and_eq_true] at hp
    simp only [execY, gP, gC]
    have h1 := ihp hp.1 s
    generalize execY fx E p s = res at h1
    obtain ⟨s1, r⟩ := res
    simp only at h1 ⊢
    split
    · obtain ⟨p1, p2, p3, p4, p5, p6, p7⟩ := h1
      refine ⟨p1, p2, p3, p4, p5, ?_, ?_⟩
      · intro h; simp only [Bool.and_eq_true] at h; exact p6 h.1
      · intro h; simp only [Bool.and_eq_true] at h; exact p7 h.1
    · exact Rel.seq h1 (ihq hp.2 s1)

/-- ★ every program through patched sites whose `set_params` are guarded by an `amp.temp_params` block and whose selection
statements are guarded by a `temp_used_res` / `keep_used_chains` block restores the WHOLE state: every fault, every state -/
theorem restoreY_covered (fx : Fix) (E : Env) (p : ProgY) (hp : coveredY fx p = true) (hP : gP p = true)
    (hC : gC p = true) (s : St) : (execY fx E p s).1 = s := by
  have h := restoreY_rel fx E p hp s
  rw [hP, hC] at h
  exact h.eq

theorem restoreY_all (E : Env) (p : ProgY) (hP : gP p = true) (hC : gC p = true) (s : St) :
    (execY Fix.all E p s).1 = s :=
  restoreY_covered Fix.all E p (coveredY_all p) hP hC s

/-- the hypotheses are satisfiable by a program with all three selection statements, a `set_params` and a fault -/
example : gP (.block (.absTemp [(2, .good (.lit 5))]) (.keepChains (.seq (.addUsedChains [1])
      (.seq (.setParams [(3, .good (.lit 6))]) (.seq (.setUsedRes [.res 0]) (.seq (.setUsedChains [2, 1])
        (.compute (.pw [[.idx 0]]) (some 0)))))))) = true ∧
    gC (.block (.absTemp [(2, .good (.lit 5))]) (.keepChains (.seq (.addUsedChains [1])
      (.seq (.setParams [(3, .good (.lit 6))]) (.seq (.setUsedRes [.res 0]) (.seq (.setUsedChains [2, 1])
        (.compute (.pw [[.idx 0]]) (some 0)))))))) = true := by decide

/-- ★ GOAL of round 4: a chain-restoring block restores `chainsIdx` and `notFull` whatever its body is — any selection
statements in any order, any other statement / block / computation (patched or not), normal exit or exception -/
theorem chain_block_restores_selection (fx : Fix) (hfx : fx.usedRes = true) (E : Env) (body : ProgY) (s : St) :
    ((execY fx E (.keepChains body) s).1.chainsIdx = s.chainsIdx ∧
      (execY fx E (.keepChains body) s).1.notFull = s.notFull) ∧
    ∀ r, (execY fx E (.block (.usedRes r) body) s).1.chainsIdx = s.chainsIdx ∧
      (execY fx E (.block (.usedRes r) body) s).1.notFull = s.notFull := by
  refine ⟨?_, fun r => ?_⟩
  · simp [execY, execKeep, hfx, restoreChains]
  · simp [execY, execBlock, hfx, restoreChains]

/-- … and the whole state when the rest of the body is patched and its `set_params` are guarded: `keep_used_chains`
around ANY mixture of selection statements -/
theorem keep_chains_restores_all (E : Env) (body : ProgY) (hP : gP body = true) (s : St) :
    (execY Fix.all E (.keepChains body) s).1 = s ∧
    ∀ r, (execY Fix.all E (.block (.usedRes r) body) s).1 = s :=
  ⟨restoreY_all E (.keepChains body) hP rfl s,
    fun r => restoreY_all E (.block (.usedRes r) body) (by simpa [gP, isAbs] using hP) rfl s⟩

/-- straight-line selection bodies: any list of statements, normal exit and a raise after them -/
theorem keep_chains_selection_body (E : Env) (stmts : List SelStmt) (s : St) :
    execY Fix.all E (.keepChains (selBody stmts)) s = (s, false) ∧
    execY Fix.all E (.keepChains (.seq (selBody stmts) .raise)) s = (s, true) := by
  have h1 := (keep_chains_restores_all E (selBody stmts) (gP_selBody stmts) s).1
  have h2 := (keep_chains_restores_all E (.seq (selBody stmts) .raise)
    (by simp [gP, gP_selBody]) s).1
  constructor
  · refine Prod.ext h1 ?_
    simp [execY, execKeep, Fix.all, execY_selBody]
  · refine Prod.ext h2 ?_
    simp [execY, execKeep, Fix.all, execY_selBody]

/-- selection statements are PERMANENT edits (any variant of the tree): outside a chain-restoring block they stay -/
theorem selection_statements_permanent (fx : Fix) (E : Env) (s : St) (l : List Nat) (r : List Sel) :
    execY fx E (.addUsedChains l) s = ({ s with chainsIdx := addUsed s.chainsIdx l }, false) ∧
    execY fx E (.setUsedChains l) s = ({ s with chainsIdx := l, notFull := l.length != E.nChains }, false) ∧
    execY fx E (.setUsedRes r) s = (setUsedRes E s r, false) := ⟨rfl, rfl, rfl⟩

/-- inside the blocks that do not restore the selection (`mask_params`, `temp_total_gls_one`, `temp_params`) a selection
statement of the body is KEPT: the state after the block is the entry state with exactly that edit -/
theorem selection_in_other_blocks_kept (E : Env) (l : List Nat) (s : St) :
    (∀ m, execY Fix.all E (.block (.maskParams m) (.addUsedChains l)) s = execY Fix.all E (.addUsedChains l) s) ∧
    execY Fix.all E (.block .glsOne (.setUsedChains l)) s = execY Fix.all E (.setUsedChains l) s ∧
    (∀ p, (setAll p s.params).2 = false →
      execY Fix.all E (.block (.absTemp p) (.addUsedChains l)) s = execY Fix.all E (.addUsedChains l) s) := by
  refine ⟨fun m => ?_, ?_, fun p hp => ?_⟩
  · simp [execY, execBlock, Fix.all, OverrideY.addUsedChains]
  · simp [execY, execBlock, Fix.all, setUsedChains]
  · simp [execY, execBlock, Fix.all, OverrideY.addUsedChains, hp]

/-! ## the variant that keeps the live list (`old_idx = self.chains_idx`) -/

/-- with a COPY saved the block restores for every statement list (this is `keep_chains_selection_body`, restated on
`runSel`) -/
theorem keep_copy_restores (E : Env) (stmts : List SelStmt) (s : St) :
    restoreChains s (runSel E stmts s) = s := by
  have h := (keep_chains_selection_body E stmts s).1
  simp only [execY, execKeep, Fix.all, execY_selBody, if_true] at h
  exact congrArg Prod.fst h

/-- with the LIVE list saved the block does not restore: one `add_used_chains` as the first statement, from a
restricted selection (`s1`: chains 2, 0 of 3) -/
theorem keep_live_refuted :
    execKeepLive E0 [.add [1]] s1 = { s1 with chainsIdx := [2, 0, 1] } ∧
    execKeepLive E0 [.add [1]] s1 ≠ s1 ∧
    execKeepLive E0 [.add [0], .add [1, 2], .set [0]] s1 = { s1 with chainsIdx := [2, 0, 1] } := by decide +kernel

/-- … it restores exactly when the leading `add_used_chains` statements add nothing new; in particular whenever the
first statement binds a new list (`set_used_chains`, `set_used_res`: the case every caller inside the library is in),
and from the full selection only if the indices are valid -/
theorem keep_live_iff (E : Env) (stmts : List SelStmt) (s : St) :
    execKeepLive E stmts s = s ↔ savedLive stmts s.chainsIdx = s.chainsIdx := by
  have hk := keep_copy_restores E stmts s
  constructor
  · intro h
    have := congrArg St.chainsIdx h
    simpa [execKeepLive] using this
  · intro h
    have h2 : execKeepLive E stmts s = restoreChains s (runSel E stmts s) := by
      simp [execKeepLive, restoreChains, h]
    rw [h2, hk]

theorem keep_live_after_rebinding (E : Env) (rest : List SelStmt) (s : St) :
    (∀ l, execKeepLive E (.set l :: rest) s = s) ∧ (∀ r, execKeepLive E (.res r :: rest) s = s) ∧
    execKeepLive E [] s = s :=
  ⟨fun _ => (keep_live_iff E _ s).2 rfl, fun _ => (keep_live_iff E _ s).2 rfl, (keep_live_iff E _ s).2 rfl⟩

/-! ## `temp_total_gls_one` on objects shared between chains -/

/-- ★ `restore_shared_objects`: the save-all-then-set-all loop of `temp_total_gls_one` restores the `mask_factor` flag of
EVERY object, for **any** visiting sequence (any order, any repetitions: a decay object shared by any number of chains),
any flags at entry, and any body — normal exit or exception, the restore loop sits in `finally` — that keeps the set of
objects and does not itself change the flag of an object outside the visiting sequence. -/
theorem restore_shared_objects (visit : List Nat) (body : List Bool → List Bool)
    (hbody : ∀ x, (body x).length = x.length ∧ ∀ j, j ∉ visit → getFlag (body x) j = getFlag x j) (m : List Bool) :
    glsOneObjs visit body m = m := by
  have hlen : (body (setAllTrue m visit)).length = m.length := by
    rw [(hbody _).1, setAllTrue_length]
  apply eq_of_getFlag
  · simp only [glsOneObjs]
    rw [restoreAll_length, hlen]
  · intro j
    simp only [glsOneObjs]
    rw [restoreAll_get m visit _ hlen j]
    split
    · rfl
    · rename_i hj
      rw [(hbody _).2 j hj, setAllTrue_other visit m j hj]

/-- the hypothesis is satisfiable by a body that DOES change flags (of visited objects), with a shared object -/
example : (∀ x : List Bool, ((fun y : List Bool => y.set 0 false) x).length = x.length ∧
    ∀ j, j ∉ [0, 1, 2, 0, 3, 4, 0, 5, 6] → getFlag ((fun y : List Bool => y.set 0 false) x) j = getFlag x j) := by
  intro x
  refine ⟨by simp, fun j hj => ?_⟩
  have : ¬ 0 = j := by intro h; subst h; simp at hj
  simp [getFlag, this]

/-- the fused loop (read the old flag and set the new one in ONE pass: seeded change C17-01) is refuted by the smallest
sharing pattern: two chains that share decay object 0 (`visit = [0, 1, 0]`), all flags `False`, an empty body — the
second visit of object 0 records the `True` the first visit wrote, and "restores" it -/
theorem fused_loop_refuted :
    glsOneFused [0, 1, 0] id [false, false] = [true, false] ∧ glsOneObjs [0, 1, 0] id [false, false] = [false, false] ∧
    -- model B of the harness: chain, shared decay 1, two own decays, per chain
    glsOneFused [0, 1, 2, 3, 4, 1, 5, 6, 7, 1, 8, 9] id (List.replicate 10 false)
      = [false, true, false, false, false, false, false, false, false, false] := by decide +kernel

/-- without repetitions the two loops agree — which is why model A (every chain its own decay objects) cannot tell them
apart: stated for the visiting sequences of model A and of any 3 chains with own decays -/
theorem fused_loop_ok_without_sharing (m : List Bool) (hm : m.length = 9) :
    glsOneFused [0, 1, 2, 3, 4, 5, 6, 7, 8] id m = m := by
  match m, hm with
  | [a, b, c, d, e, f, g, h, i], _ => simp [glsOneFused, fusedSave, restoreAll, getFlag]

/-- the `temp_total_gls_one` block of the program semantics (`Override.execBlock`: flags per DISTINCT object, entry
`map (fun _ => true)`, exit "put the entry flags back") IS the per-object loop of the code for every visiting sequence that
reaches every object, whatever it repeats: same flags inside the body, and the restore loop ends in the entry flags
whatever flags `m'` the body leaves on the same objects -/
theorem gls_one_block_is_per_object (visit : List Nat) (m m' : List Bool) (hcov : ∀ j, j < m.length → j ∈ visit)
    (hlen : m'.length = m.length) :
    setAllTrue m visit = (m.map fun _ => true) ∧ restoreAll m' visit (saveAll m visit) = m := by
  refine ⟨setAllTrue_covers visit m hcov, ?_⟩
  apply eq_of_getFlag
  · rw [restoreAll_length, hlen]
  · intro j
    rw [restoreAll_get m visit m' hlen j]
    by_cases hlt : j < m.length
    · simp [hcov j hlt]
    · split
      · rfl
      · have h1 : m[j]? = none := List.getElem?_eq_none_iff.mpr (by omega)
        have h2 : m'[j]? = none := List.getElem?_eq_none_iff.mpr (by omega)
        simp [getFlag, h1, h2]

/-- the visiting sequences of the three rigs of the harness reach every object (A: own decays; B, C: decay 1 shared) -/
example : (∀ j, j < 9 → j ∈ [0, 1, 2, 3, 4, 5, 6, 7, 8]) ∧ (∀ j, j < 10 → j ∈ [0, 1, 2, 3, 4, 1, 5, 6, 7, 1, 8, 9]) := by
  constructor <;> intro j hj <;> simp <;> omega

/-- `fit_fractions` / `ConfigLoader.cal_fitfractions` with `res` given as NESTED lists: `set_used_res` rejects the inner list
(`TypeError`) inside the `keep_used_chains` of the fit-fraction routine (method "new": after the evaluation of the total),
inside `temp_params`: any `params`, any state — raised and restored -/
theorem restore_fit_fractions_nested_res (E : Env) (params : List (Nat × PV)) (f : Option Nat) (s : St) :
    (execY Fix.all E (.block (.absTemp params) (.keepChains .raise)) s).1 = s ∧
    (execY Fix.all E (.block (.absTemp params) (.keepChains (.seq (.compute (.evalN 1) f) .raise))) s).1 = s :=
  ⟨restoreY_all E _ rfl rfl s, restoreY_all E _ rfl rfl s⟩

/-! ## the entry points of round 4 -/

/-- `CachedShapeAmplitudeModel.pdf` (after fixes/C17-cached_shape.diff): any subset of chains, the evaluation raising or not,
any state (restricted selection, stale `not_full`, …) -/
theorem restore_cached_shape_pdf (E : Env) (subset : List Nat) (fault : Option Nat) (s : St) :
    (execY Fix.all E (cachedShapePdf subset fault) s).1 = s :=
  restoreY_all E _ rfl rfl s

/-- `CachedShapePreProcessor.build_cached` (after the patch), with its `temp_total_gls_one` inside -/
theorem restore_build_cached (E : Env) (cached : List Nat) (fault : Option Nat) (s : St) :
    (execY Fix.all E (buildCached cached fault) s).1 = s :=
  restoreY_all E _ rfl rfl s

/-- AS IT IS both restore on a normal exit from a state whose `not_full` flag is consistent … -/
theorem asis_cached_shape_normal_consistent (E : Env) (l : List Nat) (s : St) (hwf : WF E s) :
    cachedShapePdfAsIs E l none s = (s, false) ∧ buildCachedAsIs E l none s = (s, false) := by
  constructor
  · apply saveRunRestore_asis E _ s hwf <;>
    · intro st h
      simp only [List.mem_cons, List.not_mem_nil, or_false] at h
      rcases h with h | h <;> subst h <;> rfl
  · have hw : (s.chainsIdx.length != E.nChains) = s.notFull := hwf.symm
    simp [buildCachedAsIs, execY, execBlock, execComp, Fix.all, evals, runSteps, setUsedChains, hw]

/-- … and leak otherwise (the findings `CachedShape*:eval-raised:*`, `…:normal:stale-not_full:not_full` replayed on the
real objects by harness/c17_y.py): the evaluation raising leaves the subset selected; a stale `not_full` is cleared -/
theorem asis_cached_shape_leaks :
    cachedShapePdfAsIs E0 [1] (some 0) s0 = ({ s0 with chainsIdx := [1], notFull := true }, true) ∧
    buildCachedAsIs E0 [0, 2] (some 0) s0 = ({ s0 with chainsIdx := [0, 2], notFull := true }, true) ∧
    cachedShapePdfAsIs E0 [1] none { s0 with notFull := true } = (s0, false) ∧
    buildCachedAsIs E0 [0, 2] none { s0 with notFull := true } = (s0, false) ∧
    cachedShapePdfAsIs E0 [] (some 0) s1 = ({ s1 with chainsIdx := [] }, true) := by decide +kernel

/-- `attach_fix_params_error(params)` for parameters that are fixed at entry (its documented use; distinct names): the
state is restored on a normal exit as it is, and on every exit after fixes/C17-attach_fix_params_error.diff — in
particular the ORDER of `trainable_vars` -/
theorem restore_attach_fix_params_error (vs : List Nat) (s : St) (hnd : vs.Nodup) (hfixed : ∀ v ∈ vs, v ∉ s.trainable) :
    attachFixParamsError false vs false s = (s, false) ∧
    ∀ fault, (attachFixParamsError true vs fault s).1 = s := by
  have h : fixVars (freeVars s.trainable vs) vs = s.trainable := by
    rw [freeVars_append s.trainable vs hnd hfixed, fixVars_append s.trainable vs hnd hfixed]
  refine ⟨by simp [attachFixParamsError, h], fun fault => by simp [attachFixParamsError, h]⟩

example : [1, 4].Nodup ∧ ∀ v ∈ [1, 4], v ∉ s0.trainable := by decide

/-- as it is, the Hessian raising leaves the parameters free (appended to `trainable_vars`); and a parameter that was
already free at entry ends up FIXED (any variant) -/
theorem asis_attach_fix_params_error_leaks :
    attachFixParamsError false [1] true s0 = ({ s0 with trainable := [0, 2, 3, 1] }, true) ∧
    attachFixParamsError true [2] false s0 = ({ s0 with trainable := [0, 3] }, false) := by decide +kernel

end TfPwaV.C17
