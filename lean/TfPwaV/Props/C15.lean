import TfPwaV.Proofs.LineShape
/-!
# C15 — Line shapes equal their documented formulas

Theorems about `TfPwaV.LineShapeR`, the ℝ-instance of `templates/LineShape.lean.in` (the *same text* is
instantiated at Float and compared with `tf_pwa.breit_wigner`, `tf_pwa.formula` and the registered particle
models on every run), and about the coefficient tables `TfPwaV.BprimeTable` which are re-extracted from the
source on every run.  The documented formulas are written in Mathlib's `ℂ` (`toC : Cx → ℂ`).

Headline theorems are stated for the functions the current tree implements (`BWR2` = `breit_wigner.BWR2` after
repository commit a7b0d13, double-precision constants after 6f9a2f7; the `f32` flag of `GS`/`BWRcoupling` is
universally quantified).  Refutations that stay: the legacy `BWR2` (before a7b0d13) is the complex conjugate of the
documented formula (`BWR2legacy_eq_conj_spec`, `BWR2legacy_im_neg`, `BWR2legacy_at_m0`,
`BWR2legacy_ne_spec_witness`), and `BWR_LS` with the default `fix_bug1=False` differs from its documentation
(`BWRLS_nofix_ne_doc`, listed finding `BWR_LS:width-m-over-m0`).
-/
open TfPwaV.ScalarR TfPwaV.BprimeTable TfPwaV.Bessel
namespace TfPwaV.C15
open TfPwaV.LineShapeR

/-! ## Tables (translator): coefficients in the source = |θ_L(i w)|² -/

/-- the division in the reverse Bessel coefficient `(n+k)!/((n-k)! k! 2^k)` is exact (n ≤ 8) -/
theorem revBessel_div_exact : ∀ n ∈ List.range 9, ∀ k ∈ List.range (n + 1), fact (n + k) % revBesselDen n k = 0 := by
  decide +kernel

/-- the closed formula agrees with the recurrence θ_n = (2n-1) θ_{n-1} + x² θ_{n-2} (independent definition) -/
theorem theta_eq_recurrence : ∀ n ∈ List.range 9, theta n = thetaRec n := by decide +kernel

/-- `|θ_L(i w)|²` has only even powers of `w` -/
theorem thetaAbsSq_odd_vanish : ∀ L ∈ List.range 9, ∀ c ∈ thetaAbsSqOdd L, c = 0 := by decide +kernel

/-- coefficients used by `breit_wigner.Bprime_polynomial` (hard-coded 0..5, generated 6..8) are `|θ_L(i w)|²` -/
theorem bprime_table_tf : ∀ L ∈ List.range 9, (tfCoeff L).map Int.ofNat = thetaAbsSq L := by decide +kernel

/-- coefficients used by `formula.Bprime_polynomial` (sympy side) are `|θ_L(i w)|²` -/
theorem bprime_table_sym : ∀ L ∈ List.range 9, (symCoeff L).map Int.ofNat = thetaAbsSq L := by decide +kernel


/-- the polynomial the code evaluates IS `|θ_L(i w)|²` as a function: for every real `w` and L ≤ 8,
`Bprime_polynomial(L, w²) = |θ_L(i w)|²` with θ_L the reverse Bessel polynomial evaluated in Mathlib's ℂ -/
theorem BprimePolynomial_eq_normSq_theta (L : ℕ) (hL : L ≤ 8) (w : ℝ) :
    BprimePolynomial L (w * w) = Complex.normSq (evalAsc (theta L) (Complex.I * w)) := by
  have ht := thetaTab L (List.mem_range.mpr (by omega))
  symm
  interval_cases L <;>
    (rw [ht]; simp [evalAsc, Complex.normSq_apply, BprimePolynomial, tfCoeff, polyval, kofNat] <;> ring)

/-! ## Barrier factors -/

/-- `Bprime(L, q0, q0, d) = 1` for every L ≤ 8, every q0 and d (no guard is needed: `(q0 d)² ≥ 0`) -/
theorem Bprime_self (L : ℕ) (hL : L ≤ 8) (q0 d : ℝ) : Bprime L q0 q0 d = 1 := by
  have hp := BprimePolynomial_pos L hL ((q0 * d) * (q0 * d)) (mul_self_nonneg _)
  unfold Bprime BprimeNum ksqrt
  exact div_self (Real.sqrt_pos.mpr hp).ne'

/-- `Bprime² = P_L((q0 d)²) / P_L((q d)²)`: the docstring table (L = 0, 1, 2) and its continuation to L ≤ 8 -/
theorem Bprime_sq (L : ℕ) (hL : L ≤ 8) (q q0 d : ℝ) :
    Bprime L q q0 d * Bprime L q q0 d
      = BprimePolynomial L ((q0 * d) * (q0 * d)) / BprimePolynomial L ((q * d) * (q * d)) := by
  have h0 := BprimePolynomial_pos L hL ((q0 * d) * (q0 * d)) (mul_self_nonneg _)
  have h1 := BprimePolynomial_pos L hL ((q * d) * (q * d)) (mul_self_nonneg _)
  unfold Bprime BprimeNum ksqrt
  rw [div_mul_div_comm, Real.mul_self_sqrt h0.le, Real.mul_self_sqrt h1.le]

/-- the docstring rows of `Bprime`: L = 1 and L = 2 -/
theorem Bprime_doc_L1 (q q0 d : ℝ) :
    Bprime 1 q q0 d = Real.sqrt ((q0 * d) ^ 2 + 1) / Real.sqrt ((q * d) ^ 2 + 1) := by
  simp [Bprime, BprimeNum, BprimePolynomial, tfCoeff, polyval, kofNat, ksqrt]
  ring_nf
theorem Bprime_doc_L2 (q q0 d : ℝ) :
    Bprime 2 q q0 d = Real.sqrt ((q0 * d) ^ 4 + 3 * (q0 * d) ^ 2 + 9) / Real.sqrt ((q * d) ^ 4 + 3 * (q * d) ^ 2 + 9) := by
  simp [Bprime, BprimeNum, BprimePolynomial, tfCoeff, polyval, kofNat, ksqrt]
  ring_nf

/-- the q²-based barrier factor agrees with the q-based one above threshold (q² = q·q, q0² = q0·q0) -/
theorem BprimeQ2_eq_Bprime (L : ℕ) (hL : L ≤ 8) (q q0 d : ℝ) :
    BprimeQ2 L (q * q) (q0 * q0) d = Bprime L q q0 d := by
  have h0 := BprimePolynomial_pos L hL ((q0 * d) * (q0 * d)) (mul_self_nonneg _)
  have h1 := BprimePolynomial_pos L hL ((q * d) * (q * d)) (mul_self_nonneg _)
  have e0 : q0 * q0 * (d * d) = (q0 * d) * (q0 * d) := by ring
  have e1 : q * q * (d * d) = (q * d) * (q * d) := by ring
  unfold BprimeQ2 Bprime BprimeNum ksqrt
  simp only [e0, e1]
  rw [if_pos (div_pos h0 h1), Real.sqrt_div h0.le]

/-- below threshold (any real q², also negative, also at a zero of the polynomial) the guard
`bp > 0 ? bp : 1` keeps `Bprime_q2` a positive real number whose square is `bp` or 1 -/
theorem BprimeQ2_pos (L : ℕ) (q2 q02 d : ℝ) : 0 < BprimeQ2 L q2 q02 d := by
  unfold BprimeQ2 ksqrt
  apply Real.sqrt_pos.mpr
  split_ifs with h
  · exact h
  · exact one_pos

theorem BprimeQ2_sq (L : ℕ) (q2 q02 d : ℝ) :
    BprimeQ2 L q2 q02 d * BprimeQ2 L q2 q02 d =
      (if BprimePolynomial L (q02 * (d * d)) / BprimePolynomial L (q2 * (d * d)) > 0
        then BprimePolynomial L (q02 * (d * d)) / BprimePolynomial L (q2 * (d * d)) else 1) := by
  unfold BprimeQ2 ksqrt
  apply Real.mul_self_sqrt
  split_ifs with h
  · exact h.le
  · exact zero_le_one

/-- the excluded case of the Float execution: for odd L the polynomial has a negative real zero
(L = 1: z = q² d² = -1), where `bp` is a division by zero (`inf` in IEEE, `1` after the guard only if `-inf`) -/
theorem BprimePolynomial_zero_L1 : BprimePolynomial 1 (-1) = 0 := by
  simp [BprimePolynomial, tfCoeff, polyval, kofNat]

/-! ## Running width -/

/-- `Gamma` is the documented `Γ0 (q/q0)^(2L+1) (m0/m) B_L'²(q,q0,d)` in the regular branch `q0 > 1e-15` -/
theorem Gamma_eq_spec (L : ℕ) (hL : L ≤ 8) (m g0 q q0 m0 d : ℝ) (hq0 : eps15 < q0) :
    Gamma L m g0 q q0 m0 d
      = g0 * (q / q0) ^ (2 * L + 1) * (m0 / m)
        * (BprimePolynomial L ((q0 * d) * (q0 * d)) / BprimePolynomial L ((q * d) * (q * d))) := by
  unfold Gamma
  simp only [if_pos hq0, kpowN_eq, Bprime_sq L hL]

/-- the guard branch `q0 ≤ 1e-15`: the momentum ratio is replaced by 1 -/
theorem Gamma_guard_branch (L : ℕ) (m g0 q q0 m0 d : ℝ) (hq0 : q0 ≤ eps15) :
    Gamma L m g0 q q0 m0 d = g0 * 1 * (m0 / m) * (Bprime L q q0 d * Bprime L q q0 d) := by
  unfold Gamma
  simp only [if_neg (not_lt.mpr hq0)]

/-- `Γ(m0) = Γ0` -/
theorem Gamma_at_m0 (L : ℕ) (hL : L ≤ 8) (g0 q0 m0 d : ℝ) (hq0 : eps15 < q0) (hm0 : m0 ≠ 0) :
    Gamma L m0 g0 q0 q0 m0 d = g0 := by
  have hq : q0 ≠ 0 := (lt_trans eps15_pos hq0).ne'
  unfold Gamma
  simp only [if_pos hq0, kpowN_eq, Bprime_self L hL, div_self hq, div_self hm0, one_pow, mul_one]

/-- the running width is positive for positive `Γ0`, masses and momenta -/
theorem Gamma_pos (L : ℕ) (hL : L ≤ 8) (m g0 q q0 m0 d : ℝ) (hq0 : eps15 < q0) (hq : 0 < q) (hm : 0 < m)
    (hm0 : 0 < m0) (hg : 0 < g0) : 0 < Gamma L m g0 q q0 m0 d := by
  have h0 := BprimePolynomial_pos L hL ((q0 * d) * (q0 * d)) (mul_self_nonneg _)
  have h1 := BprimePolynomial_pos L hL ((q * d) * (q * d)) (mul_self_nonneg _)
  have hq0' : 0 < q0 := lt_trans eps15_pos hq0
  rw [Gamma_eq_spec L hL _ _ _ _ _ _ hq0]
  positivity

/-! ## BW and BWR -/

/-- `BW(m) = 1/(m0² - m² - i m0 Γ0)` (Mathlib ℂ), wherever the denominator is not zero -/
theorem BW_eq_spec (m m0 g0 : ℝ) (_hden : m0 * g0 ≠ 0 ∨ m0 * m0 ≠ m * m) :
    toC (BW m m0 g0) = 1 / ((m0 : ℂ) ^ 2 - (m : ℂ) ^ 2 - Complex.I * m0 * g0) := by
  unfold BW
  simp only [toC_mk]
  rw [inv_sub_I]
  push_cast
  ring_nf

/-- positive imaginary part for positive mass and width -/
theorem BW_im_pos (m m0 g0 : ℝ) (hm0 : 0 < m0) (hg : 0 < g0) : 0 < (BW m m0 g0).im := by
  unfold BW
  simp only
  have : 0 < m0 * g0 := mul_pos hm0 hg
  exact div_pos this (add_pos_of_nonneg_of_pos (mul_self_nonneg _) (mul_pos this this))

/-- the value at the pole mass is `i/(m0 Γ0)` -/
theorem BW_at_m0 (m0 g0 : ℝ) (h : m0 * g0 ≠ 0) : toC (BW m0 m0 g0) = Complex.I / (m0 * g0) := by
  rw [BW_eq_spec _ _ _ (Or.inl h)]
  have h' : (m0 : ℂ) * g0 ≠ 0 := by exact_mod_cast h
  have h'' : (m0 : ℂ) ^ 2 - (m0 : ℂ) ^ 2 - Complex.I * m0 * g0 ≠ 0 := by
    rw [sub_self, zero_sub, neg_ne_zero, mul_assoc]
    exact mul_ne_zero Complex.I_ne_zero h'
  rw [div_eq_div_iff h'' h']
  linear_combination ((m0 : ℂ) * g0) * Complex.I_sq

/-- `BWR(m) = 1/(m0² - m² - i m0 Γ(m))` with the documented running width, L ≤ 8, regular branch -/
theorem BWR_eq_spec (L : ℕ) (hL : L ≤ 8) (m m0 g0 q q0 d : ℝ) (hq0 : eps15 < q0)
    (_hden : m0 * Gamma L m g0 q q0 m0 d ≠ 0 ∨ m0 * m0 ≠ m * m) :
    toC (BWR L m m0 g0 q q0 d)
      = 1 / ((m0 : ℂ) ^ 2 - (m : ℂ) ^ 2 - Complex.I * m0 *
          ((g0 * (q / q0) ^ (2 * L + 1) * (m0 / m)
            * (BprimePolynomial L ((q0 * d) * (q0 * d)) / BprimePolynomial L ((q * d) * (q * d))) : ℝ) : ℂ)) := by
  rw [← Gamma_eq_spec L hL m g0 q q0 m0 d hq0]
  unfold BWR
  simp only [toC_mk]
  rw [inv_sub_I]
  push_cast
  ring_nf

theorem BWR_im_pos (L : ℕ) (hL : L ≤ 8) (m m0 g0 q q0 d : ℝ) (hq0 : eps15 < q0) (hq : 0 < q) (hm : 0 < m)
    (hm0 : 0 < m0) (hg : 0 < g0) : 0 < (BWR L m m0 g0 q q0 d).im := by
  have hG := Gamma_pos L hL m g0 q q0 m0 d hq0 hq hm hm0 hg
  unfold BWR
  simp only
  have : 0 < m0 * Gamma L m g0 q q0 m0 d := mul_pos hm0 hG
  exact div_pos this (add_pos_of_nonneg_of_pos (mul_self_nonneg _) (mul_pos this this))

theorem BWR_at_m0 (L : ℕ) (hL : L ≤ 8) (m0 g0 q0 d : ℝ) (hq0 : eps15 < q0) (h : m0 * g0 ≠ 0) :
    toC (BWR L m0 m0 g0 q0 q0 d) = Complex.I / (m0 * g0) := by
  have hm0 : m0 ≠ 0 := left_ne_zero_of_mul h
  have hb : BWR L m0 m0 g0 q0 q0 d = BW m0 m0 g0 := by
    unfold BWR BW
    simp only [Gamma_at_m0 L hL g0 q0 m0 d hq0 hm0]
  rw [hb, BW_at_m0 _ _ h]


/-! ## BWR2 / BWR_normal (q²-based, complex width) -/

/-- the denominator `d = x - 1j*y` of the code is `m0² - m² - i m0 Γ₂(m)` -/
theorem bwr2Den_eq (L : ℕ) (m m0 g0 q2 q02 d : ℝ) :
    toC (bwr2Den L m m0 g0 q2 q02 d)
      = (m0 : ℂ) ^ 2 - (m : ℂ) ^ 2 - Complex.I * m0 * toC (Gamma2 L m g0 q2 q02 m0 d) := by
  unfold bwr2Den
  simp only [toC_sub, toC_mul, toC_I, toC_ofReal]
  push_cast
  ring

/-- `BWR2` (current tree) is the documented `1/(m0² - m² - i m0 Γ(m))`, complex width allowed, all inputs -/
theorem BWR2_eq_spec (L : ℕ) (m m0 g0 q2 q02 d : ℝ) :
    toC (BWR2 L m m0 g0 q2 q02 d)
      = 1 / ((m0 : ℂ) ^ 2 - (m : ℂ) ^ 2 - Complex.I * m0 * toC (Gamma2 L m g0 q2 q02 m0 d)) := by
  rw [← bwr2Den_eq]
  unfold BWR2
  exact inv_toC _

/-- LEGACY (before a7b0d13): `BWR2` was the complex CONJUGATE of its documented formula, for all inputs -/
theorem BWR2legacy_eq_conj_spec (L : ℕ) (m m0 g0 q2 q02 d : ℝ) :
    toC (BWR2legacy L m m0 g0 q2 q02 d)
      = (starRingEnd ℂ) (1 / ((m0 : ℂ) ^ 2 - (m : ℂ) ^ 2 - Complex.I * m0 * toC (Gamma2 L m g0 q2 q02 m0 d))) := by
  rw [← BWR2_eq_spec]
  apply Complex.ext <;> simp [BWR2legacy, BWR2, neg_div]

/-- above threshold (`q² = q·q`, `q0² = q0·q0`, q ≥ 0 < q0) the complex width is the real `Gamma` -/
theorem Gamma2_eq_Gamma (L : ℕ) (hL : L ≤ 8) (m g0 q q0 m0 d : ℝ) (hq : 0 ≤ q) (hq0 : eps15 < q0) :
    Gamma2 L m g0 (q * q) (q0 * q0) m0 d = ⟨Gamma L m g0 q q0 m0 d, 0⟩ := by
  have hq0' : 0 < q0 := lt_trans eps15_pos hq0
  have hr : 0 ≤ q / q0 := div_nonneg hq hq0'.le
  have e : q * q / (q0 * q0) = (q / q0) * (q / q0) := by field_simp
  have e0 : q0 * q0 * (d * d) = (q0 * d) * (q0 * d) := by ring
  have e1 : q * q * (d * d) = (q * d) * (q * d) := by ring
  rw [Gamma_eq_spec L hL m g0 q q0 m0 d hq0]
  unfold Gamma2 Cx.sqrt Cx.ofReal Cx.mul ksqrt
  simp only [e, e0, e1, kpowN_eq, lt_irrefl, if_false, not_lt.mpr (mul_self_nonneg (q / q0)),
    Real.sqrt_mul_self hr]
  congr 1
  · rw [← pow_two, ← pow_mul]; ring
  · ring

/-- hence `BWR2` coincides with `BWR` above threshold (what the `BWR2` class docstring claims) … -/
theorem BWR2_eq_BWR (L : ℕ) (hL : L ≤ 8) (m m0 g0 q q0 d : ℝ) (hq : 0 ≤ q) (hq0 : eps15 < q0) :
    BWR2 L m m0 g0 (q * q) (q0 * q0) d = BWR L m m0 g0 q q0 d := by
  unfold BWR2 bwr2Den BWR
  rw [Gamma2_eq_Gamma L hL m g0 q q0 m0 d hq hq0]
  simp [Cx.mul, Cx.sub, Cx.ofReal]

/-- … while the legacy `BWR2` was the conjugate of `BWR` there -/
theorem BWR2legacy_eq_conj_BWR (L : ℕ) (hL : L ≤ 8) (m m0 g0 q q0 d : ℝ) (hq : 0 ≤ q) (hq0 : eps15 < q0) :
    BWR2legacy L m m0 g0 (q * q) (q0 * q0) d = (BWR L m m0 g0 q q0 d).conj := by
  unfold BWR2legacy bwr2Den BWR Cx.conj
  rw [Gamma2_eq_Gamma L hL m g0 q q0 m0 d hq hq0]
  simp [Cx.mul, Cx.sub, Cx.ofReal, neg_div]

/-- positive imaginary part of `BWR2` for positive width above threshold -/
theorem BWR2_im_pos (L : ℕ) (hL : L ≤ 8) (m m0 g0 q q0 d : ℝ) (hq0 : eps15 < q0) (hq : 0 < q) (hm : 0 < m)
    (hm0 : 0 < m0) (hg : 0 < g0) : 0 < (BWR2 L m m0 g0 (q * q) (q0 * q0) d).im := by
  rw [BWR2_eq_BWR L hL m m0 g0 q q0 d hq.le hq0]
  exact BWR_im_pos L hL m m0 g0 q q0 d hq0 hq hm hm0 hg

/-- LEGACY: negative imaginary part for positive width (the documented propagator has Im > 0) -/
theorem BWR2legacy_im_neg (L : ℕ) (hL : L ≤ 8) (m m0 g0 q q0 d : ℝ) (hq0 : eps15 < q0) (hq : 0 < q) (hm : 0 < m)
    (hm0 : 0 < m0) (hg : 0 < g0) : (BWR2legacy L m m0 g0 (q * q) (q0 * q0) d).im < 0 := by
  rw [BWR2legacy_eq_conj_BWR L hL m m0 g0 q q0 d hq.le hq0]
  have := BWR_im_pos L hL m m0 g0 q q0 d hq0 hq hm hm0 hg
  simp only [Cx.conj]
  linarith

/-- LEGACY: at m = m0 the old `BWR2` gave `-i/(m0 Γ0)`; the current one gives `+i/(m0 Γ0)` (`BWR2_at_m0`) -/
theorem BWR2legacy_at_m0 (L : ℕ) (hL : L ≤ 8) (m0 g0 q0 d : ℝ) (hq0 : eps15 < q0) (h : m0 * g0 ≠ 0) :
    toC (BWR2legacy L m0 m0 g0 (q0 * q0) (q0 * q0) d) = -(Complex.I / (m0 * g0)) := by
  have hq0' : 0 < q0 := lt_trans eps15_pos hq0
  rw [BWR2legacy_eq_conj_BWR L hL m0 m0 g0 q0 q0 d hq0'.le hq0, toC_conj, BWR_at_m0 L hL m0 g0 q0 d hq0 h]
  simp [map_div₀, Complex.conj_I, neg_div]

theorem BWR2_at_m0 (L : ℕ) (hL : L ≤ 8) (m0 g0 q0 d : ℝ) (hq0 : eps15 < q0) (h : m0 * g0 ≠ 0) :
    toC (BWR2 L m0 m0 g0 (q0 * q0) (q0 * q0) d) = Complex.I / (m0 * g0) := by
  have hq0' : 0 < q0 := lt_trans eps15_pos hq0
  rw [BWR2_eq_BWR L hL m0 m0 g0 q0 q0 d hq0'.le hq0, BWR_at_m0 L hL m0 g0 q0 d hq0 h]

/-- LEGACY, concrete witness (replayed on the real function before a7b0d13): m = m0 = Γ0 = q² = q0² = 1, L = 0, d = 3:
the old code returned `-i`, the documented value is `+i` -/
theorem BWR2legacy_ne_spec_witness :
    toC (BWR2legacy 0 1 1 1 1 1 3) = -Complex.I ∧
    1 / (((1 : ℝ) : ℂ) ^ 2 - ((1 : ℝ) : ℂ) ^ 2 - Complex.I * ((1 : ℝ) : ℂ) * toC (Gamma2 0 1 1 1 1 1 3)) = Complex.I ∧
    toC (BWR2legacy 0 1 1 1 1 1 3) ≠
      1 / (((1 : ℝ) : ℂ) ^ 2 - ((1 : ℝ) : ℂ) ^ 2 - Complex.I * ((1 : ℝ) : ℂ) * toC (Gamma2 0 1 1 1 1 1 3)) := by
  have hq0 : eps15 < (1 : ℝ) := by unfold eps15; norm_num
  have h1 := BWR2legacy_at_m0 0 (by norm_num) 1 1 1 3 hq0 (by norm_num)
  have h2 := BWR2_at_m0 0 (by norm_num) 1 1 1 3 hq0 (by norm_num)
  rw [BWR2_eq_spec] at h2
  simp only [mul_one, Complex.ofReal_one, div_one] at h1 h2
  refine ⟨h1, ?_, ?_⟩
  · simpa using h2
  · rw [h1]
    have : (1 : ℂ) / (((1 : ℝ) : ℂ) ^ 2 - ((1 : ℝ) : ℂ) ^ 2 - Complex.I * ((1 : ℝ) : ℂ) * toC (Gamma2 0 1 1 1 1 1 3)) = Complex.I := by
      simpa using h2
    rw [this]
    intro h
    have := congrArg Complex.im h
    simp at this
    norm_num at this

/-- `BWR_normal = sqrt(m0 Γ(m)) / (m0² - m² - i m0 Γ(m))` with the model's principal root `Cx.sqrt` -/
theorem BWRnormal_eq_spec (L : ℕ) (m m0 g0 q2 q02 d : ℝ) :
    toC (BWRnormal L m m0 g0 q2 q02 d)
      = toC ((Cx.ofReal m0).mul (Gamma2 L m g0 q2 q02 m0 d)).sqrt
        / ((m0 : ℂ) ^ 2 - (m : ℂ) ^ 2 - Complex.I * m0 * toC (Gamma2 L m g0 q2 q02 m0 d)) := by
  rw [← bwr2Den_eq]
  unfold BWRnormal
  exact toC_div _ _

/-- above threshold with a non-negative width the numerator is the real square root -/
theorem BWRnormal_above (L : ℕ) (hL : L ≤ 8) (m m0 g0 q q0 d : ℝ) (hq : 0 ≤ q) (hq0 : eps15 < q0)
    (hG : 0 ≤ m0 * Gamma L m g0 q q0 m0 d) :
    toC (BWRnormal L m m0 g0 (q * q) (q0 * q0) d)
      = (Real.sqrt (m0 * Gamma L m g0 q q0 m0 d) : ℂ)
        / ((m0 : ℂ) ^ 2 - (m : ℂ) ^ 2 - Complex.I * m0 * (Gamma L m g0 q q0 m0 d : ℂ)) := by
  rw [BWRnormal_eq_spec, Gamma2_eq_Gamma L hL m g0 q q0 m0 d hq hq0]
  have : ((Cx.ofReal m0).mul ⟨Gamma L m g0 q q0 m0 d, 0⟩).sqrt = ⟨Real.sqrt (m0 * Gamma L m g0 q q0 m0 d), 0⟩ := by
    simp [Cx.sqrt, Cx.mul, Cx.ofReal, ksqrt, not_lt.mpr hG]
  rw [this]
  congr 1


/-- the numerator of `BWR_normal` is the PRINCIPAL square root of `m0 Γ(m)` for every (complex) width, also
below threshold: it squares to `m0 Γ(m)`, has Re ≥ 0, and Im ≥ 0 when Re = 0 -/
theorem BWRnormal_numerator_principal (L : ℕ) (m m0 g0 q2 q02 d : ℝ) :
    let n := ((Cx.ofReal m0).mul (Gamma2 L m g0 q2 q02 m0 d)).sqrt
    toC n * toC n = (m0 : ℂ) * toC (Gamma2 L m g0 q2 q02 m0 d) ∧ 0 ≤ n.re ∧ (n.re = 0 → 0 ≤ n.im) := by
  intro n
  refine ⟨?_, Cx.sqrt_principal _⟩
  rw [Cx.sqrt_mul_self, toC_mul, toC_ofReal]

/-- below threshold (`q² < 0 < q0²`) the width of the q²-based models is purely imaginary, `Γ = i·|Γ|`-like:
`(q²/q0²)^L sqrt(-q²/q0²) Γ0 (m0/m) P(z0)/P(z)` on the imaginary axis (principal root of the negative ratio) -/
theorem Gamma2_below (L : ℕ) (m g0 q2 q02 m0 d : ℝ) (hq2 : q2 < 0) (hq02 : 0 < q02) :
    Gamma2 L m g0 q2 q02 m0 d
      = ⟨0, (q2 / q02) ^ L * Real.sqrt (-(q2 / q02))
            * (g0 * (BprimePolynomial L (q02 * (d * d)) / BprimePolynomial L (q2 * (d * d))) * (m0 / m))⟩ := by
  have hr : q2 / q02 < 0 := div_neg_of_neg_of_pos hq2 hq02
  unfold Gamma2 Cx.sqrt Cx.ofReal Cx.mul ksqrt
  simp only [lt_irrefl, if_false, hr, if_true, kpowN_eq]
  congr 1 <;> ring


/-! ## BWR_coupling -/

/-- `1/(m0² - m² - i m0 Γ0 (q/m) q^{2L} B_L'²(q, 1/d, d))`, `B_L'²(q,1/d,d) = P_L(1)/P_L((q d)²)`;
holds for both settings of the float32 flag (rounding is the identity over ℝ) -/
theorem BWRcoupling_eq_spec (f32 : Bool) (L : ℕ) (m m0 g0 q d : ℝ) (hq : 0 ≤ q) :
    toC (BWRcoupling f32 L m m0 g0 (q * q) d)
      = 1 / ((m0 : ℂ) ^ 2 - (m : ℂ) ^ 2 - Complex.I * m0 *
          ((g0 * (q / m) * q ^ (2 * L) * (BprimePolynomial L 1 / BprimePolynomial L ((q * d) * (q * d))) : ℝ) : ℂ)) := by
  have e1 : q * q * (d * d) = (q * d) * (q * d) := by ring
  have hn : (if f32 = true then polyvalF32 ((tfCoeff L).map kofNat) (kf32 1) else BprimePolynomial L 1)
      = BprimePolynomial L 1 := by
    split_ifs
    · rw [polyvalF32_eq]; rfl
    · rfl
  have hpow : (q * q) ^ L = q ^ (2 * L) := by rw [← pow_two, ← pow_mul]
  unfold BWRcoupling
  simp only [hn, toC_mk, ksqrt, Real.sqrt_mul_self hq, kpowN_eq, e1, hpow]
  rw [inv_sub_I]
  push_cast
  ring

/-! ## BWR_LS -/

/-- the documented normalisation `Σ γ_i² = 1` of (cos θ0, sin θ0 cos θ1, …, Π sin θi), any number of angles -/
theorem factorGamma_normalised (thetas : List ℝ) :
    sumFrom 0 ((factorGamma thetas).map fun i => i * i) = 1 := by
  rw [sumFrom_eq, factorGamma, factorGammaAux_sq_sum]
  ring

/-- every partial wave is `g_i / dom` -/
theorem BWRLS_eq_quot (fix : Bool) (ls : List ℕ) (thetas : List ℝ) (m m0 g0 q2 q02 d : ℝ) :
    (BWRLS fix ls thetas m m0 g0 q2 q02 d).map toC
      = (lsTotalGamma ls thetas q2 q02 d).map fun (g : ℝ) => (g : ℂ) / toC (lsDom fix ls thetas m m0 g0 q2 q02 d) := by
  unfold BWRLS
  rw [List.map_map]
  apply List.map_congr_left
  intro g _
  simp [toC_div, toC_ofReal]

/-- with `fix_bug1` the denominator is the documented `m0² - m² - i m0 Γ0 (ρ/ρ0) Σ g_i²`, `ρ = 2q/m`, `ρ0 = 2q0/m0`
(real part, minus imaginary part) -/
theorem BWRLS_fix_eq_doc (ls : List ℕ) (thetas : List ℝ) (m m0 g0 q2 q02 d : ℝ) (hq2 : 0 ≤ q2) (hq02 : 0 < q02)
    (hm : m ≠ 0) (hm0 : m0 ≠ 0) :
    lsDom true ls thetas m m0 g0 q2 q02 d
      = ⟨m0 * m0 - m * m,
         -(m0 * g0 * ((2 * Real.sqrt q2 / m) / (2 * Real.sqrt q02 / m0))
            * ((lsTotalGamma ls thetas q2 q02 d).map fun i => i * i).sum)⟩ := by
  have hs : Real.sqrt q02 ≠ 0 := (Real.sqrt_pos.mpr hq02).ne'
  unfold lsDom
  simp only [if_true, sumFrom_eq, zero_add, ksqrt, Real.sqrt_div hq2]
  congr 2
  field_simp

/-- FINDING: without `fix_bug1` (the default) the width carries `m/m0` instead of `m0/m`: the two
denominators differ whenever the width term is non-zero and m ≠ m0 -/
theorem BWRLS_nofix_ne_doc (ls : List ℕ) (thetas : List ℝ) (m m0 g0 q2 q02 d : ℝ) (hm : 0 < m) (hm0 : 0 < m0)
    (hne : m ≠ m0)
    (hW : m0 * g0 * ksqrt (q2 / q02) * sumFrom 0 ((lsTotalGamma ls thetas q2 q02 d).map fun i => i * i) ≠ 0) :
    lsDom false ls thetas m m0 g0 q2 q02 d ≠ lsDom true ls thetas m m0 g0 q2 q02 d := by
  intro h
  have h2 := congrArg Cx.im h
  unfold lsDom at h2
  simp only [if_true, Bool.false_eq_true, if_false, neg_inj] at h2
  rw [div_eq_div_iff hm0.ne' hm.ne'] at h2
  have h3 : (m0 * g0 * ksqrt (q2 / q02) * sumFrom 0 ((lsTotalGamma ls thetas q2 q02 d).map fun i => i * i))
      * ((m - m0) * (m + m0)) = 0 := by linear_combination h2
  rcases mul_eq_zero.mp h3 with h4 | h4
  · exact hW h4
  · rcases mul_eq_zero.mp h4 with h5 | h5
    · exact hne (by linarith)
    · linarith

-- non-vacuity: one S-wave, q² = q0², m = 2, m0 = 1
example : (1 : ℝ) * 1 * ksqrt (1 / 1) * sumFrom 0 ((lsTotalGamma [0] [] 1 1 3).map fun i => i * i) ≠ 0 := by
  simp [lsTotalGamma, factorGamma, factorGammaAux, zipMul, lsBarrier, kpowN, BprimeQ2, BprimePolynomial, tfCoeff,
    polyval, kofNat, ksqrt, sumFrom]

/-! ## Flatte / FlatteC -/

/-- the channel momentum squares to the documented radicand, real above threshold and `+i|·|` below -/
theorem calMomentum_sq (m ma mb : ℝ) :
    toC (calMomentum m ma mb) ^ 2
      = (((m * m - (ma + mb) * (ma + mb)) * (m * m - (ma - mb) * (ma - mb)) / 4 / (m * m) : ℝ) : ℂ) := by
  unfold calMomentum
  simp only [ksqrt, kabs]
  split_ifs with h
  · apply Complex.ext
    · rw [Complex.ofReal_re]
      simp [pow_two, abs_of_pos h, Real.mul_self_sqrt h.le]
    · rw [Complex.ofReal_im]
      simp [pow_two]
  · have h' := not_lt.mp h
    apply Complex.ext
    · rw [Complex.ofReal_re]
      simp [pow_two, abs_of_nonpos h', Real.mul_self_sqrt (neg_nonneg.mpr h')]
    · rw [Complex.ofReal_im]
      simp [pow_two]

/-- `Flatte` (imSign = +1) / `FlatteC` (imSign = -1): `1/(m0² - m² ± i m0 Σ g_i q_i / m)` for any number of channels -/
theorem Flatte_eq_spec (sgn : ℝ) (chs : List (ℝ × ℝ × ℝ)) (m m0 : ℝ) :
    toC (Flatte sgn chs m m0)
      = 1 / ((m0 : ℂ) ^ 2 - (m : ℂ) ^ 2 + (sgn : ℂ) *
          (chs.map fun ch => toC (calMomentum m ch.1 ch.2.1) * (Complex.I * ((ch.2.2 * (m0 / m) : ℝ) : ℂ))).sum) := by
  have hterm : ∀ ch : ℝ × ℝ × ℝ, toC (flatteTerm m m0 ch)
      = toC (calMomentum m ch.1 ch.2.1) * (Complex.I * ((ch.2.2 * (m0 / m) : ℝ) : ℂ)) := by
    intro ch
    rw [flatteTerm, toC_mul]
    congr 1
    apply Complex.ext <;> simp
  have hrho : toC (Cx.smul sgn (Cx.sumFrom ⟨0, 0⟩ (chs.map (flatteTerm m m0))))
      = (sgn : ℂ) * (chs.map fun ch => toC (calMomentum m ch.1 ch.2.1) * (Complex.I * ((ch.2.2 * (m0 / m) : ℝ) : ℂ))).sum := by
    rw [toC_smul, Cx.sumFrom_eq, List.map_map]
    have : toC ⟨0, 0⟩ = 0 := by apply Complex.ext <;> simp
    rw [this, zero_add]
    congr 2
    exact List.map_congr_left fun ch _ => hterm ch
  rw [← hrho]
  unfold Flatte
  simp only
  set rho := Cx.smul sgn (Cx.sumFrom ⟨0, 0⟩ (chs.map (flatteTerm m m0)))
  have := inv_toC ⟨m0 * m0 - m * m + rho.re, rho.im⟩
  simp only at this
  rw [toC_mk, this]
  congr 1
  apply Complex.ext <;> simp [pow_two]

/-! ## exp, exp_com, one, x -/

theorem expModel_eq_spec (a m : ℝ) : toC (expModel a m) = ((Real.exp (-|a| * m) : ℝ) : ℂ) := by
  apply Complex.ext
  · rw [Complex.ofReal_re]; simp [expModel, kexp, kabs]
  · rw [Complex.ofReal_im]; simp [expModel]

theorem expCom_eq_spec (a b m : ℝ) :
    toC (expCom a b m) = Complex.exp (-(((a : ℂ) + b * Complex.I) * (m : ℂ) ^ 2)) := by
  unfold expCom
  rw [toC_exp, toC_neg, toC_mul]
  congr 2
  congr 1
  · apply Complex.ext <;> simp
  · apply Complex.ext <;> simp [pow_two]

theorem oneModel_eq_spec (m : ℝ) : toC (oneModel m) = 1 := by
  apply Complex.ext <;> simp [oneModel]

theorem xModel_eq_spec (m : ℝ) : toC (xModel m) = (m : ℂ) := by
  apply Complex.ext <;> simp [xModel]

/-! ## GS_rho, ad-hoc mass -/

/-- `GS = (1 + D Γ0/m0) / (m0² - m² + f(m) - i m0 Γ(m))` with the code's `D = dFun(m0²)`, `f = fsFun(m², m0²)`;
holds for both settings of the float32 flag -/
theorem GS_eq_spec (f32 : Bool) (L : ℕ) (m m0 g0 q q0 d c2 c3 : ℝ) :
    toC (GS f32 L m m0 g0 q q0 d c2 c3)
      = ((1 + dFun f32 (m0 * m0) (if f32 = true then kf32 c2 else c2) (if f32 = true then kf32 c3 else c3) * g0 / m0 : ℝ) : ℂ)
        * (1 / (((m0 * m0 - m * m
              + fsFun f32 (m * m) (m0 * m0) g0 (if f32 = true then kf32 c2 else c2) (if f32 = true then kf32 c3 else c3) : ℝ) : ℂ)
            - Complex.I * ((m0 * Gamma L m g0 q q0 m0 d : ℝ) : ℂ))) := by
  have h10 : (1.0 : ℝ) = 1 := by norm_num
  unfold GS
  simp only [toC_mk, h10]
  rw [← inv_sub_I]
  apply Complex.ext
  · simp only [Complex.mul_re, Complex.ofReal_re, Complex.ofReal_im]
    ring
  · simp only [Complex.mul_im, Complex.ofReal_re, Complex.ofReal_im]
    ring

/-- `_ad_hoc` is the documented `m_min + (m_max - m_min)/2 (1 + tanh((m0 - (m_max+m_min)/2)/(m_max - m_min)))` -/
theorem adHoc_eq_doc (m0 mmax mmin : ℝ) (h : mmax ≠ mmin) :
    adHoc m0 mmax mmin
      = mmin + (mmax - mmin) / 2 * (1 + Real.tanh ((m0 - (mmax + mmin) / 2) / (mmax - mmin))) := by
  have h' : mmax - mmin ≠ 0 := sub_ne_zero.mpr h
  unfold adHoc
  simp only [ktanh_eq]
  have : (2 * m0 - (mmax + mmin)) / ((mmax - mmin) / 2) / 4 = (m0 - (mmax + mmin) / 2) / (mmax - mmin) := by
    field_simp
    ring
  rw [this]
  ring

/-! ## BWR_below and MultiBWR on top of the `BWR2` core (current tree: `fix = true`) -/

/-- the effective pole mass used for `q0²` by `BWR_below`: the documented ad-hoc formula below threshold, `m0` above -/
noncomputable def belowMeff (m0 m1 m2 mmax : ℝ) : ℝ :=
  if m0 < m1 + m2 then
    (m1 + m2) + (mmax - (m1 + m2)) / 2 * (1 + Real.tanh ((m0 - (mmax + (m1 + m2)) / 2) / (mmax - (m1 + m2))))
  else m0

theorem belowQ02_eq_doc (m0 m1 m2 mmax : ℝ) (h : mmax ≠ m1 + m2) :
    belowQ02 m0 m1 m2 mmax = getRelativeP2 (belowMeff m0 m1 m2 mmax) m1 m2 := by
  unfold belowQ02 belowMeff
  rw [adHoc_eq_doc _ _ _ h]

/-- `BWR_below`: `1/(m0² - m² - i m0 Γ(m))` with the q²-based (complex) width and `q0² = q²(m0_eff)`,
`m0_eff` the documented ad-hoc mass; the pole mass in the propagator stays `m0`.  All inputs (also `m0` below threshold). -/
theorem BWRbelow_eq_spec (L : ℕ) (m m0 g0 q2 m1 m2 mmax d : ℝ) (h : mmax ≠ m1 + m2) :
    toC (BWRbelow true L m m0 g0 q2 m1 m2 mmax d)
      = 1 / ((m0 : ℂ) ^ 2 - (m : ℂ) ^ 2
          - Complex.I * m0 * toC (Gamma2 L m g0 q2 (getRelativeP2 (belowMeff m0 m1 m2 mmax) m1 m2) m0 d)) := by
  unfold BWRbelow
  simp only [if_true]
  rw [BWR2_eq_spec, belowQ02_eq_doc _ _ _ _ h]

/-- LEGACY `BWR_below` (before a7b0d13) was the conjugate -/
theorem BWRbelow_legacy_eq_conj (L : ℕ) (m m0 g0 q2 m1 m2 mmax d : ℝ) :
    toC (BWRbelow false L m m0 g0 q2 m1 m2 mmax d) = (starRingEnd ℂ) (toC (BWRbelow true L m m0 g0 q2 m1 m2 mmax d)) := by
  unfold BWRbelow
  simp only [if_true, Bool.false_eq_true, if_false]
  rw [BWR2legacy_eq_conj_spec, BWR2_eq_spec]

/-- `MultiBWR.get_ls_amp`: for every (l,s) entry i the amplitude is
`(Σ_k 1/(m_k² - m² - i m_k Γ_k(m)) · c_ik) · (q/q0)^{l_i} B'_{l_i}`, all resonances with the smallest l of the list in the
width; any number of resonances and partial waves -/
theorem MultiBWR_eq_spec (ls : List ℕ) (res : List (ℝ × ℝ)) (coeff : List (List Cx)) (m q2 q02 d : ℝ) :
    (MultiBWR true ls res coeff m q2 q02 d).map toC
      = (coeff.zip ls).map fun cl =>
          (List.zipWith (fun (r : ℝ × ℝ) (c : Cx) =>
              1 / ((r.1 : ℂ) ^ 2 - (m : ℂ) ^ 2
                - Complex.I * r.1 * toC (Gamma2 (ls.foldl Nat.min (ls.headD 0)) m r.2 q2 q02 r.1 d)) * toC c)
            res cl.1).sum * ((lsBarrier q2 q02 d cl.2 : ℝ) : ℂ) := by
  unfold MultiBWR
  simp only [if_true, List.map_map]
  apply List.map_congr_left
  intro cl _
  simp only [Function.comp, toC_mul, toC_ofReal, Cx.sumFrom_eq]
  congr 1
  have h0 : toC ⟨0, 0⟩ = 0 := by apply Complex.ext <;> simp
  rw [h0, zero_add]
  congr 1
  exact zipCx_map_toC _ _ _ (fun r => BWR2_eq_spec _ m r.1 r.2 q2 q02 d) _

/-- the list's smallest l is what the code's `min([i[0] for i in ls])` computes -/
theorem MultiBWR_lmin_le (ls : List ℕ) : ∀ l ∈ ls, ls.foldl Nat.min (ls.headD 0) ≤ l := by
  intro l hl
  exact foldl_min_le ls (ls.headD 0) l hl

/-! ## symbolic denominators are reciprocals of the numeric line shapes -/

theorem BW_dom_reciprocal (m m0 g0 : ℝ) (h : m0 * m0 - m * m ≠ 0 ∨ m0 * g0 ≠ 0) :
    toC (BW m m0 g0) * toC (BWdom m m0 g0) = 1 := by
  unfold BW BWdom
  exact recip_mul _ _ h

/-- `formula.BWR_dom` equals the numeric denominator above threshold, hence `BWR · BWR_dom = 1` -/
theorem BWR_dom_reciprocal (L : ℕ) (hL : L ≤ 8) (m m0 g0 m1 m2 d : ℝ) (hm : m1 + m2 < m) (hm0 : m1 + m2 < m0)
    (hq0 : eps15 < getRelativeP m0 m1 m2)
    (h : m0 * m0 - m * m ≠ 0 ∨ m0 * Gamma L m g0 (getRelativeP m m1 m2) (getRelativeP m0 m1 m2) m0 d ≠ 0) :
    toC (callBWR L m m0 g0 m1 m2 d) * toC (BWRdom L m m0 g0 m1 m2 d) = 1 := by
  have hd : BWRdom L m m0 g0 m1 m2 d
      = ⟨m0 * m0 - m * m, -(m0 * Gamma L m g0 (getRelativeP m m1 m2) (getRelativeP m0 m1 m2) m0 d)⟩ := by
    rw [Gamma_eq_spec L hL _ _ _ _ _ _ hq0, getRelativeP_eq_sym m m1 m2 hm, getRelativeP_eq_sym m0 m1 m2 hm0]
    unfold BWRdom
    simp only [BprimePolynomialSym_eq L hL, kpowN_eq]
    congr 1
    ring
  rw [hd]
  unfold callBWR BWR
  exact recip_mul _ _ h


/-- `Particle.__call__` of BWR/default at the pole mass: `i/(m0 Γ0)` -/
theorem callBWR_at_m0 (L : ℕ) (hL : L ≤ 8) (m0 g0 m1 m2 d : ℝ) (hq0 : eps15 < getRelativeP m0 m1 m2)
    (h : m0 * g0 ≠ 0) : toC (callBWR L m0 m0 g0 m1 m2 d) = Complex.I / (m0 * g0) := by
  unfold callBWR
  exact BWR_at_m0 L hL m0 g0 _ d hq0 h

/-- `formula.BWR_LS_dom` IS the numeric denominator of `get_ls_amp_frac` (hence `R_i · dom = g_i`), for any number
of partial waves with l ≤ 8, both settings of `fix_bug1`, above threshold -/
theorem BWRLS_dom_eq (fix : Bool) (ls : List ℕ) (hls : ∀ l ∈ ls, l ≤ 8) (thetas : List ℝ) (m m0 g0 m1 m2 d : ℝ)
    (hp : 0 < symRelP2 m m1 m2) (hp0 : 0 < symRelP2 m0 m1 m2) :
    lsDom fix ls thetas m m0 g0 (getRelativeP2 m m1 m2) (getRelativeP2 m0 m1 m2) d
      = BWRLSdom fix ls thetas m m0 g0 m1 m2 d := by
  rw [getRelativeP2_eq_sym, getRelativeP2_eq_sym]
  set p := symRelP2 m m1 m2
  set p0 := symRelP2 m0 m1 m2
  have hr : 0 ≤ p / p0 := (div_pos hp hp0).le
  have hbar : ∀ l ∈ ls, lsBarrier p p0 d l * lsBarrier p p0 d l = lsDomBf p p0 d l := by
    intro l hl
    have h0 := BprimePolynomial_pos l (hls l hl) (p0 * (d * d)) (mul_nonneg hp0.le (mul_self_nonneg d))
    have h1 := BprimePolynomial_pos l (hls l hl) (p * (d * d)) (mul_nonneg hp.le (mul_self_nonneg d))
    unfold lsBarrier lsDomBf
    rw [mul_mul_mul_comm, BprimeQ2_sq, if_pos (div_pos h0 h1), kpowN_eq, kpowN_eq, ← mul_pow, ksqrt,
      Real.mul_self_sqrt hr, BprimePolynomialSym_eq l (hls l hl), BprimePolynomialSym_eq l (hls l hl)]
  have hsum : (lsTotalGamma ls thetas p p0 d).map (fun i => i * i)
      = zipMul ((factorGamma thetas).map fun j => j * j) (ls.map (lsDomBf p p0 d)) := by
    unfold lsTotalGamma
    exact zipMul_sq _ _ _ _ hbar
  unfold lsDom BWRLSdom
  simp only [hsum]
  cases fix <;> simp only [Bool.false_eq_true, if_false, if_true] <;> congr 2 <;> ring


/-- `ParticleFlatte.get_sympy_dom` / `ParticleFlatteC.get_sympy_dom` with every sheet bit set (momenta not negated,
principal root below a channel threshold) is the reciprocal of the numeric line shape for every real m > 0,
above and below the channel thresholds, any number of channels -/
theorem Flatte_dom_reciprocal (sgn : ℝ) (chs : List (ℝ × ℝ × ℝ)) (m m0 : ℝ) (hm : 0 < m)
    (h : (FlatteDom sgn chs m m0).re ≠ 0 ∨ (FlatteDom sgn chs m m0).im ≠ 0) :
    toC (Flatte sgn chs m m0) * toC (FlatteDom sgn chs m m0) = 1 := by
  have hl : chs.map (flatteTerm m m0)
      = chs.map fun ch => (symCalMomentum m ch.1 ch.2.1).mul ⟨0, ch.2.2 * (m0 / m)⟩ := by
    apply List.map_congr_left
    intro ch _
    rw [flatteTerm, calMomentum_eq_sym _ _ _ hm]
  unfold Flatte
  unfold FlatteDom at h ⊢
  simp only [hl] at h ⊢
  exact recip_mul' _ _ h

theorem BWRcoupling_dom_reciprocal (f32 : Bool) (L : ℕ) (hL : L ≤ 8) (m m0 g0 m1 m2 d : ℝ) (hm : m1 + m2 < m)
    (hmpos : 0 < m)
    (h : m0 * m0 - m * m ≠ 0 ∨
      m0 * g0 * (symRelP m m1 m2 / m * symRelP m m1 m2 ^ (2 * L)
        / BprimePolynomial L ((symRelP m m1 m2 * d) * (symRelP m m1 m2 * d))) * BprimePolynomial L 1 ≠ 0) :
    toC (callBWRcoupling f32 L m m0 g0 m1 m2 d) * toC (BWRcouplingDom L m m0 g0 m1 m2 d) = 1 := by
  have hp : 0 ≤ symRelP m m1 m2 := by
    unfold symRelP ksqrt
    have := Real.sqrt_nonneg ((m * m - (m1 + m2) * (m1 + m2)) * (m * m - (m1 - m2) * (m1 - m2)))
    positivity
  have e1 : ∀ p : ℝ, p * p * (d * d) = (p * d) * (p * d) := fun p => by ring
  have hn : (if f32 = true then polyvalF32 ((tfCoeff L).map kofNat) (kf32 1) else BprimePolynomial L 1)
      = BprimePolynomial L 1 := by
    split_ifs
    · rw [polyvalF32_eq]; rfl
    · rfl
  have hd : BWRcouplingDom L m m0 g0 m1 m2 d
      = ⟨m0 * m0 - m * m, -(m0 * g0 * (symRelP m m1 m2 / m * symRelP m m1 m2 ^ (2 * L)
        / BprimePolynomial L ((symRelP m m1 m2 * d) * (symRelP m m1 m2 * d))) * BprimePolynomial L 1)⟩ := by
    unfold BWRcouplingDom
    simp only [BprimePolynomialSym_eq L hL, kpowN_eq]
    congr 1
    rw [pow_succ]
    ring
  rw [hd]
  unfold callBWRcoupling BWRcoupling
  rw [getRelativeP_eq_sym m m1 m2 hm]
  simp only [hn, ksqrt, Real.sqrt_mul_self hp, kpowN_eq, e1]
  rw [show (symRelP m m1 m2 * symRelP m m1 m2) ^ L = symRelP m m1 m2 ^ (2 * L) by rw [← pow_two, ← pow_mul]]
  exact recip_mul _ _ h

/-! ## non-vacuity of the hypotheses used above -/

-- regular branch, non-zero denominators, positive masses/width/momenta (m = 1, m0 = 0.8, Γ0 = 0.1, q = 0.4, q0 = 0.3)
example : eps15 < (0.3 : ℝ) ∧ (0.8 : ℝ) * 0.1 ≠ 0 ∧ (0 : ℝ) < 0.4 ∧ (0.8 : ℝ) * 0.8 ≠ 1 * 1 := by
  unfold eps15; norm_num

-- above threshold: m0 = 1 → 0.3 + 0.4 has a momentum in the regular branch, and the symbolic q² are positive
example : (0.3 : ℝ) + 0.4 < 1 ∧ eps15 < getRelativeP 1 0.3 0.4 ∧ 0 < symRelP2 1 0.3 0.4 ∧ 0 < symRelP2 1.2 0.3 0.4 := by
  refine ⟨by norm_num, ?_, by unfold symRelP2; norm_num, by unfold symRelP2; norm_num⟩
  have h1 : (0.3 : ℝ) + 0.4 < 1 := by norm_num
  unfold getRelativeP ksqrt eps15
  simp only [if_pos h1]
  have : (0.7 : ℝ) < Real.sqrt ((1 - (0.3 + 0.4)) * (1 + (0.3 + 0.4)) * (1 - (0.3 - 0.4)) * (1 + (0.3 - 0.4))) := by
    apply Real.lt_sqrt_of_sq_lt
    norm_num
  linarith

-- below threshold for the q²-based width: q² = -0.2 < 0 < q0² = 0.3; every l of [0, 2, 4] is ≤ 8
example : (-0.2 : ℝ) < 0 ∧ (0 : ℝ) < 0.3 ∧ ∀ l ∈ [0, 2, 4], l ≤ 8 := by
  refine ⟨by norm_num, by norm_num, by decide⟩

end TfPwaV.C15
