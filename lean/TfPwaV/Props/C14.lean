import TfPwaV.Proofs.Topology
import TfPwaV.Proofs.TopologyDistinct
/-!
# C14 — Decay topologies are enumerated and identified correctly

Property theorems about the model `TfPwaV.Topology` of `tf_pwa/particle.py`
(`_Chain_Graph`, `DecayChain.from_particles`, `sorted_table`, `from_sorted_table`, `topology_id`,
`topology_same`, `DecayGroup.topology_structure`); the model is tied to the source by the
correspondence run of `harness/c14.py` (whole produced lists for n ≤ 6/7, every function on seeded groups).
-/
namespace TfPwaV.C14
open TfPwaV.Topology

/-! ## 1. Counting: (2n-3)!! for every n -/

/-- the graph `from_particles` starts from: the single edge top → finals[0] -/
def baseGraph {α : Type} (top f : α) : Graph α := Graph.empty.addEdge (.p top) (.p f)

/-- ★ For EVERY top particle and EVERY non-empty list of final particles (no distinctness needed) the
edge-insertion enumeration of `from_particles` produces exactly (2n-3)!! graphs, n = number of finals
(`dfact 0 = 1` covers n = 1; Nat subtraction). -/
theorem count_double_factorial {α : Type} [DecidableEq α] (top f : α) (fs : List α) :
    (getGraphs (baseGraph top f) fs).length = dfact (2 * (f :: fs).length - 3) := by
  rw [getGraphs_length]
  have h := oddProd_dfact fs.length 0
  simp only [baseGraph, Graph.addEdge, Graph.empty, List.nil_append, List.length_cons, List.length_nil]
  simp only [Nat.mul_zero, Nat.zero_add, Nat.zero_sub, dfact, Nat.mul_one] at h
  rw [h]
  have e : 2 * (fs.length + 1) - 3 = 2 * fs.length - 1 := by omega
  first | rfl | rw [e]

/-- ★ Chain level, every n: whenever `from_particles` returns (no exception), the returned list has exactly
(2n-3)!! chains. (That it does return for 2 ≤ n ≤ 6 is part of `enum_le4_partial`; for n = 1 see `one_final_raises`.) -/
theorem fromParticles_count {α : Type} [DecidableEq α] (mk : Nat → Nat → α) (top : α) (finals : List α)
    (cs : List (Chain α)) (h : fromParticles mk top finals = some cs) :
    cs.length = dfact (2 * finals.length - 3) := by
  cases finals with
  | nil => simp [fromParticles] at h
  | cons f fs =>
    simp only [fromParticles] at h
    have h1 := allSome_length _ _ h
    rw [h1, chainsFrom_length]
    exact count_double_factorial top f fs

example : dfact (2 * 2 - 3) = 1 ∧ dfact (2 * 3 - 3) = 3 ∧ dfact (2 * 4 - 3) = 15 ∧ dfact (2 * 5 - 3) = 105
    ∧ dfact (2 * 6 - 3) = 945 ∧ dfact (2 * 7 - 3) = 10395 := by decide

/-- the excluded case n = 1: `get_decay_chain` raises KeyError (the only child of top has no daughters) -/
theorem one_final_raises {α : Type} [DecidableEq α] (mk : Nat → Nat → α) (top f : α) (h : f ≠ top) :
    fromParticles mk top [f] = none := by
  have h' : ¬ top = f := fun e => h e.symm
  simp [fromParticles, getGraphs, allSome, chainsFrom, getDecayChain, daughterDict, Graph.addEdge, Graph.empty,
    Dict.get?, Dict.set, h']

/-! ## 2. Every enumerated graph is a full binary tree on exactly the given finals (every n) -/

/-- ★ For EVERY top, finals and every graph `g` produced by the enumeration there is a full binary tree `t`
(every inner vertex has exactly two daughters, by construction of `Tr`) such that the edge multiset of `g` is
exactly: the edge top → root of `t`, plus the mother→daughter edges of `t`; the leaves of `t` are exactly the
given finals (as a multiset: each final once per occurrence in the input) and the inner vertices are exactly
`node_0 … node_{n-2}`, each once. -/
theorem graphs_are_binary_trees {α : Type} [DecidableEq α] (top f : α) (fs : List α) (g : Graph α)
    (hg : g ∈ getGraphs (baseGraph top f) fs) :
    ∃ t : Tr α, g.edges.Perm (t.hang (Node.p top)) ∧ t.leaves.Perm (f :: fs)
      ∧ t.labels.Perm (List.range fs.length) ∧ g.count = fs.length := by
  have h0 : (baseGraph top f).edges.Perm ((Tr.leaf f).hang (Node.p top)) := by
    simp [baseGraph, Graph.addEdge, Graph.empty, Tr.hang, Tr.edges, Tr.root]
  obtain ⟨t, h1, h2, h3, h4⟩ := getGraphs_trees top fs (baseGraph top f) (Tr.leaf f) h0 g hg
  refine ⟨t, h1, ?_, ?_, ?_⟩
  · simpa [Tr.leaves] using h2
  · simpa [Tr.labels, baseGraph, Graph.addEdge, Graph.empty, List.range_eq_range'] using h3
  · simpa [baseGraph, Graph.addEdge, Graph.empty] using h4

/-- consequence: 2n-1 edges (n leaves, n-1 inner vertices incl. the one below top) -/
theorem Tr.edges_length {α : Type} (t : Tr α) : t.edges.length + 2 = 2 * t.leaves.length := by
  induction t with
  | leaf a => simp [Tr.edges, Tr.leaves]
  | node k l r ihl ihr => simp only [Tr.edges, Tr.leaves, List.length_cons, List.length_append]; omega

theorem graphs_edge_count {α : Type} [DecidableEq α] (top f : α) (fs : List α) (g : Graph α)
    (hg : g ∈ getGraphs (baseGraph top f) fs) : g.edges.length + 1 = 2 * (f :: fs).length := by
  obtain ⟨t, h1, h2, _, _⟩ := graphs_are_binary_trees top f fs g hg
  have := Tr.edges_length t
  rw [h1.length_eq, ← h2.length_eq]
  simp only [Tr.hang, List.length_cons]
  omega

/-! ## 3. `topology_same` ⟺ the multisets of final-state groupings coincide (all chains) -/

/-- ★ For ALL chains `a b` whose sorted tables exist, any key (`identical=True`: name, `identical=False`:
the particle itself) over a linearly ordered key type: `a.topology_same(b)` is true iff the lists of
groupings (one per particle of the table; a grouping = keys of the final particles below it) are
permutations of each other, i.e. the grouping multisets coincide. -/
theorem topology_same_iff {α κ : Type} [DecidableEq α] [DecidableEq κ] [LT α] [DecidableLT α] [LT κ]
    [DecidableLT κ] (hκ : LinLt κ) (key : α → κ) (a b : Chain α) (ga gb : List (List κ))
    (ha : groupings key a = some ga) (hb : groupings key b = some gb) :
    topologySame key a b = some true ↔ ga.Perm gb := by
  simp only [topologySame, topologyId, ha, hb, Option.map_some, Option.some.injEq, decide_eq_true_eq]
  exact isort_eq_iff_perm hκ.list ga gb

/-- the excluded branch: the comparison raises iff one of the tables cannot be built -/
theorem topology_same_none_iff {α κ : Type} [DecidableEq α] [DecidableEq κ] [LT α] [DecidableLT α] [LT κ]
    [DecidableLT κ] (key : α → κ) (a b : Chain α) :
    topologySame key a b = none ↔ (sortedTable a = none ∨ sortedTable b = none) := by
  simp only [topologySame, topologyId, groupings]
  cases sortedTable a <;> cases sortedTable b <;> simp

/-- the two instances used by the code -/
theorem topology_same_iff_identical (a b : Chain Pt) (ga gb : List (List String))
    (ha : groupings Pt.name a = some ga) (hb : groupings Pt.name b = some gb) :
    topologySame Pt.name a b = some true ↔ ga.Perm gb :=
  topology_same_iff LinLt.string Pt.name a b ga gb ha hb

theorem topology_same_iff_distinct (a b : Chain Pt) (ga gb : List (List Pt))
    (ha : groupings (fun p : Pt => p) a = some ga) (hb : groupings (fun p : Pt => p) b = some gb) :
    topologySame (fun p : Pt => p) a b = some true ↔ ga.Perm gb :=
  topology_same_iff LinLt.pt _ a b ga gb ha hb

-- non-vacuity: two chains with different resonance names and daughter order, same groupings
example : ∃ ga gb, groupings Pt.name [⟨⟨"A", 0⟩, [⟨"R", 0⟩, ⟨"B", 0⟩]⟩, ⟨⟨"R", 0⟩, [⟨"C", 0⟩, ⟨"D", 0⟩]⟩] = some ga
    ∧ groupings Pt.name [⟨⟨"Z", 0⟩, [⟨"D", 0⟩, ⟨"C", 0⟩]⟩, ⟨⟨"A", 0⟩, [⟨"B", 0⟩, ⟨"Z", 0⟩]⟩] = some gb
    ∧ ga.length = 5 ∧ gb.length = 5 := ⟨_, _, by rfl, by rfl, by rfl, by rfl⟩

/-! ## 4. Topology classes partition a decay group (all groups) -/

/-- `i.topology_same(j, identical)` evaluated to True -/
def sameB {α κ : Type} [DecidableEq α] [DecidableEq κ] [LT α] [DecidableLT α] [LT κ] [DecidableLT κ]
    (key : α → κ) (a b : Chain α) : Bool := topologySame key a b == some true

section classes
variable {α κ : Type} [DecidableEq α] [DecidableEq κ] [LT α] [DecidableLT α] [LT κ] [DecidableLT κ]

theorem sameB_iff (key : α → κ) (a b : Chain α) :
    sameB key a b = true ↔ ∃ x, topologyId key a = some x ∧ topologyId key b = some x := by
  simp only [sameB, topologySame]
  cases topologyId key a <;> cases topologyId key b <;> simp
  exact eq_comm

theorem sameB_symm (key : α → κ) (a b : Chain α) : sameB key a b = sameB key b a := by
  rw [Bool.eq_iff_iff, sameB_iff, sameB_iff]
  constructor <;> (rintro ⟨x, h1, h2⟩; exact ⟨x, h2, h1⟩)

theorem sameB_trans (key : α → κ) (a b c : Chain α) (h1 : sameB key a b = true) (h2 : sameB key b c = true) :
    sameB key a c = true := by
  rw [sameB_iff] at *
  obtain ⟨x, hx1, hx2⟩ := h1
  obtain ⟨y, hy1, hy2⟩ := h2
  rw [hx2] at hy1
  cases hy1
  exact ⟨x, hx1, hy2⟩

theorem reps_foldl_inv (key : α → κ) (cs ret : List (Chain α))
    (hdef : ∀ c ∈ cs, (topologyId key c).isSome)
    (hp : ret.Pairwise fun r s => sameB key r s = false) :
    let out := cs.foldl (fun ret i => if ret.any fun j => topologySame key i j == some true then ret else ret ++ [i]) ret
    out.Pairwise (fun r s => sameB key r s = false) ∧ (∀ r ∈ out, r ∈ ret ∨ r ∈ cs) ∧ (∀ r ∈ ret, r ∈ out)
      ∧ (∀ c ∈ cs, ∃ r ∈ out, sameB key c r = true) := by
  induction cs generalizing ret with
  | nil => exact ⟨hp, fun r h => Or.inl h, fun r h => h, fun c h => by simp at h⟩
  | cons c cs ih =>
    have hdef' : ∀ c ∈ cs, (topologyId key c).isSome := fun x hx => hdef x (List.mem_cons_of_mem _ hx)
    simp only [List.foldl_cons]
    by_cases hany : (ret.any fun j => topologySame key c j == some true) = true
    · simp only [hany, if_true]
      obtain ⟨h1, h2, h3, h4⟩ := ih ret hdef' hp
      refine ⟨h1, ?_, h3, ?_⟩
      · intro r hr
        rcases h2 r hr with h | h
        · exact Or.inl h
        · exact Or.inr (List.mem_cons_of_mem _ h)
      · intro x hx
        rcases List.mem_cons.1 hx with rfl | hx
        · obtain ⟨j, hj, hs⟩ := List.any_eq_true.1 hany
          exact ⟨j, h3 j hj, hs⟩
        · exact h4 x hx
    · simp only [hany]
      have hnone : ∀ r ∈ ret, sameB key r c = false := by
        intro r hr
        rw [sameB_symm]
        cases hs : sameB key c r with
        | false => rfl
        | true => exact absurd (List.any_eq_true.2 ⟨r, hr, hs⟩) hany
      have hp' : (ret ++ [c]).Pairwise fun r s => sameB key r s = false := by
        rw [List.pairwise_append]
        refine ⟨hp, List.pairwise_singleton _ _, ?_⟩
        intro r hr s hs
        rw [List.mem_singleton] at hs
        subst hs
        exact hnone r hr
      obtain ⟨h1, h2, h3, h4⟩ := ih (ret ++ [c]) hdef' hp'
      refine ⟨h1, ?_, fun r hr => h3 r (List.mem_append_left _ hr), ?_⟩
      · intro r hr
        rcases h2 r hr with h | h
        · rcases List.mem_append.1 h with h | h
          · exact Or.inl h
          · rw [List.mem_singleton] at h; subst h; exact Or.inr List.mem_cons_self
        · exact Or.inr (List.mem_cons_of_mem _ h)
      · intro x hx
        rcases List.mem_cons.1 hx with rfl | hx
        · refine ⟨x, h3 x (List.mem_append_right _ (List.mem_singleton.2 rfl)), ?_⟩
          rw [sameB_iff]
          have := hdef x List.mem_cons_self
          obtain ⟨y, hy⟩ := Option.isSome_iff_exists.1 this
          exact ⟨y, hy, hy⟩
        · exact h4 x hx

omit [DecidableEq α] [LT α] [DecidableLT α] in
theorem filter_length_one (l : List (Chain α)) (P : Chain α → Bool)
    (hp : l.Pairwise fun r s => ¬ (P r = true ∧ P s = true)) (hex : ∃ r ∈ l, P r = true) :
    (l.filter P).length = 1 := by
  induction l with
  | nil => obtain ⟨r, hr, _⟩ := hex; simp at hr
  | cons a l ih =>
    rw [List.pairwise_cons] at hp
    by_cases ha : P a = true
    · have : l.filter P = [] := by
        rw [List.filter_eq_nil_iff]
        intro s hs hps
        exact hp.1 s hs ⟨ha, hps⟩
      simp [ha, this]
    · obtain ⟨r, hr, hpr⟩ := hex
      rcases List.mem_cons.1 hr with rfl | hr
      · exact absurd hpr ha
      · simp [ha, ih hp.2 ⟨r, hr, hpr⟩]

/-- ★ For EVERY list of chains whose tables exist and either flag: the representatives returned by
`topology_structure(identical, standard=False)` are chains of the group, are pairwise of different topology,
and every chain of the group has the same topology as EXACTLY ONE representative. -/
theorem classes_partition (key : α → κ) (cs : List (Chain α))
    (hdef : ∀ c ∈ cs, (topologyId key c).isSome) :
    (∀ r ∈ topologyReps key cs, r ∈ cs) ∧
    (topologyReps key cs).Pairwise (fun r s => sameB key r s = false) ∧
    (∀ c ∈ cs, ((topologyReps key cs).filter fun r => sameB key c r).length = 1) := by
  obtain ⟨h1, h2, _, h4⟩ := reps_foldl_inv key cs [] hdef List.Pairwise.nil
  refine ⟨?_, h1, ?_⟩
  · intro r hr
    rcases h2 r hr with h | h
    · simp at h
    · exact h
  · intro c hc
    apply filter_length_one
    · refine List.Pairwise.imp ?_ h1
      intro r s hrs ⟨hr, hs⟩
      have : sameB key r s = true := sameB_trans key r c s (by rw [sameB_symm]; exact hr) hs
      rw [hrs] at this
      exact Bool.false_ne_true this
    · exact h4 c hc

end classes

-- non-vacuity: a group of three chains, two classes
example : (topologyReps Pt.name
    [[⟨⟨"A", 0⟩, [⟨"R", 0⟩, ⟨"B", 0⟩]⟩, ⟨⟨"R", 0⟩, [⟨"C", 0⟩, ⟨"D", 0⟩]⟩],
     [⟨⟨"A", 0⟩, [⟨"S", 0⟩, ⟨"C", 0⟩]⟩, ⟨⟨"S", 0⟩, [⟨"B", 0⟩, ⟨"D", 0⟩]⟩],
     [⟨⟨"Z", 0⟩, [⟨"D", 0⟩, ⟨"C", 0⟩]⟩, ⟨⟨"A", 0⟩, [⟨"B", 0⟩, ⟨"Z", 0⟩]⟩]]).length = 2 := by rfl

/-- What `get_chains_map` does differently (finding `get_chains_map:identical-names`): the classes are formed
with `identical=False` (key = particle) but chains are assigned to them with `identical=True` (key = name).
Nat labelling: particle `10*name + id`, so 11 and 12 are two identical particles `pi:1`, `pi:2`; A = 0, K = 20,
R = 30. The two chains A→R pi:1, R→pi:2 K and A→R pi:2, R→pi:1 K form two classes, yet each chain has the
same topology as BOTH representatives under the name key: "exactly one class" fails for the mixture. -/
example :
    let c1 : Chain Nat := [⟨0, [30, 11]⟩, ⟨30, [12, 20]⟩]
    let c2 : Chain Nat := [⟨0, [30, 12]⟩, ⟨30, [11, 20]⟩]
    (topologyReps (fun x : Nat => x) [c1, c2]).length = 2 ∧
    ((topologyReps (fun x : Nat => x) [c1, c2]).filter fun r => sameB (fun x : Nat => x / 10) c2 r).length = 2 := by
  decide +kernel

/-! ## 5. Chain level for n ≤ 4: binary trees, pairwise distinct, table round trip (kernel-decided) -/

/-- inner particle `chain{i}_node_{k}` in the Nat labelling (top = 0, finals = 1..n) -/
def natMk (i k : Nat) : Nat := 1000 * (i + 1) + k

def finalsN (n : Nat) : List Nat := (List.range n).map (· + 1)

def allDistinct {β : Type} [DecidableEq β] : List β → Bool
  | [] => true
  | a :: l => !l.contains a && allDistinct l

theorem allDistinct_nodup {β : Type} [DecidableEq β] (l : List β) (h : allDistinct l = true) : l.Nodup := by
  induction l with
  | nil => exact List.nodup_nil
  | cons a l ih =>
    simp only [allDistinct, Bool.and_eq_true, Bool.not_eq_true', List.contains_eq_mem,
      decide_eq_false_iff_not] at h
    exact List.nodup_cons.2 ⟨h.1, ih h.2⟩

/-- chain `c` is a binary tree rooted at `top` whose leaves are exactly `finals`:
every decay has two daughters, no particle has two mothers or decays twice, the bottom-up table of
`sorted_table` exists (acyclic, everything resolves to final particles), has one entry per vertex
(n leaves, n-1 mothers), and the root's group is the sorted list of finals without repetition. -/
def isBinaryTree (top : Nat) (finals : List Nat) (c : Chain Nat) : Bool :=
  c.all (fun d => d.outs.length == 2) && allDistinct (coreList c) && allDistinct (outList c)
  && (topOf c == some top)
  && match sortedTable c with
     | none => false
     | some t => t.length == 2 * finals.length - 1 && (t.get? top == some (isort finals))
                 && allDistinct (isort finals) && finals.all (fun f => t.get? f == some [f])
                 && c.all (fun d => t.get? d.core == some (isort (d.outs.flatMap fun o => (t.get? o).getD [])))

/-- same decays up to order of the decays and of the daughters (`DecayChain.__eq__`) -/
def chainEqv (a b : Chain Nat) : Bool :=
  a.length == b.length && a.all (fun d => b.any (Decay.same d)) && b.all (fun d => a.any (Decay.same d))

/-- Python `dict.__eq__`: same keys with the same values, insertion order irrelevant -/
def dictEq (a b : Dict Nat (List Nat)) : Bool :=
  a.length == b.length && a.all (fun kv => b.get? kv.1 == some kv.2)

/-- table → chain → table and chain → table → chain round trip -/
def roundTrip (c : Chain Nat) : Bool :=
  match sortedTable c with
  | none => false
  | some t =>
    match fromSortedTable t with
    | none => false
    | some c' => chainEqv c' c && (match sortedTable c' with | some t' => dictEq t' t | none => false)

def enumSpec (n : Nat) : Bool :=
  match fromParticles natMk 0 (finalsN n) with
  | none => false
  | some cs =>
    cs.all (isBinaryTree 0 (finalsN n)) && allDistinct (cs.map (topologyId (fun x : Nat => x)))
    && cs.all roundTrip && cs.all (fun c => (topologyId (fun x : Nat => x) c).isSome)


/-- the three parts of `enumSpec`, separately (each is one kernel evaluation for n = 5, see Props/C14N5*.lean) -/
def enumTreesOK (n : Nat) : Bool :=
  match fromParticles natMk 0 (finalsN n) with
  | none => false
  | some cs => cs.all (isBinaryTree 0 (finalsN n))

def enumDistinctOK (n : Nat) : Bool :=
  match fromParticles natMk 0 (finalsN n) with
  | none => false
  | some cs => allDistinct (cs.map (topologyId (fun x : Nat => x)))

def enumRoundTripOK (n : Nat) : Bool :=
  match fromParticles natMk 0 (finalsN n) with
  | none => false
  | some cs => cs.all roundTrip

theorem enumSpec_2_4 : ∀ n ∈ [2, 3, 4], enumSpec n = true := by decide +kernel

/-- FULL: for every n ≥ 2 and every top / pairwise distinct finals (top not among them), `from_particles`
returns chains that are binary trees rooted at top with leaf set = finals, with pairwise different
`topology_id`, and `from_sorted_table (sorted_table c)` equals `c` as a `DecayChain` with the same table.

◐ Proved here for 2 ≤ n ≤ 4 by kernel evaluation of the WHOLE enumeration (1+3+15 chains) on the labelling
top = 0, finals = 1..n (n = 5, 6 exceed the 60 s / 6 GB budget of one kernel evaluation; they are covered on the
real code by the exhaustive search of harness/c14.py for n ≤ 6, 7 thorough). Missing: n ≥ 5 at chain level (the
graph level is `graphs_are_binary_trees`, all n; the count is `fromParticles_count`, all n; pairwise
distinctness of the grouping sets is `enumeration_pairwise_distinct`, all n, on the trees — what is missing for
n ≥ 5 is only the step graph → chain → `sorted_table`, see `topology_id_link_le4_partial`), and the transfer to other particle labels (the enumeration only tests
vertices for equality; validated by correspondence with seeded names). -/
theorem enum_le4_partial (n : Nat) (h2 : 2 ≤ n) (h6 : n ≤ 4) :
    ∃ cs, fromParticles natMk 0 (finalsN n) = some cs ∧ cs.length = dfact (2 * n - 3)
      ∧ (∀ c ∈ cs, isBinaryTree 0 (finalsN n) c = true)
      ∧ (cs.map (topologyId (fun x : Nat => x))).Nodup
      ∧ (∀ c ∈ cs, roundTrip c = true) := by
  have hn : n ∈ [2, 3, 4] := by
    simp only [List.mem_cons, List.mem_nil_iff, or_false]; omega
  have hs : enumSpec n = true := enumSpec_2_4 n hn
  unfold enumSpec at hs
  cases hfp : fromParticles natMk 0 (finalsN n) with
  | none => rw [hfp] at hs; simp at hs
  | some cs =>
    rw [hfp] at hs
    simp only [Bool.and_eq_true, List.all_eq_true] at hs
    obtain ⟨⟨⟨h1, h2'⟩, h3⟩, _⟩ := hs
    refine ⟨cs, rfl, ?_, h1, allDistinct_nodup _ h2', h3⟩
    have := fromParticles_count natMk 0 (finalsN n) cs hfp
    simpa [finalsN] using this

/-- pairwise distinct ids ⇒ no two chains of the enumeration are reported as the same topology (n ≤ 4) -/
theorem enum_le4_pairwise_different_partial (n : Nat) (h2 : 2 ≤ n) (h6 : n ≤ 4) :
    ∃ cs, fromParticles natMk 0 (finalsN n) = some cs ∧
      cs.Pairwise fun a b => topologySame (fun x : Nat => x) a b ≠ some true := by
  obtain ⟨cs, h, _, _, hnd, _⟩ := enum_le4_partial n h2 h6
  refine ⟨cs, h, ?_⟩
  have := List.pairwise_map.1 hnd
  refine List.Pairwise.imp ?_ this
  intro a b hab hs
  apply hab
  have := (sameB_iff (fun x : Nat => x) a b).1 (by simp [sameB, hs])
  obtain ⟨x, h1, h2⟩ := this
  rw [h1, h2]

/-! ## 6. Pairwise different topologies for EVERY n (tree level) -/

/-- ★ For EVERY top and EVERY list of pairwise distinct finals: the enumerated graphs are, position by position,
full binary trees `gts[i].2` (edge multiset of the graph = the tree hanging under top, leaves = the finals), and
any two of these (2n-3)!! trees have DIFFERENT sets of final-state groupings (`Tr.SameTopo` = the sets of leaf
sets below the vertices coincide, i.e. what `topology_id` compares). Proof: removing the last inserted leaf from
every grouping is a left inverse of insertion (`Tr.isGroup_strip`), insertion on two different edges of one tree
gives different grouping sets (`Tr.insE_edges_differ`), induction over the insertion sequence. -/
theorem enumeration_pairwise_distinct {α : Type} [DecidableEq α] (top f : α) (fs : List α)
    (hnd : (f :: fs).Nodup) :
    ∃ gts : List (Graph α × Tr α),
      gts.map Prod.fst = getGraphs (baseGraph top f) fs ∧
      gts.length = dfact (2 * (f :: fs).length - 3) ∧
      (∀ gt ∈ gts, gt.1.edges.Perm (gt.2.hang (Node.p top)) ∧ gt.2.leaves.Perm (f :: fs)) ∧
      gts.Pairwise (fun a b => ¬ a.2.SameTopo b.2) := by
  have hf := List.nodup_cons.1 hnd
  have inv : EnumInv top (baseGraph top f) (Tr.leaf f) fs := by
    refine ⟨?_, ?_, ?_, hf.2, ?_, ?_⟩
    · simp [baseGraph, Graph.addEdge, Graph.empty, Tr.hang, Tr.edges, Tr.root]
    · simp [Tr.leaves]
    · intro x hx hm
      simp only [Tr.leaves, List.mem_singleton] at hm
      subst hm; exact hf.1 hx
    · simp [Tr.labels]
    · simp [Tr.labels]
  refine ⟨enumGT top (baseGraph top f) (Tr.leaf f) fs, enumGT_fst top fs _ _, ?_, ?_,
    enumGT_pairwise top fs _ _ inv⟩
  · rw [← count_double_factorial top f fs, ← enumGT_fst top fs (baseGraph top f) (Tr.leaf f), List.length_map]
  · intro gt hgt
    obtain ⟨h1, h2⟩ := enumGT_inv top fs _ _ inv gt hgt
    exact ⟨h1.edges, by simpa [Tr.leaves] using h2⟩

-- non-vacuity
example : ([1, 2, 3] : List Nat).Nodup := by decide

/-- `Tr.SameTopo` in computable form: every grouping of one tree is, as a set, a grouping of the other -/
theorem sameTopo_iff_groups {α : Type} [DecidableEq α] (t₁ t₂ : Tr α) :
    t₁.SameTopo t₂ ↔ ∀ S : List α, (∃ g ∈ t₁.groups, ∀ x, x ∈ S ↔ x ∈ g) ↔ (∃ g ∈ t₂.groups, ∀ x, x ∈ S ↔ x ∈ g) := by
  simp only [Tr.SameTopo, Tr.isGroup_iff_groups]

/-- link tree groupings ↔ `topology_id` of the chain built by `get_decay_chain`: position `i` of the
enumeration, chain built with the inner names of chain `i`; `topology_id(identical=False)` (sorted list of sorted
groupings) equals the sorted list of the sorted leaf sets of the tree. -/
def linkSpec (n : Nat) : Bool :=
  match finalsN n with
  | [] => false
  | f :: fs =>
    (enumGT 0 (baseGraph 0 f) (Tr.leaf f) fs).zipIdx.all fun gti =>
      match getDecayChain (natMk gti.2) gti.1.1 0 with
      | none => false
      | some c => topologyId (fun x : Nat => x) c == some (isort (gti.1.2.groups.map isort))

/-- FULL: for every n the `topology_id` of the i-th chain of `from_particles` is the sorted grouping set of the
i-th tree of `enumeration_pairwise_distinct` (hence the ids are pairwise different for every n).
◐ Kernel-checked for 2 ≤ n ≤ 4 only; the graph → chain → sorted_table step is not proved in general. -/
theorem topology_id_link_le4_partial : ∀ n ∈ [2, 3, 4], linkSpec n = true := by decide +kernel

/-! ## non-vacuity of the hypotheses used above -/

-- `fromParticles_count`: the call does return for a three-body decay
example : (fromParticles natMk 0 [1, 2, 3]).isSome = true := by decide +kernel
-- `graphs_are_binary_trees` / `graphs_edge_count`: the enumeration is not empty
example : (getGraphs (baseGraph 0 1) [2, 3]).length = 3 := by decide +kernel
-- `classes_partition`: a group of three chains (two topologies) whose ids all exist
example : ∀ c ∈ ([[⟨0, [30, 1]⟩, ⟨30, [2, 3]⟩], [⟨0, [31, 2]⟩, ⟨31, [1, 3]⟩], [⟨32, [3, 2]⟩, ⟨0, [1, 32]⟩]] : List (Chain Nat)),
    (topologyId (fun x : Nat => x) c).isSome = true := by decide +kernel
-- `one_final_raises`: distinct particles exist
example : fromParticles natMk 0 [1] = none := one_final_raises natMk 0 1 (by decide)

end TfPwaV.C14
