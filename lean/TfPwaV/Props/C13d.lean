import TfPwaV.Props.C13
/-!
# C13 — user restriction by (l, s) pairs (`ls_list=` of `HelicityDecay`)

`HelicityDecay.get_ls_list` returns a user-supplied `ls_list` verbatim.  The model statement of the restriction is
`LS.filterLS ls sel` (the rule list filtered by membership in the selection).  Here:
* `ls_restrict_pairs`: membership and order of `filterLS` (the `ls_list` analogue of `ls_restrict`);
* `ls_restrict_pairs_verbatim`: when the user's selection is a sub-list of the (duplicate-free) rule list — i.e. the
  user asks for allowed couplings in the library's order — the filtered rule list IS the user's list, so returning it
  verbatim (what the code does) and filtering the rule list (the model) coincide;
* `ls_restrict_pairs_of_rule`: instantiated at the rule list `lsList …` (duplicate-free by `ls_nodup`).
The harness compares `LS.filterLS` / `LS.filterL` with the real `get_ls_list(ls_list= / l_list=)` on every run.
-/
namespace TfPwaV.C13
open TfPwaV.LS

/-- `ls_list` restriction keeps exactly the allowed couplings that are listed, order of the rule list preserved -/
theorem ls_restrict_pairs (ls sel : List (Nat × Nat)) (p : Nat × Nat) :
    (p ∈ filterLS ls sel ↔ p ∈ ls ∧ p ∈ sel) ∧ (filterLS ls sel).Sublist ls := by
  unfold filterLS
  refine ⟨?_, List.filter_sublist⟩
  simp [List.mem_filter]

/-- a selection that is a sub-list of a duplicate-free list is reproduced verbatim by the filter -/
theorem ls_restrict_pairs_verbatim (ls sel : List (Nat × Nat)) (hnd : ls.Nodup) (hsub : sel.Sublist ls) :
    filterLS ls sel = sel := by
  unfold filterLS
  induction hsub with
  | slnil => rfl
  | @cons l₁ l₂ a h ih =>
    have hnd' : l₂.Nodup := (List.nodup_cons.1 hnd).2
    have ha : a ∉ l₁ := fun hm => (List.nodup_cons.1 hnd).1 (h.subset hm)
    rw [List.filter_cons_of_neg (by simpa using ha)]
    exact ih hnd'
  | @cons_cons l₁ l₂ a h ih =>
    have hnd' : l₂.Nodup := (List.nodup_cons.1 hnd).2
    have ha : a ∉ l₂ := (List.nodup_cons.1 hnd).1
    rw [List.filter_cons_of_pos (by simp)]
    congr 1
    rw [← ih hnd']
    apply List.filter_congr
    intro x hx
    have hxa : x ≠ a := fun e => ha (e ▸ hx)
    simp [hxa]
    exact fun _ => hx

/-- for the rule list of any spin-parity assignment -/
theorem ls_restrict_pairs_of_rule (ja jb jc : Nat) (pa pb pc : Option Int) (pBreak : Bool) (ca : Option Int)
    (sel : List (Nat × Nat)) (hsub : sel.Sublist (lsList ja jb jc pa pb pc pBreak ca)) :
    filterLS (lsList ja jb jc pa pb pc pBreak ca) sel = sel :=
  ls_restrict_pairs_verbatim _ sel (ls_nodup ja jb jc pa pb pc pBreak ca) hsub

-- non-vacuity: 1⁻ → 1⁻ 0⁺ restricted to its D wave
example : filterLS (lsList 2 2 0 (some (-1)) (some (-1)) (some 1) false none) [(2, 2)] = [(2, 2)] := by decide

end TfPwaV.C13
