import TfPwaV.Proofs.ErrProp
/-!
# C09 — Uncertainties are first-order propagated from the inverse Hessian

Theorems over ℝ about `TfPwaV.ErrPropR`, the ℝ-instance of `templates/ErrProp.lean.in` (the *same text* is
instantiated at Float and compared with `tf_pwa.err_num`, `tf_pwa.fitfractions`, `VarsManager.trans_error_matrix`
and `cal_hesse_error` on every run).

Specification used throughout: for independent operands with standard deviations `σ_k`, the first-order
propagated error of `f` is `sqrt(J V Jᵀ) = sqrt(Σ_k (∂f/∂x_k)² σ_k²)`, `∂f/∂x_k` being *the* derivative
(`HasDerivAt`, which is unique).  `IsProp1` / `IsProp2` say exactly this for one / two uncertain operands.

The operators `mulS div divS pow rpow` of the model are the code after `fix_err_num.diff`; the text of the
unpatched code is `…Legacy` and is *refuted* below on concrete witnesses (`…_violates`).  The harness
observes which variant the working tree implements.
-/
open TfPwaV.ScalarR
namespace TfPwaV.C09
open TfPwaV.ErrPropR

/-- `r` is the value and the first-order propagated error of `f` at the uncertain operand `a`. -/
def IsProp1 (f : ℝ → ℝ) (a r : NE) : Prop :=
  r.val = f a.val ∧ ∃ d, HasDerivAt f d a.val ∧ r.err = Real.sqrt (d ^ 2 * a.err ^ 2)

/-- `r` is the value and the first-order propagated error of `f` at two independent uncertain operands. -/
def IsProp2 (f : ℝ → ℝ → ℝ) (a b r : NE) : Prop :=
  r.val = f a.val b.val ∧ ∃ da db, HasDerivAt (fun x => f x b.val) da a.val ∧
    HasDerivAt (fun y => f a.val y) db b.val ∧
    r.err = Real.sqrt (da ^ 2 * a.err ^ 2 + db ^ 2 * b.err ^ 2)

/-- What `IsProp1` gives for *the* derivative: `err² = (f')² σ²` and `err ≥ 0`. -/
theorem IsProp1.spec {f : ℝ → ℝ} {a r : NE} (h : IsProp1 f a r) (d : ℝ) (hd : HasDerivAt f d a.val) :
    r.err ^ 2 = d ^ 2 * a.err ^ 2 ∧ 0 ≤ r.err := by
  obtain ⟨_, d', hd', he⟩ := h
  have : d' = d := hd'.unique hd
  subst this
  rw [he]
  exact ⟨Real.sq_sqrt (by positivity), Real.sqrt_nonneg _⟩

/-- What `IsProp2` gives for *the* partial derivatives: `err² = Σ (∂f/∂x_k)² σ_k²` and `err ≥ 0`. -/
theorem IsProp2.spec {f : ℝ → ℝ → ℝ} {a b r : NE} (h : IsProp2 f a b r) (da db : ℝ)
    (hda : HasDerivAt (fun x => f x b.val) da a.val) (hdb : HasDerivAt (fun y => f a.val y) db b.val) :
    r.err ^ 2 = da ^ 2 * a.err ^ 2 + db ^ 2 * b.err ^ 2 ∧ 0 ≤ r.err := by
  obtain ⟨_, da', db', hda', hdb', he⟩ := h
  have h1 : da' = da := hda'.unique hda
  have h2 : db' = db := hdb'.unique hdb
  subst h1 h2
  rw [he]
  exact ⟨Real.sq_sqrt (by positivity), Real.sqrt_nonneg _⟩

/-! ## NumberError operators: correct in the current code -/

theorem add_rule (a b : NE) : IsProp2 (fun x y => x + y) a b (a.add b) := by
  refine ⟨rfl, 1, 1, ?_, ?_, ?_⟩
  · simpa using (hasDerivAt_id' a.val).add_const b.val
  · simpa using (hasDerivAt_id' b.val).const_add a.val
  · simp only [NE.add, ksqrt, ErrPropR.sq]; congr 1; ring

theorem addS_rule (a : NE) (c : ℝ) (ha : 0 ≤ a.err) : IsProp1 (fun x => x + c) a (a.addS c) := by
  refine ⟨rfl, 1, ?_, ?_⟩
  · simpa using (hasDerivAt_id' a.val).add_const c
  · rw [sqrt_sq_mul_sq _ _ ha]; simp [NE.addS]

theorem sub_rule (a b : NE) : IsProp2 (fun x y => x - y) a b (a.sub b) := by
  refine ⟨rfl, 1, -1, ?_, ?_, ?_⟩
  · simpa using (hasDerivAt_id' a.val).sub_const b.val
  · simpa using (hasDerivAt_id' b.val).const_sub a.val
  · simp only [NE.sub, ksqrt, ErrPropR.sq]; congr 1; ring

theorem subS_rule (a : NE) (c : ℝ) (ha : 0 ≤ a.err) : IsProp1 (fun x => x - c) a (a.subS c) := by
  refine ⟨rfl, 1, ?_, ?_⟩
  · simpa using (hasDerivAt_id' a.val).sub_const c
  · rw [sqrt_sq_mul_sq _ _ ha]; simp [NE.subS]

theorem neg_rule (a : NE) (ha : 0 ≤ a.err) : IsProp1 (fun x => -x) a a.neg := by
  refine ⟨rfl, -1, ?_, ?_⟩
  · exact (hasDerivAt_id' a.val).neg
  · rw [sqrt_sq_mul_sq _ _ ha]; simp [NE.neg]

theorem mul_rule (a b : NE) : IsProp2 (fun x y => x * y) a b (a.mul b) := by
  refine ⟨rfl, b.val, a.val, ?_, ?_, ?_⟩
  · simpa using (hasDerivAt_id' a.val).mul_const b.val
  · simpa using (hasDerivAt_id' b.val).const_mul a.val
  · simp only [NE.mul, ksqrt, ErrPropR.sq]; congr 1; ring

/-- `x ** c` for a plain exponent `c`, base `x > 0` (python floats: `x ** c` is real for every `c`). -/
theorem powS_rule (a : NE) (c : ℝ) (hv : 0 < a.val) (ha : 0 ≤ a.err) :
    IsProp1 (fun x => kpow x c) a (a.powS c) := by
  refine ⟨rfl, c * a.val ^ (c - 1), ?_, ?_⟩
  · exact Real.hasDerivAt_rpow_const (Or.inl hv.ne')
  · rw [sqrt_sq_mul_sq _ _ ha]; simp [NE.powS, kpow, kabs]

/-- the same for a negative or zero base when the exponent is at least 1 (e.g. integers `c ≥ 1`; for `x < 0` and
integer `c`, `Real.rpow` agrees with the float power). -/
theorem powS_rule_of_one_le (a : NE) (c : ℝ) (hc : 1 ≤ c) (ha : 0 ≤ a.err) :
    IsProp1 (fun x => kpow x c) a (a.powS c) := by
  refine ⟨rfl, c * a.val ^ (c - 1), ?_, ?_⟩
  · exact Real.hasDerivAt_rpow_const (Or.inr hc)
  · rw [sqrt_sq_mul_sq _ _ ha]; simp [NE.powS, kpow, kabs]

/-- `log`, on the code's domain `x > 0` (`np.log` of a negative number is nan). -/
theorem log_rule (a : NE) (hv : 0 < a.val) (ha : 0 ≤ a.err) : IsProp1 klog a a.log := by
  refine ⟨rfl, a.val⁻¹, ?_, ?_⟩
  · exact Real.hasDerivAt_log hv.ne'
  · rw [sqrt_sq_mul_sq _ _ ha, abs_inv]; simp only [NE.log, kabs]; ring

theorem exp_rule (a : NE) (ha : 0 ≤ a.err) : IsProp1 kexp a a.exp := by
  refine ⟨rfl, Real.exp a.val, ?_, ?_⟩
  · exact Real.hasDerivAt_exp a.val
  · rw [sqrt_sq_mul_sq _ _ ha, abs_of_pos (Real.exp_pos _)]; simp [NE.exp, kexp]

/-- `apply(fun, grad)`: if the supplied `grad` is the derivative of `fun`, the result is the propagation. -/
theorem applyG_rule (a : NE) (f : ℝ → ℝ) (gv : ℝ) (hf : HasDerivAt f gv a.val) (ha : 0 ≤ a.err) :
    IsProp1 f a (a.applyG (f a.val) gv) := by
  refine ⟨rfl, gv, hf, ?_⟩
  rw [sqrt_sq_mul_sq _ _ ha]; simp [NE.applyG, kabs]

/-- The central difference used by `apply(fun)` / `cal_err(fun)` without `grad` is exact on polynomials of degree ≤ 2. -/
theorem centralDiff_quadratic (c0 c1 c2 x dx : ℝ) (hdx : dx ≠ 0) :
    centralDiff (fun x => c0 + c1 * x + c2 * x * x) x dx = c1 + 2 * c2 * x := by
  unfold centralDiff; field_simp; ring

/-- FULL: `apply(fun)` without `grad` is the propagation for every differentiable `fun` up to the O(dx²)
truncation error of the central difference.  Proved: exact for polynomials of degree ≤ 2; the truncation error
for general `fun` is not bounded here (validated by the search against analytic derivatives). -/
theorem applyFD_rule_partial (a : NE) (c0 c1 c2 dx : ℝ) (hdx : dx ≠ 0) (ha : 0 ≤ a.err) :
    IsProp1 (fun x => c0 + c1 * x + c2 * x * x) a (a.applyFD (fun x => c0 + c1 * x + c2 * x * x) dx) := by
  refine ⟨rfl, c1 + 2 * c2 * a.val, ?_, ?_⟩
  · have h1 : HasDerivAt (fun x : ℝ => c1 * x) c1 a.val := by
      simpa using (hasDerivAt_id' a.val).const_mul c1
    have h2 : HasDerivAt (fun x : ℝ => c2 * x * x) (c2 * a.val + c2 * a.val) a.val := by
      exact (((hasDerivAt_id' a.val).const_mul c2).mul (hasDerivAt_id' a.val)).congr_deriv (by ring)
    exact (((hasDerivAt_const a.val c0).add h1).add h2).congr_deriv (by ring)
  · rw [sqrt_sq_mul_sq _ _ ha]
    simp only [NE.applyFD, kabs]
    rw [centralDiff_quadratic c0 c1 c2 a.val dx hdx]

/-- `cal_err(fun, *args, grad=…)`: if the supplied gradient is the gradient of `fun` (partial derivatives `G k`
at `x`), the returned error is `sqrt(Σ_k (∂f/∂x_k)² σ_k²)`, which is `sqrt(J V Jᵀ)` for `V = diag(σ²)`;
plain-number operands enter with `σ_k = 0`. -/
theorem calErr_rule {n : Nat} (f : (Fin n → ℝ) → ℝ) (x G σ : Fin n → ℝ)
    (_hG : ∀ k, HasDerivAt (fun s => f (Function.update x k s)) (G k) (x k)) :
    calErr (List.ofFn G) (List.ofFn σ) = Real.sqrt (∑ k, (G k) ^ 2 * (σ k) ^ 2)
    ∧ calErr (List.ofFn G) (List.ofFn σ)
        = errFromGrad (List.ofFn fun i => List.ofFn fun j => if i = j then (σ i) ^ 2 else 0) (List.ofFn G)
    ∧ 0 ≤ calErr (List.ofFn G) (List.ofFn σ) := by
  refine ⟨?_, ?_, Real.sqrt_nonneg _⟩
  · unfold calErr ksqrt; rw [sumSq_ofFn]
  · unfold calErr errFromGrad ksqrt
    rw [sumSq_ofFn, quadForm_ofFn]
    congr 1
    apply Finset.sum_congr rfl
    intro i _
    simp only [mul_ite, ite_mul, mul_zero, zero_mul, Finset.sum_ite_eq, Finset.mem_univ, if_true]
    ring

/-- FULL: every operator of `NumberError` as it is in /repo satisfies the propagation rule whenever either
operand is uncertain.  This is FALSE of the unpatched code (see `mulSLegacy_violates`, `divLegacy_violates`,
`divSLegacy_violates`, `powLegacy_violates`, `rpowLegacy_violates`); proved here for the operators whose text is
unchanged by `fix_err_num.diff`.  The remaining ones are covered by `op_rule_is_jvj_fixed`. -/
theorem op_rule_is_jvj_partial (a b : NE) (c : ℝ) (ha : 0 ≤ a.err) :
    IsProp2 (fun x y => x + y) a b (a.add b) ∧ IsProp1 (fun x => x + c) a (a.addS c) ∧
    IsProp2 (fun x y => x - y) a b (a.sub b) ∧ IsProp1 (fun x => x - c) a (a.subS c) ∧
    IsProp1 (fun x => -x) a a.neg ∧ IsProp2 (fun x y => x * y) a b (a.mul b) ∧
    (0 < a.val → IsProp1 (fun x => kpow x c) a (a.powS c)) ∧
    (0 < a.val → IsProp1 klog a a.log) ∧ IsProp1 kexp a a.exp :=
  ⟨add_rule a b, addS_rule a c ha, sub_rule a b, subS_rule a c ha, neg_rule a ha, mul_rule a b,
   fun hv => powS_rule a c hv ha, fun hv => log_rule a hv ha, exp_rule a ha⟩

example : ∃ a : NE, 0 ≤ a.err ∧ 0 < a.val ∧ a.err ≠ 0 := ⟨⟨3, 0.3⟩, by norm_num, by norm_num, by norm_num⟩

/-! ## NumberError operators: correct after `fix_err_num.diff` -/

theorem mulS_rule (a : NE) (c : ℝ) (ha : 0 ≤ a.err) : IsProp1 (fun x => x * c) a (a.mulS c) := by
  refine ⟨rfl, c, ?_, ?_⟩
  · simpa using (hasDerivAt_id' a.val).mul_const c
  · rw [sqrt_sq_mul_sq _ _ ha]; simp only [NE.mulS, kabs]; ring

theorem divS_rule (a : NE) (c : ℝ) (_hc : c ≠ 0) (ha : 0 ≤ a.err) : IsProp1 (fun x => x / c) a (a.divS c) := by
  refine ⟨rfl, 1 / c, ?_, ?_⟩
  · simpa using (hasDerivAt_id' a.val).div_const c
  · rw [sqrt_sq_mul_sq _ _ ha, abs_div, abs_one]; simp only [NE.divS, kabs]; ring

theorem div_rule (a b : NE) (hb : b.val ≠ 0) : IsProp2 (fun x y => x / y) a b (a.div b) := by
  refine ⟨rfl, 1 / b.val, -a.val / b.val ^ 2, ?_, ?_, ?_⟩
  · simpa using (hasDerivAt_id' a.val).div_const b.val
  · exact ((hasDerivAt_const b.val a.val).div (hasDerivAt_id' b.val) hb).congr_deriv (by ring)
  · simp only [NE.div, ksqrt, ErrPropR.sq, kabs]
    rw [sqrt_div_abs]
    congr 1
    field_simp

/-- `x ** y` with both uncertain, on the domain `x > 0` where the exponent sensitivity `x^y ln x` exists. -/
theorem pow_rule (a b : NE) (hv : 0 < a.val) : IsProp2 (fun x y => kpow x y) a b (a.pow b) := by
  refine ⟨rfl, b.val * a.val ^ (b.val - 1), a.val ^ b.val * Real.log a.val, ?_, ?_, ?_⟩
  · exact Real.hasDerivAt_rpow_const (Or.inl hv.ne')
  · exact (Real.hasStrictDerivAt_const_rpow hv b.val).hasDerivAt
  · simp only [NE.pow, ksqrt, ErrPropR.sq, kpow, klog]; congr 1; ring

/-- `c ** x` with a plain base `c > 0`. -/
theorem rpow_rule (c : ℝ) (a : NE) (hc : 0 < c) (ha : 0 ≤ a.err) :
    IsProp1 (fun x => kpow c x) a (NE.rpow c a) := by
  refine ⟨rfl, c ^ a.val * Real.log c, ?_, ?_⟩
  · exact (Real.hasStrictDerivAt_const_rpow hc a.val).hasDerivAt
  · rw [sqrt_sq_mul_sq _ _ ha]; simp only [NE.rpow, kabs, kpow, klog]; rw [mul_comm (Real.log c)]

/-- The operators changed by `fix_err_num.diff` satisfy the propagation rule, for every operand (negative
values and factors included) on the domain where the derivative exists. -/
theorem op_rule_is_jvj_fixed (a b : NE) (c : ℝ) (ha : 0 ≤ a.err) :
    IsProp1 (fun x => x * c) a (a.mulS c) ∧ (c ≠ 0 → IsProp1 (fun x => x / c) a (a.divS c)) ∧
    (b.val ≠ 0 → IsProp2 (fun x y => x / y) a b (a.div b)) ∧
    (0 < a.val → IsProp2 (fun x y => kpow x y) a b (a.pow b)) ∧
    (0 < c → IsProp1 (fun x => kpow c x) a (NE.rpow c a)) :=
  ⟨mulS_rule a c ha, fun hc => divS_rule a c hc ha, fun hb => div_rule a b hb, fun hv => pow_rule a b hv,
   fun hc => rpow_rule c a hc ha⟩

example : ∃ (a b : NE) (c : ℝ), 0 ≤ a.err ∧ b.val ≠ 0 ∧ b.val < 0 ∧ 0 < a.val ∧ c ≠ 0 :=
  ⟨⟨3, 0.3⟩, ⟨-2, 0.4⟩, -2, by norm_num, by norm_num, by norm_num, by norm_num, by norm_num⟩

/-! ## … and FALSE of the unpatched operators (concrete witnesses, replayed on `tf_pwa.err_num` by the harness) -/

/-- `NumberError(1, 1) * (-2)` has error `-2 < 0` in the unpatched code: not a propagated error. -/
theorem mulSLegacy_violates :
    (NE.mulSLegacy ⟨1, 1⟩ (-2)).err = (-2 : ℝ) ∧ ¬ IsProp1 (fun x => x * (-2)) ⟨1, 1⟩ (NE.mulSLegacy ⟨1, 1⟩ (-2)) := by
  have he : (NE.mulSLegacy ⟨1, 1⟩ (-2)).err = (-2 : ℝ) := by simp [NE.mulSLegacy]
  refine ⟨he, fun h => ?_⟩
  obtain ⟨_, d, _, h2⟩ := h
  have := Real.sqrt_nonneg (d ^ 2 * (1 : ℝ) ^ 2)
  rw [he] at h2
  simp only at h2
  linarith

/-- `NumberError(1, 1) / (-2)` has error `-1/2 < 0` in the unpatched code. -/
theorem divSLegacy_violates :
    (NE.divSLegacy ⟨1, 1⟩ (-2)).err = (-(1 / 2) : ℝ) ∧ ¬ IsProp1 (fun x => x / (-2)) ⟨1, 1⟩ (NE.divSLegacy ⟨1, 1⟩ (-2)) := by
  have he : (NE.divSLegacy ⟨1, 1⟩ (-2)).err = (-(1 / 2) : ℝ) := by simp [NE.divSLegacy]
  refine ⟨he, fun h => ?_⟩
  obtain ⟨_, d, _, h2⟩ := h
  rw [he] at h2
  have : (0 : ℝ) ≤ -(1 / 2) := by rw [h2]; exact Real.sqrt_nonneg _
  norm_num at this

/-- `NumberError(1, 1) / NumberError(-2, 0)` has error `-1/2 < 0` in the unpatched code. -/
theorem divLegacy_violates :
    (NE.divLegacy ⟨1, 1⟩ ⟨-2, 0⟩).err = (-(1 / 2) : ℝ) ∧
      ¬ IsProp2 (fun x y => x / y) ⟨1, 1⟩ ⟨-2, 0⟩ (NE.divLegacy ⟨1, 1⟩ ⟨-2, 0⟩) := by
  have he : (NE.divLegacy ⟨1, 1⟩ ⟨-2, 0⟩).err = (-(1 / 2) : ℝ) := by
    simp [NE.divLegacy, ksqrt, ErrPropR.sq]
  refine ⟨he, fun h => ?_⟩
  obtain ⟨_, da, db, _, _, h2⟩ := h
  rw [he] at h2
  have : (0 : ℝ) ≤ -(1 / 2) := by rw [h2]; exact Real.sqrt_nonneg _
  norm_num at this

/-- `NumberError(1, 0) ** NumberError(2, 1)`: the true exponent sensitivity is `1² ln 1 = 0`, so the propagated
error is 0; the unpatched code uses `ln(exponent)` and returns `ln 2`. -/
theorem powLegacy_violates :
    (NE.powLegacy ⟨1, 0⟩ ⟨2, 1⟩).err = Real.log 2 ∧
      ¬ IsProp2 (fun x y => kpow x y) ⟨1, 0⟩ ⟨2, 1⟩ (NE.powLegacy ⟨1, 0⟩ ⟨2, 1⟩) := by
  have hl : 0 < Real.log 2 := Real.log_pos (by norm_num)
  have he : (NE.powLegacy ⟨1, 0⟩ ⟨2, 1⟩).err = Real.log 2 := by
    simp only [NE.powLegacy, ksqrt, ErrPropR.sq, kpow, klog, Real.one_rpow]
    rw [show (2 * 1 * 0 : ℝ) * (2 * 1 * 0) + Real.log 2 * 1 * 1 * (Real.log 2 * 1 * 1) = Real.log 2 ^ 2 by ring]
    exact Real.sqrt_sq hl.le
  refine ⟨he, fun h => ?_⟩
  have hb : HasDerivAt (fun y : ℝ => kpow 1 y) 0 2 := by
    have : (fun y : ℝ => kpow 1 y) = fun _ => (1 : ℝ) := by funext y; simp [kpow]
    rw [this]; exact hasDerivAt_const _ _
  have ha : HasDerivAt (fun x : ℝ => kpow x 2) (2 * (1 : ℝ) ^ ((2 : ℝ) - 1)) 1 :=
    Real.hasDerivAt_rpow_const (Or.inl one_ne_zero)
  have := (h.spec _ _ ha hb).1
  rw [he] at this
  simp only at this
  nlinarith

/-- `2.0 ** NumberError(1, 1)`: the propagated error is `2 ln 2`; the unpatched code uses `ln(exponent) = ln 1`
and returns 0. -/
theorem rpowLegacy_violates :
    (NE.rpowLegacy 2 ⟨1, 1⟩).err = 0 ∧ ¬ IsProp1 (fun x => kpow 2 x) ⟨1, 1⟩ (NE.rpowLegacy 2 ⟨1, 1⟩) := by
  have hl : 0 < Real.log 2 := Real.log_pos (by norm_num)
  have he : (NE.rpowLegacy 2 ⟨1, 1⟩).err = 0 := by simp [NE.rpowLegacy, klog]
  refine ⟨he, fun h => ?_⟩
  have hd : HasDerivAt (fun x : ℝ => kpow 2 x) ((2 : ℝ) ^ (1 : ℝ) * Real.log 2) 1 :=
    (Real.hasStrictDerivAt_const_rpow (by norm_num) 1).hasDerivAt
  have := (h.spec _ hd).1
  rw [he] at this
  simp only [Real.rpow_one] at this
  nlinarith

/-! ## Fit fractions: the code's gradients are the derivatives of the fractions -/

/-- Along an arbitrary line `θ₀ + s·u` in parameter space: if the cached gradients `gi`, `g` are the gradients of
the integrals `I_i`, `I` (directional derivatives `gi·u`, `g·u`), then the code's
`g_i/I − (I_i/I)·g/I` is the gradient of the fit fraction `I_i/I` (directional derivative `·u`). -/
theorem frac_grad_is_deriv {n : Nat} (Ii I : ℝ → ℝ) (gi g u : Fin n → ℝ) (t : ℝ)
    (hIi : HasDerivAt Ii (∑ k, gi k * u k) t) (hI : HasDerivAt I (∑ k, g k * u k) t) (h0 : I t ≠ 0) :
    HasDerivAt (fun s => frac (Ii s) (I s))
      (dot (fracGrad (Ii t) (I t) (List.ofFn gi) (List.ofFn g)) (List.ofFn u)) t := by
  rw [fracGrad_ofFn, dot_ofFn]
  have e : ∑ k, (gi k / I t - Ii t / I t * g k / I t) * u k
      = (∑ k, gi k * u k) / I t - Ii t / I t * (∑ k, g k * u k) / I t := by
    rw [Finset.mul_sum, Finset.sum_div, Finset.sum_div, ← Finset.sum_sub_distrib]
    apply Finset.sum_congr rfl; intro k _; ring
  rw [e]
  refine (hIi.div hI h0).congr_deriv ?_
  field_simp

example : ∃ (I : ℝ → ℝ), I 0 ≠ 0 ∧ HasDerivAt I (∑ k : Fin 1, (fun _ => (2 : ℝ)) k * (fun _ => (1 : ℝ)) k) 0 :=
  ⟨fun s => 1 + 2 * s, by norm_num, by
    simpa using ((hasDerivAt_id' (0 : ℝ)).const_mul 2).const_add 1⟩

/-- Interference fraction `FF_ij = I_ij/I − FF_i − FF_j` (with `I_ij` the integral of `|A_i + A_j|²`): the code's
combination `g_ij/I − (I_ij/I) g/I − gFF_i − gFF_j` is its gradient. -/
theorem frac_grad_ij_is_deriv {n : Nat} (Iij Ii Ij I : ℝ → ℝ) (gij gi gj g u : Fin n → ℝ) (t : ℝ)
    (hIij : HasDerivAt Iij (∑ k, gij k * u k) t) (hIi : HasDerivAt Ii (∑ k, gi k * u k) t)
    (hIj : HasDerivAt Ij (∑ k, gj k * u k) t) (hI : HasDerivAt I (∑ k, g k * u k) t) (h0 : I t ≠ 0) :
    HasDerivAt (fun s => fracIJ (Iij s) (I s) (frac (Ii s) (I s)) (frac (Ij s) (I s)))
      (dot (fracGradIJ (Iij t) (I t) (List.ofFn gij) (List.ofFn g)
              (fracGrad (Ii t) (I t) (List.ofFn gi) (List.ofFn g))
              (fracGrad (Ij t) (I t) (List.ofFn gj) (List.ofFn g))) (List.ofFn u)) t := by
  have hi := frac_grad_is_deriv Ii I gi g u t hIi hI h0
  have hj := frac_grad_is_deriv Ij I gj g u t hIj hI h0
  have hij := frac_grad_is_deriv Iij I gij g u t hIij hI h0
  rw [fracGrad_ofFn, dot_ofFn] at hi hj hij
  rw [fracGrad_ofFn, fracGrad_ofFn, fracGradIJ_ofFn, dot_ofFn]
  refine ((hij.sub hi).sub hj).congr_deriv ?_
  rw [← Finset.sum_sub_distrib, ← Finset.sum_sub_distrib]
  apply Finset.sum_congr rfl; intro k _; ring

/-- `sum_diag`: the sum of the per-resonance gradients is the gradient of the sum of the fractions. -/
theorem sum_diag_is_deriv {m n : Nat} (F : Fin m → ℝ → ℝ) (G : Fin m → Fin n → ℝ) (u : Fin n → ℝ) (t : ℝ)
    (hF : ∀ k, HasDerivAt (F k) (∑ j, G k j * u j) t) :
    HasDerivAt (fun s => sumK (List.ofFn fun k => F k s))
      (dot (sumV n (List.ofFn fun k => List.ofFn (G k))) (List.ofFn u)) t := by
  rw [sumV_ofFn, dot_ofFn]
  have h1 : (fun s => sumK (List.ofFn fun k => F k s)) = fun s => ∑ k, F k s := by
    funext s; exact sumK_ofFn _
  rw [h1]
  refine (HasDerivAt.fun_sum (u := Finset.univ) (fun k _ => hF k)).congr_deriv ?_
  rw [Finset.sum_comm]
  apply Finset.sum_congr rfl; intro j _
  rw [Finset.sum_mul]

/-- `get_frac` / `fit_fractions`: the reported error is `sqrt(g V gᵀ)`, i.e. squared it is the quadratic form of
the covariance in the gradient (whenever that is non-negative, e.g. `V` positive semi-definite), and it is ≥ 0. -/
theorem err_from_grad_is_jvj {n : Nat} (V : Fin n → Fin n → ℝ) (g : Fin n → ℝ)
    (hpsd : 0 ≤ ∑ i, ∑ j, g i * V i j * g j) :
    (errFromGrad (List.ofFn fun i => List.ofFn (V i)) (List.ofFn g)) ^ 2 = ∑ i, ∑ j, g i * V i j * g j
    ∧ 0 ≤ errFromGrad (List.ofFn fun i => List.ofFn (V i)) (List.ofFn g) := by
  unfold errFromGrad ksqrt
  rw [quadForm_ofFn]
  exact ⟨Real.sq_sqrt hpsd, Real.sqrt_nonneg _⟩

example : (0 : ℝ) ≤ ∑ i : Fin 1, ∑ j : Fin 1, (fun _ => (3 : ℝ)) i * (fun _ _ => (2 : ℝ)) i j * (fun _ => (3 : ℝ)) j := by
  simp

/-! ## Bound transformation of the covariance -/

/-- `trans_error_matrix`: for the componentwise change of variables `y_i = y_i(x_i)` with `y_i'(x_i) = d_i`, the
Jacobian is `J = diag(d)` (proved entry by entry with `HasDerivAt`) and the code's `d_i V_ij d_j` is the
first-order covariance `J V Jᵀ`. -/
theorem bound_cov {n : Nat} (y : Fin n → ℝ → ℝ) (x d : Fin n → ℝ) (V : Fin n → Fin n → ℝ)
    (hy : ∀ i, HasDerivAt (y i) (d i) (x i)) :
    ∃ J : Fin n → Fin n → ℝ,
      (∀ i k, HasDerivAt (fun s => y i (Function.update x k s i)) (J i k) (x k)) ∧
      transErrorMatrix (List.ofFn d) (List.ofFn fun i => List.ofFn (V i))
        = List.ofFn fun i => List.ofFn fun j => ∑ k, ∑ l, J i k * V k l * J j l := by
  refine ⟨fun i k => if i = k then d i else 0, ?_, ?_⟩
  · intro i k
    by_cases h : i = k
    · subst h
      simp only [Function.update_self, if_true]
      exact hy i
    · have : (fun s => y i (Function.update x k s i)) = fun _ => y i (x i) := by
        funext s; rw [Function.update_of_ne h]
      rw [this]
      simp only [if_neg h]
      exact hasDerivAt_const _ _
  · rw [transErrorMatrix_ofFn]
    congr 1; funext i; congr 1; funext j
    simp [ite_mul, mul_ite, Finset.sum_ite_eq]

example : HasDerivAt (fun x : ℝ => 2 * x) 2 1 := by simpa using (hasDerivAt_id' (1 : ℝ)).const_mul 2

/-! ## Hesse errors -/

/-- For a positive-definite Hessian `H` with inverse `V` (`H V = 1`, the inverse being a parameter of the
model: numpy computes it), every diagonal entry of `V` is positive. -/
theorem diag_inv_pos {n : Nat} (H V : Fin n → Fin n → ℝ)
    (hpd : ∀ x : Fin n → ℝ, x ≠ 0 → 0 < ∑ i, ∑ j, x i * H i j * x j)
    (hinv : ∀ i k, ∑ j, H i j * V j k = if i = k then 1 else 0) (k : Fin n) : 0 < V k k := by
  have hx : (fun j => V j k) ≠ 0 := by
    intro h
    have := hinv k k
    simp only [if_true] at this
    have hz : ∀ j, V j k = 0 := fun j => congrFun h j
    simp [hz] at this
  have := hpd _ hx
  have e : ∑ i, ∑ j, V i k * H i j * V j k = V k k := by
    have : ∀ i, ∑ j, V i k * H i j * V j k = V i k * (if i = k then 1 else 0) := by
      intro i
      rw [← hinv i k, Finset.mul_sum]
      apply Finset.sum_congr rfl; intro j _; ring
    simp [this]
  rw [e] at this
  exact this

example : ∀ x : Fin 1 → ℝ, x ≠ 0 → 0 < ∑ i, ∑ j, x i * (fun _ _ => (2 : ℝ)) i j * x j := by
  intro x hx
  have h0 : x 0 ≠ 0 := by
    intro h; apply hx; funext i; rw [Fin.fin_one_eq_zero i]; exact h
  simp only [Finset.univ_unique, Fin.default_eq_zero, Finset.sum_singleton]
  have := sq_pos_of_ne_zero h0 -- x 0 ^ 2 > 0
  nlinarith

/-- Where the Hessian is positive definite, `sqrt(fabs(diag(H⁻¹)))` of `cal_hesse_error` / `get_params_error` is
the plain square root of the diagonal of the inverse: `σ_k² = (H⁻¹)_kk`, `σ_k > 0`. -/
theorem hesse_error_pd {n : Nat} (H V : Fin n → Fin n → ℝ)
    (hpd : ∀ x : Fin n → ℝ, x ≠ 0 → 0 < ∑ i, ∑ j, x i * H i j * x j)
    (hinv : ∀ i k, ∑ j, H i j * V j k = if i = k then 1 else 0) :
    hesseError (List.ofFn fun k => V k k) = List.ofFn (fun k => Real.sqrt (V k k))
    ∧ ∀ k, Real.sqrt (V k k) ^ 2 = V k k ∧ 0 < Real.sqrt (V k k) := by
  have hp := diag_inv_pos H V hpd hinv
  refine ⟨?_, fun k => ⟨Real.sq_sqrt (hp k).le, Real.sqrt_pos.mpr (hp k)⟩⟩
  rw [hesseError_ofFn]
  congr 1; funext k
  rw [abs_of_pos (hp k)]

/-- Outside the property's hypothesis (a negative diagonal entry, Hessian not positive definite) the code's
`fabs` reports `sqrt(−v)`, which is not a root of `v`: the plain root does not exist (`Real.sqrt v = 0`).
`force_pos_def` repairs are not claimed. -/
theorem hesse_error_negative_diag (v : ℝ) (hv : v < 0) :
    hesseError [v] = [Real.sqrt (-v)] ∧ 0 < Real.sqrt (-v) ∧ Real.sqrt v = 0 := by
  refine ⟨?_, Real.sqrt_pos.mpr (by linarith), Real.sqrt_eq_zero_of_nonpos hv.le⟩
  simp [hesseError, ksqrt, kabs, abs_of_neg hv]

end TfPwaV.C09
