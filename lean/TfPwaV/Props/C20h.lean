import TfPwaV.Proofs.Toy
import TfPwaV.Props.C20
/-!
# C20 (part h) — the toy-generation drivers

Theorems about `TfPwaV.ToyR`, the ℝ-instance of `templates/Toy.lean.in` (`generate_toy`, `generate_toy2`,
`generate_toy_p`, `generate_toy_o`, `single_sampling`, `gen_random_charge`, the accept loop / counts / row layout of
`applications.gen_data` and `gen_mc`); the Float instance of the same text is executed bit-for-bit against the real
functions on recorded streams on every run.  All statements quantify over every keyword combination that reaches the
sampling loop (`N`, `max_N`, `force`, `importance_f` given or not, `config.max_amplitude` absent / `None` / any value),
every proposal / amplitude / importance / uniform stream and every number of loop iterations (`fuel`).
-/
open TfPwaV.ScalarR
namespace TfPwaV.C20h
open TfPwaV.SamplerR TfPwaV.ToyR

/-- the three registered wrappers -/
inductive Wrapper where
  | toy | toy2 | toyP

noncomputable def call : Wrapper → Nat → Nat → Bool → Bool → Bool → Option ℝ → (Nat → Nat → RawBatch) → Nat → ToyOut
  | .toy => generateToy
  | .toy2 => generateToy2
  | .toyP => generateToyP

theorem call_eq (w : Wrapper) (N maxN : Nat) (force imp hasAttr : Bool) (cfgMax : Option ℝ)
    (gen : Nat → Nat → RawBatch) (fuel : Nat) :
    call w N maxN force imp hasAttr cfgMax gen fuel =
      ⟨finish force N (run N maxN (fun k n => (gen k n).toBatch imp) fuel 0
          (init (passedBound imp (cfgAfterHasattr hasAttr cfgMax)))),
        passedBound imp (cfgAfterHasattr hasAttr cfgMax),
        cfgAfterCall imp (cfgAfterHasattr hasAttr cfgMax) (passedBound imp (cfgAfterHasattr hasAttr cfgMax)),
        run N maxN (fun k n => (gen k n).toBatch imp) fuel 0
          (init (passedBound imp (cfgAfterHasattr hasAttr cfgMax)))⟩ := by
  cases w <;> rfl

/-! ## `generate_toy` / `generate_toy2` / `generate_toy_p` -/

/-- ★ `toy_exact_count`: every wrapper, every keyword path (`importance_f` or not, `config.max_amplitude` absent, `None`
or any number, every `max_N`): with `force=True`, if the sampling loop exits the result has exactly `N` events. -/
theorem toy_exact_count (w : Wrapper) (N maxN : Nat) (imp hasAttr : Bool) (cfgMax : Option ℝ)
    (gen : Nat → Nat → RawBatch) (hx : RawExact imp gen) (fuel : Nat)
    (hexit : exited N (call w N maxN true imp hasAttr cfgMax gen fuel).st) :
    (call w N maxN true imp hasAttr cfgMax gen fuel).ret.length = N := by
  rw [call_eq] at hexit ⊢
  simp only at hexit ⊢
  have h := (counters_run N maxN _ (passedBound imp (cfgAfterHasattr hasAttr cfgMax)) (exact_of_raw imp gen hx) fuel).1
  unfold exited at hexit
  simp only [finish, if_true, List.length_take]
  omega

/-- with `force=False` the result has at least `N` events (all retained ones), the sampler state is the same -/
theorem toy_count_no_force (w : Wrapper) (N maxN : Nat) (imp hasAttr : Bool) (cfgMax : Option ℝ)
    (gen : Nat → Nat → RawBatch) (hx : RawExact imp gen) (fuel : Nat)
    (hexit : exited N (call w N maxN false imp hasAttr cfgMax gen fuel).st) :
    N ≤ (call w N maxN false imp hasAttr cfgMax gen fuel).ret.length ∧
    (call w N maxN false imp hasAttr cfgMax gen fuel).st = (call w N maxN true imp hasAttr cfgMax gen fuel).st := by
  rw [call_eq, call_eq] at *
  simp only at hexit ⊢
  have h := (counters_run N maxN _ (passedBound imp (cfgAfterHasattr hasAttr cfgMax)) (exact_of_raw imp gen hx) fuel).1
  unfold exited at hexit
  refine ⟨?_, trivial⟩
  simp only [finish, Bool.false_eq_true, if_false]
  omega

/-- ★ `toy_accepted_le_bound`: every event a wrapper returns has (importance-divided) weight ≤ the bound that was in
force when it was accepted — on every keyword path, also when `config.max_amplitude` holds a bound that is too small,
and across every bound update / thinning restart (the bound is a ghost field of the model's events). -/
theorem toy_accepted_le_bound (w : Wrapper) (N maxN : Nat) (force imp hasAttr : Bool) (cfgMax : Option ℝ)
    (gen : Nat → Nat → RawBatch) (hw : RawNonneg gen) (fuel : Nat) :
    ∀ e ∈ (call w N maxN force imp hasAttr cfgMax gen fuel).ret, e.w ≤ e.bound := by
  rw [call_eq]
  intro e he
  simp only at he
  have hm : e ∈ (run N maxN (fun k n => (gen k n).toBatch imp) fuel 0
      (init (passedBound imp (cfgAfterHasattr hasAttr cfgMax)))).all := by
    unfold finish at he
    split at he
    · exact List.mem_of_mem_take he
    · exact he
  exact C20.accepted_le_bound N maxN _ _ (nonneg_of_raw imp gen hw) fuel e hm

/-- ★ on the paths that start `multi_sampling` without a bound (`importance_f` given, or `config.max_amplitude` absent
or `None` — what happens unless the user assigns the attribute) every returned event also satisfies
`bound it was accepted with ≤ final max_weight of the status`. -/
theorem toy_bound_le_final (w : Wrapper) (N maxN : Nat) (force imp hasAttr : Bool) (cfgMax : Option ℝ)
    (gen : Nat → Nat → RawBatch) (hw : RawNonneg gen) (fuel : Nat)
    (hnone : (call w N maxN force imp hasAttr cfgMax gen fuel).passed = none)
    (m : ℝ) (hm : (call w N maxN force imp hasAttr cfgMax gen fuel).st.maxW = some m) :
    ∀ e ∈ (call w N maxN force imp hasAttr cfgMax gen fuel).ret, e.w ≤ e.bound ∧ e.bound ≤ m := by
  rw [call_eq] at hnone hm ⊢
  simp only at hnone hm ⊢
  rw [hnone] at hm ⊢
  intro e he
  have hmem : e ∈ (run N maxN (fun k n => (gen k n).toBatch imp) fuel 0 (init none)).all := by
    unfold finish at he
    split at he
    · exact List.mem_of_mem_take he
    · exact he
  exact C20.bound_le_max_weight N maxN _ (nonneg_of_raw imp gen hw) fuel m hm e hmem

/-- which bound the wrappers hand to `multi_sampling`: none with `importance_f`, else `config.max_amplitude` -/
theorem toy_passed_bound (w : Wrapper) (N maxN : Nat) (force imp hasAttr : Bool) (cfgMax : Option ℝ)
    (gen : Nat → Nat → RawBatch) (fuel : Nat) :
    (call w N maxN force imp hasAttr cfgMax gen fuel).passed =
      if imp then none else if hasAttr then cfgMax else none := by
  rw [call_eq]; cases imp <;> cases hasAttr <;> rfl

/-- what the code does with the bound it found: NOTHING — `config.max_amplitude` after the call is what it was before
(or `None` if the attribute did not exist); the bound of `status` is dropped on every path. -/
theorem toy_config_bound_unchanged (w : Wrapper) (N maxN : Nat) (force imp hasAttr : Bool) (cfgMax : Option ℝ)
    (gen : Nat → Nat → RawBatch) (fuel : Nat) :
    (call w N maxN force imp hasAttr cfgMax gen fuel).cfgMax = if hasAttr then cfgMax else none := by
  rw [call_eq]; cases imp <;> cases hasAttr <;> rfl

/-! ## what happens to earlier events when a larger weight is found -/

/-- ★ `toy_restart_discards` (`multi_sampling`, growth branch `new_max_weight > max_weight and len(all_data) > 0`):
EVERY previously retained event is re-judged with its own fresh uniform — it survives exactly when
`rnd · M_new / M_old < 1` —, survivors keep their order, the batch's own accepted events are appended, the counter is
reset to the number of survivors plus the new events, and the bookkeeping bound becomes `M_new · 1.05`. -/
theorem toy_restart_discards (N maxN k : Nat) (b : Batch) (s : St) (hg : grows b s) :
    let M := acceptBound b.ws s.maxW
    let m := bookBound s.maxW M
    let s' := step N maxN k b s
    s'.all = ((s.all.zip b.thin).filter (fun p => decide (p.2 * M / m < 1))).map Prod.fst
              ++ acceptList k M 0 b.ws b.rnd ∧
    (((s.all.zip b.thin).filter (fun p => decide (p.2 * M / m < 1))).map Prod.fst).Sublist s.all ∧
    s'.nGen = s'.all.length ∧ s'.maxW = some (M * c105) ∧ m < M := by
  intro M m s'
  have h := step_grow N maxN k b s hg
  simp only at h
  refine ⟨?_, ?_, ?_, ?_, hg.1⟩
  · show (step N maxN k b s).all = _
    rw [h, thinList_eq_filter]
  · rw [← thinList_eq_filter]; exact thinList_sublist _ _ _ _
  · show (step N maxN k b s).nGen = (step N maxN k b s).all.length
    rw [h]; simp
  · show (step N maxN k b s).maxW = _
    rw [h]

/-- otherwise (no growth, or nothing retained yet) every retained event is kept and the bound is not raised -/
theorem toy_no_restart_keeps (N maxN k : Nat) (b : Batch) (s : St) (hg : ¬ grows b s) :
    (step N maxN k b s).all = s.all ++ acceptList k (acceptBound b.ws s.maxW) 0 b.ws b.rnd ∧
    (step N maxN k b s).maxW = some (bookBound s.maxW (acceptBound b.ws s.maxW)) := by
  rw [step_keep N maxN k b s hg]; exact ⟨rfl, rfl⟩

/-- the first batch under a SUPPLIED bound `m0` (`config.max_amplitude = m0`, no `importance_f`): its events are
accepted with `acceptBound ≥ m0`, but the bookkeeping value stays `m0` whatever the batch contains … -/
theorem toy_supplied_bound_first_batch (N maxN : Nat) (b : Batch) (m0 : ℝ) :
    (step N maxN 0 b (init (some m0))).maxW = some m0 ∧
    (step N maxN 0 b (init (some m0))).all = acceptList 0 (acceptBound b.ws (some m0)) 0 b.ws b.rnd := by
  have hg : ¬ grows b (init (some m0)) := by
    intro h; have := h.2; simp [init] at this
  rw [step_keep N maxN 0 b _ hg]
  simp [init, bookBound]

/-- … so the status can report a bound BELOW a retained weight (`m0 = 1`, one proposal of weight 2): the reason why
`toy_bound_le_final` is stated for the paths that start without a bound. -/
theorem toy_supplied_bound_too_small_witness :
    ∃ e ∈ (step 1 1 0 ⟨[2], [0], []⟩ (init (some (1 : ℝ)))).all,
      (step 1 1 0 ⟨[2], [0], []⟩ (init (some (1 : ℝ)))).maxW = some 1 ∧ (1 : ℝ) < e.w ∧ e.w ≤ e.bound := by
  obtain ⟨h1, h2⟩ := toy_supplied_bound_first_batch 1 1 ⟨[2], [0], []⟩ 1
  rw [h1, h2]
  have hb : acceptBound [2] (some (1 : ℝ)) = 2 * c101 := by
    simp [acceptBound, listMax]
  rw [hb]
  refine ⟨⟨0, 0, 2, 2 * c101⟩, ?_, rfl, by norm_num, ?_⟩
  · simp [acceptList]
  · show (2 : ℝ) ≤ 2 * c101
    have := c101_ge; linarith

/-! ## `gen_random_charge` and where the charge goes (`include_charge`) -/

theorem chargeOf_pos (u : ℝ) (h : 1 / 2 < u) : chargeOf u = 1 := by
  have h' : chalf < u := by unfold chalf; norm_num; linarith
  simp [chargeOf, h']; norm_num
theorem chargeOf_neg (u : ℝ) (h : u ≤ 1 / 2) : chargeOf u = -1 := by
  have h' : ¬ chalf < u := by unfold chalf; norm_num; linarith
  simp [chargeOf, h']

/-- ★ `charge_assignment` (1): every charge is `+1` or `−1`; `+1` exactly for `u > 0.5`; without `random` all are `+1`;
one charge per proposal. -/
theorem charge_assignment (N : Nat) (random : Bool) (us : List ℝ) (hl : us.length = N) :
    (genRandomCharge N random us).length = N ∧
    (∀ c ∈ genRandomCharge N random us, c = 1 ∨ c = -1) ∧
    (random = false → ∀ c ∈ genRandomCharge N random us, c = 1) ∧
    (random = true → genRandomCharge N random us = us.map (fun u => if 1 / 2 < u then (1 : ℝ) else -1)) := by
  cases random
  · refine ⟨by simp [genRandomCharge], ?_, ?_, by simp⟩
    · intro c hc; left; simp [genRandomCharge] at hc; exact hc.2
    · intro _ c hc; simp [genRandomCharge] at hc; exact hc.2
  · refine ⟨by simp [genRandomCharge, hl], ?_, by simp, ?_⟩
    · intro c hc
      simp only [genRandomCharge, if_true, List.mem_map] at hc
      obtain ⟨u, _, rfl⟩ := hc
      by_cases h : 1 / 2 < u
      · left; exact chargeOf_pos u h
      · right; exact chargeOf_neg u (le_of_not_gt h)
    · intro _
      simp only [genRandomCharge, if_true]
      apply List.map_congr_left
      intro u _
      by_cases h : 1 / 2 < u
      · rw [chargeOf_pos u h, if_pos h]
      · rw [chargeOf_neg u (le_of_not_gt h), if_neg h]

/-- ★ `charge_assignment` (2), the four proposal paths: `generate_toy(gen_p=…)` always stores a charge entry (all `+1`
unless `include_charge`); the default `generate_toy` path stores it only with `include_charge` (but always hands the
charges to `cal_angle`); `generate_toy_p` draws random charges exactly when `include_charge` (and otherwise none). -/
theorem charge_paths (includeCharge : Bool) (N : Nat) (us : List ℝ) :
    proposalCharge .toyGenP includeCharge N us = some ⟨genRandomCharge N includeCharge us, true⟩ ∧
    proposalCharge .toyDefault includeCharge N us = some ⟨genRandomCharge N includeCharge us, includeCharge⟩ ∧
    proposalCharge .toyPCharge includeCharge N us = some ⟨genRandomCharge N true us, true⟩ ∧
    proposalCharge .toyPPlain includeCharge N us = none ∧
    (includeCharge = false → ∀ c ∈ genRandomCharge N includeCharge us, c = 1) :=
  ⟨rfl, rfl, rfl, rfl, fun h c hc => by subst h; simp [genRandomCharge] at hc; exact hc.2⟩

/-- ★ `charge_assignment` (3): `data_mask` keeps the charge with its event — the charge column of an accepted batch is,
entry by entry, the charge of the proposal index of the accepted events (any column `f` of the proposal batch). -/
theorem charge_stays_attached {α : Type} (k : Nat) (M : ℝ) (ws rs : List ℝ) (f : Nat → α) :
    maskList (cutList M ws rs) ((List.range ws.length).map f) = (acceptList k M 0 ws rs).map (fun e => f e.idx) := by
  rw [acceptList_map_idx k M f ws rs 0, List.range_eq_range']

/-- masking the columns of a batch one by one is masking its events -/
theorem mask_columns {α β : Type} (cut : List Bool) (xs : List α) (ys : List β) (h : xs.length = ys.length) :
    maskList cut (List.zip xs ys) = List.zip (maskList cut xs) (maskList cut ys) := maskList_zip cut xs ys h

/-! ## `generate_toy_o` / `single_sampling` -/

/-- ★ `toy_exact_count` for `generate_toy_o` (both variants of the request formula): with `force`, on exit exactly `N`. -/
theorem toy_o_exact_count (fixed : Bool) (N maxN : Nat) (gen : Nat → Nat → Batch) (hx : ExactBatches gen) (fuel : Nat)
    (hexit : oExited N (oRun fixed N maxN gen fuel 0 (oInit N))) :
    (oFinish true N (oRun fixed N maxN gen fuel 0 (oInit N))).length = N ∧
    N ≤ (oFinish false N (oRun fixed N maxN gen fuel 0 (oInit N))).length := by
  have h := (ocounters_run fixed N maxN gen hx fuel).1
  unfold oExited at hexit
  simp only [oFinish, if_true, Bool.false_eq_true, if_false, List.length_take]
  omega

/-- ★ `toy_accepted_le_bound` for `generate_toy_o`: each batch is judged against `1.1 · max` of ITS OWN weights, and
every retained event has weight ≤ that bound. -/
theorem toy_o_accepted_le_bound (fixed : Bool) (N maxN : Nat) (gen : Nat → Nat → Batch) (hw : NonnegWeights gen)
    (fuel : Nat) : ∀ e ∈ (oRun fixed N maxN gen fuel 0 (oInit N)).all, e.w ≤ e.bound := by
  refine oRun_induct fixed N maxN gen (fun s => ∀ e ∈ s.all, e.w ≤ e.bound) ?_ fuel 0 (oInit N) ?_
  · intro k s ih e he
    unfold oStep at he
    simp only at he
    rcases List.mem_append.mp he with h | h
    · exact ih e h
    · obtain ⟨h1, h2, _⟩ := mem_oAcceptList _ _ _ _ _ _ h
      rw [h2]
      have h0 := listMax_nonneg (gen k (oRequest maxN s)).ws (hw k (oRequest maxN s))
      have h3 := le_listMax _ _ h1
      nlinarith [c11_ge]
  · intro e he; simp [oInit] at he

/-- `toy_restart_discards` for `generate_toy_o`: there is NO restart — earlier events are never re-judged (each batch
carries its own bound); a step only appends. -/
theorem toy_o_no_restart (fixed : Bool) (N maxN k : Nat) (b : Batch) (s : OSt) :
    (oStep fixed N maxN k b s).all = s.all ++ oAcceptList k (listMax b.ws) 0 b.ws b.rnd := rfl

/-- the request formula of the code can give 0: after one accepted proposal out of one (`N = 2`, `max_N = 1`)
`int(1.01 · 1 / 2 · 1) = 0` -/
theorem toy_o_zero_request_witness :
    (oStep false 2 1 0 ⟨[1], [0], []⟩ (oInit 2)).testN = 0 ∧ (oStep false 2 1 0 ⟨[1], [0], []⟩ (oInit 2)).nAccept = 1 := by
  have hacc : oAcceptList 0 (listMax [(1 : ℝ)]) 0 [1] [0] = [⟨0, 0, 1, listMax [(1 : ℝ)] * c11⟩] := by
    simp [oAcceptList, listMax]
  unfold oStep
  simp only [hacc, oInit, oRequest, c10, List.length_cons, List.length_nil]
  refine ⟨?_, by norm_num⟩
  show oNext false 2 (0 + min 1 (10 * 2)) (0 + (0 + 1)) = 0
  unfold oNext kfloorNat kofNat c101
  simp only [Bool.false_eq_true, if_false]
  rw [Nat.floor_eq_zero]
  norm_num

/-- a state in which the next request is 0 and was computed by the code's formula -/
def OStalled (N maxN : Nat) (s : OSt) : Prop :=
  s.nAccept < N ∧ oRequest maxN s = 0 ∧ s.testN = oNext false N s.nTotal s.nAccept

theorem toy_o_stall_step (N maxN k : Nat) (b : Batch) (s : OSt) (hb : b.ws.length = oRequest maxN s)
    (h : OStalled N maxN s) : OStalled N maxN (oStep false N maxN k b s) := by
  obtain ⟨h1, h2, h3⟩ := h
  rw [h2] at hb
  have hws : b.ws = [] := List.eq_nil_of_length_eq_zero hb
  have hacc : oAcceptList k (listMax b.ws) 0 b.ws b.rnd = [] := by rw [hws]; simp [oAcceptList]
  unfold OStalled oStep
  simp only [hacc, h2, List.length_nil, Nat.add_zero, List.append_nil]
  refine ⟨h1, ?_, trivial⟩
  unfold oRequest at h2 ⊢
  simp only
  rw [← h3]; exact h2

/-- ★ (defect of `generate_toy_o`, all histories) once the request size is 0 the loop never exits: an empty batch changes
neither `n_accept` nor `n_total`, so the next request is 0 again. -/
theorem toy_o_never_exits (N maxN : Nat) (gen : Nat → Nat → Batch) (hx : ExactBatches gen) :
    ∀ fuel k s, OStalled N maxN s → ¬ oExited N (oRun false N maxN gen fuel k s) := by
  intro fuel
  induction fuel with
  | zero => intro k s h; unfold oRun oExited; have := h.1; omega
  | succ f ih =>
    intro k s h
    unfold oRun
    rw [if_pos h.1]
    exact ih _ _ (toy_o_stall_step N maxN k _ s (hx k _) h)

/-- ★ concrete history: `generate_toy_o(N=2, max_N=1)` whose first proposal is accepted never returns. -/
theorem toy_o_never_exits_witness (fuel : Nat) :
    ¬ oExited 2 (oRun false 2 1 (fun _ n => ⟨List.replicate n 1, List.replicate n 0, []⟩) fuel 0 (oInit 2)) := by
  cases fuel with
  | zero => unfold oRun oExited; simp [oInit]
  | succ f =>
    unfold oRun
    have h0 : (oInit 2).nAccept < 2 := by simp [oInit]
    rw [if_pos h0]
    have hreq : oRequest 1 (oInit 2) = 1 := by simp [oRequest, oInit, c10]
    rw [hreq]
    simp only [List.replicate_succ, List.replicate_zero]
    obtain ⟨w1, w2⟩ := toy_o_zero_request_witness
    refine toy_o_never_exits 2 1 _ (fun k n => by simp) f 1 _ ⟨by rw [w2]; norm_num, ?_, ?_⟩
    · unfold oRequest; rw [w1]; simp
    · rw [w1]
      have : (oStep false 2 1 0 ⟨[1], [0], []⟩ (oInit 2)).nTotal = 1 := by
        simp [oStep, oInit, oRequest, c10]
      rw [this, w2]
      unfold oNext kfloorNat kofNat c101
      simp only [Bool.false_eq_true, if_false]
      symm
      rw [Nat.floor_eq_zero]
      norm_num

/-- the request of the code is ≥ 1 as soon as one proposal has been rejected so far (`n_accept < n_total`) -/
theorem toy_o_request_positive_of_rejection (N nTotal nAccept : Nat) (h1 : nAccept < N) (h2 : nAccept < nTotal) :
    1 ≤ oNext false N nTotal nAccept := by
  unfold oNext kfloorNat kofNat c101
  simp only [Bool.false_eq_true, if_false]
  apply Nat.le_floor
  have hA : (0 : ℝ) < ((nAccept + 1 : ℕ) : ℝ) := by positivity
  have hT : ((nAccept + 1 : ℕ) : ℝ) ≤ (nTotal : ℝ) := by exact_mod_cast h2
  have hN : (1 : ℝ) ≤ ((N - nAccept : ℕ) : ℝ) := by exact_mod_cast (by omega : 1 ≤ N - nAccept)
  have hq : (1 : ℝ) ≤ (nTotal : ℝ) / ((nAccept + 1 : ℕ) : ℝ) := by rw [le_div_iff₀ hA]; linarith
  have : (1.01 : ℝ) * (nTotal : ℝ) / ((nAccept + 1 : ℕ) : ℝ) = 1.01 * ((nTotal : ℝ) / ((nAccept + 1 : ℕ) : ℝ)) := by ring
  rw [this]
  generalize (nTotal : ℝ) / ((nAccept + 1 : ℕ) : ℝ) = x at hq ⊢
  generalize ((N - nAccept : ℕ) : ℝ) = y at hN ⊢
  simp only [Nat.cast_one]
  nlinarith [mul_nonneg (sub_nonneg.2 hq) (sub_nonneg.2 hN)]

/-- ★ with the proposed patch (`max(1, …)`) every request in every reachable state is ≥ 1 (`N ≥ 1`, `max_N ≥ 1`) -/
theorem toy_o_requests_positive_fixed (N maxN : Nat) (gen : Nat → Nat → Batch) (hN : 1 ≤ N) (hmax : 1 ≤ maxN)
    (fuel : Nat) : 1 ≤ oRequest maxN (oRun true N maxN gen fuel 0 (oInit N)) := by
  have h : 1 ≤ (oRun true N maxN gen fuel 0 (oInit N)).testN := by
    refine oRun_induct true N maxN gen (fun s => 1 ≤ s.testN) ?_ fuel 0 (oInit N) ?_
    · intro k s _
      unfold oStep oNext
      simp only [if_true]
      exact Nat.le_max_left _ _
    · simp only [oInit, c10]; omega
  unfold oRequest
  exact le_min hmax h

/-! ## `applications.gen_data` / `gen_mc` -/

/-- ★ `gen_data_weight_bound`: every MC index that the accept loop keeps is a valid row, has a strictly positive
amplitude, and that amplitude is ≤ `ampsq_max = tf.reduce_max(ampsq)`, the bound of the uniform stream
(`uni_rdm ∈ [0, ampsq_max)`); nothing is ever re-judged (the bound is the global maximum from the start). -/
theorem gen_data_weight_bound (nmc : Nat) (ampsq : List ℝ) (gen : Nat → List Nat × List ℝ)
    (hu : ∀ k, ∀ u ∈ (gen k).2, 0 ≤ u) (fuel : Nat) :
    ∀ i ∈ (gdRun nmc ampsq gen fuel 0 ⟨[], 0⟩).idxs,
      i < ampsq.length ∧ 0 < ampsq.getD i 0 ∧ ampsq.getD i 0 ≤ listMax ampsq := by
  refine gdRun_induct nmc ampsq gen
    (fun s => ∀ i ∈ s.idxs, i < ampsq.length ∧ 0 < ampsq.getD i 0 ∧ ampsq.getD i 0 ≤ listMax ampsq) ?_ fuel 0 _ ?_
  · intro k s ih i hi
    rcases List.mem_append.mp hi with h | h
    · exact ih i h
    · obtain ⟨u, hu1, _, hu3⟩ := mem_gdPass ampsq i _ _ h
      have hpos : 0 < ampsq.getD i 0 := lt_of_le_of_lt (hu k u hu1) hu3
      have hlt : i < ampsq.length := by
        by_contra hc
        rw [List.getD_eq_getElem?_getD, List.getElem?_eq_none (Nat.le_of_not_lt hc)] at hpos
        simp at hpos
      refine ⟨hlt, hpos, ?_⟩
      rw [List.getD_eq_getElem?_getD, List.getElem?_eq_getElem hlt]
      simp only [Option.getD_some]
      exact le_listMax ampsq _ (List.getElem_mem hlt)
  · intro i hi; simp at hi

theorem gd_counter (nmc : Nat) (ampsq : List ℝ) (gen : Nat → List Nat × List ℝ) (fuel : Nat) :
    (gdRun nmc ampsq gen fuel 0 ⟨[], 0⟩).n = (gdRun nmc ampsq gen fuel 0 ⟨[], 0⟩).idxs.length := by
  refine gdRun_induct nmc ampsq gen (fun s => s.n = s.idxs.length) ?_ fuel 0 _ rfl
  intro k s ih
  simp [ih]

/-- ★ `gen_data_count`: whenever `gen_data` returns, the sample has exactly `Ndata` events: `Ndata − Nbg` signal rows
(accepted MC indices, cut to size) followed by `Nbg` background rows; `Nbg < Ndata` is necessary. -/
theorem gen_data_count (ndata nbg : Nat) (ampsq : List ℝ) (gen : Nat → List Nat × List ℝ) (bgIdx : List Nat)
    (hbg : bgIdx.length = nbg) (fuel : Nat) (es : List (Bool × Nat))
    (h : gdEvents ndata nbg ampsq gen bgIdx fuel = some es) :
    es.length = ndata ∧ nbg < ndata ∧
    ∃ sig, gdSignal ndata nbg ampsq gen fuel = some sig ∧ sig.length = ndata - nbg := by
  unfold gdEvents at h
  cases hs : gdSignal ndata nbg ampsq gen fuel with
  | none => rw [hs] at h; cases h
  | some sig =>
    rw [hs] at h
    simp only [Option.some.injEq] at h
    unfold gdSignal at hs
    split at hs
    · cases hs
    · rename_i hlt
      simp only at hs
      split at hs
      · cases hs
      · rename_i hge
        simp only [Option.some.injEq] at hs
        have hc := gd_counter (ndata - nbg) ampsq gen fuel
        have hsl : sig.length = ndata - nbg := by
          rw [← hs, List.length_take]; omega
        refine ⟨?_, by omega, sig, rfl, hsl⟩
        rw [← h]
        by_cases h0 : nbg = 0
        · simp [h0, hsl]
        · simp [h0, hsl, hbg]; omega

/-- `gen_data` with `Nbg ≥ Ndata` (no signal event requested) does not return a sample: the loop body never runs and
`tf.concat` of the empty list raises. -/
theorem gen_data_raises_without_signal (ndata nbg : Nat) (ampsq : List ℝ) (gen : Nat → List Nat × List ℝ)
    (bgIdx : List Nat) (fuel : Nat) (h : ndata ≤ nbg) : gdEvents ndata nbg ampsq gen bgIdx fuel = none := by
  simp [gdEvents, gdSignal, h]

/-! ### row layout of the generated files (`gen_data`, `gen_mc`): `rows[p::Npar]` is particle `p` of every event -/

theorem everyNth_skip {α : Type} (n : Nat) (rest : List α) : ∀ (l : List α) (c : Nat), l.length ≤ c →
    everyNth n c (l ++ rest) = everyNth n (c - l.length) rest := by
  intro l
  induction l with
  | nil => intro c _; simp
  | cons x l ih =>
    intro c hc
    cases c with
    | zero => simp at hc
    | succ c =>
      have : l.length ≤ c := by simpa using hc
      simp only [List.cons_append, everyNth, List.length_cons, Nat.add_sub_add_right]
      exact ih c this

theorem everyNth_block {α : Type} (n : Nat) (d : α) (rest : List α) : ∀ (e : List α) (c : Nat), c < e.length →
    e.length ≤ n + c →
    everyNth n c (e ++ rest) = e.getD c d :: everyNth n (n - 1 - (e.length - 1 - c)) rest := by
  intro e
  induction e with
  | nil => intro c hc; simp at hc
  | cons x e ih =>
    intro c hc hn
    cases c with
    | zero =>
      simp only [List.cons_append, everyNth, List.getD_cons_zero, List.length_cons]
      rw [everyNth_skip n rest e (n - 1) (by simp at hn; omega)]
      congr 2
    | succ c =>
      have hc' : c < e.length := by simpa using hc
      simp only [List.cons_append, everyNth, List.getD_cons_succ, List.length_cons]
      rw [ih c hc' (by simp at hn; omega)]
      congr 2
      omega

/-- ★ `gen_data_layout`: for events of `n` particles each, written event-major (`transpose [1,0,2]`, `reshape(-1, 4)`),
`rows[p::n]` is exactly particle `p` of every event, in event order — what `gen_data` feeds to
`cal_angle_from_momentum` and what a reader of the `genfile` / `gen_mc` file gets. -/
theorem gen_data_layout {α : Type} (n p : Nat) (d : α) (hp : p < n) : ∀ (events : List (List α)),
    (∀ e ∈ events, e.length = n) → everyNth n p (rowsOf events) = events.map (fun e => e.getD p d) := by
  intro events
  induction events with
  | nil => intro _; simp [rowsOf, everyNth]
  | cons e es ih =>
    intro h
    have he : e.length = n := h e (by simp)
    have ih' := ih (fun x hx => h x (List.mem_cons_of_mem _ hx))
    unfold rowsOf at ih' ⊢
    simp only [List.flatten_cons, List.map_cons]
    rw [everyNth_block n d es.flatten e p (by omega) (by omega)]
    have : n - 1 - (e.length - 1 - p) = p := by omega
    rw [this, ih']

/-- `gen_mc` / `gen_data` write `Npar` rows per event -/
theorem rows_count {α : Type} (n : Nat) (events : List (List α)) (h : ∀ e ∈ events, e.length = n) :
    (rowsOf events).length = events.length * n := by
  induction events with
  | nil => simp [rowsOf]
  | cons e es ih =>
    have := ih (fun x hx => h x (List.mem_cons_of_mem _ hx))
    unfold rowsOf at this ⊢
    simp only [List.flatten_cons, List.length_append, List.length_cons, this, h e (by simp)]
    ring

-- non-vacuity of the hypotheses: constant amplitude 1, importance 2, uniforms 0; `gen_data` with one MC row
example : RawNonneg (fun _ n => ⟨List.replicate n 1, List.replicate n 2, List.replicate n 0, []⟩) ∧
    RawExact true (fun _ n => ⟨List.replicate n 1, List.replicate n 2, List.replicate n 0, []⟩) := by
  constructor
  · intro k n
    constructor
    · intro a ha; simp only [List.mem_replicate] at ha; rw [ha.2]; norm_num
    · intro f hf; simp only [List.mem_replicate] at hf; rw [hf.2]; norm_num
  · intro k n; simp

example : gdEvents 1 0 [(1 : ℝ)] (fun _ => ([0], [0])) [] 1 = some [(false, 0)] := by
  simp [gdEvents, gdSignal, gdRun, gdPass]

example : grows ⟨[4], [0], [0]⟩ ⟨some (1 : ℝ), [⟨0, 0, 1, 1⟩], false, 1, 1, 1⟩ := by
  refine ⟨?_, rfl⟩
  norm_num [bookBound, acceptBound, listMax, c101]

end TfPwaV.C20h
