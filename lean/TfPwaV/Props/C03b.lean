import TfPwaV.Props.C03
import TfPwaV.Model.FitFrac
import TfPwaV.Props.C09
/-!
# C03b — the fit-fraction bookkeeping (`FitFractions`, `cal_fitfractions`) and the users of the chain selection

Theorems about `TfPwaV.FitFrac` (`Model/FitFrac.lean`): the per-batch accumulation of `FitFractions.append_int` /
`integral`, the table built by `get_frac_grad`, `cal_fitfractions`, `get_frac_diag_sum`, the argument handling of
`set_used_res` (wrapped scalars, one-level lists, `TypeError` on nested values) and `partial_weight` /
`partial_weight_interference`.  Scalars: any commutative ring / field `K`; the gradient part is over `ℝ` and reuses
C09's `frac_grad_is_deriv`.
-/
namespace TfPwaV.C03b
open TfPwaV.Superpose TfPwaV.FitFrac

-- =============================================================================================
-- A. arguments of `set_used_res`; `partial_weight`
-- =============================================================================================

theorem parseItems_none_iff (l : List Item) : parseItems l = none ↔ Item.other ∈ l := by
  induction l with
  | nil => simp [parseItems]
  | cons x t ih =>
    cases x with
    | other => simp [parseItems]
    | ent e => simp [parseItems, ih]

theorem parseItems_map_ent (es : List Entry) : parseItems (es.map Item.ent) = some es := by
  induction es with
  | nil => rfl
  | cons e t ih => simp [parseItems, ih]

/-- **TypeError**: `set_used_res(arg)` raises exactly when some element of the (wrapped) argument is neither a
particle nor an `int` — e.g. a nested list — and then the selection state is left untouched; for every group,
state, argument and `only` flag. -/
theorem type_error_iff (g : Group) (s : State) (a : Arg) (only : Bool) :
    (setUsedResArg g a only = none ↔ Item.other ∈ a.items) ∧
    (setUsedResArg g a only = none → stateAfter g s a only = s) := by
  constructor
  · simp [setUsedResArg, parseItems_none_iff]
  · intro h; simp [stateAfter, h]

/-- **Exact selection model for list arguments** (names, particles, ints; `only` either way): a one-level list
selects what `setUsedRes` selects, so `selection_logic` / `selection_logic_only` of C03 apply verbatim; a bare value
is the one-element list. -/
theorem selection_logic_arg (g : Group) (es : List Entry) (e : Entry) (only : Bool) (j : Nat) :
    setUsedResArg g (.many (es.map .ent)) only = some (setUsedRes g es only) ∧
    setUsedResArg g (.single (.ent e)) only = some (setUsedRes g [e] only) ∧
    (j ∈ (setUsedRes g es false).chainsIdx ↔
      (j < g.n ∧ ∃ r, Entry.res r ∈ es ∧ r ∈ g.innerOf j) ∨ Entry.idx j ∈ es) ∧
    (j ∈ (setUsedRes g es true).chainsIdx ↔
      (j < g.n ∧ ∀ r, r ∈ g.resonances → r ∈ g.innerOf j → Entry.res r ∈ es) ∨ Entry.idx j ∈ es) := by
  refine ⟨?_, ?_, mem_setUsedRes_false g es j, mem_setUsedRes_true g es j⟩
  · simp [setUsedResArg, Arg.items, parseItems_map_ent]
  · rfl

/-- **Grouping**: handing a list of entries to `set_used_res` selects the union of what its parts select — for a
concatenation and for any nested grouping `G` flattened. -/
theorem res_grouping (g : Group) (es₁ es₂ : List Entry) (G : List (List Entry)) (j : Nat) :
    (j ∈ sel g (es₁ ++ es₂) ↔ j ∈ sel g es₁ ∨ j ∈ sel g es₂) ∧
    (j ∈ sel g G.flatten ↔ ∃ es, es ∈ G ∧ j ∈ sel g es) := by
  constructor
  · rw [mem_sel_iff_exists g (es₁ ++ es₂), mem_sel_iff_exists g es₁, mem_sel_iff_exists g es₂]
    simp only [List.mem_append]
    constructor
    · rintro ⟨e, (h | h), hj⟩
      · exact Or.inl ⟨e, h, hj⟩
      · exact Or.inr ⟨e, h, hj⟩
    · rintro (⟨e, h, hj⟩ | ⟨e, h, hj⟩)
      · exact ⟨e, Or.inl h, hj⟩
      · exact ⟨e, Or.inr h, hj⟩
  · rw [mem_sel_iff_exists]
    simp only [List.mem_flatten]
    constructor
    · rintro ⟨e, ⟨es, hes, he⟩, hj⟩
      exact ⟨es, hes, (mem_sel_iff_exists g es j).2 ⟨e, he, hj⟩⟩
    · rintro ⟨es, hes, hj⟩
      obtain ⟨e, he, hj⟩ := (mem_sel_iff_exists g es j).1 hj
      exact ⟨e, ⟨es, hes, he⟩, hj⟩

theorem sel_append_perm (g : Group) (es₁ es₂ : List Entry) (hd : List.Disjoint (sel g es₂) (sel g es₁)) :
    (sel g (es₁ ++ es₂)).Perm (sel g es₂ ++ sel g es₁) := by
  rw [List.perm_ext_iff_of_nodup (nodup_sel g _)
    (List.nodup_append.2 ⟨nodup_sel g _, nodup_sel g _, fun a ha b hb hab => hd ha (hab ▸ hb)⟩)]
  intro j
  rw [(res_grouping g es₁ es₂ [] j).1, List.mem_append]
  exact Or.comm

theorem sel_flatten_perm (g : Group) (G : List (List Entry)) (hd : (G.map (sel g)).Pairwise List.Disjoint) :
    (sel g G.flatten).Perm (G.map (sel g)).flatten := by
  rw [List.perm_ext_iff_of_nodup (nodup_sel g _)]
  · intro j
    rw [(res_grouping g [] [] G j).2]
    simp only [List.mem_flatten, List.mem_map]
    constructor
    · rintro ⟨es, hes, h⟩; exact ⟨_, ⟨es, hes, rfl⟩, h⟩
    · rintro ⟨l, ⟨es, hes, rfl⟩, h⟩; exact ⟨es, hes, h⟩
  · rw [List.nodup_flatten]
    refine ⟨?_, hd⟩
    intro l hl
    obtain ⟨e, _, rfl⟩ := List.mem_map.1 hl
    exact nodup_sel g _

theorem pwLoop_ent (g : Group) (Gs : List (List Entry)) :
    pwLoop g (Gs.map fun es => Arg.many (es.map .ent)) = some (Gs.map (sel g)) := by
  induction Gs with
  | nil => rfl
  | cons es t ih =>
    simp only [List.map_cons, pwLoop, (selection_logic_arg g es (.idx 0) false 0).1, ih, Option.map_some]
    rfl

theorem sel_idx (g : Group) (i : Nat) : sel g [.idx i] = [i] := by
  simp [sel, setUsedRes, Entry.res?, Entry.idx?, hasAny, setUsedChains, addUsedChains, addList]

/-- **`partial_weight`**: with `combine` a list of one-level lists (names / ints mixed) the densities are evaluated
under `sel g G_k`, in order (hence, by `res_grouping`, under the union of the chains of the entries of `G_k`); the
default `combine=None` evaluates chain `i` alone for `i = 0 … n-1`; in every case — also when a nested value raises
`TypeError` midway — the selection state found at entry is the state left. -/
theorem partial_weight_spec (g : Group) (s : State) (Gs : List (List Entry)) (combine : Option (List Arg)) :
    partialWeightSels g (some (Gs.map fun es => Arg.many (es.map .ent))) = some (Gs.map (sel g)) ∧
    partialWeightSels g none = some ((List.range g.n).map fun i => [i]) ∧
    (partialWeight g s combine).2 = s := by
  refine ⟨pwLoop_ent g Gs, ?_, rfl⟩
  have h : ((List.range g.n).map fun i => Arg.many [Item.ent (.idx i)]) =
      (((List.range g.n).map fun i => [Entry.idx i]).map fun es => Arg.many (es.map .ent)) := by
    simp [List.map_map, Function.comp_def]
  simp only [partialWeightSels, Option.getD_none]
  rw [h, pwLoop_ent, List.map_map]
  congr 1
  apply List.map_congr_left
  intro i _
  exact sel_idx g i

example : partialWeightSels ⟨[[0], [1], [0, 2]], [0, 1, 2]⟩
    (some [.many [.ent (.res 0), .ent (.idx 1)], .single (.ent (.res 2)), .many [.ent (.res 1), .other]]) = none := by
  decide
example : partialWeightSels ⟨[[0], [1], [0, 2]], [0, 1, 2]⟩
    (some [.many [.ent (.res 0), .ent (.idx 1)], .single (.ent (.res 2))]) = some [[0, 2, 1], [2]] := by decide

theorem mem_pwiSels (g : Group) (i j : Nat) (S : List Nat) :
    ((i, j), S) ∈ pwiSels g ↔ i < j ∧ j < g.n ∧ S = [i, j] := by
  simp only [pwiSels, pairs2, List.mem_map, List.mem_flatMap, List.mem_range, List.mem_filter,
    decide_eq_true_eq, Prod.mk.injEq, Prod.exists]
  constructor
  · rintro ⟨a, b, ⟨a', ha', b', ⟨hb', hab⟩, rfl, rfl⟩, ⟨rfl, rfl⟩, rfl⟩
    exact ⟨hab, hb', rfl⟩
  · rintro ⟨hij, hj, rfl⟩
    exact ⟨i, j, ⟨i, by omega, j, ⟨hj, hij⟩, rfl, rfl⟩, ⟨rfl, rfl⟩, rfl⟩

-- =============================================================================================
-- B. accumulation over batches
-- =============================================================================================
theorem ff_ext {K : Type} {a b : FF K} (h1 : ∀ k, a.int k = b.int k) (h2 : ∀ k v, a.grad k v = b.grad k v)
    (h3 : a.total = b.total) (h4 : ∀ v, a.gtotal v = b.gtotal v) : a = b := by
  cases a; cases b
  simp only [FF.mk.injEq]
  exact ⟨funext h1, funext fun k => funext (h2 k), h3, funext h4⟩

section Accum
variable {K : Type} [CommRing K]

/-- what the whole sample contributes in one piece -/
def wholeFF (g : Group) (res : List Entry) (dens : List Nat → Nat → K) (gdens : Nat → List Nat → Nat → K)
    (w : Nat → K) (cur : List Nat) (ev : List Nat) : FF K :=
  { total := evalInt dens w ev cur
    gtotal := fun k => evalInt (gdens k) w ev cur
    int := fun key => evalInt dens w ev (keySel g res key)
    grad := fun key k => evalInt (gdens k) w ev (keySel g res key) }

theorem evalInt_append (d : List Nat → Nat → K) (w : Nat → K) (c₁ c₂ S : List Nat) :
    evalInt d w (c₁ ++ c₂) S = evalInt d w c₁ S + evalInt d w c₂ S := by
  simp [evalInt]

theorem evalInt_nil (d : List Nat → Nat → K) (w : Nat → K) (S : List Nat) : evalInt d w [] S = 0 := by
  simp [evalInt]

theorem pysum_eq_sum (l : List K) : pysum l = l.sum := by
  have h : ∀ (l : List K) (a : K), l.foldl (fun acc x => acc + x) a = a + l.sum := by
    intro l
    induction l with
    | nil => intro a; simp
    | cons x t ih => intro a; rw [List.foldl_cons, ih, List.sum_cons, add_assoc]
  rw [pysum, h, zero_add]

theorem foldl_appendInt (g : Group) (res : List Entry) (dens : List Nat → Nat → K)
    (gdens : Nat → List Nat → Nat → K) (w : Nat → K) (cur : List Nat) (cs : List (List Nat)) (st : FF K) :
    cs.foldl (appendInt g res dens gdens w cur) st =
      { total := st.total + evalInt dens w cs.flatten cur
        gtotal := fun k => st.gtotal k + evalInt (gdens k) w cs.flatten cur
        int := fun key => st.int key + evalInt dens w cs.flatten (keySel g res key)
        grad := fun key k => st.grad key k + evalInt (gdens k) w cs.flatten (keySel g res key) } := by
  induction cs generalizing st with
  | nil => apply ff_ext <;> intros <;> simp [evalInt_nil]
  | cons c t ih =>
    rw [List.foldl_cons, ih]
    apply ff_ext <;> intros <;> simp [appendInt, evalInt_append, add_assoc]

/-- **Accumulated state, any batching**: after `integral(mcdata, batch)` — `batch=None`, or any batch size `b ≥ 1`
(dividing the sample or not, larger than the sample or not) — every cached integral, the total and every gradient
component equal the sum over the whole weighted sample; for every group, `res`, selection active at the call,
weights, densities and per-event gradients. -/
theorem integral_state (g : Group) (res : List Entry) (dens : List Nat → Nat → K)
    (gdens : Nat → List Nat → Nat → K) (w : Nat → K) (cur : List Nat) (batch : Option Nat)
    (hb : ∀ b, batch = some b → 0 < b) (ev : List Nat) :
    integralFF g res dens gdens w cur batch ev = wholeFF g res dens gdens w cur ev := by
  cases batch with
  | none => apply ff_ext <;> intros <;> simp [integralFF, appendInt, initResTable, wholeFF]
  | some b =>
    simp only [integralFF]
    rw [foldl_appendInt, chunks_flatten b (hb b rfl)]
    apply ff_ext <;> intros <;> simp [initResTable, wholeFF]

/-- `cal_fitfractions` (method "old"): the same state with the total integrated under `set_used_res(res)`. -/
theorem calFF_state (g : Group) (res : List Entry) (dens : List Nat → Nat → K)
    (gdens : Nat → List Nat → Nat → K) (w : Nat → K) (b : Nat) (hb : 0 < b) (ev : List Nat) :
    calFF g res dens gdens w b ev = wholeFF g res dens gdens w (sel g res) ev := by
  have h : ∀ (d : List Nat → Nat → K) (S : List Nat),
      pysum ((chunks b ev).map fun c => evalInt d w c S) = evalInt d w ev S := by
    intro d S
    rw [pysum_eq_sum]
    have : ∀ L : List (List Nat), (L.map fun c => evalInt d w c S).sum = evalInt d w L.flatten S := by
      intro L
      induction L with
      | nil => simp [evalInt_nil]
      | cons c L ih => simp [ih, evalInt_append]
    rw [this, chunks_flatten b hb]
  apply ff_ext <;> intros <;> simp [calFF, wholeFF, h]

theorem evalInt_density (nh : Nat) (c : Nat → K × K) (a : Nat → Nat → Nat → K × K) (w : Nat → K)
    (ev S : List Nat) : evalInt (density nh c a) w ev S = integral nh c a w ev S := by
  simp [evalInt, integral, mul_comm]

end Accum

-- =============================================================================================
-- C. the table
-- =============================================================================================
section Table
variable {K : Type} [Field K]

/-- the table of `get_frac_grad` computed from the accumulated state is the table `fracNew` of C03
(`Model/Superpose.lean`), entry by entry and in the same order -/
theorem fracVals_eq_fracNew (g : Group) (nh : Nat) (c : Nat → K × K) (a : Nat → Nat → Nat → K × K)
    (gd : Nat → List Nat → Nat → K) (w : Nat → K) (ev : List Nat) (s : State) (res : List Entry) :
    fracVals res.length (wholeFF g res (density nh c a) gd w s.chainsIdx ev) =
      (fracNew g (integral nh c a w ev) s res).map Prod.snd := by
  unfold fracVals keys fracNew fracTable
  rw [List.map_flatMap, List.map_flatMap]
  apply List.flatMap_congr
  intro i _
  rw [List.map_map, List.map_map]
  apply List.map_congr_left
  intro j _
  simp only [Function.comp_def, entry, fracOf, fracIJ, wholeFF, keySel, evalInt_density]
  by_cases h : i = j
  · simp [h]
  · simp [h]

/-- the interference entry for the pair `x, y` -/
def interf (g : Group) (I : List Nat → K) (T : K) (x y : Entry) : K :=
  I (sel g [x, y]) / T - I (sel g [x]) / T - I (sel g [y]) / T

/-- **Interference definition**: after `integral` with any batching, the entry `(str(res[i]), str(res[j]))`
(`j ≠ i`) of the table is `A_ij/A − A_i/A − A_j/A` with `A_ij`, `A_i`, `A_j`, `A` the integrals over the **whole**
weighted sample under `set_used_res([res i, res j])`, `[res i]`, `[res j]` and the selection active at the call;
the diagonal entry is `A_i/A`. -/
theorem interference_definition (g : Group) (nh : Nat) (c : Nat → K × K) (a : Nat → Nat → Nat → K × K)
    (gd : Nat → List Nat → Nat → K) (w : Nat → K) (ev : List Nat) (cur : List Nat) (res : List Entry)
    (batch : Option Nat) (hb : ∀ b, batch = some b → 0 < b) (i j : Nat) (hij : i ≠ j) :
    let st := integralFF g res (density nh c a) gd w cur batch ev
    let I := integral nh c a w ev
    entry st (i, j) = interf g I (I cur) (res.getD i (.idx 0)) (res.getD j (.idx 0)) ∧
    entry st (i, i) = I (sel g [res.getD i (.idx 0)]) / I cur := by
  intro st I
  simp only [st, I, integral_state g res _ gd w cur batch hb ev]
  constructor
  · simp only [entry, if_neg hij, fracIJ, fracOf, wholeFF, keySel, evalInt_density, interf, if_true]
  · simp only [entry, fracOf, wholeFF, keySel, evalInt_density, if_true]

/-- … and when no chain carries both resonances, `A_ij − A_i − A_j` is the integrated interference term
`Σ_e w_e Σ_h 2 Re(A_j conj A_i)` of the two partial amplitudes. -/
theorem interference_is_cross_term (g : Group) (nh : Nat) (c : Nat → K × K) (a : Nat → Nat → Nat → K × K)
    (w : Nat → K) (ev : List Nat) (x y : Entry) (hd : List.Disjoint (sel g [y]) (sel g [x])) :
    integral nh c a w ev (sel g [x, y]) - integral nh c a w ev (sel g [x]) - integral nh c a w ev (sel g [y]) =
      Jraw nh c a w ev (sel g [y]) (sel g [x]) := by
  rw [integral_of_nodup nh c a w ev (nodup_sel g _), integral_of_nodup nh c a w ev (nodup_sel g _),
    integral_of_nodup nh c a w ev (nodup_sel g _), Iraw_perm nh c a w ev (sel_pair_perm g x y hd), Iraw_append]
  ring

/-- **Symmetry**: the interference entry does not depend on the order in which the two resonances are named
(so listing `res` in another order permutes the table and changes no value). -/
theorem frac_table_symmetric (g : Group) (nh : Nat) (c : Nat → K × K) (a : Nat → Nat → Nat → K × K)
    (w : Nat → K) (ev : List Nat) (T : K) (x y : Entry) :
    interf g (integral nh c a w ev) T x y = interf g (integral nh c a w ev) T y x := by
  have hp : (sel g [x, y]).Perm (sel g [y, x]) := by
    rw [List.perm_ext_iff_of_nodup (nodup_sel g _) (nodup_sel g _)]
    intro j
    rw [mem_sel_iff_exists g [x, y], mem_sel_iff_exists g [y, x]]
    simp only [List.mem_cons, List.not_mem_nil, or_false]
    constructor <;> rintro ⟨e, (rfl | rfl), h⟩
    · exact ⟨_, Or.inr rfl, h⟩
    · exact ⟨_, Or.inl rfl, h⟩
    · exact ⟨_, Or.inr rfl, h⟩
    · exact ⟨_, Or.inl rfl, h⟩
  unfold interf
  rw [integral_of_nodup nh c a w ev (nodup_sel g [x, y]), integral_of_nodup nh c a w ev (nodup_sel g [y, x]),
    Iraw_perm nh c a w ev hp]
  ring

/-- **Sum rule of the `FitFractions` table** (method "new", `ConfigLoader.cal_fitfractions(method="new")`):
for every group, every `res` whose single selections are pairwise disjoint (a duplicate-free partition: no chain
carries two of the named resonances) and cover the chains active at the call, every weighted sample and every
batching (`None` or any `b ≥ 1`): if the accumulated total is non-zero, the diagonal entries plus all interference
entries of `get_frac_grad(sum_diag=False)` add up to one. -/
theorem sum_rule_table (g : Group) (nh : Nat) (c : Nat → K × K) (a : Nat → Nat → Nat → K × K)
    (gd : Nat → List Nat → Nat → K) (w : Nat → K) (ev : List Nat) (s : State) (res : List Entry)
    (batch : Option Nat) (hb : ∀ b, batch = some b → 0 < b)
    (hs : s.chainsIdx.Nodup) (hcover : s.chainsIdx.Perm (sel g res))
    (hd : (res.map fun e => sel g [e]).Pairwise List.Disjoint)
    (hT : (integralFF g res (density nh c a) gd w s.chainsIdx batch ev).total ≠ 0) :
    (fracVals res.length (integralFF g res (density nh c a) gd w s.chainsIdx batch ev)).sum = 1 := by
  rw [integral_state g res _ gd w s.chainsIdx batch hb ev] at hT ⊢
  rw [fracVals_eq_fracNew]
  have hT' : integral nh c a w ev s.chainsIdx ≠ 0 := by
    simpa [wholeFF, evalInt_density] using hT
  exact C03.sum_rule_new g nh c a w ev s res hs hcover hd hT'

/-- the same for `cal_fitfractions` / `cal_fitfractions_no_grad` (method "old"), where the total is integrated
under `set_used_res(res)`: no covering hypothesis is needed -/
theorem sum_rule_table_old (g : Group) (nh : Nat) (c : Nat → K × K) (a : Nat → Nat → Nat → K × K)
    (gd : Nat → List Nat → Nat → K) (w : Nat → K) (ev : List Nat) (res : List Entry) (b : Nat) (hb : 0 < b)
    (hd : (res.map fun e => sel g [e]).Pairwise List.Disjoint)
    (hT : (calFF g res (density nh c a) gd w b ev).total ≠ 0) :
    (fracVals res.length (calFF g res (density nh c a) gd w b ev)).sum = 1 := by
  rw [calFF_state g res _ gd w b hb ev] at hT ⊢
  have := fracVals_eq_fracNew g nh c a gd w ev ⟨sel g res, false⟩ res
  simp only at this
  rw [this]
  have hT' : integral nh c a w ev (sel g res) ≠ 0 := by
    simpa [wholeFF, evalInt_density] using hT
  exact C03.sum_rule_new g nh c a w ev ⟨sel g res, false⟩ res (nodup_sel g res) (List.Perm.refl _) hd hT'

/-- **Sum rule for resonance groups** (what `partial_weight(combine=…)` with one-level lists integrates to): for
every list of groups `G_0 … G_{m-1}` of entries whose selections are pairwise disjoint,
`I(all groups together) = Σ_i I(G_i) + Σ_{j<i} (I(G_i ∪ G_j) − I(G_i) − I(G_j))`, i.e. after division by the
total, group fractions plus group interference terms add up to one. -/
theorem sum_rule_groups [DecidableEq K] (g : Group) (nh : Nat) (c : Nat → K × K) (a : Nat → Nat → Nat → K × K)
    (w : Nat → K) (ev : List Nat) (G : List (List Entry))
    (hd : (G.map (sel g)).Pairwise List.Disjoint) :
    integral nh c a w ev (sel g G.flatten) =
      ((List.range G.length).map fun i =>
        integral nh c a w ev (sel g (G.getD i [])) +
          ((List.range i).map fun j =>
            integral nh c a w ev (sel g (G.getD i [] ++ G.getD j [])) - integral nh c a w ev (sel g (G.getD i []))
              - integral nh c a w ev (sel g (G.getD j []))).sum).sum := by
  have hmap : ((List.range G.length).map fun i => sel g (G.getD i [])) = G.map (sel g) := by
    apply List.ext_getElem
    · simp
    · intro i h1 h2
      simp at h1
      simp [List.getD_eq_getElem?_getD, h1]
  have hpe := pair_expansion (Iraw nh c a w ev) (Jraw nh c a w ev) (Iraw_append nh c a w ev)
    (Jraw_append_left nh c a w ev) (Jraw_nil_left nh c a w ev) (Iraw_nil nh c a w ev)
    (fun i => sel g (G.getD i [])) G.length
  rw [hmap] at hpe
  rw [integral_of_nodup nh c a w ev (nodup_sel g _), Iraw_perm nh c a w ev (sel_flatten_perm g G hd), hpe]
  apply sum_map_congr_mem
  intro i hi
  have hi' := List.mem_range.1 hi
  rw [integral_of_nodup nh c a w ev (nodup_sel g _)]
  refine congrArg (fun x => Iraw nh c a w ev (sel g (G.getD i [])) + x) ?_
  apply sum_map_congr_mem
  intro j hj
  have hj' := List.mem_range.1 hj
  have hjl : j < G.length := by omega
  have hdis : List.Disjoint (sel g (G.getD j [])) (sel g (G.getD i [])) := by
    have := (List.pairwise_iff_getElem.1 hd) j i (by simp; omega) (by simp; omega) hj'
    rw [getD_of_lt _ _ hjl, getD_of_lt _ _ hi']
    simpa using this
  rw [integral_of_nodup nh c a w ev (nodup_sel g _), Iraw_perm nh c a w ev (sel_append_perm g _ _ hdis),
    integral_of_nodup nh c a w ev (nodup_sel g _)]
  ring

/-- `partial_weight_interference` + `partial_weight`: for the `n` chains of a group, the single-chain integrals
plus the pair terms `I[j,i] − I[j] − I[i]` (`j < i`, the keys of `partial_weight_interference`) add up to the
integral of the full selection. -/
theorem pwi_expansion (nh : Nat) (c : Nat → K × K) (a : Nat → Nat → Nat → K × K) (w : Nat → K)
    (ev : List Nat) (n : Nat) :
    integral nh c a w ev (List.range n) =
      ((List.range n).map fun i =>
        integral nh c a w ev [i] +
          ((List.range i).map fun j =>
            integral nh c a w ev [j, i] - integral nh c a w ev [j] - integral nh c a w ev [i]).sum).sum := by
  have h := C03.integral_pair_expansion nh c a w ev (List.range n) List.nodup_range
  rw [h, List.length_range]
  apply sum_map_congr_mem
  intro i hi
  have hi' := List.mem_range.1 hi
  have e1 : (List.range n).getD i 0 = i := by simp [List.getD_eq_getElem?_getD, hi']
  rw [e1]
  congr 1
  apply sum_map_congr_mem
  intro j hj
  have hj' := List.mem_range.1 hj
  have e2 : (List.range n).getD j 0 = j := by
    simp [List.getD_eq_getElem?_getD, show j < n by omega]
  rw [e2]

/-- **`get_frac_diag_sum`** returns the sum of the cached diagonal *integrals*; it is the total times the
`sum_diag` entry of `get_frac_grad`, not a fraction (behaviour mirrored from the code). -/
theorem diag_sum_unnormalised (n : Nat) (st : FF K) (hT : st.total ≠ 0) :
    fracDiagSum n st = st.total * sumDiag n st := by
  unfold fracDiagSum sumDiag
  rw [pysum_eq_sum, pysum_eq_sum]
  induction List.range n with
  | nil => simp
  | cons i t ih =>
    simp only [List.map_cons, List.sum_cons, ih, fracOf, mul_add]
    rw [mul_div_cancel₀ _ hT]

end Table

-- =============================================================================================
-- D. the gradient table is the derivative of the fraction table (tie to C09 `frac_grad_is_deriv`)
-- =============================================================================================
section Grad
open TfPwaV.ErrPropR

/-- **Quotient rule, every entry of the table**: let `F s` be the accumulated state along an arbitrary line
`θ₀ + s·u` of parameter space.  If at `s = t` the cached gradients are the gradients of the cached integrals
(directional derivative `Σ_k grad_k u_k`, for every key and for the total) and the total is non-zero, then for every
key `(i, j)` — diagonal or interference — the gradient `get_frac_grad` returns is the gradient of the returned
fraction: `d/ds entry(F s)(i,j) = Σ_k gentry(F t)(i,j)_k u_k`.  Proved from C09's `frac_grad_is_deriv` /
`frac_grad_ij_is_deriv` (the model's formulas are C09's `fracGrad` / `fracGradIJ` componentwise). -/
theorem frac_grad_table_is_deriv {n : Nat} (F : ℝ → FF ℝ) (u : Fin n → ℝ) (t : ℝ) (i j : Nat)
    (hI : ∀ key, HasDerivAt (fun s => (F s).int key) (∑ k : Fin n, (F t).grad key k * u k) t)
    (hT : HasDerivAt (fun s => (F s).total) (∑ k : Fin n, (F t).gtotal k * u k) t)
    (h0 : (F t).total ≠ 0) :
    HasDerivAt (fun s => entry (F s) (i, j)) (∑ k : Fin n, gentry (F t) (i, j) k * u k) t := by
  by_cases h : i = j
  · subst h
    have := C09.frac_grad_is_deriv (fun s => (F s).int (i, i)) (fun s => (F s).total)
      (fun k : Fin n => (F t).grad (i, i) k) (fun k : Fin n => (F t).gtotal k) u t (hI _) hT h0
    rw [fracGrad_ofFn, dot_ofFn] at this
    simpa only [entry, gentry, if_true, fracOf, gradOf, frac] using this
  · have := C09.frac_grad_ij_is_deriv (fun s => (F s).int (i, j)) (fun s => (F s).int (i, i))
      (fun s => (F s).int (j, j)) (fun s => (F s).total)
      (fun k : Fin n => (F t).grad (i, j) k) (fun k : Fin n => (F t).grad (i, i) k)
      (fun k : Fin n => (F t).grad (j, j) k) (fun k : Fin n => (F t).gtotal k) u t (hI _) (hI _) (hI _) hT h0
    rw [fracGrad_ofFn, fracGrad_ofFn, fracGradIJ_ofFn, dot_ofFn] at this
    simpa only [entry, gentry, if_neg h, FitFrac.fracIJ, FitFrac.gradIJ, fracOf, gradOf, frac, ErrPropR.fracIJ] using this

/-- The accumulated gradient is the gradient of the accumulated integral: if each event's tape gradient
`gdens k S e` is the gradient of its density `dens s S e` along the line, so is `evalInt` of them — for every
sample, weights and chain list (hence for every batching, by `integral_state`). -/
theorem evalInt_grad_is_deriv {n : Nat} (dens : ℝ → List Nat → Nat → ℝ) (gdens : Nat → List Nat → Nat → ℝ)
    (w : Nat → ℝ) (u : Fin n → ℝ) (t : ℝ) (S : List Nat) (ev : List Nat)
    (hd : ∀ e, HasDerivAt (fun s => dens s S e) (∑ k : Fin n, gdens k S e * u k) t) :
    HasDerivAt (fun s => evalInt (dens s) w ev S) (∑ k : Fin n, evalInt (gdens k) w ev S * u k) t := by
  induction ev with
  | nil => simpa [evalInt] using hasDerivAt_const t (0 : ℝ)
  | cons e ev ih =>
    have h1 := ((hd e).mul_const (w e)).add ih
    have e1 : (fun s => evalInt (dens s) w (e :: ev) S) =
        (fun s => dens s S e * w e) + fun s => evalInt (dens s) w ev S := by
      funext s; simp [evalInt]
    rw [e1]
    refine h1.congr_deriv ?_
    simp only [evalInt, List.map_cons, List.sum_cons, add_mul, Finset.sum_add_distrib, Finset.sum_mul]
    congr 1
    apply Finset.sum_congr rfl
    intro k _
    ring

/-- **`FitFractions` end to end**: per-event tape gradients correct ⇒ for every batching the gradient table of
`get_frac_grad` is the gradient of its fraction table. -/
theorem ff_grad_is_deriv {n : Nat} (g : Group) (res : List Entry) (dens : ℝ → List Nat → Nat → ℝ)
    (gdens : Nat → List Nat → Nat → ℝ) (w : Nat → ℝ) (cur : List Nat) (batch : Option Nat)
    (hb : ∀ b, batch = some b → 0 < b) (ev : List Nat) (u : Fin n → ℝ) (t : ℝ) (i j : Nat)
    (hd : ∀ S e, HasDerivAt (fun s => dens s S e) (∑ k : Fin n, gdens k S e * u k) t)
    (h0 : (integralFF g res (dens t) gdens w cur batch ev).total ≠ 0) :
    HasDerivAt (fun s => entry (integralFF g res (dens s) gdens w cur batch ev) (i, j))
      (∑ k : Fin n, gentry (integralFF g res (dens t) gdens w cur batch ev) (i, j) k * u k) t := by
  apply frac_grad_table_is_deriv (fun s => integralFF g res (dens s) gdens w cur batch ev) u t i j
  · intro key
    simp only [integral_state g res _ gdens w cur batch hb ev, wholeFF]
    exact evalInt_grad_is_deriv dens gdens w u t _ ev (hd _)
  · simp only [integral_state g res _ gdens w cur batch hb ev, wholeFF]
    exact evalInt_grad_is_deriv dens gdens w u t _ ev (hd _)
  · exact h0

end Grad

-- ---------------------------------------------------------------------------------------------
-- non-vacuity: the concrete group of `C03.Example` run through the executable model (over ℚ)
-- ---------------------------------------------------------------------------------------------
namespace Example
open C03.Example

def dens : List Nat → Nat → Rat := density 2 coup amps
def gd : Nat → List Nat → Nat → Rat := fun k S e => (k : Rat) + S.length - e

/-- the state after three uneven batches is the state after one pass, … -/
example : (integralFF g res dens gd w [0, 1, 2] (some 2) ev).total = (integralFF g res dens gd w [0, 1, 2] none ev).total ∧
    (integralFF g res dens gd w [0, 1, 2] (some 2) ev).int (1, 0) = (integralFF g res dens gd w [0, 1, 2] none ev).int (1, 0) ∧
    (integralFF g res dens gd w [0, 1, 2] (some 2) ev).grad (1, 0) 1 = (integralFF g res dens gd w [0, 1, 2] none ev).grad (1, 0) 1 := by
  decide +kernel
/-- … the hypotheses of `sum_rule_table` hold (total non-zero; cover and disjointness as in `C03.Example`) and the
table is the non-trivial one of C03 -/
example : (integralFF g res dens gd w [0, 1, 2] (some 3) ev).total ≠ 0 := by decide +kernel
example : fracVals 2 (integralFF g res dens gd w [0, 1, 2] (some 3) ev) = [3 / 19, 128 / 171, 16 / 171] := by
  decide +kernel
example : (fracVals 2 (calFF g res dens gd w 2 ev)).sum = 1 := by decide +kernel
/-- `get_frac_diag_sum` is not a fraction -/
example : fracDiagSum 2 (integralFF g res dens gd w [0, 1, 2] none ev) = 3875 / 2 ∧
    sumDiag 2 (integralFF g res dens gd w [0, 1, 2] none ev) = 155 / 171 := by decide +kernel
/-- a partial selection active at the call changes the denominator only (method "new") -/
example : fracVals 2 (integralFF g res dens gd w [0, 1] none ev) ≠ fracVals 2 (integralFF g res dens gd w [0, 1, 2] none ev) := by
  decide +kernel
/-- groups: `[[r0], [r1]]` are disjoint in `g`, `[[r0], [r0, r1]]` are not -/
example : ([[Entry.res 0], [Entry.res 1]].map (sel g)) = [[0, 1], [2]] := by decide
example : interf g (integral 2 coup amps w ev) 7 (.res 0) (.res 1) = interf g (integral 2 coup amps w ev) 7 (.res 1) (.res 0) := by
  decide +kernel

end Example

end TfPwaV.C03b
