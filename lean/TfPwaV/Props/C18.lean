import TfPwaV.Proofs.Data
/-!
# C18 — Structured event data operations are lossless

Theorems about the model `TfPwaV.Data` of `tf_pwa/data.py` (tied to the source by the exact
correspondence of harness/c18.py).  All statements quantify over **every** data tree `d : D α`
(nested dict/list/tuple, arbitrary depth, arbitrary row type `α`), every batch size `b > 0`
and every event count; proofs are structural inductions over the tree.

Variants.  Theorems without suffix describe the generator *before* fix 15c726c (`gen`/`split`: `MAX_ITER`
branch for empty dict/list, `zip()` of nothing for an empty tuple) -- they are kept because they state exactly
what that code lost.  Theorems with suffix `F` describe the code now in /repo (`genF`/`splitF`,
`LazyCall._split_extra`): same conclusions with no guard on empty containers, empty `extra`, or the number
of batches.  `split_sizes`, `mask_leaf`, `mask_raises`, `load_multi_file`, `load_save_roundtrip`,
`saveTxt_layout` and the `index_*` theorems do not involve the generator (variant-independent).

Vocabulary: `win b j rows = rows[j*b : min(j*b+b, n)]`, `mapLeaves f d` applies `f` to every leaf,
`slen b d` is the number of batches the generator yields (`MAX_ITER` for an empty dict/list, `0` for an
empty tuple, `ceil(n/b)` for a leaf, the minimum over the children of a container),
`WF d`: no dict has a repeated key, `uniform n d`: every leaf has `n` rows.
-/
namespace TfPwaV.C18
open TfPwaV.Data

variable {α β : Type}

/-! ## data_split -/

/-- The batches of `data_split` are exactly the row windows of every leaf, for every tree (no hypothesis). -/
theorem split_eq (b : Nat) (d : D α) :
    split b d = tab (slen b d) (fun j => mapLeaves (win b j) d) := gen_eq b d

/-- number of batches and the content of batch `j` -/
theorem split_get (b : Nat) (d : D α) (j : Nat) (hj : j < slen b d) :
    (split b d).length = slen b d ∧ (split b d)[j]? = some (mapLeaves (win b j) d) := by
  rw [split_eq]
  exact ⟨tab_length _ _, tab_getElem? _ _ j hj⟩

/-- `ceil(n/b)` batches when nothing else limits the iteration -/
theorem split_count (b n : Nat) (d : D α) (hu : uniform n d = true) (hleaf : noArray d = false)
    (hg : noEmpty d = true ∨ (noEmptyTuple d = true ∧ nChunks b n ≤ MAX_ITER)) :
    (split b d).length = nChunks b n := by
  rw [split_eq, tab_length]
  apply Nat.le_antisymm
  · exact slen_le b n d hu hleaf
  · rcases hg with h | h
    · exact slen_ge b n _ (Nat.le_refl _) _ (by simp) (Or.inl ⟨by simp, by simp⟩) d hu h
    · exact slen_ge b n _ (Nat.le_refl _) _ (by simp) (Or.inr h.2) d hu h.1

/-- Piece sizes: batch `j` has `min b (n - j*b)` rows in every leaf, i.e. `b` rows except the last
    batch, which has `n - (ceil(n/b)-1)*b` (= `n mod b` when that is not 0). -/
theorem split_sizes (b n : Nat) (d : D α) (hu : uniform n d = true) (j : Nat) :
    uniform (min b (n - j * b)) (mapLeaves (win b j) d) = true :=
  uniform_mapLeaves (win b j) n _ (by intro r hr; rw [win_length, hr]) d hu

example : uniform 3 (D.node .dict [("a", .leaf [1, 2, 3]), ("e", .node .dict [])] : D Nat) = true := by decide

/-! ## data_merge ∘ data_split -/

/-- General form, no guard: merging the batches gives the data cut after `slen * b` rows. -/
theorem merge_split_general (b : Nat) (d : D α) (hwf : WF d) (hpos : 0 < slen b d) :
    merge (split b d) = some (mapLeaves (List.take (slen b d * b)) d) := by
  rw [split_eq]
  exact merge_tab b (slen b d) d hwf hpos

/-- ★ `data_merge(*data_split(d, b)) = d` for every well-formed tree whose leaves share `n > 0` rows,
    every `b > 0`, under the guard the code forces: no empty tuple, and either no empty dict/list
    or at most `MAX_ITER` batches. -/
theorem merge_split (b n : Nat) (d : D α) (hwf : WF d) (hu : uniform n d = true) (hb : 0 < b) (hn : 0 < n)
    (hg : noEmpty d = true ∨ (noEmptyTuple d = true ∧ nChunks b n ≤ MAX_ITER)) :
    merge (split b d) = some d := by
  have hge : nChunks b n ≤ slen b d := by
    rcases hg with h | h
    · exact slen_ge b n _ (Nat.le_refl _) _ (by simp) (Or.inl ⟨by simp, by simp⟩) d hu h
    · exact slen_ge b n _ (Nat.le_refl _) _ (by simp) (Or.inr h.2) d hu h.1
  have hpos : 0 < slen b d := Nat.lt_of_lt_of_le (nChunks_pos b n hb hn) hge
  rw [merge_split_general b d hwf hpos]
  congr 1
  apply mapLeaves_id_of _ n _ d hu
  intro r hr
  apply List.take_of_length_le
  rw [hr]
  exact Nat.le_trans (nChunks_mul_ge b n hb) (Nat.mul_le_mul_right b hge)

example : WF (D.node .dict [("a", .leaf [1, 2, 3]), ("e", .node .dict [])] : D Nat) := by
  simp [WF, WFCh]
example : noEmptyTuple (D.node .dict [("a", .leaf [1, 2, 3]), ("e", .node .dict [])] : D Nat) = true ∧
    nChunks 2 3 ≤ MAX_ITER := by decide

/-- The excluded region is a real loss: with an empty dict or list somewhere and more than `MAX_ITER`
    batches needed, the round trip returns a tree whose leaves have only `slen*b ≤ MAX_ITER*b < n` rows. -/
theorem merge_split_truncated (b n : Nat) (d : D α) (hwf : WF d) (hu : uniform n d = true)
    (hpos : 0 < slen b d) (hbound : slen b d ≤ MAX_ITER) (hbig : MAX_ITER * b < n) :
    ∃ d', merge (split b d) = some d' ∧ uniform (slen b d * b) d' = true ∧ slen b d * b < n := by
  refine ⟨_, merge_split_general b d hwf hpos, ?_, ?_⟩
  · apply uniform_mapLeaves _ n _ _ d hu
    intro r hr
    rw [List.length_take, hr]
    have : slen b d * b ≤ MAX_ITER * b := Nat.mul_le_mul_right b hbound
    omega
  · exact Nat.lt_of_le_of_lt (Nat.mul_le_mul_right b hbound) hbig

/-- an empty dict or list anywhere bounds the number of batches by `MAX_ITER` (for trees without an
    empty tuple the bound is attained or undercut) -/
theorem slen_le_maxiter (b : Nat) (d : D α) (h : hasEmptyDL d = true) : slen b d ≤ MAX_ITER :=
  slen_le_of_hasEmptyDL b d h

example : hasEmptyDL (D.node .dict [("a", .leaf [1, 2, 3]), ("e", .node .dict [])] : D Nat) = true := by decide

/-- an empty tuple anywhere: `data_split` yields nothing at all -/
theorem split_empty_tuple (b : Nat) (d : D α) (h : hasEmptyTuple d = true) : split b d = [] := by
  rw [split_eq, slen_zero_of_hasEmptyTuple b d h]; rfl

example : hasEmptyTuple (D.node .dict [("a", .leaf [1, 2, 3]), ("t", .node .tuple [])] : D Nat) = true := by decide

/-! ## batch_call -/

/-- ★ `batch_call(f, d, b) = f(d)` for every `f` that acts event-wise on `d` (commutes with taking the
    row window of a batch), under the same guard as `merge_split` on the input, when `f d` is a
    well-formed tree with `n` rows per leaf (any shape, empty containers allowed in the result). -/
theorem batch_call_eq (f : D α → D β) (b n : Nat) (d : D α) (hu : uniform n d = true) (hleaf : noArray d = false)
    (hb : 0 < b) (hn : 0 < n)
    (hg : noEmpty d = true ∨ (noEmptyTuple d = true ∧ nChunks b n ≤ MAX_ITER))
    (hf : ∀ j, f (mapLeaves (win b j) d) = mapLeaves (win b j) (f d))
    (hwf : WF (f d)) (hfu : uniform n (f d) = true) :
    batchCall f b d = some (f d) := by
  unfold batchCall
  have hlen : slen b d = nChunks b n := by
    have := split_count b n d hu hleaf hg
    rwa [split_eq, tab_length] at this
  rw [split_eq, tab_map, hlen]
  simp only [hf]
  rw [merge_tab b _ (f d) hwf (nChunks_pos b n hb hn)]
  congr 1
  apply mapLeaves_id_of _ n _ _ hfu
  intro r hr
  apply List.take_of_length_le
  rw [hr]
  exact nChunks_mul_ge b n hb

/-- the hypotheses of `batch_call_eq` are satisfiable: `f` = "double every row entry, wrap in a dict" -/
example : ∀ j, (fun d : D Nat => D.node .dict [("y", mapLeaves (List.map (2 * ·)) d)])
      (mapLeaves (win 2 j) (D.leaf [1, 2, 3])) =
    mapLeaves (win 2 j) ((fun d : D Nat => D.node .dict [("y", mapLeaves (List.map (2 * ·)) d)]) (D.leaf [1, 2, 3])) := by
  intro j
  simp [mapLeaves, mapLeavesCh, win, List.map_drop, List.map_take]

/-- scalar broadcast rule: when `f` returns a Python number `c` for every batch, `batch_call` returns the
    array of `n` copies of `c` (`c * ones(data_shape(batch))` per batch, `data_shape` = rows of the first array). -/
theorem batch_call_scalar (c : β) (b n : Nat) (d : D α) (hu : uniform n d = true) (hleaf : noArray d = false)
    (hb : 0 < b) (hn : 0 < n)
    (hg : noEmpty d = true ∨ (noEmptyTuple d = true ∧ nChunks b n ≤ MAX_ITER)) :
    batchCallScalar c b d = some (.leaf (List.replicate n c)) := by
  unfold batchCallScalar
  have hlen : slen b d = nChunks b n := by
    have := split_count b n d hu hleaf hg
    rwa [split_eq, tab_length] at this
  rw [split_eq, hlen]
  have hshape : ∀ j, (firstLen (mapLeaves (win b j) d)).map (fun k => D.leaf (List.replicate k c)) =
      some (mapLeaves (win b j) (D.leaf (List.replicate n c))) := by
    intro j
    rw [firstLen_uniform _ _ (split_sizes b n d hu j) (by rw [noArray_mapLeaves]; exact hleaf)]
    simp [mapLeaves, win_replicate]
  have hm : (tab (nChunks b n) fun j => mapLeaves (win b j) d).mapM
        (fun p => (firstLen p).map fun k => D.leaf (List.replicate k c)) =
      some (tab (nChunks b n) fun j => mapLeaves (win b j) (D.leaf (List.replicate n c))) := by
    rw [← mapM_id_tab]
    simp only [tab, List.mapM_map, Function.comp_def, hshape]
    rfl
  rw [hm]
  simp only []
  rw [merge_tab b _ _ (by simp [WF]) (nChunks_pos b n hb hn)]
  simp only [mapLeaves]
  congr 2
  apply List.take_of_length_le
  simpa using nChunks_mul_ge b n hb

/-! ## data_mask -/

/-- ★ `data_mask(d, sel)` keeps, in every leaf, exactly the rows `i` with `sel[i]`, in order: the result is
    `d` with every leaf `rows` replaced by `[rows[i] | i < n, sel[i]]`; structure (keys, kinds) unchanged;
    every leaf has `count(sel)` rows afterwards. -/
theorem mask_leaf (sel : List Bool) (d : D α) (hu : uniform sel.length d = true) :
    mask sel d = some (mapLeaves (fun rows =>
      (List.range rows.length).filterMap fun i => if sel.getD i false then rows[i]? else none) d) ∧
    uniform (sel.count true) (mapLeaves (maskRows sel) d) = true := by
  constructor
  · simp only [mask, hu, if_true]
    congr 1
    apply mapLeaves_congr
    intro r
    exact maskRows_eq sel r
  · apply uniform_mapLeaves _ sel.length _ _ d hu
    intro r hr
    exact maskRows_length sel r hr

/-- a leaf of another size: `tf.boolean_mask` raises -/
theorem mask_raises (sel : List Bool) (d : D α) (hu : uniform sel.length d = false) : mask sel d = none := by
  simp [mask, hu]

/-! ## load_dat_file ∘ savetxt -/

/-- ★ For every number of files, every particle count per file (≥ 1), every event count `N ≥ 1`: if
    file `i` is written with the `savetxt` layout (`np.stack(p).transpose((1,0,2)).reshape((-1,4))`) from the
    momenta `groups[i]` (one array of `N` rows per particle), then `load_dat_file(files, particles)` with
    the inferred `split` and the default `order=(1,0,2)` returns exactly these arrays, assigned to the
    particles in file order (`groups.flatten`). -/
theorem load_multi_file (N : Nat) (hN : 0 < N) (groups : List (List (List α))) (hne : groups ≠ [])
    (h : ∀ g ∈ groups, g ≠ [] ∧ Rect N g) :
    loadDat (groups.map List.length).sum (groups.map saveTxt) none true = some groups.flatten := by
  have hn : 0 < (groups.map List.length).sum := by
    cases groups with
    | nil => exact absurd rfl hne
    | cons g gs =>
      have := List.length_pos_iff.mpr (h g List.mem_cons_self).1
      simp only [List.map_cons, List.sum_cons]
      omega
  have hn0 : (groups.map List.length).sum ≠ 0 := by omega
  have hN0 : N ≠ 0 := by omega
  unfold loadDat
  simp only [foldl_add_eq_sum, Nat.zero_add, sizes_sum N groups h, hn0, if_false, Nat.mul_mod_left,
    ne_eq, not_true_eq_false, Nat.mul_div_cancel _ hn, hN0, sizes_div N hN groups h, if_true]
  rw [load_parts N groups h]
  simp

/-- ★ single file: `load_dat_file(savetxt(ps)) = ps` for every particle count `n ≥ 1` and event count `N ≥ 1` -/
theorem load_save_roundtrip (N : Nat) (hN : 0 < N) (ps : List (List α)) (hne : ps ≠ []) (h : Rect N ps) :
    loadDat ps.length [saveTxt ps] none true = some ps := by
  have := load_multi_file N hN [ps] (by simp) (by simpa using ⟨hne, h⟩)
  simpa using this

example : Rect 2 ([[1, 2], [3, 4], [5, 6]] : List (List Nat)) := by simp [Rect]

/-- the layout itself: row `e*n + s` of the file is event `e` of particle `s` -/
theorem saveTxt_layout (N : Nat) (ps : List (List α)) (hne : ps ≠ []) (h : Rect N ps) :
    saveTxt ps = (transposeN N ps).flatten ∧ (transposeN N ps).length = N ∧ Rect ps.length (transposeN N ps) :=
  ⟨saveTxt_eq N ps hne h, transposeN_spec N ps h⟩

/-! ## the generator after `fix_data_generator_empty.diff` (model `genF` / `splitF`)

The same statements hold **without** any guard on empty containers or on the number of batches. -/

/-- batches of the fixed `data_split`: `ceil(n/b)` row windows (a tree without arrays: `MAX_ITER` copies) -/
theorem splitF_batches (b n : Nat) (d : D α) (hu : uniform n d = true) :
    splitF b d = tab (if noArray d then MAX_ITER else nChunks b n) (fun j => mapLeaves (win b j) d) :=
  splitF_eq b n d hu

/-- ★ fixed code: `data_merge(*data_split(d, b)) = d` for every well-formed tree with `n > 0` rows per leaf and
    every `b > 0`: empty dict / list / tuple anywhere, any number of batches. -/
theorem merge_splitF (b n : Nat) (d : D α) (hwf : WF d) (hu : uniform n d = true) (hb : 0 < b) (hn : 0 < n) :
    merge (splitF b d) = some d := by
  rw [splitF_eq b n d hu]
  by_cases h : noArray d = true
  · simp only [h, if_true]
    rw [merge_tab b MAX_ITER d hwf (by decide)]
    congr 1
    exact mapLeaves_noArray _ d h
  · simp only [h, Bool.false_eq_true, if_false]
    rw [merge_tab b _ d hwf (nChunks_pos b n hb hn)]
    congr 1
    apply mapLeaves_id_of _ n _ d hu
    intro r hr
    apply List.take_of_length_le
    rw [hr]
    exact nChunks_mul_ge b n hb

/-- ★ fixed code: `batch_call(f, d, b) = f(d)` for event-wise `f`, no guard on empty containers -/
theorem batch_call_eqF (f : D α → D β) (b n : Nat) (d : D α) (hu : uniform n d = true) (hleaf : noArray d = false)
    (hb : 0 < b) (hn : 0 < n)
    (hf : ∀ j, f (mapLeaves (win b j) d) = mapLeaves (win b j) (f d))
    (hwf : WF (f d)) (hfu : uniform n (f d) = true) :
    batchCallV true f b d = some (f d) := by
  simp only [batchCallV, splitV, if_true]
  rw [splitF_eq b n d hu, tab_map]
  simp only [hleaf, hf, Bool.false_eq_true, if_false]
  rw [merge_tab b _ (f d) hwf (nChunks_pos b n hb hn)]
  congr 1
  apply mapLeaves_id_of _ n _ _ hfu
  intro r hr
  apply List.take_of_length_le
  rw [hr]
  exact nChunks_mul_ge b n hb

/-! ## LazyCall -/

/-- ★ lazy = eager: for event-wise `f` returning a dict, merging the batches yielded by `LazyCall.__iter__`
    (batch size `b`) gives `LazyCall.eval()`, for every `x`, every `extra` dict, provided neither generator
    stops early (`ceil(n/b)` batches from `x` and from `extra`; see `split_count`, and note that an *empty*
    `extra` yields only `MAX_ITER` batches in the unfixed code) and the eager value is a well-formed
    dict with `n` rows in every leaf. -/
theorem lazy_eq_eager (f : D α → D β) (x : D α) (fx ex : List (String × D β)) (b n : Nat)
    (hfx : f x = .node .dict fx)
    (hf : ∀ j, f (mapLeaves (win b j) x) = mapLeaves (win b j) (f x))
    (hb : 0 < b) (hn : 0 < n)
    (hx : nChunks b n ≤ slen b x) (he : nChunks b n ≤ slen b (D.node .dict ex))
    (hwf : WF (D.node .dict (dictUpdate fx ex))) (hu : uniform n (D.node .dict (dictUpdate fx ex)) = true) :
    (lazyIter f x (.node .dict ex) b).bind merge = lazyEval f x (.node .dict ex) ∧
    lazyEval f x (.node .dict ex) = some (.node .dict (dictUpdate fx ex)) := by
  refine ⟨?_, lazyEval_dict f x fx ex hfx⟩
  rw [lazyEval_dict f x fx ex hfx]
  unfold lazyIter
  rw [split_eq, split_eq, zipWith_tab]
  have hpiece : ∀ j, updateD (f (mapLeaves (win b j) x)) (mapLeaves (win b j) (D.node .dict ex)) =
      some (mapLeaves (win b j) (D.node .dict (dictUpdate fx ex))) := by
    intro j
    rw [hf j, hfx]
    simp only [mapLeaves, updateD, dictUpdate_map]
  simp only [hpiece]
  rw [mapM_id_tab]
  simp only [Option.bind_some]
  have hm : nChunks b n ≤ min (slen b x) (slen b (D.node .dict ex)) := Nat.le_min.mpr ⟨hx, he⟩
  rw [merge_tab b _ _ hwf (Nat.lt_of_lt_of_le (nChunks_pos b n hb hn) hm)]
  congr 1
  apply mapLeaves_id_of _ n _ _ hu
  intro r hr
  apply List.take_of_length_le
  rw [hr]
  exact Nat.le_trans (nChunks_mul_ge b n hb) (Nat.mul_le_mul_right b hm)

/-- the default `extra = {}` limits the unfixed iteration to `MAX_ITER` batches -/
theorem lazy_empty_extra (b : Nat) : slen b (D.node .dict [] : D β) = MAX_ITER := by
  simp [slen]

/-! ## LazyCall after the fix (`_split_extra`), model `lazyIterF` / `lazyIterNestedF`

No guard on empty containers, on an empty `extra`, or on the number of batches. -/

/-- fixed code: the batches yielded by `LazyCall.__iter__` are exactly the `ceil(n/b)` row windows of the eager
    value `eval()`, for every `x` holding an array, every `extra` dict (empty, with empty containers, or arrays) -/
theorem lazyIterF_batches (f : D α → D β) (x : D α) (fx ex : List (String × D β)) (b n : Nat)
    (hfx : f x = .node .dict fx)
    (hf : ∀ j, f (mapLeaves (win b j) x) = mapLeaves (win b j) (f x))
    (hux : uniform n x = true) (hleaf : noArray x = false)
    (hue : uniform n (D.node .dict ex) = true) :
    lazyIterF f x (.node .dict ex) b =
      some (tab (nChunks b n) fun j => mapLeaves (win b j) (D.node .dict (dictUpdate fx ex))) := by
  unfold lazyIterF
  rw [splitF_eq b n x hux]
  simp only [hleaf, Bool.false_eq_true, if_false]
  exact lazyIterOverF_tab f x fx ex b n hfx hf hue

/-- ★ fixed code, lazy = eager: for every `x` (any nesting, empty containers allowed) whose leaves have `n > 0`
    rows, every batch size `b > 0`, every `extra` dict whose leaves have `n` rows (in particular the default
    empty `extra`), and every event-wise `f` returning a dict: merging the batches of `LazyCall.__iter__` gives
    `LazyCall.eval()`, whenever that eager value is a well-formed dict with `n` rows per leaf. -/
theorem lazy_eq_eagerF (f : D α → D β) (x : D α) (fx ex : List (String × D β)) (b n : Nat)
    (hfx : f x = .node .dict fx)
    (hf : ∀ j, f (mapLeaves (win b j) x) = mapLeaves (win b j) (f x))
    (hb : 0 < b) (hn : 0 < n)
    (hux : uniform n x = true) (hleaf : noArray x = false)
    (hue : uniform n (D.node .dict ex) = true)
    (hwf : WF (D.node .dict (dictUpdate fx ex))) (hu : uniform n (D.node .dict (dictUpdate fx ex)) = true) :
    (lazyIterF f x (.node .dict ex) b).bind merge = lazyEval f x (.node .dict ex) ∧
    lazyEval f x (.node .dict ex) = some (.node .dict (dictUpdate fx ex)) := by
  refine ⟨?_, lazyEval_dict f x fx ex hfx⟩
  rw [lazyEval_dict f x fx ex hfx, lazyIterF_batches f x fx ex b n hfx hf hux hleaf hue]
  exact merge_windows b n _ hwf hu hb hn

/-- the hypotheses are satisfiable with the default empty `extra` -/
example : uniform 3 (D.node .dict [] : D Nat) = true ∧
    WF (D.node .dict (dictUpdate [("y", (D.leaf [2, 4, 6] : D Nat))] [])) ∧
    uniform 3 (D.node .dict (dictUpdate [("y", (D.leaf [2, 4, 6] : D Nat))] [])) = true := by
  refine ⟨by decide, ?_, by decide⟩
  simp [dictUpdate, WF, WFCh]

/-- ★ fixed code, nested `LazyCall(g, LazyCall(f, x))` (second branch of `__iter__`): merged batches = `eval()`
    of the nested object = `{**g({**f(x), **e1}), **e2}`, for event-wise `f`, `g`; no guard on the number of batches. -/
theorem lazy_nested_eq_eagerF {γ : Type} (g : D β → D γ) (f : D α → D β) (x : D α)
    (fx e1 : List (String × D β)) (gx e2 : List (String × D γ)) (b n : Nat)
    (hfx : f x = .node .dict fx)
    (hf : ∀ j, f (mapLeaves (win b j) x) = mapLeaves (win b j) (f x))
    (hgx : g (.node .dict (dictUpdate fx e1)) = .node .dict gx)
    (hg : ∀ j, g (mapLeaves (win b j) (D.node .dict (dictUpdate fx e1))) =
      mapLeaves (win b j) (g (.node .dict (dictUpdate fx e1))))
    (hb : 0 < b) (hn : 0 < n)
    (hux : uniform n x = true) (hleaf : noArray x = false)
    (hue1 : uniform n (D.node .dict e1) = true) (hue2 : uniform n (D.node .dict e2) = true)
    (hwf : WF (D.node .dict (dictUpdate gx e2))) (hu : uniform n (D.node .dict (dictUpdate gx e2)) = true) :
    (lazyIterNestedF g f x (.node .dict e1) (.node .dict e2) b).bind merge =
      lazyEvalNested g f x (.node .dict e1) (.node .dict e2) ∧
    lazyEvalNested g f x (.node .dict e1) (.node .dict e2) = some (.node .dict (dictUpdate gx e2)) := by
  have hev : lazyEvalNested g f x (.node .dict e1) (.node .dict e2) = some (.node .dict (dictUpdate gx e2)) := by
    unfold lazyEvalNested
    rw [lazyEval_dict f x fx e1 hfx]
    simp only [Option.bind_some]
    exact lazyEval_dict g _ gx e2 hgx
  refine ⟨?_, hev⟩
  rw [hev]
  unfold lazyIterNestedF
  rw [lazyIterF_batches f x fx e1 b n hfx hf hux hleaf hue1]
  simp only [Option.bind_some]
  rw [lazyIterOverF_tab g _ gx e2 b n hgx hg hue2]
  exact merge_windows b n _ hwf hu hb hn

/-! ## remaining fixed-variant counterparts -/

/-- fixed code: number of batches and content of batch `j` -/
theorem splitF_get (b n : Nat) (d : D α) (hu : uniform n d = true) (hleaf : noArray d = false) (j : Nat)
    (hj : j < nChunks b n) :
    (splitF b d).length = nChunks b n ∧ (splitF b d)[j]? = some (mapLeaves (win b j) d) := by
  rw [splitF_eq b n d hu]
  simp only [hleaf, Bool.false_eq_true, if_false]
  exact ⟨tab_length _ _, tab_getElem? _ _ j hj⟩

/-- fixed code: scalar broadcast rule of `batch_call`, no guard on empty containers -/
theorem batch_call_scalarF (c : β) (b n : Nat) (d : D α) (hu : uniform n d = true) (hleaf : noArray d = false)
    (hb : 0 < b) (hn : 0 < n) :
    batchCallScalarV true c b d = some (.leaf (List.replicate n c)) := by
  simp only [batchCallScalarV, splitV, if_true]
  rw [splitF_eq b n d hu]
  simp only [hleaf, Bool.false_eq_true, if_false]
  have hshape : ∀ j, (firstLen (mapLeaves (win b j) d)).map (fun k => D.leaf (List.replicate k c)) =
      some (mapLeaves (win b j) (D.leaf (List.replicate n c))) := by
    intro j
    rw [firstLen_uniform _ _ (split_sizes b n d hu j) (by rw [noArray_mapLeaves]; exact hleaf)]
    simp [mapLeaves, win_replicate]
  have hm : (tab (nChunks b n) fun j => mapLeaves (win b j) d).mapM
        (fun p => (firstLen p).map fun k => D.leaf (List.replicate k c)) =
      some (tab (nChunks b n) fun j => mapLeaves (win b j) (D.leaf (List.replicate n c))) := by
    rw [← mapM_id_tab]
    simp only [tab, List.mapM_map, Function.comp_def, hshape]
    rfl
  rw [hm]
  simp only []
  exact merge_windows b n _ (by simp [WF]) (by simp [uniform]) hb hn

/-! ## data_index -/

/-- a key that is present is returned before the `str()` fallback is tried -/
theorem index_hit (ch : List (String × D α)) (k : String) (v : D α) (h : lookup k ch = some v) :
    index (.node .dict ch) [.name k] = some v := by
  simp [index, idx1, h]

/-- fallback: an absent key addresses the first entry whose `str()` is equal -/
theorem index_fallback (ch : List (String × D α)) (k : String) (h : lookup k ch = none) :
    index (.node .dict ch) [.name k] = (ch.find? fun p => strOf p.1 == strOf k).map (·.2) := by
  simp [index, idx1, h]

/-- a list of keys addresses the sub-tree step by step -/
theorem index_cons (d : D α) (k k' : Key) (ks : List Key) :
    index d (k :: k' :: ks) = (idx1 d k).bind fun v => index v (k' :: ks) := by
  simp only [index]
  cases idx1 d k <;> rfl

/-- position in a list / tuple -/
theorem index_pos (k : Kind) (hk : k ≠ .dict) (ch : List (String × D α)) (i : Nat) :
    index (.node k ch) [.pos i] = ch[i]?.map (·.2) := by
  cases k <;> simp_all [index, idx1]

end TfPwaV.C18
