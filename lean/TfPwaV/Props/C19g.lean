import TfPwaV.Proofs.ConfigGT
import TfPwaV.Props.C19
/-!
# C19g — decay-entry parameters, restricted (l,s) lists, parameter names, `coef_head`

Theorems about the model `TfPwaV.ConfigD` (tied to `ConfigLoader(dict)` by harness/c19_dpar.py: exact comparison of the
chains, the (l,s) lists, the attributes / exported options of every decay object, the parameter-name list and the tie
partition on generated cards and on a malformed stream).  "For every card" = every value of `CardD`.
-/
namespace TfPwaV.C19g
open TfPwaV.Config TfPwaV.ConfigD

/-! ## reading the outcome -/

theorem expandD_ok {c : CardD} {x : CtxD} {chains : List Chain} (h : c.expand = .ok x chains) :
    c.context = some x ∧ ∃ cand, candidates x.regs c.base.top c.base.finals = some cand ∧
      cand.all simpleChain = true ∧
      (cand.flatMap id).any (fun d => classOf (x.kwOf d) == .unknown) = false ∧
      (cand.flatMap id).any (fun d => classOf (x.kwOf d) == .other || !kwSupported (x.kwOf d)) = false ∧
      chains = cand.filter x.toCtx.survives ∧ chains ≠ [] := by
  unfold CardD.expand at h
  split at h
  · simp at h
  · rename_i x' hc
    split at h
    · simp at h
    · rename_i cand hcand
      split at h
      · simp at h
      · rename_i hs
        split at h
        · simp at h
        · rename_i hu
          split at h
          · simp at h
          · rename_i ho
            split at h
            · simp at h
            · rename_i hne
              simp only [OutcomeD.ok.injEq] at h
              obtain ⟨rfl, rfl⟩ := h
              refine ⟨hc, cand, hcand, by simpa using hs, by simpa using hu, by simpa using ho, rfl, ?_⟩
              intro h0; rw [h0] at hne; simp at hne

/-! ## (1) how the keywords reach the decay object -/

/-- `get_decay(core, outs, **params)`: for every key the entry wins over `decay_params` of the mother, which wins over
`production_params` of the second daughter, which wins over those of the first; nothing else contributes. -/
theorem kwargs_precedence (props : List (Name × PDict)) (d : BDecay) (e : DDict) (k : String) :
    getKV (effKwargs props d e) k =
      (lastKV e k).orElse fun _ => (lastKV (decayParamsOf props d.core) k).orElse fun _ =>
        (lastKV (partDict props d.o2 "production_params") k).orElse fun _ =>
          lastKV (partDict props d.o1 "production_params") k := by
  unfold effKwargs
  rw [getKV_updKV, getKV_updKV, getKV_updKV, getKV_updKV]
  cases lastKV e k <;> cases lastKV (decayParamsOf props d.core) k <;>
    cases lastKV (partDict props d.o2 "production_params") k <;>
    cases lastKV (partDict props d.o1 "production_params") k <;> simp [getKV]

-- the entry's `l_list` beats the mother's `decay_params`, whose `has_barrier_factor` survives
example : ((lastKV [("l_list", DV.nats [2])] "l_list").orElse fun _ =>
    lastKV [("l_list", DV.nats [0]), ("has_barrier_factor", DV.bool false)] "l_list") = some (.nats [2]) := by decide
example : ((lastKV [("l_list", DV.nats [2])] "has_barrier_factor").orElse fun _ =>
    lastKV [("l_list", DV.nats [0]), ("has_barrier_factor", DV.bool false)] "has_barrier_factor") = some (.bool false) := by decide

/-- the projection to `Config.Ctx` reads the four restricting keys of the effective keywords -/
theorem optOf_toCtx (x : CtxD) (d : BDecay) : x.toCtx.optOf d = readOpt (x.kwOf d) := by
  unfold Ctx.optOf CtxD.toCtx CtxD.kwOf
  simp only [List.find?_map]
  have : ((fun r : BDecay × DOpt => r.1.same d) ∘ fun r : BDecay × DDict => (r.1, readOpt r.2)) = fun r => r.1.same d := rfl
  rw [this]
  cases x.kw.find? (fun r => r.1.same d) with
  | none => rfl
  | some r => rfl

/-- the couplings a decay with quantum numbers `a → b cc` offers under the options `o`: a given `ls_list` verbatim;
otherwise the selection rule (C13.Allowed with `p_break` / `c_break`) restricted to `l_list` -/
def CouplingOf (o : DOpt) (a b cc : QN) (l s2 : Nat) : Prop :=
  match o.lsList with
  | some ls => (l, s2) ∈ ls
  | none =>
    C13.Allowed a.j2 b.j2 cc.j2 a.p b.p cc.p (o.pBreak.getD false) (if o.cBreak.getD true then none else a.c) l s2 ∧
      ∀ ll, o.lList = some ll → l ∈ ll

/-- … read from the EFFECTIVE keywords of the decay object -/
def Coupling (x : CtxD) (d : BDecay) (l s2 : Nat) : Prop :=
  CouplingOf (readOpt (x.kwOf d)) (qnOfName x.props d.core) (qnOfName x.props d.o1) (qnOfName x.props d.o2) l s2

theorem lsOf_iff_coupling (o : DOpt) (a b cc : QN) (l s2 : Nat) : (l, s2) ∈ lsOf a b cc o ↔ CouplingOf o a b cc l s2 := by
  unfold CouplingOf
  cases hls : o.lsList with
  | some ls => rw [C19.ls_list_verbatim _ _ _ _ ls hls]
  | none =>
    cases hl : o.lList with
    | none =>
      unfold lsOf
      rw [hls, hl]
      simp only [C13.ls_mem_iff]
      constructor
      · intro h; exact ⟨h, by intro ll hh; cases hh⟩
      · intro h; exact h.1
    | some ll =>
      rw [C19.ls_with_l_list _ _ _ _ ll hls hl]
      constructor
      · rintro ⟨h1, h2⟩; exact ⟨h1, by intro ll' hh; cases hh; exact h2⟩
      · rintro ⟨h1, h2⟩; exact ⟨h1, h2 ll rfl⟩

theorem ls_iff_coupling (x : CtxD) (d : BDecay) (l s2 : Nat) : (l, s2) ∈ x.ls d ↔ Coupling x d l s2 := by
  unfold CtxD.ls Ctx.ls Coupling
  rw [optOf_toCtx]
  exact lsOf_iff_coupling _ _ _ _ l s2

-- non-vacuity: 1⁻ → 1⁻ 0⁺ offers (0,1),(2,1); `l_list: [2]` leaves (2,1); `l_list: [7]` leaves nothing
example : CouplingOf { lList := some [2] } ⟨2, some (-1), none⟩ ⟨2, some (-1), none⟩ ⟨0, some 1, none⟩ 2 2 := by
  rw [← lsOf_iff_coupling]; decide
example : lsOf ⟨2, some (-1), none⟩ ⟨2, some (-1), none⟩ ⟨0, some 1, none⟩ { lList := some [7] } = [] := by decide

/-- Cut with restricted lists: a candidate chain (tree from `$top` to `$finals` over the declared decays) is in the
output iff every decay of it keeps at least one coupling after `ls_list` / `l_list` / `p_break` / `c_break` of its
EFFECTIVE keywords were applied — no chain with a non-empty restricted list on every decay is dropped, and a chain one of
whose restricted lists is empty is removed. -/
theorem restricted_cut_sound_complete (c : CardD) (x : CtxD) (chains : List Chain) (h : c.expand = .ok x chains) :
    ∃ cand, candidates x.regs c.base.top c.base.finals = some cand ∧
      ∀ ch, ch ∈ chains ↔ ch ∈ cand ∧ ∀ d ∈ ch, ∃ l s2, Coupling x d l s2 := by
  obtain ⟨_, cand, hcand, _, _, _, rfl, _⟩ := expandD_ok h
  refine ⟨cand, hcand, ?_⟩
  intro ch
  rw [List.mem_filter]
  unfold Ctx.survives
  simp only [List.all_eq_true, Bool.not_eq_true', List.isEmpty_eq_false_iff]
  constructor
  · rintro ⟨h1, h2⟩
    refine ⟨h1, fun d hd => ?_⟩
    obtain ⟨⟨l, s2⟩, hm⟩ := List.exists_mem_of_ne_nil _ (h2 d hd)
    exact ⟨l, s2, (ls_iff_coupling x d l s2).1 hm⟩
  · rintro ⟨h1, h2⟩
    refine ⟨h1, fun d hd => ?_⟩
    obtain ⟨l, s2, hc⟩ := h2 d hd
    exact List.ne_nil_of_mem ((ls_iff_coupling x d l s2).2 hc)


/-! ### non-vacuity: a card that loads, on which `l_list` removes one of two candidate chains and on which the mother's
`decay_params` are overridden by the entry (hypothesis `c.expand = .ok x chains` of the theorems above and below) -/

def exCardD : CardD :=
  { base := { top := "A", topDict := some [("J", .spin 2), ("P", .int (-1))],
              finals := ["B", "C", "D"],
              finalsDict := some [("B", [("J", .spin 2), ("P", .int (-1))]), ("C", [("J", .spin 0), ("P", .int (-1))]),
                                  ("D", [("J", .spin 0), ("P", .int (-1))])],
              includes := [], decay := [],
              particle := [.props "R" [("J", .spin 2), ("P", .int 1), ("mass", .other "2.6"), ("width", .other "0.05")],
                           .props "S" [("J", .spin 2), ("P", .int 1), ("mass", .other "2.7"), ("coef_head", .other "R")]] }
    decay := [("A", .nested [[.name "R", .name "D", .opt [("has_barrier_factor", .bool false), ("foo", .str "3")]],
                             [.name "S", .name "D", .opt [("l_list", .nats [7])]]]),
              ("R", .flat [.name "B", .name "C", .opt [("l_list", .nats [0]), ("params_head", .str "HH")]]),
              ("S", .flat [.name "B", .name "C"])] }

def viewD : OutcomeD → Option (List String × List (List (List (Nat × Nat))) × Option (List String))
  | .raise _ => none
  | .ok x chains => some (chains.map showChain, chains.map (fun c => c.map x.ls), x.paramNames chains)

theorem exCardD_loads : (viewD exCardD.expand == some (["[A->R+D, R->B+C]"], [[[(0, 2), (2, 2)], [(0, 2)]]],
    some ["R_mass", "R_width", "A->R.DHH_total_0r", "A->R.DHH_total_0i", "A->R.D_g_ls_0r", "A->R.D_g_ls_0i",
          "A->R.D_g_ls_1r", "A->R.D_g_ls_1i", "HH_g_ls_0r", "HH_g_ls_0i"])) = true := by decide +kernel

example : ∃ x chains, exCardD.expand = .ok x chains := by
  cases h : exCardD.expand with
  | ok x chains => exact ⟨x, chains, rfl⟩
  | raise w => have := exCardD_loads; rw [h] at this; simp [viewD] at this

/-- the produced chains are still trees from `$top` to exactly `$finals` over the registered decays -/
theorem chainsD_are_trees (c : CardD) (x : CtxD) (chains : List Chain) (h : c.expand = .ok x chains) :
    ∀ ch ∈ chains, ∃ t : DTree, t.WF x.regs ∧ t.root = c.base.top ∧ t.chain = ch ∧ t.leaves.Perm c.base.finals := by
  obtain ⟨_, cand, hcand, _, _, _, rfl, _⟩ := expandD_ok h
  intro ch hch
  rw [List.mem_filter] at hch
  unfold candidates at hcand
  cases hcd : chainDecay x.regs (recursionBudget x.regs) c.base.top with
  | none => rw [hcd] at hcand; simp at hcand
  | some cs =>
    rw [hcd] at hcand
    simp only [Option.map_some, Option.some.injEq] at hcand
    subst hcand
    obtain ⟨hmem, hfin⟩ := List.mem_filter.1 hch.1
    obtain ⟨hnil, hspec⟩ := chainDecay_spec _ _ _ _ hcd
    obtain ⟨t, wf, hr, hc, _⟩ := (hspec ch).1 (Or.inl hmem)
    refine ⟨t, wf, hr, hc, ?_⟩
    cases t with
    | leaf n =>
      exfalso
      simp only [DTree.root] at hr
      subst hr
      have : cs = [] := hnil.2 wf
      rw [this] at hmem; simp at hmem
    | node d l r =>
      have hp := chainLeaves_perm _ d l r wf
      rw [hc] at hp
      have : (chainLeaves ch).Perm c.base.finals := by
        unfold matchesFinals at hfin
        exact List.isPerm_iff.1 hfin
      exact hp.symm.trans this

/-- every decay object of a loaded card is a `HelicityDecay` (an unregistered `model` raises KeyError before the cut) -/
theorem loaded_models_registered (c : CardD) (x : CtxD) (chains : List Chain) (h : c.expand = .ok x chains) :
    ∀ ch ∈ chains, ∀ d ∈ ch, classOf (x.kwOf d) = .helicity := by
  obtain ⟨_, cand, _, _, hu, ho, rfl, _⟩ := expandD_ok h
  intro ch hch d hd
  have hmem : d ∈ cand.flatMap id := List.mem_flatMap.2 ⟨ch, (List.mem_filter.1 hch).1, hd⟩
  have h1 := (List.any_eq_false.1 hu) d hmem
  have h2 := (List.any_eq_false.1 ho) d hmem
  cases hcl : classOf (x.kwOf d) with
  | helicity => rfl
  | other => rw [hcl] at h2; simp at h2
  | unknown => rw [hcl] at h1; simp at h1

/-! ## (1b) parameter names and counts -/

/-- The name list is a function of the shape of the loaded card: per resonance its variable list, per chain (in order)
its head and, per decay, the `params_head` and the NUMBER of couplings left by the restriction. -/
theorem param_names_determined (x y : CtxD) (chains : List Chain)
    (hres : ∀ n ∈ resonances chains, x.resNames n = y.resNames n)
    (hd : ∀ c ∈ chains, ∀ d ∈ c, x.headOf d = y.headOf d ∧ (x.ls d).length = (y.ls d).length) :
    x.paramNames chains = y.paramNames chains := by
  unfold CtxD.paramNames
  rw [shape_congr x y chains hres hd]

/-- number of `g_ls` components of a decay = number of couplings in its restricted list; each has a real and an
imaginary part named `<head>_g_ls_<k>r/i` -/
theorem gls_names_count (head : String) (n : Nat) : (complexNames (head ++ "_g_ls") n).length = 2 * n := by
  unfold complexNames
  induction n with
  | zero => simp
  | succ k ih =>
    rw [List.range_succ, List.flatMap_append, List.length_append, ih]
    simp
    omega

/-! ## (3) the name list of a whole card -/

/-- FULL: for every loaded card the rendered name list `paramNames` has no duplicates.
Proved: the SOURCES of the names are duplicate-free for every chain list — every resonance is listed once, the decay
objects that create `g_ls` variables are pairwise different decays (so a decay shared by several chains creates its
variables once).  Missing: injectivity of the string rendering (`<name>_mass`, `<head>_g_ls_<k>r`, concatenated chain
heads) and distinctness of the chains themselves; both are checked on every card of every run (model output and
`get_params()` have no repeated name; the model answers `unsupported` when two decay objects share a `params_head`). -/
theorem names_deterministic_partial (chains : List Chain) :
    (resonances chains).Nodup ∧ (seenDecays chains).Pairwise (fun a b => a.same b = false) :=
  ⟨resonances_nodup chains, seenDecays_pairwise chains⟩

/-- the loaded model is a function of the card -/
theorem names_deterministic (c₁ c₂ : CardD) (h : c₁ = c₂) :
    (match c₁.expand with | .ok x ch => (some ch, x.paramNames ch) | .raise _ => (none, none)) =
    (match c₂.expand with | .ok x ch => (some ch, x.paramNames ch) | .raise _ => (none, none)) := by rw [h]

/-! ## (2) `coef_head`: the ties are exactly declared ones (soundness direction) -/

/-- FULL: a pair of variables is tied iff the card declares it (`TieDeclared`).
Proved: every tie the loader makes is declared — some particle `i` of some chain names a head `h` of a chain, and the
pair is either the two chain totals or the k-th coupling of position-matched decays `i` takes part in, `k` below the
(common) number of couplings.  Missing: the converse needs the order in which chains are visited (a head that appears
only in a LATER chain is ignored by the loader, and the loader then rewrites `coef_head`); compared exactly with
`vm.same_list` as a partition on every generated card. -/
theorem coef_ties_declared_partial (x : CtxD) (chains : List Chain) (ties : List (String × String))
    (h : x.coefTies chains = .ok ties) : ∀ p ∈ ties, TieDeclared x chains p := by
  unfold CtxD.coefTies at h
  cases hf : (coefPlan chains).foldlM (fun st ci => coefStep x ci.1 st ci.2) ({} : CoefSt) with
  | error e => rw [hf] at h; simp [Except.map] at h
  | ok st =>
    rw [hf] at h
    simp only [Except.map, Except.ok.injEq] at h
    subst h
    have hinit : CoefInv x chains ({} : CoefSt) := by
      constructor
      · intro p hp; simp at hp
      · intro n dh hg; simp [getKV] at hg
    have := foldlM_inv (fun st ci => coefStep x ci.1 st ci.2) (CoefInv x chains) (coefPlan chains)
      (fun s a s' ha hp hs => coefStep_inv x chains a.1 a.2 (mem_coefPlan ha).1 (mem_coefPlan ha).2 s s' hp hs)
      {} st hinit hf
    exact this.1

/-- without any `coef_head` in the card nothing is tied -/
theorem no_coef_head_no_ties (x : CtxD) (chains : List Chain) (ties : List (String × String))
    (h : x.coefTies chains = .ok ties) (hno : ∀ n, coefHeadOf ((getKV x.props n).getD []) = none) : ties = [] := by
  cases ties with
  | nil => rfl
  | cons p ps =>
    obtain ⟨_, _, i, _, hd, hc, _⟩ := coef_ties_declared_partial x chains _ h p (List.mem_cons_self ..)
    rw [hno i] at hc
    cases hc

end TfPwaV.C19g
