import TfPwaV.Props.C01j
/-!
# C01 (base-axes clause, continued) — the element relations hold SIMULTANEOUSLY on the step record of `cal_helicity_angle`

`Props/C01j.lean` leaves one gap: its assembly `model_density_axes_independent_tree_partial` takes the relations between SU(2) elements
(`htop`, `hγ`, `hvert`, `hal`, `SideOKE`, `href`) as hypotheses, each proved separately for the angles of the cascade model, but not for
ONE event at two choices of base axes at the same time (same `γ`, same sheet `e` in all of them).  Here, on the step record
`RouteRestR.stepTree` of `cal_helicity_angle` (every vertex's `(alpha, beta, omega)` of both daughters; decay trees of ANY depth):

* `stshift_elements`, `side_elements` — ONE `γ` and ONE sheet `e` per daughter of the top particle serve the vertex equation, the row
  element of the daughter's own vertex, the route matrices of ALL final particles below it (through the first AND the second daughter of
  that vertex), and all deeper vertices are literally unchanged.
* `chain_elements` — one chain, both sides: `γ1`, `γ2`, `e1`, `e2` with `htop`, `hγ`, all route relations `M'·U = W·M` (`W` read off
  the decay path: `chainW`), the level-2 vertices on their sheets, deeper vertices unchanged.
* `alignment_hal` — the alignment Euler angles (`get_euler_angle` of `M_ref·M_k⁻¹`) in exactly the form `hal` of C01j, with
  `Rotation_z(θa) = W_k⁻¹`, `Rotation_z(φ) = W_ref`; `href_of_own_route`: `href` for the reference chain.
* `wAngle`, `chainW_is_rotZ` — every `W` is `Rotation_z` of an explicit angle (`γ`, `0` or `2π`).
* `sideOKE_of_paths` — `SideOKE` of C01j for one side of a chain, decay tree of ANY depth, from the decay paths of its ids.
* `axes_independent_cascade_partial` — `C01j.model_density_axes_independent_tree_partial` with ALL its element hypotheses discharged on the
  cascade model (remaining: `hR`, id ↔ path tables as hypotheses).
* `axes_independent_event_partial` — the same for ONE event given as trees of final momenta: tables built (`fpathOf`, `vpathOf`), routes
  read off the step record (`routeOf`, `vtxOf`), `hR` proved from `C02e.route_to_rest_of_cascade`; hypotheses: momenta (`Guards`,
  back-to-back daughters), `ChainOfTree` (incl. `spinOK`), pairwise different ids, reference-chain convention, `hvD`.
* `rest_self`, `bb_of_sum`, `sideBB_of_guards`, `axes_independent_event_guards_partial` — the back-to-back hypotheses DERIVED from momentum
  conservation in the input frame (`infer_momentum`: a decaying particle's momentum is the sum of the finals below it; `rest_vector` is
  linear): the hypotheses on momenta are GUARDS only (`Guards` at both axes, total momentum massive and on the code's boost branches,
  `|vect r| ≥ 1e-14` for a decaying daughter of the top particle).
* `axes_independent_3body_partial` — the 3-body decay group (`Is3Body`, `ResBB`).
Still missing for FULL: the boost clause (`C01g.AxesIndependent` for `AmpR.density ∘ chains-from-angle-trees`) and the construction of the
chain list (`C01j.mkChain`, `hvD`, reference convention) from a `DecayGroup`.
-/
open Matrix BigOperators
open TfPwaV.ScalarR
namespace TfPwaV.C01k
open TfPwaV.SU2R TfPwaV.AlignR TfPwaV.KinR TfPwaV.AngleR TfPwaV.SL2CR TfPwaV.LorentzSLR TfPwaV.CascadeR TfPwaV.RouteRestR
open TfPwaV.C12 TfPwaV.C02 TfPwaV.C01 TfPwaV.C11 TfPwaV.AxesInd TfPwaV.UnitaryMix TfPwaV.FrameAlg TfPwaV.C01h TfPwaV.C01i TfPwaV.C01j

noncomputable section

/-! ## the step record: vertices by decay path -/

/-- the two steps `(outs[0], outs[1])` recorded at the vertex reached by a decay path (`none` if the path ends at a final particle) -/
def vtxAt : STree → List Bool → Option (Step × Step)
  | .leaf, _ => none
  | .node s1 s2 _ _, [] => some (s1, s2)
  | .node _ _ d1 _, false :: r => vtxAt d1 r
  | .node _ _ _ d2, true :: r => vtxAt d2 r

/-- the element by which the route matrix of a final particle below ONE daughter of the top particle changes: `Rotation_z(γ)` for the
daughter itself (empty path below it), the sheet sign `±1` of the daughter's vertex for every deeper final particle -/
def sideW (γ : ℝ) (e : Bool) : List Bool → M2
  | [] => rotZ γ
  | _ :: _ => signM e

/-- … for a whole chain: first step of the path selects the side -/
def chainW (γ1 γ2 : ℝ) (e1 e2 : Bool) : List Bool → M2
  | [] => M2.one
  | false :: r => sideW γ1 e1 r
  | true :: r => sideW γ2 e2 r

/-- the top-vertex angles of the step record are those of the angle tree `CascadeR.helicityAngle` -/
theorem stepTree_top (R : RTree) (z x : V3) :
    (vtxAt (stepTree R z x) []).map (fun v => (v.1.alpha, v.1.beta, v.2.alpha, v.2.beta)) =
      match R with
      | .leaf _ => none
      | .node _ _ _ _ _ => some (topAngles (helicityAngle R z x)) := by
  cases R <;> rfl

/-! ## one daughter of the top particle -/

/-- **`stshift_elements`** — two step records below a daughter of the top particle that differ by a lowering `γ` (mod `2π`) of the two
azimuths of their root vertex (`StShift`, what `below_top_steps_shift` proves), the daughter's own steps `s`, `s'` satisfying the vertex
equation with the SAME `γ`, and the two daughters of the root vertex back to back (`alpha_2 = alpha_1 − π`,
`C01j.vertex_second_daughter_exact`): there is ONE sheet `e` such that (i) the route matrix of EVERY final particle below changes by
`sideW γ e path`, (ii) the azimuth element of the root vertex is lowered by `γ` on sheet `e`, (iii) every deeper vertex is unchanged. -/
theorem stshift_elements (U : M2) (s s' : Step) (γ : ℝ) (hω : s'.omega = s.omega)
    (h : (stepR s'.alpha s'.beta).mul U = (rotZ γ).mul (stepR s.alpha s.beta)) (S S' : STree) (hS : StShift γ S S')
    (hbb : ∀ v, vtxAt S [] = some v → v.2.alpha = v.1.alpha - Real.pi)
    (hbb' : ∀ v, vtxAt S' [] = some v → v.2.alpha = v.1.alpha - Real.pi) :
    ∃ e : Bool,
      (∀ path ss ss', S.stepsAt path = some ss → S'.stepsAt path = some ss' →
        (routeM (s' :: ss')).mul U = (sideW γ e path).mul (routeM (s :: ss))) ∧
      (∀ v v', vtxAt S [] = some v → vtxAt S' [] = some v' →
        v'.1.beta = v.1.beta ∧ rotZ v'.1.alpha = (signM e).mul (rotZ (v.1.alpha - γ))) ∧
      (∀ b path, vtxAt S' (b :: path) = vtxAt S (b :: path)) := by
  cases S with
  | leaf =>
    cases S' with
    | leaf =>
      refine ⟨false, ?_, ?_, ?_⟩
      · intro path ss ss' h1 h2
        cases path with
        | nil =>
          simp only [STree.stepsAt, Option.some.injEq] at h1 h2
          subst h1; subst h2
          exact route_direct_change s s' U γ hω h
        | cons b r => simp [STree.stepsAt] at h1
      · intro v v' h1; simp [vtxAt] at h1
      · intro b path; rfl
    | node _ _ _ _ => exact absurd hS (by simp [StShift])
  | node s1 s2 d1 d2 =>
    cases S' with
    | leaf => exact absurd hS (by simp [StShift])
    | node s1' s2' d1' d2' =>
      simp only [StShift] at hS
      obtain ⟨h1, h2, rfl, rfl⟩ := hS
      obtain ⟨e, he⟩ := sheet_exists s1.alpha s1'.alpha γ h1.2.2.1 h1.2.2.2
      have b2 : s2.alpha = s1.alpha - Real.pi := hbb (s1, s2) rfl
      have b2' : s2'.alpha = s1'.alpha - Real.pi := hbb' (s1', s2') rfl
      have he2 := second_daughter_same_sheet s1.alpha s1'.alpha s2.alpha s2'.alpha γ e b2 b2' he
      refine ⟨e, ?_, ?_, ?_⟩
      · intro path ss ss' e1 e2
        cases path with
        | nil => simp [STree.stepsAt] at e1
        | cons b r =>
          cases b with
          | false =>
            simp only [STree.stepsAt, Option.map_eq_some_iff] at e1 e2
            obtain ⟨l, hl, rfl⟩ := e1
            obtain ⟨l', hl', rfl⟩ := e2
            have : l' = l := by rw [hl] at hl'; exact (Option.some.inj hl').symm
            subst this
            exact route_deeper_change_sheet s s' s1 s1' l' U γ e hω h h1.1 h1.2.1 he
          | true =>
            simp only [STree.stepsAt, Option.map_eq_some_iff] at e1 e2
            obtain ⟨l, hl, rfl⟩ := e1
            obtain ⟨l', hl', rfl⟩ := e2
            have : l' = l := by rw [hl] at hl'; exact (Option.some.inj hl').symm
            subst this
            exact route_deeper_change_sheet s s' s2 s2' l' U γ e hω h h2.1 h2.2.1 he2
      · intro v v' e1 e2
        simp only [vtxAt, Option.some.injEq] at e1 e2
        subst e1; subst e2
        exact ⟨h1.1, he⟩
      · intro b path
        cases b <;> rfl

/-- momentum conservation at the vertex of a decaying daughter of the top particle (helicity-frame momentum `r`): its two daughters
are back to back in its rest frame, and `|vect r| ≥ 1e-14` (the second `cross_unit` guard of its axes); nothing for a final particle -/
def SideBB (r : V4) (g : V4 → V4) : PTree → Prop
  | .leaf _ => True
  | .node _ T1 T2 => eps ≤ r.vect.norm ∧ (r.restVector (g T2.p)).vect = (r.restVector (g T1.p)).vect.neg

/-- `SideBB` + the guards ⇒ the stored azimuths of the two daughters of the vertex satisfy `alpha_2 = alpha_1 − π` exactly -/
theorem side_bb (r : V4) (g : V4 → V4) (x2 : V3) (T : PTree) (hB : SideBB r g T)
    (hG : Guards (chainBoost T (fun q => r.restVector (g q))) r.vect x2) :
    ∀ v, vtxAt (stepTree (chainBoost T (fun q => r.restVector (g q))) r.vect x2) [] = some v →
      v.2.alpha = v.1.alpha - Real.pi := by
  cases T with
  | leaf p0 => intro v hv; simp [chainBoost, stepTree, vtxAt] at hv
  | node p0 T1 T2 =>
    obtain ⟨hn, hbb⟩ := hB
    have hcr : eps ≤ (r.vect.cross x2).norm := by
      simp only [chainBoost, Guards] at hG; exact hG.1
    have h := top_second_daughter_exact r.vect x2 ⟨hcr, hn⟩ p0 T1 T2 (fun q => r.restVector (g q)) hG hbb
    simp only [chainBoost, helicityAngle, topAngles] at h
    intro v hv
    simp only [chainBoost, stepTree, vtxAt, Option.some.injEq] at hv
    subst hv
    exact h.2

/-- **`side_elements`** — ONE event, a daughter of the top particle with helicity-frame momentum `r` and decay tree `T` of ANY depth,
two admissible choices of base axes related by `U`, the code's guards, momentum conservation at the daughter's vertex: ONE `γ` and ONE
sheet `e` serve the vertex equation, all route matrices below, the daughter's own vertex; deeper vertices are unchanged. -/
theorem side_elements (U : M2) (z x z' x' : V3) (hA : AxesPair U z x z' x') (r : V4) (T : PTree) (g : V4 → V4) (bias : ℝ)
    (hok : StepOK z r) (hok' : StepOK z' r)
    (hreg : RDecays (chainBoost T (fun q => r.restVector (g q))) → eps < r.boostVector.norm2)
    (hG : Guards (chainBoost T (fun q => r.restVector (g q))) r.vect (angleZxZGetx z x r.vect).x2)
    (hG' : Guards (chainBoost T (fun q => r.restVector (g q))) r.vect (angleZxZGetx z' x' r.vect).x2)
    (hB : SideBB r g T) :
    let s : Step := ⟨shiftAlpha (angleZxZGetx z x r.vect).alpha bias, (angleZxZGetx z x r.vect).beta, omegaP r⟩
    let s' : Step := ⟨shiftAlpha (angleZxZGetx z' x' r.vect).alpha bias, (angleZxZGetx z' x' r.vect).beta, omegaP r⟩
    let S := stepTree (chainBoost T (fun q => r.restVector (g q))) r.vect (angleZxZGetx z x r.vect).x2
    let S' := stepTree (chainBoost T (fun q => r.restVector (g q))) r.vect (angleZxZGetx z' x' r.vect).x2
    ∃ (γ : ℝ) (e : Bool), (stepR s'.alpha s'.beta).mul U = (rotZ γ).mul (stepR s.alpha s.beta) ∧
      (∀ path ss ss', S.stepsAt path = some ss → S'.stepsAt path = some ss' →
        (routeM (s' :: ss')).mul U = (sideW γ e path).mul (routeM (s :: ss))) ∧
      (∀ v v', vtxAt S [] = some v → vtxAt S' [] = some v' →
        v'.1.beta = v.1.beta ∧ rotZ v'.1.alpha = (signM e).mul (rotZ (v.1.alpha - γ))) ∧
      (∀ b path, vtxAt S' (b :: path) = vtxAt S (b :: path)) := by
  intro s s' S S'
  obtain ⟨γ, hγ, hS⟩ := below_top_steps_shift U z x z' x' hA r T g bias bias hok hok' hreg hG hG'
  obtain ⟨e, h1, h2, h3⟩ := stshift_elements U s s' γ rfl hγ S S' hS (side_bb r g _ T hB hG) (side_bb r g _ T hB hG')
  exact ⟨γ, e, hγ, h1, h2, h3⟩

/-! ## one chain -/

/-- **`chain_elements`** — ONE event, ONE chain `top → T1 T2` (decay trees of ANY depth, `g` = boost to the rest frame of the top
particle), two admissible choices of base axes related by `U`; hypotheses: the code's guards for both choices and momentum conservation
(back-to-back daughters) at the top vertex and at the vertices of its two daughters.  There are `γ1`, `γ2`, sheets `e1`, `e2` with,
SIMULTANEOUSLY: `htop` (vertex equation of `outs[0]`), `hγ` (`Rotation_z(γ2) = Rotation_z(−γ1)`), the route relation `M'·U = W·M` for the
route of EVERY final particle with `W = chainW γ1 γ2 e1 e2 path` read off the decay path, the level-2 vertices lowered by `γ_j` on sheet
`e_j`, and every deeper vertex unchanged. -/
theorem chain_elements (U : M2) (z x z' x' : V3) (hA : AxesPair U z x z' x') (p : V4) (T1 T2 : PTree) (g : V4 → V4)
    (hG : Guards (chainBoost (.node p T1 T2) g) z x) (hG' : Guards (chainBoost (.node p T1 T2) g) z' x')
    (hbb : (g T2.p).vect = (g T1.p).vect.neg) (hB1 : SideBB (g T1.p) g T1) (hB2 : SideBB (g T2.p) g T2) :
    let a := topAngles (helicityAngle (chainBoost (.node p T1 T2) g) z x)
    let a' := topAngles (helicityAngle (chainBoost (.node p T1 T2) g) z' x')
    let S := stepTree (chainBoost (.node p T1 T2) g) z x
    let S' := stepTree (chainBoost (.node p T1 T2) g) z' x'
    ∃ (γ1 γ2 : ℝ) (e1 e2 : Bool),
      (stepR a'.1 a'.2.1).mul U = (rotZ γ1).mul (stepR a.1 a.2.1) ∧
      rotZ γ2 = rotZ (-γ1) ∧
      (∀ path ss ss', S.stepsAt path = some ss → S'.stepsAt path = some ss' →
        (routeM ss').mul U = (chainW γ1 γ2 e1 e2 path).mul (routeM ss)) ∧
      (∀ v v', vtxAt S [false] = some v → vtxAt S' [false] = some v' →
        v'.1.beta = v.1.beta ∧ rotZ v'.1.alpha = (signM e1).mul (rotZ (v.1.alpha - γ1))) ∧
      (∀ v v', vtxAt S [true] = some v → vtxAt S' [true] = some v' →
        v'.1.beta = v.1.beta ∧ rotZ v'.1.alpha = (signM e2).mul (rotZ (v.1.alpha - γ2))) ∧
      (∀ b c path, vtxAt S' (b :: c :: path) = vtxAt S (b :: c :: path)) := by
  intro a a' S S'
  have hG0 := hG
  have hG0' := hG'
  simp only [chainBoost, Guards] at hG hG'
  obtain ⟨_, ok1, ok2, reg1, reg2, G1, G2⟩ := hG
  obtain ⟨_, ok1', ok2', _, _, G1', G2'⟩ := hG'
  obtain ⟨γ1, e1, v1, r1, l1, d1⟩ := side_elements U z x z' x' hA (g T1.p) T1 g (-kpi) ok1 ok1' reg1 G1 G1' hB1
  obtain ⟨γ2, e2, v2, r2, l2, d2⟩ := side_elements U z x z' x' hA (g T2.p) T2 g (-kpi - kpi) ok2 ok2' reg2 G2 G2' hB2
  have hγ := (top_gammas_opposite U z x z' x' hA p T1 T2 g hG0 hG0' hbb γ1 γ2
    (by simpa only [chainBoost, helicityAngle, topAngles] using v1)
    (by simpa only [chainBoost, helicityAngle, topAngles] using v2)).1
  refine ⟨γ1, γ2, e1, e2, ?_, hγ, ?_, ?_, ?_, ?_⟩
  · simpa only [a, a', chainBoost, helicityAngle, topAngles] using v1
  · intro path ss ss' h h'
    simp only [S, S', chainBoost, stepTree] at h h'
    cases path with
    | nil => simp [STree.stepsAt] at h
    | cons b r =>
      cases b with
      | false =>
        simp only [STree.stepsAt, Option.map_eq_some_iff] at h h'
        obtain ⟨l, hl, rfl⟩ := h
        obtain ⟨l', hl', rfl⟩ := h'
        exact r1 r l l' hl hl'
      | true =>
        simp only [STree.stepsAt, Option.map_eq_some_iff] at h h'
        obtain ⟨l, hl, rfl⟩ := h
        obtain ⟨l', hl', rfl⟩ := h'
        exact r2 r l l' hl hl'
  · intro v v' h h'
    simp only [S, S', chainBoost, stepTree, vtxAt] at h h'
    exact l1 v v' h h'
  · intro v v' h h'
    simp only [S, S', chainBoost, stepTree, vtxAt] at h h'
    exact l2 v v' h h'
  · intro b c path
    simp only [S, S', chainBoost, stepTree]
    cases b with
    | false => exact d1 c path
    | true => exact d2 c path

-- non-vacuity of the hypotheses of `chain_elements` / `chain_rel`: the 3-body event `A → R c, R → a b` of `Props/C02e.lean`
-- (`exEvent2`, `R` in flight) with the laboratory axes passes the guards, its top daughters and the daughters of `R` are back to back,
-- and an `AxesPair` exists
example : ∃ (U : M2) (p : V4) (T1 T2 : PTree) (g : V4 → V4),
    AxesPair U ⟨0, 0, 1⟩ ⟨1, 0, 0⟩ ⟨0, 0, 1⟩ ⟨1, 0, 0⟩ ∧ chainBoost (.node p T1 T2) g = calChainBoost exEvent2 ∧
      Guards (chainBoost (.node p T1 T2) g) ⟨0, 0, 1⟩ ⟨1, 0, 0⟩ ∧ (g T2.p).vect = (g T1.p).vect.neg ∧
      SideBB (g T1.p) g T1 ∧ SideBB (g T2.p) g T2 := by
  obtain ⟨U, hU⟩ := axes_pair_exists _ _ _ _ exTopOK exTopOK
  have hg : ∀ q : V4, (⟨10, 0, 0, 0⟩ : V4).restVector q = q := (good_top 10).inv
  have hRa : (⟨5 / 2, 3 / 2, 1, 0⟩ : V4).add ⟨5 / 2, 3 / 2, -1, 0⟩ = ⟨5, 3, 0, 0⟩ := by
    simp only [V4.add]; norm_num
  refine ⟨U, exEvent2.total, inferMomentum (.node (.leaf ⟨5 / 2, 3 / 2, 1, 0⟩) (.leaf ⟨5 / 2, 3 / 2, -1, 0⟩)),
    inferMomentum (.leaf ⟨5, -3, 0, 0⟩), fun q => exEvent2.total.restVector q, hU, rfl, ex2_guards, ?_, ?_, trivial⟩
  · simp only [ex2_total, hg, inferMomentum, PTree.p, MTree.total, hRa]
    ext <;> simp [V4.vect, V3.neg]
  · simp only [ex2_total, hg, inferMomentum, PTree.p, MTree.total, hRa, SideBB, ex2_rest]
    refine ⟨?_, by ext <;> simp [V4.vect, V3.neg]⟩
    rw [ex2_norm 3 (by norm_num) _ (by simp [V4.vect, V3.norm2])]
    unfold eps; norm_num

/-! ## every `W` is `Rotation_z` of an explicit angle -/

/-- the angle of `sideW`: `γ` for the daughter itself, `0` / `2π` (sheet) below -/
def sideAngle (γ : ℝ) (e : Bool) : List Bool → ℝ
  | [] => γ
  | _ :: _ => if e then 2 * Real.pi else 0

/-- the angle of `chainW` -/
def chainAngle (γ1 γ2 : ℝ) (e1 e2 : Bool) : List Bool → ℝ
  | [] => 0
  | false :: r => sideAngle γ1 e1 r
  | true :: r => sideAngle γ2 e2 r

theorem signM_eq_rotZ (e : Bool) : signM e = rotZ (if e then 2 * Real.pi else 0) := by
  cases e
  · simp only [signM, Bool.false_eq_true, if_false]; exact rotZ_zero.symm
  · simp only [signM, if_true]; exact rotZ_two_pi.symm

theorem sideW_is_rotZ (γ : ℝ) (e : Bool) (path : List Bool) : sideW γ e path = rotZ (sideAngle γ e path) := by
  cases path with
  | nil => rfl
  | cons b r => exact signM_eq_rotZ e

/-- **`chainW_is_rotZ`** — the element of EVERY route relation of `chain_elements` is `Rotation_z` of `chainAngle … path` -/
theorem chainW_is_rotZ (γ1 γ2 : ℝ) (e1 e2 : Bool) (path : List Bool) :
    chainW γ1 γ2 e1 e2 path = rotZ (chainAngle γ1 γ2 e1 e2 path) := by
  cases path with
  | nil => exact rotZ_zero.symm
  | cons b r => cases b <;> exact sideW_is_rotZ _ _ r

theorem rotZ_neg_sheet (e : Bool) : rotZ (-(if e then 2 * Real.pi else 0)) = signM e := by
  rw [← rotZ_inv, ← signM_eq_rotZ]
  cases e
  · simp only [signM, Bool.false_eq_true, if_false]; ext <;> simp [M2.inv, M2.one, Cx.neg, Cx.zero]
  · simp only [signM, if_true]; ext <;> simp [M2.inv, negOne, Cx.neg, Cx.zero]

/-! ## the alignment Euler angles: `hal` and `href` -/

/-- **`alignment_hal`** — the hypothesis `hal` of `C01j.model_density_axes_independent_tree_partial` on the model: final particle with
reference route `ρ` (chain `ρ`) and route `k` in the chain at hand; if the route matrices change by `Rotation_z(φ)` (reference) and
`Rotation_z(ωk)` (own chain) — `chain_elements` + `chainW_is_rotZ` —, the Euler angles `get_euler_angle(M_ref·M_k⁻¹)` that `get_amp` feeds
into `D_matrix_conj` satisfy `Rz(α')Ry(β')Rz(γ') = Rotation_z(−ωk)·(Rz(α)Ry(β)Rz(γ))·Rotation_z(φ)`. -/
theorem alignment_hal (U : M2) (hU : IsSU2 U) (ρ ρ' k k' : Route) (ωk φ : ℝ)
    (hR : IsSU2 (alignR ρ.b ρ.r k.r k.b))
    (hr : (routeM ρ'.list).mul U = (rotZ φ).mul (routeM ρ.list))
    (hk : (routeM k'.list).mul U = (rotZ ωk).mul (routeM k.list)) :
    let E := eulerOf (alignR ρ.b ρ.r k.r k.b)
    let E' := eulerOf (alignR ρ'.b ρ'.r k'.r k'.b)
    rot3 E'.alpha E'.beta E'.gamma = (rotZ (-ωk)).mul ((rot3 E.alpha E.beta E.gamma).mul (rotZ φ)) := by
  intro E E'
  have hch := alignment_element_change U hU ρ ρ' k k' (rotZ φ) (rotZ ωk) hr hk
  have hR' : IsSU2 (alignR ρ'.b ρ'.r k'.r k'.b) := by
    rw [hch]
    exact isSU2_mul _ _ (isSU2_mul _ _ (isSU2_rotZ φ) hR) (isSU2_inv _ (isSU2_rotZ ωk))
  simp only [E, E']
  rw [rot3_eulerOf _ hR', rot3_eulerOf _ hR, hch, rev_mul, rev_mul, rotZ_inv, rev_rotZ, rev_rotZ]

/-- **`href_of_own_route`** — `href`: in the reference chain of a final particle the chain's own element IS the reference element -/
theorem href_of_own_route (ω : ℝ) : (rotZ (-ω)).mul (rotZ ω) = M2.one := by
  rw [← rotZ_add, neg_add_cancel, rotZ_zero]

/-! ## `SideOKE` from the decay paths (ANY depth) -/

/-- the final particles of a decay tree with their decay paths below the root of the tree -/
def finalPaths : CTree → List (Nat × List Bool)
  | .fin f _ => [(f, [])]
  | .dec _ _ d1 d2 => ((finalPaths d1).map fun x => (x.1, false :: x.2)) ++ ((finalPaths d2).map fun x => (x.1, true :: x.2))

/-- the decaying particles of a decay tree with their decay paths below the root of the tree -/
def decPaths : CTree → List (Nat × List Bool)
  | .fin _ _ => []
  | .dec a _ d1 d2 => (a, []) :: (((decPaths d1).map fun x => (x.1, false :: x.2)) ++ ((decPaths d2).map fun x => (x.1, true :: x.2)))

theorem finals_have_paths (t : CTree) : ∀ f ∈ t.finals, ∃ path, (f.1, path) ∈ finalPaths t := by
  induction t with
  | fin i N =>
    intro f hf
    simp only [CTree.finals, List.mem_singleton] at hf
    subst hf
    exact ⟨[], by simp [finalPaths]⟩
  | dec i N d1 d2 ih1 ih2 =>
    intro f hf
    simp only [CTree.finals, List.mem_append] at hf
    rcases hf with hf | hf
    · obtain ⟨path, hp⟩ := ih1 f hf
      exact ⟨false :: path, by
        simp only [finalPaths, List.mem_append, List.mem_map]
        exact Or.inl ⟨(f.1, path), hp, rfl⟩⟩
    · obtain ⟨path, hp⟩ := ih2 f hf
      exact ⟨true :: path, by
        simp only [finalPaths, List.mem_append, List.mem_map]
        exact Or.inr ⟨(f.1, path), hp, rfl⟩⟩

theorem decs_have_paths (t : CTree) : ∀ d ∈ t.decs, ∃ path, (d.1, path) ∈ decPaths t := by
  induction t with
  | fin i N => intro d hd; simp [CTree.decs] at hd
  | dec i N d1 d2 ih1 ih2 =>
    intro d hd
    simp only [CTree.decs, List.mem_cons, List.mem_append] at hd
    rcases hd with hd | hd | hd
    · subst hd
      exact ⟨[], by simp [decPaths]⟩
    · obtain ⟨path, hp⟩ := ih1 d hd
      exact ⟨false :: path, by
        simp only [decPaths, List.mem_cons, List.mem_append, List.mem_map]
        exact Or.inr (Or.inl ⟨(d.1, path), hp, rfl⟩)⟩
    · obtain ⟨path, hp⟩ := ih2 d hd
      exact ⟨true :: path, by
        simp only [decPaths, List.mem_cons, List.mem_append, List.mem_map]
        exact Or.inr (Or.inr ⟨(d.1, path), hp, rfl⟩)⟩

/-- the row angle of the vertex at a decay path below a daughter of the top particle: the sheet angle for the daughter's own vertex,
`0` for every deeper vertex (`chain_elements`: deeper vertices are unchanged) -/
def vtxAngle (γ : ℝ) (e : Bool) : List Bool → ℝ
  | [] => sheetAngle e γ
  | _ :: _ => 0

/-- **`sideOKE_of_paths`** — `SideOKE` of C01j for one side of a chain, decay tree `t` of ANY depth: if the row angles of the alignment
D-functions are `θa f = −sideAngle γ e (path of f)` (what `alignment_hal` produces from the route relation of `chain_elements`) and the
row angles of the vertices are `Θ a = vtxAngle γ e (path of a)` (`lower_vertex_sheet` at the daughter's own vertex, `0` below). -/
theorem sideOKE_of_paths (γ : ℝ) (e : Bool) (Θ θa : Nat → ℝ) (t : CTree)
    (hθ : ∀ x ∈ finalPaths t, θa x.1 = -(sideAngle γ e x.2))
    (hΘ : ∀ x ∈ decPaths t, Θ x.1 = vtxAngle γ e x.2) : SideOKE γ e Θ θa t := by
  cases t with
  | fin f N =>
    have := hθ (f, []) (by simp [finalPaths])
    simp only [SideOKE]
    rw [this]
    rfl
  | dec a N d1 d2 =>
    refine ⟨?_, ?_, ?_⟩
    · rw [hΘ (a, []) (by simp [decPaths])]
      exact rotZ_sheetAngle e γ
    · intro d hd
      rcases List.mem_append.mp hd with hd | hd
      · obtain ⟨path, hp⟩ := decs_have_paths d1 d hd
        rw [hΘ (d.1, false :: path) (by
          simp only [decPaths, List.mem_cons, List.mem_append, List.mem_map]
          exact Or.inr (Or.inl ⟨(d.1, path), hp, rfl⟩))]
        exact rotZ_zero
      · obtain ⟨path, hp⟩ := decs_have_paths d2 d hd
        rw [hΘ (d.1, true :: path) (by
          simp only [decPaths, List.mem_cons, List.mem_append, List.mem_map]
          exact Or.inr (Or.inr ⟨(d.1, path), hp, rfl⟩))]
        exact rotZ_zero
    · intro f hf
      rcases List.mem_append.mp hf with hf | hf
      · obtain ⟨path, hp⟩ := finals_have_paths d1 f hf
        rw [hθ (f.1, false :: path) (by
          simp only [finalPaths, List.mem_append, List.mem_map]
          exact Or.inl ⟨(f.1, path), hp, rfl⟩)]
        exact rotZ_neg_sheet e
      · obtain ⟨path, hp⟩ := finals_have_paths d2 f hf
        rw [hθ (f.1, true :: path) (by
          simp only [finalPaths, List.mem_append, List.mem_map]
          exact Or.inr ⟨(f.1, path), hp, rfl⟩)]
        exact rotZ_neg_sheet e

/-! ## the assembly: the chains the cascade model produces -/

/-- the conclusions of `chain_elements` as one record -/
structure ChainRel (U : M2) (S S' : STree) (a a' : ℝ × ℝ × ℝ × ℝ) (γ1 γ2 : ℝ) (e1 e2 : Bool) : Prop where
  top : (stepR a'.1 a'.2.1).mul U = (rotZ γ1).mul (stepR a.1 a.2.1)
  gam : rotZ γ2 = rotZ (-γ1)
  routes : ∀ path ss ss', S.stepsAt path = some ss → S'.stepsAt path = some ss' →
    (routeM ss').mul U = (chainW γ1 γ2 e1 e2 path).mul (routeM ss)
  low1 : ∀ v v', vtxAt S [false] = some v → vtxAt S' [false] = some v' →
    v'.1.beta = v.1.beta ∧ rotZ v'.1.alpha = (signM e1).mul (rotZ (v.1.alpha - γ1))
  low2 : ∀ v v', vtxAt S [true] = some v → vtxAt S' [true] = some v' →
    v'.1.beta = v.1.beta ∧ rotZ v'.1.alpha = (signM e2).mul (rotZ (v.1.alpha - γ2))
  deep : ∀ b c path, vtxAt S' (b :: c :: path) = vtxAt S (b :: c :: path)

theorem chain_rel (U : M2) (z x z' x' : V3) (hA : AxesPair U z x z' x') (p : V4) (T1 T2 : PTree) (g : V4 → V4)
    (hG : Guards (chainBoost (.node p T1 T2) g) z x) (hG' : Guards (chainBoost (.node p T1 T2) g) z' x')
    (hbb : (g T2.p).vect = (g T1.p).vect.neg) (hB1 : SideBB (g T1.p) g T1) (hB2 : SideBB (g T2.p) g T2) :
    ∃ (γ1 γ2 : ℝ) (e1 e2 : Bool), ChainRel U (stepTree (chainBoost (.node p T1 T2) g) z x)
      (stepTree (chainBoost (.node p T1 T2) g) z' x') (topAngles (helicityAngle (chainBoost (.node p T1 T2) g) z x))
      (topAngles (helicityAngle (chainBoost (.node p T1 T2) g) z' x')) γ1 γ2 e1 e2 := by
  obtain ⟨γ1, γ2, e1, e2, h1, h2, h3, h4, h5, h6⟩ := chain_elements U z x z' x' hA p T1 T2 g hG hG' hbb hB1 hB2
  exact ⟨γ1, γ2, e1, e2, ⟨h1, h2, h3, h4, h5, h6⟩⟩

/-- the row angle of the vertex at a decay path from the top particle -/
def chainVtxAngle (γ1 γ2 : ℝ) (e1 e2 : Bool) : List Bool → ℝ
  | [] => 0
  | false :: r => vtxAngle γ1 e1 r
  | true :: r => vtxAngle γ2 e2 r

/-- the Euler angles `get_euler_angle` extracts, in the order `D_matrix_conj` takes them -/
def eul (x : M2) : ℝ × ℝ × ℝ := ((eulerOf x).alpha, (eulerOf x).beta, (eulerOf x).gamma)

/-- the row element of a vertex at path `b :: path` under a `ChainRel` -/
theorem vertex_rel (U : M2) (S S' : STree) (a a' : ℝ × ℝ × ℝ × ℝ) (γ1 γ2 : ℝ) (e1 e2 : Bool)
    (h : ChainRel U S S' a a' γ1 γ2 e1 e2) (b : Bool) (path : List Bool) (v v' : Step × Step)
    (hv : vtxAt S (b :: path) = some v) (hv' : vtxAt S' (b :: path) = some v') :
    rot3 v'.1.alpha v'.1.beta 0 = (rotZ (chainVtxAngle γ1 γ2 e1 e2 (b :: path))).mul (rot3 v.1.alpha v.1.beta 0) := by
  cases path with
  | nil =>
    cases b with
    | false =>
      obtain ⟨hβ, hα⟩ := h.low1 v v' hv hv'
      rw [hβ]
      exact (lower_vertex_sheet _ _ _ _ _ _ hα).1
    | true =>
      obtain ⟨hβ, hα⟩ := h.low2 v v' hv hv'
      rw [hβ]
      exact (lower_vertex_sheet _ _ _ _ _ _ hα).1
  | cons c r =>
    rw [h.deep b c r, hv] at hv'
    have e : v' = v := (Option.some.inj hv').symm
    have e0 : chainVtxAngle γ1 γ2 e1 e2 (b :: c :: r) = 0 := by cases b <;> rfl
    rw [e, e0, rotZ_zero, M2.one_mul]

/-- FULL: for a FIXED event the helicity-summed density `sum_amp` of the chains that `cal_angle` + `DecayGroup` produce does not depend on
the base axes from which `cal_helicity_angle` starts (hypotheses on momenta + `SpinOK` only), and hence (`C01g.boost_is_axes_change`)
`density_boost_invariant`.

Proved part — `C01j.model_density_axes_independent_tree_partial` with ALL its element hypotheses (`htop`, `hγ`, `hvert`, `hal`, `hSb`,
`hSc`, `href`) DISCHARGED on the cascade model, decay trees of ANY depth (the 3-body decay group is the case `T1 C` / `T2 C` = one final
particle and one vertex with two final particles): ONE pair of admissible base axes `(z, x)`, `(z', x')` related by `U` (`AxesPair`, exists
for all admissible axes: `C01i.axes_pair_exists`), any list `cs` of chains of the executable amplitude model, each with the index structure
of a decay tree with `spinOK` (`ChainOfTree`) and the same final particles `ids`, and for every chain the momenta `(p C, T1 C, T2 C, g C)`
from which `cal_chain_boost` / `cal_helicity_angle` work.  Hypotheses on MOMENTA: the code's `Guards` for both choices of axes, momentum
conservation at the top vertex (`hbb`) and at the vertices of the two daughters (`SideBB`).  Book-keeping hypotheses (ids ↔ decay paths):
`fpath C f` / `vpath C a` are the decay paths of the final / decaying particle ids in chain `C` (`hfb`…`hvc`: they agree with the positions
in `tb C`, `tc C`), `rt`, `rt'`, `vx`, `vx'` name the routes / vertex steps the step record holds there (`hrt`…`hvx'`), `ref f` is the
reference chain of `f` (`hrefal`: a chain that does not align `f` is its reference).  The D-functions are the model's own
`get_D_matrix_lambda` at the angles of the step record: top vertex `D(alpha_1, beta_1, 0)`, lower vertices `D(alpha_1, beta_1, 0)` of their
`outs[0]`, alignment `D(*get_euler_angle(M_ref·M_k⁻¹))`.
Missing for FULL (named): `hR` — the alignment elements are in SU(2) (`C02d.alignR_isSU2` from `C02e.route_to_rest_of_cascade`: both routes
lead to the rest frame of the same final momentum — the only place where "the chains belong to ONE event" enters); the construction of
`cs`, `fpath`, `vpath`, `rt`, `vx` from a `DecayGroup` (they are hypotheses here, satisfiable whenever the ids of each tree are pairwise
different); and the boost clause `density_boost_invariant`, which needs `AmpR.density ∘ (chains built from the angle trees)` as the `F` of
`C01g.AxesIndependent`. -/
theorem axes_independent_cascade_partial (NT : ℕ) (hNT : NT ≤ 8) (U : M2) (z x z' x' : V3) (hA : AxesPair U z x z' x')
    (N : Nat → Nat) (ids : List Nat) (cs : List AmpR.Chain)
    (hinner : ∀ C ∈ cs, ∀ x ∈ C.inner, ∀ m ∈ x.2, AllowedHel N x.1 m)
    (hNa : ∀ C ∈ cs, ∀ A ∈ C.aligns, N A.p ≤ 8) (hjv : ∀ C ∈ cs, ∀ v ∈ C.rest, N v.a ≤ 8)
    (tb tc : AmpR.Chain → CTree) (al : AmpR.Chain → Nat → Bool)
    (hshape : ∀ C ∈ cs, ChainOfTree N NT C (tb C) (tc C) (al C))
    (hperm : ∀ C ∈ cs, (((tb C).finals ++ (tc C).finals).map Prod.fst).Perm ids)
    (p : AmpR.Chain → V4) (T1 T2 : AmpR.Chain → PTree) (g : AmpR.Chain → V4 → V4)
    (hG : ∀ C ∈ cs, Guards (chainBoost (.node (p C) (T1 C) (T2 C)) (g C)) z x)
    (hG' : ∀ C ∈ cs, Guards (chainBoost (.node (p C) (T1 C) (T2 C)) (g C)) z' x')
    (hbb : ∀ C ∈ cs, (g C (T2 C).p).vect = (g C (T1 C).p).vect.neg)
    (hB1 : ∀ C ∈ cs, SideBB (g C (T1 C).p) (g C) (T1 C)) (hB2 : ∀ C ∈ cs, SideBB (g C (T2 C).p) (g C) (T2 C))
    (fpath vpath : AmpR.Chain → Nat → List Bool)
    (hfb : ∀ C ∈ cs, ∀ y ∈ finalPaths (tb C), fpath C y.1 = false :: y.2)
    (hfc : ∀ C ∈ cs, ∀ y ∈ finalPaths (tc C), fpath C y.1 = true :: y.2)
    (hvb : ∀ C ∈ cs, ∀ y ∈ decPaths (tb C), vpath C y.1 = false :: y.2)
    (hvc : ∀ C ∈ cs, ∀ y ∈ decPaths (tc C), vpath C y.1 = true :: y.2)
    (rt rt' : AmpR.Chain → Nat → Route)
    (hrt : ∀ C ∈ cs, ∀ f ∈ ids,
      (stepTree (chainBoost (.node (p C) (T1 C) (T2 C)) (g C)) z x).stepsAt (fpath C f) = some (rt C f).list)
    (hrt' : ∀ C ∈ cs, ∀ f ∈ ids,
      (stepTree (chainBoost (.node (p C) (T1 C) (T2 C)) (g C)) z' x').stepsAt (fpath C f) = some (rt' C f).list)
    (vx vx' : AmpR.Chain → Nat → Step × Step)
    (hvx : ∀ C ∈ cs, ∀ v ∈ C.rest,
      vtxAt (stepTree (chainBoost (.node (p C) (T1 C) (T2 C)) (g C)) z x) (vpath C v.a) = some (vx C v.a))
    (hvx' : ∀ C ∈ cs, ∀ v ∈ C.rest,
      vtxAt (stepTree (chainBoost (.node (p C) (T1 C) (T2 C)) (g C)) z' x') (vpath C v.a) = some (vx' C v.a))
    (ref : Nat → AmpR.Chain) (hrefmem : ∀ f ∈ ids, ref f ∈ cs)
    (hrefal : ∀ C ∈ cs, ∀ f ∈ (tb C).finals ++ (tc C).finals, al C f.1 = false → ref f.1 = C)
    (hR : ∀ C ∈ cs, ∀ A ∈ C.aligns,
      IsSU2 (alignR (rt (ref A.p) A.p).b (rt (ref A.p) A.p).r (rt C A.p).r (rt C A.p).b))
    (hvD : ∀ C ∈ cs, ∀ v ∈ C.rest, v.D = mkD3 (N v.a) ((vx C v.a).1.alpha, (vx C v.a).1.beta, 0)) :
    AmpR.densityG cs
        (fun C => AmpR.mkD NT (topAngles (helicityAngle (chainBoost (.node (p C) (T1 C) (T2 C)) (g C)) z' x')).1
          (topAngles (helicityAngle (chainBoost (.node (p C) (T1 C) (T2 C)) (g C)) z' x')).2.1 0)
        (fun C v => mkD3 (N v.a) ((vx' C v.a).1.alpha, (vx' C v.a).1.beta, 0))
        (fun C A => mkD3 (N A.p) (eul (alignR (rt' (ref A.p) A.p).b (rt' (ref A.p) A.p).r (rt' C A.p).r (rt' C A.p).b)))
        (Wigner.mRange NT) (C01e.finalsOf N ids)
      = AmpR.densityWith cs
        (fun C => AmpR.mkD NT (topAngles (helicityAngle (chainBoost (.node (p C) (T1 C) (T2 C)) (g C)) z x)).1
          (topAngles (helicityAngle (chainBoost (.node (p C) (T1 C) (T2 C)) (g C)) z x)).2.1 0)
        (fun C A => mkD3 (N A.p) (eul (alignR (rt (ref A.p) A.p).b (rt (ref A.p) A.p).r (rt C A.p).r (rt C A.p).b)))
        (Wigner.mRange NT) (C01e.finalsOf N ids) := by
  -- ONE set of `γ1 γ2 e1 e2` per chain
  have hex : ∀ C : AmpR.Chain, ∃ (γ1 γ2 : ℝ) (e1 e2 : Bool), C ∈ cs →
      ChainRel U (stepTree (chainBoost (.node (p C) (T1 C) (T2 C)) (g C)) z x)
        (stepTree (chainBoost (.node (p C) (T1 C) (T2 C)) (g C)) z' x')
        (topAngles (helicityAngle (chainBoost (.node (p C) (T1 C) (T2 C)) (g C)) z x))
        (topAngles (helicityAngle (chainBoost (.node (p C) (T1 C) (T2 C)) (g C)) z' x')) γ1 γ2 e1 e2 := by
    intro C
    by_cases hC : C ∈ cs
    · obtain ⟨γ1, γ2, e1, e2, h⟩ := chain_rel U z x z' x' hA (p C) (T1 C) (T2 C) (g C) (hG C hC) (hG' C hC) (hbb C hC)
        (hB1 C hC) (hB2 C hC)
      exact ⟨γ1, γ2, e1, e2, fun _ => h⟩
    · exact ⟨0, 0, false, false, fun h => absurd h hC⟩
  choose γ1 γ2 e1 e2 hce using hex
  -- the angle by which the route of final particle `f` in chain `C` changes
  let ω : AmpR.Chain → Nat → ℝ := fun C f => chainAngle (γ1 C) (γ2 C) (e1 C) (e2 C) (fpath C f)
  have hroute : ∀ C ∈ cs, ∀ f ∈ ids, (routeM (rt' C f).list).mul U = (rotZ (ω C f)).mul (routeM (rt C f).list) := by
    intro C hC f hf
    rw [← chainW_is_rotZ]
    exact (hce C hC).routes _ _ _ (hrt C hC f hf) (hrt' C hC f hf)
  have hfin : ∀ C ∈ cs, ∀ f ∈ (tb C).finals ++ (tc C).finals, f.1 ∈ ids :=
    fun C hC f hf => (hperm C hC).mem_iff.mp (List.mem_map.mpr ⟨f, hf, rfl⟩)
  exact model_density_axes_independent_tree_partial NT hNT U hA.su2 N ids cs hinner hNa hjv tb tc al hshape hperm
    (fun C => ((topAngles (helicityAngle (chainBoost (.node (p C) (T1 C) (T2 C)) (g C)) z' x')).1,
      (topAngles (helicityAngle (chainBoost (.node (p C) (T1 C) (T2 C)) (g C)) z' x')).2.1))
    (fun C => ((topAngles (helicityAngle (chainBoost (.node (p C) (T1 C) (T2 C)) (g C)) z x)).1,
      (topAngles (helicityAngle (chainBoost (.node (p C) (T1 C) (T2 C)) (g C)) z x)).2.1))
    γ1 γ2
    (fun C v => ((vx' C v.a).1.alpha, (vx' C v.a).1.beta, 0)) (fun C v => ((vx C v.a).1.alpha, (vx C v.a).1.beta, 0))
    (fun C a => chainVtxAngle (γ1 C) (γ2 C) (e1 C) (e2 C) (vpath C a))
    (fun C A => eul (alignR (rt' (ref A.p) A.p).b (rt' (ref A.p) A.p).r (rt' C A.p).r (rt' C A.p).b))
    (fun C A => eul (alignR (rt (ref A.p) A.p).b (rt (ref A.p) A.p).r (rt C A.p).r (rt C A.p).b))
    (fun C f => -(ω C f)) (fun f => ω (ref f) f) e1 e2
    (fun C hC => (hce C hC).top)
    (fun C hC => (hce C hC).gam)
    hvD
    (by
      intro C hC v hv
      have hmem : v.a ∈ ((tb C).decs ++ (tc C).decs).map Prod.fst := by
        rw [← (hshape C hC).rest]; exact List.mem_map.mpr ⟨v, hv, rfl⟩
      obtain ⟨d, hd, hda⟩ := List.mem_map.mp hmem
      have hpath : ∃ b path, vpath C v.a = b :: path := by
        rcases List.mem_append.mp hd with hd | hd
        · obtain ⟨path, hp⟩ := decs_have_paths (tb C) d hd
          exact ⟨false, path, by rw [← hda]; exact hvb C hC (d.1, path) hp⟩
        · obtain ⟨path, hp⟩ := decs_have_paths (tc C) d hd
          exact ⟨true, path, by rw [← hda]; exact hvc C hC (d.1, path) hp⟩
      obtain ⟨b, path, hbp⟩ := hpath
      have h1 := hvx C hC v hv
      have h1' := hvx' C hC v hv
      rw [hbp] at h1 h1'
      show rot3 (vx' C v.a).1.alpha (vx' C v.a).1.beta 0 =
        (rotZ (chainVtxAngle (γ1 C) (γ2 C) (e1 C) (e2 C) (vpath C v.a))).mul (rot3 (vx C v.a).1.alpha (vx C v.a).1.beta 0)
      rw [hbp]
      exact vertex_rel U _ _ _ _ _ _ _ _ (hce C hC) b path _ _ h1 h1')
    (by
      intro C hC A hA'
      have hmem : A.p ∈ (((tb C).finals ++ (tc C).finals).filter fun f => al C f.1).map Prod.fst := by
        rw [← (hshape C hC).aligns]; exact List.mem_map.mpr ⟨A, hA', rfl⟩
      obtain ⟨f, hf, hfa⟩ := List.mem_map.mp hmem
      have hid : A.p ∈ ids := by rw [← hfa]; exact hfin C hC f (List.mem_filter.mp hf).1
      exact alignment_hal U hA.su2 (rt (ref A.p) A.p) (rt' (ref A.p) A.p) (rt C A.p) (rt' C A.p) (ω C A.p) (ω (ref A.p) A.p)
        (hR C hC A hA') (hroute (ref A.p) (hrefmem A.p hid) A.p hid) (hroute C hC A.p hid))
    (by
      intro C hC
      apply sideOKE_of_paths
      · intro y hy
        show -(chainAngle (γ1 C) (γ2 C) (e1 C) (e2 C) (fpath C y.1)) = _
        rw [hfb C hC y hy]; rfl
      · intro y hy
        show chainVtxAngle (γ1 C) (γ2 C) (e1 C) (e2 C) (vpath C y.1) = _
        rw [hvb C hC y hy]; rfl)
    (by
      intro C hC
      apply sideOKE_of_paths
      · intro y hy
        show -(chainAngle (γ1 C) (γ2 C) (e1 C) (e2 C) (fpath C y.1)) = _
        rw [hfc C hC y hy]; rfl
      · intro y hy
        show chainVtxAngle (γ1 C) (γ2 C) (e1 C) (e2 C) (vpath C y.1) = _
        rw [hvc C hC y hy]; rfl)
    (by
      intro C hC f hf ha
      show (rotZ (-(ω C f.1))).mul (rotZ (ω (ref f.1) f.1)) = M2.one
      rw [hrefal C hC f hf ha]
      exact href_of_own_route _)

-- JOINT non-vacuity of ALL hypotheses of `axes_independent_cascade_partial`: the two-body event `A → a b` of `Props/C02e.lean`
-- (`exEvent`, momenta `(2, ±1, 0, 0)`, laboratory axes, any `U` with `AxesPair`), one reference chain `top(1/2) → a(1/2) b(0)` built
-- by `C01j.mkChain`; ids `1 ↦ [false]`, `2 ↦ [true]`, routes = the steps the step record holds
example (total : LineShapeR.Cx) (Htop Dtop : Int → Int → LineShapeR.Cx) (Hf Df Da : Nat → Int → Int → LineShapeR.Cx) (U : M2)
    (hA : AxesPair U ⟨0, 0, 1⟩ ⟨1, 0, 0⟩ ⟨0, 0, 1⟩ ⟨1, 0, 0⟩) : True := by
  let N : Nat → Nat := fun p => if p = 1 then 1 else 0
  let C := mkChain total [] 0 Htop Dtop Hf Df Da (.fin 1 1) (.fin 2 0) (fun _ => false)
  have hC : ChainOfTree N 1 C (.fin 1 1) (.fin 2 0) (fun _ => false) :=
    mkChain_shape _ 1 total [] 0 Htop Dtop Hf Df Da (.fin 1 1) (.fin 2 0) (fun _ => false) rfl rfl (by decide)
      (by simp [CTree.decs, CTree.finals, N]) (by simp [CTree.decs, CTree.finals, N]) (by simp [CTree.decs, CTree.finals])
  let r : Nat → Route := fun f =>
    match calSteps exEvent ⟨0, 0, 1⟩ ⟨1, 0, 0⟩ with
    | .node s1 s2 _ _ => (if f = 1 then s1 else s2, [])
    | .leaf => (⟨0, 0, 0⟩, [])
  have hg : ∀ q : V4, (⟨4, 0, 0, 0⟩ : V4).restVector q = q := (good_top 4).inv
  have hrt : ∀ C' ∈ [C], ∀ f ∈ [1, 2],
      (stepTree (chainBoost (.node exEvent.total (inferMomentum (.leaf ⟨2, 1, 0, 0⟩)) (inferMomentum (.leaf ⟨2, -1, 0, 0⟩)))
        (fun q => exEvent.total.restVector q)) ⟨0, 0, 1⟩ ⟨1, 0, 0⟩).stepsAt (if f = 1 then [false] else [true]) =
        some (r f).list := by
    intro _ _ f hf
    simp only [List.mem_cons, List.not_mem_nil, or_false] at hf
    rcases hf with rfl | rfl <;> rfl
  have := axes_independent_cascade_partial 1 (by norm_num) U _ _ _ _ hA N [1, 2] [C]
    (fun C' hC' x hx => by
      rw [List.mem_singleton.mp hC'] at hx
      simp [C, mkChain, CTree.decs, CTree.finals] at hx)
    (fun C' hC' A hA' => by
      rw [List.mem_singleton.mp hC'] at hA'
      simp [C, mkChain, CTree.finals] at hA')
    (fun C' hC' v hv => by
      rw [List.mem_singleton.mp hC'] at hv
      simp [C, mkChain, vertsOf] at hv)
    (fun _ => .fin 1 1) (fun _ => .fin 2 0) (fun _ _ => false)
    (fun C' hC' => by rw [List.mem_singleton.mp hC']; exact hC)
    (fun _ _ => by simp [CTree.finals])
    (fun _ => exEvent.total) (fun _ => inferMomentum (.leaf ⟨2, 1, 0, 0⟩)) (fun _ => inferMomentum (.leaf ⟨2, -1, 0, 0⟩))
    (fun _ q => exEvent.total.restVector q)
    (fun _ _ => exEvent_guards) (fun _ _ => exEvent_guards)
    (fun _ _ => by
      simp only [exEvent_total, hg, inferMomentum, PTree.p]
      ext <;> simp [V4.vect, V3.neg])
    (fun _ _ => trivial) (fun _ _ => trivial)
    (fun _ f => if f = 1 then [false] else [true]) (fun _ _ => [])
    (fun _ _ y hy => by
      simp only [finalPaths, List.mem_singleton] at hy
      subst hy; rfl)
    (fun _ _ y hy => by
      simp only [finalPaths, List.mem_singleton] at hy
      subst hy; rfl)
    (fun _ _ y hy => by simp [decPaths] at hy)
    (fun _ _ y hy => by simp [decPaths] at hy)
    (fun _ => r) (fun _ => r) hrt hrt
    (fun _ _ => (⟨0, 0, 0⟩, ⟨0, 0, 0⟩)) (fun _ _ => (⟨0, 0, 0⟩, ⟨0, 0, 0⟩))
    (fun C' hC' v hv => by
      rw [List.mem_singleton.mp hC'] at hv
      simp [C, mkChain, vertsOf] at hv)
    (fun C' hC' v hv => by
      rw [List.mem_singleton.mp hC'] at hv
      simp [C, mkChain, vertsOf] at hv)
    (fun _ => C) (fun _ _ => List.mem_singleton.mpr rfl)
    (fun C' hC' _ _ _ => (List.mem_singleton.mp hC').symm)
    (fun C' hC' A hA' => by
      rw [List.mem_singleton.mp hC'] at hA'
      simp [C, mkChain, CTree.finals] at hA')
    (fun C' hC' v hv => by
      rw [List.mem_singleton.mp hC'] at hv
      simp [C, mkChain, vertsOf] at hv)
  trivial

/-! ## the id ↔ decay-path tables, the routes and `hR` CONSTRUCTED from the trees and the event -/

/-- first entry with key `f` (`[]` if there is none) -/
def lookupPath : List (Nat × List Bool) → Nat → List Bool
  | [], _ => []
  | y :: l, f => if y.1 = f then y.2 else lookupPath l f

theorem lookupPath_mem (l : List (Nat × List Bool)) (hnd : (l.map Prod.fst).Nodup) : ∀ y ∈ l, lookupPath l y.1 = y.2 := by
  induction l with
  | nil => intro y hy; simp at hy
  | cons a l ih =>
    intro y hy
    simp only [List.map_cons, List.nodup_cons] at hnd
    rcases List.mem_cons.mp hy with rfl | hy
    · simp [lookupPath]
    · have hne : a.1 ≠ y.1 := fun h => hnd.1 (by rw [h]; exact List.mem_map.mpr ⟨y, hy, rfl⟩)
      simp only [lookupPath, if_neg hne]
      exact ih hnd.2 y hy

theorem map_cons_keys (b : Bool) (l : List (Nat × List Bool)) :
    (l.map fun x => (x.1, b :: x.2)).map Prod.fst = l.map Prod.fst := by
  rw [List.map_map]; rfl

theorem finalPaths_keys (t : CTree) : (finalPaths t).map Prod.fst = t.finals.map Prod.fst := by
  induction t with
  | fin i N => rfl
  | dec i N d1 d2 ih1 ih2 =>
    simp only [finalPaths, CTree.finals, List.map_append, map_cons_keys, ih1, ih2]

theorem decPaths_keys (t : CTree) : (decPaths t).map Prod.fst = t.decs.map Prod.fst := by
  induction t with
  | fin i N => rfl
  | dec i N d1 d2 ih1 ih2 =>
    simp only [decPaths, CTree.decs, List.map_cons, List.map_append, map_cons_keys, ih1, ih2]

/-- decay path (from the top particle) of a final-particle id of the chain `top → tb tc` -/
def fpathOf (tb tc : CTree) (f : Nat) : List Bool :=
  lookupPath (((finalPaths tb).map fun x => (x.1, false :: x.2)) ++ ((finalPaths tc).map fun x => (x.1, true :: x.2))) f

/-- decay path (from the top particle) of a decaying-particle id of the chain `top → tb tc` -/
def vpathOf (tb tc : CTree) (a : Nat) : List Bool :=
  lookupPath (((decPaths tb).map fun x => (x.1, false :: x.2)) ++ ((decPaths tc).map fun x => (x.1, true :: x.2))) a

theorem fpathOf_spec (tb tc : CTree) (hnd : ((tb.finals ++ tc.finals).map Prod.fst).Nodup) :
    (∀ y ∈ finalPaths tb, fpathOf tb tc y.1 = false :: y.2) ∧ (∀ y ∈ finalPaths tc, fpathOf tb tc y.1 = true :: y.2) := by
  have hk : ((((finalPaths tb).map fun x => (x.1, false :: x.2)) ++
      ((finalPaths tc).map fun x => (x.1, true :: x.2))).map Prod.fst).Nodup := by
    rw [List.map_append, map_cons_keys, map_cons_keys, finalPaths_keys, finalPaths_keys, ← List.map_append]; exact hnd
  constructor
  · intro y hy
    exact lookupPath_mem _ hk (y.1, false :: y.2) (List.mem_append_left _ (List.mem_map.mpr ⟨y, hy, rfl⟩))
  · intro y hy
    exact lookupPath_mem _ hk (y.1, true :: y.2) (List.mem_append_right _ (List.mem_map.mpr ⟨y, hy, rfl⟩))

theorem vpathOf_spec (tb tc : CTree) (hnd : ((tb.decs ++ tc.decs).map Prod.fst).Nodup) :
    (∀ y ∈ decPaths tb, vpathOf tb tc y.1 = false :: y.2) ∧ (∀ y ∈ decPaths tc, vpathOf tb tc y.1 = true :: y.2) := by
  have hk : ((((decPaths tb).map fun x => (x.1, false :: x.2)) ++
      ((decPaths tc).map fun x => (x.1, true :: x.2))).map Prod.fst).Nodup := by
    rw [List.map_append, map_cons_keys, map_cons_keys, decPaths_keys, decPaths_keys, ← List.map_append]; exact hnd
  constructor
  · intro y hy
    exact lookupPath_mem _ hk (y.1, false :: y.2) (List.mem_append_left _ (List.mem_map.mpr ⟨y, hy, rfl⟩))
  · intro y hy
    exact lookupPath_mem _ hk (y.1, true :: y.2) (List.mem_append_right _ (List.mem_map.mpr ⟨y, hy, rfl⟩))

/-- the route the step record holds along a decay path (a dummy if the path does not end at a final particle) -/
def routeOf (S : STree) (path : List Bool) : Route :=
  match S.stepsAt path with
  | some (s :: ss) => (s, ss)
  | _ => (⟨0, 0, 0⟩, [])

/-- the two steps the step record holds at a vertex (a dummy if the path does not end at a vertex) -/
def vtxOf (S : STree) (path : List Bool) : Step × Step := (vtxAt S path).getD (⟨0, 0, 0⟩, ⟨0, 0, 0⟩)

/-- a decay path that ends at a final particle of the event has a step list in the step record, whatever the axes -/
theorem steps_of_leafAt (t : MTree) : ∀ (path : List Bool) (q : V4) (g : V4 → V4) (z x : V3), MTree.leafAt t path = some q →
    ∃ ss, (stepTree (chainBoost (inferMomentum t) g) z x).stepsAt path = some ss ∧ (path ≠ [] → ss ≠ []) := by
  induction t with
  | leaf p0 =>
    intro path q g z x h
    cases path with
    | nil => exact ⟨[], rfl, fun h => absurd rfl h⟩
    | cons b r => simp [MTree.leafAt] at h
  | node a b iha ihb =>
    intro path q g z x h
    cases path with
    | nil => simp [MTree.leafAt] at h
    | cons c r =>
      cases c with
      | false =>
        simp only [MTree.leafAt] at h
        obtain ⟨ss, hss, _⟩ := iha r q (fun k => (g (inferMomentum a).p).restVector (g k)) (g (inferMomentum a).p).vect
          (angleZxZGetx z x (g (inferMomentum a).p).vect).x2 h
        simp only [inferMomentum, chainBoost, stepTree, STree.stepsAt]
        rw [hss]
        simp only [Option.map_some]
        exact ⟨_, rfl, fun _ => List.cons_ne_nil _ _⟩
      | true =>
        simp only [MTree.leafAt] at h
        obtain ⟨ss, hss, _⟩ := ihb r q (fun k => (g (inferMomentum b).p).restVector (g k)) (g (inferMomentum b).p).vect
          (angleZxZGetx z x (g (inferMomentum b).p).vect).x2 h
        simp only [inferMomentum, chainBoost, stepTree, STree.stepsAt]
        rw [hss]
        simp only [Option.map_some]
        exact ⟨_, rfl, fun _ => List.cons_ne_nil _ _⟩

theorem routeOf_spec (S : STree) (path : List Bool) (ss : List Step) (h : S.stepsAt path = some ss) (hne : ss ≠ []) :
    S.stepsAt path = some (routeOf S path).list ∧ S.routeAt path = some (routeOf S path) := by
  cases ss with
  | nil => exact absurd rfl hne
  | cons s l =>
    have e : routeOf S path = (s, l) := by unfold routeOf; rw [h]
    rw [e]
    exact ⟨h, by unfold STree.routeAt; rw [h]⟩

/-- the decay path ends at a decaying particle of the event -/
def MDecaysAt : MTree → List Bool → Prop
  | .leaf _, _ => False
  | .node _ _, [] => True
  | .node a _, false :: r => MDecaysAt a r
  | .node _ b, true :: r => MDecaysAt b r

theorem vtx_of_decaysAt (t : MTree) : ∀ (path : List Bool) (g : V4 → V4) (z x : V3), MDecaysAt t path →
    ∃ v, vtxAt (stepTree (chainBoost (inferMomentum t) g) z x) path = some v := by
  induction t with
  | leaf p0 => intro path g z x h; cases path <;> simp [MDecaysAt] at h
  | node a b iha ihb =>
    intro path g z x h
    cases path with
    | nil => exact ⟨_, rfl⟩
    | cons c r =>
      cases c with
      | false =>
        simp only [MDecaysAt] at h
        obtain ⟨v, hv⟩ := iha r _ _ _ h
        exact ⟨v, by simp only [inferMomentum, chainBoost, stepTree, vtxAt]; exact hv⟩
      | true =>
        simp only [MDecaysAt] at h
        obtain ⟨v, hv⟩ := ihb r _ _ _ h
        exact ⟨v, by simp only [inferMomentum, chainBoost, stepTree, vtxAt]; exact hv⟩

theorem vtxOf_spec (S : STree) (path : List Bool) (v : Step × Step) (h : vtxAt S path = some v) :
    vtxAt S path = some (vtxOf S path) := by
  unfold vtxOf; rw [h]; rfl

/-- FULL: as `axes_independent_cascade_partial`.

Proved part — `axes_independent_cascade_partial` for ONE EVENT, with its book-keeping hypotheses and `hR` DISCHARGED: the event is given, per
chain, as the tree of final momenta `MTree.node (A C) (B C)` in the input frame (what `cal_angle` receives: `infer_momentum`, `add_mass`,
`cal_chain_boost` = `CascadeR.calChainBoost`), all chains with the same total momentum `P` and the same final momenta `q f` by id (`hleaf`:
ONE event); the id ↔ decay-path tables are BUILT from the trees (`fpathOf`, `vpathOf`; correct because the ids of a tree are pairwise
different: `hndf`, `hndd`), the routes and vertex steps are READ OFF the step record (`routeOf`, `vtxOf`), and the alignment elements are in
SU(2) by `C02e.route_to_rest_of_cascade` + `C02d.alignR_isSU2`.  Decay trees of ANY depth, `2j ≤ 8`.  Hypotheses left: on MOMENTA (the code's
`Guards` of every chain at both choices of axes; back-to-back daughters at the top vertex and the two level-2 vertices in the frames the
code computes: `hbb`, `SideBB`), `ChainOfTree` incl. `spinOK`, `hdec` (the decaying ids sit at decaying nodes of the event tree), `hrefal`
(a chain that does not align `f` is the reference chain of `f`), and `hvD` (the lower-vertex D-functions of the chains at the first axes are
`get_D_matrix_lambda(alpha_1, beta_1, 0)` of the step record).
Missing for FULL (named): the boost clause — `AmpR.density ∘ (chains built from the angle trees)` as the `F` of `C01g.AxesIndependent`, and
the construction of `cs` itself (`C01j.mkChain`) from a `DecayGroup`; `hbb` / `SideBB` from momentum conservation in the INPUT frame
(`rest_vector` is linear on the regular branch: `C11`). -/
theorem axes_independent_event_partial (NT : ℕ) (hNT : NT ≤ 8) (U : M2) (z x z' x' : V3) (hA : AxesPair U z x z' x')
    (N : Nat → Nat) (ids : List Nat) (cs : List AmpR.Chain)
    (hinner : ∀ C ∈ cs, ∀ x ∈ C.inner, ∀ m ∈ x.2, AllowedHel N x.1 m)
    (hNa : ∀ C ∈ cs, ∀ A ∈ C.aligns, N A.p ≤ 8) (hjv : ∀ C ∈ cs, ∀ v ∈ C.rest, N v.a ≤ 8)
    (tb tc : AmpR.Chain → CTree) (al : AmpR.Chain → Nat → Bool)
    (hshape : ∀ C ∈ cs, ChainOfTree N NT C (tb C) (tc C) (al C))
    (hperm : ∀ C ∈ cs, (((tb C).finals ++ (tc C).finals).map Prod.fst).Perm ids)
    (hndf : ∀ C ∈ cs, (((tb C).finals ++ (tc C).finals).map Prod.fst).Nodup)
    (hndd : ∀ C ∈ cs, (((tb C).decs ++ (tc C).decs).map Prod.fst).Nodup)
    (A B : AmpR.Chain → MTree) (P : V4) (htot : ∀ C ∈ cs, (MTree.node (A C) (B C)).total = P)
    (q : Nat → V4)
    (hleaf : ∀ C ∈ cs, ∀ f ∈ ids, MTree.leafAt (.node (A C) (B C)) (fpathOf (tb C) (tc C) f) = some (q f))
    (hdec : ∀ C ∈ cs, ∀ v ∈ C.rest, MDecaysAt (.node (A C) (B C)) (vpathOf (tb C) (tc C) v.a))
    (hG : ∀ C ∈ cs, Guards (calChainBoost (.node (A C) (B C))) z x)
    (hG' : ∀ C ∈ cs, Guards (calChainBoost (.node (A C) (B C))) z' x')
    (hbb : ∀ C ∈ cs, (P.restVector (B C).total).vect = (P.restVector (A C).total).vect.neg)
    (hB1 : ∀ C ∈ cs, SideBB (P.restVector (A C).total) (fun k => P.restVector k) (inferMomentum (A C)))
    (hB2 : ∀ C ∈ cs, SideBB (P.restVector (B C).total) (fun k => P.restVector k) (inferMomentum (B C)))
    (ref : Nat → AmpR.Chain) (hrefmem : ∀ f ∈ ids, ref f ∈ cs)
    (hrefal : ∀ C ∈ cs, ∀ f ∈ (tb C).finals ++ (tc C).finals, al C f.1 = false → ref f.1 = C)
    (hvD : ∀ C ∈ cs, ∀ v ∈ C.rest, v.D = mkD3 (N v.a)
      ((vtxOf (calSteps (.node (A C) (B C)) z x) (vpathOf (tb C) (tc C) v.a)).1.alpha,
        (vtxOf (calSteps (.node (A C) (B C)) z x) (vpathOf (tb C) (tc C) v.a)).1.beta, 0)) :
    let rt : AmpR.Chain → Nat → Route := fun C f => routeOf (calSteps (.node (A C) (B C)) z x) (fpathOf (tb C) (tc C) f)
    let rt' : AmpR.Chain → Nat → Route := fun C f => routeOf (calSteps (.node (A C) (B C)) z' x') (fpathOf (tb C) (tc C) f)
    AmpR.densityG cs
        (fun C => AmpR.mkD NT (topAngles (helicityAngle (calChainBoost (.node (A C) (B C))) z' x')).1
          (topAngles (helicityAngle (calChainBoost (.node (A C) (B C))) z' x')).2.1 0)
        (fun C v => mkD3 (N v.a) ((vtxOf (calSteps (.node (A C) (B C)) z' x') (vpathOf (tb C) (tc C) v.a)).1.alpha,
          (vtxOf (calSteps (.node (A C) (B C)) z' x') (vpathOf (tb C) (tc C) v.a)).1.beta, 0))
        (fun C A => mkD3 (N A.p) (eul (alignR (rt' (ref A.p) A.p).b (rt' (ref A.p) A.p).r (rt' C A.p).r (rt' C A.p).b)))
        (Wigner.mRange NT) (C01e.finalsOf N ids)
      = AmpR.densityWith cs
        (fun C => AmpR.mkD NT (topAngles (helicityAngle (calChainBoost (.node (A C) (B C))) z x)).1
          (topAngles (helicityAngle (calChainBoost (.node (A C) (B C))) z x)).2.1 0)
        (fun C A => mkD3 (N A.p) (eul (alignR (rt (ref A.p) A.p).b (rt (ref A.p) A.p).r (rt C A.p).r (rt C A.p).b)))
        (Wigner.mRange NT) (C01e.finalsOf N ids) := by
  intro rt rt'
  -- the routes exist and are the recorded ones
  have hsteps : ∀ (bz bx : V3), ∀ C ∈ cs, ∀ f ∈ ids,
      (calSteps (.node (A C) (B C)) bz bx).stepsAt (fpathOf (tb C) (tc C) f) =
        some (routeOf (calSteps (.node (A C) (B C)) bz bx) (fpathOf (tb C) (tc C) f)).list ∧
      (calSteps (.node (A C) (B C)) bz bx).routeAt (fpathOf (tb C) (tc C) f) =
        some (routeOf (calSteps (.node (A C) (B C)) bz bx) (fpathOf (tb C) (tc C) f)) := by
    intro bz bx C hC f hf
    have hl := hleaf C hC f hf
    obtain ⟨ss, hss, hne⟩ := steps_of_leafAt (.node (A C) (B C)) _ (q f)
      (fun k => (inferMomentum (.node (A C) (B C))).p.restVector k) bz bx hl
    have hp : fpathOf (tb C) (tc C) f ≠ [] := by
      intro h0; rw [h0] at hl; simp [MTree.leafAt] at hl
    exact routeOf_spec _ _ ss hss (hne hp)
  have hvtx : ∀ (bz bx : V3), ∀ C ∈ cs, ∀ v ∈ C.rest,
      vtxAt (calSteps (.node (A C) (B C)) bz bx) (vpathOf (tb C) (tc C) v.a) =
        some (vtxOf (calSteps (.node (A C) (B C)) bz bx) (vpathOf (tb C) (tc C) v.a)) := by
    intro bz bx C hC v hv
    obtain ⟨w, hw⟩ := vtx_of_decaysAt (.node (A C) (B C)) _
      (fun k => (inferMomentum (.node (A C) (B C))).p.restVector k) bz bx (hdec C hC v hv)
    exact vtxOf_spec _ _ w hw
  exact axes_independent_cascade_partial NT hNT U z x z' x' hA N ids cs hinner hNa hjv tb tc al hshape hperm
    (fun C => (MTree.node (A C) (B C)).total) (fun C => inferMomentum (A C)) (fun C => inferMomentum (B C))
    (fun C k => (inferMomentum (.node (A C) (B C))).p.restVector k)
    hG hG'
    (fun C hC => by
      have := hbb C hC
      simp only [infer_p, htot C hC]
      exact this)
    (fun C hC => by
      have := hB1 C hC
      simp only [infer_p, htot C hC]
      exact this)
    (fun C hC => by
      have := hB2 C hC
      simp only [infer_p, htot C hC]
      exact this)
    (fun C => fpathOf (tb C) (tc C)) (fun C => vpathOf (tb C) (tc C))
    (fun C hC => (fpathOf_spec (tb C) (tc C) (hndf C hC)).1) (fun C hC => (fpathOf_spec (tb C) (tc C) (hndf C hC)).2)
    (fun C hC => (vpathOf_spec (tb C) (tc C) (hndd C hC)).1) (fun C hC => (vpathOf_spec (tb C) (tc C) (hndd C hC)).2)
    rt rt'
    (fun C hC f hf => (hsteps z x C hC f hf).1) (fun C hC f hf => (hsteps z' x' C hC f hf).1)
    (fun C a => vtxOf (calSteps (.node (A C) (B C)) z x) (vpathOf (tb C) (tc C) a))
    (fun C a => vtxOf (calSteps (.node (A C) (B C)) z' x') (vpathOf (tb C) (tc C) a))
    (hvtx z x) (hvtx z' x')
    ref hrefmem hrefal
    (by
      intro C hC Al hAl
      have hmem : Al.p ∈ (((tb C).finals ++ (tc C).finals).filter fun f => al C f.1).map Prod.fst := by
        rw [← (hshape C hC).aligns]; exact List.mem_map.mpr ⟨Al, hAl, rfl⟩
      obtain ⟨f, hf, hfa⟩ := List.mem_map.mp hmem
      have hid : Al.p ∈ ids := by
        rw [← hfa]
        exact (hperm C hC).mem_iff.mp (List.mem_map.mpr ⟨f, (List.mem_filter.mp hf).1, rfl⟩)
      have hR0 := hrefmem Al.p hid
      obtain ⟨h1, hm⟩ := route_to_rest_of_cascade (.node (A (ref Al.p)) (B (ref Al.p))) trivial z x hA.ok.1 hA.ok.2
        (hG _ hR0) _ (q Al.p) (rt (ref Al.p) Al.p) (hleaf _ hR0 Al.p hid) (hsteps z x _ hR0 Al.p hid).2
      obtain ⟨h2, _⟩ := route_to_rest_of_cascade (.node (A C) (B C)) trivial z x hA.ok.1 hA.ok.2
        (hG C hC) _ (q Al.p) (rt C Al.p) (hleaf C hC Al.p hid) (hsteps z x C hC Al.p hid).2
      rw [htot _ hR0] at h1 hm
      rw [htot C hC] at h2
      exact alignR_isSU2 _ _ (ne_of_gt hm) _ _ h1 h2)
    hvD

-- JOINT non-vacuity of ALL hypotheses of `axes_independent_event_partial`: the two-body event `A → a b` of `Props/C02e.lean` (momenta
-- `(2, ±1, 0, 0)`, laboratory axes, any `U` with `AxesPair`), one reference chain `top(1/2) → a(1/2) b(0)` built by `C01j.mkChain`
example (total : LineShapeR.Cx) (Htop Dtop : Int → Int → LineShapeR.Cx) (Hf Df Da : Nat → Int → Int → LineShapeR.Cx) (U : M2)
    (hA : AxesPair U ⟨0, 0, 1⟩ ⟨1, 0, 0⟩ ⟨0, 0, 1⟩ ⟨1, 0, 0⟩) : True := by
  let N : Nat → Nat := fun p => if p = 1 then 1 else 0
  let C := mkChain total [] 0 Htop Dtop Hf Df Da (.fin 1 1) (.fin 2 0) (fun _ => false)
  have hC : ChainOfTree N 1 C (.fin 1 1) (.fin 2 0) (fun _ => false) :=
    mkChain_shape _ 1 total [] 0 Htop Dtop Hf Df Da (.fin 1 1) (.fin 2 0) (fun _ => false) rfl rfl (by decide)
      (by simp [CTree.decs, CTree.finals, N]) (by simp [CTree.decs, CTree.finals, N]) (by simp [CTree.decs, CTree.finals])
  have hg : ∀ k : V4, (⟨4, 0, 0, 0⟩ : V4).restVector k = k := (good_top 4).inv
  have := axes_independent_event_partial 1 (by norm_num) U _ _ _ _ hA N [1, 2] [C]
    (fun C' hC' x hx => by
      rw [List.mem_singleton.mp hC'] at hx
      simp [C, mkChain, CTree.decs, CTree.finals] at hx)
    (fun C' hC' A hA' => by
      rw [List.mem_singleton.mp hC'] at hA'
      simp [C, mkChain, CTree.finals] at hA')
    (fun C' hC' v hv => by
      rw [List.mem_singleton.mp hC'] at hv
      simp [C, mkChain, vertsOf] at hv)
    (fun _ => .fin 1 1) (fun _ => .fin 2 0) (fun _ _ => false)
    (fun C' hC' => by rw [List.mem_singleton.mp hC']; exact hC)
    (fun _ _ => by simp [CTree.finals])
    (fun _ _ => by simp [CTree.finals])
    (fun _ _ => by simp [CTree.decs])
    (fun _ => .leaf ⟨2, 1, 0, 0⟩) (fun _ => .leaf ⟨2, -1, 0, 0⟩) ⟨4, 0, 0, 0⟩
    (fun _ _ => exEvent_total)
    (fun f => if f = 1 then ⟨2, 1, 0, 0⟩ else ⟨2, -1, 0, 0⟩)
    (fun _ _ f hf => by
      simp only [List.mem_cons, List.not_mem_nil, or_false] at hf
      rcases hf with rfl | rfl <;> rfl)
    (fun C' hC' v hv => by
      rw [List.mem_singleton.mp hC'] at hv
      simp [C, mkChain, vertsOf] at hv)
    (fun _ _ => exEvent_guards) (fun _ _ => exEvent_guards)
    (fun _ _ => by
      simp only [hg, MTree.total]
      ext <;> simp [V4.vect, V3.neg])
    (fun _ _ => trivial) (fun _ _ => trivial)
    (fun _ => C) (fun _ _ => List.mem_singleton.mpr rfl)
    (fun C' hC' _ _ _ => (List.mem_singleton.mp hC').symm)
    (fun C' hC' v hv => by
      rw [List.mem_singleton.mp hC'] at hv
      simp [C, mkChain, vertsOf] at hv)
  trivial


/-! ## back-to-back daughters from momentum conservation in the INPUT frame -/

/-- `rest_vector(s, ·)` is linear (both branches of `LorentzVector.boost`) -/
theorem restVector_add (s p q : V4) : s.restVector (p.add q) = (s.restVector p).add (s.restVector q) := by
  unfold V4.restVector; exact TfPwaV.C11.boost_add p q _

/-- `rest_vector(P, P) = (m, 0, 0, 0)` on the code's boost branches (`|β|² > 1e-14` or exactly at rest) -/
theorem rest_self (P : V4) (h : Massive P) (hg : GuardOK P) : P.restVector P = ⟨Real.sqrt P.m2, 0, 0, 0⟩ := by
  rw [restVector_eq_lor P h hg]
  apply herm_inj
  rw [herm_lor, restM_to_rest P h]
  ext <;> simp [herm, scalarM, Cx.zero]

/-- **`bb_of_sum`** — a particle `R = a + b` (massive, on the code's boost branches): in the frame `rest_vector(R, ·)` the code computes,
the two daughters are back to back (`rest_vector` is linear: `C11.boost_add`) -/
theorem bb_of_sum (R a b : V4) (h : Massive R) (hg : GuardOK R) (hs : a.add b = R) :
    (R.restVector b).vect = (R.restVector a).vect.neg := by
  have e : (R.restVector a).add (R.restVector b) = ⟨Real.sqrt R.m2, 0, 0, 0⟩ := by
    rw [← restVector_add, hs, rest_self R h hg]
  have ex := congrArg V4.x e
  have ey := congrArg V4.y e
  have ez := congrArg V4.z e
  simp only [V4.add] at ex ey ez
  ext <;> simp only [V4.vect, V3.neg] <;> linarith

/-- `SideBB` for a daughter `A` of the top particle (total momentum `P`) from the guards: if `A` decays, its momentum in the rest frame of
the top particle is massive, on the regular boost branch, and `|vect| ≥ 1e-14` -/
theorem sideBB_of_guards (P : V4) (A : MTree)
    (h : MDecays A → Massive (P.restVector A.total) ∧ eps < (P.restVector A.total).boostVector.norm2 ∧
      eps ≤ (P.restVector A.total).vect.norm) :
    SideBB (P.restVector A.total) (fun k => P.restVector k) (inferMomentum A) := by
  cases A with
  | leaf p0 => trivial
  | node A1 A2 =>
    obtain ⟨hM, hreg, hn⟩ := h trivial
    refine ⟨hn, ?_⟩
    simp only [infer_p]
    exact bb_of_sum _ _ _ hM (Or.inl hreg) (by rw [← restVector_add]; rfl)

/-- FULL: as `axes_independent_cascade_partial`.

Proved part — `axes_independent_event_partial` with the back-to-back hypotheses (`hbb`, `SideBB`) DERIVED from momentum conservation in the
input frame (`bb_of_sum`; every decaying particle's momentum is the sum of the final momenta below it: `infer_momentum`), i.e. with
hypotheses on momenta that are GUARDS only: `Guards` of every chain at both choices of axes, the total momentum `P` massive and on the code's
boost branches (`GuardOK`), and `|vect r| ≥ 1e-14` for a decaying daughter of the top particle (the second `cross_unit` guard of its
axes).  The other hypotheses are those of `axes_independent_event_partial`. -/
theorem axes_independent_event_guards_partial (NT : ℕ) (hNT : NT ≤ 8) (U : M2) (z x z' x' : V3) (hA : AxesPair U z x z' x')
    (N : Nat → Nat) (ids : List Nat) (cs : List AmpR.Chain)
    (hinner : ∀ C ∈ cs, ∀ x ∈ C.inner, ∀ m ∈ x.2, AllowedHel N x.1 m)
    (hNa : ∀ C ∈ cs, ∀ A ∈ C.aligns, N A.p ≤ 8) (hjv : ∀ C ∈ cs, ∀ v ∈ C.rest, N v.a ≤ 8)
    (tb tc : AmpR.Chain → CTree) (al : AmpR.Chain → Nat → Bool)
    (hshape : ∀ C ∈ cs, ChainOfTree N NT C (tb C) (tc C) (al C))
    (hperm : ∀ C ∈ cs, (((tb C).finals ++ (tc C).finals).map Prod.fst).Perm ids)
    (hndf : ∀ C ∈ cs, (((tb C).finals ++ (tc C).finals).map Prod.fst).Nodup)
    (hndd : ∀ C ∈ cs, (((tb C).decs ++ (tc C).decs).map Prod.fst).Nodup)
    (A B : AmpR.Chain → MTree) (P : V4) (htot : ∀ C ∈ cs, (MTree.node (A C) (B C)).total = P)
    (q : Nat → V4)
    (hleaf : ∀ C ∈ cs, ∀ f ∈ ids, MTree.leafAt (.node (A C) (B C)) (fpathOf (tb C) (tc C) f) = some (q f))
    (hdec : ∀ C ∈ cs, ∀ v ∈ C.rest, MDecaysAt (.node (A C) (B C)) (vpathOf (tb C) (tc C) v.a))
    (hG : ∀ C ∈ cs, Guards (calChainBoost (.node (A C) (B C))) z x)
    (hG' : ∀ C ∈ cs, Guards (calChainBoost (.node (A C) (B C))) z' x')
    (hP : Massive P) (hgP : GuardOK P)
    (hn1 : ∀ C ∈ cs, MDecays (A C) → eps ≤ (P.restVector (A C).total).vect.norm)
    (hn2 : ∀ C ∈ cs, MDecays (B C) → eps ≤ (P.restVector (B C).total).vect.norm)
    (ref : Nat → AmpR.Chain) (hrefmem : ∀ f ∈ ids, ref f ∈ cs)
    (hrefal : ∀ C ∈ cs, ∀ f ∈ (tb C).finals ++ (tc C).finals, al C f.1 = false → ref f.1 = C)
    (hvD : ∀ C ∈ cs, ∀ v ∈ C.rest, v.D = mkD3 (N v.a)
      ((vtxOf (calSteps (.node (A C) (B C)) z x) (vpathOf (tb C) (tc C) v.a)).1.alpha,
        (vtxOf (calSteps (.node (A C) (B C)) z x) (vpathOf (tb C) (tc C) v.a)).1.beta, 0)) :
    let rt : AmpR.Chain → Nat → Route := fun C f => routeOf (calSteps (.node (A C) (B C)) z x) (fpathOf (tb C) (tc C) f)
    let rt' : AmpR.Chain → Nat → Route := fun C f => routeOf (calSteps (.node (A C) (B C)) z' x') (fpathOf (tb C) (tc C) f)
    AmpR.densityG cs
        (fun C => AmpR.mkD NT (topAngles (helicityAngle (calChainBoost (.node (A C) (B C))) z' x')).1
          (topAngles (helicityAngle (calChainBoost (.node (A C) (B C))) z' x')).2.1 0)
        (fun C v => mkD3 (N v.a) ((vtxOf (calSteps (.node (A C) (B C)) z' x') (vpathOf (tb C) (tc C) v.a)).1.alpha,
          (vtxOf (calSteps (.node (A C) (B C)) z' x') (vpathOf (tb C) (tc C) v.a)).1.beta, 0))
        (fun C A => mkD3 (N A.p) (eul (alignR (rt' (ref A.p) A.p).b (rt' (ref A.p) A.p).r (rt' C A.p).r (rt' C A.p).b)))
        (Wigner.mRange NT) (C01e.finalsOf N ids)
      = AmpR.densityWith cs
        (fun C => AmpR.mkD NT (topAngles (helicityAngle (calChainBoost (.node (A C) (B C))) z x)).1
          (topAngles (helicityAngle (calChainBoost (.node (A C) (B C))) z x)).2.1 0)
        (fun C A => mkD3 (N A.p) (eul (alignR (rt (ref A.p) A.p).b (rt (ref A.p) A.p).r (rt C A.p).r (rt C A.p).b)))
        (Wigner.mRange NT) (C01e.finalsOf N ids) := by
  intro rt rt'
  have hg0 : ∀ C ∈ cs, Guards (chainBoost (.node ((A C).total.add (B C).total) (inferMomentum (A C)) (inferMomentum (B C)))
      (fun k => ((A C).total.add (B C).total).restVector k)) z x := fun C hC => hG C hC
  have hPC : ∀ C ∈ cs, (A C).total.add (B C).total = P := fun C hC => htot C hC
  have hrd : ∀ (T : MTree) (g : V4 → V4), RDecays (chainBoost (inferMomentum T) g) ↔ MDecays T := by
    intro T g; cases T <;> simp [inferMomentum, chainBoost, RDecays, MDecays]
  exact axes_independent_event_partial NT hNT U z x z' x' hA N ids cs hinner hNa hjv tb tc al hshape hperm hndf hndd A B P htot q
    hleaf hdec hG hG'
    (fun C hC => bb_of_sum P _ _ hP hgP (hPC C hC))
    (fun C hC => sideBB_of_guards P (A C) (fun hd => by
      have g := hg0 C hC
      simp only [chainBoost, Guards, infer_p, hPC C hC] at g
      obtain ⟨_, ok1, _, reg1, _, _, _⟩ := g
      exact ⟨⟨ok1.1, ok1.2.1⟩, reg1 ((hrd _ _).mpr hd), hn1 C hC hd⟩))
    (fun C hC => sideBB_of_guards P (B C) (fun hd => by
      have g := hg0 C hC
      simp only [chainBoost, Guards, infer_p, hPC C hC] at g
      obtain ⟨_, _, ok2, _, reg2, _, _⟩ := g
      exact ⟨⟨ok2.1, ok2.2.1⟩, reg2 ((hrd _ _).mpr hd), hn2 C hC hd⟩))
    ref hrefmem hrefal hvD

-- JOINT non-vacuity of ALL hypotheses of `axes_independent_event_guards_partial`: the two-body event `A → a b` of `Props/C02e.lean` (momenta
-- `(2, ±1, 0, 0)`, laboratory axes, any `U` with `AxesPair`), one reference chain `top(1/2) → a(1/2) b(0)` built by `C01j.mkChain`
example (total : LineShapeR.Cx) (Htop Dtop : Int → Int → LineShapeR.Cx) (Hf Df Da : Nat → Int → Int → LineShapeR.Cx) (U : M2)
    (hA : AxesPair U ⟨0, 0, 1⟩ ⟨1, 0, 0⟩ ⟨0, 0, 1⟩ ⟨1, 0, 0⟩) : True := by
  let N : Nat → Nat := fun p => if p = 1 then 1 else 0
  let C := mkChain total [] 0 Htop Dtop Hf Df Da (.fin 1 1) (.fin 2 0) (fun _ => false)
  have hC : ChainOfTree N 1 C (.fin 1 1) (.fin 2 0) (fun _ => false) :=
    mkChain_shape _ 1 total [] 0 Htop Dtop Hf Df Da (.fin 1 1) (.fin 2 0) (fun _ => false) rfl rfl (by decide)
      (by simp [CTree.decs, CTree.finals, N]) (by simp [CTree.decs, CTree.finals, N]) (by simp [CTree.decs, CTree.finals])
  have hg : ∀ k : V4, (⟨4, 0, 0, 0⟩ : V4).restVector k = k := (good_top 4).inv
  have := axes_independent_event_guards_partial 1 (by norm_num) U _ _ _ _ hA N [1, 2] [C]
    (fun C' hC' x hx => by
      rw [List.mem_singleton.mp hC'] at hx
      simp [C, mkChain, CTree.decs, CTree.finals] at hx)
    (fun C' hC' A hA' => by
      rw [List.mem_singleton.mp hC'] at hA'
      simp [C, mkChain, CTree.finals] at hA')
    (fun C' hC' v hv => by
      rw [List.mem_singleton.mp hC'] at hv
      simp [C, mkChain, vertsOf] at hv)
    (fun _ => .fin 1 1) (fun _ => .fin 2 0) (fun _ _ => false)
    (fun C' hC' => by rw [List.mem_singleton.mp hC']; exact hC)
    (fun _ _ => by simp [CTree.finals])
    (fun _ _ => by simp [CTree.finals])
    (fun _ _ => by simp [CTree.decs])
    (fun _ => .leaf ⟨2, 1, 0, 0⟩) (fun _ => .leaf ⟨2, -1, 0, 0⟩) ⟨4, 0, 0, 0⟩
    (fun _ _ => exEvent_total)
    (fun f => if f = 1 then ⟨2, 1, 0, 0⟩ else ⟨2, -1, 0, 0⟩)
    (fun _ _ f hf => by
      simp only [List.mem_cons, List.not_mem_nil, or_false] at hf
      rcases hf with rfl | rfl <;> rfl)
    (fun C' hC' v hv => by
      rw [List.mem_singleton.mp hC'] at hv
      simp [C, mkChain, vertsOf] at hv)
    (fun _ _ => exEvent_guards) (fun _ _ => exEvent_guards)
    ⟨by norm_num, by simp only [V4.vect, V3.norm2]; norm_num⟩ (Or.inr rfl)
    (fun _ _ hd => absurd hd (by simp [MDecays])) (fun _ _ hd => absurd hd (by simp [MDecays]))
    (fun _ => C) (fun _ _ => List.mem_singleton.mpr rfl)
    (fun C' hC' _ _ _ => (List.mem_singleton.mp hC').symm)
    (fun C' hC' v hv => by
      rw [List.mem_singleton.mp hC'] at hv
      simp [C, mkChain, vertsOf] at hv)
  trivial

/-! ## the 3-body decay group -/

/-- a 3-body event tree: one daughter of the top particle is final, the other (the resonance) decays into two final particles -/
def Is3Body (A B : MTree) : Prop :=
  (∃ a b c, A = .node (.leaf a) (.leaf b) ∧ B = .leaf c) ∨ (∃ a b c, A = .leaf c ∧ B = .node (.leaf a) (.leaf b))

/-- momentum conservation at the vertex of the resonance `R → a b` of a 3-body chain in the frames the code computes (`P` = total momentum;
`r` = `R` in the rest frame of the top particle; the daughters in the rest frame of `R` by the nested `rest_vector`), and `|vect r| ≥ 1e-14` -/
def ResBB (P a b : V4) : Prop :=
  eps ≤ (P.restVector (a.add b)).vect.norm ∧
    ((P.restVector (a.add b)).restVector (P.restVector b)).vect = ((P.restVector (a.add b)).restVector (P.restVector a)).vect.neg

theorem sideBB_3body (P : V4) (A B : MTree) (h3 : Is3Body A B)
    (hres : ∀ a b : V4, (A = .node (.leaf a) (.leaf b) ∨ B = .node (.leaf a) (.leaf b)) → ResBB P a b) :
    SideBB (P.restVector A.total) (fun k => P.restVector k) (inferMomentum A) ∧
      SideBB (P.restVector B.total) (fun k => P.restVector k) (inferMomentum B) := by
  rcases h3 with ⟨a, b, c, rfl, rfl⟩ | ⟨a, b, c, rfl, rfl⟩
  · exact ⟨hres a b (Or.inl rfl), trivial⟩
  · exact ⟨trivial, hres a b (Or.inr rfl)⟩

/-- **`axes_independent_3body`** (FULL: the density of a 3-body decay group does not depend on the base axes; hypotheses on momenta +
`SpinOK` only) — proved part: `axes_independent_event_partial` for a 3-body decay group (every chain = top vertex + ONE lower vertex, the
resonance on either side: `Is3Body`), with `SideBB` reduced to momentum conservation at the resonance vertex (`ResBB`).  What is missing for
FULL is what `axes_independent_event_partial` names. -/
theorem axes_independent_3body_partial (NT : ℕ) (hNT : NT ≤ 8) (U : M2) (z x z' x' : V3) (hA : AxesPair U z x z' x')
    (N : Nat → Nat) (ids : List Nat) (cs : List AmpR.Chain)
    (hinner : ∀ C ∈ cs, ∀ x ∈ C.inner, ∀ m ∈ x.2, AllowedHel N x.1 m)
    (hNa : ∀ C ∈ cs, ∀ A ∈ C.aligns, N A.p ≤ 8) (hjv : ∀ C ∈ cs, ∀ v ∈ C.rest, N v.a ≤ 8)
    (tb tc : AmpR.Chain → CTree) (al : AmpR.Chain → Nat → Bool)
    (hshape : ∀ C ∈ cs, ChainOfTree N NT C (tb C) (tc C) (al C))
    (hperm : ∀ C ∈ cs, (((tb C).finals ++ (tc C).finals).map Prod.fst).Perm ids)
    (hndf : ∀ C ∈ cs, (((tb C).finals ++ (tc C).finals).map Prod.fst).Nodup)
    (hndd : ∀ C ∈ cs, (((tb C).decs ++ (tc C).decs).map Prod.fst).Nodup)
    (A B : AmpR.Chain → MTree) (P : V4) (htot : ∀ C ∈ cs, (MTree.node (A C) (B C)).total = P)
    (q : Nat → V4)
    (hleaf : ∀ C ∈ cs, ∀ f ∈ ids, MTree.leafAt (.node (A C) (B C)) (fpathOf (tb C) (tc C) f) = some (q f))
    (hdec : ∀ C ∈ cs, ∀ v ∈ C.rest, MDecaysAt (.node (A C) (B C)) (vpathOf (tb C) (tc C) v.a))
    (hG : ∀ C ∈ cs, Guards (calChainBoost (.node (A C) (B C))) z x)
    (hG' : ∀ C ∈ cs, Guards (calChainBoost (.node (A C) (B C))) z' x')
    (hbb : ∀ C ∈ cs, (P.restVector (B C).total).vect = (P.restVector (A C).total).vect.neg)
    (h3 : ∀ C ∈ cs, Is3Body (A C) (B C))
    (hres : ∀ C ∈ cs, ∀ a b : V4, (A C = .node (.leaf a) (.leaf b) ∨ B C = .node (.leaf a) (.leaf b)) → ResBB P a b)
    (ref : Nat → AmpR.Chain) (hrefmem : ∀ f ∈ ids, ref f ∈ cs)
    (hrefal : ∀ C ∈ cs, ∀ f ∈ (tb C).finals ++ (tc C).finals, al C f.1 = false → ref f.1 = C)
    (hvD : ∀ C ∈ cs, ∀ v ∈ C.rest, v.D = mkD3 (N v.a)
      ((vtxOf (calSteps (.node (A C) (B C)) z x) (vpathOf (tb C) (tc C) v.a)).1.alpha,
        (vtxOf (calSteps (.node (A C) (B C)) z x) (vpathOf (tb C) (tc C) v.a)).1.beta, 0)) :
    let rt : AmpR.Chain → Nat → Route := fun C f => routeOf (calSteps (.node (A C) (B C)) z x) (fpathOf (tb C) (tc C) f)
    let rt' : AmpR.Chain → Nat → Route := fun C f => routeOf (calSteps (.node (A C) (B C)) z' x') (fpathOf (tb C) (tc C) f)
    AmpR.densityG cs
        (fun C => AmpR.mkD NT (topAngles (helicityAngle (calChainBoost (.node (A C) (B C))) z' x')).1
          (topAngles (helicityAngle (calChainBoost (.node (A C) (B C))) z' x')).2.1 0)
        (fun C v => mkD3 (N v.a) ((vtxOf (calSteps (.node (A C) (B C)) z' x') (vpathOf (tb C) (tc C) v.a)).1.alpha,
          (vtxOf (calSteps (.node (A C) (B C)) z' x') (vpathOf (tb C) (tc C) v.a)).1.beta, 0))
        (fun C A => mkD3 (N A.p) (eul (alignR (rt' (ref A.p) A.p).b (rt' (ref A.p) A.p).r (rt' C A.p).r (rt' C A.p).b)))
        (Wigner.mRange NT) (C01e.finalsOf N ids)
      = AmpR.densityWith cs
        (fun C => AmpR.mkD NT (topAngles (helicityAngle (calChainBoost (.node (A C) (B C))) z x)).1
          (topAngles (helicityAngle (calChainBoost (.node (A C) (B C))) z x)).2.1 0)
        (fun C A => mkD3 (N A.p) (eul (alignR (rt (ref A.p) A.p).b (rt (ref A.p) A.p).r (rt C A.p).r (rt C A.p).b)))
        (Wigner.mRange NT) (C01e.finalsOf N ids) := by
  intro rt rt'
  exact axes_independent_event_partial NT hNT U z x z' x' hA N ids cs hinner hNa hjv tb tc al hshape hperm hndf hndd A B P htot q
    hleaf hdec hG hG' hbb (fun C hC => (sideBB_3body P (A C) (B C) (h3 C hC) (hres C hC)).1)
    (fun C hC => (sideBB_3body P (A C) (B C) (h3 C hC) (hres C hC)).2) ref hrefmem hrefal hvD

-- non-vacuity of the 3-body hypotheses: the event `A → R c, R → a b` of `Props/C02e.lean` (`exEvent2`; its guards: `C02.ex2_guards`)
example : Is3Body (.node (.leaf ⟨5 / 2, 3 / 2, 1, 0⟩) (.leaf ⟨5 / 2, 3 / 2, -1, 0⟩)) (.leaf ⟨5, -3, 0, 0⟩) ∧
    ResBB ⟨10, 0, 0, 0⟩ ⟨5 / 2, 3 / 2, 1, 0⟩ ⟨5 / 2, 3 / 2, -1, 0⟩ := by
  have hg : ∀ q : V4, (⟨10, 0, 0, 0⟩ : V4).restVector q = q := (good_top 10).inv
  have hRa : (⟨5 / 2, 3 / 2, 1, 0⟩ : V4).add ⟨5 / 2, 3 / 2, -1, 0⟩ = ⟨5, 3, 0, 0⟩ := by
    simp only [V4.add]; norm_num
  refine ⟨Or.inl ⟨_, _, _, rfl, rfl⟩, ?_, ?_⟩
  · rw [hg, hRa, ex2_norm 3 (by norm_num) _ (by simp [V4.vect, V3.norm2])]
    unfold eps; norm_num
  · simp only [hg, hRa, ex2_rest]
    ext <;> simp [V4.vect, V3.neg]

end

end TfPwaV.C01k
