import TfPwaV.Props.C13
import TfPwaV.Proofs.LSCountC
/-!
# C13 (count clause) — number of couplings = number of independent helicity amplitudes, for EVERY spin triple

`Props/C13.lean` decides the count clause in the kernel on the grid 2j ≤ 8.  Here the same statements are proved for all
doubled spins `ja jb jc : Nat` with `ja + jb + jc` even (for an odd sum the list is empty, `C13.ls_empty_of_odd`), on the
unchanged definitions `LS.lsList`, `LS.helCount`, `LS.helCountParity`, `LS.etaOf` of `Model/LS.lean`.

Route (`Proofs/LSCount*.lean`, core Lean only): both sides satisfy the same recurrence under (jb, jc) ↦ (jb+1, jc+1) —
one more value s = jb+jc+2 with `min(ja,s)+1` values of `l` on the coupling side; one more row and one more column of
the helicity grid, carrying each value of λb−λc ∈ {−s, …, s} once, on the helicity side — and agree for jb = 0 / jc = 0.
-/
namespace TfPwaV.C13
open TfPwaV.LS

/-- (1) Parity violated (`p_break`) or a parity unknown, no C-parity: `#(l,s) = #{(λb,λc) : |λb−λc| ≤ J_A}`
for **all** spins (integer and half-integer, unbounded). -/
theorem ls_count_broken_all (ja jb jc : Nat) (pa pb pc : Option Int) (pBreak : Bool)
    (hsum : (ja + jb + jc) % 2 = 0) (hbreak : effBreak pa pb pc pBreak = true) :
    (lsList ja jb jc pa pb pc pBreak none).length = helCount ja jb jc :=
  LSCount.count_broken ja pa pb pc pBreak hbreak jb jc hsum

-- non-vacuity: J = 11/2 → 5/2 ⊗ 2 with one parity unknown: 30 couplings, 30 helicity pairs
example : (11 + 5 + 4) % 2 = 0 ∧ effBreak (some 1) none (some (-1)) false = true ∧
    (lsList 11 5 4 (some 1) none (some (-1)) false none).length = 30 ∧ helCount 11 5 4 = 30 := by decide +kernel

/-- (2) Parity conserved (all three parities ±1, `p_break = False`), no C-parity: `#(l,s)` = number of orbits of
`(λb,λc) ↦ (−λb,−λc)` on the helicity pairs compatible with `H(−λ) = η H(λ)`, `η = pa pb pc (−1)^{ja−jb−jc}`,
for **all** spins. -/
theorem ls_count_parity_all (ja jb jc : Nat) (pa pb pc : Int)
    (hpa : pa = 1 ∨ pa = -1) (hpb : pb = 1 ∨ pb = -1) (hpc : pc = 1 ∨ pc = -1)
    (hsum : (ja + jb + jc) % 2 = 0) :
    (lsList ja jb jc (some pa) (some pb) (some pc) false none).length
      = helCountParity ja jb jc (etaOf ja jb jc (pa * pb * pc)) :=
  LSCount.count_parity ja jb jc pa pb pc hpa hpb hpc hsum

-- non-vacuity: 3⁻ → 2⁺ 2⁻ (η = −1 removes the pair (0,0)): 11 couplings; with 2⁺ 2⁺ (η = +1): 12
example : (lsList 6 4 4 (some (-1)) (some 1) (some (-1)) false none).length = 11 ∧
    helCountParity 6 4 4 (etaOf 6 4 4 ((-1) * 1 * (-1))) = 11 ∧
    (lsList 6 4 4 (some (-1)) (some 1) (some 1) false none).length = 12 ∧ helCount 6 4 4 = 23 := by decide +kernel

/-! The Boolean checkers of the kernel-decided grid theorems `ls_count_broken` / `ls_count_parity` of `Props/C13.lean`
(kept there as kernel evaluations of the model itself) hold for every triple. -/

/-- the checker of the grid theorem `ls_count_broken` holds for EVERY triple, not only on the grid -/
theorem countOkBroken_all (t : Nat × Nat × Nat) : countOkBroken t = true := by
  obtain ⟨ja, jb, jc⟩ := t
  unfold countOkBroken
  simp only [Bool.or_eq_true, beq_iff_eq]
  by_cases h : (ja + jb + jc) % 2 = 1
  · exact Or.inl h
  · exact Or.inr (ls_count_broken_all ja jb jc none none none true (by omega) rfl)

/-- the checker of the grid theorem `ls_count_parity` holds for EVERY triple, not only on the grid -/
theorem countOkParity_all (t : Nat × Nat × Nat) : countOkParity t = true := by
  obtain ⟨ja, jb, jc⟩ := t
  unfold countOkParity
  simp only [Bool.or_eq_true, beq_iff_eq, List.all_cons, List.all_nil, Bool.and_true, Bool.and_eq_true]
  by_cases h : (ja + jb + jc) % 2 = 1
  · exact Or.inl h
  · have h0 : (ja + jb + jc) % 2 = 0 := by omega
    have p1 : (1 : Int) = 1 ∨ (1 : Int) = -1 := Or.inl rfl
    have p2 : (-1 : Int) = 1 ∨ (-1 : Int) = -1 := Or.inr rfl
    exact Or.inr ⟨⟨⟨ls_count_parity_all _ _ _ _ _ _ p1 p1 p1 h0, ls_count_parity_all _ _ _ _ _ _ p1 p1 p2 h0⟩,
      ⟨ls_count_parity_all _ _ _ _ _ _ p1 p2 p1 h0, ls_count_parity_all _ _ _ _ _ _ p1 p2 p2 h0⟩⟩,
      ⟨⟨ls_count_parity_all _ _ _ _ _ _ p2 p1 p1 h0, ls_count_parity_all _ _ _ _ _ _ p2 p1 p2 h0⟩,
      ⟨ls_count_parity_all _ _ _ _ _ _ p2 p2 p1 h0, ls_count_parity_all _ _ _ _ _ _ p2 p2 p2 h0⟩⟩⟩
/-! ## (3) C-parity requested: the count is NOT the helicity count -/

/-- With `ca = some c` the offered list is the list without C-parity, filtered by "s integral and c = (−1)^(l+s)"
(`caOk`) — all spins, every parity setting. -/
theorem ls_cparity_is_filter (ja jb jc : Nat) (pa pb pc : Option Int) (pBreak : Bool) (c : Int) :
    lsList ja jb jc pa pb pc pBreak (some c)
      = (lsList ja jb jc pa pb pc pBreak none).filter (fun p => caOk (some c) p.1 p.2) :=
  LSCount.lsList_cparity_filter ja jb jc pa pb pc pBreak c

/-- Half-integral `s` (one daughter of half-integer spin): Python's `(-1)**(l+s)` is complex, never equal to `ca`;
nothing is offered. -/
theorem ls_cparity_half_integer_empty (ja jb jc : Nat) (pa pb pc : Option Int) (pBreak : Bool) (c : Int)
    (h : (jb + jc) % 2 = 1) : lsList ja jb jc pa pb pc pBreak (some c) = [] := by
  rw [List.eq_nil_iff_forall_not_mem]
  rintro ⟨l, s2⟩ hm
  rw [ls_mem_iff] at hm
  obtain ⟨⟨_, _, h1⟩, _, _, h4⟩ := hm
  have := (h4 c rfl).1
  omega

-- non-vacuity: 5/2 → 3/2 ⊗ 1 offers 12 couplings without C-parity and none with it
example : (3 + 2) % 2 = 1 ∧ (lsList 5 3 2 none none none true none).length = 12 ∧
    lsList 5 3 2 none none none true (some 1) = [] := by decide +kernel

/-- Integral `s` and `J_A`, parity not used, `c = ±1`: for every `s` the `l` of one parity class survive out of an odd
number of consecutive values, with the same surplus sign `ε = c·(−1)^{J_A}` for every `s`:
`2·#(l,s) = #{(λb,λc) : |λb−λc| ≤ J_A} + ε·(min(jb,jc)+1)` (written without subtraction) — all spins. -/
theorem ls_count_cparity_broken (ja jb jc : Nat) (pa pb pc : Option Int) (pBreak : Bool) (c : Int)
    (hc : c = 1 ∨ c = -1) (hja : ja % 2 = 0) (hs : (jb + jc) % 2 = 0)
    (hbreak : effBreak pa pb pc pBreak = true) :
    2 * (lsList ja jb jc pa pb pc pBreak (some c)).length + (if c = negOnePow (ja / 2) then 0 else min jb jc + 1)
      = helCount ja jb jc + (if c = negOnePow (ja / 2) then min jb jc + 1 else 0) :=
  LSCount.count_cparity_broken ja pa pb pc pBreak c hc hja hbreak jb jc hs

/-- Number of independent helicity amplitudes of a decay into two daughters of EQUAL spin `j` (doubled) under the
exchange relation `H(λc, λb) = ε H(λb, λc)`: one per two-element orbit {(λb,λc), (λc,λb)}, λb ≠ λc, |λb−λc| ≤ J_A
(`LSCount.offDiag`, the pairs with λb < λc), plus the `j+1` diagonal pairs λb = λc iff `ε = +1`. -/
def helCountExch (ja j : Nat) (eps : Int) : Nat :=
  LSCount.offDiag ja j + (if eps = 1 then j + 1 else 0)

/-- the helicity pairs of equal-spin daughters: diagonal + two mirror halves (all spins) -/
theorem helCount_equal_spins (ja j : Nat) : helCount ja j j = 2 * LSCount.offDiag ja j + (j + 1) :=
  LSCount.helCount_diag ja j

/-- Equal daughter spins (the particle–antiparticle case C-parity is meant for), integral `J_A`, parity not used:
the C-restricted list has exactly as many couplings as there are independent helicity amplitudes under the exchange
relation with sign `ε = c·(−1)^{J_A}` — every daughter spin `j` (integer or half-integer; `s` is integral either way)
and every integral `J_A`. -/
theorem ls_count_cparity_exchange (ja j : Nat) (pa pb pc : Option Int) (pBreak : Bool) (c : Int)
    (hc : c = 1 ∨ c = -1) (hja : ja % 2 = 0) (hbreak : effBreak pa pb pc pBreak = true) :
    (lsList ja j j pa pb pc pBreak (some c)).length = helCountExch ja j (c * negOnePow (ja / 2)) := by
  have h := ls_count_cparity_broken ja j j pa pb pc pBreak c hc hja (by omega) hbreak
  have hd := helCount_equal_spins ja j
  have hm : min j j = j := by omega
  rw [hm] at h
  unfold helCountExch
  have he : c * negOnePow (ja / 2) = 1 ↔ c = negOnePow (ja / 2) := by
    unfold negOnePow
    rcases hc with rfl | rfl <;> split <;> simp
  by_cases hcn : c = negOnePow (ja / 2)
  · rw [if_pos (he.2 hcn)]
    simp only [if_pos hcn] at h
    omega
  · rw [if_neg (fun x => hcn (he.1 x))]
    simp only [if_neg hcn] at h
    omega

-- non-vacuity: 1 → 1 1 (equal spins): 2 off-diagonal orbits with |λb−λc| ≤ 1, 3 diagonal pairs; C = −1 ⇒ ε = +1: 2 + 3 = 5; C = +1 ⇒ ε = −1: 2
example : LSCount.offDiag 2 2 = 2 ∧ helCountExch 2 2 ((-1) * negOnePow (2 / 2)) = 5 ∧
    helCountExch 2 2 (1 * negOnePow (2 / 2)) = 2 ∧ (lsList 2 2 2 none none none true (some (-1))).length = 5 := by
  decide +kernel

/-- kernel-checked witness that this is not the helicity count: 1 → 1 1 with C = +1 / −1 offers 2 / 5 couplings
(= (7 ∓ 3)/2 by `ls_count_cparity_broken`), the helicity count is 7 and the parity-orbit counts are 3 / 4.  The count
clause of C13 is therefore about the cases without C-parity only. -/
theorem ls_count_cparity_not_helicity_witness :
    (lsList 2 2 2 none none none true (some 1)).length = 2 ∧
    (lsList 2 2 2 none none none true (some (-1))).length = 5 ∧ helCount 2 2 2 = 7 ∧
    helCountParity 2 2 2 1 = 4 ∧ helCountParity 2 2 2 (-1) = 3 := by
  decide +kernel

-- non-vacuity of `ls_count_cparity_broken`: the hypotheses hold for the witness, ε = c·(−1)^1
example : (2 : Nat) % 2 = 0 ∧ (2 + 2) % 2 = 0 ∧ effBreak none none none true = true ∧ negOnePow (2 / 2) = -1 := by
  decide

end TfPwaV.C13
