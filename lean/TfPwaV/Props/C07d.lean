import TfPwaV.Proofs.DerivY
import TfPwaV.Props.C07c
import TfPwaV.Props.C07b
/-!
# C07 (continued) — the custom likelihood family, parametrised cfit background, MixLogLikehoodFCN, ConstrainModel

Model: `templates/DerivY.lean.in`.  As in `C07.lean`, everything is stated along an arbitrary line `θ₀ + s·p`:
the per-batch tape outputs are HYPOTHESES (`HasDerivAt` / `HasFDerivAt` witnesses), the theorems say that what the code
assembles from them is the derivative of the value it returns alongside — for ANY number of MC batches, data batches,
normalisation factors and parameters.
-/
open TfPwaV.ScalarR
namespace TfPwaV.C07
open TfPwaV.DerivR TfPwaV.DerivYR

/-! ## `BaseCustomModel.nll_grad_batch` (custom.py:123-136) -/

/-- `custom_grad_is_deriv`: for any number `Bm + 1` of MC batches, `Bd` of data batches, `m` normalisation factors and
`n` parameters.  `N c j` is the `j`-th normalisation factor of MC batch `c` along the line, `G c j` its gradient (what
`_fast_int_mc_grad` returns); `A b` is `eval_nll_part` of data batch `b` as a function of (position on the line,
normalisation factors) — a DIFFERENT function for every batch, which is how the once-only `idx == 0` terms enter —
with the tape outputs `gθ b` (direct gradient) and `gN b` (partials with respect to the factors).
Then (1) the summed `SumVar` carries `Σ_c N c j`, (2) the returned value is `Σ_b A b`, every batch once, and
(3) the returned gradient is the derivative of `s ↦ Σ_b A_b(s, Σ_c N_c(s))`. -/
theorem custom_grad_is_deriv {n m Bm Bd : Nat}
    (N : Fin (Bm + 1) → Fin m → ℝ → ℝ) (G : Fin (Bm + 1) → Fin m → Fin n → ℝ)
    (A : Fin Bd → ℝ × (Fin m → ℝ) → ℝ) (A' : Fin Bd → (ℝ × (Fin m → ℝ) →L[ℝ] ℝ))
    (gθ : Fin Bd → Fin n → ℝ) (gN : Fin Bd → Fin m → ℝ) (p : Fin n → ℝ) (t : ℝ)
    (hN : ∀ c j, HasDerivAt (N c j) (∑ k, G c j k * p k) t)
    (hA : ∀ b, HasFDerivAt (A b) (A' b) (t, fun j => ∑ c, N c j t))
    (hθ : ∀ b, A' b (1, 0) = ∑ k, gθ b k * p k)
    (hgN : ∀ b j, A' b (0, Pi.single j 1) = gN b j) :
    (svSum n (List.ofFn fun c => (List.ofFn fun j => N c j t, ofFn2 (G c)))).1 = List.ofFn (fun j => ∑ c, N c j t) ∧
    (customNllGrad n (List.ofFn fun c => (List.ofFn fun j => N c j t, ofFn2 (G c)))
        (List.ofFn fun b => (A b (t, fun j => ∑ c, N c j t), List.ofFn (gθ b), List.ofFn (gN b)))).1
      = ∑ b, A b (t, fun j => ∑ c, N c j t) ∧
    HasDerivAt (fun s => ∑ b, A b (s, fun j => ∑ c, N c j s))
      (dot (customNllGrad n (List.ofFn fun c => (List.ofFn fun j => N c j t, ofFn2 (G c)))
              (List.ofFn fun b => (A b (t, fun j => ∑ c, N c j t), List.ofFn (gθ b), List.ofFn (gN b)))).2
           (List.ofFn p)) t := by
  refine ⟨?_, ?_, ?_⟩
  · rw [svSum_ofFn (fun c j => N c j t) G]
  · rw [customNllGrad_ofFn (fun c j => N c j t) G]
  · rw [customNllGrad_ofFn (fun c j => N c j t) G]
    simp only
    rw [dot_ofFn]
    have hNs : ∀ j, HasDerivAt (fun s => ∑ c, N c j s) (∑ c, ∑ k, G c j k * p k) t := fun j =>
      HasDerivAt.fun_sum (u := Finset.univ) (fun c _ => hN c j)
    have hb : ∀ b, HasDerivAt (fun s => A b (s, fun j => ∑ c, N c j s))
        ((∑ k, gθ b k * p k) + ∑ j, (∑ c, ∑ k, G c j k * p k) * gN b j) t := fun b => by
      have h := compN_hasDerivAt (A b) (A' b) (fun j s => ∑ c, N c j s) _ t (hA b) hNs
      rw [hθ] at h
      simp only [hgN] at h
      exact h
    have h := HasDerivAt.fun_sum (u := Finset.univ) (fun b _ => hb b)
    refine h.congr_deriv ?_
    -- Σ_b (gθ_b·p + Σ_j (Σ_c G_cj·p) gN_bj) = Σ_k (Σ_b (gθ_bk + Σ_j gN_bj Σ_c G_cjk)) p_k
    have e1 : ∀ k, (∑ b, (gθ b k + ∑ j, gN b j * ∑ c, G c j k)) * p k
        = ∑ b, (gθ b k * p k + ∑ j, gN b j * ((∑ c, G c j k) * p k)) := fun k => by
      rw [Finset.sum_mul]
      apply Finset.sum_congr rfl; intro b _
      rw [add_mul, Finset.sum_mul]
      congr 1
      apply Finset.sum_congr rfl; intro j _
      ring
    rw [Finset.sum_congr rfl (fun k _ => e1 k), Finset.sum_comm]
    apply Finset.sum_congr rfl; intro b _
    rw [Finset.sum_add_distrib]
    congr 1
    rw [Finset.sum_comm]
    apply Finset.sum_congr rfl; intro j _
    rw [← Finset.mul_sum, mul_comm]
    congr 1
    rw [Finset.sum_comm]
    apply Finset.sum_congr rfl; intro k _
    rw [Finset.sum_mul]

/-- non-vacuity: one parameter, one factor `N(s) = 1 + s` in one MC batch, one data batch `A(s, N) = s + N 0`. -/
example : ∃ (A : ℝ × (Fin 1 → ℝ) → ℝ) (A' : ℝ × (Fin 1 → ℝ) →L[ℝ] ℝ), HasFDerivAt A A' (0, fun _ => 1) ∧
    A' (1, 0) = 1 ∧ A' (0, Pi.single 0 1) = 1 :=
  ⟨fun x => x.1 + x.2 0,
    ContinuousLinearMap.fst ℝ ℝ (Fin 1 → ℝ) + (ContinuousLinearMap.proj 0).comp (ContinuousLinearMap.snd ℝ ℝ (Fin 1 → ℝ)),
    (ContinuousLinearMap.fst ℝ ℝ (Fin 1 → ℝ) + (ContinuousLinearMap.proj 0).comp (ContinuousLinearMap.snd ℝ ℝ (Fin 1 → ℝ))).hasFDerivAt,
    by simp, by simp⟩

/-! ## `MixLogLikehoodFCN.get_nll_grad` (model.py:1497-1514) -/

/-- `mix_fcn_grad_is_deriv`: for any number `k` of (model, MC sample) pairs, each normalised or extended:
`-g_ln + Σ_i n_i·int_g(I_i)·g_I_i` is the derivative of the returned `-ln_data + Σ_i int_f(I_i)·n_i`. -/
theorem mix_fcn_grad_is_deriv {n k : Nat} (L : ℝ → ℝ) (I : Fin k → ℝ → ℝ) (ext : Fin k → Bool) (nd : Fin k → ℝ)
    (gLn : Fin n → ℝ) (gI : Fin k → Fin n → ℝ) (p : Fin n → ℝ) (t : ℝ)
    (hL : HasDerivAt L (∑ j, gLn j * p j) t) (hI : ∀ i, HasDerivAt (I i) (∑ j, gI i j * p j) t)
    (h0 : ∀ i, ext i = false → I i t ≠ 0) :
    HasDerivAt (fun s => mixVal (L s) (List.ofFn fun i => (ext i, I i s, nd i, List.ofFn (gI i))))
      (dot (mixGrad n (List.ofFn gLn) (List.ofFn fun i => (ext i, I i t, nd i, List.ofFn (gI i)))) (List.ofFn p)) t := by
  rw [mixGrad_ofFn, dot_ofFn]
  have hf : (fun s => mixVal (L s) (List.ofFn fun i => (ext i, I i s, nd i, List.ofFn (gI i))))
      = fun s => -L s + ∑ i, intF (ext i) (I i s) * nd i := by
    funext s; rw [mixVal_ofFn]
  rw [hf]
  have hi : ∀ i, HasDerivAt (fun s => intF (ext i) (I i s) * nd i) (intG (ext i) (I i t) * (∑ j, gI i j * p j) * nd i) t := fun i => by
    cases hx : ext i with
    | true =>
      simp only [intF, intG, if_true, one_mul]
      exact (hI i).mul_const (nd i)
    | false =>
      simp only [intF, intG, klog, Bool.false_eq_true, if_false]
      have h := ((hI i).log (h0 i hx)).mul_const (nd i)
      refine h.congr_deriv ?_
      ring
  have h := hL.neg.add (HasDerivAt.fun_sum (u := Finset.univ) (fun i _ => hi i))
  refine h.congr_deriv ?_
  have e : ∀ j, (-gLn j + ∑ i, nd i * intG (ext i) (I i t) * gI i j) * p j
      = -(gLn j * p j) + ∑ i, nd i * intG (ext i) (I i t) * (gI i j * p j) := fun j => by
    rw [add_mul, Finset.sum_mul]
    congr 1
    · ring
    · apply Finset.sum_congr rfl; intro i _; ring
  rw [Finset.sum_congr rfl (fun j _ => e j), Finset.sum_add_distrib, Finset.sum_neg_distrib, Finset.sum_comm]
  congr 1
  apply Finset.sum_congr rfl; intro i _
  rw [← Finset.mul_sum]
  ring

example : ∃ (I : ℝ → ℝ), I 0 ≠ 0 ∧ HasDerivAt I (∑ j : Fin 1, (fun _ => (2 : ℝ)) j * (fun _ => (1 : ℝ)) j) 0 :=
  ⟨fun s => 1 + 2 * s, by norm_num, by simpa using ((hasDerivAt_id' (0 : ℝ)).const_mul 2).const_add 1⟩

/-! ## `ConstrainModel` (model.py:989-1100) -/

/-- `constrain_model_terms_deriv`: for ANY constraint dict (including names that are not trainable, where all three
functions `break`), any number of parameters: `get_constrain_grad` is the gradient of `get_constrain_term` and
`get_constrain_hessian` its Hessian; `nll_gradient` adds them to value and gradient of the default model (`fcnVal`,
`fcnGrad`: `fcn_is_deriv`).  What the `break` DROPS is dropped from all three alike. -/
theorem constrain_model_terms_deriv {n : Nat} (cons : List (Option Nat × ℝ × ℝ)) (x0 p q : Fin n → ℝ) (t : ℝ) :
    HasDerivAt (fun s => cmTerm (List.ofFn fun k => x0 k + s * p k) cons)
      (dot (cmGrad (List.ofFn fun k => x0 k + t * p k) cons) (List.ofFn p)) t ∧
    HasDerivAt (fun s => dot (cmGrad (List.ofFn fun k => x0 k + s * p k) cons) (List.ofFn q))
      (dot (matVec (cmHess n cons) (List.ofFn p)) (List.ofFn q)) t := by
  have hcs : cmCs n cons = List.ofFn (fun k : Fin n => cmFind k.val (cmActive cons)) := by
    unfold cmCs
    rw [List.ofFn_eq_map, ← List.map_coe_finRange_eq_range, List.map_map]
    rfl
  unfold cmTerm cmGrad cmHess
  simp only [List.length_ofFn]
  rw [hcs]
  exact gauss_terms_deriv _ x0 p q t

/-- the `break`: constraints after the first non-trainable name are ignored (here the second one) -/
theorem constrain_model_break_witness :
    cmCs 2 [(some 0, (1 : ℝ), 2), (none, 0, 1), (some 1, 5, 6)] = [some (1, 2), none] := by
  simp [cmCs, cmActive, cmFind, List.range, List.range.loop]

/-! ## refutation witnesses for the two seeded changes -/

/-- seeded change C07-04 (`g_int_bg[i] * g_ll_sig` instead of `g_int_bg[i] * g_ll_bg` in `Model_cfit.nll_grad_batch`):
on the witness `ll(θ, v_sig, v_bg) = v_bg`, `I_sig = 1`, `I_bg(s) = s` (a background normalisation that moves with the
parameter) the returned value `-ll` has derivative −1, the swapped text returns 0; the unswapped text returns −1. -/
theorem cfit_swapped_outer_violates :
    (¬ HasDerivAt (fun s : ℝ => cfitVal false ((fun x : ℝ × ℝ × ℝ => x.2.2) (s, (1 : ℝ), s)) 1 1 0)
        (dot (cfitGradSwapped [0] [0] [1] 0 1) [1]) 0) ∧
    HasDerivAt (fun s : ℝ => cfitVal false ((fun x : ℝ × ℝ × ℝ => x.2.2) (s, (1 : ℝ), s)) 1 1 0)
        (dot (cfitGrad false [0] [0] [1] 0 1 1 1 0) [1]) 0 := by
  have hf : (fun s : ℝ => cfitVal false ((fun x : ℝ × ℝ × ℝ => x.2.2) (s, (1 : ℝ), s)) 1 1 0) = fun s => -s := by
    funext s; simp [cfitVal]
  rw [hf]
  have h1 : HasDerivAt (fun s : ℝ => -s) (-1) 0 := (hasDerivAt_id' (0 : ℝ)).neg
  constructor
  · intro h
    have := h.unique h1
    simp [cfitGradSwapped, zip3, dot] at this
  · have e : dot (cfitGrad false [0] [0] [1] 0 1 1 1 0) [1] = (-1 : ℝ) := by
      simp [cfitGrad, zip3, dot]
    rw [e]; exact h1

/-- seeded change C06-04 (`_fast_nll_part_grad((i, j), int_mc)` without the batch index): with two data batches and one
`constr_frac` constraint (`value = 0`, `sigma = 1`, `norm = [1, 1]`, empty data terms) the once-only term `0.5` is
counted in every batch: the value returned alongside the gradient is `1`, the likelihood (`nll`, one call with
`idx = 0`) is `0.5` — the gradient returned is that of a different function than the reported NLL. -/
theorem custom_lost_idx_counts_twice :
    (customNllGrad 1 [([1, 1], [[0], [0]])]
        [(constrFracValLostIdx 0 0 0 [1, 1] [(0, 1)], [0], [0, 0]), (constrFracValLostIdx 1 0 0 [1, 1] [(0, 1)], [0], [0, 0])]).1
      = (1 : ℝ) ∧
    (customNllGrad 1 [([1, 1], [[0], [0]])]
        [(constrFracVal 0 0 0 [1, 1] [(0, 1)], [0], [0, 0]), (constrFracVal 1 0 0 [1, 1] [(0, 1)], [0], [0, 0])]).1
      = (0.5 : ℝ) ∧
    constrFracVal 0 0 0 [1, 1] [((0 : ℝ), (1 : ℝ))] = (0.5 : ℝ) := by
  refine ⟨?_, ?_, ?_⟩ <;>
    (simp [customNllGrad, customAcc, svSum, svFold, constrFracValLostIdx, constrFracVal, fracTerm, klog] <;> try norm_num)

/-! ## `constr_frac` / `cfit_constr_frac`: the once-only fraction constraints (custom.py:258-269, 299-310) -/

/-- `constr_frac_term_is_deriv`: quotient rule through the fractions, for ANY number `c` of constraints: along any
curve of normalisation factors `(N₀(s), N₁(s) …)` with `N₀ ≠ 0` the partials `constrFracGN` hands to the tape
(`fracGN0` for `norm[0]`, `fracGNrest` for `norm[i+1]`) contract with the factors' derivatives to the derivative of
`Σ_i 0.5·((N_{i+1}/N₀ − value_i)/sigma_i)²` (`sigma_i = 0` included: both sides vanish).  Used by
`constr_frac_grad_is_deriv` below (the model end to end). -/
theorem constr_frac_term_is_deriv {c : Nat} (N0 : ℝ → ℝ) (Ni : Fin c → ℝ → ℝ) (cs : Fin c → ℝ × ℝ)
    (N0' : ℝ) (Ni' : Fin c → ℝ) (t : ℝ)
    (h0 : HasDerivAt N0 N0' t) (hi : ∀ i, HasDerivAt (Ni i) (Ni' i) t) (hn : N0 t ≠ 0) :
    HasDerivAt (fun s => fracTerm (N0 s) (List.ofFn fun i => Ni i s) (List.ofFn cs))
      (fracGN0 (N0 t) (List.ofFn fun i => Ni i t) (List.ofFn cs) * N0'
        + dot (fracGNrest (N0 t) (List.ofFn fun i => Ni i t) (List.ofFn cs)) (List.ofFn Ni')) t := by
  rw [fracGN0_ofFn, fracGNrest_ofFn, dot_ofFn]
  have hf : (fun s => fracTerm (N0 s) (List.ofFn fun i => Ni i s) (List.ofFn cs))
      = fun s => ∑ i, 0.5 * (((Ni i s / N0 s - (cs i).1) / (cs i).2) * ((Ni i s / N0 s - (cs i).1) / (cs i).2)) := by
    funext s; rw [fracTerm_ofFn]
  rw [hf]
  have hr : ∀ i, HasDerivAt (fun s => (Ni i s / N0 s - (cs i).1) / (cs i).2)
      ((Ni' i * N0 t - Ni i t * N0') / N0 t ^ 2 / (cs i).2) t := fun i =>
    (((hi i).div h0 hn).sub_const (cs i).1).div_const (cs i).2
  have h := HasDerivAt.fun_sum (u := Finset.univ) (fun i _ => ((hr i).mul (hr i)).const_mul (0.5 : ℝ))
  refine h.congr_deriv ?_
  rw [Finset.sum_mul, ← Finset.sum_add_distrib]
  apply Finset.sum_congr rfl; intro i _
  have e : (Ni' i * N0 t - Ni i t * N0') / N0 t ^ 2 = Ni' i / N0 t - Ni i t * N0' / (N0 t * N0 t) := by
    field_simp
  rw [e]
  ring

example : ∃ (N0 : ℝ → ℝ), N0 0 ≠ 0 ∧ HasDerivAt N0 1 0 := ⟨fun s => 1 + s, by norm_num, by simpa using (hasDerivAt_id' (0 : ℝ)).const_add 1⟩

/-! ## `Model_cfit` with a PARAMETRISED background: from per-event data of `sig` and `bg` to the NLL -/

/-- `cfit_bg_param_grad_is_deriv`: signal events `S i`, background values `Bg i` (a `bg_f` with floating parameters),
BOTH normalisations `I_sig`, `I_bg` move along the line.  IF `dS`, `dB` are the per-event partials and `gSig`, `gBg` the
gradients of the two integrals, THEN `Model_cfit.nll_grad_batch`'s
`-g_ll[i] - g_int_sig[i]·g_ll_sig - g_int_bg[i]·g_ll_bg`, fed with what the tape returns for
`ll = Σ w clip_log((1−w) S/v_sig + w Bg/v_bg)` (`cfitTapeGθ/GSig/GBg`), is the derivative of the returned
`-Σ_i w_i clip_log((1−w) S_i(s)/I_sig(s) + w Bg_i(s)/I_bg(s))`; for any number of events and parameters, away from the
`clip_log` junction and zeros of the integrals. -/
theorem cfit_bg_param_grad_is_deriv {m n : Nat} (wb sw : ℝ) (w : Fin m → ℝ) (S Bg : Fin m → ℝ → ℝ) (Is Ib : ℝ → ℝ)
    (dS dB : Fin n → Fin m → ℝ) (gSig gBg p : Fin n → ℝ) (t : ℝ)
    (hS : ∀ i, HasDerivAt (S i) (∑ k, dS k i * p k) t) (hB : ∀ i, HasDerivAt (Bg i) (∑ k, dB k i * p k) t)
    (hIs : HasDerivAt Is (∑ k, gSig k * p k) t) (hIb : HasDerivAt Ib (∑ k, gBg k * p k) t)
    (hs0 : Is t ≠ 0) (hb0 : Ib t ≠ 0)
    (hclip : ∀ i, cfitProb wb (Is t) (Ib t) (S i t) (Bg i t) ≠ epsC) :
    HasDerivAt (fun s => cfitVal false (cfitTapeVal wb (Is s) (Ib s) (List.ofFn w) (List.ofFn fun i => S i s) (List.ofFn fun i => Bg i s)) sw (Is s) wb)
      (dot (cfitGrad false
              (cfitTapeGθ wb (Is t) (Ib t) (List.ofFn w) (List.ofFn fun i => S i t) (List.ofFn fun i => Bg i t) (ofFn2 dS) (ofFn2 dB))
              (List.ofFn gSig) (List.ofFn gBg)
              (cfitTapeGSig wb (Is t) (Ib t) (List.ofFn w) (List.ofFn fun i => S i t) (List.ofFn fun i => Bg i t))
              (cfitTapeGBg wb (Is t) (Ib t) (List.ofFn w) (List.ofFn fun i => S i t) (List.ofFn fun i => Bg i t))
              sw (Is t) wb) (List.ofFn p)) t := by
  rw [cfitTapeGθ_ofFn, cfitTapeGSig_ofFn, cfitTapeGBg_ofFn, cfitGrad_ofFn, dot_ofFn]
  have hf : (fun s => cfitVal false (cfitTapeVal wb (Is s) (Ib s) (List.ofFn w) (List.ofFn fun i => S i s) (List.ofFn fun i => Bg i s)) sw (Is s) wb)
      = fun s => -∑ i, w i * clipLog (cfitProb wb (Is s) (Ib s) (S i s) (Bg i s)) := by
    funext s; rw [cfitTapeVal_ofFn]; simp [cfitVal]
  rw [hf]
  simp only [Bool.false_eq_true, if_false]
  set dIs := ∑ k, gSig k * p k with hdIs
  set dIb := ∑ k, gBg k * p k with hdIb
  have hp : ∀ i, HasDerivAt (fun s => cfitProb wb (Is s) (Ib s) (S i s) (Bg i s))
      (((1 - wb) * (∑ k, dS k i * p k) * Is t - (1 - wb) * S i t * dIs) / Is t ^ 2
        + (wb * (∑ k, dB k i * p k) * Ib t - wb * Bg i t * dIb) / Ib t ^ 2) t := fun i => by
    unfold cfitProb
    exact (((hS i).const_mul (1 - wb)).div hIs hs0).add (((hB i).const_mul wb).div hIb hb0)
  have hi : ∀ i, HasDerivAt (fun s => w i * clipLog (cfitProb wb (Is s) (Ib s) (S i s) (Bg i s)))
      (w i * (clipLogD (cfitProb wb (Is t) (Ib t) (S i t) (Bg i t)) *
        (((1 - wb) * (∑ k, dS k i * p k) * Is t - (1 - wb) * S i t * dIs) / Is t ^ 2
        + (wb * (∑ k, dB k i * p k) * Ib t - wb * Bg i t * dIb) / Ib t ^ 2))) t := fun i => by
    have hc := (clipLog_hasDerivAt _ (hclip i)).1
    have h1 := HasDerivAt.comp t hc (hp i)
    exact h1.const_mul (w i)
  have h := (HasDerivAt.fun_sum (u := Finset.univ) (fun i _ => hi i)).neg
  refine h.congr_deriv ?_
  -- per-event algebra, then exchange the sums over events and parameters
  have e1 : ∀ i, w i * (clipLogD (cfitProb wb (Is t) (Ib t) (S i t) (Bg i t)) *
        (((1 - wb) * (∑ k, dS k i * p k) * Is t - (1 - wb) * S i t * dIs) / Is t ^ 2
        + (wb * (∑ k, dB k i * p k) * Ib t - wb * Bg i t * dIb) / Ib t ^ 2))
      = (∑ k, w i * clipLogD (cfitProb wb (Is t) (Ib t) (S i t) (Bg i t)) * ((1 - wb) * dS k i / Is t + wb * dB k i / Ib t) * p k)
        + w i * clipLogD (cfitProb wb (Is t) (Ib t) (S i t) (Bg i t)) * (-((1 - wb) * S i t / (Is t * Is t))) * dIs
        + w i * clipLogD (cfitProb wb (Is t) (Ib t) (S i t) (Bg i t)) * (-(wb * Bg i t / (Ib t * Ib t))) * dIb := fun i => by
    have e2 : ∑ k, w i * clipLogD (cfitProb wb (Is t) (Ib t) (S i t) (Bg i t)) * ((1 - wb) * dS k i / Is t + wb * dB k i / Ib t) * p k
        = w i * clipLogD (cfitProb wb (Is t) (Ib t) (S i t) (Bg i t)) *
            ((1 - wb) / Is t * (∑ k, dS k i * p k) + wb / Ib t * ∑ k, dB k i * p k) := by
      rw [Finset.mul_sum, Finset.mul_sum, ← Finset.sum_add_distrib, Finset.mul_sum]
      apply Finset.sum_congr rfl; intro k _; ring
    rw [e2]
    field_simp
    ring
  rw [Finset.sum_congr rfl (fun i _ => e1 i), Finset.sum_add_distrib, Finset.sum_add_distrib]
  have eA : ∑ i, ∑ k, w i * clipLogD (cfitProb wb (Is t) (Ib t) (S i t) (Bg i t)) * ((1 - wb) * dS k i / Is t + wb * dB k i / Ib t) * p k
      = ∑ k, (∑ i, w i * clipLogD (cfitProb wb (Is t) (Ib t) (S i t) (Bg i t)) * ((1 - wb) * dS k i / Is t + wb * dB k i / Ib t)) * p k := by
    rw [Finset.sum_comm]
    apply Finset.sum_congr rfl; intro k _
    rw [Finset.sum_mul]
  rw [eA, ← Finset.sum_mul, ← Finset.sum_mul, hdIs, hdIb]
  generalize (∑ i, w i * clipLogD (cfitProb wb (Is t) (Ib t) (S i t) (Bg i t)) * (-((1 - wb) * S i t / (Is t * Is t)))) = Bs
  generalize (∑ i, w i * clipLogD (cfitProb wb (Is t) (Ib t) (S i t) (Bg i t)) * (-(wb * Bg i t / (Ib t * Ib t)))) = Cs
  have eR : ∀ k, (-(∑ i, w i * clipLogD (cfitProb wb (Is t) (Ib t) (S i t) (Bg i t)) * ((1 - wb) * dS k i / Is t + wb * dB k i / Ib t))
        - gSig k * Bs - gBg k * Cs) * p k
      = (-1) * ((∑ i, w i * clipLogD (cfitProb wb (Is t) (Ib t) (S i t) (Bg i t)) * ((1 - wb) * dS k i / Is t + wb * dB k i / Ib t)) * p k)
        + (-Bs) * (gSig k * p k) + (-Cs) * (gBg k * p k) := fun k => by ring
  rw [Finset.sum_congr rfl (fun k _ => eR k), sum_lin3]
  ring

/-! ## `BaseCustomModel.nll_grad_hessian` (custom.py:138-186) -/

/-- `custom_hess_is_deriv`: for any number `Bd` of data batches, `m` normalisation factors, `n` parameters.
`N j` are the (summed) normalisation factors along the line, `Y j k` their gradient components (derivative of `N j` is
`Y j·p`), `Zj j` their Hessians (symmetric; derivative of `Y j k` is `Zj j k·p`) — what the summed
`SumVar.from_call_with_hess` carries.  Per data batch `b`: `Gθ b k`, `GN b j` are the tape's gradient of
`eval_nll_part` with respect to `θ_k` and `norm_j` as functions of (position on the line, factor vector), with
Fréchet derivatives given by the blocks `A` (θθ), `B` (θ,norm), `Rt` (norm,θ transposed), `C` (norm,norm) of the
tape's Hessian.  THEN the Hessian assembled by the code
(`A + B·Y + Yᵀ·R + Yᵀ·C·Y + Σ_j ∂a/∂norm_j·½(Z_j + Z_jᵀ)` per batch, summed over the batches) is the derivative of the
gradient the code returns: `d/ds (q·g(θ₀ + s p)) = qᵀ H p` for all `p`, `q`. -/
theorem custom_hess_is_deriv {n m Bd : Nat}
    (N : Fin m → ℝ → ℝ) (Y : Fin m → Fin n → ℝ → ℝ) (Zj : Fin m → Fin n → Fin n → ℝ)
    (Gθ : Fin Bd → Fin n → ℝ × (Fin m → ℝ) → ℝ) (GN : Fin Bd → Fin m → ℝ × (Fin m → ℝ) → ℝ)
    (Gθ' : Fin Bd → Fin n → (ℝ × (Fin m → ℝ) →L[ℝ] ℝ)) (GN' : Fin Bd → Fin m → (ℝ × (Fin m → ℝ) →L[ℝ] ℝ))
    (A : Fin Bd → Fin n → Fin n → ℝ) (B Rt : Fin Bd → Fin n → Fin m → ℝ) (C : Fin Bd → Fin m → Fin m → ℝ)
    (av : Fin Bd → ℝ) (p q : Fin n → ℝ) (t : ℝ)
    (hN : ∀ j, HasDerivAt (N j) (∑ l, Y j l t * p l) t)
    (hY : ∀ j k, HasDerivAt (Y j k) (∑ l, Zj j k l * p l) t)
    (hZ : ∀ j k l, Zj j k l = Zj j l k)
    (hGθ : ∀ b k, HasFDerivAt (Gθ b k) (Gθ' b k) (t, fun j => N j t))
    (hGN : ∀ b j, HasFDerivAt (GN b j) (GN' b j) (t, fun j => N j t))
    (hA : ∀ b k, Gθ' b k (1, 0) = ∑ l, A b k l * p l) (hB : ∀ b k j, Gθ' b k (0, Pi.single j 1) = B b k j)
    (hR : ∀ b j, GN' b j (1, 0) = ∑ l, Rt b l j * p l) (hC : ∀ b j j', GN' b j (0, Pi.single j' 1) = C b j j') :
    HasDerivAt
      (fun s => dot (customNllGradHess n (ofFn2 fun j k => Y j k s) (ofFn2 fun k j => Y j k s)
          (ofFn3 fun k l j => Zj j k l) (ofFn3 fun k l j => Zj j l k)
          (List.ofFn fun b => { a := av b, gθ := List.ofFn (fun k => Gθ b k (s, fun j => N j s)),
                                gN := List.ofFn (fun j => GN b j (s, fun j => N j s)),
                                A := ofFn2 (A b), B := ofFn2 (B b), Rt := ofFn2 (Rt b), C := ofFn2 (C b) })).2.1 (List.ofFn q))
      (dot (matVec (customNllGradHess n (ofFn2 fun j k => Y j k t) (ofFn2 fun k j => Y j k t)
          (ofFn3 fun k l j => Zj j k l) (ofFn3 fun k l j => Zj j l k)
          (List.ofFn fun b => { a := av b, gθ := List.ofFn (fun k => Gθ b k (t, fun j => N j t)),
                                gN := List.ofFn (fun j => GN b j (t, fun j => N j t)),
                                A := ofFn2 (A b), B := ofFn2 (B b), Rt := ofFn2 (Rt b), C := ofFn2 (C b) })).2.2 (List.ofFn p))
        (List.ofFn q)) t := by
  unfold customNllGradHess
  rw [replicate2_eq_ofFn2, ← List.ofFn_const n (0 : ℝ)]
  rw [customAccH_ofFn (fun j k => Y j k t) (fun k j => Y j k t)]
  simp only
  rw [dot_matVec_ofFn]
  have hf : (fun s => dot (customAccH n (ofFn2 fun j k => Y j k s) (ofFn2 fun k j => Y j k s)
          (ofFn3 fun k l j => Zj j k l) (ofFn3 fun k l j => Zj j l k) (0, List.ofFn (fun _ : Fin n => (0 : ℝ)), ofFn2 fun (_ _ : Fin n) => (0 : ℝ))
          (List.ofFn fun b => { a := av b, gθ := List.ofFn (fun k => Gθ b k (s, fun j => N j s)),
                                gN := List.ofFn (fun j => GN b j (s, fun j => N j s)),
                                A := ofFn2 (A b), B := ofFn2 (B b), Rt := ofFn2 (Rt b), C := ofFn2 (C b) })).2.1 (List.ofFn q))
      = fun s => ∑ k, (0 + ∑ b, (Gθ b k (s, fun j => N j s) + ∑ j, GN b j (s, fun j => N j s) * Y j k s)) * q k := by
    funext s
    rw [customAccH_ofFn (fun j k => Y j k s) (fun k j => Y j k s)]
    simp only
    rw [dot_ofFn]
  rw [hf]
  -- derivatives of the tape-gradient blocks along the curve (s, N(s))
  have hθ : ∀ b k, HasDerivAt (fun s => Gθ b k (s, fun j => N j s))
      ((∑ l, A b k l * p l) + ∑ j, (∑ l, Y j l t * p l) * B b k j) t := fun b k => by
    have h := compN_hasDerivAt (Gθ b k) (Gθ' b k) N _ t (hGθ b k) hN
    rw [hA] at h
    simp only [hB] at h
    exact h
  have hn : ∀ b j, HasDerivAt (fun s => GN b j (s, fun j => N j s))
      ((∑ l, Rt b l j * p l) + ∑ j', (∑ l, Y j' l t * p l) * C b j j') t := fun b j => by
    have h := compN_hasDerivAt (GN b j) (GN' b j) N _ t (hGN b j) hN
    rw [hR] at h
    simp only [hC] at h
    exact h
  have hk : ∀ k, HasDerivAt (fun s => (0 + ∑ b, (Gθ b k (s, fun j => N j s) + ∑ j, GN b j (s, fun j => N j s) * Y j k s)) * q k)
      ((∑ b, (((∑ l, A b k l * p l) + ∑ j, (∑ l, Y j l t * p l) * B b k j)
          + ∑ j, (((∑ l, Rt b l j * p l) + ∑ j', (∑ l, Y j' l t * p l) * C b j j') * Y j k t
                  + GN b j (t, fun j => N j t) * ∑ l, Zj j k l * p l))) * q k) t := fun k => by
    have h := HasDerivAt.fun_sum (u := Finset.univ) (fun b _ =>
      (hθ b k).add (HasDerivAt.fun_sum (u := Finset.univ) (fun j _ => (hn b j).mul (hY j k))))
    exact (h.const_add 0).mul_const (q k)
  have h := HasDerivAt.fun_sum (u := Finset.univ) (fun k _ => hk k)
  refine h.congr_deriv ?_
  apply Finset.sum_congr rfl; intro k _
  have e : ∑ l, q k * (0 + ∑ b, partHessFn (A b) (B b) (Rt b) (fun k j => Y j k t) (C b) (fun j => GN b j (t, fun j => N j t))
              (fun k l j => Zj j k l) (fun k l j => Zj j l k) k l) * p l
      = (∑ b, ∑ l, partHessFn (A b) (B b) (Rt b) (fun k j => Y j k t) (C b) (fun j => GN b j (t, fun j => N j t))
              (fun k l j => Zj j k l) (fun k l j => Zj j l k) k l * p l) * q k := by
    rw [Finset.sum_comm, Finset.sum_mul]
    have e2 : ∀ l, q k * (0 + ∑ b, partHessFn (A b) (B b) (Rt b) (fun k j => Y j k t) (C b) (fun j => GN b j (t, fun j => N j t))
              (fun k l j => Zj j k l) (fun k l j => Zj j l k) k l) * p l
        = (∑ b, partHessFn (A b) (B b) (Rt b) (fun k j => Y j k t) (C b) (fun j => GN b j (t, fun j => N j t))
              (fun k l j => Zj j k l) (fun k l j => Zj j l k) k l * p l) * q k := fun l => by
      rw [zero_add, Finset.sum_mul, Finset.mul_sum, Finset.sum_mul]
      apply Finset.sum_congr rfl; intro b _; ring
    rw [Finset.sum_congr rfl (fun l _ => e2 l)]
  rw [e]
  congr 1
  apply Finset.sum_congr rfl; intro b _
  rw [partHessFn_mulVec]
  have ez : ∀ j, (0.5 : ℝ) * (∑ l, Zj j k l * p l + ∑ l, Zj j l k * p l) = ∑ l, Zj j k l * p l := fun j => by
    have : ∑ l, Zj j l k * p l = ∑ l, Zj j k l * p l := Finset.sum_congr rfl (fun l _ => by rw [hZ j l k])
    rw [this]; ring
  simp only [ez]
  -- both sides: A·p + Σ_j B_kj N'_j + Σ_j Y_jk (R_j·p + Σ_j' C_jj' N'_j') + Σ_j gN_j Z_jk·p
  rw [Finset.sum_add_distrib]
  have e3 : ∀ j, ((∑ l, Rt b l j * p l) + ∑ j', (∑ l, Y j' l t * p l) * C b j j') * Y j k t
      = Y j k t * (∑ l, Rt b l j * p l) + Y j k t * ∑ j', C b j j' * ∑ l, Y j' l t * p l := fun j => by
    have : ∑ j', (∑ l, Y j' l t * p l) * C b j j' = ∑ j', C b j j' * ∑ l, Y j' l t * p l :=
      Finset.sum_congr rfl (fun j' _ => mul_comm _ _)
    rw [this]; ring
  rw [Finset.sum_congr rfl (fun j _ => e3 j), Finset.sum_add_distrib]
  have e4 : ∑ j, (∑ l, Y j l t * p l) * B b k j = ∑ j, B b k j * ∑ l, Y j l t * p l :=
    Finset.sum_congr rfl (fun j _ => mul_comm _ _)
  rw [e4]
  ring

/-- non-vacuity of the Fréchet hypotheses of `custom_hess_is_deriv` (one parameter, one factor): the tape gradient
`GN(s, N) = N 0 + s` has the blocks `R = 1`, `C = 1`. -/
example : ∃ (GN : ℝ × (Fin 1 → ℝ) → ℝ) (GN' : ℝ × (Fin 1 → ℝ) →L[ℝ] ℝ), HasFDerivAt GN GN' (0, fun _ => 1) ∧
    GN' (1, 0) = ∑ l : Fin 1, (fun _ => (1 : ℝ)) l * (fun _ => (1 : ℝ)) l ∧ GN' (0, Pi.single 0 1) = 1 :=
  ⟨fun x => x.1 + x.2 0,
    ContinuousLinearMap.fst ℝ ℝ (Fin 1 → ℝ) + (ContinuousLinearMap.proj 0).comp (ContinuousLinearMap.snd ℝ ℝ (Fin 1 → ℝ)),
    (ContinuousLinearMap.fst ℝ ℝ (Fin 1 → ℝ) + (ContinuousLinearMap.proj 0).comp (ContinuousLinearMap.snd ℝ ℝ (Fin 1 → ℝ))).hasFDerivAt,
    by simp, by simp⟩

/-! ## `inject_mc` (`Model_new.nll_grad_batch` = `sum_gradient_new`, model.py:189-232): one tape over everything -/

/-- `inmc_grad_is_deriv`: with per-event partials `df`, the gradient `gI` of `int_dt = Σ_j v_j f(y_j)` and a FIXED
injected-MC weight `wmc`, the gradient of `nll = −Σ_i w_i clip_log((f_i/int_dt + wmc)/(1 + wmc))` by the chain rule
(`inmcGrad`, compared with the library's tape by the harness) is the derivative of the value returned alongside
(`inmcVal`); any number of events and parameters, away from the `clip_log` junction and `int_dt = 0`.
(With `float_wmc=True` the extra component ∂/∂wmc is covered by finite differences only.) -/
theorem inmc_grad_is_deriv {m n : Nat} (wmc : ℝ) (w : Fin m → ℝ) (f : Fin m → ℝ → ℝ) (I : ℝ → ℝ)
    (df : Fin n → Fin m → ℝ) (gI p : Fin n → ℝ) (t : ℝ)
    (hf : ∀ i, HasDerivAt (f i) (∑ k, df k i * p k) t) (hI : HasDerivAt I (∑ k, gI k * p k) t) (hI0 : I t ≠ 0)
    (hclip : ∀ i, inmcArg (I t) wmc (f i t) ≠ epsC) :
    HasDerivAt (fun s => inmcVal (I s) wmc (List.ofFn w) (List.ofFn fun i => f i s))
      (dot (inmcGrad (I t) wmc (List.ofFn w) (List.ofFn fun i => f i t) (ofFn2 df) (List.ofFn gI)) (List.ofFn p)) t := by
  rw [inmcGrad_ofFn, dot_ofFn]
  have hfun : (fun s => inmcVal (I s) wmc (List.ofFn w) (List.ofFn fun i => f i s))
      = fun s => -∑ i, w i * clipLog (inmcArg (I s) wmc (f i s)) := by
    funext s; rw [inmcVal_ofFn]
  rw [hfun]
  set dI := ∑ k, gI k * p k with hdI
  have ha : ∀ i, HasDerivAt (fun s => inmcArg (I s) wmc (f i s))
      ((((∑ k, df k i * p k) * I t - f i t * dI) / I t ^ 2) / (1 + wmc)) t := fun i => by
    unfold inmcArg
    exact ((((hf i).div hI hI0)).add_const wmc).div_const (1 + wmc)
  have hi : ∀ i, HasDerivAt (fun s => w i * clipLog (inmcArg (I s) wmc (f i s)))
      (w i * (clipLogD (inmcArg (I t) wmc (f i t)) * ((((∑ k, df k i * p k) * I t - f i t * dI) / I t ^ 2) / (1 + wmc)))) t := fun i => by
    have hc := (clipLog_hasDerivAt _ (hclip i)).1
    have h1 := HasDerivAt.comp t hc (ha i)
    exact h1.const_mul (w i)
  have h := (HasDerivAt.fun_sum (u := Finset.univ) (fun i _ => hi i)).neg
  refine h.congr_deriv ?_
  have e1 : ∀ i, w i * (clipLogD (inmcArg (I t) wmc (f i t)) * ((((∑ k, df k i * p k) * I t - f i t * dI) / I t ^ 2) / (1 + wmc)))
      = ∑ k, w i * clipLogD (inmcArg (I t) wmc (f i t)) * ((df k i / I t - f i t * gI k / (I t * I t)) / (1 + wmc)) * p k := fun i => by
    have e2 : ∑ k, w i * clipLogD (inmcArg (I t) wmc (f i t)) * ((df k i / I t - f i t * gI k / (I t * I t)) / (1 + wmc)) * p k
        = (w i * clipLogD (inmcArg (I t) wmc (f i t)) / I t / (1 + wmc)) * (∑ k, df k i * p k)
          + (-(w i * clipLogD (inmcArg (I t) wmc (f i t)) * f i t / (I t * I t) / (1 + wmc))) * dI := by
      rw [hdI, ← sum_lin2]
      apply Finset.sum_congr rfl; intro k _; ring
    rw [e2]
    have e3 : ((∑ k, df k i * p k) * I t - f i t * dI) / I t ^ 2 = (∑ k, df k i * p k) / I t - f i t * dI / (I t * I t) := by
      field_simp
    rw [e3]
    ring
  rw [Finset.sum_congr rfl (fun i _ => e1 i), Finset.sum_comm, ← Finset.sum_neg_distrib]
  apply Finset.sum_congr rfl; intro k _
  rw [neg_mul, Finset.sum_mul]

example : ∃ (I : ℝ → ℝ), I 0 ≠ 0 ∧ HasDerivAt I (∑ k : Fin 1, (fun _ => (2 : ℝ)) k * (fun _ => (1 : ℝ)) k) 0 :=
  ⟨fun s => 1 + 2 * s, by norm_num, by simpa using ((hasDerivAt_id' (0 : ℝ)).const_mul 2).const_add 1⟩

/-- `constr_frac_grad_is_deriv`: the `constr_frac` model end to end, for any number
of MC batches (`Bm + 1`), data batches (`Bd`), fraction constraints (`c`) and parameters (`n`).  `Nc a j` is factor
`j` of MC batch `a` along the line (`j = 0`: the total integral, `j = i + 1`: the integral of constrained part `i`),
`G a j` its gradient; `L b` the data term `Σ w log f` of data batch `b` with gradient `gLn b`.  The value returned by
`nll_grad_batch` is `Σ_b constrFracVal b …` — the fraction terms in batch 0 only — and the returned gradient, assembled
by `customNllGrad` from the closed partials `constrFracGN`, is its derivative. -/
theorem constr_frac_grad_is_deriv {n c Bm Bd : Nat}
    (Nc : Fin (Bm + 1) → Fin (c + 1) → ℝ → ℝ) (G : Fin (Bm + 1) → Fin (c + 1) → Fin n → ℝ)
    (L : Fin Bd → ℝ → ℝ) (gLn : Fin Bd → Fin n → ℝ) (sw : Fin Bd → ℝ) (cs : Fin c → ℝ × ℝ) (p : Fin n → ℝ) (t : ℝ)
    (hN : ∀ a j, HasDerivAt (Nc a j) (∑ k, G a j k * p k) t)
    (hL : ∀ b, HasDerivAt (L b) (∑ k, gLn b k * p k) t)
    (h0 : ∑ a, Nc a 0 t ≠ 0) :
    HasDerivAt (fun s => ∑ b : Fin Bd, constrFracVal b.val (L b s) (sw b) (List.ofFn fun j => ∑ a, Nc a j s) (List.ofFn cs))
      (dot (customNllGrad n (List.ofFn fun a => (List.ofFn fun j => Nc a j t, ofFn2 (G a)))
              (List.ofFn fun b : Fin Bd =>
                (constrFracVal b.val (L b t) (sw b) (List.ofFn fun j => ∑ a, Nc a j t) (List.ofFn cs),
                  List.ofFn fun k => -gLn b k,
                  constrFracGN b.val (sw b) (List.ofFn fun j => ∑ a, Nc a j t) (List.ofFn cs)))).2 (List.ofFn p)) t := by
  have hparts : (List.ofFn fun b : Fin Bd =>
                (constrFracVal b.val (L b t) (sw b) (List.ofFn fun j => ∑ a, Nc a j t) (List.ofFn cs),
                  List.ofFn fun k => -gLn b k,
                  constrFracGN b.val (sw b) (List.ofFn fun j => ∑ a, Nc a j t) (List.ofFn cs)))
      = List.ofFn fun b : Fin Bd =>
                (constrFracVal b.val (L b t) (sw b) (List.ofFn fun j => ∑ a, Nc a j t) (List.ofFn cs),
                  List.ofFn (fun k => -gLn b k),
                  List.ofFn (cfGNfn b.val (sw b) (fun j => ∑ a, Nc a j t) cs)) := by
    congr 1; funext b; rw [constrFracGN_ofFn]
  rw [hparts, customNllGrad_ofFn (fun a j => Nc a j t) G]
  simp only
  rw [dot_ofFn]
  -- the summed factors and their derivatives
  have hNt : ∀ j, HasDerivAt (fun s => ∑ a, Nc a j s) (∑ k, (∑ a, G a j k) * p k) t := fun j => by
    have h := HasDerivAt.fun_sum (u := Finset.univ) (fun a _ => hN a j)
    refine h.congr_deriv ?_
    rw [Finset.sum_comm]
    apply Finset.sum_congr rfl; intro k _
    rw [Finset.sum_mul]
  set N' : Fin (c + 1) → ℝ := fun j => ∑ k, (∑ a, G a j k) * p k with hN'
  have hb : ∀ b : Fin Bd, HasDerivAt
      (fun s => constrFracVal b.val (L b s) (sw b) (List.ofFn fun j => ∑ a, Nc a j s) (List.ofFn cs))
      (-(∑ k, gLn b k * p k) + ∑ j, cfGNfn b.val (sw b) (fun j => ∑ a, Nc a j t) cs j * N' j) t := fun b => by
    have hf : (fun s => constrFracVal b.val (L b s) (sw b) (List.ofFn fun j => ∑ a, Nc a j s) (List.ofFn cs))
        = fun s => -L b s + sw b * Real.log (∑ a, Nc a 0 s)
            + if b.val = 0 then fracTerm (∑ a, Nc a 0 s) (List.ofFn fun i : Fin c => ∑ a, Nc a i.succ s) (List.ofFn cs) else 0 := by
      funext s; rw [constrFracVal_ofFn]
    rw [hf, Fin.sum_univ_succ]
    have hbase := (hL b).neg.add (((hNt 0).log h0).const_mul (sw b))
    unfold cfGNfn
    simp only [Fin.cons_zero, Fin.cons_succ]
    by_cases hidx : b.val = 0
    · simp only [hidx, if_true]
      have hfr := constr_frac_term_is_deriv (fun s => ∑ a, Nc a 0 s) (fun i s => ∑ a, Nc a i.succ s) cs
        (N' 0) (fun i => N' i.succ) t (hNt 0) (fun i => hNt i.succ) h0
      rw [fracGN0_ofFn, fracGNrest_ofFn, dot_ofFn] at hfr
      refine (hbase.add hfr).congr_deriv ?_
      ring
    · simp only [hidx, if_false, add_zero, zero_mul, Finset.sum_const_zero]
      refine hbase.congr_deriv ?_
      ring
  have h := HasDerivAt.fun_sum (u := Finset.univ) (fun b _ => hb b)
  refine h.congr_deriv ?_
  have e1 : ∀ k, (∑ b : Fin Bd, (-gLn b k + ∑ j, cfGNfn b.val (sw b) (fun j => ∑ a, Nc a j t) cs j * ∑ a, G a j k)) * p k
      = ∑ b : Fin Bd, (-(gLn b k * p k) + ∑ j, cfGNfn b.val (sw b) (fun j => ∑ a, Nc a j t) cs j * ((∑ a, G a j k) * p k)) := fun k => by
    rw [Finset.sum_mul]
    apply Finset.sum_congr rfl; intro b _
    rw [add_mul, Finset.sum_mul]
    congr 1
    · ring
    · apply Finset.sum_congr rfl; intro j _; ring
  rw [Finset.sum_congr rfl (fun k _ => e1 k), Finset.sum_comm]
  apply Finset.sum_congr rfl; intro b _
  rw [Finset.sum_add_distrib, Finset.sum_neg_distrib]
  congr 1
  rw [Finset.sum_comm]
  apply Finset.sum_congr rfl; intro j _
  rw [← Finset.mul_sum]

/-- non-vacuity of `constr_frac_grad_is_deriv`: one MC batch with total integral `1 + s` and one constrained part `s`. -/
example : ∃ (Nc : Fin 1 → Fin 2 → ℝ → ℝ), (∑ a, Nc a 0 0 ≠ 0) ∧ HasDerivAt (Nc 0 0) 1 0 ∧ HasDerivAt (Nc 0 1) 1 0 :=
  ⟨fun _ j s => if j = 0 then 1 + s else s, by simp,
    by simpa using (hasDerivAt_id' (0 : ℝ)).const_add 1, by simpa using hasDerivAt_id' (0 : ℝ)⟩

/-- `cfit_bg_param_hess_is_deriv`: `Model_cfit.nll_grad_hessian` when the background is parametrised — BOTH `I_sig` and
`I_bg`, both gradient tables `gSig(s)`, `gBg(s)` and both Hessians `hSig`, `hBg` are non-trivial: this is
`cfit_hess_is_deriv` (C07b) at `ext = false`, restated under the name of the case it covers: the term
`g_ll_bg · h_int_bg` and the `bBg / rBg / cSB / cBS / cBB` blocks of `JᵀH_ll J` are exactly what a floating background
parameter adds. -/
theorem cfit_bg_param_hess_is_deriv {n : Nat}
    (Gθ : Fin n → ℝ × ℝ × ℝ → ℝ) (GS GB : ℝ × ℝ × ℝ → ℝ)
    (Gθ' : Fin n → (ℝ × ℝ × ℝ →L[ℝ] ℝ)) (GS' GB' : ℝ × ℝ × ℝ →L[ℝ] ℝ)
    (Is Ib : ℝ → ℝ) (gSig gBg : Fin n → ℝ → ℝ)
    (A hSig hBg : Fin n → Fin n → ℝ) (bSig bBg rSig rBg p q : Fin n → ℝ) (cSS cSB cBS cBB sw wB t : ℝ)
    (hGθ : ∀ k, HasFDerivAt (Gθ k) (Gθ' k) (t, Is t, Ib t))
    (hGS : HasFDerivAt GS GS' (t, Is t, Ib t)) (hGB : HasFDerivAt GB GB' (t, Is t, Ib t))
    (hA : ∀ k, Gθ' k (1, 0, 0) = ∑ j, A k j * p j) (hbS : ∀ k, Gθ' k (0, 1, 0) = bSig k) (hbB : ∀ k, Gθ' k (0, 0, 1) = bBg k)
    (hrS : GS' (1, 0, 0) = ∑ j, rSig j * p j) (hSS : GS' (0, 1, 0) = cSS) (hSB : GS' (0, 0, 1) = cSB)
    (hrB : GB' (1, 0, 0) = ∑ j, rBg j * p j) (hBS : GB' (0, 1, 0) = cBS) (hBB : GB' (0, 0, 1) = cBB)
    (hgS : ∀ k, HasDerivAt (gSig k) (∑ j, hSig k j * p j) t) (hgB : ∀ k, HasDerivAt (gBg k) (∑ j, hBg k j * p j) t)
    (hIs : HasDerivAt Is (∑ j, gSig j t * p j) t) (hIb : HasDerivAt Ib (∑ j, gBg j t * p j) t) :
    HasDerivAt (fun s => dot (cfitGrad false (List.ofFn fun k => Gθ k (s, Is s, Ib s)) (List.ofFn fun k => gSig k s)
                              (List.ofFn fun k => gBg k s) (GS (s, Is s, Ib s)) (GB (s, Is s, Ib s)) sw (Is s) wB) (List.ofFn q))
      (dot (matVec (cfitHess false (ofFn2 A) (List.ofFn bSig) (List.ofFn bBg) (List.ofFn rSig) (List.ofFn rBg)
                      (List.ofFn fun k => gSig k t) (List.ofFn fun k => gBg k t) cSS cSB cBS cBB (ofFn2 hSig) (ofFn2 hBg)
                      (GS (t, Is t, Ib t)) (GB (t, Is t, Ib t)) sw (Is t) wB) (List.ofFn p)) (List.ofFn q)) t :=
  cfit_hess_is_deriv false Gθ GS GB Gθ' GS' GB' Is Ib gSig gBg A hSig hBg bSig bBg rSig rBg p q cSS cSB cBS cBB sw wB t
    hGθ hGS hGB hA hbS hbB hrS hSS hSB hrB hBS hBB hgS hgB hIs hIb (fun h => absurd h (by decide))

/-- the `simple` model is the `constr_frac` model without constraints: `eval_nll_part` and its partial with respect
to the single normalisation factor coincide for every batch index, so `constr_frac_grad_is_deriv` at `c = 0` is the
statement for `SimpleNllModel.nll_grad_batch` (any number of MC and data batches). -/
theorem simple_is_constr_frac_nil (idx : Nat) (ln sw n0 : ℝ) :
    simpleVal ln sw [n0] = constrFracVal idx ln sw [n0] [] ∧ simpleGN sw [n0] = constrFracGN idx sw [n0] [] := by
  by_cases h : idx = 0 <;> simp [simpleVal, constrFracVal, simpleGN, constrFracGN, fracTerm, fracGN0, fracGNrest, h]

/-- `custom_hess_mc_batches`: the MC-batch loop of `nll_grad_hessian` (`SumVar.from_call_with_hess` per batch,
`SumVar.__add__`), for any number `Bm + 1` of MC batches: the summed `SumVar` carries the sums of values, gradients and
Hessians, and IF every batch's gradient / Hessian are the derivatives of its factors / gradients (Hessians symmetric)
THEN the sums satisfy exactly the hypotheses `hN`, `hY`, `hZ` that `custom_hess_is_deriv` asks of the summed factors. -/
theorem custom_hess_mc_batches {n m Bm : Nat}
    (Nc : Fin (Bm + 1) → Fin m → ℝ → ℝ) (Yc : Fin (Bm + 1) → Fin m → Fin n → ℝ → ℝ)
    (Zc : Fin (Bm + 1) → Fin m → Fin n → Fin n → ℝ) (p : Fin n → ℝ) (t : ℝ)
    (hN : ∀ a j, HasDerivAt (Nc a j) (∑ l, Yc a j l t * p l) t)
    (hY : ∀ a j k, HasDerivAt (Yc a j k) (∑ l, Zc a j k l * p l) t)
    (hZ : ∀ a j k l, Zc a j k l = Zc a j l k) :
    svhSum (List.ofFn fun j => Nc 0 j t, ofFn2 fun j k => Yc 0 j k t, ofFn3 (Zc 0))
        (List.ofFn fun a : Fin Bm => (List.ofFn fun j => Nc a.succ j t, ofFn2 fun j k => Yc a.succ j k t, ofFn3 (Zc a.succ)))
      = (List.ofFn fun j => ∑ a, Nc a j t, ofFn2 fun j k => ∑ a, Yc a j k t, ofFn3 fun j k l => ∑ a, Zc a j k l) ∧
    (∀ j, HasDerivAt (fun s => ∑ a, Nc a j s) (∑ l, (∑ a, Yc a j l t) * p l) t) ∧
    (∀ j k, HasDerivAt (fun s => ∑ a, Yc a j k s) (∑ l, (∑ a, Zc a j k l) * p l) t) ∧
    (∀ j k l, ∑ a, Zc a j k l = ∑ a, Zc a j l k) := by
  refine ⟨svhSum_ofFn (fun a j => Nc a j t) (fun a j k => Yc a j k t) Zc, fun j => ?_, fun j k => ?_, fun j k l => ?_⟩
  · have h := HasDerivAt.fun_sum (u := Finset.univ) (fun a _ => hN a j)
    refine h.congr_deriv ?_
    rw [Finset.sum_comm]
    apply Finset.sum_congr rfl; intro l _
    rw [Finset.sum_mul]
  · have h := HasDerivAt.fun_sum (u := Finset.univ) (fun a _ => hY a j k)
    refine h.congr_deriv ?_
    rw [Finset.sum_comm]
    apply Finset.sum_congr rfl; intro l _
    rw [Finset.sum_mul]
  · exact Finset.sum_congr rfl (fun a _ => hZ a j k l)

/-- `simple_clip_grad_is_deriv`: `SimpleClipNllModel.nll_grad_batch` end to end (`clip_log` on the events — inside the
hypothesis on `L b` — and on the normalisation factor), any number of MC and data batches; away from the junction
`norm[0] = 1e-6` of `clip_log`. -/
theorem simple_clip_grad_is_deriv {n Bm Bd : Nat}
    (Nc : Fin (Bm + 1) → Fin 1 → ℝ → ℝ) (G : Fin (Bm + 1) → Fin 1 → Fin n → ℝ)
    (L : Fin Bd → ℝ → ℝ) (gLn : Fin Bd → Fin n → ℝ) (sw : Fin Bd → ℝ) (p : Fin n → ℝ) (t : ℝ)
    (hN : ∀ a j, HasDerivAt (Nc a j) (∑ k, G a j k * p k) t)
    (hL : ∀ b, HasDerivAt (L b) (∑ k, gLn b k * p k) t)
    (h0 : ∑ a, Nc a 0 t ≠ epsC) :
    HasDerivAt (fun s => ∑ b : Fin Bd, simpleClipVal (L b s) (sw b) (List.ofFn fun j => ∑ a, Nc a j s))
      (dot (customNllGrad n (List.ofFn fun a => (List.ofFn fun j => Nc a j t, ofFn2 (G a)))
              (List.ofFn fun b : Fin Bd =>
                (simpleClipVal (L b t) (sw b) (List.ofFn fun j => ∑ a, Nc a j t),
                  List.ofFn fun k => -gLn b k,
                  simpleClipGN (sw b) (List.ofFn fun j => ∑ a, Nc a j t)))).2 (List.ofFn p)) t := by
  have hgn : ∀ b : Fin Bd, simpleClipGN (sw b) (List.ofFn fun j : Fin 1 => ∑ a, Nc a j t)
      = List.ofFn (fun _ : Fin 1 => sw b * clipLogD (∑ a, Nc a 0 t)) := fun b => by
    simp [simpleClipGN, List.ofFn_succ]
  have hparts : (List.ofFn fun b : Fin Bd =>
                (simpleClipVal (L b t) (sw b) (List.ofFn fun j => ∑ a, Nc a j t),
                  List.ofFn fun k => -gLn b k,
                  simpleClipGN (sw b) (List.ofFn fun j => ∑ a, Nc a j t)))
      = List.ofFn fun b : Fin Bd =>
                (simpleClipVal (L b t) (sw b) (List.ofFn fun j => ∑ a, Nc a j t),
                  List.ofFn (fun k => -gLn b k),
                  List.ofFn (fun _ : Fin 1 => sw b * clipLogD (∑ a, Nc a 0 t))) := by
    simp only [hgn]
  rw [hparts, customNllGrad_ofFn (fun a j => Nc a j t) G]
  simp only
  rw [dot_ofFn]
  have hNt : HasDerivAt (fun s => ∑ a, Nc a 0 s) (∑ k, (∑ a, G a 0 k) * p k) t := by
    have h := HasDerivAt.fun_sum (u := Finset.univ) (fun a _ => hN a 0)
    refine h.congr_deriv ?_
    rw [Finset.sum_comm]
    apply Finset.sum_congr rfl; intro k _
    rw [Finset.sum_mul]
  have hf : (fun s => ∑ b : Fin Bd, simpleClipVal (L b s) (sw b) (List.ofFn fun j => ∑ a, Nc a j s))
      = fun s => ∑ b : Fin Bd, (-L b s + sw b * clipLog (∑ a, Nc a 0 s)) := by
    funext s
    apply Finset.sum_congr rfl; intro b _
    simp [simpleClipVal, List.ofFn_succ]
  rw [hf]
  have hc := (clipLog_hasDerivAt _ h0).1
  have hb : ∀ b : Fin Bd, HasDerivAt (fun s => -L b s + sw b * clipLog (∑ a, Nc a 0 s))
      (-(∑ k, gLn b k * p k) + sw b * (clipLogD (∑ a, Nc a 0 t) * ∑ k, (∑ a, G a 0 k) * p k)) t := fun b => by
    have h1 := HasDerivAt.comp t hc hNt
    have h2 : HasDerivAt (fun s => sw b * clipLog (∑ a, Nc a 0 s))
        (sw b * (clipLogD (∑ a, Nc a 0 t) * ∑ k, (∑ a, G a 0 k) * p k)) t := h1.const_mul (sw b)
    exact (hL b).neg.add h2
  have h := HasDerivAt.fun_sum (u := Finset.univ) (fun b _ => hb b)
  refine h.congr_deriv ?_
  have e1 : ∀ k, (∑ b : Fin Bd, (-gLn b k + ∑ _j : Fin 1, sw b * clipLogD (∑ a, Nc a 0 t) * ∑ a, G a 0 k)) * p k
      = ∑ b : Fin Bd, (-(gLn b k * p k) + sw b * clipLogD (∑ a, Nc a 0 t) * ((∑ a, G a 0 k) * p k)) := fun k => by
    rw [Finset.sum_mul]
    apply Finset.sum_congr rfl; intro b _
    simp only [Finset.univ_unique, Finset.sum_singleton]
    ring
  have e0 : ∀ k, (∑ b : Fin Bd, (-gLn b k + ∑ j : Fin 1, sw b * clipLogD (∑ a, Nc a 0 t) * ∑ a, G a j k)) * p k
      = (∑ b : Fin Bd, (-gLn b k + ∑ _j : Fin 1, sw b * clipLogD (∑ a, Nc a 0 t) * ∑ a, G a 0 k)) * p k := fun k => by
    congr 1
  rw [Finset.sum_congr rfl (fun k _ => (e0 k).trans (e1 k)), Finset.sum_comm]
  apply Finset.sum_congr rfl; intro b _
  rw [Finset.sum_add_distrib, Finset.sum_neg_distrib, ← Finset.mul_sum]
  ring

example : ∃ (N : ℝ → ℝ), N 0 ≠ epsC ∧ HasDerivAt N 1 0 :=
  ⟨fun s => 1 + s, by norm_num [epsC], by simpa using (hasDerivAt_id' (0 : ℝ)).const_add 1⟩

end TfPwaV.C07
