import TfPwaV.Props.C02
import TfPwaV.Props.C01
import TfPwaV.Props.C01b
/-!
# C02 (all spins) — `convention_invariant` for every final-state spin 2j ≤ 8

`Props/C02.lean` leaves two hypotheses in `convention_invariant_partial`: "`D` is multiplicative" and "`D(G)` is
unitary".  Here they are discharged for the matrix the code actually contracts into the chain amplitude
(`amp/core.py:1414-1429`): `get_D_matrix_lambda(R.get_euler_angle(), j, …)` = `D_matrix_conj(α, β, γ)` at the Euler
angles `(α, β, γ) = get_euler_angle(R)` of the alignment element, i.e. `codeD N R` below, for every spin `N = 2j ≤ 8`:

* `euler_roundtrip` (`Props/C12b.lean`): `Rz(γ)Ry(β)Rz(α) = R` for every `R ∈ SU(2)`;
* `DConj_compose` / `D_hom_su2` (`Props/C01b.lean`, `Props/C12d.lean`): the D-matrices compose when the rotations do;
* `D_conj_unitary` (`Props/C01.lean`): `D_matrix_conj` is unitary for all angles.

What remains is kinematic only: the alignment elements are rotations (`IsSU2`), i.e. the boosts accumulated along two
decay chains of one event cancel to a pure (Wigner) rotation.
-/
open TfPwaV.ScalarR
open Matrix
namespace TfPwaV.C02
open TfPwaV.SU2R TfPwaV.AlignR TfPwaV.C12 TfPwaV.UnitaryMix TfPwaV.FrameAlg TfPwaV.C01

/-! ### reversal of the Euler order -/

/-- the anti-automorphism `x ↦ σ xᵀ σ`, `σ = diag(1, −1)`: it fixes `Rotation_z` and `Rotation_y` and reverses products,
so it turns `Rz(γ)Ry(β)Rz(α)` (the element whose `get_euler_angle` is `(α,β,γ)`) into `Rz(α)Ry(β)Rz(γ)` (the rotation
`D_matrix_conj(α,β,γ)` represents) -/
def rev (x : M2) : M2 := ⟨x.x00, x.x10.neg, x.x01.neg, x.x11⟩

theorem rev_mul (x y : M2) : rev (x.mul y) = (rev y).mul (rev x) := by
  ext <;> simp [rev, M2.mul, Cx.mul, Cx.add, Cx.neg] <;> ring

theorem rev_rotZ (a : ℝ) : rev (rotZ a) = rotZ a := by
  rw [rotZ_eq]; ext <;> simp [rev, Cx.neg, Cx.zero]

theorem rev_rotY (b : ℝ) : rev (rotY b) = rotY b := by
  unfold rotY; ext <;> simp [rev, Cx.neg]

theorem rev_ofEuler (e : Euler) : rev (ofEuler e) = rot3 e.alpha e.beta e.gamma := by
  unfold ofEuler rot3
  rw [rev_mul, rev_mul, rev_rotZ, rev_rotZ, rev_rotY, su2_mul_assoc]

/-- for every element of SU(2): the rotation at its own Euler angles, in the order `D_matrix_conj` uses, is `rev x` -/
theorem rot3_eulerOf (x : M2) (hx : IsSU2 x) :
    rot3 (eulerOf x).alpha (eulerOf x).beta (eulerOf x).gamma = rev x := by
  rw [← rev_ofEuler, euler_roundtrip x hx]

/-! ### the matrix the code contracts -/

/-- `D_matrix_conj(*get_euler_angle(R), N)`: `codeD N R μ Λ = e^{i m_μ α} d^j_{μΛ}(β) e^{i m_Λ γ}` -/
noncomputable def codeD (N : ℕ) (x : M2) : Matrix (Fin (N + 1)) (Fin (N + 1)) ℂ :=
  DConj N (eulerOf x).alpha (eulerOf x).beta (eulerOf x).gamma

theorem codeD_apply (N : ℕ) (x : M2) (i k : Fin (N + 1)) :
    codeD N x i k = FrameAlg.phase N (eulerOf x).alpha i * ((dReal N i k (eulerOf x).beta : ℝ) : ℂ) *
      FrameAlg.phase N (eulerOf x).gamma k :=
  D_conj_entry N _ _ _ i k

/-- **`hmul` discharged**: on SU(2) the code's alignment matrix reverses products, for every spin `2j = N ≤ 8` -/
theorem codeD_mul (N : ℕ) (hN : N ≤ 8) (x y : M2) (hx : IsSU2 x) (hy : IsSU2 y) :
    codeD N (x.mul y) = codeD N y * codeD N x := by
  unfold codeD
  apply DConj_compose N hN
  rw [rot3_eulerOf _ (isSU2_mul x y hx hy), rot3_eulerOf y hy, rot3_eulerOf x hx, rev_mul]

/-- **`hU` discharged**: unitary for every argument -/
theorem codeD_unitary (N : ℕ) (hN : N ≤ 8) (x : M2) : star (codeD N x) * codeD N x = 1 :=
  D_conj_unitary N hN _ _ _

/-- the action on the helicity index of the aligned particle: `DecayChain.get_amp` contracts
`amp[…, μ, …] · D[μ, Λ]` over the chain-frame helicity `μ`, i.e. applies the TRANSPOSE of `codeD` -/
noncomputable def alignD (N : ℕ) (x : M2) : Matrix (Fin (N + 1)) (Fin (N + 1)) ℂ := (codeD N x)ᵀ

/-- literally the `einsum` of `get_amp`, with spectator indices `s` (parent helicity, other final particles) -/
theorem alignD_einsum {ι' : Type} [Fintype ι'] [DecidableEq ι'] (N : ℕ) (x : M2) (A : ι' × Fin (N + 1) → ℂ)
    (s : ι') (Λ : Fin (N + 1)) :
    (kroneckerMap (· * ·) (1 : Matrix ι' ι' ℂ) (alignD N x) *ᵥ A) (s, Λ) = ∑ μ, A (s, μ) * codeD N x μ Λ := by
  simp only [mulVec, dotProduct, kroneckerMap_apply, alignD, transpose_apply, Fintype.sum_prod_type, one_apply]
  rw [Finset.sum_eq_single s]
  · simp [mul_comm]
  · intro b _ hb; simp [Ne.symm hb]
  · intro h; exact absurd (Finset.mem_univ s) h

theorem alignD_mul (N : ℕ) (hN : N ≤ 8) (x y : M2) (hx : IsSU2 x) (hy : IsSU2 y) :
    alignD N (x.mul y) = alignD N x * alignD N y := by
  unfold alignD
  rw [codeD_mul N hN x y hx hy, transpose_mul]

theorem alignD_unitary (N : ℕ) (hN : N ≤ 8) (x : M2) : star (alignD N x) * alignD N x = 1 := by
  have h : codeD N x * star (codeD N x) = 1 := mul_eq_one_comm.mp (codeD_unitary N hN x)
  have h2 : star (alignD N x) * alignD N x = (codeD N x * star (codeD N x))ᵀ := by
    rw [transpose_mul]
    rfl
  rw [h2, h, transpose_one]

/-- alignment of one final particle of spin `N/2` in all chains, spectators untouched -/
noncomputable def alignOp {ι' : Type} [Fintype ι'] [DecidableEq ι'] (N : ℕ) (x : M2) :
    Matrix (ι' × Fin (N + 1)) (ι' × Fin (N + 1)) ℂ :=
  kroneckerMap (· * ·) (1 : Matrix ι' ι' ℂ) (alignD N x)

theorem alignOp_mul {ι' : Type} [Fintype ι'] [DecidableEq ι'] (N : ℕ) (hN : N ≤ 8) (x y : M2) (hx : IsSU2 x)
    (hy : IsSU2 y) : (alignOp N (x.mul y) : Matrix (ι' × Fin (N + 1)) _ ℂ) = alignOp N x * alignOp N y := by
  unfold alignOp
  rw [alignD_mul N hN x y hx hy]
  change _ = (kroneckerMap (· * ·) 1 (alignD N x)) * (kroneckerMap (· * ·) 1 (alignD N y))
  rw [← Matrix.mul_kronecker_mul, Matrix.one_mul]

theorem alignOp_unitary {ι' : Type} [Fintype ι'] [DecidableEq ι'] (N : ℕ) (hN : N ≤ 8) (x : M2) :
    star (alignOp N x : Matrix (ι' × Fin (N + 1)) _ ℂ) * alignOp N x = 1 :=
  kron_unitary _ _ (by simp) (alignD_unitary N hN x)

/-! ### the theorem -/

/-- **`convention_invariant`** — for a final particle of ANY spin `2j = N ≤ 8`, arbitrary spectator indices `ι'`
(parent helicity, helicities of the other final particles), any number of chains `κ`, any chain amplitudes `A`:
the helicity-summed density computed with the code's alignment matrices `D_matrix_conj(get_euler_angle(R_k))` is the
same for the two references `(b, r)` and `(b', r')` (two chains, or rule 1 vs rule 2).
The ONLY hypotheses are kinematic: the alignment elements are rotations — `G = (b'r')(br)⁻¹ ∈ SU(2)` and
`R_k ∈ SU(2)` for the chains (each `R_k` is itself a change-of-reference element, `changeRef_eq_align`); the
determinant conditions hold for everything the code builds (`det_pathR_boost`, `det_boostZ`, `det_rule2R`). -/
theorem convention_invariant {ι' κ : Type} [Fintype ι'] [DecidableEq ι'] [Fintype κ] (N : ℕ) (hN : N ≤ 8)
    (bref rref bref' rref' : M2) (h1 : bref.det = Cx.one) (h2 : rref.det = Cx.one)
    (hG : IsSU2 (changeRef bref rref bref' rref'))
    (r b : κ → M2) (hR : ∀ k, IsSU2 (alignR bref rref (r k) (b k)))
    (A : κ → ι' × Fin (N + 1) → ℂ) :
    density (fun k => alignOp N (alignR bref' rref' (r k) (b k)) *ᵥ A k) =
      density (fun k => alignOp N (alignR bref rref (r k) (b k)) *ᵥ A k) := by
  have h : (fun k => alignOp N (alignR bref' rref' (r k) (b k)) *ᵥ A k) =
      fun k => (alignOp N (changeRef bref rref bref' rref') : Matrix (ι' × Fin (N + 1)) _ ℂ) *ᵥ
        (alignOp N (alignR bref rref (r k) (b k)) *ᵥ A k) := by
    funext k
    rw [align_cocycle bref rref bref' rref' (r k) (b k) h1 h2, alignOp_mul N hN _ _ hG (hR k),
      Matrix.mulVec_mulVec]
  rw [h]
  exact unitary_mix _ (alignOp_unitary N hN _) _

/-- the new alignment elements are rotations as well -/
theorem aligned_isSU2 (bref rref bref' rref' rk bk : M2) (h1 : bref.det = Cx.one) (h2 : rref.det = Cx.one)
    (hG : IsSU2 (changeRef bref rref bref' rref')) (hR : IsSU2 (alignR bref rref rk bk)) :
    IsSU2 (alignR bref' rref' rk bk) := by
  rw [align_cocycle bref rref bref' rref' rk bk h1 h2]
  exact isSU2_mul _ _ hG hR

/-- **chain order and reference together** (what a reordering of the configuration does), all spins `2j ≤ 8` -/
theorem order_and_reference_invariant {ι' κ : Type} [Fintype ι'] [DecidableEq ι'] [Fintype κ] (σ : Equiv.Perm κ)
    (N : ℕ) (hN : N ≤ 8) (bref rref bref' rref' : M2) (h1 : bref.det = Cx.one) (h2 : rref.det = Cx.one)
    (hG : IsSU2 (changeRef bref rref bref' rref'))
    (r b : κ → M2) (hR : ∀ k, IsSU2 (alignR bref rref (r k) (b k)))
    (A : κ → ι' × Fin (N + 1) → ℂ) :
    density (fun k => alignOp N (alignR bref' rref' (r (σ k)) (b (σ k))) *ᵥ A (σ k)) =
      density (fun k => alignOp N (alignR bref rref (r k) (b k)) *ᵥ A k) := by
  rw [density_perm σ (fun k => alignOp N (alignR bref' rref' (r k) (b k)) *ᵥ A k)]
  exact convention_invariant N hN _ _ _ _ h1 h2 hG r b hR A

/-! ### several spinning final particles -/

/-- alignment of the FIRST of two aligned particles (index layout `(spectators × particle 1) × particle 2`) -/
noncomputable def alignOp1 {ι' : Type} [Fintype ι'] [DecidableEq ι'] (N₁ N₂ : ℕ) (x : M2) :
    Matrix ((ι' × Fin (N₁ + 1)) × Fin (N₂ + 1)) ((ι' × Fin (N₁ + 1)) × Fin (N₂ + 1)) ℂ :=
  kroneckerMap (· * ·) (alignOp N₁ x : Matrix (ι' × Fin (N₁ + 1)) _ ℂ) (1 : Matrix (Fin (N₂ + 1)) (Fin (N₂ + 1)) ℂ)

/-- operators on different helicity indices commute (the `einsum` of `get_amp` has no order) -/
theorem alignOp_comm {ι' : Type} [Fintype ι'] [DecidableEq ι'] (N₁ N₂ : ℕ) (x y : M2) :
    (alignOp N₂ y : Matrix ((ι' × Fin (N₁ + 1)) × Fin (N₂ + 1)) _ ℂ) * alignOp1 N₁ N₂ x =
      alignOp1 N₁ N₂ x * alignOp N₂ y := by
  unfold alignOp1
  conv_lhs => unfold alignOp
  conv_rhs => rw [alignOp]
  change (kroneckerMap (· * ·) 1 (alignD N₂ y)) * (kroneckerMap (· * ·) (alignOp N₁ x) 1) =
    (kroneckerMap (· * ·) (alignOp N₁ x) 1) * (kroneckerMap (· * ·) 1 (alignD N₂ y))
  rw [← Matrix.mul_kronecker_mul, ← Matrix.mul_kronecker_mul, Matrix.one_mul, Matrix.mul_one, Matrix.one_mul,
    Matrix.mul_one]

/-- **two aligned final particles** of spins `N₁/2, N₂/2 ≤ 4`, each with its own pair of references (rule 1 may pick
different reference chains for different particles): changing BOTH references leaves the density unchanged.
Further particles are handled the same way (the spectator index `ι'` is arbitrary). -/
theorem convention_invariant_two {ι' κ : Type} [Fintype ι'] [DecidableEq ι'] [Fintype κ] (N₁ N₂ : ℕ)
    (hN₁ : N₁ ≤ 8) (hN₂ : N₂ ≤ 8)
    (b1 r1 b1' r1' b2 r2 b2' r2' : M2) (h11 : b1.det = Cx.one) (h12 : r1.det = Cx.one)
    (h21 : b2.det = Cx.one) (h22 : r2.det = Cx.one)
    (hG1 : IsSU2 (changeRef b1 r1 b1' r1')) (hG2 : IsSU2 (changeRef b2 r2 b2' r2'))
    (rk1 bk1 rk2 bk2 : κ → M2) (hR1 : ∀ k, IsSU2 (alignR b1 r1 (rk1 k) (bk1 k)))
    (hR2 : ∀ k, IsSU2 (alignR b2 r2 (rk2 k) (bk2 k)))
    (A : κ → (ι' × Fin (N₁ + 1)) × Fin (N₂ + 1) → ℂ) :
    density (fun k => alignOp N₂ (alignR b2' r2' (rk2 k) (bk2 k)) *ᵥ
        (alignOp1 N₁ N₂ (alignR b1' r1' (rk1 k) (bk1 k)) *ᵥ A k)) =
      density (fun k => alignOp N₂ (alignR b2 r2 (rk2 k) (bk2 k)) *ᵥ
        (alignOp1 N₁ N₂ (alignR b1 r1 (rk1 k) (bk1 k)) *ᵥ A k)) := by
  -- particle 2: `convention_invariant` with particle 1 among the spectators
  rw [convention_invariant N₂ hN₂ b2 r2 b2' r2' h21 h22 hG2 rk2 bk2 hR2
    (fun k => alignOp1 N₁ N₂ (alignR b1' r1' (rk1 k) (bk1 k)) *ᵥ A k)]
  -- particle 1: pull the common `G₁` through the particle-2 operator
  have h : (fun k => alignOp N₂ (alignR b2 r2 (rk2 k) (bk2 k)) *ᵥ
        (alignOp1 N₁ N₂ (alignR b1' r1' (rk1 k) (bk1 k)) *ᵥ A k)) =
      fun k => (alignOp1 N₁ N₂ (changeRef b1 r1 b1' r1') : Matrix ((ι' × Fin (N₁ + 1)) × Fin (N₂ + 1)) _ ℂ) *ᵥ
        (alignOp N₂ (alignR b2 r2 (rk2 k) (bk2 k)) *ᵥ (alignOp1 N₁ N₂ (alignR b1 r1 (rk1 k) (bk1 k)) *ᵥ A k)) := by
    funext k
    have hm : (alignOp1 N₁ N₂ (alignR b1' r1' (rk1 k) (bk1 k)) : Matrix ((ι' × Fin (N₁ + 1)) × Fin (N₂ + 1)) _ ℂ) =
        alignOp1 N₁ N₂ (changeRef b1 r1 b1' r1') * alignOp1 N₁ N₂ (alignR b1 r1 (rk1 k) (bk1 k)) := by
      unfold alignOp1
      rw [align_cocycle b1 r1 b1' r1' (rk1 k) (bk1 k) h11 h12, alignOp_mul N₁ hN₁ _ _ hG1 (hR1 k)]
      change _ = (kroneckerMap (· * ·) _ 1) * (kroneckerMap (· * ·) _ 1)
      rw [← Matrix.mul_kronecker_mul, Matrix.one_mul]
    rw [hm]
    simp only [Matrix.mulVec_mulVec]
    rw [← Matrix.mul_assoc, alignOp_comm, Matrix.mul_assoc]
  rw [h]
  exact unitary_mix _ (kron_unitary _ _ (alignOp_unitary N₁ hN₁ _) (by simp)) _

/-- non-vacuity of the kinematic hypotheses: a reference and chains that differ from it by rotations
`Rz(γ)Ry(β)Rz(α)` applied after the same boost–rotation: `G` and every `R_k` are those rotations -/
example (ω a b : ℝ) (e : Euler) :
    IsSU2 (changeRef (boostZ ω) (stepR a b) ((ofEuler e).mul (boostZ ω)) (stepR a b)) := by
  have : changeRef (boostZ ω) (stepR a b) ((ofEuler e).mul (boostZ ω)) (stepR a b) = ofEuler e := by
    unfold changeRef
    rw [su2_mul_assoc, su2_mul_assoc, ← su2_mul_assoc (boostZ ω),
      (su2_inv _ (det_mul_one _ _ (det_boostZ ω) (det_stepR a b))).2, M2.mul_one]
  rw [this]
  exact ofEuler_isSU2 _ _ _

end TfPwaV.C02
