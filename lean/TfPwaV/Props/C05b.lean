import TfPwaV.Proofs.EinsumFull
import TfPwaV.Proofs.EinsumEnd
import TfPwaV.Proofs.EinsumSizes

/-!
# C05 (b) — the COMPLETE routine `tf_pwa.einsum.einsum` returns the reference contraction

`Props/C05.lean` proves the pairwise loop for operands whose dimensions equal the label sizes.  This file adds the
wrapper of `einsum` around the loop and numpy-style broadcasting:

* `replace_ellipsis`  — the fresh symbols cannot clash (`replace_ellipsis_fresh`); the theorem is stated for the
  expression with the ellipsis replaced, which is how numpy defines `...` for operands of equal ellipsis rank;
* `remove_size1`      — dropping the labels whose size is 1 everywhere and re-inserting them by the final reshape is
  a re-indexing (`einsum_remove_size1_reindex`);
* broadcasting        — a label may have dimension 1 in one operand and n in another (`einsum_step_correct_bcast`,
  `einsum_loop_correct_bcast`);
* the final `tf.reshape` to `final_shape` (`einsum_correct`: equality of TENSORS, shape and row-major data).

Model: `TfPwaV.Einsum.einsumCustom` (`Model/Einsum.lean`), tied to the code by exact correspondence (harness/c05.py).
-/
namespace TfPwaV.C05b
open TfPwaV.Einsum

variable {R : Type} [CommSemiring R]

/-- **`einsum_correct` (full).**  For EVERY expression `ins -> out` (label 0 = `...`), every list of operands `ts`
    over every commutative semiring, every contraction path `path`, every iteration order `proc` of the label set and
    both variants of `ordered_indices`:  let `ins1 -> out1` be the expression with the ellipsis replaced and
    `sizes = sizesOf ins1 ts` the routine's own `size_map`.  If
    * (accepted, consistent shapes — `hinv`) no operand has a repeated label, every axis has the size of its label
      or size 1 (numpy broadcasting), and every label has its full size in at least one operand;
    * (valid path — `hend`) the path reduces the operands to a single one laid out along the output labels (see
      `einsum_path_ends_at_output` for when that is the case),
    then whenever the routine returns a tensor, that tensor IS the reference contraction
    `Σ_{labels not in out1} Π_k ts_k[labels_k]` — same shape, same row-major data.
    (The routine declines — returns no tensor — on invalid expressions, on a tie of order values, on a failing
    TensorFlow reshape: `einsum_invalid_declines`, `einsum_step_tie_declines` in `Props/C05.lean`; an operand with a
    repeated label is delegated: `einsum_repeated_index_delegates`.) -/
theorem einsum_correct (fixed : Bool) (ins : List (List Idx)) (out : List Idx) (path : List (List Nat))
    (proc : List Idx) (ts : List (Tensor R)) (T : Tensor R) (ins1 : List (List Idx)) (out1 extra : List Idx)
    (hrep : replaceEllipsis ins out (((ts.map (·.shape)).headD []).length) = some (ins1, out1, extra))
    (hinv : Inv (sizesOf ins1 ts) (ins1.zip ts))
    (hend : ∀ ord st,
      orderedIndices (ins1.map fun t => t.filter (keepOf ins1 ts extra)) (out1.filter (keepOf ins1 ts extra)) proc
        = some ord →
      loop (sizesOf ins1 ts) (if fixed then rankFixed ord else rankOf ord) (out1.filter (keepOf ins1 ts extra)) path
        ((ins1.zip ts).map (shrinkOp (keepOf ins1 ts extra))) = .ok st →
      ∃ t, st = [(out1.filter (keepOf ins1 ts extra), t)])
    (h : einsumCustom fixed ins out path proc ts = .ok T) :
    T = einsumRef (sizesOf ins1 ts) (ins1.zip ts) out1 :=
  einsumCustom_ok fixed ins out path proc ts T ins1 out1 extra hrep hinv hend h

/-! non-vacuity of the hypotheses of `einsum_correct`: "...b,bc->..." with operands of shapes [2,3] and [1,1]:
    ellipsis of rank 1 (fresh symbol 'a'), label b broadcast (3 against 1), label c of size 1 (removed). -/
section nonvacuity
def exTs : List (Tensor Int) := [⟨[2, 3], #[1, 2, 3, 4, 5, 6]⟩, ⟨[1, 1], #[7]⟩]

example : replaceEllipsis [[0, 98], [98, 99]] [0] (((exTs.map (·.shape)).headD []).length)
    = some ([[97, 98], [98, 99]], [97], [97]) := by decide +kernel

example : (sizesOf [[97, 98], [98, 99]] exTs 97, sizesOf [[97, 98], [98, 99]] exTs 98, sizesOf [[97, 98], [98, 99]] exTs 99)
    = (2, 3, 1) := by decide +kernel

example : (keepOf [[97, 98], [98, 99]] exTs [97] 98, keepOf [[97, 98], [98, 99]] exTs [97] 99) = (true, false) := by
  decide +kernel

example : Inv (sizesOf [[97, 98], [98, 99]] exTs) ([[97, 98], [98, 99]].zip exTs) := by
  refine ⟨by decide +kernel, ?_, ?_⟩
  · intro p hp
    simp only [exTs, List.zip_cons_cons, List.zip_nil_right, List.mem_cons, List.not_mem_nil, or_false] at hp
    rcases hp with rfl | rfl <;> (unfold BShape; decide +kernel)
  · intro l hl
    obtain ⟨p, hp, hlp⟩ := hl
    simp only [exTs, List.zip_cons_cons, List.zip_nil_right, List.mem_cons, List.not_mem_nil, or_false] at hp
    rcases hp with rfl | rfl
    · simp only [List.mem_cons, List.not_mem_nil, or_false] at hlp
      rcases hlp with rfl | rfl
      · exact ⟨([97, 98], ⟨[2, 3], #[1, 2, 3, 4, 5, 6]⟩), by simp [exTs], by simp, by decide +kernel⟩
      · exact ⟨([97, 98], ⟨[2, 3], #[1, 2, 3, 4, 5, 6]⟩), by simp [exTs], by simp, by decide +kernel⟩
    · simp only [List.mem_cons, List.not_mem_nil, or_false] at hlp
      rcases hlp with rfl | rfl
      · exact ⟨([97, 98], ⟨[2, 3], #[1, 2, 3, 4, 5, 6]⟩), by simp [exTs], by simp, by decide +kernel⟩
      · exact ⟨([98, 99], ⟨[1, 1], #[7]⟩), by simp [exTs], by simp, by decide +kernel⟩

/-- the whole pipeline after `ordered_indices` on this input, with the identity order: the size-1 label c is gone, b is
    broadcast and summed, the result [1+2+3, 4+5+6]·7 is laid out along the ellipsis label -/
example : loop (R := Int) (sizesOf [[97, 98], [98, 99]] exTs) (fun l => l) [97] [[0, 1]]
    (([[97, 98], [98, 99]].zip exTs).map (shrinkOp (keepOf [[97, 98], [98, 99]] exTs [97])))
    = .ok [([97], ⟨[2], #[42, 105]⟩)] := by decide +kernel
end nonvacuity

/-- **One step with broadcasting.**  For every group of operands without a repeated label whose axes have the label
    size or size 1, where every label summed by the step has its full size in some operand of the group, all data,
    every key function, every commutative semiring: whenever `tensor_einsum_reduce_sum` returns, the result has axes
    of the label size or 1 (full size wherever an operand of the group had it) and its broadcast entries are those of
    the reference contraction of the sub-expression. -/
theorem einsum_step_correct_bcast (sizes key : Idx → Nat) (ops : List (List Idx × Tensor R)) (final O : List Idx)
    (T : Tensor R) (hnd : ∀ p ∈ ops, p.1.Nodup) (hb : ∀ p ∈ ops, BShape sizes p) (hpos : ∀ l, 0 < sizes l)
    (hcov : ∀ l, (∃ p ∈ ops, l ∈ p.1) → l ∉ final → ∃ p ∈ ops, l ∈ p.1 ∧ dimOf p l = sizes l)
    (h : stepReduceSum sizes key ops final = .ok (O, T)) :
    O.Nodup ∧ BShape sizes (O, T) ∧
    (∀ l ∈ O, (∃ p ∈ ops, l ∈ p.1 ∧ dimOf p l = sizes l) → dimOf (O, T) l = sizes l) ∧
    ∀ env : Env, (∀ l ∈ O, env l < sizes l) → bget T O env = (einsumRef sizes ops O).get (O.map env) :=
  step_b sizes key ops final O T hnd hb hpos hcov h

/-- non-vacuity: "ab,bc->ac" where b has dimension 1 in the first operand and 2 in the second (numpy broadcasting) -/
example :
    stepReduceSum (R := Int) (fun _ => 2) (fun l => l) [([97, 98], ⟨[2, 1], #[1, 3]⟩), ([98, 99], ⟨[2, 2], #[5, 6, 7, 8]⟩)] [97, 99]
      = .ok ([97, 99], ⟨[2, 2], #[12, 14, 36, 42]⟩) := by
  decide +kernel

/-- **Induction over the path with broadcasting**: every path, every operand list satisfying the invariant `Inv`
    (no repeated label, axes of label size or 1, every label full somewhere): the loop preserves the reference
    contraction and the invariant. -/
theorem einsum_loop_correct_bcast (sizes key : Idx → Nat) (F : List Idx) (hF : F.Nodup) (hpos : ∀ l, 0 < sizes l)
    (path : List (List Nat)) (data data' : List (List Idx × Tensor R)) (hinv : Inv sizes data)
    (h : loop sizes key F path data = .ok data') :
    einsumRef sizes data' F = einsumRef sizes data F ∧ Inv sizes data' :=
  loop_b sizes key F hF hpos path data data' hinv h

/-- **`remove_size1` + final reshape is a re-indexing**: for every operand list satisfying `Inv` and every set of
    dropped labels all of size 1, the reference contraction of the operands with the dropped axes removed has the
    same row-major data as the reference contraction of the original operands. -/
theorem einsum_remove_size1_reindex (sizes : Idx → Nat) (keep : Idx → Bool) (data : List (List Idx × Tensor R))
    (out : List Idx) (hinv : Inv sizes data) (hdrop : ∀ l, keep l = false → sizes l = 1) :
    einsumRef sizes data out = ⟨out.map sizes, (einsumRef sizes (data.map (shrinkOp keep)) (out.filter keep)).data⟩ :=
  einsumRef_shrink sizes keep data out hinv hdrop

/-- the labels removed by `remove_size1` really have size 1 in the routine's `size_map`, for every expression and
    all shapes (so the hypothesis `hdrop` above is always met inside `einsum`) -/
theorem einsum_removed_labels_have_size1 (ins1 : List (List Idx)) (ts : List (Tensor R)) (extra : List Idx) (l : Idx)
    (h : keepOf ins1 ts extra l = false) : sizesOf ins1 ts l = 1 :=
  keepOf_false ins1 ts extra l h

/-- **`replace_ellipsis`: the fresh symbols cannot clash** — for every expression: the symbols substituted for
    `...` are pairwise different, are not the ellipsis marker and occur nowhere in the expression. -/
theorem replace_ellipsis_fresh (ins : List (List Idx)) (out : List Idx) (r0 : Nat) (ins1 : List (List Idx))
    (out1 extra : List Idx) (h : replaceEllipsis ins out r0 = some (ins1, out1, extra)) :
    extra.Nodup ∧ ∀ s ∈ extra, s ≠ 0 ∧ s ∉ ins.flatten ∧ s ∉ out := by
  unfold replaceEllipsis at h
  by_cases hc : (ins.flatten ++ out).contains 0 = true
  · rw [if_pos hc] at h
    simp only at h
    split_ifs at h
    simp only [Option.some.injEq, Prod.mk.injEq] at h
    obtain ⟨_, _, hex⟩ := h
    have hsym : ((List.range 100).map getSymbol).Nodup := by decide +kernel
    refine ⟨?_, ?_⟩
    · rw [← hex]
      exact ((hsym.filter _).sublist (List.take_sublist _ _))
    · intro s hs
      rw [← hex] at hs
      have hs' := List.mem_of_mem_take hs
      have hnot := (List.mem_filter.mp hs').2
      simp only [Bool.not_eq_true', ← Bool.not_eq_true, List.contains_iff_mem, List.mem_append, not_or] at hnot
      refine ⟨?_, hnot.1, hnot.2⟩
      intro h0
      subst h0
      rw [List.contains_iff_mem, List.mem_append] at hc
      exact hc.elim hnot.1 hnot.2
  · rw [if_neg hc] at h
    simp only [Option.some.injEq, Prod.mk.injEq] at h
    obtain ⟨_, _, hex⟩ := h
    subst hex
    exact ⟨List.nodup_nil, by simp⟩

/-- non-vacuity: "...ab,b...->a..." for rank-3 first operand: one fresh symbol, 'c' -/
example : replaceEllipsis [[0, 97, 98], [98, 0]] [97, 0] 3 = some ([[99, 97, 98], [98, 99]], [97, 99], [99]) := by
  decide +kernel

/-- **A repeated label inside an operand is delegated, never mis-computed**: for every step with such an operand the
    routine either raises or returns the reference contraction (`tf.einsum`) of its sub-expression. -/
theorem einsum_repeated_index_delegates (sizes key : Idx → Nat) (ops : List (List Idx × Tensor R)) (final : List Idx)
    (hdup : ops.any (fun p => hasDup p.1) = true) :
    stepReduceSum sizes key ops final = .error "raise" ∨
    ∃ sz : Idx → Nat, stepReduceSum sizes key ops final = .ok (final, einsumRef sz ops final) := by
  unfold stepReduceSum
  rw [if_pos hdup]
  by_cases h1 : ((ops.flatMap fun p => p.1.zip p.2.shape).all fun q => q.2 = sizes q.1) = true
  · rw [if_pos h1]
    exact Or.inr ⟨sizes, rfl⟩
  · rw [if_neg h1]
    simp only
    split_ifs
    · exact Or.inr ⟨_, rfl⟩
    · exact Or.inl rfl

/-- non-vacuity: "aab->b" has a repeated label -/
example : ([([97, 97, 98], (⟨[2, 2, 2], #[1, 2, 3, 4, 5, 6, 7, 8]⟩ : Tensor Int))].any fun p => hasDup p.1) = true := by
  decide +kernel

/-- **When is a path valid?**  For every NON-EMPTY path, every operand list in which all output labels occur and
    every key function that increases strictly along the output labels `F`: if the loop reduces the operands to a
    single one, that operand is laid out along `F` (the hypothesis `hend` of `einsum_correct`).  [The empty path is
    not valid: `opt_einsum` returns `[(0,)]` even for one operand.] -/
theorem einsum_path_ends_at_output (sizes key : Idx → Nat) (F : List Idx) (hF : F.Nodup)
    (hmono : F.Pairwise (fun a b => key a < key b)) (path : List (List Nat)) (data : List (List Idx × Tensor R))
    (O : List Idx) (t : Tensor R) (hne : path ≠ []) (hsub : ∀ a ∈ F, ∃ p ∈ data, a ∈ p.1)
    (h : loop sizes key F path data = .ok [(O, t)]) : O = F :=
  loop_ends sizes key F hF hmono path data O t hne hsub h

/-- non-vacuity: the identity key increases along "ac"; "ab,bc->ac" with path [(0,1)] ends with one operand along "ac" -/
example : ([97, 99] : List Idx).Pairwise (fun a b => (fun l : Idx => l) a < (fun l : Idx => l) b) := by decide

/-- **`einsum_correct` with the path hypothesis spelled out**: instead of `hend`, assume the path is non-empty, that
    it reduces the operands to ONE operand whenever the loop returns, and that the order values computed by
    `ordered_indices` increase along the output labels (a statement about IEEE doubles, validated bit-for-bit by the
    correspondence; Lean's `Float` operations are opaque, so it cannot be discharged inside Lean). -/
theorem einsum_correct_reducing_path (fixed : Bool) (ins : List (List Idx)) (out : List Idx) (path : List (List Nat))
    (proc : List Idx) (ts : List (Tensor R)) (T : Tensor R) (ins1 : List (List Idx)) (out1 extra : List Idx)
    (hrep : replaceEllipsis ins out (((ts.map (·.shape)).headD []).length) = some (ins1, out1, extra))
    (hinv : Inv (sizesOf ins1 ts) (ins1.zip ts))
    (hne : path ≠ [])
    (hred : ∀ ord st,
      orderedIndices (ins1.map fun t => t.filter (keepOf ins1 ts extra)) (out1.filter (keepOf ins1 ts extra)) proc
        = some ord →
      loop (sizesOf ins1 ts) (if fixed then rankFixed ord else rankOf ord) (out1.filter (keepOf ins1 ts extra)) path
        ((ins1.zip ts).map (shrinkOp (keepOf ins1 ts extra))) = .ok st → st.length = 1)
    (hmono : ∀ ord,
      orderedIndices (ins1.map fun t => t.filter (keepOf ins1 ts extra)) (out1.filter (keepOf ins1 ts extra)) proc
        = some ord →
      (out1.filter (keepOf ins1 ts extra)).Pairwise
        (fun a b => (if fixed then rankFixed ord else rankOf ord) a < (if fixed then rankFixed ord else rankOf ord) b))
    (h : einsumCustom fixed ins out path proc ts = .ok T) :
    T = einsumRef (sizesOf ins1 ts) (ins1.zip ts) out1 := by
  have hvalid := (einsumCustom_inv fixed ins out path proc ts T ins1 out1 extra hrep h).1
  unfold validate at hvalid
  simp only [Bool.and_eq_true, Bool.not_eq_true', beq_iff_eq, List.all_eq_true, List.length_map] at hvalid
  obtain ⟨⟨⟨⟨hlen, _⟩, hdupout⟩, hall⟩, _⟩ := hvalid
  have hout1 : out1.Nodup := nodup_of_hasDup_false out1 hdupout
  apply einsum_correct fixed ins out path proc ts T ins1 out1 extra hrep hinv _ h
  intro ord st ho hl
  have hlen1 := hred ord st ho hl
  match st, hlen1 with
  | [(O, t)], _ =>
    refine ⟨t, ?_⟩
    have := loop_ends (sizesOf ins1 ts) _ _ (hout1.filter _) (hmono ord ho) path _ O t hne ?_ hl
    · rw [this]
    · intro a ha
      obtain ⟨ha1, ha2⟩ := List.mem_filter.mp ha
      have hmem := hall a ha1
      rw [List.contains_iff_mem, List.mem_flatten] at hmem
      obtain ⟨term, hterm, haterm⟩ := hmem
      obtain ⟨tt, htt⟩ := exists_zip_of_mem ins1 ts term hlen hterm
      exact ⟨shrinkOp (keepOf ins1 ts extra) (term, tt), List.mem_map.mpr ⟨(term, tt), htt, rfl⟩,
        List.mem_filter.mpr ⟨haterm, ha2⟩⟩

/-- **Every consistent shape assignment, including size-1 broadcasting, is accepted**: for every expression
    (ellipsis already replaced), all operands and every assignment `sz` of positive sizes to the labels such that no
    operand repeats a label, every axis has the size of its label or size 1, and every label has its full size in
    some operand: the routine's `size_map` is `sz` on the labels of the expression and the hypothesis `hinv` of
    `einsum_correct` holds. -/
theorem einsum_consistent_assignment (sz : Idx → Nat) (ins1 : List (List Idx)) (ts : List (Tensor R))
    (hsz : ∀ l, 1 ≤ sz l)
    (hnd : ∀ p ∈ ins1.zip ts, p.1.Nodup) (hlen : ∀ p ∈ ins1.zip ts, p.2.shape.length = p.1.length)
    (hdim : ∀ p ∈ ins1.zip ts, ∀ l ∈ p.1, dimOf p l = sz l ∨ dimOf p l = 1)
    (hcov : ∀ l, (∃ p ∈ ins1.zip ts, l ∈ p.1) → ∃ p ∈ ins1.zip ts, l ∈ p.1 ∧ dimOf p l = sz l) :
    (∀ l, (∃ p ∈ ins1.zip ts, l ∈ p.1) → sizesOf ins1 ts l = sz l) ∧ Inv (sizesOf ins1 ts) (ins1.zip ts) :=
  inv_of_assignment sz ins1 ts hsz hnd hlen hdim hcov

/-- non-vacuity: the assignment a=2, b=3, c=1 for "ab,bc" with shapes [2,3] and [1,1] (b broadcast in the second) -/
example : (∀ p ∈ ([[97, 98], [98, 99]] : List (List Idx)).zip exTs, p.1.Nodup ∧ p.2.shape.length = p.1.length ∧
    ∀ l ∈ p.1, dimOf p l = (fun l => if l = 97 then 2 else if l = 98 then 3 else 1) l ∨ dimOf p l = 1) := by
  decide +kernel

end TfPwaV.C05b
