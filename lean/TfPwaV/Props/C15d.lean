import TfPwaV.Gen.InterpAmpQ
import TfPwaV.Gen.InterpAmpR
import TfPwaV.Gen.SplineTable
import Mathlib.Tactic.Ring
import Mathlib.Tactic.Linarith

/-!
C15, round 3 — the interpolation line shapes of `tf_pwa/amp/interpolation.py`.

* ℝ instance, all node lists / node values / masses: every model that is `Σ_i h_i(m) p_i` is linear in the node
  parameters (`dotC_linear` and its instances), `linear_npy` is zero outside the node range.
* `Rat` instance, exact (`decide +kernel`) on the node sets `nodeSets`: the weights at the nodes are the unit vectors
  (so, by linearity, the interpolant passes through the node values for EVERY choice of node values), they vanish
  outside the node range, the repaired `interp1d3` stencil reproduces cubics, the stencil of the unpatched tree does
  not even reproduce constants (`interp1d3_legacy_not_partition`).
* the spline coefficient tables `spline_xi_matrix(nodes)`, re-extracted from the tree under test on every run
  (`Gen/SplineTable.lean`), satisfy the defining equations of the not-a-knot cubic spline exactly.
-/
namespace TfPwaV.C15

/-! ## linearity in the node parameters (ℝ, all inputs) -/
section Linear
open TfPwaV.InterpAmpR TfPwaV.ScalarR

/-- `a·p + b·q` on node-value lists -/
def lin (a b : ℝ) (ps qs : List Cx) : List Cx :=
  List.zipWith (fun p q => (⟨a * p.re + b * q.re, a * p.im + b * q.im⟩ : Cx)) ps qs

theorem dotC_linear (a b : ℝ) (h : List ℝ) (ps qs : List Cx) (hl : ps.length = qs.length) :
    (dotC h (lin a b ps qs)).re = a * (dotC h ps).re + b * (dotC h qs).re
    ∧ (dotC h (lin a b ps qs)).im = a * (dotC h ps).im + b * (dotC h qs).im := by
  induction h generalizing ps qs with
  | nil => simp [dotC]
  | cons x xs ih =>
    cases ps with
    | nil =>
      cases qs with
      | nil => simp [dotC, lin]
      | cons q qs => simp at hl
    | cons p ps =>
      cases qs with
      | nil => simp at hl
      | cons q qs =>
        have hl' : ps.length = qs.length := by simpa using hl
        obtain ⟨h1, h2⟩ := ih ps qs hl'
        simp only [lin, List.zipWith_cons_cons, dotC] at h1 h2 ⊢
        constructor
        · rw [h1]; ring
        · rw [h2]; ring

/-- `interp_c`, `interp_hist`, `interp1d3` / `interp_l3` (both stencils), `interp_lagrange`, `spline_c` (with_bound): linear in the
node values, for every node list `xs`, mass `m` and (for the spline) coefficient table -/
theorem interpC_linear (a b : ℝ) (xs : List ℝ) (m : ℝ) (ps qs : List Cx) (hl : ps.length = qs.length) :
    (interpC xs (lin a b ps qs) m).re = a * (interpC xs ps m).re + b * (interpC xs qs m).re
    ∧ (interpC xs (lin a b ps qs) m).im = a * (interpC xs ps m).im + b * (interpC xs qs m).im :=
  dotC_linear a b _ ps qs hl
theorem interpHist_linear (a b : ℝ) (xs : List ℝ) (m : ℝ) (ps qs : List Cx) (hl : ps.length = qs.length) :
    (interpHist xs (lin a b ps qs) m).re = a * (interpHist xs ps m).re + b * (interpHist xs qs m).re
    ∧ (interpHist xs (lin a b ps qs) m).im = a * (interpHist xs ps m).im + b * (interpHist xs qs m).im :=
  dotC_linear a b _ ps qs hl
theorem interp1d3_linear (legacy mid : Bool) (a b : ℝ) (xs : List ℝ) (m : ℝ) (ps qs : List Cx) (hl : ps.length = qs.length) :
    (interp1d3 legacy mid xs (lin a b ps qs) m).re = a * (interp1d3 legacy mid xs ps m).re + b * (interp1d3 legacy mid xs qs m).re
    ∧ (interp1d3 legacy mid xs (lin a b ps qs) m).im = a * (interp1d3 legacy mid xs ps m).im + b * (interp1d3 legacy mid xs qs m).im :=
  dotC_linear a b _ ps qs hl
theorem interpLagrange_linear (a b : ℝ) (xs : List ℝ) (m : ℝ) (ps qs : List Cx) (hl : ps.length = qs.length) :
    (interpLagrange xs (lin a b ps qs) m).re = a * (interpLagrange xs ps m).re + b * (interpLagrange xs qs m).re
    ∧ (interpLagrange xs (lin a b ps qs) m).im = a * (interpLagrange xs ps m).im + b * (interpLagrange xs qs m).im :=
  dotC_linear a b _ ps qs hl
theorem splineC_linear (a b : ℝ) (xs tab : List ℝ) (m : ℝ) (ps qs : List Cx) (hl : ps.length = qs.length) :
    (splineC true xs tab (lin a b ps qs) m).re = a * (splineC true xs tab ps m).re + b * (splineC true xs tab qs m).re
    ∧ (splineC true xs tab (lin a b ps qs) m).im = a * (splineC true xs tab ps m).im + b * (splineC true xs tab qs m).im := by
  simp only [splineC, if_true]
  exact dotC_linear a b _ ps qs hl

/-- a weight vector that is a unit vector picks the node value: `Σ_i δ_it p_i = p_t` -/
theorem dotC_unit (n t : ℕ) (ps : List Cx) (ht : t < n) (hn : n ≤ ps.length) :
    dotC ((List.range n).map fun u => if u = t then (1 : ℝ) else 0) ps = ps.getD t ⟨0, 0⟩ := by
  induction n generalizing t ps with
  | zero => omega
  | succ k ih =>
    cases ps with
    | nil => simp at hn
    | cons p ps =>
      rw [List.range_succ_eq_map, List.map_cons, List.map_map]
      cases t with
      | zero =>
        have hz : ∀ (l : List ℕ) (qs : List Cx), dotC (l.map ((fun u => if u = 0 then (1 : ℝ) else 0) ∘ Nat.succ)) qs = ⟨0, 0⟩ := by
          intro l
          induction l with
          | nil => intro qs; cases qs <;> simp [dotC]
          | cons y ys ihh =>
            intro qs
            cases qs with
            | nil => simp [dotC]
            | cons q qs => simp [dotC, ihh qs]
        simp [dotC, hz]
      | succ t' =>
        have hk : t' < k := by omega
        have hl : k ≤ ps.length := by simpa using hn
        have := ih t' ps hk hl
        have hc : ((fun u => if u = t' + 1 then (1 : ℝ) else 0) ∘ Nat.succ) = fun u => if u = t' then (1 : ℝ) else 0 := by
          funext u; simp
        simp [dotC, hc, this]

/-- `linear_npy` / `linear_txt`: zero outside `[x_0, x_{N-1})` when the nodes are sorted: below the first node no
boundary is `≤ m`, so `Bucketize` returns 0 and the value is cut to zero -/
theorem interpFile_below (xs : List ℝ) (vs : List Cx) (m : ℝ) (h : ∀ x ∈ xs, m < x) : interpFile xs vs m = ⟨0, 0⟩ := by
  have hb : bucket xs m = 0 := by
    unfold bucket
    rw [List.length_eq_zero_iff, List.filter_eq_nil_iff]
    intro x hx
    simpa using h x hx
  simp [interpFile, hb]
theorem interpFile_above (xs : List ℝ) (vs : List Cx) (m : ℝ) (h : ∀ x ∈ xs, x ≤ m) : interpFile xs vs m = ⟨0, 0⟩ := by
  have hb : bucket xs m = xs.length := by
    unfold bucket
    rw [List.filter_eq_self.mpr]
    intro x hx
    simpa using h x hx
  simp [interpFile, hb]

end Linear

/-! ## exact checks on concrete node sets (core `Rat`, `decide +kernel`) -/
section Exact
open TfPwaV.InterpAmpQ TfPwaV.ScalarQ

/-- uniform and non-uniform node sets, 4 … 8 nodes -/
def nodeSets : List (List Rat) :=
  [[0, 1, 2, 3], [0, 1, 2, 3, 4], [0, 1, 2, 3, 4, 5, 6], [0, 1, 2, 3, 4, 5, 6, 7],
   [0, 1, (5 : Rat) / 2, 3, (9 : Rat) / 2, 6], [(1 : Rat) / 5, (3 : Rat) / 10, (7 : Rat) / 10, (4 : Rat) / 5, 2, (21 : Rat) / 10, 3]]

def unit (n t : Nat) : List Rat := (List.range n).map fun u => if u = t then 1 else 0

/-- the weights at every inner node `x_{t+1}` are the unit vector `e_t` -/
def basisOK (w : List Rat → Rat → List Rat) (xs : List Rat) : Bool :=
  (List.range (xs.length - 2)).all fun t => decide (w xs (nth xs (t + 1)) = unit (xs.length - 2) t)

/-- the weights vanish at the first node (value fixed to zero), at the last node and outside the node range -/
def outsideOK (w : List Rat → Rat → List Rat) (xs : List Rat) : Bool :=
  [nth xs 0 - 1, nth xs 0 - (1 : Rat) / 1000, nth xs (xs.length - 1), nth xs (xs.length - 1) + (1 : Rat) / 7].all fun m =>
    decide (w xs m = (List.range (xs.length - 2)).map fun _ => 0)

theorem interpC_at_nodes : ∀ xs ∈ nodeSets, basisOK weightsC xs = true := by decide +kernel
theorem interpC_outside : ∀ xs ∈ nodeSets, outsideOK weightsC xs = true ∧ decide (weightsC xs (nth xs 0) = (List.range (xs.length - 2)).map fun _ => 0) = true := by
  decide +kernel
theorem interpHist_at_nodes : ∀ xs ∈ nodeSets, basisOK weightsHist xs = true := by decide +kernel
theorem interpHist_outside : ∀ xs ∈ nodeSets, outsideOK weightsHist xs = true := by decide +kernel
theorem interp1d3_at_nodes : ∀ legacy, ∀ xs ∈ nodeSets, basisOK (weights3 legacy false) xs = true := by decide +kernel
theorem interp1d3_outside : ∀ legacy, ∀ xs ∈ nodeSets, outsideOK (weights3 legacy false) xs = true := by decide +kernel
theorem interpLagrange_at_nodes : ∀ xs ∈ nodeSets, basisOK weightsLagrange xs = true := by decide +kernel

/-- sample points strictly inside the intervals `[x_j, x_{j+1})`, `1 ≤ j ≤ N-3` (all four stencil nodes j-1 … j+2 exist):
4 points per interval — a cubic identity on an interval is decided by 4 points -/
def innerSamples (xs : List Rat) : List Rat :=
  (List.range (xs.length - 3)).flatMap fun t =>
    let a := nth xs (t + 1)
    let b := nth xs (t + 2)
    [a, a + (b - a) / 4, a + (b - a) / 2, a + (b - a) * 3 / 4]

/-- `Σ_i h_i(x) f(x_i) = f(x)` for `f = 1, x, x², x³`, the end values being free parameters too (`full` weights: the
stencil weight of the end nodes is added back by using all nodes, here via the check on intervals whose stencil is inner) -/
def cubicOK (legacy : Bool) (xs : List Rat) : Bool :=
  (innerSamples xs).all fun x =>
    let w := weights3 legacy false xs x
    let inner := (List.range (xs.length - 2)).map fun t => nth xs (t + 1)
    -- the stencil of the intervals 2 … N-4 contains inner nodes only; restrict to those sample points
    let ok := decide (nth xs 2 ≤ x ∧ x < nth xs (xs.length - 3))
    !ok || ([0, 1, 2, 3].all fun k =>
      decide ((List.zipWith (fun h xi => h * xi ^ k) w inner).foldl (· + ·) 0 = x ^ k))

/-- REPAIRED stencil (`range(i-2, i+2)`): piecewise cubic Lagrange — reproduces 1, x, x², x³ -/
theorem interp1d3_fixed_reproduces_cubics : ∀ xs ∈ nodeSets, cubicOK false xs = true := by decide +kernel

/-- stencil of the UNPATCHED tree (`range(i-1, i+3)`): on nodes 0 … 6 at x = 5/2 the weights are (-1/16, 9/16, 9/16, 0, 0) — they sum to 17/16,
the weight -1/16 of node 4 is missing: constants are not reproduced, the interpolant is not the cubic through the 4 neighbours -/
theorem interp1d3_legacy_not_partition :
    weights3 true false [0, 1, 2, 3, 4, 5, 6] ((5 : Rat) / 2) = [-(1 : Rat) / 16, (9 : Rat) / 16, (9 : Rat) / 16, 0, 0]
    ∧ weights3 false false [0, 1, 2, 3, 4, 5, 6] ((5 : Rat) / 2) = [-(1 : Rat) / 16, (9 : Rat) / 16, (9 : Rat) / 16, -(1 : Rat) / 16, 0] := by
  decide +kernel
theorem interp1d3_legacy_fails_cubics : cubicOK true [0, 1, 2, 3, 4, 5, 6, 7] = false := by decide +kernel

/-! ### spline tables -/
open TfPwaV.SplineTable

/-- value, first and second derivative of the cubic of interval `r`, basis column `n`, at `x` -/
def sVal (nn : Nat) (tab : List Rat) (r n : Nat) (x : Rat) : Rat :=
  tabAt nn tab r 0 n + tabAt nn tab r 1 n * x + tabAt nn tab r 2 n * (x * x) + tabAt nn tab r 3 n * (x * x * x)
def sD1 (nn : Nat) (tab : List Rat) (r n : Nat) (x : Rat) : Rat :=
  tabAt nn tab r 1 n + 2 * tabAt nn tab r 2 n * x + 3 * tabAt nn tab r 3 n * (x * x)
def sD2 (nn : Nat) (tab : List Rat) (r n : Nat) (x : Rat) : Rat :=
  2 * tabAt nn tab r 2 n + 6 * tabAt nn tab r 3 n * x

/-- the defining equations of the not-a-knot cubic spline basis: interpolation at both ends of every interval, C¹ and C²
at the inner knots, third-derivative continuity at the second and the last-but-one knot -/
def splineOK (xs tab : List Rat) : Bool :=
  let nn := xs.length
  decide (tab.length = (nn - 1) * 4 * nn) &&
  (List.range nn).all fun n =>
    ((List.range (nn - 1)).all fun r =>
      decide (sVal nn tab r n (nth xs r) = if r = n then 1 else 0) &&
      decide (sVal nn tab r n (nth xs (r + 1)) = if r + 1 = n then 1 else 0)) &&
    ((List.range (nn - 2)).all fun t =>
      decide (sD1 nn tab t n (nth xs (t + 1)) = sD1 nn tab (t + 1) n (nth xs (t + 1))) &&
      decide (sD2 nn tab t n (nth xs (t + 1)) = sD2 nn tab (t + 1) n (nth xs (t + 1)))) &&
    decide (tabAt nn tab 0 3 n = tabAt nn tab 1 3 n) &&
    decide (tabAt nn tab (nn - 3) 3 n = tabAt nn tab (nn - 2) 3 n)

/-- the tables of the tree under test ARE the not-a-knot spline bases of their node sets (exact rationals) -/
theorem spline_tables_ok : (List.zipWith splineOK nodes tabs).all id = true ∧ nodes.length = tabs.length ∧ 5 ≤ nodes.length := by
  decide +kernel

/-- `spline_c` through the code path (`weightsSpline`): at node `x_j`, `j < N-1`, the weights are the unit vector `e_j`; at the last node
and outside `[x_0, x_{N-1})` they vanish (half-open intervals) -/
def splineNodesOK (xs tab : List Rat) : Bool :=
  ((List.range (xs.length - 1)).all fun j => decide (weightsSpline xs tab (nth xs j) = unit xs.length j)) &&
  [nth xs 0 - 1, nth xs (xs.length - 1), nth xs (xs.length - 1) + 1].all fun m =>
    decide (weightsSpline xs tab m = (List.range xs.length).map fun _ => 0)

theorem splineC_at_nodes : (List.zipWith splineNodesOK nodes tabs).all id = true := by decide +kernel

end Exact
end TfPwaV.C15
