import TfPwaV.Proofs.FrameRot
import TfPwaV.Props.C12b
import TfPwaV.Props.C12d
/-!
# C01 (rotation clause) — the helicity-angle extractor under a common rotation of all final momenta

Theorems over ℝ about the extractor model of `templates/Cascade.lean.in` (`inferMomentum`, `add_mass`,
`cal_chain_boost`, `cal_helicity_angle`; the Float instance of the same text is compared with the implementation by
C11), for EVERY binary decay tree, every set of final four-momenta and every rotation `R` (any linear map of
three-space preserving dot and cross products, `FrameRot.IsRot`; `rotPi` of `Props/C01.lean` is one).

The code's degenerate-case fallback of `Vector3.cross_unit` (`norm < 1e-14` → cross with `1 + other`) is not
rotation covariant; the theorems hold on the regular branch, stated as the hypotheses `Reg` / `RegZ` / `RegBelow`
(all `cross_unit` norms ≥ ε along the tree).

1. `below_top_invariant`: with ARBITRARY base axes before and after (in particular fixed laboratory axes) every mass,
   both polar angles of every vertex below the top vertex, and every azimuth two or more levels below the top are
   unchanged (the azimuths of the daughters' own vertices are measured from the plane containing the base z axis and
   do change).
2. `corotating_axes_invariant`: if the base axes co-rotate, every angle — top vertex included — is unchanged, hence
   the density is literally the same number; `parent_z_invariant`: if only the base z axis co-rotates (z tied to the
   parent direction, `random_z`) everything except the two top azimuths is unchanged, and a common shift of the top
   azimuth is a diagonal unitary on the parent helicity (`density_top_azimuth_shift`).
3. `density_rot_fixed_axes_partial`: with fixed laboratory axes, IF the top-vertex rotations compose with one common
   SU(2) element (`hcomp`) and the next-level azimuths compensate the third Euler angle (`hB`), THEN the first
   D-matrix of every chain is left-multiplied by one common `D^J(R)` (`D_hom_su2`) and the density is unchanged.
   `exists_composed_angles` (from `euler_roundtrip`) shows that composed angles always exist.  Missing links, named in
   the doc comment: that the angles `calAngle` extracts from the rotated momenta ARE those composed angles.
Boosts (Wigner rotations of the nested frames) remain the hypothesis of `C01.density_boost_invariant_partial`.
-/
open Matrix BigOperators
open TfPwaV.ScalarR
namespace TfPwaV.C01
open TfPwaV.KinR TfPwaV.AngleR TfPwaV.CascadeR TfPwaV.FrameRot TfPwaV.UnitaryMix TfPwaV.FrameAlg

/-! ## (1) below the top vertex -/

def aMass : ATree → ℝ
  | .leaf m => m
  | .node m _ _ _ _ _ _ => m

def aSub1 : ATree → ATree
  | .leaf m => .leaf m
  | .node _ _ _ _ _ d1 _ => d1

def aSub2 : ATree → ATree
  | .leaf m => .leaf m
  | .node _ _ _ _ _ _ d2 => d2

/-- regular branch of every `cross_unit` call made below the top vertex (base axes `z0, x0`) -/
def RegBelow : RTree → V3 → V3 → Prop
  | .leaf _, _, _ => True
  | .node _ r1 r2 d1 d2, z0, x0 =>
    RegZ d1 r1.vect (angleZxZGetx z0 x0 r1.vect).x2 ∧ RegZ d2 r2.vect (angleZxZGetx z0 x0 r2.vect).x2

/-- **(1)** For every decay tree of final momenta `t`, every rotation `R` and ANY base axes `(z0, x0)` used before
and `(z0', x0')` used after the rotation (fixed laboratory axes: `z0' = z0`, `x0' = x0`): the mass of the parent, and
— up to the two azimuths of each daughter's own vertex (`forgetAlpha`) — the complete angle trees of both daughters
(all masses, all polar angles, all deeper azimuths) are unchanged. -/
theorem below_top_invariant {R : V3 → V3} (h : IsRot R) (t : MTree) (z0 x0 z0' x0' : V3)
    (hr : RegBelow (calChainBoost t) z0 x0) :
    aMass (helicityAngle (calChainBoost (t.map (spatial R))) z0' x0') = aMass (helicityAngle (calChainBoost t) z0 x0) ∧
    forgetAlpha (aSub1 (helicityAngle (calChainBoost (t.map (spatial R))) z0' x0')) =
      forgetAlpha (aSub1 (helicityAngle (calChainBoost t) z0 x0)) ∧
    forgetAlpha (aSub2 (helicityAngle (calChainBoost (t.map (spatial R))) z0' x0')) =
      forgetAlpha (aSub2 (helicityAngle (calChainBoost t) z0 x0)) := by
  rw [h.calChainBoost]
  cases hc : calChainBoost t with
  | leaf m => exact ⟨rfl, rfl, rfl⟩
  | node m r1 r2 d1 d2 =>
    rw [hc] at hr
    obtain ⟨h1, h2⟩ := hr
    simp only [RTree.mapR, CascadeR.helicityAngle, aMass, aSub1, aSub2, spatial_vect]
    exact ⟨trivial, h.helicityAngle_z d1 _ _ _ h1, h.helicityAngle_z d2 _ _ _ h2⟩

/-! ## (2) co-rotating base axes -/

/-- **(2)** If the base axes co-rotate with the momenta, `cal_helicity_angle ∘ cal_chain_boost` returns the SAME
tree of masses and angles (top vertex included) for every decay tree, all momenta and every rotation. -/
theorem corotating_axes_invariant {R : V3 → V3} (h : IsRot R) (t : MTree) (z0 x0 : V3)
    (hr : Reg (calChainBoost t) z0 x0) :
    helicityAngle (calChainBoost (t.map (spatial R))) (R z0) (R x0) = helicityAngle (calChainBoost t) z0 x0 := by
  rw [h.calChainBoost]
  exact h.helicityAngle _ _ _ hr

/-- the parent direction co-rotates: `vect(data[top].p)` of the rotated event is `R` of the original one
(`random_z`: `base_z = p3` of the top particle) -/
theorem parent_direction_corotates {R : V3 → V3} (h : IsRot R) (t : MTree) :
    (inferMomentum (t.map (spatial R))).p.vect = R (inferMomentum t).p.vect := by
  rw [h.infer, mapP_p, spatial_vect]

/-- **(2′)** z axis tied to the parent direction (or any co-rotating z), x axis arbitrary before and after: every
mass, every polar angle (top vertex included) and every azimuth below the top vertex is unchanged; only the two
azimuths of the top vertex may differ. -/
theorem parent_z_invariant {R : V3 → V3} (h : IsRot R) (t : MTree) (z0 x0 x0' : V3)
    (hr : RegZ (calChainBoost t) z0 x0) :
    forgetAlpha (helicityAngle (calChainBoost (t.map (spatial R))) (R z0) x0') =
      forgetAlpha (helicityAngle (calChainBoost t) z0 x0) := by
  rw [h.calChainBoost]
  exact h.helicityAngle_z _ _ _ _ hr

/-- a shift of the top azimuth multiplies row `m` of the first D-matrix by the phase `e^{i m δ}` -/
theorem DConj_alpha_shift (N : ℕ) (α δ β γ : ℝ) (i k : Fin (N + 1)) :
    DConj N (α + δ) β γ i k = FrameAlg.phase N δ i * DConj N α β γ i k := by
  rw [DConj_apply, DConj_apply]
  have : FrameAlg.phase N (α + δ) i = FrameAlg.phase N δ i * FrameAlg.phase N α i := by
    unfold FrameAlg.phase
    rw [← Complex.exp_add]
    congr 1
    push_cast
    ring
  rw [this]
  ring

/-- … and a COMMON azimuth shift `δ` of all chains (what a rotation of the x axis about the co-rotating z axis does)
leaves the helicity-summed density unchanged, for every spin `N/2` and all chain tensors. -/
theorem density_top_azimuth_shift {ιF κ : Type} [Fintype ιF] [Fintype κ] (N : ℕ) (δ : ℝ)
    (A : κ → Fin (N + 1) × ιF → ℂ) :
    density (fun k p => FrameAlg.phase N δ p.1 * A k p) = density A := by
  unfold density
  refine Finset.sum_congr rfl fun p _ => ?_
  rw [← Finset.mul_sum, Complex.normSq_mul]
  have := phase_unit N δ p.1
  have h1 : Complex.normSq (FrameAlg.phase N δ p.1) = 1 := by
    have h2 := congrArg Complex.re this
    rw [Complex.star_def, ← Complex.normSq_eq_conj_mul_self] at h2
    simpa using h2
  rw [h1, one_mul]

/-! ## (3) fixed laboratory axes: composition with one common D-matrix -/
section Fixed
open TfPwaV.SU2R TfPwaV.C12

/-- `Rotation_z(α)·Rotation_y(β)·Rotation_z(γ)` of the `SU2M` model -/
noncomputable def rot3 (α β γ : ℝ) : M2 := ((rotZ α).mul (rotY β)).mul (rotZ γ)

theorem rot3_eq_ofEuler (α β γ : ℝ) : rot3 α β γ = ofEuler ⟨γ, β, α⟩ := rfl

theorem isSU2_mul (x y : M2) (hx : IsSU2 x) (hy : IsSU2 y) : IsSU2 (x.mul y) := by
  obtain ⟨⟨ar, ai⟩, x01, ⟨br, bi⟩, x11⟩ := x
  obtain ⟨⟨cr, ci⟩, y01, ⟨dr, di⟩, y11⟩ := y
  obtain ⟨hx1, hx2, hx3⟩ := hx
  obtain ⟨hy1, hy2, hy3⟩ := hy
  simp only at hx1 hx2 hx3 hy1 hy2 hy3
  subst hx1 hx2 hy1 hy2
  simp only [Cx.normSq] at hx3 hy3
  refine ⟨?_, ?_, ?_⟩
  · ext <;> simp [M2.mul, Cx.mul, Cx.add, Cx.conj, Cx.neg] <;> ring
  · ext <;> simp [M2.mul, Cx.mul, Cx.add, Cx.conj, Cx.neg] <;> ring
  · simp only [M2.mul, Cx.mul, Cx.add, Cx.conj, Cx.neg, Cx.normSq]
    nlinarith [hx3, hy3]

/-- composed Euler angles always exist: for EVERY element `U` of SU(2) and every `(α, β)` there are `(α', β', γ')`
with `R(α',β',γ') = U · R(α,β,0)` exactly (same sheet), namely `get_euler_angle` of the product (`euler_roundtrip`) -/
theorem exists_composed_angles (U : M2) (hU : IsSU2 U) (α β : ℝ) :
    ∃ α' β' γ' : ℝ, rot3 α' β' γ' = U.mul (rot3 α β 0) := by
  have hp : IsSU2 (U.mul (rot3 α β 0)) := isSU2_mul _ _ hU (by rw [rot3_eq_ofEuler]; exact ofEuler_isSU2 _ _ _)
  refine ⟨(eulerOf (U.mul (rot3 α β 0))).gamma, (eulerOf (U.mul (rot3 α β 0))).beta,
    (eulerOf (U.mul (rot3 α β 0))).alpha, ?_⟩
  rw [rot3_eq_ofEuler]
  exact euler_roundtrip _ hp

theorem phase_bridge (N : ℕ) (θ : ℝ) (i : Fin (N + 1)) : FrameAlg.phase N θ i = C12.phase N i θ := by
  unfold FrameAlg.phase C12.phase hel
  congr 1
  push_cast
  ring

theorem DConj_eq_Dc (N : ℕ) (α β γ : ℝ) (i k : Fin (N + 1)) : DConj N α β γ i k = Dc N α β γ i k := by
  rw [DConj_apply, phase_bridge, phase_bridge]
  rfl

/-- **the first D-matrix is left-multiplied by one D-matrix**: if the rotations compose as 2×2 matrices, the code's
conjugated D-matrices compose as `Matrix` products, for every spin `2j = N ≤ 8`. -/
theorem DConj_compose (N : ℕ) (hN : N ≤ 8) (a b c α β γ α' β' γ' : ℝ)
    (hcomp : rot3 α' β' γ' = (rot3 a b c).mul (rot3 α β γ)) :
    DConj N α' β' γ' = DConj N a b c * DConj N α β γ := by
  ext i k
  rw [Matrix.mul_apply, DConj_eq_Dc,
    D_hom_su2 N hN a b c α β γ α' β' γ' hcomp i k (by omega) (by omega), ← Fin.sum_univ_eq_sum_range
      (fun l => Dc N a b c i l * Dc N α β γ l k) (N + 1)]
  refine Finset.sum_congr rfl fun l _ => ?_
  rw [DConj_eq_Dc, DConj_eq_Dc]

theorem DConj_gamma (N : ℕ) (α β γ : ℝ) (i k : Fin (N + 1)) :
    DConj N α β γ i k = DConj N α β 0 i k * FrameAlg.phase N γ k := by
  rw [DConj_apply, DConj_apply]
  have : FrameAlg.phase N 0 k = 1 := by unfold FrameAlg.phase; simp
  rw [this, mul_one]

/-- FULL: with fixed laboratory axes the density computed from the rotated momenta equals the density computed from
the original momenta, for every decay structure.

Proved part (every spin `N/2 ≤ 4` of the parent, any number of chains `κ`, all remainders `B_k`): write each chain
tensor as `A_k[a,f] = Σ_l D^{J*}(α_k, β_k, 0)[a,l] · B_k[l,f]` (top-vertex D-matrix of `DecayChain.get_amp`, `γ = 0`
as in `cal_helicity_angle`).  IF
* `hcomp`: the new top-vertex angles of every chain satisfy `R(α'_k, β'_k, γ_k) = U · R(α_k, β_k, 0)` with ONE common
  SU(2) element `U = R(a,b,c)` (the rotation of the event; composed angles exist by `exists_composed_angles`), and
* `hB`: the remainder of the chain changes only by the phase `e^{i l γ_k}` on the index contracted with the top
  D-matrix (the azimuths of the daughters' vertices shift by the third Euler angle; everything else below the top
  vertex is unchanged by `below_top_invariant`),
THEN the helicity-summed density is unchanged.
Missing links: (i) that the angles `angle_zx_z_getx` extracts from `R z` are the composed angles of `hcomp` for the
SU(2) pre-image `U` of `R` (needs the covering map SU(2) → SO(3) on the vector model), (ii) that the daughters'
azimuth shifts equal `∓γ_k` and enter the remainder as the stated phase (needs the index structure of `get_amp`).
Both are validated on the implementation by the metamorphic search of harness/c01.py. -/
theorem density_rot_fixed_axes_partial {ιF κ : Type} [Fintype ιF] [DecidableEq ιF] [Fintype κ]
    (N : ℕ) (hN : N ≤ 8) (a b c : ℝ) (α β α' β' γ : κ → ℝ)
    (B B' : κ → Fin (N + 1) → ιF → ℂ)
    (hcomp : ∀ k, rot3 (α' k) (β' k) (γ k) = (rot3 a b c).mul (rot3 (α k) (β k) 0))
    (hB : ∀ k l f, B' k l f = FrameAlg.phase N (γ k) l * B k l f) :
    density (fun k (p : Fin (N + 1) × ιF) => ∑ l, DConj N (α' k) (β' k) 0 p.1 l * B' k l p.2)
      = density (fun k (p : Fin (N + 1) × ιF) => ∑ l, DConj N (α k) (β k) 0 p.1 l * B k l p.2) := by
  have h1 : (fun k (p : Fin (N + 1) × ιF) => ∑ l, DConj N (α' k) (β' k) 0 p.1 l * B' k l p.2)
      = (fun k (p : Fin (N + 1) × ιF) => ∑ l, DConj N (α' k) (β' k) (γ k) p.1 l * B k l p.2) := by
    funext k p
    refine Finset.sum_congr rfl fun l _ => ?_
    rw [hB, DConj_gamma N (α' k) (β' k) (γ k)]
    ring
  rw [h1]
  exact density_boost_invariant_partial (fun k => DConj N (α k) (β k) 0) (fun k => DConj N (α' k) (β' k) (γ k)) B B
    (DConj N a b c) 1 (D_conj_unitary N hN a b c) (by simp)
    (fun k => DConj_compose N hN a b c (α k) (β k) 0 (α' k) (β' k) (γ k) (hcomp k)) (fun k l => by simp)

end Fixed

/-! ## non-vacuity -/

/-- every `rotPi n` (rotation by π about a non-zero axis) is an `IsRot` -/
theorem rotPi_isRot (n : V3) (hn : n.norm2 ≠ 0) : IsRot (rotPi n) := by
  obtain ⟨h1, h2, h3⟩ := rotPi_is_rotation n hn
  refine ⟨h3, ?_, h1, h2⟩
  intro c a
  obtain ⟨nx, ny, nz⟩ := n
  simp only [V3.norm2] at hn
  have hn' : nx ^ 2 + ny ^ 2 + nz ^ 2 ≠ 0 := by
    intro h; apply hn; rw [← h]; ring
  simp only [rotPi, V3.dot, V3.norm2, V3.smul, V3.sub, V3.mk.injEq]
  refine ⟨?_, ?_, ?_⟩ <;> field_simp

-- the identity is a rotation; a two-body decay along x with base axes (z, x) = (e_z, e_y)… is regular:
example : IsRot (fun v => v) := ⟨fun _ _ => rfl, fun _ _ => rfl, fun _ _ => rfl, fun _ _ => rfl⟩

/-- the regular branch is inhabited: `z1 = e_z`, `z2 = e_x`, `x1 = e_x` -/
example : ZReg ⟨0, 0, 1⟩ ⟨1, 0, 0⟩ ∧ XReg ⟨0, 0, 1⟩ ⟨1, 0, 0⟩ := by
  have hy : crossUnit ⟨0, 0, 1⟩ ⟨1, 0, 0⟩ = ⟨0, 1, 0⟩ :=
    crossUnit_eq _ _ ⟨0, 1, 0⟩ 1 (by ext <;> simp [V3.cross, V3.smul]) (by simp [V3.norm2]) eps_le_one
  have hu : (⟨1, 0, 0⟩ : V3).unit = ⟨1, 0, 0⟩ := by
    have := unit_smul 1 ⟨1, 0, 0⟩ one_pos (by simp [V3.norm2])
    rwa [one_smul'] at this
  have n1 : ∀ v : V3, v.norm2 = 1 → eps ≤ v.norm := by
    intro v hv; unfold V3.norm ksqrt; rw [hv, Real.sqrt_one]; exact eps_le_one
  refine ⟨⟨?_, ?_, ?_⟩, ?_, ?_⟩
  · exact n1 _ (by simp [V3.cross, V3.norm2])
  · rw [hy]; exact n1 _ (by simp [V3.cross, V3.norm2])
  · rw [hy, hu]; exact n1 _ (by simp [V3.cross, V3.norm2])
  · exact n1 _ (by simp [V3.cross, V3.norm2])
  · rw [hy]; exact n1 _ (by simp [V3.cross, V3.norm2])

end TfPwaV.C01
