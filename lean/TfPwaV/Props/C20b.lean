import TfPwaV.Proofs.Interp
import TfPwaV.Proofs.InterpDeriv
/-!
# C20 (part 2) — inverse-transform samplers invert their own cumulative functions and stay in range;
# `Hist1D` arithmetic

Theorems over ℝ about `TfPwaV.InterpR`, the ℝ-instance of `templates/Interp.lean.in` (the Float instance of the
same text is compared with `LinearInterp`, `BWGenerator` and `Hist1D.__add__/__sub__/__mul__` on every run).
-/
open TfPwaV.ScalarR
namespace TfPwaV.C20b
open TfPwaV.InterpR

/-- ★ `LinearInterp`: for strictly increasing nodes, node values `≥ 0`, `int_all > 0` and `u ∈ [0, 1)` — or `u = 1`
when the last bin has positive mass — `integral (solve u) = u · int_all`, `x₀ ≤ solve u ≤ x_last`, and the density at
`solve u` is `≥ 0` (inside a sloped bin the code takes the root of the quadratic with `k t + b = +√… ≥ 0`, in a flat
bin the linear formula).  Holds for every `epsilon` of the `|k| > ε` flattening.
Note: "node values not all zero" does not imply `int_all > 0` (flattening can give a bin mass 0), so `int_all > 0`
is the hypothesis; with `int_all = 0` the code divides 0 by 0. -/
theorem linear_inverts (eps xa xb ya yb : ℝ) (xs ys : List ℝ)
    (hx : Incr (xa :: xb :: xs)) (hy : ∀ y ∈ ya :: yb :: ys, 0 ≤ y) (hl : ys.length = xs.length)
    (u : ℝ) (hu0 : 0 ≤ u) (hu1 : u ≤ 1)
    (hpos : 0 < (LI.mk eps (xa :: xb :: xs) (ya :: yb :: ys)).intAll)
    (hlast : u < 1 ∨ 0 < lastM (LI.mk eps (xa :: xb :: xs) (ya :: yb :: ys)).segs) :
    let f := LI.mk eps (xa :: xb :: xs) (ya :: yb :: ys)
    f.integral (f.solve u) = u * f.intAll ∧ xa ≤ f.solve u ∧
      f.solve u ≤ (xa :: xb :: xs).getLast (by simp) ∧ 0 ≤ f.call (f.solve u) := by
  intro f
  have hch : Chain f.segs := segsOf_chain eps _ _ hx hy
  have hsegs : f.segs = mkSeg eps xa xb ya yb :: segsOf eps (xb :: xs) (yb :: ys) := rfl
  have hI : f.intAll = total f.segs 0 := rfl
  have hx0 : (0 : ℝ) ≤ u * f.intAll := mul_nonneg hu0 hpos.le
  have hx1 : u * f.intAll ≤ total f.segs 0 := by rw [← hI]; nlinarith
  have hp : u * f.intAll < total f.segs 0 ∨ 0 < lastM f.segs := by
    rcases hlast with h | h
    · left; rw [← hI]; nlinarith
    · right; exact h
  rw [hsegs] at hch hx1 hp
  obtain ⟨h1, h2, h3, h4⟩ := solve_spec _ _ 0 (u * f.intAll) hch hx0 hx1 hp
  have hlastx := lastXb_segsOf eps xs ys xa xb ya yb hl
  refine ⟨?_, ?_, ?_, ?_⟩
  · show integralAux f.segs 0 (solveAux f.segs 0 (u * f.intAll)) = u * f.intAll
    rw [hsegs]; exact h3
  · show (mkSeg eps xa xb ya yb).xa ≤ solveAux f.segs 0 (u * f.intAll)
    rw [hsegs]; exact h1
  · show solveAux f.segs 0 (u * f.intAll) ≤ _
    rw [hsegs, ← hlastx]; exact h2
  · show 0 ≤ callAux f.segs (solveAux f.segs 0 (u * f.intAll))
    rw [hsegs]; exact h4

/-- `integral(x₀) = 0` -/
theorem linear_integral_first (eps xa xb ya yb : ℝ) (xs ys : List ℝ)
    (hx : Incr (xa :: xb :: xs)) (hy : ∀ y ∈ ya :: yb :: ys, 0 ≤ y) :
    (LI.mk eps (xa :: xb :: xs) (ya :: yb :: ys)).integral xa = 0 := by
  have hch : Chain (LI.mk eps (xa :: xb :: xs) (ya :: yb :: ys)).segs := segsOf_chain eps _ _ hx hy
  have hsegs : (LI.mk eps (xa :: xb :: xs) (ya :: yb :: ys)).segs
      = mkSeg eps xa xb ya yb :: segsOf eps (xb :: xs) (yb :: ys) := rfl
  rw [hsegs] at hch
  have := integral_first _ _ 0 hch
  show integralAux (LI.mk eps (xa :: xb :: xs) (ya :: yb :: ys)).segs 0 xa = 0
  rw [hsegs]; exact this

/-- ★ `integral` is an antiderivative of `__call__`: at every point that is not an interior node,
`d/dt integral(t) = __call__(t)` (both with the code's `digitize` bin selection, extrapolation outside the grid
included); at the nodes `integral` is continuous (`integral_edge`).  Holds for any node data. -/
theorem linear_integral_antiderivative (f : LI) (t : ℝ) (hne : ∀ s ∈ f.segs.dropLast, t ≠ s.xb) :
    HasDerivAt f.integral (f.call t) t :=
  integralAux_hasDerivAt f.segs 0 t hne

/-- the flat-bin branch (`k == 0`): `solve` uses the linear formula `(d + b x₁)/b = x₁ + d/b` -/
theorem flat_bin_branch (s : Seg) (hk : s.k = 0) (hb : s.b ≠ 0) (d : ℝ) : s.inv d = s.xb + d / s.b := by
  unfold Seg.inv
  rw [if_pos ((kisZero_iff _).mpr hk)]
  field_simp
  ring

/-- the degenerate case excluded above: a flat bin of density 0 makes `solve` compute `0/0` (Lean: `x/0 = 0`,
numpy: NaN) — it is selected only for `u = 1` with a last bin of mass 0, or when `int_all = 0`. -/
theorem flat_zero_bin (s : Seg) (hk : s.k = 0) (hb : s.b = 0) (d : ℝ) : s.inv d = (d + 0 * s.xb) / 0 := by
  unfold Seg.inv
  rw [if_pos ((kisZero_iff _).mpr hk), hb]

-- non-vacuity: nodes (0,1), (1,0), (3,2): increasing, non-negative, positive total mass
example : Incr [0, 1, 3] ∧ (∀ y ∈ [(1 : ℝ), 0, 2], 0 ≤ y) ∧ 0 < (LI.mk 1e-10 [0, 1, 3] [1, 0, 2]).intAll := by
  refine ⟨⟨by norm_num, by norm_num, trivial⟩, ?_, ?_⟩
  · intro y hy; simp at hy; rcases hy with rfl | rfl | rfl <;> norm_num
  · have h1 : kabs ((0 - 1 : ℝ) / (1 - 0)) > 1e-10 := by unfold kabs; norm_num
    have h2 : kabs ((2 - 0 : ℝ) / (3 - 1)) > 1e-10 := by unfold kabs; norm_num
    simp only [LI.intAll, LI.segs, segsOf, total, mkSeg, if_pos h1, if_pos h2]
    norm_num

-- BWGenerator -------------------------------------------------------------------------------------------

/-- ★ `BWGenerator`: for `gamma0 > 0`, `m_min ≤ m_max`, `u ∈ [0,1]`:
`integral (solve u) − integral m_min = u · int_all` and `m_min ≤ solve u ≤ m_max`
(`tan`/`arctan` are mutually inverse because the angle stays in `(−π/2, π/2)`). -/
theorem bw_inverts (g : BW) (hg : 0 < g.gamma0) (hm : g.mMin ≤ g.mMax) (u : ℝ) (hu0 : 0 ≤ u) (hu1 : u ≤ 1) :
    g.integral (g.solve u) - g.integral g.mMin = u * g.intAll ∧ g.mMin ≤ g.solve u ∧ g.solve u ≤ g.mMax := by
  have hk : 0 < g.kk := by unfold BW.kk; linarith
  have hkne : g.kk ≠ 0 := ne_of_gt hk
  set A := Real.arctan ((g.mMin - g.m0) / g.kk) with hA
  set B := Real.arctan ((g.mMax - g.m0) / g.kk) with hB
  have hAB : A ≤ B := by
    apply Real.arctan_strictMono.monotone
    exact div_le_div_of_nonneg_right (by linarith) hk.le
  have hA1 : -(Real.pi / 2) < A := Real.neg_pi_div_two_lt_arctan _
  have hB2 : B < Real.pi / 2 := Real.arctan_lt_pi_div_two _
  have hall : g.intAll = (B - A) / g.kk := by
    unfold BW.intAll; rw [bw_integral_eq, bw_integral_eq, ← hA, ← hB]; field_simp
  have hkx : g.kxmin = A := rfl
  set th := g.kk * (u * g.intAll) + g.kxmin with hth
  have hth' : th = u * (B - A) + A := by rw [hth, hall, hkx]; field_simp
  obtain ⟨ht1, ht2⟩ := bw_theta_range A B u hAB hu0 hu1
  rw [← hth'] at ht1 ht2
  have hsolve : g.solve u = g.kk * Real.tan th + g.m0 := rfl
  have harg : (g.solve u - g.m0) / g.kk = Real.tan th := by rw [hsolve]; field_simp; ring
  have hat : Real.arctan (Real.tan th) = th := Real.arctan_tan (by linarith) (by linarith)
  have htanA : Real.tan A = (g.mMin - g.m0) / g.kk := Real.tan_arctan _
  have htanB : Real.tan B = (g.mMax - g.m0) / g.kk := Real.tan_arctan _
  have hmono : ∀ a b : ℝ, -(Real.pi / 2) < a → b < Real.pi / 2 → a ≤ b → Real.tan a ≤ Real.tan b := by
    intro a b ha hb hab
    rcases eq_or_lt_of_le hab with h | h
    · rw [h]
    · exact (Real.strictMonoOn_tan ⟨ha, by linarith⟩ ⟨by linarith, hb⟩ h).le
  have h1 := hmono A th hA1 (by linarith) ht1
  have h2 := hmono th B (by linarith) hB2 ht2
  refine ⟨?_, ?_, ?_⟩
  · rw [bw_integral_eq, bw_integral_eq, harg, hat, ← hA, hth', hall]; field_simp; ring
  · rw [hsolve]
    have : g.mMin = g.kk * Real.tan A + g.m0 := by rw [htanA]; field_simp; ring
    rw [this]; nlinarith
  · rw [hsolve]
    have : g.mMax = g.kk * Real.tan B + g.m0 := by rw [htanB]; field_simp; ring
    rw [this]; nlinarith

/-- `__call__` is the density whose primitive is `integral` (pointwise identity of the two closed forms:
`1/((x-m0)² + γ²/4) = (1/κ²)/(1 + ((x-m0)/κ)²)` with `κ = γ/2`, the derivative of `(1/κ) arctan((x-m0)/κ)`) -/
theorem bw_density_form (g : BW) (hg : 0 < g.gamma0) (x : ℝ) :
    g.call x = (1 / g.kk) * ((1 / g.kk) / (1 + ((x - g.m0) / g.kk) ^ 2)) := by
  have hk : 0 < g.kk := by unfold BW.kk; linarith
  have hgk : g.gamma0 = 2 * g.kk := by unfold BW.kk; ring
  unfold BW.call
  rw [hgk]
  have h1 : 0 < (x - g.m0) * (x - g.m0) + 2 * g.kk * (2 * g.kk) / 4 := by nlinarith [mul_self_nonneg (x - g.m0)]
  have h2 : 0 < 1 + ((x - g.m0) / g.kk) ^ 2 := by positivity
  field_simp
  ring

example : ∃ g : BW, 0 < g.gamma0 ∧ g.mMin ≤ g.mMax := ⟨⟨1, 0.1, 0.5, 2⟩, by norm_num, by norm_num⟩

-- Hist1D arithmetic ---------------------------------------------------------------------------------------

/-- ★ `Hist1D.__add__`: contents add, errors add in quadrature. -/
theorem hist_add (a b : HBin) :
    (a.add b).count = a.count + b.count ∧ (a.add b).error ^ 2 = a.error ^ 2 + b.error ^ 2 ∧ 0 ≤ (a.add b).error := by
  refine ⟨rfl, ?_, Real.sqrt_nonneg _⟩
  show Real.sqrt (a.error * a.error + b.error * b.error) ^ 2 = _
  rw [Real.sq_sqrt (by nlinarith [mul_self_nonneg a.error, mul_self_nonneg b.error])]; ring

/-- ★ `Hist1D.__sub__`: contents subtract, errors still add in quadrature. -/
theorem hist_sub (a b : HBin) :
    (a.sub b).count = a.count - b.count ∧ (a.sub b).error ^ 2 = a.error ^ 2 + b.error ^ 2 ∧ 0 ≤ (a.sub b).error := by
  refine ⟨rfl, ?_, Real.sqrt_nonneg _⟩
  show Real.sqrt (a.error * a.error + b.error * b.error) ^ 2 = _
  rw [Real.sq_sqrt (by nlinarith [mul_self_nonneg a.error, mul_self_nonneg b.error])]; ring

/-- ★ `Hist1D.__mul__` by a scalar: contents and errors scale linearly (`error² ↦ c² error²`); the error stays
non-negative exactly for `c ≥ 0` (for `c < 0` the code returns negative errors). -/
theorem hist_smul (a : HBin) (c : ℝ) :
    (a.smul c).count = a.count * c ∧ (a.smul c).error ^ 2 = c ^ 2 * a.error ^ 2 ∧
      (0 ≤ a.error → 0 ≤ c → 0 ≤ (a.smul c).error) := by
  refine ⟨rfl, ?_, fun h1 h2 => mul_nonneg h1 h2⟩
  show (a.error * c) ^ 2 = _
  ring

/-- linearity: `(a + b) * c` and `a * c + b * c` have the same contents and the same squared errors -/
theorem hist_distrib (a b : HBin) (c : ℝ) :
    ((a.add b).smul c).count = ((a.smul c).add (b.smul c)).count ∧
    ((a.add b).smul c).error ^ 2 = ((a.smul c).add (b.smul c)).error ^ 2 := by
  obtain ⟨_, h2, _⟩ := hist_add a b
  obtain ⟨_, h4, _⟩ := hist_add (a.smul c) (b.smul c)
  obtain ⟨_, h6, _⟩ := hist_smul (a.add b) c
  obtain ⟨_, h8, _⟩ := hist_smul a c
  obtain ⟨_, h10, _⟩ := hist_smul b c
  refine ⟨?_, ?_⟩
  · show (a.count + b.count) * c = a.count * c + b.count * c; ring
  · rw [h6, h2, h4, h8, h10]; ring

/-- `Hist1D.histogram`: a bin with entries has `error² = Σw²`; a bin without entries has `error² = mask_error`
(for `mask_error ≥ 0`; the default is `+∞`, used as "no information"). -/
theorem hist_error_of_sums (n : Nat) (sw sw2 me : ℝ) (h2 : 0 ≤ sw2) (hme : 0 ≤ me) :
    (HBin.ofSums n sw sw2 me).count = sw ∧
    (n ≠ 0 → (HBin.ofSums n sw sw2 me).error ^ 2 = sw2) ∧ (n = 0 → (HBin.ofSums n sw sw2 me).error ^ 2 = me) := by
  refine ⟨rfl, ?_, ?_⟩
  · intro hn
    show Real.sqrt (if n = 0 then me else sw2) ^ 2 = sw2
    rw [if_neg hn, Real.sq_sqrt h2]
  · intro hn
    show Real.sqrt (if n = 0 then me else sw2) ^ 2 = me
    rw [if_pos hn, Real.sq_sqrt hme]

end TfPwaV.C20b
