import TfPwaV.Proofs.LSGram0
import TfPwaV.Proofs.LSGram1
import TfPwaV.Proofs.LSGram2
import TfPwaV.Proofs.LSGram3
import TfPwaV.Proofs.LSGram4
import TfPwaV.Proofs.LSGram5
/-!
# C13 (rank clause) — the LS → helicity coupling matrix has orthonormal columns

`LSGram.gramCheck ja jb jc` evaluates, in exact rational arithmetic, the Gram matrix of the columns of
`HelicityDecay.get_cg_matrix` over the full (parity-violating) coupling list `lsList ja jb jc … p_break=True`,
with the common surd factored out (see `Model/LSGram.lean`): diagonal entries 1, off-diagonal entries 0.
Orthonormal columns are linearly independent, so the map (g_ls) ↦ (H_{λb λc}) is injective (full column rank)
for the full list, and for every parity-conserving / C-restricted / `l_list`-restricted sub-list (a sub-family of
an orthonormal family).  Together with `ls_count_broken` (#couplings = #helicity amplitudes) the matrix is square
and orthogonal, i.e. also surjective.  Range: all (J_A, J_B, J_C) with 2j ≤ 5, which is the range the property
names for the rank check.  The CG model used here is compared with `cg_coef` on every run (C12 correspondence),
and the numeric rank of the real `get_cg_matrix` is re-checked by the harness.
-/
namespace TfPwaV.C13
open TfPwaV.LSGram

/-- Exact orthonormality of the columns of the LS→helicity matrix for every spin triple with `2j ≤ 5`
(integer and half-integer; triples with half-integral total have an empty list and hold trivially). -/
theorem ls_gram_orthonormal (ja jb jc : Nat) (ha : ja ≤ 5) (hb : jb ≤ 5) (hc : jc ≤ 5) :
    gramCheck ja jb jc = true := by
  have h0 := gram_block_0; have h1 := gram_block_1; have h2 := gram_block_2
  have h3 := gram_block_3; have h4 := gram_block_4; have h5 := gram_block_5
  simp only [List.all_eq_true, List.mem_range] at h0 h1 h2 h3 h4 h5
  have : ja = 0 ∨ ja = 1 ∨ ja = 2 ∨ ja = 3 ∨ ja = 4 ∨ ja = 5 := by omega
  rcases this with rfl | rfl | rfl | rfl | rfl | rfl
  · exact h0 jb (by omega) jc (by omega)
  · exact h1 jb (by omega) jc (by omega)
  · exact h2 jb (by omega) jc (by omega)
  · exact h3 jb (by omega) jc (by omega)
  · exact h4 jb (by omega) jc (by omega)
  · exact h5 jb (by omega) jc (by omega)

/-- non-vacuity: the check is not trivially true — for 1⁻ → 1⁻ 1⁻ (2j = 2,2,2) the list has 7 couplings
and the Gram sums are genuinely evaluated (the diagonal normalisation is not 1 by itself). -/
example : (LS.lsList 2 2 2 none none none true none).length = 7 ∧
    diagNorm 2 2 2 (2, 4) ≠ 1 ∧ gramSum 2 2 2 (2, 4) (2, 4) ≠ 0 ∧ gramSum 2 2 2 (0, 2) (2, 2) = 0 := by decide +kernel

end TfPwaV.C13
