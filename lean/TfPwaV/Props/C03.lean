import TfPwaV.Proofs.Superpose
/-!
# C03 — Amplitudes superpose linearly; fit fractions obey the sum rule

Property theorems about the model `TfPwaV.Superpose` of `DecayGroup` chain selection / summation
(`tf_pwa/amp/core.py`) and of the fit-fraction routines (`tf_pwa/fitfractions.py`).  The model is tied to the
implementation by `harness/c03.py` (exact comparison of `chains_idx` traces, 1e-12 comparison of amplitudes and
fraction tables on real decay groups).

Scalars: `K` is an arbitrary commutative ring (field where a quotient is taken); complex numbers are pairs `K × K`
with the usual product, so the theorems hold in particular for `K = ℝ` (complex amplitudes) and are the exact
statements the floating-point code approximates.
-/
namespace TfPwaV.C03
open TfPwaV.Superpose

-- =============================================================================================
-- A. selection logic (kind D, exact)
-- =============================================================================================

/-- `set_used_res(es)` selects **exactly** the chains (indices below the number of chains) that contain one of the
named particles, plus the chain indices listed as `int`; for every group and every argument list. -/
theorem selection_logic (g : Group) (es : List Entry) (j : Nat) :
    j ∈ (setUsedRes g es false).chainsIdx ↔
      (j < g.n ∧ ∃ r, Entry.res r ∈ es ∧ r ∈ g.innerOf j) ∨ Entry.idx j ∈ es :=
  mem_setUsedRes_false g es j

/-- `set_used_res(es, only=True)` selects exactly the chains all of whose resonances are named
(plus the listed indices). -/
theorem selection_logic_only (g : Group) (es : List Entry) (j : Nat) :
    j ∈ (setUsedRes g es true).chainsIdx ↔
      (j < g.n ∧ ∀ r, r ∈ g.resonances → r ∈ g.innerOf j → Entry.res r ∈ es) ∨ Entry.idx j ∈ es :=
  mem_setUsedRes_true g es j

/-- no chain is ever selected twice, whatever the argument (repeated names, repeated / overlapping indices) -/
theorem selection_nodup (g : Group) (es : List Entry) (only : Bool) :
    (setUsedRes g es only).chainsIdx.Nodup :=
  nodup_setUsedRes g es only

/-- with particle names only, the resulting list is the ascending list of the matching chains, and `not_full` is
exactly "fewer chains than the group has" -/
theorem selection_names_order (g : Group) (rs : List Nat) :
    let s := setUsedRes g (rs.map Entry.res) false
    s.chainsIdx = (List.range g.n).filter (fun j => hasAny g rs j) ∧
    s.chainsIdx.Pairwise (· < ·) ∧
    (s.notFull = true ↔ s.chainsIdx.length ≠ g.n) := by
  have h1 : (rs.map Entry.res).filterMap Entry.res? = rs := by
    induction rs with
    | nil => rfl
    | cons r rs ih => simp [Entry.res?, ih]
  have h2 : (rs.map Entry.res).filterMap Entry.idx? = [] := by
    induction rs with
    | nil => rfl
    | cons r rs ih => simp [Entry.idx?]
  have hs : setUsedRes g (rs.map Entry.res) false =
      ⟨(List.range g.n).filter (fun j => hasAny g rs j),
        ((List.range g.n).filter (fun j => hasAny g rs j)).length != g.n⟩ := by
    simp only [setUsedRes, h1, h2, addUsedChains, addList, setUsedChains, Bool.not_false, if_true, List.foldl_nil]
  rw [hs]
  refine ⟨rfl, List.Pairwise.filter _ List.pairwise_lt_range, ?_⟩
  simp

/-- `add_used_chains`: result has the old list as a prefix, contains exactly the old and the new indices, and stays
duplicate-free -/
theorem add_used_chains_spec (s : State) (l : List Nat) :
    (∃ t, (addUsedChains s l).chainsIdx = s.chainsIdx ++ t) ∧
    (∀ j, j ∈ (addUsedChains s l).chainsIdx ↔ j ∈ s.chainsIdx ∨ j ∈ l) ∧
    (s.chainsIdx.Nodup → (addUsedChains s l).chainsIdx.Nodup) ∧
    (addUsedChains s l).notFull = s.notFull :=
  ⟨addList_prefix _ _, fun j => mem_addList _ _ j, nodup_addList _ _, rfl⟩

/-- Behaviour mirrored from the code, not a desirable property: chains added through `int` entries do not refresh
`not_full` (core.py:2075-2081) — naming every chain by index leaves `not_full = True` on the full list. -/
example : setUsedRes ⟨[[0], [1], [2]], [0, 1, 2]⟩ [.idx 0, .idx 1, .idx 2] false = ⟨[0, 1, 2], true⟩ := by decide

example : setUsedRes ⟨[[0], [1], [0, 2]], [0, 1, 2]⟩ [.res 0, .idx 1] false = ⟨[0, 2, 1], true⟩ := by decide
example : setUsedRes ⟨[[0], [1], [0, 2]], [0, 1, 2]⟩ [.res 0] true = ⟨[0], true⟩ := by decide

-- =============================================================================================
-- B. linear superposition (kind A)
-- =============================================================================================
section Superposition
variable {K : Type} [CommRing K]

/-- amplitude of a single chain = its coupling times its tensor -/
theorem amp_single (c : Nat → K × K) (a : Nat → Nat → Nat → K × K) (k e h : Nat) :
    ampAt c a [k] e h = cmul (c k) (a k e h) := by
  simp [ampAt, dedup, csum]

/-- **Superposition**: for every duplicate-free selection `S` (every list `chains_idx` can hold after a selection
call), every coupling assignment, event and helicity configuration, the amplitude equals the sum of the amplitudes
of the selected chains taken alone. -/
theorem subset_partial_sum (c : Nat → K × K) (a : Nat → Nat → Nat → K × K) (S : List Nat) (hS : S.Nodup)
    (e h : Nat) :
    ampAt c a S e h = csum (S.map fun k => ampAt c a [k] e h) := by
  rw [ampAt_eq_raw, dedup_of_nodup S hS]
  unfold rawAmp
  congr 1
  apply List.map_congr_left
  intro k _
  rw [amp_single]

/-- a chain listed twice counts once (the code collects chains in a dictionary) -/
theorem amp_duplicates (c : Nat → K × K) (a : Nat → Nat → Nat → K × K) (S : List Nat) (e h : Nat) :
    ampAt c a S e h = ampAt c a (dedup S) e h := by
  rw [ampAt_eq_raw, ampAt_eq_raw, dedup_of_nodup _ (nodup_dedup S)]

/-- the order of `chains_idx` is irrelevant -/
theorem amp_perm (c : Nat → K × K) (a : Nat → Nat → Nat → K × K) {S T : List Nat} (hS : S.Nodup)
    (hp : S.Perm T) (e h : Nat) : ampAt c a S e h = ampAt c a T e h := by
  rw [ampAt_eq_raw, ampAt_eq_raw, dedup_of_nodup S hS, dedup_of_nodup T (hp.nodup_iff.1 hS)]
  exact rawAmp_perm c a hp e h

/-- disjoint selections add -/
theorem amp_union (c : Nat → K × K) (a : Nat → Nat → Nat → K × K) (S T : List Nat) (h : (S ++ T).Nodup)
    (e hh : Nat) : ampAt c a (S ++ T) e hh = cadd (ampAt c a S e hh) (ampAt c a T e hh) := by
  have hS := (List.nodup_append.1 h).1
  have hT := (List.nodup_append.1 h).2.1
  rw [ampAt_eq_raw, ampAt_eq_raw, ampAt_eq_raw, dedup_of_nodup _ h, dedup_of_nodup _ hS, dedup_of_nodup _ hT,
    rawAmp_append]

/-- selecting by resonance names yields exactly the partial sum over the chains containing one of them -/
theorem amp_set_used_res (g : Group) (c : Nat → K × K) (a : Nat → Nat → Nat → K × K) (rs : List Nat)
    (e h : Nat) :
    ampAt c a (setUsedRes g (rs.map Entry.res) false).chainsIdx e h =
      csum (((List.range g.n).filter fun j => hasAny g rs j).map fun k => cmul (c k) (a k e h)) := by
  rw [subset_partial_sum c a _ (selection_nodup g _ false), (selection_names_order g rs).1]
  congr 1
  apply List.map_congr_left
  intro k _
  rw [amp_single]

/-- replace the coupling of chain `k` by `lam · c_k` -/
def scaleAt (c : Nat → K × K) (k : Nat) (lam : K × K) : Nat → K × K :=
  fun j => if j = k then cmul lam (c j) else c j

/-- **Proportionality to the own coupling**: rescaling the coupling of chain `k` by any complex `lam` multiplies
exactly the term of chain `k` by `lam` and leaves every other term of the selection unchanged. -/
theorem scale_coupling (c : Nat → K × K) (a : Nat → Nat → Nat → K × K) (k : Nat) (lam : K × K)
    (S : List Nat) (hS : S.Nodup) (e h : Nat) :
    ampAt (scaleAt c k lam) a S e h =
      csum (S.map fun j => if j = k then cmul lam (ampAt c a [j] e h) else ampAt c a [j] e h) := by
  rw [subset_partial_sum _ a S hS]
  congr 1
  apply List.map_congr_left
  intro j _
  rw [amp_single, amp_single]
  unfold scaleAt
  split
  · simp only [cmul]; ext <;> simp <;> ring
  · rfl

end Superposition

-- =============================================================================================
-- C. batching
-- =============================================================================================

/-- `data_split` is a partition of the sample into consecutive slices of at most `b` elements, for every batch size
`b ≥ 1` — also when `b` does not divide the sample size or exceeds it. -/
theorem chunks_partition {α : Type} (b : Nat) (hb : 0 < b) (l : List α) :
    (chunks b l).flatten = l ∧ ∀ c ∈ chunks b l, c.length ≤ b :=
  ⟨chunks_flatten b hb l, chunksAux_length_le b _ l⟩

example : chunks 3 [0, 1, 2, 3, 4, 5, 6] = [[0, 1, 2], [3, 4, 5], [6]] := by decide
example : chunks 9 [0, 1, 2] = [[0, 1, 2]] := by decide
example : chunks 1 [0, 1, 2] = [[0], [1], [2]] := by decide

section Batch
variable {K : Type} [CommRing K]

/-- **Batch independence of every integral** (all samples, weights, selections, batch sizes ≥ 1). -/
theorem batch_independent (nh : Nat) (c : Nat → K × K) (a : Nat → Nat → Nat → K × K) (w : Nat → K)
    (b : Nat) (hb : 0 < b) (ev : List Nat) (S : List Nat) :
    integralB nh c a w b ev S = integral nh c a w ev S := by
  unfold integralB
  rw [← integral_flatten, chunks_flatten b hb]

/-- any per-event quantity accumulated batch by batch (integrand values, every component of their gradients) has the
same total for every batch size ≥ 1 -/
theorem batch_sum_any {M : Type} [AddCommMonoid M] (f : Nat → M) (b : Nat) (hb : 0 < b) (ev : List Nat) :
    ((chunks b ev).map fun c => (c.map f).sum).sum = (ev.map f).sum := by
  have h : ∀ L : List (List Nat), (L.map fun c => (c.map f).sum).sum = (L.flatten.map f).sum := by
    intro L
    induction L with
    | nil => simp
    | cons c L ih => simp [ih]
  rw [h, chunks_flatten b hb]

end Batch

section BatchFrac
variable {K : Type} [Field K]

/-- hence the whole table of fit fractions (both routines) is independent of the batch size -/
theorem fractions_batch_independent (g : Group) (nh : Nat) (c : Nat → K × K) (a : Nat → Nat → Nat → K × K)
    (w : Nat → K) (b : Nat) (hb : 0 < b) (ev : List Nat) (s : State) (res : List Entry) :
    fracOld g (integralB nh c a w b ev) res = fracOld g (integral nh c a w ev) res ∧
    fracNew g (integralB nh c a w b ev) s res = fracNew g (integral nh c a w ev) s res := by
  have : integralB nh c a w b ev = integral nh c a w ev := funext (batch_independent nh c a w b hb ev)
  rw [this]; exact ⟨rfl, rfl⟩

end BatchFrac

-- =============================================================================================
-- D. the sum rule
-- =============================================================================================
section SumRule
variable {K : Type}

/-- `|Σ_k a_k|² = Σ_k |a_k|² + Σ_{j<i} (|a_j + a_i|² − |a_j|² − |a_i|²)`, integrated: for every duplicate-free chain
list the integral is the sum of the single-chain integrals plus all pair interference terms. -/
theorem integral_pair_expansion [CommRing K] (nh : Nat) (c : Nat → K × K) (a : Nat → Nat → Nat → K × K)
    (w : Nat → K) (ev : List Nat) (S : List Nat) (hS : S.Nodup) :
    integral nh c a w ev S =
      ((List.range S.length).map fun i =>
        integral nh c a w ev [S.getD i 0] +
          ((List.range i).map fun j =>
            integral nh c a w ev [S.getD j 0, S.getD i 0] - integral nh c a w ev [S.getD j 0]
              - integral nh c a w ev [S.getD i 0]).sum).sum := by
  have hpe := pair_expansion (Iraw nh c a w ev) (Jraw nh c a w ev) (Iraw_append nh c a w ev)
    (Jraw_append_left nh c a w ev) (Jraw_nil_left nh c a w ev) (Iraw_nil nh c a w ev)
    (fun i => [S.getD i 0]) S.length
  have hflat : ((List.range S.length).map fun i => [S.getD i 0]).flatten = S := by
    rw [flatten_map_singleton' _ (fun i => S.getD i 0), range_map_getD]
  rw [hflat] at hpe
  rw [integral_of_nodup nh c a w ev hS, hpe]
  apply sum_map_congr_mem
  intro i hi
  have hi' := List.mem_range.1 hi
  rw [integral_of_nodup nh c a w ev (List.nodup_singleton _)]
  refine congrArg (fun x => Iraw nh c a w ev [S.getD i 0] + x) ?_
  apply sum_map_congr_mem
  intro j hj
  have hj' := List.mem_range.1 hj
  have hne : S.getD j 0 ≠ S.getD i 0 := by
    rw [getD_of_lt _ _ (show j < S.length by omega), getD_of_lt _ _ hi']
    intro h
    have := (List.Nodup.getElem_inj_iff hS).1 h
    omega
  have hnd : [S.getD j 0, S.getD i 0].Nodup := by
    rw [List.nodup_cons]; exact ⟨by simpa using hne, List.nodup_singleton _⟩
  rw [integral_of_nodup nh c a w ev hnd, integral_of_nodup nh c a w ev (List.nodup_singleton _)]
  rfl

/-- **Sum rule, `cal_fitfractions` / `cal_fitfractions_no_grad`**: for every group, every argument list `res`
(names and/or chain indices) whose single selections are pairwise disjoint (no chain contains two of the named
resonances), all couplings, samples and weights: if the total integral is non-zero, the diagonal fractions plus all
interference entries of the returned table add up to one. -/
theorem sum_rule [Field K] (g : Group) (nh : Nat) (c : Nat → K × K) (a : Nat → Nat → Nat → K × K)
    (w : Nat → K) (ev : List Nat) (res : List Entry)
    (hd : (res.map fun e => sel g [e]).Pairwise List.Disjoint)
    (hT : integral nh c a w ev (sel g res) ≠ 0) :
    fracSum (fracOld g (integral nh c a w ev) res) = 1 := by
  unfold fracOld
  rw [fracSum_fracTable, div_eq_one_iff_eq hT]
  have hmap : ((List.range res.length).map fun i => sel g [res.getD i (.idx 0)]) =
      res.map fun e => sel g [e] := by
    apply List.ext_getElem
    · simp
    · intro i h1 h2
      simp at h1
      simp [List.getD_eq_getElem?_getD, h1]
  have hpe := pair_expansion (Iraw nh c a w ev) (Jraw nh c a w ev) (Iraw_append nh c a w ev)
    (Jraw_append_left nh c a w ev) (Jraw_nil_left nh c a w ev) (Iraw_nil nh c a w ev)
    (fun i => sel g [res.getD i (.idx 0)]) res.length
  rw [hmap] at hpe
  have htot : integral nh c a w ev (sel g res) = Iraw nh c a w ev (res.map fun e => sel g [e]).flatten := by
    rw [integral_of_nodup nh c a w ev (nodup_sel g res), Iraw_perm nh c a w ev (sel_perm_flatten g res hd)]
  rw [htot, hpe]
  apply sum_map_congr_mem
  intro i hi
  have hi' := List.mem_range.1 hi
  rw [integral_of_nodup nh c a w ev (nodup_sel g _)]
  refine congrArg (fun x => Iraw nh c a w ev (sel g [res.getD i (.idx 0)]) + x) ?_
  apply sum_map_congr_mem
  intro j hj
  have hj' := List.mem_range.1 hj
  have hjl : j < res.length := by omega
  have hdis : List.Disjoint (sel g [res.getD j (.idx 0)]) (sel g [res.getD i (.idx 0)]) := by
    have := (List.pairwise_iff_getElem.1 hd) j i (by simp; omega) (by simp; omega) hj'
    rw [getD_of_lt _ _ hjl, getD_of_lt _ _ hi']
    simpa using this
  rw [integral_of_nodup nh c a w ev (nodup_sel g _), Iraw_perm nh c a w ev (sel_pair_perm g _ _ hdis),
    integral_of_nodup nh c a w ev (nodup_sel g _)]
  ring

/-- **Sum rule, `FitFractions` (method "new")**: the same table with the total integrated over the selection that is
active at the call; it sums to one when that selection consists exactly of the chains carrying a named resonance
(e.g. the full selection of a group in which every chain contains exactly one of the names). -/
theorem sum_rule_new [Field K] (g : Group) (nh : Nat) (c : Nat → K × K) (a : Nat → Nat → Nat → K × K)
    (w : Nat → K) (ev : List Nat) (s : State) (res : List Entry)
    (hs : s.chainsIdx.Nodup) (hcover : s.chainsIdx.Perm (sel g res))
    (hd : (res.map fun e => sel g [e]).Pairwise List.Disjoint)
    (hT : integral nh c a w ev s.chainsIdx ≠ 0) :
    fracSum (fracNew g (integral nh c a w ev) s res) = 1 := by
  have h : integral nh c a w ev s.chainsIdx = integral nh c a w ev (sel g res) := by
    rw [integral_of_nodup nh c a w ev hs, integral_of_nodup nh c a w ev (nodup_sel g res),
      Iraw_perm nh c a w ev hcover]
  have := sum_rule g nh c a w ev res hd (h ▸ hT)
  unfold fracNew
  unfold fracOld at this
  rw [h]; exact this

/-- from the full selection: if every chain of the group carries a named resonance (or is listed) and nothing outside
the group is listed, the active chains are exactly the selected ones — the covering hypothesis of `sum_rule_new` -/
theorem full_selection_cover (g : Group) (res : List Entry)
    (hall : ∀ j, j < g.n → ∃ e, e ∈ res ∧ j ∈ sel g [e])
    (hin : ∀ j, j ∈ sel g res → j < g.n) :
    (init g).chainsIdx.Perm (sel g res) := by
  rw [List.perm_ext_iff_of_nodup (by simpa [init] using List.nodup_range) (nodup_sel g res)]
  intro j
  simp only [init, List.mem_range]
  constructor
  · intro hj; exact (mem_sel_iff_exists g res j).2 (hall j hj)
  · exact hin j

/-- batched version: sum rule for every batch size -/
theorem sum_rule_batched [Field K] (g : Group) (nh : Nat) (c : Nat → K × K) (a : Nat → Nat → Nat → K × K)
    (w : Nat → K) (b : Nat) (hb : 0 < b) (ev : List Nat) (res : List Entry)
    (hd : (res.map fun e => sel g [e]).Pairwise List.Disjoint)
    (hT : integral nh c a w ev (sel g res) ≠ 0) :
    fracSum (fracOld g (integralB nh c a w b ev) res) = 1 := by
  rw [(fractions_batch_independent g nh c a w b hb ev ⟨[], false⟩ res).1]
  exact sum_rule g nh c a w ev res hd hT

end SumRule

-- ---------------------------------------------------------------------------------------------
-- non-vacuity: a concrete group over ℚ (3 chains, resonance 0 in chains 0 and 1, resonance 1 in chain 2)
-- ---------------------------------------------------------------------------------------------
namespace Example

def g : Group := ⟨[[0], [0], [1]], [0, 1]⟩
def coup : Nat → Rat × Rat := fun k => if k = 0 then (1, 2) else if k = 1 then (0, -1) else (3, 1)
def amps : Nat → Nat → Nat → Rat × Rat := fun k e h => ((k : Rat) + 1 - e, (h : Rat) * (k + 2) - 1)
def w : Nat → Rat := fun e => (e : Rat) + 1 / 2
def ev : List Nat := [0, 1, 2, 3, 4]
def res : List Entry := [.res 0, .res 1]

/-- the hypotheses of `sum_rule` hold for a non-trivial input … -/
example : (res.map fun e => sel g [e]).Pairwise List.Disjoint := by
  have : (res.map fun e => sel g [e]) = [[0, 1], [2]] := by decide
  rw [this]; simp [List.Disjoint]
example : sel g res = [0, 1, 2] ∧ sel g [.res 0] = [0, 1] ∧ sel g [.res 1] = [2] := by decide
example : integral 2 coup amps w ev (sel g res) ≠ 0 := by decide +kernel
/-- … the table is not trivial (interference term non-zero) and, evaluated by the executable model, sums to one
for the unbatched and a non-dividing batched integral -/
example : (fracOld g (integral 2 coup amps w ev) res).map Prod.snd = [3 / 19, 128 / 171, 16 / 171] := by
  decide +kernel
example : fracSum (fracOld g (integralB 2 coup amps w 2 ev) res) = 1 := by decide +kernel
example : fracSum (fracNew g (integralB 2 coup amps w 3 ev) (init g) res) = 1 := by decide +kernel
example : (init g).chainsIdx.Perm (sel g res) := by decide

/-- The disjointness hypothesis is needed (the excluded case has its own statement): when a chain contains two of
the named resonances the table does **not** sum to one — the doubly-counted chain is counted twice. -/
def g2 : Group := ⟨[[0, 1], [1], [2]], [0, 1, 2]⟩
def res2 : List Entry := [.res 0, .res 1, .res 2]
example : ¬ (res2.map fun e => sel g2 [e]).Pairwise List.Disjoint := by
  have : (res2.map fun e => sel g2 [e]) = [[0], [0, 1], [2]] := by decide
  rw [this]; simp [List.Disjoint]
example : fracSum (fracOld g2 (integral 2 coup amps w ev) res2) = 65 / 57 := by decide +kernel

/-- superposition / scaling on the executable model -/
example : ampAt coup amps [2, 0] 1 1 = cadd (ampAt coup amps [0] 1 1) (ampAt coup amps [2] 1 1) := by decide +kernel
example : ampAt coup amps [0, 0, 2] 1 1 = ampAt coup amps [0, 2] 1 1 := by decide +kernel

end Example

end TfPwaV.C03
