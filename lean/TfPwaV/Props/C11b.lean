import TfPwaV.Proofs.Dalitz
/-!
# C11 (Dalitz clause) — momenta built from Dalitz variables reproduce those variables

Theorems over ℝ about `TfPwaV.DalitzR.gen`, the ℝ-instance of `templates/Dalitz.lean.in`, a line-by-line
transcription of `tf_pwa.data_trans.dalitz._generate_fun0`; the Float instance of the same text is
compared with `Dalitz.generate_p` on every run.

Hypotheses = the interior of the Dalitz region as the code's own square roots see it:
`m0 ≠ 0`, Källén function `λ(m0², m1², m23) > 0` (argument of the first two roots) and
`x14 · G ≥ 0` (argument of the last root).  Outside it the code takes roots of negative numbers (NaN).
-/
open TfPwaV.ScalarR
namespace TfPwaV.C11
open TfPwaV.DalitzR

theorem x14_eq (m23 m0 m1 : ℝ) : x14 m23 m0 m1 = 1 / lam m23 m0 m1 := by
  unfold x14 lam; ring

/-- the three relations the certificates are written against -/
theorem rels (m12 m23 m0 m1 m2 m3 : ℝ) (h0 : m0 ≠ 0) (hL : 0 < lam m23 m0 m1)
    (hG : 0 ≤ x14 m23 m0 m1 * gpoly m12 m23 m0 m1 m2 m3) :
    m0 * (1 / m0) = 1 ∧
    ksqrt (1 / lam m23 m0 m1) * ksqrt (1 / lam m23 m0 m1) * lam m23 m0 m1 = 1 ∧
    (gen m12 m23 m0 m1 m2 m3).pc * (gen m12 m23 m0 m1 m2 m3).pc
      = ksqrt (1 / lam m23 m0 m1) * ksqrt (1 / lam m23 m0 m1) * gpoly m12 m23 m0 m1 m2 m3 := by
  have hpos : (0 : ℝ) ≤ 1 / lam m23 m0 m1 := by positivity
  have hrr : ksqrt (1 / lam m23 m0 m1) * ksqrt (1 / lam m23 m0 m1) = 1 / lam m23 m0 m1 := by
    unfold ksqrt; exact Real.mul_self_sqrt hpos
  refine ⟨by field_simp, ?_, ?_⟩
  · rw [hrr]; field_simp
  · rw [hrr, ← x14_eq]
    simp only [gen]
    rw [neg_mul_neg]
    unfold ksqrt
    exact Real.mul_self_sqrt hG

/-- FULL statement of the Dalitz clause: inside the Dalitz region the three generated momenta
`p1 = (E1, pa, 0, 0)`, `p2 = (E2, pb, pc, 0)`, `p3 = (E3, -pa-pb, -pc, 0)` sum to the parent at rest,
are on their mass shells, and reproduce the two Dalitz variables. -/
theorem dalitz_reproduces (m12 m23 m0 m1 m2 m3 : ℝ) (h0 : m0 ≠ 0) (hL : 0 < lam m23 m0 m1)
    (hG : 0 ≤ x14 m23 m0 m1 * gpoly m12 m23 m0 m1 m2 m3) :
    let o := gen m12 m23 m0 m1 m2 m3
    -- energy and momentum conservation (parent at rest)
    o.e1 + o.e2 + o.e3 = m0 ∧ o.pa + o.pb + (-o.pa - o.pb) = 0 ∧ o.pc + -o.pc = 0 ∧
    -- mass shells
    o.e1 ^ 2 - o.pa ^ 2 = m1 ^ 2 ∧
    o.e2 ^ 2 - o.pb ^ 2 - o.pc ^ 2 = m2 ^ 2 ∧
    o.e3 ^ 2 - (-o.pa - o.pb) ^ 2 - (-o.pc) ^ 2 = m3 ^ 2 ∧
    -- Dalitz variables
    (o.e1 + o.e2) ^ 2 - (o.pa + o.pb) ^ 2 - o.pc ^ 2 = m12 ∧
    (o.e2 + o.e3) ^ 2 - (o.pb + (-o.pa - o.pb)) ^ 2 - (o.pc + -o.pc) ^ 2 = m23 := by
  intro o
  obtain ⟨r0, rr, rpc⟩ := rels m12 m23 m0 m1 m2 m3 h0 hL hG
  rw [lam_eq] at rr
  rw [gpoly_eq, lam_eq] at rpc
  have hx : ksqrt (x14 m23 m0 m1) = ksqrt (1 / Lpoly m23 m0 m1) := by rw [x14_eq, lam_eq]
  have A1 := aux_esum m12 m23 m0 m1 m2 m3 (1 / m0) (ksqrt (1 / Lpoly m23 m0 m1)) o.pc r0 rr rpc
  have A2 := aux_on1 m12 m23 m0 m1 m2 m3 (1 / m0) (ksqrt (1 / Lpoly m23 m0 m1)) o.pc r0 rr rpc
  have A3 := aux_on2 m12 m23 m0 m1 m2 m3 (1 / m0) (ksqrt (1 / Lpoly m23 m0 m1)) o.pc r0 rr rpc
  have A4 := aux_on3 m12 m23 m0 m1 m2 m3 (1 / m0) (ksqrt (1 / Lpoly m23 m0 m1)) o.pc r0 rr rpc
  have A5 := aux_s12 m12 m23 m0 m1 m2 m3 (1 / m0) (ksqrt (1 / Lpoly m23 m0 m1)) o.pc r0 rr rpc
  have A6 := aux_s23 m12 m23 m0 m1 m2 m3 (1 / m0) (ksqrt (1 / Lpoly m23 m0 m1)) o.pc r0 rr rpc
  have e1 : o.e1 = (-m23 + m0 * m0 + m1 * m1) * (1 / m0 / 2) := rfl
  have e2 : o.e2 = 1 / m0 / 2 * (m12 + m23 - m1 * m1 - m3 * m3) := rfl
  have e3 : o.e3 = 1 / m0 / 2 * (-m12 + m0 * m0 + m3 * m3) := rfl
  have epa : o.pa = 1 / m0 * (m23 * (m1 * m1) + m0 * m0 * (m1 * m1) - m0 * m0 * m0 * m0 / 2
      - m1 * m1 * m1 * m1 / 2 - m23 * m23 / 2 + m23 * (m0 * m0)) * ksqrt (1 / Lpoly m23 m0 m1) := by
    rw [← lam_eq]; rfl
  have epb : o.pb = ksqrt (1 / Lpoly m23 m0 m1) * (1 / m0 / 2) * (-2 * (m0 * m0) * (m2 * m2) - m0 * m0 * (m1 * m1)
      + (-2 * (m23 * (m1 * m1)) + m1 * m1 * m1 * m1 + m23 * m23) + m12 * m23 + m12 * (m0 * m0)
      + m0 * m0 * (m3 * m3) + m1 * m1 * (m3 * m3) - m12 * (m1 * m1) - m23 * (m3 * m3) - m23 * (m0 * m0)) := by
    rw [← hx]; rfl
  refine ⟨?_, by ring, by ring, ?_, ?_, ?_, ?_, ?_⟩
  · rw [e1, e2, e3]; linear_combination A1
  · rw [e1, epa]; linear_combination A2
  · rw [e2, epb]; linear_combination A3
  · rw [e3, epa, epb]; linear_combination A4
  · rw [e1, e2, epa, epb]; linear_combination A5
  · rw [e2, e3]
    have : (o.pb + (-o.pa - o.pb)) ^ 2 = o.pa ^ 2 := by ring
    rw [this, epa]; linear_combination A6

/-- non-vacuity: D⁰ → K K π–like masses, the point of the repository's own test
(`m12 = 1.3²`, `m23 = 1.23²`) satisfies the hypotheses. -/
example : (1.86 : ℝ) ≠ 0 ∧ 0 < lam (1.23 ^ 2) 1.86 0.493 ∧
    0 ≤ x14 (1.23 ^ 2) 1.86 0.493 * gpoly (1.3 ^ 2) (1.23 ^ 2) 1.86 0.493 0.493 0.139 := by
  refine ⟨by norm_num, ?_, ?_⟩
  · rw [lam_eq]; unfold Lpoly; norm_num
  · rw [x14_eq, lam_eq, gpoly_eq]; unfold Lpoly Gpoly; norm_num

end TfPwaV.C11
