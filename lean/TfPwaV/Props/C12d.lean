import TfPwaV.Props.C12
import TfPwaV.Proofs.DHom
import TfPwaV.Proofs.SU2
import Mathlib.Analysis.SpecialFunctions.Exp
import Mathlib.Analysis.Complex.Trigonometric
/-!
# C12 (group-homomorphism clause) — `D(R₁) D(R₂) = D(R₁ R₂)`

`Dc N α β γ` is the matrix `D_matrix_conj(α, β, γ, N)` of `tf_pwa.dfun` as built from the modelled weights:
`Dc[im][in] = e^{i m α} · d^j_{mn}(β) · e^{i n γ}` with `m = im − N/2`, and `d^j` the function `dReal` of
`Props/C12.lean` (the same weights that are compared with `small_d_weight` on every run).
The theorem: whenever the rotations compose, `Rz(α₁₂)Ry(β₁₂)Rz(γ₁₂) = Rz(α₁)Ry(β₁)Rz(γ₁) · Rz(α₂)Ry(β₂)Rz(γ₂)`
as 2×2 matrices (the `SU2M` model of `templates/SU2.lean.in`), the D-matrices compose, for every spin `2j = N ≤ 8`.
Proof: `Dc = S⁻¹ · Z(conj R) · S` with `Z` the action on homogeneous polynomials of degree `N`
(`Proofs/ZHom.lean`: `Z(M₁)Z(M₂) = Z(M₁M₂)` for every `N`), `S = diag √(i!(N−i)!)`; the identification of the
code's weights with `Z` holds for every `N` (`evalH_zPoly_eq_Zc`), the kernel-checked tie `dPoly_eq` is what
bounds the statement to `N ≤ 8`.
-/
open Finset BigOperators
namespace TfPwaV.C12
open TfPwaV.Wigner TfPwaV.ZHom

/-- 2×2 complex matrices `[[a,b],[c,d]]` -/
structure M2c where
  a : ℂ
  b : ℂ
  c : ℂ
  d : ℂ

@[ext] theorem M2c.ext' {x y : M2c} (h1 : x.a = y.a) (h2 : x.b = y.b) (h3 : x.c = y.c) (h4 : x.d = y.d) : x = y := by
  cases x; cases y; simp_all

def M2c.mul (x y : M2c) : M2c :=
  ⟨x.a * y.a + x.b * y.c, x.a * y.b + x.b * y.d, x.c * y.a + x.d * y.c, x.c * y.b + x.d * y.d⟩

noncomputable def Zm (M : M2c) (N k l : ℕ) : ℂ := Zc M.a M.b M.c M.d N k l

theorem Zm_hom (M1 M2 : M2c) (N k m : ℕ) (hk : k ≤ N) (hm : m ≤ N) :
    ∑ l ∈ range (N + 1), Zm M1 N k l * Zm M2 N l m = Zm (M1.mul M2) N k m :=
  Z_hom M1.a M1.b M1.c M1.d M2.a M2.b M2.c M2.d N k m hk hm

/-- `e^{i m θ}`, `m = k − N/2` -/
noncomputable def phase (N k : ℕ) (θ : ℝ) : ℂ := Complex.exp (Complex.I * (((k : ℝ) - (N : ℝ) / 2 : ℝ) : ℂ) * θ)

/-- `D_matrix_conj(α,β,γ,N)[im][in]` from the modelled weights -/
noncomputable def Dc (N : ℕ) (α β γ : ℝ) (im inn : ℕ) : ℂ :=
  phase N im α * (dReal N im inn β : ℂ) * phase N inn γ

noncomputable def diagM (θ : ℝ) : M2c :=
  ⟨Complex.exp (Complex.I * θ / 2), 0, 0, Complex.exp (-(Complex.I * θ / 2))⟩

noncomputable def rotM (β : ℝ) : M2c :=
  ⟨(Real.cos (β / 2) : ℂ), -(Real.sin (β / 2) : ℂ), (Real.sin (β / 2) : ℂ), (Real.cos (β / 2) : ℂ)⟩

/-- `conj(Rz(α) Ry(β) Rz(γ))` -/
noncomputable def Mrot (α β γ : ℝ) : M2c := ((diagM α).mul (rotM β)).mul (diagM γ)

theorem Zm_diag (θ : ℝ) (N k l : ℕ) (hk : k ≤ N) :
    Zm (diagM θ) N k l = if k = l then phase N k θ else 0 := by
  unfold Zm diagM
  rw [Zc_diag _ _ N k l hk]
  split_ifs with h
  · unfold phase
    rw [← Complex.exp_nat_mul, ← Complex.exp_nat_mul, ← Complex.exp_add]
    congr 1
    push_cast [Nat.cast_sub hk]
    ring
  · rfl

theorem sqrtA_pos (N i : ℕ) : (0 : ℝ) < Real.sqrt ((A N i : ℕ) : ℝ) :=
  Real.sqrt_pos.mpr (by exact_mod_cast A_pos N i)

/-- the real small-d function in terms of `Z` of the rotation -/
theorem dReal_eq_Zc (N im inn : ℕ) (hN : N ≤ 8) (him : im ≤ N) (hinn : inn ≤ N) (β : ℝ) :
    dReal N im inn β = Real.sqrt ((A N inn : ℕ) : ℝ) / Real.sqrt ((A N im : ℕ) : ℝ) *
      Zc (Real.cos (β / 2)) (-Real.sin (β / 2)) (Real.sin (β / 2)) (Real.cos (β / 2)) N im inn := by
  have hAm : (0 : ℝ) < ((A N im : ℕ) : ℝ) := by exact_mod_cast A_pos N im
  have hAn : (0 : ℝ) ≤ ((A N inn : ℕ) : ℝ) := by positivity
  have hs := sqrtA_pos N im
  unfold dReal
  rw [dPoly_eq N im inn hN him hinn, evalQ_map_div, evalH_zPoly_eq_Zc N im inn him hinn]
  push_cast
  rw [Real.sqrt_mul hAm.le]
  have h2 := Real.mul_self_sqrt hAm.le
  field_simp
  rw [sq, h2]
  ring

theorem Zm_rot (N im inn : ℕ) (β : ℝ) :
    Zm (rotM β) N im inn =
      ((Zc (Real.cos (β / 2)) (-Real.sin (β / 2)) (Real.sin (β / 2)) (Real.cos (β / 2)) N im inn : ℝ) : ℂ) := by
  unfold Zm rotM
  have := Zc_map Complex.ofRealHom (Real.cos (β / 2)) (-Real.sin (β / 2)) (Real.sin (β / 2)) (Real.cos (β / 2)) N im inn
  simp only [Complex.ofRealHom_eq_coe, Complex.ofReal_neg] at this
  exact this

/-- `D_matrix_conj = S⁻¹ Z(conj R) S` -/
theorem Dc_eq_Zm (N im inn : ℕ) (hN : N ≤ 8) (him : im ≤ N) (hinn : inn ≤ N) (α β γ : ℝ) :
    Dc N α β γ im inn = ((Real.sqrt ((A N inn : ℕ) : ℝ) / Real.sqrt ((A N im : ℕ) : ℝ) : ℝ) : ℂ) *
      Zm (Mrot α β γ) N im inn := by
  unfold Mrot
  rw [← Zm_hom _ _ N im inn him hinn]
  have h1 : ∀ l ∈ range (N + 1), Zm ((diagM α).mul (rotM β)) N im l * Zm (diagM γ) N l inn =
      if l = inn then phase N im α * Zm (rotM β) N im inn * phase N inn γ else 0 := by
    intro l hl
    have hl' : l ≤ N := by have := mem_range.mp hl; omega
    rw [Zm_diag γ N l inn hl']
    split_ifs with h
    · subst h
      rw [← Zm_hom _ _ N im l him hl']
      have h2 : ∀ l' ∈ range (N + 1), Zm (diagM α) N im l' * Zm (rotM β) N l' l =
          if l' = im then phase N im α * Zm (rotM β) N im l else 0 := by
        intro l' _
        rw [Zm_diag α N im l' him]
        split_ifs with h3 h4 h4
        · subst h3; rfl
        · exact absurd h3.symm h4
        · exact absurd h4.symm h3
        · simp
      rw [Finset.sum_congr rfl h2, Finset.sum_ite_eq' , if_pos (mem_range.mpr (by omega))]
    · simp
  rw [Finset.sum_congr rfl h1, Finset.sum_ite_eq', if_pos (mem_range.mpr (by omega))]
  unfold Dc
  rw [dReal_eq_Zc N im inn hN him hinn, Zm_rot]
  push_cast
  ring

/-- **`D(R₁) D(R₂) = D(R₁ R₂)`** for every spin `2j = N ≤ 8`: if the (conjugated) rotation matrices compose,
`Mrot e₁₂ = Mrot e₁ · Mrot e₂`, the `D_matrix_conj` matrices compose. -/
theorem D_hom (N : ℕ) (hN : N ≤ 8) (α1 β1 γ1 α2 β2 γ2 α β γ : ℝ)
    (h : Mrot α β γ = (Mrot α1 β1 γ1).mul (Mrot α2 β2 γ2)) (im inn : ℕ) (him : im ≤ N) (hinn : inn ≤ N) :
    Dc N α β γ im inn = ∑ l ∈ range (N + 1), Dc N α1 β1 γ1 im l * Dc N α2 β2 γ2 l inn := by
  rw [Dc_eq_Zm N im inn hN him hinn, h, ← Zm_hom _ _ N im inn him hinn, Finset.mul_sum]
  refine Finset.sum_congr rfl fun l hl => ?_
  have hl' : l ≤ N := by have := mem_range.mp hl; omega
  rw [Dc_eq_Zm N im l hN him hl', Dc_eq_Zm N l inn hN hl' hinn]
  have hpos := sqrtA_pos N l
  have hne : ((Real.sqrt ((A N l : ℕ) : ℝ) : ℝ) : ℂ) ≠ 0 := by
    exact_mod_cast hpos.ne'
  have hne2 : ((Real.sqrt ((A N im : ℕ) : ℝ) : ℝ) : ℂ) ≠ 0 := by
    exact_mod_cast (sqrtA_pos N im).ne'
  push_cast
  field_simp


/-! ### the same statement on the `SU2M` model (`templates/SU2.lean.in`) -/
open TfPwaV.SU2R in
/-- complex conjugate of a matrix of the real-pair `SU2M` model, as a complex 2×2 matrix -/
def conjM (x : TfPwaV.SU2R.M2) : M2c :=
  ⟨⟨x.x00.re, -x.x00.im⟩, ⟨x.x01.re, -x.x01.im⟩, ⟨x.x10.re, -x.x10.im⟩, ⟨x.x11.re, -x.x11.im⟩⟩

open TfPwaV.SU2R in
theorem conjM_mul (x y : TfPwaV.SU2R.M2) : conjM (x.mul y) = (conjM x).mul (conjM y) := by
  ext <;> apply Complex.ext <;> simp [conjM, M2c.mul, M2.mul, Cx.mul, Cx.add] <;> ring

theorem exp_half (θ : ℝ) : Complex.exp (Complex.I * θ / 2) = ⟨Real.cos (θ / 2), Real.sin (θ / 2)⟩ := by
  have : Complex.I * (θ : ℂ) / 2 = ((θ / 2 : ℝ) : ℂ) * Complex.I := by push_cast; ring
  rw [this]
  apply Complex.ext <;> simp [Complex.exp_re, Complex.exp_im]

theorem exp_neg_half (θ : ℝ) : Complex.exp (-(Complex.I * θ / 2)) = ⟨Real.cos (θ / 2), -Real.sin (θ / 2)⟩ := by
  have : -(Complex.I * (θ : ℂ) / 2) = ((-(θ / 2) : ℝ) : ℂ) * Complex.I := by push_cast; ring
  rw [this]
  apply Complex.ext <;> simp [Complex.exp_re, Complex.exp_im]

open TfPwaV.SU2R in
/-- the code's rotation `Rz(α)·Ry(β)·Rz(γ)` (SU2M model), conjugated, is `Mrot α β γ` -/
theorem conjM_rot (α β γ : ℝ) : conjM (((rotZ α).mul (rotY β)).mul (rotZ γ)) = Mrot α β γ := by
  rw [conjM_mul, conjM_mul]
  unfold Mrot
  have hz : ∀ θ, conjM (rotZ θ) = diagM θ := by
    intro θ
    rw [rotZ_eq]
    unfold conjM diagM
    rw [exp_half, exp_neg_half]
    ext <;> apply Complex.ext <;> simp [Cx.zero]
  have hy : conjM (rotY β) = rotM β := by
    unfold conjM rotM rotY TfPwaV.ScalarR.ksin TfPwaV.ScalarR.kcos
    ext <;> apply Complex.ext <;>
      simp only [Complex.ofReal_re, Complex.ofReal_im, Complex.neg_re, Complex.neg_im, Cx.neg, neg_zero]
  rw [hz, hz, hy]

open TfPwaV.SU2R in
/-- **`D(R₁) D(R₂) = D(R₁ R₂)` in terms of the `SU2M` model**: if the rotations
`R(α,β,γ) = Rotation_z(α)·Rotation_y(β)·Rotation_z(γ)` compose as 2×2 matrices, the `D_matrix_conj` compose. -/
theorem D_hom_su2 (N : ℕ) (hN : N ≤ 8) (α1 β1 γ1 α2 β2 γ2 α β γ : ℝ)
    (h : ((rotZ α).mul (rotY β)).mul (rotZ γ) =
      (((rotZ α1).mul (rotY β1)).mul (rotZ γ1)).mul (((rotZ α2).mul (rotY β2)).mul (rotZ γ2)))
    (im inn : ℕ) (him : im ≤ N) (hinn : inn ≤ N) :
    Dc N α β γ im inn = ∑ l ∈ range (N + 1), Dc N α1 β1 γ1 im l * Dc N α2 β2 γ2 l inn := by
  refine D_hom N hN α1 β1 γ1 α2 β2 γ2 α β γ ?_ im inn him hinn
  rw [← conjM_rot, ← conjM_rot, ← conjM_rot, h, conjM_mul]

open TfPwaV.SU2R in
/-- non-vacuity: rotations about z compose, `R(α₁+α₂,0,0) = R(α₁,0,0)·R(α₂,0,0)`, so the hypothesis of `D_hom_su2`
is satisfied by non-trivial angle triples (and by every product through `euler_roundtrip`). -/
example (a b : ℝ) : ((rotZ (a + b)).mul (rotY 0)).mul (rotZ 0) =
    (((rotZ a).mul (rotY 0)).mul (rotZ 0)).mul (((rotZ b).mul (rotY 0)).mul (rotZ 0)) := by
  have e : (a + b) / 2 = a / 2 + b / 2 := by ring
  simp only [rotZ_eq, e, Real.cos_add, Real.sin_add]
  unfold rotY TfPwaV.ScalarR.ksin TfPwaV.ScalarR.kcos
  ext <;> simp [M2.mul, Cx.mul, Cx.add, Cx.neg, Cx.zero] <;> ring

end TfPwaV.C12
