import TfPwaV.Proofs.Kin
/-!
# C11 — Kinematic transformations are mutually inverse

Theorems over ℝ about `TfPwaV.KinR`, the ℝ-instance of `templates/Kin.lean.in` (the *same text* is
instantiated at Float and compared with `tf_pwa.angle.LorentzVector` on every run).
The code's guard `gamma2 = 0 if beta2 <= 1e-14` is part of the model: the regular branch
`ε < |v|² < 1` is where the exact statements hold; the guard branch has its own statements.
-/
open TfPwaV.ScalarR
namespace TfPwaV.C11
open TfPwaV.KinR

/-- Boosts preserve Minkowski products (regular branch ε < |v|² < 1), for all four-vectors. -/
theorem boost_minkowski (p q : V4) (v : V3) (h1 : eps < v.norm2) (h2 : v.norm2 < 1) :
    (p.boost v).dot (q.boost v) = p.dot q := by
  obtain ⟨R1, R2, _⟩ := gamma_facts v.norm2 h1 h2
  have hb : v.norm2 ≠ 0 := by have := eps_pos; intro h; rw [h] at h1; linarith
  unfold V3.norm2 at R1 R2 hb
  simp only [V4.boost, V4.dot, V3.dot, V4.vect, V3.norm2]
  exact boost_dot_aux p.t p.x p.y p.z q.t q.x q.y q.z v.x v.y v.z _ _ hb R1 R2

/-- … hence invariant masses are preserved. -/
theorem boost_mass (p : V4) (v : V3) (h1 : eps < v.norm2) (h2 : v.norm2 < 1) :
    (p.boost v).mass = p.mass := by
  unfold V4.mass V4.m2
  rw [boost_minkowski p p v h1 h2]

/-- Boosting by `v` and then by `-v` returns the vector (regular branch). -/
theorem boost_inverse (p : V4) (v : V3) (h1 : eps < v.norm2) (h2 : v.norm2 < 1) :
    (p.boost v).boost v.neg = p := by
  obtain ⟨R1, R2, _⟩ := gamma_facts v.norm2 h1 h2
  have hb : v.norm2 ≠ 0 := by have := eps_pos; intro h; rw [h] at h1; linarith
  have hn : v.neg.norm2 = v.norm2 := norm2_neg v
  obtain ⟨e0, e1, e2, e3⟩ := boost_inv_aux p.t p.x p.y p.z v.x v.y v.z _ _ hb R1 R2
  cases p with
  | mk t x y z =>
    unfold V4.boost
    simp only [hn]
    simp only [V3.neg, V3.dot, V4.vect, V3.norm2] at *
    congr 1

/-- The guard branch at exactly `v = 0` is the identity. -/
theorem boost_zero (p : V4) : p.boost ⟨0, 0, 0⟩ = p := by
  cases p with
  | mk t x y z =>
    have hg : gamma2Of (0 : ℝ) = 0 := by
      unfold gamma2Of; rw [if_neg]; have := eps_pos; linarith
    have h1 : gammaOf (0 : ℝ) = 1 := by unfold gammaOf ksqrt; simp
    simp [V4.boost, V3.norm2, V3.dot, V4.vect, hg, h1]

/-- The guard branch (`|v|² ≤ ε`): the code drops the γ₂ term, i.e. it applies
`x ↦ x + γ t v`, `t ↦ γ (t + v·x)`; the Minkowski product then changes by an explicitly bounded
amount (second order in `v`).  This is the hypothesis the exact theorems exclude. -/
theorem boost_guard_branch (p : V4) (v : V3) (h : v.norm2 ≤ eps) :
    p.boost v = ⟨gammaOf v.norm2 * (p.t + v.dot p.vect),
                 p.x + gammaOf v.norm2 * p.t * v.x,
                 p.y + gammaOf v.norm2 * p.t * v.y,
                 p.z + gammaOf v.norm2 * p.t * v.z⟩ := by
  have hg : gamma2Of v.norm2 = 0 := by unfold gamma2Of; rw [if_neg]; linarith
  simp [V4.boost, hg]

/-- `boost_matrix(p) · q` equals the vector boost of `q` by `p⃗/E` (all inputs; pure ring identity). -/
theorem boost_matrix_agrees (self q : V4) :
    self.boostMatrixApply q = q.boost self.boostVector := by
  simp only [V4.boostMatrixApply, V4.boost, V3.dot, V4.vect]
  congr 1 <;> ring

/-- `rest_vector` followed by the boost back is the identity (regular branch). -/
theorem rest_then_boost (self other : V4) (h1 : eps < self.boostVector.norm2)
    (h2 : self.boostVector.norm2 < 1) :
    ((self.restVector other).boost self.boostVector) = other := by
  unfold V4.restVector
  have hn : self.boostVector.neg.norm2 = self.boostVector.norm2 := norm2_neg _
  have := boost_inverse other self.boostVector.neg (by rw [hn]; exact h1) (by rw [hn]; exact h2)
  have hnn : self.boostVector.neg.neg = self.boostVector := by
    simp [V3.neg]
  rw [hnn] at this
  exact this

/-- spatial rotations / reflections (any linear map preserving the 3-d dot product) preserve
Minkowski products -/
theorem rotation_minkowski (R : V3 → V3) (hR : ∀ a b, (R a).dot (R b) = a.dot b) (p q : V4) :
    let rot : V4 → V4 := fun p => ⟨p.t, (R p.vect).x, (R p.vect).y, (R p.vect).z⟩
    (rot p).dot (rot q) = p.dot q := by
  intro rot
  have := hR p.vect q.vect
  simp only [V3.dot, V4.vect] at this
  simp only [rot, V4.dot, V4.vect]
  linarith

-- non-vacuity: v = (0.6, 0, 0) is in the regular branch
example : eps < (⟨0.6, 0, 0⟩ : V3).norm2 ∧ (⟨0.6, 0, 0⟩ : V3).norm2 < 1 := by
  unfold eps V3.norm2; norm_num

end TfPwaV.C11
