import TfPwaV.Proofs.Angle
/-!
# C11 (helicity-angle clause, single vertex) — extracting the angles of a daughter built at `(θ, φ)` returns `(θ, φ)`

`create_rotate_p_decay` (data_trans/helicity_angle.py) builds, in the rest frame of a decaying particle with
orthonormal right-handed axes `(X, Y, Z)`, a daughter momentum `p = P (sinθ cosφ X + sinθ sinφ Y + cosθ Z)` and hands
the daughter the new axes `z' = p̂`, `y' = −sinφ X + cosφ Y`, `x' = y' × z'`.
`cal_helicity_angle` (cal_angle.py) extracts `EulerAngle.angle_zx_z_getx(Z, X, p)`.  Theorem: the extracted
`(alpha, beta)` are `(φ, θ)` and the extracted new x-axis equals the constructor's `x'` — so the next vertex of a
cascade starts from the same frame on both sides.  Hypotheses: `0 < θ < π`, `−π < φ ≤ π`, `P > 0`, and the code's
degenerate-case guard is not triggered (`|Z × p| = P sinθ ≥ 1e-14`).
NOT covered here (validated on the implementation for all topologies with 3–5 final particles): the boosts between
the vertices of a cascade and the `alpha` range shift applied to the second daughter.
-/
open TfPwaV.ScalarR
namespace TfPwaV.C11
open TfPwaV.KinR TfPwaV.AngleR

/-- orthonormal right-handed frame -/
structure IsFrame (X Y Z : V3) : Prop where
  xx : X.dot X = 1
  yy : Y.dot Y = 1
  zz : Z.dot Z = 1
  xy : X.dot Y = 0
  yz : Y.dot Z = 0
  zx : Z.dot X = 0
  cxy : X.cross Y = Z
  cyz : Y.cross Z = X
  czx : Z.cross X = Y

/-- daughter direction at polar angle θ and azimuth φ in the frame -/
noncomputable def dir (X Y Z : V3) (θ φ : ℝ) : V3 :=
  ((V3.smul (Real.sin θ * Real.cos φ) X).add (V3.smul (Real.sin θ * Real.sin φ) Y)).add (V3.smul (Real.cos θ) Z)

/-- the constructor's new y-axis `−sinφ X + cosφ Y` -/
noncomputable def yNew (X Y : V3) (φ : ℝ) : V3 := (V3.smul (-Real.sin φ) X).add (V3.smul (Real.cos φ) Y)

theorem angle_step_roundtrip (X Y Z : V3) (hF : IsFrame X Y Z) (P θ φ : ℝ) (hP : 0 < P)
    (hθ0 : 0 < θ) (hθπ : θ < Real.pi) (hφ0 : -Real.pi < φ) (hφπ : φ ≤ Real.pi)
    (hguard : eps ≤ P * Real.sin θ) :
    let out := angleZxZGetx Z X (V3.smul P (dir X Y Z θ φ))
    out.alpha = φ ∧ out.beta = θ ∧ out.x2 = (yNew X Y φ).cross (dir X Y Z θ φ) := by
  intro out
  obtain ⟨xx, yy, zz, xy, yz, zx, cxy, cyz, czx⟩ := hF
  have yx : Y.dot X = 0 := by rw [dot_comm]; exact xy
  have zy : Z.dot Y = 0 := by rw [dot_comm]; exact yz
  have xz : X.dot Z = 0 := by rw [dot_comm]; exact zx
  have sθ : 0 < Real.sin θ := Real.sin_pos_of_pos_of_lt_pi hθ0 hθπ
  have sc := Real.sin_sq_add_cos_sq φ
  have sc' := Real.sin_sq_add_cos_sq θ
  set d := dir X Y Z θ φ with hd
  set yn := yNew X Y φ with hyn
  -- the rotated x-axis  Xr = cosφ X + sinφ Y
  set xr : V3 := (V3.smul (Real.cos φ) X).add (V3.smul (Real.sin φ) Y) with hxr
  -- unit vectors and orthogonality
  have d_norm : d.norm2 = 1 := by
    rw [norm2_eq_dot, hd]; unfold dir
    simp only [dot_add_left, dot_add_right, dot_smul_left, dot_smul_right, xx, yy, zz, xy, yx, yz, zy, zx, xz]
    nlinarith [sc, sc']
  have yn_norm : yn.norm2 = 1 := by
    rw [norm2_eq_dot, hyn]; unfold yNew
    simp only [dot_add_left, dot_add_right, dot_smul_left, dot_smul_right, xx, yy, xy, yx]
    nlinarith [sc]
  have xr_norm : xr.norm2 = 1 := by
    rw [norm2_eq_dot, hxr]
    simp only [dot_add_left, dot_add_right, dot_smul_left, dot_smul_right, xx, yy, xy, yx]
    nlinarith [sc]
  have yn_d : yn.dot d = 0 := by
    rw [hyn, hd]; unfold yNew dir
    simp only [dot_add_left, dot_add_right, dot_smul_left, dot_smul_right, xx, yy, xy, yx, yz, xz]
    ring
  -- cross products
  have zX : Z.cross Y = V3.smul (-1) X := by rw [cross_anti, cyz]
  have xZ : X.cross Z = V3.smul (-1) Y := by rw [cross_anti, czx]
  have c1 : Z.cross (V3.smul P d) = V3.smul (P * Real.sin θ) yn := by
    rw [cross_smul_right, hd]; unfold dir
    simp only [cross_add_right, cross_smul_right, czx, zX, cross_self, hyn]
    unfold yNew
    ext <;> simp [V3.smul, V3.add, V3.zero] <;> ring
  have c2 : yn.cross Z = V3.smul 1 xr := by
    rw [hyn]; unfold yNew
    simp only [cross_add_left, cross_smul_left, xZ, cyz, hxr]
    ext <;> simp [V3.smul, V3.add] <;> ring
  have c3 : Z.cross X = V3.smul 1 Y := by rw [czx, one_smul']
  have c4 : Y.cross Z = V3.smul 1 X := by rw [cyz, one_smul']
  have c5 : (yn.cross d).norm2 = 1 := by
    rw [norm2_cross, yn_norm, d_norm, yn_d]; ring
  have c5' : yn.cross d = V3.smul 1 (yn.cross d) := (one_smul' _).symm
  -- the six unit vectors of `angle_zx_z_getx`
  have uz1 : Z.unit = Z := by
    have := unit_smul 1 Z one_pos (by rw [norm2_eq_dot]; exact zz)
    rwa [one_smul'] at this
  have uz2 : (V3.smul P d).unit = d := unit_smul P d hP d_norm
  have uy1 : crossUnit Z X = Y := crossUnit_eq Z X Y 1 c3 (by rw [norm2_eq_dot]; exact yy) eps_le_one
  have ux1 : crossUnit Y Z = X := crossUnit_eq Y Z X 1 c4 (by rw [norm2_eq_dot]; exact xx) eps_le_one
  have uyr : crossUnit Z (V3.smul P d) = yn := crossUnit_eq _ _ yn _ c1 yn_norm hguard
  have uxr : crossUnit yn Z = xr := crossUnit_eq yn Z xr 1 c2 xr_norm eps_le_one
  have ux2 : crossUnit yn d = yn.cross d := crossUnit_eq yn d _ 1 c5' c5 eps_le_one
  -- dot products entering the two atan2
  have a1 : xr.dot Y = Real.sin φ := by
    rw [hxr]; simp only [dot_add_left, dot_smul_left, xy, yy]; ring
  have a2 : xr.dot X = Real.cos φ := by
    rw [hxr]; simp only [dot_add_left, dot_smul_left, xx, yx]; ring
  have b1 : d.dot xr = Real.sin θ := by
    rw [hd, hxr]; unfold dir
    simp only [dot_add_left, dot_add_right, dot_smul_left, dot_smul_right, xx, yy, xy, yx, zx, zy]
    nlinarith [sc]
  have b2 : d.dot Z = Real.cos θ := by
    rw [hd]; unfold dir
    simp only [dot_add_left, dot_smul_left, xz, yz, zz]; ring
  have hout : angleZxZGetx Z X (V3.smul P d) = ⟨angleFrom xr X Y, angleFrom d Z xr, crossUnit yn d⟩ := by
    unfold angleZxZGetx
    simp only [uz1, uz2, uy1, ux1, uyr, uxr]
  show (angleZxZGetx Z X (V3.smul P d)).alpha = φ ∧ (angleZxZGetx Z X (V3.smul P d)).beta = θ ∧
    (angleZxZGetx Z X (V3.smul P d)).x2 = yn.cross d
  rw [hout]
  refine ⟨?_, ?_, ux2⟩
  · simp only [angleFrom, a1, a2]
    exact atan2_sin_cos φ hφ0 hφπ
  · simp only [angleFrom, b1, b2]
    exact atan2_sin_cos θ (by linarith [Real.pi_pos]) hθπ.le

/-- non-vacuity: the laboratory axes form a frame, and e.g. `P = 1, θ = π/2, φ = π/3` satisfies the hypotheses -/
example : IsFrame ⟨1, 0, 0⟩ ⟨0, 1, 0⟩ ⟨0, 0, 1⟩ := by
  constructor <;> first | (simp [V3.dot]) | (ext <;> simp [V3.cross])

example : eps ≤ (1 : ℝ) * Real.sin (Real.pi / 2) := by
  rw [Real.sin_pi_div_two]; unfold eps; norm_num

end TfPwaV.C11
