import TfPwaV.Model.Topology
/-!
C14d: `standard_topology` (particle.py 698-717) with the NAME layer made explicit.

`standardTopologyG repr fmt parse` is the text of `Topology.standardTopology` with the three string operations as
parameters: `repr` = `str(particle)`, `fmt` = `"({})".format(", ".join(parts))`, `parse` = `BaseParticle(name)`
(`set_name`).  `standardTopology_eq_G` : the String model IS this function (`rfl`).

`PtL` / `PtL.repr` / `PtL.parse` / `fmtL` are the same three operations on names as STRUCTURED values (`List Char`,
every function structurally recursive so that the kernel evaluates it and lemmas can be proved by induction):
`Proofs/TopologyNames.lean` proves on them the facts that `standard_topology` needs, `standardTopologyL` is the
instance that the driver runs against the real code (op `C14n stdL`).
-/
namespace TfPwaV.Topology

/-- `DecayChain.standard_topology()`, generic in the name type `σ` (Python `str`). -/
def standardTopologyG {α σ : Type} [DecidableEq α] [LT α] [DecidableLT α] [LT σ] [DecidableLT σ]
    (repr : α → σ) (fmt : List σ → σ) (parse : σ → α) (c : Chain α) : Option (Chain α) :=
  match sortedTable c, topOf c with
  | some a, some top =>
    let nm0 : Dict α σ := a.foldl (fun d kv => d.set kv.1 (fmt (isort (kv.2.map repr)))) []
    let nm1 := nm0.set top (repr top)
    let nm2 := (finalsOf c).foldl (fun d i => d.set i (repr i)) nm1
    let pm : Dict α α := nm2.map fun kv => (kv.1, parse kv.2)
    let r := c.mapM fun i =>
      match pm.get? i.core, i.outs.mapM fun j => pm.get? j with
      | some co, some os => some (⟨co, os⟩ : Decay α)
      | _, _ => none
    r.bind fun c' => (topOf c').map fun _ => c'
  | _, _ => none

/-- the String model of `Model/Topology.lean` is the generic function at the String operations -/
theorem standardTopology_eq_G (c : Chain Pt) :
    standardTopology c
      = standardTopologyG Pt.repr (fun parts => "(" ++ ", ".intercalate parts ++ ")") Pt.parse c := by
  unfold standardTopology standardTopologyG
  cases sortedTable c <;> cases topOf c <;> try rfl
  dsimp only
  congr 2
  funext i
  generalize Dict.get? _ i.core = x
  generalize (List.mapM _ i.outs : Option (List Pt)) = y
  cases x <;> cases y <;> rfl

/-- `DecayGroup.get_chains_map()` after fix 41067a5 (`chainsMap false` of Model/Topology.lean), generic in the
standardisation function `std` (`standard_topology`): classes = standardised first representatives
(`topology_structure()`), a chain is listed in a class when `topology_same(identical=False)`, with its
`topology_map`. -/
def chainsMapG {α : Type} [DecidableEq α] [LT α] [DecidableLT α] (std : Chain α → Option (Chain α))
    (chains : List (Chain α)) : Option (List (List (Nat × (Dict α α × List (Decay α × Decay α))))) :=
  match (topologyReps (fun p : α => p) chains).mapM std with
  | none => none
  | some reps =>
    reps.mapM fun s =>
      ((List.zip (List.range chains.length) chains).filter fun ij =>
          topologySame (fun p : α => p) s ij.2 == some true).mapM fun ij =>
        (topologyMap s ij.2).map fun m => (ij.1, m)

theorem chainsMap_false_eq_G (chains : List (Chain Pt)) :
    chainsMap false chains = chainsMapG standardTopology chains := by
  unfold chainsMap chainsMapG topologyStructure
  simp only [Bool.false_eq_true, if_false, if_true]
  cases (topologyReps (fun p : Pt => p) chains).mapM standardTopology <;> rfl

/-! ## names as structured values -/

/-- `BaseParticle` identity `(name, id)` with the name as a list of characters -/
structure PtL where
  name : List Char
  id : Int
  deriving DecidableEq, Repr

instance : LT PtL := ⟨fun a b => a.name < b.name ∨ (a.name = b.name ∧ a.id < b.id)⟩
instance : DecidableLT PtL := fun a b =>
  inferInstanceAs (Decidable (a.name < b.name ∨ (a.name = b.name ∧ a.id < b.id)))

/-- `str(i)` for an `int` -/
def intToChars : Int → List Char
  | .ofNat n => Nat.toDigits 10 n
  | .negSucc n => '-' :: Nat.toDigits 10 (n + 1)

/-- decimal digits only, at least one (`int(s)` for the unsigned part; Python additionally accepts blanks, `_`, `+`) -/
def natOfChars? : List Char → Option Nat
  | [] => none
  | c :: cs =>
    (c :: cs).foldl (fun acc ch =>
      match acc with
      | some a => if ch.isDigit then some (10 * a + (ch.toNat - 48)) else none
      | none => none) (some 0)

/-- `int(s)` / ValueError -/
def toIntL? : List Char → Option Int
  | '-' :: cs => (natOfChars? cs).map fun n => - (n : Int)
  | cs => (natOfChars? cs).map Int.ofNat

/-- split at the LAST ':' (`names[:-1]` joined again, `names[-1]`); `none` = no ':' in the name -/
def splitLastColon : List Char → Option (List Char × List Char)
  | [] => none
  | c :: cs =>
    match splitLastColon cs with
    | some (a, b) => some (c :: a, b)
    | none => if c = ':' then some ([], cs) else none

/-- `BaseParticle.set_name(name)` -/
def PtL.parse (s : List Char) : PtL :=
  match splitLastColon s with
  | some (a, b) =>
    match toIntL? b with
    | some i => ⟨a, i⟩
    | none => ⟨s, 0⟩
  | none => ⟨s, 0⟩

/-- `BaseParticle.__repr__` -/
def PtL.repr (p : PtL) : List Char := if p.id = 0 then p.name else p.name ++ ':' :: intToChars p.id

/-- `sep.join(parts)` -/
def joinL (sep : List Char) : List (List Char) → List Char
  | [] => []
  | [a] => a
  | a :: b :: r => a ++ sep ++ joinL sep (b :: r)

/-- `"({})".format(", ".join(parts))` -/
def fmtL (parts : List (List Char)) : List Char := '(' :: (joinL [',', ' '] parts ++ [')'])

/-- `standard_topology()` on structured names -/
def standardTopologyL (c : Chain PtL) : Option (Chain PtL) := standardTopologyG PtL.repr fmtL PtL.parse c

/-! ## line protocol: `C14n stdL <chain>` runs the structured-name instance on the same card as `C14 std` -/

def Pt.toL (p : Pt) : PtL := ⟨p.name.toList, p.id⟩
def PtL.toS (p : PtL) : Pt := ⟨String.ofList p.name, p.id⟩
def Decay.mapP {α β : Type} (f : α → β) (d : Decay α) : Decay β := ⟨f d.core, d.outs.map f⟩

/-- the parse of the structured layer applied to the text of the card (instead of `Pt.parse`) -/
def decL (s : String) : List Char := s.toList.map fun ch => if ch = '~' then ' ' else ch

def parseChainL (s : String) : Option (Chain PtL) :=
  (s.splitOn ";").mapM fun d =>
    match d.splitOn ">" with
    | [c, os] => some ⟨PtL.parse (decL c), (os.splitOn "|").map fun o => PtL.parse (decL o)⟩
    | _ => none

def showPtL (p : PtL) : String := enc (String.ofList p.repr)
def showChainL (c : Chain PtL) : String :=
  if c.isEmpty then "-" else
    ";".intercalate (c.map fun d => showPtL d.core ++ ">" ++ "|".intercalate (d.outs.map showPtL))

/-- well-formedness of a particle name as the theorems state it: no ',' in `str(p)` and `BaseParticle(str(p)) == p` -/
def PtL.wf (p : PtL) : Bool := !(p.repr.contains ',') && decide (PtL.parse p.repr = p)

def handleN : List String → Option String
  | ["stdL", c] => (parseChainL c).map fun c => orErr ((standardTopologyL c).map showChainL)
  | ["rt", s] => some (showPtL (PtL.parse (decL s)))
  | "wf" :: ps => some (" ".intercalate (ps.map fun s => if (PtL.parse (decL s)).wf then "1" else "0"))
  | _ => none

end TfPwaV.Topology
