/-
Model of the decay-topology machinery of `tf_pwa/particle.py` (C14).

Mirrored code (line numbers of /repo/tf_pwa/particle.py):
  * `_Chain_Graph` (797-843): `add_edge`, `add_node` (remove edge e, append (e0,node),(node,e1),(node,d)),
    `get_decay_chain` (dict of daughters in first-appearance order, top merged with its only child)
  * `DecayChain.from_particles` (628-658): `get_graphs` = depth-first insertion of every remaining final
    particle on every edge, in the order of `g.edges`
  * `DecayChain.__init__` / `split_particle_type_list` (463-532): top / inner / outs lists
  * `sorted_table` (545-570), `split_len` (496-516), `from_sorted_table` (585-626, with
    `utils.deep_ordered_iter`), `topology_id` (660-673), `topology_same` (743-753),
    `standard_topology` (698-717), `topology_map` (719-741)
  * `DecayGroup.topology_structure` (902-920), `get_chains_map` (922-940)

The model is generic in the particle type `α` (equality + strict order `<`, Python: `BaseParticle.__eq__`,
`__lt__` on `(name, id)`); `Pt` is the concrete `(name, id)` instance used by the line protocol.
Python exceptions (KeyError, AssertionError, "not found in searching") and the non-terminating
`while chain:` loop of `sorted_table` on a cyclic chain are modelled by `none`.
Sorting is a structural insertion sort (`isort`) so that the kernel can evaluate it; for a linear order
every correct sort returns the same list as Python's `sorted`.
-/
namespace TfPwaV.Topology

/-! ## generic helpers -/

/-- `a ≤ b` as Python evaluates it for a total order given by `<`: not (b < a). -/
def leOf {α : Type} [LT α] [DecidableLT α] (a b : α) : Bool := !decide (b < a)

def oinsert {α : Type} [LT α] [DecidableLT α] (a : α) : List α → List α
  | [] => [a]
  | b :: l => if leOf a b then a :: b :: l else b :: oinsert a l

/-- insertion sort (stable); stands for Python `sorted` / `list.sort`. -/
def isort {α : Type} [LT α] [DecidableLT α] : List α → List α
  | [] => []
  | a :: l => oinsert a (isort l)

/-- insertion-ordered dictionary (Python `dict`): association list, keys unique. -/
abbrev Dict (κ ν : Type) := List (κ × ν)

def Dict.get? {κ ν : Type} [DecidableEq κ] (d : Dict κ ν) (k : κ) : Option ν :=
  match d with
  | [] => none
  | (k', v) :: r => if k' = k then some v else Dict.get? r k

def Dict.has {κ ν : Type} [DecidableEq κ] (d : Dict κ ν) (k : κ) : Bool := (d.get? k).isSome

/-- `d[k] = v`: replaces in place if the key exists, appends otherwise. -/
def Dict.set {κ ν : Type} [DecidableEq κ] (d : Dict κ ν) (k : κ) (v : ν) : Dict κ ν :=
  match d with
  | [] => [(k, v)]
  | (k', v') :: r => if k' = k then (k', v) :: r else (k', v') :: Dict.set r k v

/-- `del d[k]` -/
def Dict.del {κ ν : Type} [DecidableEq κ] (d : Dict κ ν) (k : κ) : Dict κ ν :=
  d.filter fun kv => !decide (kv.1 = k)

/-! ## `_Chain_Graph` -/

/-- A vertex of `_Chain_Graph`: a particle object (`top`, final state) or the string `"node_k"`.
A `BaseParticle` never compares equal to a `str`, hence two constructors. -/
inductive Node (α : Type) where
  | p (a : α)
  | n (k : Nat)
  deriving DecidableEq, Repr

abbrev Edge (α : Type) := Node α × Node α

structure Graph (α : Type) where
  nodes : List Nat
  edges : List (Edge α)
  count : Nat
  deriving Repr

def Graph.empty {α : Type} : Graph α := ⟨[], [], 0⟩

def Graph.addEdge {α : Type} (g : Graph α) (a b : Node α) : Graph α :=
  { g with edges := g.edges ++ [(a, b)] }

/-- `add_node(e, d)`; `edges.remove(e)` removes the first occurrence (`List.erase`; Python would raise
if `e` were absent, `get_graphs` only passes edges of `g`). -/
def Graph.addNode {α : Type} [DecidableEq α] (g : Graph α) (e : Edge α) (d : α) : Graph α :=
  { nodes := g.nodes ++ [g.count]
    edges := g.edges.erase e ++ [(e.1, Node.n g.count), (Node.n g.count, e.2), (Node.n g.count, Node.p d)]
    count := g.count + 1 }

/-- `get_graphs(g, ps)` of `from_particles`. -/
def getGraphs {α : Type} [DecidableEq α] (g : Graph α) : List α → List (Graph α)
  | [] => [g]
  | p :: ps => g.edges.flatMap fun e => getGraphs (g.addNode e p) ps

/-! ## decays and chains -/

structure Decay (α : Type) where
  core : α
  outs : List α
  deriving DecidableEq, Repr

abbrev Chain (α : Type) := List (Decay α)

/-- `BaseDecay.__eq__`: `get_id() = (core, tuple(sorted(outs)))`. -/
def Decay.same {α : Type} [DecidableEq α] [LT α] [DecidableLT α] (a b : Decay α) : Bool :=
  decide (a.core = b.core) && decide (isort a.outs = isort b.outs)

def coreList {α : Type} (c : Chain α) : List α := c.map (·.core)
def outList {α : Type} (c : Chain α) : List α := c.flatMap (·.outs)

/-- `split_particle_type_list`: (top, inner, outs) with multiplicities, in order of appearance. -/
def splitTypes {α : Type} [DecidableEq α] (c : Chain α) : List α × List α × List α :=
  let cores := coreList c
  let os := outList c
  let inner := cores.filter fun i => os.contains i
  (cores.filter fun i => !inner.contains i, inner, os.filter fun i => !inner.contains i)

/-- `DecayChain.__init__`: asserts a single top particle; returns it. -/
def topOf {α : Type} [DecidableEq α] (c : Chain α) : Option α :=
  match (splitTypes c).1 with
  | [t] => some t
  | _ => none

/-- `DecayChain.outs` (sorted list of final-state particles) -/
def finalsOf {α : Type} [DecidableEq α] [LT α] [DecidableLT α] (c : Chain α) : List α :=
  isort (splitTypes c).2.2

/-- `get_decay_chain`: daughters per mother in first-appearance order. -/
def daughterDict {α : Type} [DecidableEq α] (mk : Nat → α) (g : Graph α) : Dict α (List α) :=
  let toP : Node α → α := fun x => match x with | .p a => a | .n k => mk k
  g.edges.foldl (fun d e =>
    let i := toP e.1
    let j := toP e.2
    match d.get? i with
    | some l => d.set i (l ++ [j])
    | none => d.set i [j]) []

/-- `_Chain_Graph.get_decay_chain(top, head)`; `mk k` is `BaseParticle(head + "node_k")`.
`none` = AssertionError / KeyError of the Python code. -/
def getDecayChain {α : Type} [DecidableEq α] (mk : Nat → α) (g : Graph α) (top : α) : Option (Chain α) :=
  let d := daughterDict mk g
  match d.get? top with
  | some [tmp] =>
    match d.get? tmp with
    | some l =>
      let d2 := (d.set top l).del tmp
      let c : Chain α := d2.map fun kv => ⟨kv.1, kv.2⟩
      (topOf c).map fun _ => c
    | none => none
  | _ => none

/-- all elements succeed (no Python exception) → the list of results -/
def allSome {β : Type} : List (Option β) → Option (List β)
  | [] => some []
  | none :: _ => none
  | some x :: r => (allSome r).map (x :: ·)

/-- `[gi.get_decay_chain(top, head="chain{}_".format(i)) for i, gi in enumerate(gs)]` from index `i` on -/
def chainsFrom {α : Type} [DecidableEq α] (mk : Nat → Nat → α) (top : α) :
    Nat → List (Graph α) → List (Option (Chain α))
  | _, [] => []
  | i, g :: gs => getDecayChain (mk i) g top :: chainsFrom mk top (i + 1) gs

/-- `DecayChain.from_particles(top, finals)`; `mk i k` = `BaseParticle("chain{i}_node_{k}")`. -/
def fromParticles {α : Type} [DecidableEq α] (mk : Nat → Nat → α) (top : α) (finals : List α) :
    Option (List (Chain α)) :=
  match finals with
  | [] => none       -- assert len(finals) > 0
  | f :: fs =>
    allSome (chainsFrom mk top 0 (getGraphs (Graph.empty.addEdge (.p top) (.p f)) fs))

/-! ## sorted table -/

/-- one `for i in chain` pass of the `while chain:` loop of `sorted_table` -/
def stPass {α : Type} [DecidableEq α] [LT α] [DecidableLT α] :
    Chain α → Dict α (List α) → Dict α (List α) × Chain α
  | [], d => (d, [])
  | i :: rest, d =>
    if i.outs.all fun j => d.has j then
      let d1 := d.set i.core []
      let d2 := i.outs.foldl (fun d j => d.set i.core ((d.get? i.core).getD [] ++ (d.get? j).getD [])) d1
      let d3 := d2.set i.core (isort ((d2.get? i.core).getD []))
      stPass rest d3
    else
      let r := stPass rest d
      (r.1, i :: r.2)

/-- the `while chain:` loop; a pass without progress repeats forever in Python → `none`. -/
def stLoop {α : Type} [DecidableEq α] [LT α] [DecidableLT α] :
    Nat → Chain α → Dict α (List α) → Option (Dict α (List α))
  | _, [], d => some d
  | 0, _ :: _, _ => none
  | fuel + 1, c, d =>
    let r := stPass c d
    if r.2.length = c.length then none else stLoop fuel r.2 r.1

/-- `DecayChain.sorted_table()` (including the constructor's single-top assertion). -/
def sortedTable {α : Type} [DecidableEq α] [LT α] [DecidableLT α] (c : Chain α) :
    Option (Dict α (List α)) :=
  match topOf c with
  | none => none
  | some top =>
    let outs := finalsOf c
    let d0 : Dict α (List α) := outs.foldl (fun d i => d.set i [i]) []
    match stLoop c.length c d0 with
    | none => none
    | some d => some (d.set top (isort outs))

/-- `split_len(dicts)`: entries grouped by the length of the value, index = length. -/
def splitLen {α : Type} (d : Dict α (List α)) : List (List (α × List α)) :=
  let m := (d.map fun kv => kv.2.length).foldl max 0
  (List.range (m + 1)).map fun i => d.filter fun kv => kv.2.length == i

/-- `deep_ordered_iter(base, k)`: k-subsets of the keys in lexicographic index order. -/
def combos {β : Type} : List β → Nat → List (List β)
  | _, 0 => [[]]
  | [], _ + 1 => []
  | x :: xs, k + 1 => (combos xs k).map (x :: ·) ++ combos xs (k + 1)

/-- `deep_search(idx, base)` of `from_sorted_table` -/
def deepSearch {α : Type} [DecidableEq α] [LT α] [DecidableLT α]
    (target : List α) (base : Dict α (List α)) : Option (List α) :=
  let keys := base.map (·.1)
  let steps := (List.range (keys.length + 1)).filter (2 ≤ ·)
  (steps.flatMap fun k => combos keys k).find? fun ks =>
    isort (ks.flatMap fun k => (base.get? k).getD []) = isort target

def fstLoop {α : Type} [DecidableEq α] [LT α] [DecidableLT α] :
    List (α × List α) → Dict α (List α) → Chain α → Option (Chain α)
  | [], _, acc => some acc
  | j :: rest, base, acc =>
    match deepSearch j.2 base with
    | none => none
    | some found =>
      let base1 := found.foldl (fun b i => b.del i) base
      fstLoop rest (base1.set j.1 j.2) (acc ++ [⟨j.1, found⟩])

/-- `DecayChain.from_sorted_table(decay_dict)` -/
def fromSortedTable {α : Type} [DecidableEq α] [LT α] [DecidableLT α] (t : Dict α (List α)) :
    Option (Chain α) :=
  let s := splitLen t
  match s with
  | _ :: base :: rest =>
    if base.isEmpty then none   -- dict(None) raises
    else
      match fstLoop rest.flatten base [] with
      | none => none
      | some c => (topOf c).map fun _ => c
  | _ => none

/-! ## topology identity -/

/-- the list `set_a` of `topology_id`: one grouping (list of keys of final particles) per table entry.
`key = name` for `identical=True`, `key = id` for `identical=False`. -/
def groupings {α κ : Type} [DecidableEq α] [LT α] [DecidableLT α] (key : α → κ) (c : Chain α) :
    Option (List (List κ)) :=
  (sortedTable c).map fun t => t.map fun kv => kv.2.map key

/-- `topology_id(identical)` = `sorted(set_a)` (lists compare lexicographically). -/
def topologyId {α κ : Type} [DecidableEq α] [DecidableEq κ] [LT α] [DecidableLT α] [LT κ] [DecidableLT κ]
    (key : α → κ) (c : Chain α) : Option (List (List κ)) :=
  (groupings key c).map isort

/-- `a.topology_same(b, identical)`; `none` if either table cannot be built. -/
def topologySame {α κ : Type} [DecidableEq α] [DecidableEq κ] [LT α] [DecidableLT α] [LT κ] [DecidableLT κ]
    (key : α → κ) (a b : Chain α) : Option Bool :=
  match topologyId key a, topologyId key b with
  | some x, some y => some (decide (x = y))
  | _, _ => none

/-- `DecayGroup.topology_structure(identical, standard=False)`: first representative of every class. -/
def topologyReps {α κ : Type} [DecidableEq α] [DecidableEq κ] [LT α] [DecidableLT α] [LT κ] [DecidableLT κ]
    (key : α → κ) (chains : List (Chain α)) : List (Chain α) :=
  chains.foldl (fun ret i =>
    if ret.any fun j => topologySame key i j == some true then ret else ret ++ [i]) []

/-- `topology_map(other)`: particle map (entries with equal table values, first match) and decay map.
`none` = KeyError. -/
def topologyMap {α : Type} [DecidableEq α] [LT α] [DecidableLT α] (self other : Chain α) :
    Option (Dict α α × List (Decay α × Decay α)) :=
  match sortedTable self, sortedTable other with
  | some a, some b =>
    let pm : Dict α α := a.foldl (fun ret kv =>
      match b.find? fun kw => kv.2 = kw.2 with
      | some kw => ret.set kv.1 kw.1
      | none => ret) []
    let step : Option (List (Decay α × Decay α)) → Decay α → Option (List (Decay α × Decay α)) :=
      fun acc i =>
        match acc, pm.get? i.core, i.outs.mapM fun k => pm.get? k with
        | some l, some c, some os =>
          match other.find? fun j => Decay.same ⟨c, os⟩ j with
          | some j => some (l ++ [(i, j)])
          | none => some l
        | _, _, _ => none
    (self.foldl step (some [])).map fun dm => (pm, dm)
  | _, _ => none

/-! ## concrete particles `(name, id)` -/

structure Pt where
  name : String
  id : Int
  deriving DecidableEq, Repr

instance : LT Pt := ⟨fun a b => a.name < b.name ∨ (a.name = b.name ∧ a.id < b.id)⟩
instance : DecidableLT Pt := fun a b =>
  inferInstanceAs (Decidable (a.name < b.name ∨ (a.name = b.name ∧ a.id < b.id)))

/-- `BaseParticle.set_name(name)` -/
def Pt.parse (s : String) : Pt :=
  let names := s.splitOn ":"
  if names.length > 1 then
    match (names.getLast?.getD "").toInt? with
    | some i => ⟨":".intercalate names.dropLast, i⟩
    | none => ⟨s, 0⟩
  else ⟨s, 0⟩

/-- `BaseParticle.__repr__` -/
def Pt.repr (p : Pt) : String := if p.id = 0 then p.name else s!"{p.name}:{p.id}"

def Pt.inner (i k : Nat) : Pt := Pt.parse s!"chain{i}_node_{k}"

/-- `standard_topology()` -/
def standardTopology (c : Chain Pt) : Option (Chain Pt) :=
  match sortedTable c, topOf c with
  | some a, some top =>
    let nm0 : Dict Pt String := a.foldl (fun d kv =>
      d.set kv.1 ("(" ++ ", ".intercalate (isort (kv.2.map Pt.repr)) ++ ")")) []
    let nm1 := nm0.set top top.repr
    let nm2 := (finalsOf c).foldl (fun d i => d.set i i.repr) nm1
    let pm : Dict Pt Pt := nm2.map fun kv => (kv.1, Pt.parse kv.2)
    let r := c.mapM fun i =>
      match pm.get? i.core, i.outs.mapM fun j => pm.get? j with
      | some co, some os => some (⟨co, os⟩ : Decay Pt)
      | _, _ => none
    r.bind fun c' => (topOf c').map fun _ => c'
  | _, _ => none

/-- `topology_structure(identical, standard)` -/
def topologyStructure (identical standard : Bool) (chains : List (Chain Pt)) : Option (List (Chain Pt)) :=
  let reps := if identical then topologyReps Pt.name chains else topologyReps (fun p : Pt => p) chains
  if standard then reps.mapM standardTopology else some reps

/-- `get_chains_map(chains)` as the list over classes of `(index of chain, topology_map)`; a chain is
listed in a class when `decay_chain.topology_same(j)`. `byName = true` is the code as it is (default
`identical=True`, although the classes were formed with `identical=False`); `byName = false` is the tree after
`fix_get_chains_map_identical.diff`. The harness selects the variant by probing the real code. -/
def chainsMap (byName : Bool) (chains : List (Chain Pt)) :
    Option (List (List (Nat × (Dict Pt Pt × List (Decay Pt × Decay Pt))))) :=
  match topologyStructure false true chains with
  | none => none
  | some reps =>
    reps.mapM fun s =>
      ((List.zip (List.range chains.length) chains).filter fun ij =>
          (if byName then topologySame Pt.name s ij.2 else topologySame (fun p : Pt => p) s ij.2) == some true).mapM fun ij =>
        (topologyMap s ij.2).map fun m => (ij.1, m)

/-! ## line protocol -/

def enc (s : String) : String := s.replace " " "~"
def showPt (p : Pt) : String := enc p.repr
def showDecay (d : Decay Pt) : String := showPt d.core ++ ">" ++ "|".intercalate (d.outs.map showPt)
def showChain (c : Chain Pt) : String := if c.isEmpty then "-" else ";".intercalate (c.map showDecay)
def showTable (t : Dict Pt (List Pt)) : String :=
  ";".intercalate (t.map fun kv => showPt kv.1 ++ "=" ++ "|".intercalate (kv.2.map showPt))

def parseDecay (s : String) : Option (Decay Pt) :=
  match s.splitOn ">" with
  | [c, os] => some ⟨Pt.parse c, (os.splitOn "|").map Pt.parse⟩
  | _ => none
def parseChain (s : String) : Option (Chain Pt) := (s.splitOn ";").mapM parseDecay
def parseTable (s : String) : Option (Dict Pt (List Pt)) :=
  (s.splitOn ";").mapM fun e =>
    match e.splitOn "=" with
    | [k, vs] => some (Pt.parse k, (vs.splitOn "|").map Pt.parse)
    | _ => none

def showMap (m : Dict Pt Pt × List (Decay Pt × Decay Pt)) : String :=
  ",".intercalate (m.1.map fun kv => showPt kv.1 ++ "=" ++ showPt kv.2) ++ "#" ++
  ",".intercalate (m.2.map fun kv => showDecay kv.1 ++ "=" ++ showDecay kv.2)

def orErr (o : Option String) : String := o.getD "ERR"

def handle : List String → Option String
  | "fp" :: top :: finals =>
    some (orErr ((fromParticles Pt.inner (Pt.parse top) (finals.map Pt.parse)).map fun cs =>
      " ".intercalate (cs.map showChain)))
  | ["st", c] => (parseChain c).map fun c => orErr ((sortedTable c).map showTable)
  | ["tid", idn, c] => (parseChain c).map fun c =>
      if idn == "1" then orErr ((topologyId Pt.name c).map fun g => ";".intercalate (g.map fun l => "|".intercalate (l.map enc)))
      else orErr ((topologyId (fun p : Pt => p) c).map fun g => ";".intercalate (g.map fun l => "|".intercalate (l.map showPt)))
  | ["same", idn, a, b] =>
    match parseChain a, parseChain b with
    | some a, some b =>
      let r := if idn == "1" then topologySame Pt.name a b else topologySame (fun p : Pt => p) a b
      some (orErr (r.map fun x => if x then "1" else "0"))
    | _, _ => none
  | ["std", c] => (parseChain c).map fun c => orErr ((standardTopology c).map showChain)
  | ["fst", t] => (parseTable t).map fun t => orErr ((fromSortedTable t).map showChain)
  | ["tmap", a, b] =>
    match parseChain a, parseChain b with
    | some a, some b => some (orErr ((topologyMap a b).map showMap))
    | _, _ => none
  | ["tmap0", a] => (parseChain a).map fun a =>
      orErr ((standardTopology a).bind fun s => (topologyMap a s).map showMap)
  | "struct" :: idn :: std :: cs => (cs.mapM parseChain).map fun cs =>
      orErr ((topologyStructure (idn == "1") (std == "1") cs).map fun r => " ".intercalate (r.map showChain))
  | "cmap" :: byName :: cs => (cs.mapM parseChain).map fun cs =>
      orErr ((chainsMap (byName == "1") cs).map fun cl => " ".intercalate (cl.map fun tmp =>
        "[" ++ "/".intercalate (tmp.map fun im => toString im.1 ++ "@" ++ showMap im.2) ++ "]"))
  | _ => none

end TfPwaV.Topology
