/-!
# Model of `tf_pwa.variable.VarsManager` as a pure state machine (C16)

Mathlib-free.  The value type `V` is abstract: every arithmetic the manager performs on a parameter value
(polar <-> Cartesian, `assign_add(pi)`, bound transforms, the random source) is a field of `Arith V`;
`Model/VarsF.lean` instantiates it at `Float` with the template-generated `PolarF` / `BoundF` functions
(the same text the real-number theorems are about), so the structural theorems hold for *every* arithmetic.

The state mirrors the attributes of the Python object:
`variables` (name -> tf.Variable object; tied names share one object) is `vars : name -> cell id` plus a
heap `cell id -> (value, trainable flag)`; `trainable_vars`, `complex_vars`, `same_list`, `bnd_dic`,
`init_val`, `mask_vars`, `polar` are kept as insertion-ordered association lists / lists like the Python
dicts / lists.  `step` follows `tf_pwa/variable.py` statement by statement.

`Cfg` selects between the behaviour of the unchanged tree and the behaviour after the proposed patches
(`fix_set_same_merge.diff`, `fix_std_polar_angle.diff`, `fix_C08_standard_complex_free_only.diff`,
`fix_C08_set_bound_free_name.diff`); the harness observes which one the tree has.  The third C08 repair
(`fix_C08_standard_complex_bounded.diff`) is the `bounded` argument of `standardComplex`: `standard_complex()` as a public
call (`Op.standardComplex`) passes none, `fit_scipy` passes the names of its `bounds_dict` (`Fit.Fix.stdBounded`).
-/
namespace TfPwaV.Vars

/-- arithmetic on parameter values used by the manager -/
structure Arith (V : Type) where
  cos : V → V
  sin : V → V
  sqrt : V → V
  abs : V → V
  atan2 : V → V → V
  add : V → V → V
  sub : V → V → V
  mul : V → V → V
  isNeg : V → Bool
  pi : V
  /-- `VarsManager._std_polar_angle` -/
  stdAngle : V → V
  /-- `Bound(lo, hi).get_x2y` -/
  x2y : Option V → Option V → V → V
  /-- `Bound(lo, hi).get_y2x` (clips to the range first) -/
  y2x : Option V → Option V → V → V
  /-- the uniform draw `lo + (hi - lo) * u` -/
  uniform : V → V → V → V
  /-- the normal draw `mu + sigma * z` -/
  gauss : V → V → V → V
  /-- `tf.cast(mask_value, dtype)` in `read`: a Python float passes through float32 -/
  maskCast : V → V

structure Cfg where
  /-- `set_same` re-binds the followers of merged groups, picks the trainable member as head and
  recognises complex names (tree after `fix_set_same_merge.diff`) -/
  fixSame : Bool
  /-- `std_polar` stores `_std_polar_angle(p)` (tree after `fix_std_polar_angle.diff`) -/
  fixStd : Bool
  /-- `standard_complex` skips a complex variable unless BOTH parts are free names, i.e. in `trainable_vars`
  (tree after `fix_C08_standard_complex_free_only.diff`) -/
  stdFree : Bool := false
  /-- `set_bound` registers a bound under `bound_name(name)`: the first entry of the `same_list` group of the name
  (tree after `fix_C08_set_bound_free_name.diff`) -/
  boundHead : Bool := false
deriving Repr, DecidableEq

structure Cell (V : Type) where
  val : V
  trainable : Bool

abbrev Name := String
abbrev Dict (β : Type) := List (Name × β)

/-- `d.get(k)` -/
def dget {β : Type} : Dict β → Name → Option β
  | [], _ => none
  | (k', v) :: t, k => if k' = k then some v else dget t k

/-- `d[k] = v` on an insertion-ordered dict -/
def dset {β : Type} : Dict β → Name → β → Dict β
  | [], k, v => [(k, v)]
  | (k', v') :: t, k, v => if k' = k then (k', v) :: t else (k', v') :: dset t k v

def dhas {β : Type} (d : Dict β) (k : Name) : Bool := (dget d k).isSome
def dkeys {β : Type} (d : Dict β) : List Name := d.map (·.1)

def upd {β : Type} (h : Nat → β) (c : Nat) (v : β) : Nat → β := fun i => if i = c then v else h i

structure InitSpec (V : Type) where
  /-- `none`: the entry is `None`; `some (a, none)`: scalar `a`; `some (mu, some sigma)`: `(mu, sigma)` -/
  spec : Option (V × Option V)

structure State (V : Type) where
  vars : Dict Nat
  heap : Nat → Cell V
  next : Nat
  trainable : List Name
  cplx : Dict Bool
  same : List (List Name)
  bnd : Dict (Option V × Option V)
  initVal : Dict V
  mask : Dict V
  maskStack : List (Dict V)
  polar : Bool

def State.empty {V : Type} (dflt : V) (polar : Bool) : State V :=
  { vars := [], heap := fun _ => ⟨dflt, false⟩, next := 0, trainable := [], cplx := [], same := [],
    bnd := [], initVal := [], mask := [], maskStack := [], polar := polar }

inductive Op (V : Type) where
  | addReal (name : Name) (val : V) (hasInit trainable : Bool)
  | addComplex (name : Name) (polar : Option Bool) (trainable : Bool) (v1 v2 : V)
  | setFix (name : Name) (val : Option V) (unfix : Bool)
  | setSame (names : List Name) (cplx : Bool)
  | setShareR (names : List Name)
  | setBound (b : Dict (Option V × Option V))
  | removeBound
  | set (name : Name) (v : V) (valInFit : Bool)
  | setAllDict (d : Dict V) (valInFit : Bool)
  | setAllList (l : List V) (valInFit : Bool)
  | get (name : Name) (valInFit : Bool)
  | getAllDic (trainableOnly : Bool)
  | getAllVal (valInFit : Bool)
  | refresh (vxy vr vp u chi z : V) (init : Option (Dict (InitSpec V))) (bound : Option (Dict (Option V × Option V)))
  | rp2xy (c : Name)
  | xy2rp (c : Name)
  | rp2xyAll
  | xy2rpAll
  | stdPolar (c : Name)
  | stdPolarAll
  | standardComplex
  | transParams (polar : Bool)
  | setTransVar (xs : List V)
  | maskEnter (d : Dict V)
  | maskExit

inductive Out (V : Type) where
  | none
  | err
  | val (v : V)
  | vals (l : List V)
  | dict (d : Dict V)
  | names (l : List Name)

variable {V : Type}

def cellOf (s : State V) (n : Name) : Option Nat := dget s.vars n

/-- the stored value of a name (`vm.variables[name].numpy()`) -/
def readN (s : State V) (n : Name) : Option V := (cellOf s n).map fun c => (s.heap c).val

/-- `tf.Variable.assign` -/
def assign (s : State V) (c : Nat) (v : V) : State V :=
  { s with heap := upd s.heap c { s.heap c with val := v } }

/-- assign to a name if it exists -/
def assignN (s : State V) (n : Name) (v : V) : State V :=
  match cellOf s n with
  | some c => assign s c v
  | none => s

/-- `_add_real_var` -/
def addRealVar (s : State V) (name : Name) (val : V) (hasInit trainable : Bool) : State V :=
  let tr := if dhas s.vars name then (if name ∈ s.trainable then s.trainable.erase name else s.trainable)
            else s.trainable
  let c := s.next
  { s with vars := dset s.vars name c, heap := upd s.heap c ⟨val, trainable⟩, next := c + 1,
           initVal := if hasInit then dset s.initVal name val else s.initVal,
           trainable := if trainable then tr ++ [name] else tr }

/-- `add_complex_var` (`v1`, `v2` are the two draws, or `fix_vals`) -/
def addComplexVar (s : State V) (name : Name) (polar : Option Bool) (trainable : Bool) (v1 v2 : V) : State V :=
  let pol := polar.getD s.polar
  let s1 := addRealVar s (name ++ "r") v1 (!trainable) trainable
  let s2 := addRealVar s1 (name ++ "i") v2 (!trainable) trainable
  { s2 with cplx := dset s2.cplx name pol }

/-- `set_fix` -/
def setFix (A : Arith V) (s : State V) (name : Name) (val : Option V) (unfix : Bool) : State V × Out V :=
  match cellOf s name with
  | none => (s, .err)
  | some c =>
    let v := match val with
      | none => (s.heap c).val
      | some y => match dget s.bnd name with
        | some b => A.y2x b.1 b.2 y
        | none => y
    let tr := if unfix then (if name ∈ s.trainable then s.trainable else s.trainable ++ [name])
              else (if name ∈ s.trainable then s.trainable.erase name else s.trainable)
    ({ s with heap := upd s.heap c ⟨v, unfix⟩, trainable := tr }, .none)

/-- `set_bound` (built-in transforms only) -/
def setBound (s : State V) (b : Dict (Option V × Option V)) : State V :=
  { s with bnd := b.foldl (fun acc kv => dset acc kv.1 kv.2) s.bnd }

/-- `bound_name` (after `fix_C08_set_bound_free_name.diff`): `for i in same_list: if name in i: return i[0]`, else `name` -/
def boundName (s : State V) (n : Name) : Name :=
  match s.same.find? (fun g => g.contains n) with
  | some g => g.headD n
  | none => n

/-- the dict `set_bound` works on: the one it is given (unchanged tree) / every key replaced by its `bound_name` -/
def routeBounds (cfg : Cfg) (s : State V) (b : Dict (Option V × Option V)) : Dict (Option V × Option V) :=
  if cfg.boundHead then b.map (fun kv => (boundName s kv.1, kv.2)) else b

/-- `get` -/
def getV (A : Arith V) (s : State V) (name : Name) (valInFit : Bool) : Option V :=
  match cellOf s name with
  | none => none
  | some c =>
    match (if valInFit then dget s.bnd name else none) with
    | some b => some (A.y2x b.1 b.2 (s.heap c).val)
    | none => some (s.heap c).val

/-- `read` (mask aware), used by `get_all_dic` -/
def readMasked (A : Arith V) (s : State V) (name : Name) : Option V :=
  match cellOf s name with
  | none => none
  | some c => match dget s.mask name with
    | some m => some (A.maskCast m)
    | none => some (s.heap c).val

/-- `set` -/
def setV (A : Arith V) (s : State V) (name : Name) (v : V) (valInFit : Bool) : State V :=
  let v' := match (if valInFit then dget s.bnd name else none) with
    | some b => A.x2y b.1 b.2 v
    | none => v
  assignN s name v'

/-- `set_all` with a dict -/
def setAllDict (A : Arith V) (s : State V) (d : Dict V) (valInFit : Bool) : State V :=
  d.foldl (fun acc kv => setV A acc kv.1 kv.2 valInFit) s

/-- `set_all` with a sequence: `vals[i]` for the i-th trainable name; IndexError when it is too short
(after the writes already done) -/
def setAllListAux (A : Arith V) (valInFit : Bool) : State V → List Name → List V → State V × Bool
  | s, [], _ => (s, true)
  | s, _ :: _, [] => (s, false)
  | s, n :: ns, v :: vs => setAllListAux A valInFit (setV A s n v valInFit) ns vs

def setAllList (A : Arith V) (s : State V) (l : List V) (valInFit : Bool) : State V × Bool :=
  setAllListAux A valInFit s s.trainable l

/-- `get_all_dic` -/
def getAllDic (A : Arith V) (s : State V) (trainableOnly : Bool) : Dict V :=
  let names := if trainableOnly then s.trainable else dkeys s.vars
  names.filterMap fun n => (readMasked A s n).map fun v => (n, v)

/-- first loop of `set_same`: collect (and remove) the groups the names already belong to -/
def mergeLoop (inVars : Name → Bool) (headOf : List Name → Name → Name) :
    List Name → List (List Name) × List Name × List Name → List (List Name) × List Name × List Name
  | [], acc => acc
  | name :: rest, (same, tmp, heads) =>
    if !inVars name then mergeLoop inVars headOf rest (same, tmp, heads)
    else match same.find? (fun g => name ∈ g) with
      | none => mergeLoop inVars headOf rest (same, tmp, heads)
      | some g => mergeLoop inVars headOf rest (same.erase g, tmp ++ g, heads ++ [headOf g name])

/-- trainable-list part of `same_real` (names already filtered to existing ones) -/
def sameRealTr (first : Name) (rest : List Name) (tr : List Name) : List Name :=
  rest.foldl (fun tr name =>
    if name ∈ tr then tr.erase name else (if first ∈ tr then tr.erase first else tr)) tr

def rebind (vars : Dict Nat) (names : List Name) (c : Nat) : Dict Nat :=
  names.foldl (fun vs n => dset vs n c) vars

/-- inner function `same_real` of `set_same`; `followers` is empty on the unchanged tree -/
def sameReal (s : State V) (names followers : List Name) : State V :=
  match names.filter (dhas s.vars) with
  | [] => s
  | first :: rest =>
    match cellOf s first with
    | none => s
    | some c =>
      { s with trainable := sameRealTr first rest s.trainable,
               vars := rebind (rebind s.vars (first :: rest) c) (followers.filter (dhas s.vars)) c }

/-- `exists(name)` of `set_same` (before the fix: `name in self.variables` also for complex names) -/
def ssInVars (cfg : Cfg) (s : State V) (cplx : Bool) (n : Name) : Bool :=
  if cfg.fixSame && cplx then dhas s.vars (n ++ "r") else dhas s.vars n

/-- `is_trainable(name)` of `set_same` -/
def ssIsTr (s : State V) (cplx : Bool) (n : Name) : Bool :=
  if cplx then (decide (n ++ "r" ∈ s.trainable) || decide (n ++ "i" ∈ s.trainable)) else decide (n ∈ s.trainable)

/-- the representative of an existing group: its free member (after the fix), else its first entry -/
def ssHeadOf (cfg : Cfg) (s : State V) (cplx : Bool) (g : List Name) (dflt : Name) : Name :=
  if cfg.fixSame then ((g.find? (ssIsTr s cplx)).getD (g.headD dflt)) else g.headD dflt

/-- `new_name_list = head_list + [i for i in name_list if i not in tmp_list]` -/
def ssNewNames (names tmp heads : List Name) : List Name :=
  heads ++ names.filter (fun i => !(tmp.contains i))

/-- `for i in tmp_list: if i not in name_list: name_list.append(i)` -/
def ssNameList (names tmp : List Name) : List Name :=
  tmp.foldl (fun nl i => if nl.contains i then nl else nl ++ [i]) names

/-- the call(s) of `same_real` -/
def ssCore (s1 : State V) (cplx : Bool) (newNames fol : List Name) : State V :=
  if cplx then
    sameReal (sameReal s1 (newNames.map (· ++ "r")) (fol.map (· ++ "r"))) (newNames.map (· ++ "i")) (fol.map (· ++ "i"))
  else sameReal s1 newNames fol

/-- `set_same`; returns the state and the (mutated) `name_list` -/
def setSame (cfg : Cfg) (s : State V) (names : List Name) (cplx : Bool) : State V × List Name :=
  let r := mergeLoop (ssInVars cfg s cplx) (ssHeadOf cfg s cplx) names (s.same, [], [])
  let newNames := ssNewNames names r.2.1 r.2.2
  let nameList := ssNameList names r.2.1
  let fol := if cfg.fixSame then nameList else []
  let s2 := ssCore { s with same := r.1 } cplx newNames fol
  let nameList' := if cfg.fixSame then newNames ++ nameList.filter (fun i => !(newNames.contains i)) else nameList
  ({ s2 with same := s2.same ++ [nameList'] }, nameList')

/-- after a coordinate switch: `for l in same_list: if name in l: for i in l: complex_vars[i] = flag; break` -/
def spreadFlag (s : State V) (name : Name) (flag : Bool) : State V :=
  match s.same.find? (fun g => name ∈ g) with
  | none => s
  | some g => { s with cplx := g.foldl (fun acc i => dset acc i flag) s.cplx }

/-- `rp2xy`; `false` = KeyError -/
def rp2xy (A : Arith V) (s : State V) (name : Name) : State V × Bool :=
  match dget s.cplx name with
  | none => (s, false)
  | some pol =>
    if pol != true then (s, true) else
    match cellOf s (name ++ "r"), cellOf s (name ++ "i") with
    | some cr, some ci =>
      let r := (s.heap cr).val
      let p := (s.heap ci).val
      let x := A.mul r (A.cos p)
      let y := A.mul r (A.sin p)
      let s1 := assign (assign s cr x) ci y
      let s2 := { s1 with cplx := dset s1.cplx name false }
      (spreadFlag s2 name false, true)
    | _, _ => (s, false)

/-- `xy2rp` -/
def xy2rp (A : Arith V) (s : State V) (name : Name) : State V × Bool :=
  match dget s.cplx name with
  | none => (s, false)
  | some pol =>
    if pol != false then (s, true) else
    match cellOf s (name ++ "r"), cellOf s (name ++ "i") with
    | some cr, some ci =>
      let x := (s.heap cr).val
      let y := (s.heap ci).val
      let r := A.sqrt (A.add (A.mul x x) (A.mul y y))
      let p := A.atan2 y x
      let s1 := assign (assign s cr r) ci p
      let s2 := { s1 with cplx := dset s1.cplx name true }
      (spreadFlag s2 name true, true)
    | _, _ => (s, false)

/-- run a fallible per-name operation over a list of names, stopping at the first KeyError -/
def forNames (f : State V → Name → State V × Bool) : State V → List Name → State V × Bool
  | s, [] => (s, true)
  | s, n :: ns => match f s n with
    | (s1, true) => forNames f s1 ns
    | (s1, false) => (s1, false)

/-- `std_polar` -/
def stdPolar (A : Arith V) (cfg : Cfg) (s : State V) (name : Name) : State V × Bool :=
  match xy2rp A s name with
  | (s1, false) => (s1, false)
  | (s1, true) =>
    match cellOf s1 (name ++ "r"), cellOf s1 (name ++ "i") with
    | some cr, some ci =>
      let s2 := if A.isNeg (s1.heap cr).val then
          let s' := assign s1 cr (A.abs (s1.heap cr).val)
          assign s' ci (A.add (s'.heap ci).val A.pi)
        else s1
      let s3 := if cfg.fixStd then assign s2 ci (A.stdAngle (s2.heap ci).val) else s2
      (s3, true)
    | _, _ => (s1, false)

/-- `standard_complex(bounded)`; `bounded = []` and `cfg.stdFree = false`: the unchanged tree.  The two repairs only
add reasons to skip a variable (`continue`): a part that is not a free name (`cfg.stdFree`), a part named in `bounded` -/
def standardComplex (A : Arith V) (cfg : Cfg) (s : State V) (bounded : List Name := []) : State V × Bool :=
  forNames (fun s k =>
    match dget s.cplx k with
    | some true =>
      let hasC := s.same.any (fun g => g.contains (k ++ "r") || g.contains (k ++ "i"))
        || dhas s.bnd (k ++ "r") || dhas s.bnd (k ++ "i")
        || bounded.contains (k ++ "r") || bounded.contains (k ++ "i")
        || (cfg.stdFree && !(decide (k ++ "r" ∈ s.trainable) && decide (k ++ "i" ∈ s.trainable)))
      if hasC then (s, true) else stdPolar A cfg s k
    | _ => (s, true)) s (dkeys s.cplx)

/-- `set_trans_var` : `None` when `xvals` is too short for a bounded name (IndexError before any write) -/
def transVals (A : Arith V) (s : State V) : List Name → List V → Option (List V)
  | [], rest => some rest
  | _ :: _, [] => none
  | n :: ns, x :: xs =>
    let y := match dget s.bnd n with
      | some b => A.x2y b.1 b.2 x
      | none => x
    (transVals A s ns xs).map (y :: ·)

/-- `if name in self.trainable_vars: self.variables[name].assign(v)` -/
def assignIfFree (s : State V) (n : Name) (v : V) : State V :=
  if n ∈ s.trainable then assignN s n v else s

/-- complex-variable loop of `refresh_vars` -/
def refreshCplx (s : State V) (vxy vr vp : V) : State V :=
  s.cplx.foldl (fun acc kv =>
    if kv.2 == false then assignIfFree (assignIfFree acc (kv.1 ++ "r") vxy) (kv.1 ++ "i") vxy
    else assignIfFree (assignIfFree acc (kv.1 ++ "r") vr) (kv.1 ++ "i") vp) s

/-- `for name in set(init_val) & set(self.trainable_vars)` -/
def refreshInit (A : Arith V) (z : V) (s : State V) (iv : Dict (InitSpec V)) : State V :=
  iv.foldl (fun acc kv =>
    match kv.2.spec with
    | none => acc
    | some (a, none) => assignIfFree acc kv.1 a
    | some (mu, some sigma) => assignIfFree acc kv.1 (A.gauss mu sigma z)) s

/-- `for name in set(bound_dic) - set(init_val)` -/
def refreshBound (A : Arith V) (u chi : V) (iv : Dict (InitSpec V)) (s : State V)
    (bd : Dict (Option V × Option V)) : State V :=
  bd.foldl (fun acc kv =>
    if dhas iv kv.1 then acc else
    match kv.2 with
    | (some lo, some hi) => assignIfFree acc kv.1 (A.uniform lo hi u)
    | (some lo, none) => assignIfFree acc kv.1 (A.add lo chi)
    | (none, some hi) => assignIfFree acc kv.1 (A.sub hi chi)
    | (none, none) => acc) s

/-- `refresh_vars` -/
def refresh (A : Arith V) (s : State V) (vxy vr vp u chi z : V)
    (init : Option (Dict (InitSpec V))) (bound : Option (Dict (Option V × Option V))) : State V :=
  let bd := bound.getD s.bnd
  let iv : Dict (InitSpec V) := init.getD (s.initVal.map fun kv => (kv.1, ⟨some (kv.2, none)⟩))
  refreshBound A u chi iv (refreshInit A z (refreshCplx s vxy vr vp) iv) bd

def okOut (p : State V × Bool) : State V × Out V := (p.1, if p.2 then .none else .err)

/-- one public method call -/
def step (A : Arith V) (cfg : Cfg) (s : State V) : Op V → State V × Out V
  | .addReal name val hasInit tr => (addRealVar s name val hasInit tr, .none)
  | .addComplex name pol tr v1 v2 => (addComplexVar s name pol tr v1 v2, .none)
  | .setFix name val unfix => setFix A s name val unfix
  | .setSame names cplx => let r := setSame cfg s names cplx; (r.1, .names r.2)
  | .setShareR names =>
    let nl := if names.isEmpty then dkeys s.cplx else names
    match forNames (xy2rp A) s nl with
    | (s1, false) => (s1, .err)
    | (s1, true) =>
      let s2 := { s1 with polar := true }
      let r := setSame cfg s2 (names.map (· ++ "r")) false
      let s3 := r.1
      ({ s3 with cplx := r.2.foldl (fun acc n => dset acc (n.dropEnd 1).toString true) s3.cplx }, .names r.2)
  | .setBound b => (setBound s (routeBounds cfg s b), .none)
  | .removeBound => ({ s with bnd := [] }, .names (dkeys s.bnd))
  | .set name v vif => (setV A s name v vif, .none)
  | .setAllDict d vif => (setAllDict A s d vif, .none)
  | .setAllList l vif => okOut (setAllList A s l vif)
  | .get name vif => (s, match getV A s name vif with | some v => .val v | none => .err)
  | .getAllDic tonly => (s, .dict (getAllDic A s tonly))
  | .getAllVal vif => (s, .vals (s.trainable.filterMap fun n => getV A s n vif))
  | .refresh vxy vr vp u chi z init bound => (refresh A s vxy vr vp u chi z init bound, .none)
  | .rp2xy c => okOut (rp2xy A s c)
  | .xy2rp c => okOut (xy2rp A s c)
  | .rp2xyAll => let r := forNames (rp2xy A) s (dkeys s.cplx); okOut ({ r.1 with polar := if r.2 then false else r.1.polar }, r.2)
  | .xy2rpAll => let r := forNames (xy2rp A) s (dkeys s.cplx); okOut ({ r.1 with polar := if r.2 then true else r.1.polar }, r.2)
  | .stdPolar c => okOut (stdPolar A cfg s c)
  | .stdPolarAll => okOut (forNames (stdPolar A cfg) s (dkeys s.cplx))
  | .standardComplex => okOut (standardComplex A cfg s [])
  | .transParams pol =>
    if pol then okOut (forNames (stdPolar A cfg) s (dkeys s.cplx))
    else let r := forNames (rp2xy A) s (dkeys s.cplx); okOut ({ r.1 with polar := if r.2 then false else r.1.polar }, r.2)
  | .setTransVar xs =>
    match transVals A s s.trainable xs with
    | none => (s, .err)
    | some ys => okOut (setAllList A s ys false)
  | .maskEnter d => ({ s with maskStack := s.mask :: s.maskStack, mask := d }, .none)
  | .maskExit => match s.maskStack with
    | [] => (s, .err)
    | m :: t => ({ s with mask := m, maskStack := t }, .none)

/-- run a history, collecting the output of every call -/
def run (A : Arith V) (cfg : Cfg) : State V → List (Op V) → State V
  | s, [] => s
  | s, op :: ops => run A cfg (step A cfg s op).1 ops

/-! ### the order in which a configuration applies operations (`ConfigLoader.add_constraints`) -/

/-- phase automaton: 0 create, 1 fix/free, 2 tie, 3 bound, 4 everything else.  `none` = not allowed now. -/
def nextPhase (cur : Nat) : Op V → Option Nat
  | .addReal .. | .addComplex .. => if cur = 0 then some 0 else none
  | .setFix .. => if cur ≤ 1 then some 1 else none
  | .setSame .. | .setShareR .. => if cur ≤ 2 then some 2 else none
  | .setBound .. | .removeBound => some (max cur 3)
  | _ => some (max cur 4)

def wellPhasedFrom : Nat → List (Op V) → Bool
  | _, [] => true
  | cur, op :: ops => match nextPhase cur op with
    | none => false
    | some p => wellPhasedFrom p ops

/-- create; fix/free; tie; bound; then arbitrary interleavings -/
def WellPhased (ops : List (Op V)) : Prop := wellPhasedFrom 0 ops = true

/-! ### tie calls name existing parameters of the right kind -/

/-- no name is at the same time a real variable and the base `c` of a complex one (`c`, `c+"r"` both bound) -/
def ncOK (s : State V) : Bool := (dkeys s.vars).all fun n => !dhas s.vars (n ++ "r")

/-- `c` names a complex parameter: `c+"r"` and `c+"i"` are bound -/
def isCplxBase (s : State V) (n : Name) : Bool := dhas s.vars (n ++ "r") && dhas s.vars (n ++ "i")

/-- precondition of a tie call: real ties list bound names, complex ties / shared radii list complex parameters -/
def tieOK (s : State V) : Op V → Bool
  | .setSame names cplx => ncOK s && names.all (fun n => if cplx then isCplxBase s n else dhas s.vars n)
  | .setShareR names => ncOK s && names.all (isCplxBase s)
  | _ => true

def wellNamedFrom (A : Arith V) (cfg : Cfg) : State V → List (Op V) → Bool
  | _, [] => true
  | s, op :: ops => tieOK s op && wellNamedFrom A cfg (step A cfg s op).1 ops

/-- every tie call of the history satisfies `tieOK` in the state in which it is made -/
def WellNamed (A : Arith V) (cfg : Cfg) (s : State V) (ops : List (Op V)) : Prop := wellNamedFrom A cfg s ops = true

end TfPwaV.Vars
