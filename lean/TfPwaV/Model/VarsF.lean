import TfPwaV.Model.Vars
import TfPwaV.Model.Util
import TfPwaV.Gen.PolarF
import TfPwaV.Gen.BoundF
/-! Float instance of the `VarsManager` state machine + line protocol (C16).

One line = one whole history:  `C16 hist <fixSame> <fixStd> <polar> <op tokens> ; <op tokens> ; …`
(`C16 histv <fixSame> <fixStd> <stdFree> <boundHead> <polar> …`: the same with all four `Cfg` flags)
answer = the canonical dump after every op, joined by `#`.
Other lines: `C16 bound <fn> <lo> <hi> <x>` and `C16 polar <fn> <args>` evaluate the template functions. -/
namespace TfPwaV.VarsF
open TfPwaV.Vars TfPwaV.Util

def arithF : Arith Float where
  cos := Float.cos
  sin := Float.sin
  sqrt := Float.sqrt
  abs := Float.abs
  atan2 := Float.atan2
  add := (· + ·)
  sub := (· - ·)
  mul := (· * ·)
  isNeg := fun r => r < 0
  pi := TfPwaV.ScalarF.kpi
  stdAngle := TfPwaV.PolarF.stdAngle
  x2y := TfPwaV.BoundF.x2y
  y2x := TfPwaV.BoundF.y2x
  uniform := fun lo hi u => lo + (hi - lo) * u
  gauss := fun mu sigma z => mu + sigma * z
  maskCast := fun m => m.toFloat32.toFloat

-- parsing ---------------------------------------------------------------------

def pB (s : String) : Option Bool := if s == "1" then some true else if s == "0" then some false else none
def pOF (s : String) : Option (Option Float) := if s == "N" then some none else (parseF s).map some
def pOB (s : String) : Option (Option Bool) := if s == "N" then some none else (pB s).map some

/-- take `n` groups of `k` tokens -/
def takeGroups (k : Nat) : Nat → List String → Option (List (List String) × List String)
  | 0, ws => some ([], ws)
  | n + 1, ws =>
    if ws.length < k then none else
    match takeGroups k n (ws.drop k) with
    | some (gs, rest) => some (ws.take k :: gs, rest)
    | none => none

def pNames (ws : List String) : Option (List String × List String) :=
  match ws with
  | n :: rest => do
    let n ← n.toNat?
    let (gs, rest') ← takeGroups 1 n rest
    some (gs.map (·.headD ""), rest')
  | [] => none

def pFloats (ws : List String) : Option (List Float × List String) :=
  match ws with
  | n :: rest => do
    let n ← n.toNat?
    let (gs, rest') ← takeGroups 1 n rest
    let fs ← gs.mapM (fun g => parseF (g.headD ""))
    some (fs, rest')
  | [] => none

def pDictF (ws : List String) : Option (Dict Float × List String) :=
  match ws with
  | n :: rest => do
    let n ← n.toNat?
    let (gs, rest') ← takeGroups 2 n rest
    let d ← gs.mapM (fun g => match g with
      | [k, v] => (parseF v).map fun x => (k, x)
      | _ => none)
    some (d, rest')
  | [] => none

def pBounds (ws : List String) : Option (Dict (Option Float × Option Float) × List String) :=
  match ws with
  | n :: rest => do
    let n ← n.toNat?
    let (gs, rest') ← takeGroups 3 n rest
    let d ← gs.mapM (fun g => match g with
      | [k, lo, hi] => do
        let lo ← pOF lo; let hi ← pOF hi
        some (k, (lo, hi))
      | _ => none)
    some (d, rest')
  | [] => none

def pInit (ws : List String) : Option (Dict (InitSpec Float) × List String) :=
  match ws with
  | n :: rest => do
    let n ← n.toNat?
    let (gs, rest') ← takeGroups 4 n rest
    let d ← gs.mapM (fun g => match g with
      | [k, kind, a, b] =>
        if kind == "n" then some (k, (⟨none⟩ : InitSpec Float))
        else if kind == "s" then (parseF a).map fun x => (k, ⟨some (x, none)⟩)
        else do
          let a ← parseF a; let b ← parseF b
          some (k, ⟨some (a, some b)⟩)
      | _ => none)
    some (d, rest')
  | [] => none

def parseOp (ws : List String) : Option (Op Float) :=
  match ws with
  | ["ar", name, v, hi, tr] => do
    let v ← parseF v; let hi ← pB hi; let tr ← pB tr
    some (.addReal name v hi tr)
  | ["ac", name, pol, tr, v1, v2] => do
    let pol ← pOB pol; let tr ← pB tr; let v1 ← parseF v1; let v2 ← parseF v2
    some (.addComplex name pol tr v1 v2)
  | ["fix", name, v, unfix] => do
    let v ← pOF v; let unfix ← pB unfix
    some (.setFix name v unfix)
  | "same" :: cplx :: rest => do
    let cplx ← pB cplx
    let (ns, _) ← pNames rest
    some (.setSame ns cplx)
  | "share" :: rest => do
    let (ns, _) ← pNames rest
    some (.setShareR ns)
  | "bound" :: rest => do
    let (d, _) ← pBounds rest
    some (.setBound d)
  | ["rmb"] => some .removeBound
  | ["set", name, v, vif] => do
    let v ← parseF v; let vif ← pB vif
    some (.set name v vif)
  | "sad" :: vif :: rest => do
    let vif ← pB vif
    let (d, _) ← pDictF rest
    some (.setAllDict d vif)
  | "sal" :: vif :: rest => do
    let vif ← pB vif
    let (l, _) ← pFloats rest
    some (.setAllList l vif)
  | ["get", name, vif] => do
    let vif ← pB vif
    some (.get name vif)
  | ["gad", t] => do
    let t ← pB t
    some (.getAllDic t)
  | ["gav", vif] => do
    let vif ← pB vif
    some (.getAllVal vif)
  | "refresh" :: vxy :: vr :: vp :: u :: chi :: z :: hasI :: rest => do
    let vxy ← parseF vxy; let vr ← parseF vr; let vp ← parseF vp
    let u ← parseF u; let chi ← parseF chi; let z ← parseF z
    let (init, rest1) ← (if hasI == "N" then some (none, rest) else (pInit rest).map fun p => (some p.1, p.2))
    match rest1 with
    | hasB :: rest2 =>
      let (bd, _) ← (if hasB == "N" then some (none, rest2) else (pBounds rest2).map fun p => (some p.1, p.2))
      some (.refresh vxy vr vp u chi z init bd)
    | [] => none
  | ["rp2xy", c] => some (.rp2xy c)
  | ["xy2rp", c] => some (.xy2rp c)
  | ["rp2xyall"] => some .rp2xyAll
  | ["xy2rpall"] => some .xy2rpAll
  | ["std", c] => some (.stdPolar c)
  | ["stdall"] => some .stdPolarAll
  | ["stdc"] => some .standardComplex
  | ["trans", b] => do
    let b ← pB b
    some (.transParams b)
  | "stv" :: rest => do
    let (l, _) ← pFloats rest
    some (.setTransVar l)
  | "maskin" :: rest => do
    let (d, _) ← pDictF rest
    some (.maskEnter d)
  | ["maskout"] => some .maskExit
  | _ => none

-- canonical dump ----------------------------------------------------------------

def showOut : Out Float → String
  | .none => "-"
  | .err => "raise"
  | .val v => "v:" ++ showF v
  | .vals l => "l:" ++ ",".intercalate (l.map showF)
  | .dict d => "d:" ++ ",".intercalate (d.map fun kv => kv.1 ++ "=" ++ showF kv.2)
  | .names l => "n:" ++ ",".intercalate l

/-- partition of the names by the object they are bound to: class index in order of first occurrence -/
def partitionIdx (vars : Dict Nat) : List Nat :=
  let cells := vars.map (·.2)
  let firsts := cells.eraseDups
  cells.map fun c => firsts.idxOf c

def dump (s : State Float) (o : Out Float) : String :=
  "|".intercalate [
    ",".intercalate s.trainable,
    ",".intercalate (dkeys s.vars),
    ",".intercalate ((partitionIdx s.vars).map toString),
    ",".intercalate (s.vars.map fun kv => showF (s.heap kv.2).val),
    ",".intercalate (s.vars.map fun kv => showB (s.heap kv.2).trainable),
    ",".intercalate (s.cplx.map fun kv => kv.1 ++ "=" ++ showB kv.2),
    ";".intercalate (s.same.map fun g => ",".intercalate g),
    ",".intercalate (dkeys s.bnd),
    ",".intercalate (dkeys s.initVal),
    showB s.polar,
    showOut o]

def splitOps (ws : List String) : List (List String) :=
  let rec go (cur : List String) (acc : List (List String)) : List String → List (List String)
    | [] => (if cur.isEmpty then acc else cur.reverse :: acc).reverse
    | w :: rest => if w == ";" then go [] (cur.reverse :: acc) rest else go (w :: cur) acc rest
  go [] [] ws

def runDump (cfg : Cfg) (s : State Float) (ops : List (List String)) : Option (List String) :=
  match ops with
  | [] => some []
  | o :: rest => do
    let op ← parseOp o
    let (s1, out) := step arithF cfg s op
    let tl ← runDump cfg s1 rest
    some (dump s1 out :: tl)

def handle : List String → Option String
  | "hist" :: fs :: fa :: pol :: rest => do
    let fs ← pB fs; let fa ← pB fa; let pol ← pB pol
    let ds ← runDump ⟨fs, fa, false, false⟩ (State.empty 0.0 pol) (splitOps rest)
    some ("#".intercalate ds)
  -- the same with the two C08 repair flags of `Cfg` (`stdFree`, `boundHead`) as observed on the tree
  | "histv" :: fs :: fa :: sf :: bh :: pol :: rest => do
    let fs ← pB fs; let fa ← pB fa; let sf ← pB sf; let bh ← pB bh; let pol ← pB pol
    let ds ← runDump ⟨fs, fa, sf, bh⟩ (State.empty 0.0 pol) (splitOps rest)
    some ("#".intercalate ds)
  | ["bound", fn, lo, hi, x] => do
    let lo ← pOF lo; let hi ← pOF hi; let x ← parseF x
    let f ← (if fn == "x2y" then some TfPwaV.BoundF.x2y else if fn == "y2x" then some TfPwaV.BoundF.y2x
             else if fn == "dydx" then some TfPwaV.BoundF.dydx else if fn == "d2ydx2" then some TfPwaV.BoundF.d2ydx2 else none)
    some (showF (f lo hi x))
  | ["polar", "stdangle", p] => do
    let p ← parseF p
    some (showF (TfPwaV.PolarF.stdAngle p))
  | ["polar", "utils", fuel, rho, phi] => do
    let fuel ← fuel.toNat?; let rho ← parseF rho; let phi ← parseF phi
    some (showFs [TfPwaV.PolarF.utilsStdRho rho, TfPwaV.PolarF.utilsStdPhi fuel rho phi])
  | _ => none

end TfPwaV.VarsF
