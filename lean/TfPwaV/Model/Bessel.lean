/-!
Exact integer model of the reverse Bessel polynomials and of `|θ_L(i w)|²` (C15).

`tf_pwa.breit_wigner.reverse_bessel_polynomials`:  θ_n(x) = Σ_{k=0}^{n} (n+k)! / ((n-k)! k! 2^k) · x^(n-k)
`tf_pwa.breit_wigner.get_bprime_coeff(l)`:          |θ_l(i w)|² = Σ_i c_i w^(2i), returned highest power first.

Everything here is core Lean (Nat / Int / List), Mathlib-free, and evaluated by `decide +kernel`.
-/
namespace TfPwaV.Bessel

def fact : Nat → Nat
  | 0 => 1
  | n + 1 => (n + 1) * fact n

/-- denominator `(n-k)! k! 2^k` of the k-th term of θ_n -/
def revBesselDen (n k : Nat) : Nat := fact (n - k) * fact k * 2 ^ k

/-- coefficient of `x^(n-k)` in θ_n(x) (the division is exact, see `C15.revBessel_div_exact`) -/
def revBesselCoeff (n k : Nat) : Nat := fact (n + k) / revBesselDen n k

/-- θ_n as the list of its coefficients by ascending power of x (index j ↦ coefficient of x^j) -/
def theta (n : Nat) : List Int :=
  (List.range (n + 1)).map fun j => (revBesselCoeff n (n - j) : Int)

def polyAdd : List Int → List Int → List Int
  | [], b => b
  | a, [] => a
  | x :: a, y :: b => (x + y) :: polyAdd a b

def polyScale (c : Int) (a : List Int) : List Int := a.map (c * ·)

/-- product of polynomials given by ascending coefficient lists -/
def polyMul : List Int → List Int → List Int
  | [], _ => []
  | x :: a, b => polyAdd (polyScale x b) (0 :: polyMul a b)

/-- multiply by x^k -/
def polyShift (k : Nat) (a : List Int) : List Int := List.replicate k 0 ++ a

/-- second, independent definition through the three-term recurrence
θ_n(x) = (2n-1) θ_{n-1}(x) + x² θ_{n-2}(x),  θ_0 = 1, θ_1 = x + 1 -/
def thetaRec : Nat → List Int
  | 0 => [1]
  | 1 => [1, 1]
  | n + 2 => polyAdd (polyScale (2 * (n + 2 : Nat) - 1 : Int) (thetaRec (n + 1))) (polyShift 2 (thetaRec n))

/-- real part of i^j -/
def iPowRe (j : Nat) : Int := if j % 4 = 0 then 1 else if j % 4 = 2 then -1 else 0
/-- imaginary part of i^j -/
def iPowIm (j : Nat) : Int := if j % 4 = 1 then 1 else if j % 4 = 3 then -1 else 0

def mapIdx (f : Nat → Int → Int) (a : List Int) : List Int :=
  (List.range a.length).map fun j => f j (a.getD j 0)

/-- coefficients (ascending in w) of Re θ_n(i w) and Im θ_n(i w) -/
def thetaIwRe (n : Nat) : List Int := mapIdx (fun j c => iPowRe j * c) (theta n)
def thetaIwIm (n : Nat) : List Int := mapIdx (fun j c => iPowIm j * c) (theta n)

/-- `|θ_n(i w)|² = Re² + Im²` as a polynomial in w (ascending, length 2n+1) -/
def thetaAbsSqFull (n : Nat) : List Int :=
  polyAdd (polyMul (thetaIwRe n) (thetaIwRe n)) (polyMul (thetaIwIm n) (thetaIwIm n))

/-- coefficients of w^(2n), w^(2n-2), …, w^0 (the order `get_bprime_coeff` returns) -/
def thetaAbsSq (n : Nat) : List Int :=
  (List.range (n + 1)).map fun i => (thetaAbsSqFull n).getD (2 * n - 2 * i) 0

/-- coefficients of the odd powers w^1, w^3, … (must all vanish) -/
def thetaAbsSqOdd (n : Nat) : List Int :=
  (List.range n).map fun i => (thetaAbsSqFull n).getD (2 * i + 1) 0

def showInts (l : List Int) : String := " ".intercalate (l.map toString)

def handle : List String → Option String
  | ["thetaAbsSq", n] => do let n ← n.toNat?; some (showInts (thetaAbsSq n))
  | ["theta", n] => do let n ← n.toNat?; some (showInts (theta n))
  | _ => none

end TfPwaV.Bessel
