/-
Model of the structured-event-data helpers of `tf_pwa/data.py` (C18).

Data trees.  Python data are nested `dict` / `list` / `tuple` containers whose leaves are arrays with a
leading event axis.  A leaf is modelled as the list of its rows (`α` = one row, i.e. the flattened
inner part of one event); containers are `node kind children` with `(key, child)` pairs -- for `list`
and `tuple` the key is ignored (written "-").  A Python `dict` has no repeated key: `WF`.

Generators.  `_gen(dat)` of `data_generator` is a *finite* generator in every branch
(`range(MAX_ITER)`, `zip`, `fun`), so it is modelled by the list of the values it yields:

    def _gen(dat):
        if isinstance(dat, dict):
            if not dat:
                for i in range(MAX_ITER): yield {}
            ks, vs = [], []
            for k, v in dat.items(): ks.append(k); vs.append(_gen(v))
            for s_data in zip(*vs): yield type(dat)(zip(ks, s_data))
        elif isinstance(dat, list):       # same with [] / list(s_data)
        elif isinstance(dat, tuple):      # same WITHOUT the MAX_ITER branch: zip() of nothing yields nothing
        else:
            for i in fun(dat, *args, **kwargs): yield i      # fun = _data_split

`zipAll` is `zip(*vs)` (stops at the shortest, yields nothing for no argument), `chunks` is
`_data_split(dat, batch_size, axis=0)`.

`genF` models the generator after `fix_data_generator_empty.diff` (containers without any array are
repeated as often as their siblings need; only a tree without any array is cut at MAX_ITER).  The
harness observes which of the two the working tree implements and compares with that one.
-/
namespace TfPwaV.Data

def MAX_ITER : Nat := 1000

inductive Kind where
  | dict | list | tuple
  deriving DecidableEq, Repr

inductive D (α : Type) where
  | leaf (rows : List α)
  | node (k : Kind) (ch : List (String × D α))

variable {α β : Type}

/-- `range(0, n, b)` has `ceil(n/b)` elements (b > 0). -/
def nChunks (b n : Nat) : Nat := (n + b - 1) / b

/-- `_data_split(dat, b)`: `for i in range(0, n, b): yield dat[i : min(i+b, n)]` -/
def chunks (b : Nat) (rows : List α) : List (List α) :=
  (List.range (nChunks b rows.length)).map fun j =>
    (rows.take (min (j * b + b) rows.length)).drop (j * b)

/-- `zip(*vs)` : tuples of the j-th elements, stops at the shortest, nothing for no argument -/
def zipAll : List (List β) → List (List β)
  | [] => []
  | l :: ls => match ls with
    | [] => l.map fun x => [x]
    | _ :: _ => List.zipWith List.cons l (zipAll ls)

mutual
/-- `_gen(dat)` of `data_generator(data, _data_split, (b,))` as the list of yielded values. -/
def gen (b : Nat) : D α → List (D α)
  | .leaf rows => (chunks b rows).map .leaf
  | .node k ch =>
    (if ch.isEmpty && k != .tuple then List.replicate MAX_ITER (.node k []) else []) ++
    (zipAll (genCh b ch)).map fun s => .node k ((ch.map (·.1)).zip s)
def genCh (b : Nat) : List (String × D α) → List (List (D α))
  | [] => []
  | (_, v) :: rest => gen b v :: genCh b rest
end

/-- `data_split(data, b)` (all yielded batches). -/
def split (b : Nat) (d : D α) : List (D α) := gen b d

-- data_merge -----------------------------------------------------------------

def asLeaf : D α → Option (List α)
  | .leaf r => some r
  | _ => none

def asNode (k : Kind) : D α → Option (List (String × D α))
  | .node k' ch => if k = k' then some ch else none
  | _ => none

def lookup (key : String) : List (String × D α) → Option (D α)
  | [] => none
  | (k, v) :: rest => if k = key then some v else lookup key rest

mutual
/-- `data_merge(p, *ps)`; `none` = the Python code raises (assert "not all type same", tf.concat of
    a non-array). dict: keys of the intersection (order: first piece; Python: `set` order),
    list/tuple: `zip(*data)` position-wise. -/
def merge1 : D α → List (D α) → Option (D α)
  | .leaf r, ps => (ps.mapM asLeaf).map fun rs => .leaf (r ++ rs.flatten)
  | .node k ch, ps =>
    match ps.mapM (asNode k) with
    | none => none
    | some cs =>
      match k with
      | .dict => (mergeKV ch cs).map (.node k)
      | _ => (mergeL ch cs).map (.node k)
def mergeKV : List (String × D α) → List (List (String × D α)) → Option (List (String × D α))
  | [], _ => some []
  | (k, v) :: kvs, cs =>
    if cs.all (fun c => (lookup k c).isSome) then
      match merge1 v (cs.filterMap (lookup k)), mergeKV kvs cs with
      | some m, some r => some ((k, m) :: r)
      | _, _ => none
    else mergeKV kvs cs
def mergeL : List (String × D α) → List (List (String × D α)) → Option (List (String × D α))
  | [], _ => some []
  | (k, x) :: xs, cs =>
    if cs.all (fun c => !c.isEmpty) then
      match merge1 x (cs.filterMap (fun c => c.head?.map (·.2))), mergeL xs (cs.map List.tail) with
      | some m, some r => some ((k, m) :: r)
      | _, _ => none
    else some []
end

/-- `data_merge(*pieces)`; `assert len(data) > 0`. -/
def merge : List (D α) → Option (D α)
  | [] => none
  | p :: ps => merge1 p ps

-- data_map on the leaves ------------------------------------------------------

mutual
def mapLeaves (f : List α → List β) : D α → D β
  | .leaf r => .leaf (f r)
  | .node k ch => .node k (mapLeavesCh f ch)
def mapLeavesCh (f : List α → List β) : List (String × D α) → List (String × D β)
  | [] => []
  | (k, v) :: rest => (k, mapLeaves f v) :: mapLeavesCh f rest
end

/-- `tf.boolean_mask(rows, sel)` (requires `len(sel) == len(rows)`) -/
def maskRows (sel : List Bool) (rows : List α) : List α :=
  (rows.zip sel).filterMap fun p => if p.2 then some p.1 else none

mutual
/-- every leaf has `n` rows -/
def uniform (n : Nat) : D α → Bool
  | .leaf r => r.length == n
  | .node _ ch => uniformCh n ch
def uniformCh (n : Nat) : List (String × D α) → Bool
  | [] => true
  | (_, v) :: rest => uniform n v && uniformCh n rest
end

/-- `data_mask(data, select)`; `none`: tf.boolean_mask raises (a leaf whose leading size differs) -/
def mask (sel : List Bool) (d : D α) : Option (D α) :=
  if uniform sel.length d then some (mapLeaves (maskRows sel) d) else none

mutual
/-- `data_shape(data)`: leading size of the first leaf (depth-first); `none`: no leaf (IndexError). -/
def firstLen : D α → Option Nat
  | .leaf r => some r.length
  | .node _ ch => firstLenCh ch
def firstLenCh : List (String × D α) → Option Nat
  | [] => none
  | (_, v) :: rest => match firstLen v with
    | some n => some n
    | none => firstLenCh rest
end

-- data_index ------------------------------------------------------------------

/-- keys written "@name" stand for key *objects* whose `str()` is `name` (e.g. `BaseParticle`). -/
def strOf (k : String) : String := if k.startsWith "@" then (k.drop 1).toString else k

inductive Key where
  | pos (i : Nat)        -- Python int ≥ 0
  | name (s : String)

/-- `idx(data, i)` of `data_index` (`none` = raises / returns None with no_raise). -/
def idx1 (d : D α) : Key → Option (D α)
  | .pos i => match d with
    | .node .dict _ => none          -- int key on a dict: KeyError (our dict keys are never ints)
    | .node _ ch => ch[i]?.map (·.2)
    | .leaf _ => none                 -- not modelled (array indexing)
  | .name s => match d with
    | .node .dict ch =>
      match lookup s ch with
      | some v => some v
      | none => (ch.find? fun p => strOf p.1 == strOf s).map (·.2)
    | _ => none                        -- assert isinstance(data, dict)

/-- `data_index(data, keys)`, keys a non-empty list. -/
def index (d : D α) : List Key → Option (D α)
  | [] => none
  | [k] => idx1 d k
  | k :: ks => match idx1 d k with
    | some v => index v ks
    | none => none

-- batch_call ------------------------------------------------------------------

/-- `batch_call(f, data, b)` for a structure-returning `f` (never `None`/scalar). -/
def batchCall (f : D α → D β) (b : Nat) (d : D α) : Option (D β) :=
  merge ((split b d).map f)

/-- `batch_call` for `f` returning the Python float `c`: `c * ones(data_shape(piece))` per piece. -/
def batchCallScalar (c : β) (b : Nat) (d : D α) : Option (D β) :=
  match (split b d).mapM (fun p => (firstLen p).map fun n => D.leaf (List.replicate n c)) with
  | some ps => merge ps
  | none => none

-- LazyCall --------------------------------------------------------------------

/-- `{**a, **j}` / `ret[k] = v` : existing keys keep their place, new keys are appended -/
def dictSet (kv : List (String × D α)) (k : String) (v : D α) : List (String × D α) :=
  if (lookup k kv).isSome then kv.map fun p => if p.1 = k then (p.1, v) else p
  else kv ++ [(k, v)]

def dictUpdate (a j : List (String × D α)) : List (String × D α) :=
  j.foldl (fun acc p => dictSet acc p.1 p.2) a

def updateD (a j : D α) : Option (D α) :=
  match a, j with
  | .node .dict x, .node .dict y => some (.node .dict (dictUpdate x y))
  | _, _ => none

/-- `LazyCall.__iter__` (plain `f`, plain `x`): `zip(split(x), split(extra))`, `{**f(i), **j}` -/
def lazyIter (f : D α → D β) (x : D α) (extra : D β) (b : Nat) : Option (List (D β)) :=
  (List.zipWith (fun i j => updateD (f i) j) (split b x) (split b extra)).mapM id

/-- `ret[k] = v` (TypeError on list / tuple / array results) -/
def setItem (d : D α) (k : String) (v : D α) : Option (D α) :=
  match d with
  | .node .dict kv => some (.node .dict (dictSet kv k v))
  | _ => none

/-- `LazyCall.eval`: `ret = f(x); for k, v in extra.items(): ret[k] = v` (`extra` is a dict) -/
def lazyEval (f : D α → D β) (x : D α) (extra : D β) : Option (D β) :=
  match extra with
  | .node .dict ex => ex.foldlM (fun acc p => setItem acc p.1 p.2) (f x)
  | _ => none

-- load_dat_file / savetxt --------------------------------------------------------

/-- `data.reshape((-1, size, 4))` on rows: `none` when numpy raises (size = 0 with rows, or remainder) -/
def reshape (size : Nat) (rows : List α) : Option (List (List α)) :=
  if size = 0 then none
  else if rows.length % size ≠ 0 then none
  else some ((List.range (rows.length / size)).map fun e => (rows.drop (e * size)).take size)

/-- first axis of `x.transpose((1,0,2))` for `x` of shape (N, size, 4): `size` arrays of N rows -/
def transposeN : Nat → List (List α) → List (List α)
  | 0, _ => []
  | n + 1, m => m.filterMap List.head? :: transposeN n (m.map List.tail)

/-- `load_dat_file(fnames, particles, split, order)` with `n = len(particles)`; result: the arrays in
    the order in which they are assigned to `particles[idx]`, `none` when the code raises.
    `swap = true` is `order = (1,0,2)` (default), `false` is `order = (0,1,2)`. -/
def loadDat (n : Nat) (files : List (List α)) (splt : Option (List Nat)) (swap : Bool) :
    Option (List (List α)) :=
  let sizes := files.map List.length
  let splt? : Option (List Nat) := match splt with
    | some s => some s
    | none =>
      let nTotal := sizes.foldl (· + ·) 0
      if n = 0 then none                       -- ZeroDivisionError in n_total % n
      else if nTotal % n ≠ 0 then none          -- ValueError("number of data find ...")
      else
        let nData := nTotal / n
        if nData = 0 then none                  -- ZeroDivisionError in size // n_data
        else some (sizes.map (· / nData))
  match splt? with
  | none => none
  | some sp =>
    match (List.zipWith (fun size data => (reshape size data).map fun x =>
            if swap then transposeN size x else x) sp files).mapM id with
    | none => none
    | some parts =>
      let all := parts.flatten
      if all.length > n then none               -- particles[idx] IndexError
      else some all

/-- `np.stack(pi).transpose((1,0,2)).reshape((-1,4))` of `savetxt` (all `pi` of equal length) -/
def saveTxt (ps : List (List α)) : List α :=
  (transposeN (ps.head?.map List.length |>.getD 0) ps).flatten

-- the generator after fix_data_generator_empty.diff -----------------------------------
/-
    def _no_array(dat):
        if isinstance(dat, dict): return all(_no_array(v) for v in dat.values())
        if isinstance(dat, (list, tuple)): return all(_no_array(v) for v in dat)
        return False
    def _gen(dat):
        if _no_array(dat):
            while True: yield data_map(dat, lambda x: x)
        elif isinstance(dat, dict): ... zip(*vs) ...      (no MAX_ITER branch any more)
    if _no_array(data): return itertools.islice(_gen(data), MAX_ITER)
    return _gen(data)
A generator is now either finite (`fin`, the list of its values) or repeats one value for ever (`rep`).
-/
inductive Strm (β : Type) where
  | fin (l : List β)
  | rep (v : β)

def Strm.map {β γ : Type} (f : β → γ) : Strm β → Strm γ
  | .fin l => .fin (l.map f)
  | .rep v => .rep (f v)

/-- `zip(a, b)` of two generators, as `zip(a, *rest)` is built -/
def zipCons : Strm β → Strm (List β) → Strm (List β)
  | .fin l, .fin m => .fin (List.zipWith List.cons l m)
  | .fin l, .rep t => .fin (l.map (· :: t))
  | .rep v, .fin m => .fin (m.map (v :: ·))
  | .rep v, .rep t => .rep (v :: t)

def zipAllS : List (Strm β) → Strm (List β)
  | [] => .fin []
  | s :: ss => match ss with
    | [] => s.map fun x => [x]
    | _ :: _ => zipCons s (zipAllS ss)

mutual
def noArray : D α → Bool
  | .leaf _ => false
  | .node _ ch => noArrayCh ch
def noArrayCh : List (String × D α) → Bool
  | [] => true
  | (_, v) :: rest => noArray v && noArrayCh rest
end

mutual
def genF (b : Nat) : D α → Strm (D α)
  | .leaf rows => .fin ((chunks b rows).map .leaf)
  | .node k ch =>
    if noArrayCh ch then .rep (.node k ch)
    else (zipAllS (genFCh b ch)).map fun s => .node k ((ch.map (·.1)).zip s)
def genFCh (b : Nat) : List (String × D α) → List (Strm (D α))
  | [] => []
  | (_, v) :: rest => genF b v :: genFCh b rest
end

/-- `data_split` after the fix: a tree without arrays is cut at MAX_ITER -/
def splitF (b : Nat) (d : D α) : List (D α) :=
  match genF b d with
  | .fin l => l
  | .rep v => List.replicate MAX_ITER v

/-- the working tree's `data_split`: `fixed` is observed by the harness -/
def splitV (fixed : Bool) (b : Nat) (d : D α) : List (D α) := if fixed then splitF b d else split b d

def batchCallV (fixed : Bool) (f : D α → D β) (b : Nat) (d : D α) : Option (D β) :=
  merge ((splitV fixed b d).map f)

def batchCallScalarV (fixed : Bool) (c : β) (b : Nat) (d : D α) : Option (D β) :=
  match (splitV fixed b d).mapM (fun p => (firstLen p).map fun n => D.leaf (List.replicate n c)) with
  | some ps => merge ps
  | none => none

/-- `LazyCall._split_extra` (after the fix) while `k` batches of `x` are consumed:
    `itertools.repeat(extra)` when `extra` holds no array (`len(data_shape(extra, all_list=True)) == 0`),
    else `split_generator(extra, batch_size)` -/
def splitExtraF (b k : Nat) (extra : D β) : List (D β) :=
  if noArray extra then List.replicate k extra else splitF b extra

/-- `for i, j in zip(xs, self._split_extra()): yield {**f(i), **j}` -- the loop shared by the second branch
    (`xs` = batches yielded by an inner LazyCall) and the third branch (`xs = split_generator(x)`) -/
def lazyIterOverF (f : D α → D β) (xs : List (D α)) (extra : D β) (b : Nat) : Option (List (D β)) :=
  (List.zipWith (fun i j => updateD (f i) j) xs (splitExtraF b xs.length extra)).mapM id

/-- `LazyCall.__iter__` after the fix, plain `x` -/
def lazyIterF (f : D α → D β) (x : D α) (extra : D β) (b : Nat) : Option (List (D β)) :=
  lazyIterOverF f (splitF b x) extra b

/-- `LazyCall(g, LazyCall(f, x))`: `__iter__` of the outer object iterates the inner one -/
def lazyIterNestedF {γ : Type} (g : D β → D γ) (f : D α → D β) (x : D α) (e1 : D β) (e2 : D γ) (b : Nat) :
    Option (List (D γ)) :=
  (lazyIterF f x e1 b).bind fun xs => lazyIterOverF g xs e2 b

/-- `LazyCall(g, LazyCall(f, x)).eval()` -/
def lazyEvalNested {γ : Type} (g : D β → D γ) (f : D α → D β) (x : D α) (e1 : D β) (e2 : D γ) : Option (D γ) :=
  (lazyEval f x e1).bind fun v => lazyEval g v e2

-- line protocol -----------------------------------------------------------------

abbrev Row := List Int

partial def parseTree : List String → Option (D Row × List String)
  | "L" :: n :: w :: rest => do
    let n ← n.toNat?
    let w ← w.toNat?
    let rec rows (i : Nat) (ws : List String) (acc : List Row) : Option (List Row × List String) :=
      if i = 0 then some (acc.reverse, ws) else do
        let r ← (ws.take w).mapM String.toInt?
        if r.length ≠ w then none else rows (i - 1) (ws.drop w) (r :: acc)
    let (rs, rest) ← rows n rest []
    some (.leaf rs, rest)
  | kind :: c :: rest => do
    let k ← match kind with
      | "D" => some Kind.dict | "S" => some Kind.list | "T" => some Kind.tuple | _ => none
    let c ← c.toNat?
    let rec kids (i : Nat) (ws : List String) (acc : List (String × D Row)) :
        Option (List (String × D Row) × List String) :=
      if i = 0 then some (acc.reverse, ws) else
        match ws with
        | key :: ws => do
          let (t, ws) ← parseTree ws
          kids (i - 1) ws ((key, t) :: acc)
        | [] => none
    let (ch, rest) ← kids c rest []
    some (.node k ch, rest)
  | _ => none

partial def parseTrees (n : Nat) (ws : List String) : Option (List (D Row) × List String) :=
  if n = 0 then some ([], ws) else do
    let (t, ws) ← parseTree ws
    let (ts, ws) ← parseTrees (n - 1) ws
    some (t :: ts, ws)

def keyLe (a b : String × D Row) : Bool := compare a.1 b.1 != .gt

/-- canonical text of a tree; `sorted`: dict entries by key (for results whose key order comes out of a Python `set`) -/
partial def showTree (sorted : Bool) : D Row → String
  | .leaf rs =>
    let w := match rs with | [] => 0 | r :: _ => r.length
    " ".intercalate (["L", toString rs.length, toString w] ++ (rs.flatten.map toString))
  | .node k ch =>
    let tag := match k with | .dict => "D" | .list => "S" | .tuple => "T"
    let ch := if sorted && k == .dict then ch.mergeSort keyLe else ch
    " ".intercalate ([tag, toString ch.length] ++ ch.map fun p => p.1 ++ " " ++ showTree sorted p.2)

def showOpt (sorted : Bool) : Option (D Row) → String
  | some t => "ok " ++ showTree sorted t
  | none => "none"

def showList (ts : List (D Row)) : String :=
  "ok " ++ toString ts.length ++ " ; " ++ " ; ".intercalate (ts.map (showTree false))

/-- event-wise test functions shared with the harness: `fid` selects the shape of the result -/
def affine (a c : Int) (rows : List Row) : List Row := rows.map fun r => r.map fun x => a * x + c

def testF (fid : Nat) (d : D Row) : D Row :=
  match fid with
  | 0 => d
  | 1 => .node .dict [("y", mapLeaves (affine 2 1) d), ("e", .node .list [])]
  | 2 => .node .tuple [("-", mapLeaves (affine (-1) 0) d), ("-", .node .dict [("k", d)])]
  | _ => .node .dict [("y", mapLeaves (affine 3 (-2)) d)]

def parseKey (s : String) : Key :=
  if s.startsWith "#" then .pos ((s.drop 1).toString.toNat?.getD 0) else .name s

def handle : List String → Option String
  | "split" :: v :: b :: rest => do
    let (t, _) ← parseTree rest
    some (showList (splitV (v == "1") (← b.toNat?) t))
  | "msplit" :: v :: b :: rest => do
    let (t, _) ← parseTree rest
    some (showOpt true (merge (splitV (v == "1") (← b.toNat?) t)))
  | "merge" :: k :: rest => do
    let (ts, _) ← parseTrees (← k.toNat?) rest
    some (showOpt true (merge ts))
  | "mask" :: bits :: rest => do
    let (t, _) ← parseTree rest
    some (showOpt false (mask (bits.toList.map (· == '1')) t))
  | "index" :: nk :: rest => do
    let nk ← nk.toNat?
    let (t, _) ← parseTree (rest.drop nk)
    some (showOpt false (index t ((rest.take nk).map parseKey)))
  | "bcall" :: v :: fid :: b :: rest => do
    let (t, _) ← parseTree rest
    some (showOpt true (batchCallV (v == "1") (testF (← fid.toNat?)) (← b.toNat?) t))
  | "bscalar" :: v :: c :: b :: rest => do
    let (t, _) ← parseTree rest
    some (showOpt true (batchCallScalarV (v == "1") [← c.toInt?] (← b.toNat?) t))
  | "lazyiter" :: v :: fid :: b :: rest => do
    let (x, rest) ← parseTree rest
    let (e, _) ← parseTree rest
    let fid ← fid.toNat?
    let b ← b.toNat?
    match (if v == "1" then lazyIterF (testF fid) x e b else lazyIter (testF fid) x e b) with
    | some ps => some (showOpt true (merge ps))
    | none => some "none"
  | "lazynest" :: gid :: fid :: b :: rest => do
    let (x, rest) ← parseTree rest
    let (e1, rest) ← parseTree rest
    let (e2, _) ← parseTree rest
    let gid ← gid.toNat?
    let fid ← fid.toNat?
    let b ← b.toNat?
    match lazyIterNestedF (testF gid) (testF fid) x e1 e2 b with
    | some ps => some (showOpt true (merge ps) ++ " | " ++ showOpt true (lazyEvalNested (testF gid) (testF fid) x e1 e2))
    | none => some ("none | " ++ showOpt true (lazyEvalNested (testF gid) (testF fid) x e1 e2))
  | "lazyeval" :: fid :: rest => do
    let (x, rest) ← parseTree rest
    let (e, _) ← parseTree rest
    some (showOpt true (lazyEval (testF (← fid.toNat?)) x e))
  | "load" :: n :: swap :: sp :: nf :: rest => do
    let (fs, _) ← parseTrees (← nf.toNat?) rest
    let files ← fs.mapM asLeaf
    let sp : Option (List Nat) ← if sp == "-" then some none else (sp.splitOn ",").mapM String.toNat? |>.map some
    match loadDat (← n.toNat?) files sp (swap == "1") with
    | some ps => some (showList (ps.map .leaf))
    | none => some "none"
  | "save" :: k :: rest => do
    let (ts, _) ← parseTrees (← k.toNat?) rest
    let ps ← ts.mapM asLeaf
    some (showTree false (.leaf (saveTxt ps)))
  | _ => none

end TfPwaV.Data
