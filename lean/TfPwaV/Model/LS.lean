/-
Model of `tf_pwa.particle.GetA2BC_LS_list` (C13) on doubled spins.

Python (particle.py:207-248):
    if pa is None or pb is None or pc is None: p_break = True
    if not p_break: dl = 0 if pa*pb*pc == 1 else 1
    for s in _spin_range(|jb-jc|, jb+jc):
        for l in _spin_range(|ja-s|, ja+s):
            if l is half-integer: break
            if ca is not None and ca != (-1)**(l+s): continue
            if not p_break: (append if l % 2 == dl) else append

All spins are carried doubled (`ja2 = 2*ja` ...) so that half-integers are exact;
the orbital momentum `l` is returned undoubled, the spin `s` doubled.
For half-integer `s`, Python's `(-1)**(l+s)` is a complex number, never equal to
`ca = ±1`, hence the entry is skipped (modelled by `caOk = false`).
-/
namespace TfPwaV.LS

def absDiff (a b : Nat) : Nat := if a ≤ b then b - a else a - b

/-- `_spin_range(a/2, b/2)` on doubled values: a, a+2, …, ≤ b. -/
def spinRange (a b : Nat) : List Nat :=
  (List.range ((b + 2 - a) / 2)).map (fun i => a + 2 * i)

/-- (-1)^n as an Int -/
def negOnePow (n : Nat) : Int := if n % 2 = 0 then 1 else -1

def caOk (ca : Option Int) (l s2 : Nat) : Bool :=
  match ca with
  | none => true
  | some c => if s2 % 2 = 1 then false else c == negOnePow (l + s2 / 2)

def effBreak (pa pb pc : Option Int) (pBreak : Bool) : Bool :=
  pBreak || pa.isNone || pb.isNone || pc.isNone

def dlOf (pa pb pc : Option Int) : Nat :=
  if (pa.getD 1) * (pb.getD 1) * (pc.getD 1) = 1 then 0 else 1

def pOk (pa pb pc : Option Int) (pBreak : Bool) (l : Nat) : Bool :=
  effBreak pa pb pc pBreak || l % 2 == dlOf pa pb pc

def lsInner (ja : Nat) (pa pb pc : Option Int) (pBreak : Bool) (ca : Option Int) (s2 : Nat) :
    List (Nat × Nat) :=
  if (ja + s2) % 2 = 1 then []   -- every l in the range is half-integer: `break` at once
  else (spinRange (absDiff ja s2) (ja + s2)).filterMap fun l2 =>
    let l := l2 / 2
    if caOk ca l s2 && pOk pa pb pc pBreak l then some (l, s2) else none

/-- `GetA2BC_LS_list(ja2/2, jb2/2, jc2/2, pa, pb, pc, p_break, ca)` as pairs `(l, 2s)`. -/
def lsList (ja jb jc : Nat) (pa pb pc : Option Int) (pBreak : Bool) (ca : Option Int) :
    List (Nat × Nat) :=
  (spinRange (absDiff jb jc) (jb + jc)).flatMap (lsInner ja pa pb pc pBreak ca)

/-- `l_list` restriction of `HelicityDecay.get_ls_list` (amp/core.py): keep entries with l in the list -/
def filterL (ls : List (Nat × Nat)) (lList : List Nat) : List (Nat × Nat) :=
  ls.filter fun p => lList.contains p.1

/-- `ls_list` restriction: keep entries listed by the user (order of the selection rule list kept) -/
def filterLS (ls : List (Nat × Nat)) (sel : List (Nat × Nat)) : List (Nat × Nat) :=
  ls.filter fun p => sel.contains p

/-- helicity values -j..j doubled, as offsets: λ2 = 2*i - j2 for i in 0..j2 -/
def helCount (ja jb jc : Nat) : Nat :=
  ((List.range (jb + 1)).flatMap fun (ib : Nat) => (List.range (jc + 1)).filter fun (ic : Nat) =>
    -- λb2 - λc2 = (2 ib - jb) - (2 ic - jc); |·| ≤ ja
    let x : Int := (2 * (ib : Int) - (jb : Int)) - (2 * (ic : Int) - (jc : Int))
    decide (x ≤ (ja : Int) ∧ -(ja : Int) ≤ x)).length

/-- number of independent helicity couplings when parity is conserved:
    pairs (λb,λc) ~ (-λb,-λc) with H(-λ) = η H(λ); the fixed point (0,0) exists iff both spins are
    integer and survives iff η = +1, η = pa pb pc (-1)^(ja-jb-jc). -/
def helCountParity (ja jb jc : Nat) (eta : Int) : Nat :=
  let n := helCount ja jb jc
  let z := if jb % 2 = 0 ∧ jc % 2 = 0 then 1 else 0
  (n - z) / 2 + (if eta = 1 then z else 0)

/-- η for doubled spins (defined when ja+jb+jc is even). -/
def etaOf (ja jb jc : Nat) (p : Int) : Int :=
  p * negOnePow ((ja + jb + jc) / 2 + jb + jc)

-- line protocol -------------------------------------------------------------

def parseOptInt (s : String) : Option Int :=
  if s == "N" then none else s.toInt?

def showList (l : List (Nat × Nat)) : String :=
  " ".intercalate (l.map fun p => s!"{p.1},{p.2}")

def handle : List String → Option String
  | ["ls", ja, jb, jc, pa, pb, pc, pbk, ca] =>
    match ja.toNat?, jb.toNat?, jc.toNat? with
    | some ja, some jb, some jc =>
      some (showList (lsList ja jb jc (parseOptInt pa) (parseOptInt pb) (parseOptInt pc) (pbk == "1") (parseOptInt ca)))
    | _, _, _ => none
  | _ => none

end TfPwaV.LS
