import TfPwaV.Model.DataY
/-
Fourth part of the model of `tf_pwa/data.py` (C18, round 6).  Nothing of `Model/Data*.lean` is changed; mirrored here, as the
code is:

    iter(data_merge(L0, L1, ...).as_dataset(b))            mergedIter                  (DataX.Lazy.merge + Lazy.iter)
    data_split(data_merge(L0.eval(), L1.eval(), ...), b)   eagerSplit
    save_data(file, obj) = np.save(file, obj)              saveData     (np.asanyarray: dict -> 0-d object array, array -> itself)
    save_dataz(file, obj) = np.savez(file, obj)            saveDataz    (one entry "arr_0")
    load_data(file)                                        loadData     (the try / except IndexError / except ValueError chain)
    np.savez(file, **flatten_dict_data(d)); np.load(file)  saveFlat / npzFiles / npzGet   (the flat npz read back by key, as
                                                                                        NpzData.load_data does: npz[str(k)])
    LazyCall(HeavyCall(g), LazyFile(x)).__iter__           lazyFileHeavyIter           (first branch of __iter__: `{**i, **j}` over
                                                                                        from_generator(data_split(x, b)).map(g))
    LazyCall.as_dataset: cache file name                   cacheName / Store / readThrough / readAll
-/
namespace TfPwaV.DataZ
open TfPwaV.Data TfPwaV.DataX TfPwaV.DataY

variable {α β γ : Type}

-- §1 iteration after merge -----------------------------------------------------------------------------

/-- `[p for p in data_merge(L, *others).as_dataset(b)]` -/
def mergedIter (f : D α → D β) (L : Lazy α β) (others : List (Lazy α β)) (b : Nat) : Option (List (D β)) :=
  (L.merge others).bind fun M => (M.asDataset b).iter f

/-- `list(data_split(data_merge(L.eval(), *[o.eval() for o in others]), b))` (fixed generator) -/
def eagerSplit (f : D α → D β) (L : Lazy α β) (others : List (Lazy α β)) (b : Nat) : Option (List (D β)) :=
  (eagerMerge f L others).map (splitF b)

-- §2 save_data / save_dataz / load_data ------------------------------------------------------------------

/-- what `np.asanyarray(obj)` is for the objects of the model: a dict becomes a 0-d object array holding the (pickled)
    dict, an array stays an array -/
inductive NpVal (α : Type) where
  | obj0 (d : D α)
  | arr (rows : List α)

/-- a file written by `np.save` (one array) or `np.savez` (named entries in the order of writing) -/
inductive NpFile (α : Type) where
  | npy (v : NpVal α)
  | npz (entries : List (String × NpVal α))

/-- the value `load_data` returns: a structure / array, or the Python scalar `arr.item()` of a one-element array -/
inductive Loaded (α : Type) where
  | tree (d : D α)
  | scalar (x : α)

/-- `np.asanyarray(obj)`; `none`: a list / tuple at top level is stacked into ONE array or raises (inhomogeneous shapes) --
    outside the model -/
def toNp : D α → Option (NpVal α)
  | .leaf r => some (.arr r)
  | .node .dict ch => some (.obj0 (.node .dict ch))
  | .node _ _ => none

/-- `save_data(file, obj)` -/
def saveData (d : D α) : Option (NpFile α) := (toNp d).map .npy

/-- `save_dataz(file, obj)` = `np.savez(file, obj)`: one positional array, stored as "arr_0" -/
def saveDataz (d : D α) : Option (NpFile α) := (toNp d).map fun v => .npz [("arr_0", v)]

/-- `v.item()`: the object of a 0-d object array, the scalar of a one-element numeric array (`one r`: the row `r` holds one
    number), `none` = ValueError -/
def item (one : α → Bool) : NpVal α → Option (Loaded α)
  | .obj0 d => some (.tree d)
  | .arr [r] => if one r then some (.scalar r) else none
  | .arr _ => none

def unwrap : NpVal α → Loaded α
  | .obj0 d => .tree d          -- (an object array is returned as it is; only reached through `item` in the model)
  | .arr r => .tree (.leaf r)

/-- `load_data(file)`:
        data = np.load(file, allow_pickle=True)
        try: return data["arr_0"].item()
        except IndexError:                      # an ndarray indexed by a str
            try: return data.item()
            except ValueError: return data      # more than one element
    For an npz file `data["arr_0"]` is the entry (KeyError when absent) and a ValueError of its `.item()` is NOT caught. -/
def loadData (one : α → Bool) : NpFile α → Option (Loaded α)
  | .npy v => match item one v with
    | some r => some r
    | none => some (unwrap v)
  | .npz es => match lookupP "arr_0" es with
    | none => none
    | some v => item one v

/-- `load_data` after `fix_load_data_bare_array.diff`: the entry "arr_0" of an npz file or the array of an npy file; a 0-d
    object array gives its object, every numeric array is returned as it is (also with one element) -/
def loadDataFixed : NpFile α → Option (Loaded α)
  | .npy v => some (unwrap v)
  | .npz es => (lookupP "arr_0" es).map unwrap

/-- the working tree's `load_data`: `fixed` is observed by the harness -/
def loadDataV (fixed : Bool) (one : α → Bool) (file : NpFile α) : Option (Loaded α) :=
  if fixed then loadDataFixed file else loadData one file

/-- `np.savez(file, **flatten_dict_data(d))`: one entry per flat key, in the order of the flat dict -/
def saveFlat (d : D α) : NpFile α := .npz ((flatten d).map fun p => (p.1, .arr p.2))

/-- `np.load(file).files` -/
def npzFiles : NpFile α → List String
  | .npz es => es.map (·.1)
  | .npy _ => []

/-- `np.load(file)[key]` for a numeric entry (`none`: KeyError) -/
def npzGet (key : String) : NpFile α → Option (List α)
  | .npz es => match lookupP key es with
    | some (.arr r) => some r
    | _ => none
  | .npy _ => none

/-- a path element as the key `flatten_dict_data` sees: a dict key, or the position `#i` in a list / tuple -/
def rawKey : Key → String
  | .pos i => "#" ++ toString i
  | .name s => s

/-- the flat key of the array reached from the child stored under `key` by `path`: `flatten_dict_data` assigns
    `ret[i] = tmp` for an array and `ret["{}/{}".format(i, j)] = tmp_j` for the items of a flattened container, so the key
    is built from the inside out, every level applying `str()` -/
def flatKeyFrom (key : String) : List Key → String
  | [] => key
  | q :: qs => strKey key ++ "/" ++ strKey (flatKeyFrom (rawKey q) qs)

/-- the flat key of a non-empty path -/
def flatKey : List Key → String
  | [] => ""
  | q :: qs => flatKeyFrom (rawKey q) qs

/-- exact addressing, one level: a dict by its key (no `str()` fallback), a list / tuple by position -/
def stepExact (d : D α) : Key → Option (D α)
  | .name s => match d with
    | .node .dict ch => lookup s ch
    | _ => none
  | .pos i => match d with
    | .node .dict _ => none
    | .node _ ch => ch[i]?.map (·.2)
    | .leaf _ => none

/-- the array addressed by a key path -/
def indexExact (d : D α) : List Key → Option (List α)
  | [] => asLeaf d
  | q :: qs => (stepExact d q).bind fun v => indexExact v qs

-- §3 LazyFile under a HeavyCall ------------------------------------------------------------------------------

/-- `LazyCall(HeavyCall(g), LazyFile(x))`: `as_dataset(b)` stores `from_generator(gen).map(g)` with
    `gen = data_split(x, b)` under `cached_batch[b]`; `__iter__` takes the first branch:
    `for i, j in zip(cached_batch[b], self._split_extra()): yield {**i, **j}` -/
def lazyFileHeavyIter (g : D α → D β) (x : D α) (e2 : D β) (b : Nat) : Option (List (D β)) :=
  let cached := (splitF b x).map g
  (List.zipWith (fun i j => updateD i j) cached (splitExtraF b cached.length e2)).mapM id

-- §4 the cache of a HeavyCall LazyCall ---------------------------------------------------------------------------

/-- `as_dataset(batch)`: `cached_file = self.cached_file + self.name; cached_file += "_" + str(batch)`.
    `keyed = false` is the naming without the second statement (refuted below; seeded change C18-03). -/
def cacheName (keyed : Bool) (dir name : String) (b : Nat) : String :=
  if keyed then dir ++ name ++ "_" ++ toString b else dir ++ name

/-- what is on disk: cache key ↦ the batches written by the first complete pass (`tf.data.Dataset.cache(filename)`:
    an existing complete cache is replayed, whatever pipeline is put in front of it) -/
abbrev Store (κ β : Type) := List (κ × List β)

def lookupK {κ : Type} [DecidableEq κ] (k : κ) : Store κ β → Option (List β)
  | [] => none
  | (k', v) :: rest => if k' = k then some v else lookupK k rest

/-- one complete pass over `L.as_dataset(b)` of a (new) LazyCall object whose cache key for batch size `b` is `key b` and
    whose pipeline yields `compute b`: the batches it sees, and the store afterwards -/
def readThrough {κ : Type} [DecidableEq κ] (key : Nat → κ) (compute : Nat → List β) (st : Store κ β) (b : Nat) :
    List β × Store κ β :=
  match lookupK (key b) st with
  | some bs => (bs, st)
  | none => (compute b, (key b, compute b) :: st)

/-- a history of passes with batch sizes `hist` (each by a new object: nothing but the store survives) -/
def readAll {κ : Type} [DecidableEq κ] (key : Nat → κ) (compute : Nat → List β) (st : Store κ β) :
    List Nat → List (List β) × Store κ β
  | [] => ([], st)
  | b :: rest =>
    let r := readThrough key compute st b
    let rs := readAll key compute r.2 rest
    (r.1 :: rs.1, rs.2)

-- line protocol --------------------------------------------------------------------------------------------

def showListS (ts : List (D Row)) : String :=
  "ok " ++ toString ts.length ++ " ; " ++ " ; ".intercalate (ts.map (showTree true))

def showOptList : Option (List (D Row)) → String
  | some ts => showListS ts
  | none => "none"

def oneRow (r : Row) : Bool := r.length == 1

def showLoaded : Option (Loaded Row) → String
  | some (.tree d) => "T " ++ showTree false d
  | some (.scalar r) => "S " ++ " ".intercalate (r.map toString)
  | none => "raise"

partial def parsePaths (n : Nat) (ws : List String) : Option (List (List Key) × List String) :=
  if n = 0 then some ([], ws) else
    match ws with
    | len :: ws => do
      let len ← len.toNat?
      let (r, ws') ← parsePaths (n - 1) (ws.drop len)
      some ((ws.take len).map parseKey :: r, ws')
    | [] => none

def showRows : Option (List Row) → String
  | some r => showTree false (.leaf r)
  | none => "none"

def strLe (a b : String) : Bool := compare a b != .gt

def handle : List String → Option String
  | "lmiter" :: fid :: b :: m :: rest => do
    let f := testF (← fid.toNat?)
    let b ← b.toNat?
    let (ts, _) ← parseTrees (2 * (← m.toNat?)) rest
    let rec pairs : List (D Row) → Option (List (Lazy Row Row))
      | x :: e :: r => do some (⟨x, ← dictOf e, none⟩ :: (← pairs r))
      | _ => some []
    match ← pairs ts with
    | [] => none
    | L :: others => some (showOptList (mergedIter f L others b) ++ " | " ++ showOptList (eagerSplit f L others b))
  | "fileio" :: v :: fmt :: rest => do
    let (t, _) ← parseTree rest
    match (if fmt == "npy" then saveData t else saveDataz t) with
    | none => some "unmodelled"
    | some file => some (showLoaded (loadDataV (v == "1") oneRow file))
  | "flatnpz" :: np :: rest => do
    let (paths, rest) ← parsePaths (← np.toNat?) rest
    let (t, _) ← parseTree rest
    let file := saveFlat t
    some (",".intercalate (npzFiles file) ++ " | " ++ " ; ".intercalate (paths.map fun p =>
      flatKey p ++ " = " ++ showRows (npzGet (flatKey p) file) ++ " = " ++ showRows (indexExact t p)))
  | "lfheavy" :: gid :: b :: rest => do
    let (x, rest) ← parseTree rest
    let (e2, _) ← parseTree rest
    let g := testF (← gid.toNat?)
    some (showOptList (lazyFileHeavyIter g x e2 (← b.toNat?)) ++ " | " ++ showOpt true (lazyFileEval g x e2))
  | "cache" :: keyed :: dir :: name :: n :: hist => do
    let n ← n.toNat?
    let hist ← hist.mapM String.toNat?
    let compute : Nat → List Nat := fun b => (chunks b (List.range n)).map List.length
    let r := readAll (cacheName (keyed == "1") (if dir == "-" then "" else dir) name) compute [] hist
    some (" ; ".intercalate (r.1.map fun bs => ",".intercalate (bs.map toString)) ++ " | " ++
      ",".intercalate ((r.2.map (·.1)).mergeSort strLe))
  | _ => none

end TfPwaV.DataZ
