import TfPwaV.Model.Util
/-!
Model for C03 (linear superposition, fit-fraction sum rule).  Mathlib-free and executable.

## Discrete part — `tf_pwa/amp/core.py` `DecayGroup`
* `chains_idx` (core.py:1641) is the list of indices of the chains included in the sum, `not_full` the flag
  consulted by `cached_available`.
* `set_used_chains` (core.py:2083): `chains_idx = list(used_chains)`, `not_full = len(chains_idx) != len(chains)`.
* `add_used_chains` (core.py:2075): append every int not already present (order kept), **`not_full` not touched**.
* `set_used_res(res, only=False)` (core.py:2031):
    entries that are `str`/`BaseParticle` go to `res_set`, `int` entries to `idx_chains`;
    `only=False`: `used = {j | ∃ r ∈ res_set, r ∈ chains[j].inner}`, `set_used_chains(list(used))`;
    `only=True` : `unused_res = set(resonances) - res_set`, `unused_decay = ⋃ res_map[r]`,
                  `set_used_chains([j for j in range(n) if j not in unused_decay])`;
    finally `add_used_chains(idx_chains)`.
  `list(set_of_small_ints)` is ascending when every element is smaller than the hash-table size (≥ 8), which holds
  for groups with at most 8 chains; the model returns the ascending list (the harness compares order exactly for
  n ≤ 8 and as a set above).
* `get_amp` (core.py:1696) builds `{chain: map}` dictionaries from `[chains[i] for i in chains_idx]`, so a chain listed
  twice contributes once (`dedup`), and returns `tf.reduce_sum` over the remaining chains.

## Numeric part (one text for `Float`, `Rat`, and — in `Proofs/` — any commutative ring / field `K`)
A complex number is a pair `K × K`.  `amps k e h` is the amplitude tensor of chain `k` alone (event `e`, flattened
helicity index `h`), `coup k` a complex factor applied to chain `k` (the chain's total coupling, or a rescaling of it).
* `ampAt`   : `Σ_{k ∈ dedup S} coup k · amps k e h`                      (`DecayGroup.get_amp` … `get_amp3`)
* `density` : `Σ_h |ampAt|²`                                              (`DecayGroup.sum_amp`, core.py:1919)
* `integral`: `Σ_{e ∈ events} w e · density e`                            (`sum_gradient` / `eval_integral`)
* `chunks b`: `data_split(data, b)` (data.py:391), last batch may be short
* `integralB`: per-batch integrals added up                               (`sum(nll_list)` / `cached_int +=`)
* `fracOld` : `cal_fitfractions` / `cal_fitfractions_no_grad` (fitfractions.py:178, :261)
* `fracNew` : `FitFractions.integral` + `get_frac_grad` (fitfractions.py:51-134): same formulas, but the total is
              integrated over the chains that are active when it is called.
-/
namespace TfPwaV.Superpose

-- ---------------------------------------------------------------------------------------------
-- discrete selection logic
-- ---------------------------------------------------------------------------------------------

/-- A decay group as the selection logic sees it: for every chain the ids of its inner particles
(`DecayChain.inner`), and `DecayGroup.resonances`. -/
structure Group where
  inner : List (List Nat)
  resonances : List Nat
deriving Repr

def Group.n (g : Group) : Nat := g.inner.length
def Group.innerOf (g : Group) (j : Nat) : List Nat := g.inner.getD j []

/-- mutable selection state of `DecayGroup` -/
structure State where
  chainsIdx : List Nat
  notFull : Bool
deriving Repr, DecidableEq

/-- one element of the `res` argument: a particle (name) or an `int` chain index -/
inductive Entry where
  | res (r : Nat)
  | idx (i : Nat)
deriving Repr, DecidableEq

def Entry.res? : Entry → Option Nat
  | .res r => some r
  | .idx _ => none
def Entry.idx? : Entry → Option Nat
  | .res _ => none
  | .idx i => some i

def init (g : Group) : State := ⟨List.range g.n, false⟩

def setUsedChains (g : Group) (l : List Nat) : State := ⟨l, l.length != g.n⟩

/-- `for i in used_chains: if i in chains_idx: continue else: chains_idx.append(i)` -/
def addList (acc : List Nat) (l : List Nat) : List Nat :=
  l.foldl (fun acc i => if acc.contains i then acc else acc ++ [i]) acc

def addUsedChains (s : State) (l : List Nat) : State := { s with chainsIdx := addList s.chainsIdx l }

def hasAny (g : Group) (rs : List Nat) (j : Nat) : Bool := rs.any fun r => (g.innerOf j).contains r

def setUsedRes (g : Group) (es : List Entry) (only : Bool) : State :=
  let resSet := es.filterMap Entry.res?
  let idxChains := es.filterMap Entry.idx?
  let base :=
    if !only then
      setUsedChains g ((List.range g.n).filter fun j => hasAny g resSet j)
    else
      let unusedRes := g.resonances.filter fun r => !resSet.contains r
      setUsedChains g ((List.range g.n).filter fun j => !hasAny g unusedRes j)
  addUsedChains base idxChains

/-- the chain list produced by `set_used_res(es)` -/
def sel (g : Group) (es : List Entry) : List Nat := (setUsedRes g es false).chainsIdx

/-- keep first occurrences (a Python dict keyed by chain) -/
def dedup : List Nat → List Nat
  | [] => []
  | x :: xs => x :: (dedup xs).filter (· != x)

-- ---------------------------------------------------------------------------------------------
-- numeric part, generic scalar
-- ---------------------------------------------------------------------------------------------
section Numeric
variable {K : Type} [Add K] [Mul K] [Sub K] [Zero K]

def cadd (x y : K × K) : K × K := (x.1 + y.1, x.2 + y.2)
def cmul (x y : K × K) : K × K := (x.1 * y.1 - x.2 * y.2, x.1 * y.2 + x.2 * y.1)
def normSq (x : K × K) : K := x.1 * x.1 + x.2 * x.2
def csum (l : List (K × K)) : K × K := ((l.map Prod.fst).sum, (l.map Prod.snd).sum)

/-- amplitude with the chains of `S` switched on -/
def ampAt (coup : Nat → K × K) (amps : Nat → Nat → Nat → K × K) (S : List Nat) (e h : Nat) : K × K :=
  csum ((dedup S).map fun k => cmul (coup k) (amps k e h))

def density (nh : Nat) (coup : Nat → K × K) (amps : Nat → Nat → Nat → K × K) (S : List Nat) (e : Nat) : K :=
  ((List.range nh).map fun h => normSq (ampAt coup amps S e h)).sum

def integral (nh : Nat) (coup : Nat → K × K) (amps : Nat → Nat → Nat → K × K) (w : Nat → K)
    (events : List Nat) (S : List Nat) : K :=
  (events.map fun e => w e * density nh coup amps S e).sum

end Numeric

/-- `data_split`: consecutive slices of length `b` (the last one possibly shorter); `fuel` bounds the recursion. -/
def chunksAux {α : Type} (b : Nat) : Nat → List α → List (List α)
  | 0, _ => []
  | fuel + 1, l => if l.isEmpty then [] else l.take b :: chunksAux b fuel (l.drop b)

def chunks {α : Type} (b : Nat) (l : List α) : List (List α) := chunksAux b l.length l

section Numeric2
variable {K : Type} [Add K] [Mul K] [Sub K] [Zero K] [Div K]

/-- batched accumulation: one partial integral per batch, added up -/
def integralB (nh : Nat) (coup : Nat → K × K) (amps : Nat → Nat → Nat → K × K) (w : Nat → K)
    (b : Nat) (events : List Nat) (S : List Nat) : K :=
  ((chunks b events).map fun c => integral nh coup amps w c S).sum

/-- the table of fractions, in the order the code fills its dictionary:
`for i in range(n): for j in range(i, -1, -1)`; `I` is the (batched or not) integral as a function of the chain
list, `pick es` the chain list selected by `set_used_res(es)`, `total` the denominator. -/
def fracTable (I : List Nat → K) (pick : List Entry → List Nat) (total : K) (res : List Entry) :
    List ((Nat × Nat) × K) :=
  let diag := fun (i : Nat) => I (pick [res.getD i (.idx 0)]) / total
  (List.range res.length).flatMap fun i =>
    ((List.range (i + 1)).reverse).map fun j =>
      if i = j then ((i, j), diag i)
      else ((i, j), I (pick [res.getD i (.idx 0), res.getD j (.idx 0)]) / total - diag i - diag j)

/-- `cal_fitfractions(amp, mcdata, res)`: the denominator is integrated after `amp.set_used_res(res)` -/
def fracOld (g : Group) (I : List Nat → K) (res : List Entry) : List ((Nat × Nat) × K) :=
  fracTable I (sel g) (I (sel g res)) res

/-- `FitFractions(amp, res).integral(mcdata)`: the denominator is integrated with the current selection -/
def fracNew (g : Group) (I : List Nat → K) (s : State) (res : List Entry) : List ((Nat × Nat) × K) :=
  fracTable I (sel g) (I s.chainsIdx) res

def fracSum (t : List ((Nat × Nat) × K)) : K := (t.map Prod.snd).sum

end Numeric2

-- ---------------------------------------------------------------------------------------------
-- line protocol (Float instance)
-- ---------------------------------------------------------------------------------------------
open TfPwaV.Util

/-- `a,b,c` → list of naturals; `-` is the empty list -/
def parseNats (s : String) : Option (List Nat) :=
  if s == "-" then some [] else (s.splitOn ",").mapM String.toNat?

def showNats (l : List Nat) : String := if l.isEmpty then "-" else ",".intercalate (l.map toString)

/-- `r3` = particle with id 3, `i2` = int 2 -/
def parseEntry (s : String) : Option Entry :=
  match s.toList with
  | 'r' :: t => (String.ofList t).toNat?.map Entry.res
  | 'i' :: t => (String.ofList t).toNat?.map Entry.idx
  | _ => none

def parseEntries (s : String) : Option (List Entry) :=
  if s == "-" then some [] else (s.splitOn ",").mapM parseEntry

/-- group: `<inner_0>;<inner_1>;…` and `<resonances>` -/
def parseGroup (inner res : String) : Option Group := do
  let inn ← (inner.splitOn ";").mapM parseNats
  let r ← parseNats res
  pure ⟨inn, r⟩

def showState (s : State) : String := s!"{showNats s.chainsIdx} {showB s.notFull}"

/-- one selection operation applied to a state -/
def stepOp (g : Group) (s : State) (op : String) : Option State :=
  match op.splitOn ":" with
  | ["res", es] => (parseEntries es).map fun es => setUsedRes g es false
  | ["only", es] => (parseEntries es).map fun es => setUsedRes g es true
  | ["set", l] => (parseNats l).map fun l => setUsedChains g l
  | ["add", l] => (parseNats l).map fun l => addUsedChains s l
  | _ => none

def runOps (g : Group) : State → List String → Option (List State)
  | _, [] => some []
  | s, op :: rest => do
    let s' ← stepOp g s op
    let tl ← runOps g s' rest
    pure (s' :: tl)

structure Data where
  nc : Nat
  ne : Nat
  nh : Nat
  arr : Array Float

def Data.amps (d : Data) (k e h : Nat) : Float × Float :=
  let i := 2 * ((k * d.ne + e) * d.nh + h)
  (d.arr.getD i 0.0, d.arr.getD (i + 1) 0.0)

def parseData (nc ne nh : String) (fs : List String) : Option Data := do
  let nc ← nc.toNat?
  let ne ← ne.toNat?
  let nh ← nh.toNat?
  let xs ← parseFs fs
  if xs.length = 2 * nc * ne * nh then pure ⟨nc, ne, nh, xs.toArray⟩ else none

def pairs (l : List Float) : List (Float × Float) :=
  match l with
  | a :: b :: t => (a, b) :: pairs t
  | _ => []

def coupOf (cs : Array (Float × Float)) (k : Nat) : Float × Float := cs.getD k (1.0, 0.0)

def handle : List String → Option String
  -- C03 sel <inner> <resonances> <op> <op> … → states after every op, separated by `|`
  | "sel" :: inner :: res :: ops => do
    let g ← parseGroup inner res
    let ss ← runOps g (init g) ops
    pure (" | ".intercalate (ss.map showState))
  -- C03 amp <nc> <ne> <nh> <S> <2·nc coupling floats> <floats…> → amplitude tensor (re im …) with selection S
  | "amp" :: nc :: ne :: nh :: sS :: rest => do
    let S ← parseNats sS
    let ncn ← nc.toNat?
    let cs ← parseFs (rest.take (2 * ncn))
    let d ← parseData nc ne nh (rest.drop (2 * ncn))
    let c := coupOf (pairs cs).toArray
    pure (showFs ((List.range d.ne).flatMap fun e => (List.range d.nh).flatMap fun h =>
      let z := ampAt c d.amps S e h
      [z.1, z.2]))
  -- C03 dens <nc> <ne> <nh> <S1/S2/…> <floats…> → densities per selection per event
  | "dens" :: nc :: ne :: nh :: sels :: rest => do
    let Ss ← (sels.splitOn "/").mapM parseNats
    let d ← parseData nc ne nh rest
    let c : Nat → Float × Float := fun _ => (1.0, 0.0)
    pure (showFs (Ss.flatMap fun S => (List.range d.ne).map fun e => density d.nh c d.amps S e))
  -- C03 ff <old|new> <inner> <resonances> <state chains> <res entries> <batch> <nc> <ne> <nh> <ne weights> <floats…>
  --   → total integral, then the table of fractions in code order
  | "ff" :: meth :: inner :: rs :: st :: es :: b :: nc :: ne :: nh :: rest => do
    let g ← parseGroup inner rs
    let cur ← parseNats st
    let es ← parseEntries es
    let b ← b.toNat?
    let nen ← ne.toNat?
    let ws ← parseFs (rest.take nen)
    let d ← parseData nc ne nh (rest.drop nen)
    let c : Nat → Float × Float := fun _ => (1.0, 0.0)
    let wa := ws.toArray
    let w : Nat → Float := fun e => wa.getD e 0.0
    let ev := List.range d.ne
    let I : List Nat → Float := fun S => if b = 0 then integral d.nh c d.amps w ev S else integralB d.nh c d.amps w b ev S
    if meth == "old" then
      pure (showFs (I (sel g es) :: (fracOld g I es).map Prod.snd))
    else
      pure (showFs (I cur :: (fracNew g I ⟨cur, false⟩ es).map Prod.snd))
  | _ => none

end TfPwaV.Superpose
