import TfPwaV.Model.DataX
/-
Third part of the model of `tf_pwa/data.py` / `tf_pwa/config_loader/data.py` (C18, round 4).  Nothing of
`Model/Data.lean` / `Model/DataX.lean` is changed; mirrored here, as the code is:

    SimpleData.get_dat_order(standard=False / True)      datOrder / standardOrder      (card `dat_order`, `decay_struct.outs`,
                                                                                       the items of `get_chains_map()`)
    SimpleData.__init__: `self.re_map[v] = k`             reMap / reMapGet
    SimpleData.get_data_index("p" / "mass", name)        dataIndexP
    load_p4 / cal_angle(list) : column idx -> particle    assign, calAngleList
    SimpleData.load_extra_var / load_data                loadExtraVar / loadData      (`extra_var` specs, `_weight` / `_charge` kwargs)
    MultiData.get_data (per-sample lists)                 multiFiles / multiKwargs / multiGetData
    SimpleData.get_n_data / MultiData.get_n_data          nData
    data_cut(data, expr, var_map)                         AExp / BExp / cutE           (the expression as an AST)
    LazyCall.__init__ / __setitem__ / copy / data_replace as objects with identities     Heap / step
    data_merge(L0, L1, ...) of arbitrary LazyCalls        DataX.Lazy.merge (unchanged) + eagerMerge
-/
namespace TfPwaV.DataY
open TfPwaV.Data TfPwaV.DataX

variable {α β γ : Type}

-- §1 dat_order -------------------------------------------------------------------------------------

/-- `get_dat_order()`: `dic.get("dat_order")` mapped through `get_particle(str(i))`, else `list(decay_struct.outs)`.
    A particle is modelled by its name (`BaseParticle.__eq__` compares `(name, _id)`, `_id` = 0 for config particles). -/
def datOrder (outs : List String) (card : Option (List String)) : List String :=
  match card with
  | none => outs
  | some c => c

/-- `load_p4`: column `idx` of the file goes to `particles[idx] = dat_order[idx]`; `assign` gives, per column, the
    position of that particle in `decay_struct.outs` (`outs.length` = "not a final particle of the decay") -/
def assign (outs : List String) (card : Option (List String)) : List Nat :=
  (datOrder outs card).map fun k => outs.idxOf k

/-- `cal_angle(p4)` for a list / tuple: `{k: v for k, v in zip(self.get_dat_order(), p4)}` (a dict comprehension:
    a repeated key keeps its first place and its last value) -/
def calAngleList (order : List String) (p4 : List β) : List (String × β) := insAll [] (order.zip p4)

/-- `particle_item()` of `get_dat_order(standard=True)` yields the `(s, l)` pairs of all chain maps in iteration order;
    `for i in order: for s, l in particle_item(): if str(l) == str(i): new_order.append(s); break / else: append(i)` -/
def standardOrder (items : List (String × String)) (order : List String) : List String :=
  order.map fun i => match items.find? (fun p => p.2 == i) with
    | some p => p.1
    | none => i

/-- `SimpleData.__init__`: `for … k, v in j.items(): self.re_map[v] = k` over the same items: the LAST assignment wins -/
def reMap (items : List (String × String)) (l : String) : Option String :=
  (items.reverse.find? (fun p => p.2 == l)).map (·.1)

/-- `self.re_map.get(p, p)` -/
def reMapGet (items : List (String × String)) (p : String) : String := (reMap items p).getD p

/-- `get_data_index("p", name)` / `get_data_index("mass", name)`: `("particle", re_map.get(p, p), "p" | "m")` -/
def dataIndexP (items : List (String × String)) (sub name : String) : Option (List Key) :=
  if sub == "p" then some [.name "particle", .name ("@" ++ reMapGet items name), .name "p"]
  else if sub == "mass" then some [.name "particle", .name ("@" ++ reMapGet items name), .name "m"]
  else none

-- §1b load_extra_var / load_data / MultiData -------------------------------------------------------

/-- one entry of `self.extra_var`: `name: {"key": key, "default": dflt}` -/
structure ExtraSpec where
  name : String
  key : Option String
  dflt : Option Int

/-- a value of `kwargs` in `load_extra_var` (what `dic.get(idx + "_" + name)` / a list entry of it holds):
    `None`, a number, a file name (`str`), a list of file names.  A file is given by its content. -/
inductive ExtraArg where
  | absent
  | num (c : Int)
  | file (f : List Int)
  | files (fs : List (List Int))

/-- `load_weight_file(value)[:n_data]` / `np.ones((n_data,)) * value` / default -/
def extraValue (nData : Nat) (dflt : Option Int) : ExtraArg → List Int
  | .absent => loadExtra nData (.inl (dflt.getD 1) : Sum Int (List (List Int)))
  | .num c => loadExtra nData (.inl c : Sum Int (List (List Int)))
  | .file f => loadExtra nData (.inr [f])
  | .files fs => loadExtra nData (.inr fs)

/-- `load_extra_var(n_data, **kwargs)`: `extra_var[v.get("key", k)] = value` in the order of `self.extra_var`;
    `none`: `np.concatenate([])` raises for an empty list of files -/
def loadExtraVar (specs : List ExtraSpec) (kwargs : List (String × ExtraArg)) (nData : Nat) :
    Option (List (String × List Int)) :=
  if specs.any (fun s => match lookupP s.name kwargs with | some (.files []) => true | _ => false) then none
  else some (insAll [] (specs.map fun s =>
    (s.key.getD s.name, extraValue nData s.dflt ((lookupP s.name kwargs).getD .absent))))

/-- `extra_var["weight"] = weight_sign * extra_var["weight"]` (`none`: KeyError when no spec writes "weight") -/
def signWeight (sign : Int) (ev : List (String × List Int)) : Option (List (String × List Int)) :=
  match lookupP "weight" ev with
  | none => none
  | some w => some (setKV ev "weight" (w.map (sign * ·)))

def intLeaf (w : List Int) : D Row := .leaf (w.map fun x => [x])

/-- `load_data(files, weight_sign, **kwargs)` (eager mode, no weight_smear):
    `p4 = load_p4(files)`, `n_data = data_shape(p4)`, extras, `data = preprocessor({"p4": p4, "extra": extras})`,
    `data[k] = v` for every extra.  `pre` = the preprocessor (a parameter; it returns a dict). -/
def loadData (pre : List (String × List Row) → List (String × List Int) → List (String × D Row))
    (order : List String) (specs : List ExtraSpec) (files : List (List Row)) (sign : Int)
    (kwargs : List (String × ExtraArg)) : Option (D Row) :=
  match loadOrd order files with
  | none => none
  | some p4 =>
    match p4.head? with
    | none => none                                    -- data_shape({}) : IndexError
    | some (_, c0) =>
      match loadExtraVar specs kwargs c0.length with
      | none => none
      | some ev =>
        match signWeight sign ev with
        | none => none
        | some ev => some (.node .dict (dictUpdate (pre p4 ev) (ev.map fun p => (p.1, intLeaf p.2))))

/-- what `self.dic.get(idx + "_" + k)` may hold in a MultiData card -/
inductive CardV where
  | absent                      -- None
  | one (a : ExtraArg)          -- float / int / str: the same for every sample
  | perSample (l : List ExtraArg)   -- a list: entry i belongs to sample i (an entry may itself be a list of files)

/-- `files = self.get_data_file(idx)`; `if not isinstance(files[0], list): files = [files]` -/
def multiFiles : Sum (List β) (List (List β)) → List (List β)
  | .inl fs => [fs]
  | .inr fss => fss

/-- `kwargs[i][k] = tmp[i]` for every `k` of `self.extra_var`; `none`: IndexError (a list shorter than the samples) -/
def multiKwargs (n : Nat) (specs : List ExtraSpec) (card : String → CardV) : Option (List (List (String × ExtraArg))) :=
  (List.range n).mapM fun i =>
    specs.mapM fun s =>
      match card s.name with
      | .absent => some (s.name, ExtraArg.absent)
      | .one a => some (s.name, a)
      | .perSample l => l[i]?.map fun a => (s.name, a)

/-- `MultiData.get_data(idx)`: `[self.load_data(f, weight_sign, **k) for f, k in zip(files, kwargs)]` -/
def multiGetData (pre : List (String × List Row) → List (String × List Int) → List (String × D Row))
    (order : List String) (specs : List ExtraSpec) (files : Sum (List (List Row)) (List (List (List Row))))
    (sign : Int) (card : String → CardV) : Option (List (D Row)) :=
  let fss := multiFiles files
  match multiKwargs fss.length specs card with
  | none => none
  | some kws => (List.zipWith (fun f k => loadData pre order specs f sign k) fss kws).mapM id

/-- `get_n_data()`: `np.sum(data.get("weight", np.ones((data_shape(data),))))` -/
def nData (d : D Row) : Option Int :=
  match d with
  | .node .dict kv =>
    match lookup "weight" kv with
    | some (.leaf w) => some ((w.map fun r => r.headD 0).foldl (· + ·) 0)
    | some _ => none
    | none => (dataShape d).map Int.ofNat
  | _ => none

-- §2 data_cut: the expression as an AST -------------------------------------------------------------

inductive AExp where
  | var (v : String)
  | const (c : Int)
  | add (a b : AExp)
  | sub (a b : AExp)
  | mul (a b : AExp)
  | neg (a : AExp)

inductive Cmp where
  | lt | le | gt | ge
  deriving DecidableEq

inductive BExp where
  | cmp (op : Cmp) (a b : AExp)
  | and (p q : BExp)
  | or (p q : BExp)
  | not (p : BExp)

def Cmp.eval : Cmp → Int → Int → Bool
  | .lt, x, y => decide (x < y)
  | .le, x, y => decide (x ≤ y)
  | .gt, x, y => decide (x > y)
  | .ge, x, y => decide (x ≥ y)

def AExp.vars : AExp → List String
  | .var v => [v]
  | .const _ => []
  | .add a b => a.vars ++ b.vars
  | .sub a b => a.vars ++ b.vars
  | .mul a b => a.vars ++ b.vars
  | .neg a => a.vars

def BExp.vars : BExp → List String
  | .cmp _ a b => a.vars ++ b.vars
  | .and p q => p.vars ++ q.vars
  | .or p q => p.vars ++ q.vars
  | .not p => p.vars

/-- the value of the expression for ONE event (`env v` = the entry of variable `v` for that event) -/
def AExp.evalAt (env : String → Int) : AExp → Int
  | .var v => env v
  | .const c => c
  | .add a b => a.evalAt env + b.evalAt env
  | .sub a b => a.evalAt env - b.evalAt env
  | .mul a b => a.evalAt env * b.evalAt env
  | .neg a => - a.evalAt env

def BExp.evalAt (env : String → Int) : BExp → Bool
  | .cmp op a b => op.eval (a.evalAt env) (b.evalAt env)
  | .and p q => p.evalAt env && q.evalAt env
  | .or p q => p.evalAt env || q.evalAt env
  | .not p => !p.evalAt env

/-- what the lambdified function computes: every node is ONE element-wise tensor operation on whole arrays
    (`cols v` = the array bound to variable `v`; a literal is broadcast to the `n` events) -/
def AExp.evalArr (n : Nat) (cols : String → List Int) : AExp → List Int
  | .var v => cols v
  | .const c => List.replicate n c
  | .add a b => List.zipWith (· + ·) (a.evalArr n cols) (b.evalArr n cols)
  | .sub a b => List.zipWith (· - ·) (a.evalArr n cols) (b.evalArr n cols)
  | .mul a b => List.zipWith (· * ·) (a.evalArr n cols) (b.evalArr n cols)
  | .neg a => (a.evalArr n cols).map (- ·)

def BExp.evalArr (n : Nat) (cols : String → List Int) : BExp → List Bool
  | .cmp op a b => List.zipWith op.eval (a.evalArr n cols) (b.evalArr n cols)
  | .and p q => List.zipWith (· && ·) (p.evalArr n cols) (q.evalArr n cols)
  | .or p q => List.zipWith (· || ·) (p.evalArr n cols) (q.evalArr n cols)
  | .not p => (p.evalArr n cols).map (!·)

/-- `data_index(data, var_map.get(name, name))` must be a 1-d array; `val` reads the number of one row -/
def column (val : α → Int) (d : D α) (path : List Key) : Option (List Int) :=
  match index d path with
  | some (.leaf rows) => some (rows.map val)
  | _ => none

def colsOf (cs : List (String × List Int)) (v : String) : List Int := (lookupP v cs).getD []

/-- `data_cut(data, expr, var_map)`: `args = [data_index(data, var_map.get(v, v)) for v in free_symbols]`,
    `mask = lambdify(...)(*args)`, `data_mask(data, mask)`.
    `none`: a variable is not found, no variable at all ("mask cannot be scalar"), arrays of different sizes,
    or an array of `data` whose size differs from the mask's. -/
def cutE (val : α → Int) (vm : String → List Key) (e : BExp) (d : D α) : Option (D α) :=
  match e.vars.mapM (fun v => (column val d (vm v)).map fun c => (v, c)) with
  | none => none
  | some [] => none
  | some ((v0, c0) :: rest) =>
    if rest.all (fun p => p.2.length == c0.length) then
      mask (e.evalArr c0.length (colsOf ((v0, c0) :: rest))) d
    else none

-- §3 LazyCall objects with identities ------------------------------------------------------------------

/-- a `LazyCall` object: `id(L.x)` and the address of its `extra` dict.  Values (arrays) are opaque identities. -/
structure LObj where
  x : Nat
  extra : Nat
  deriving DecidableEq

/-- the heap: every `extra` dict ever allocated (address = position; content: key ↦ identity of the value) and the
    LazyCall objects in creation order -/
structure Heap where
  dicts : List (List (String × Nat))
  objs : List LObj

def Heap.empty : Heap := ⟨[], []⟩

inductive Op where
  | new (x : Nat)                          -- LazyCall(f, x)          : self.extra = {}
  | set (o : Nat) (k : String) (v : Nat)   -- objs[o][k] = v          : self.extra[index] = value
  | copy (o : Nat)                         -- objs[o].copy()          : ret.extra = self.extra.copy(), same x
  | replace (o : Nat) (k : String) (v : Nat)   -- data_replace(objs[o], k, v) : copy, then ret[k] = v

def setAt (l : List (List (String × Nat))) (a : Nat) (k : String) (v : Nat) : List (List (String × Nat)) :=
  l.modify a (fun d => setKV d k v)

def step (h : Heap) : Op → Heap
  | .new x => ⟨h.dicts ++ [[]], h.objs ++ [⟨x, h.dicts.length⟩]⟩
  | .set o k v =>
    match h.objs[o]? with
    | some ob => ⟨setAt h.dicts ob.extra k v, h.objs⟩
    | none => h
  | .copy o =>
    match h.objs[o]? with
    | some ob => ⟨h.dicts ++ [h.dicts[ob.extra]?.getD []], h.objs ++ [⟨ob.x, h.dicts.length⟩]⟩
    | none => h
  | .replace o k v =>
    match h.objs[o]? with
    | some ob => ⟨h.dicts ++ [setKV (h.dicts[ob.extra]?.getD []) k v], h.objs ++ [⟨ob.x, h.dicts.length⟩]⟩
    | none => h

def run (h : Heap) (ops : List Op) : Heap := ops.foldl step h

/-- `list(objs[o].extra.items())` with identities -/
def Heap.items (h : Heap) (o : Nat) : List (String × Nat) :=
  match h.objs[o]? with
  | some ob => h.dicts[ob.extra]?.getD []
  | none => []

/-- `objs[o][k]` -/
def Heap.getItem (h : Heap) (o : Nat) (k : String) : Option Nat := lookupP k (h.items o)

-- §4 data_merge of arbitrary LazyCalls vs data_merge of their eager values ---------------------------------

/-- `data_merge(L0.eval(), L1.eval(), ...)` -/
def eagerMerge (f : D α → D β) (L : Lazy α β) (others : List (Lazy α β)) : Option (D β) :=
  match L.eval f, others.mapM (Lazy.eval f) with
  | some v, some vs => merge1 v vs
  | _, _ => none

-- line protocol --------------------------------------------------------------------------------------------

def joinC (l : List String) : String := ",".intercalate l

def parsePairs : List String → List (String × String)
  | s :: l :: rest => (s, l) :: parsePairs rest
  | _ => []

/-- the stub preprocessor of the harness: `{"particle": {name: {"p": p4[name]}}, "n_extra": <number of extras>}` -/
def stubPre (p4 : List (String × List Row)) (ev : List (String × List Int)) : List (String × D Row) :=
  [("particle", .node .dict (p4.map fun p => (p.1, .node .dict [("p", .leaf p.2)]))),
   ("n_extra", .leaf [[Int.ofNat ev.length]])]

/-- `A` | `N c` | `F <tree>` | `G k <tree>*k` -/
def parseArg : List String → Option (ExtraArg × List String)
  | "A" :: rest => some (.absent, rest)
  | "N" :: c :: rest => do some (.num (← c.toInt?), rest)
  | "F" :: rest => do
    let (t, rest) ← parseTree rest
    some (.file ((← asLeaf t).map fun r => r.headD 0), rest)
  | "G" :: k :: rest => do
    let (ts, rest) ← parseTrees (← k.toNat?) rest
    some (.files ((← ts.mapM asLeaf).map fun rs => rs.map fun r => r.headD 0), rest)
  | _ => none

partial def parseArgs (n : Nat) (ws : List String) : Option (List ExtraArg × List String) :=
  if n = 0 then some ([], ws) else do
    let (a, ws) ← parseArg ws
    let (r, ws) ← parseArgs (n - 1) ws
    some (a :: r, ws)

/-- specs: `name key|- dflt|-` each -/
def parseSpecs : Nat → List String → Option (List ExtraSpec × List String)
  | 0, ws => some ([], ws)
  | n + 1, name :: key :: dflt :: ws => do
    let (r, ws) ← parseSpecs n ws
    let d : Option Int ← if dflt == "-" then some none else dflt.toInt?.map some
    some (⟨name, if key == "-" then none else some key, d⟩ :: r, ws)
  | _, _ => none

/-- kwargs: `name <arg>` each -/
partial def parseKw (n : Nat) (ws : List String) : Option (List (String × ExtraArg) × List String) :=
  if n = 0 then some ([], ws) else
    match ws with
    | name :: ws => do
      let (a, ws) ← parseArg ws
      let (r, ws) ← parseKw (n - 1) ws
      some ((name, a) :: r, ws)
    | [] => none

/-- card values: `name A` | `name O <arg>` | `name P k <arg>*k` -/
partial def parseCard (n : Nat) (ws : List String) : Option (List (String × CardV) × List String) :=
  if n = 0 then some ([], ws) else
    match ws with
    | name :: "A" :: ws => do
      let (r, ws) ← parseCard (n - 1) ws
      some ((name, .absent) :: r, ws)
    | name :: "O" :: ws => do
      let (a, ws) ← parseArg ws
      let (r, ws) ← parseCard (n - 1) ws
      some ((name, .one a) :: r, ws)
    | name :: "P" :: k :: ws => do
      let (l, ws) ← parseArgs (← k.toNat?) ws
      let (r, ws) ← parseCard (n - 1) ws
      some ((name, .perSample l) :: r, ws)
    | _ => none

def showEV (ev : List (String × List Int)) : String :=
  showTree false (.node .dict (ev.map fun p => (p.1, intLeaf p.2)))

/-- prefix expression: `v name` | `c int` | `+ a b` | `- a b` | `* a b` | `n a` -/
partial def parseA : List String → Option (AExp × List String)
  | "v" :: name :: rest => some (.var name, rest)
  | "c" :: c :: rest => do some (.const (← c.toInt?), rest)
  | "n" :: rest => do
    let (a, rest) ← parseA rest
    some (.neg a, rest)
  | op :: rest => do
    let (a, rest) ← parseA rest
    let (b, rest) ← parseA rest
    match op with
    | "+" => some (.add a b, rest)
    | "-" => some (.sub a b, rest)
    | "*" => some (.mul a b, rest)
    | _ => none
  | [] => none

/-- `lt|le|gt|ge a b` | `and p q` | `or p q` | `not p` -/
partial def parseB : List String → Option (BExp × List String)
  | "not" :: rest => do
    let (p, rest) ← parseB rest
    some (.not p, rest)
  | "and" :: rest => do
    let (p, rest) ← parseB rest
    let (q, rest) ← parseB rest
    some (.and p q, rest)
  | "or" :: rest => do
    let (p, rest) ← parseB rest
    let (q, rest) ← parseB rest
    some (.or p q, rest)
  | op :: rest => do
    let c ← match op with
      | "lt" => some Cmp.lt | "le" => some Cmp.le | "gt" => some Cmp.gt | "ge" => some Cmp.ge | _ => none
    let (a, rest) ← parseA rest
    let (b, rest) ← parseA rest
    some (.cmp c a b, rest)
  | [] => none

/-- var_map: `nv (name nk key*nk)*nv` -/
partial def parseVM (n : Nat) (ws : List String) : Option (List (String × List Key) × List String) :=
  if n = 0 then some ([], ws) else
    match ws with
    | name :: nk :: ws => do
      let nk ← nk.toNat?
      let (r, ws') ← parseVM (n - 1) (ws.drop nk)
      some ((name, (ws.take nk).map parseKey) :: r, ws')
    | _ => none

def parseOp : List String → Option (Op × List String)
  | "new" :: x :: rest => do some (.new (← x.toNat?), rest)
  | "set" :: o :: k :: v :: rest => do some (.set (← o.toNat?) k (← v.toNat?), rest)
  | "copy" :: o :: rest => do some (.copy (← o.toNat?), rest)
  | "replace" :: o :: k :: v :: rest => do some (.replace (← o.toNat?) k (← v.toNat?), rest)
  | _ => none

partial def parseOps (ws : List String) : Option (List Op) :=
  match ws with
  | [] => some []
  | _ => do
    let (o, ws) ← parseOp ws
    some (o :: (← parseOps ws))

def showHeap (h : Heap) : String :=
  " ; ".intercalate ((List.range h.objs.length).map fun o =>
    match h.objs[o]? with
    | some ob => toString ob.x ++ " " ++ toString ob.extra ++ " " ++
        joinC ((h.items o).map fun p => p.1 ++ "=" ++ toString p.2)
    | none => "?")

def handle : List String → Option String
  | "datord" :: no :: rest => do
    -- no outs… hascard nc card…
    let no ← no.toNat?
    let outs := rest.take no
    match rest.drop no with
    | hc :: nc :: rest' =>
      let nc ← nc.toNat?
      let card := if hc == "1" then some (rest'.take nc) else none
      some (joinC (datOrder outs card) ++ " | " ++ joinC ((assign outs card).map toString))
    | _ => none
  | "stdord" :: ni :: rest => do
    let ni ← ni.toNat?
    let items := parsePairs (rest.take (2 * ni))
    let order := rest.drop (2 * ni)
    some (joinC (standardOrder items order) ++ " | " ++ joinC (order.map (reMapGet items)))
  | "extravar" :: nd :: ns :: rest => do
    let (specs, rest) ← parseSpecs (← ns.toNat?) rest
    match rest with
    | nk :: rest =>
      let (kw, _) ← parseKw (← nk.toNat?) rest
      match loadExtraVar specs kw (← nd.toNat?) with
      | some ev => some ("ok " ++ showEV ev)
      | none => some "none"
    | [] => none
  | "multi" :: sign :: no :: rest => do
    -- sign no order… ns specs… nc card… form(S|M) nsamples (nf tree*nf)*nsamples
    let no ← no.toNat?
    let order := rest.take no
    match rest.drop no with
    | ns :: rest =>
      let (specs, rest) ← parseSpecs (← ns.toNat?) rest
      match rest with
      | nc :: rest =>
        let (card, rest) ← parseCard (← nc.toNat?) rest
        match rest with
        | form :: nsm :: rest =>
          let rec samples (n : Nat) (ws : List String) : Option (List (List (List Row))) :=
            match n with
            | 0 => some []
            | n + 1 =>
              match ws with
              | nf :: ws => do
                let (ts, ws) ← parseTrees (← nf.toNat?) ws
                some ((← ts.mapM asLeaf) :: (← samples n ws))
              | [] => none
          let fss ← samples (← nsm.toNat?) rest
          let files : Sum (List (List Row)) (List (List (List Row))) :=
            if form == "S" then .inl (fss.headD []) else .inr fss
          let cardF : String → CardV := fun k => (lookupP k card).getD .absent
          match multiGetData stubPre order specs files (← sign.toInt?) cardF with
          | none => some "none"
          | some ds =>
            some ("ok " ++ toString ds.length ++ " ; " ++ " ; ".intercalate (ds.map fun d =>
              showTree false d ++ " # " ++ (match nData d with | some s => toString s | none => "none")))
        | _ => none
      | [] => none
    | [] => none
  | "dindex" :: sub :: name :: ni :: rest => do
    let items := parsePairs (rest.take (2 * (← ni.toNat?)))
    match dataIndexP items sub name with
    | none => some "none"
    | some ks => some (joinC (ks.map fun k => match k with | .name s => s | .pos i => "#" ++ toString i))
  | "cute" :: nv :: rest => do
    let (vm, rest) ← parseVM (← nv.toNat?) rest
    let (e, rest) ← parseB rest
    let (t, _) ← parseTree rest
    let vmF : String → List Key := fun v => (lookupP v vm).getD [.name v]
    some (showOpt false (cutE (fun r : Row => r.headD 0) vmF e t))
  | "heap" :: rest => do
    let ops ← parseOps rest
    some (showHeap (run Heap.empty ops))
  | "lmerge" :: fid :: m :: rest => do
    let f := testF (← fid.toNat?)
    let (ts, _) ← parseTrees (2 * (← m.toNat?)) rest
    let rec pairs : List (D Row) → Option (List (Lazy Row Row))
      | x :: e :: r => do some (⟨x, ← dictOf e, none⟩ :: (← pairs r))
      | _ => some []
    match ← pairs ts with
    | [] => none
    | L :: others =>
      let lz := match L.merge others with
        | some M => showOpt true (M.eval f)
        | none => "none"
      some (lz ++ " | " ++ showOpt true (eagerMerge f L others))
  | _ => none

end TfPwaV.DataY
