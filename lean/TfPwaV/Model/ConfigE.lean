import TfPwaV.Model.ConfigD
/-!
Model of the decay-card loader, part E (C19h): what `Model/ConfigD.lean` answers `unsupported` for.

* decays of particles whose class injects keywords into `decay_params` (`ParticleLS`, tf_pwa/amp/split_ls.py:
  `BWR_LS` → `{same_ratio, same_phase, model: LS-decay, **decay_params}`, `BWR_LS2` / `MultiBWR` / `MultiBW` →
  `{model: LS-decay, **decay_params}`) and the class `ParticleDecayLS` they select (same (l,s) list as
  `HelicityDecay`; `same_phase` makes `g_ls` real, `same_ratio` without `same_phase` ties the moduli:
  `Variable.set_same_ratio`);
* `ls_selector` (only `"qr"` / `"weight"` change anything — those two stay outside), `params_polar`, `disable`
  (stored, no effect on chains / names);
* two decay objects with one `params_head`: `Variable.__init__(overwrite=True)` removes the variables of an earlier
  `Variable` with the same name and appends its own (`VarSt`, `addVar`);
* line-shape variables of the Flatte family, `Kmatrix`, `KMatrixSingleChannel`, `MultiBW(R)`, `BWR_LS(2)`
  (`partVars`; the number of `theta` / `coeff` rows is the length of the (l,s) list of `particle.decay[0]`, the first
  decay object of the particle that `decay_cut` did not remove);
* `coef_head` on a particle of several chains: `ConfigLoader.add_particle_constraints` REWRITES
  `particle_config["coef_head"] = i` when the head was not met yet (`CoefStE.rew`);
* `constrains.decay.decay_d` (number / list / dict; `zip(decay_d, chain)` as written), `constrains.pre_trans`,
  `constrains.from_trans` (new variables, `var_equal` pairs, keys of `vm.pre_trans`).

Definitions of `Model/Config.lean` and `Model/ConfigD.lean` are reused unchanged.
-/
namespace TfPwaV.ConfigE
open TfPwaV.Config TfPwaV.ConfigD

/-! ## keywords -/

/-- a value of the particle dict as a decay keyword (`kwargs.get("same_ratio", True)` is handed on as it is) -/
def pvToDV : PVal → DV
  | .other s => if s = "True" then .bool true else if s = "False" then .bool false else .str s
  | .none => .none
  | .int i => .str (toString i)
  | .spin j => .str (toString j)

/-- `kwargs.get(key, dflt)` of the particle constructor -/
def partKw (props : List (Name × PDict)) (n : Name) (key : String) (dflt : DV) : DV :=
  match getKV (renameParams ((getKV props n).getD [])) key with
  | some v => pvToDV v
  | none => dflt

def lsShapes : List String := ["BWR_LS2", "MultiBWR", "MultiBW"]

/-- `getattr(core, "decay_params", {})` as the particle CLASS leaves it -/
def decayParamsOfE (props : List (Name × PDict)) (n : Name) : DDict :=
  let m := modelOf ((getKV props n).getD [])
  let dp := partDict props n "decay_params"
  if m == "BWR_LS" then
    updKV [("same_ratio", partKw props n "same_ratio" (.bool true)),
           ("same_phase", partKw props n "same_phase" (.bool false)), ("model", .str "LS-decay")] dp
  else if lsShapes.contains m then updKV [("model", .str "LS-decay")] dp
  else dp

/-- `get_decay`: `{**prod_params, **decay_params, **kwargs}` -/
def effKwargsE (props : List (Name × PDict)) (d : BDecay) (e : DDict) : DDict :=
  updKV (updKV (updKV (updKV [] (partDict props d.o1 "production_params")) (partDict props d.o2 "production_params"))
    (decayParamsOfE props d.core)) e

inductive ClsE where
  | helicity   -- `HelicityDecay`
  | lsDecay    -- `ParticleDecayLS`
  | other
  | unknown
  deriving DecidableEq, Repr

def classOfE (kw : DDict) : ClsE :=
  match getKV kw "model" with
  | none => .helicity
  | some (.str m) =>
    if helicityModels.contains m then .helicity else if m == "LS-decay" then .lsDecay
    else if otherModels.contains m then .other else .unknown
  | some _ => .unknown

/-- Python truthiness of a keyword value -/
def truthy : DV → Bool
  | .bool b => b
  | .nats l => !l.isEmpty
  | .pairs l => !l.isEmpty
  | .str s => s != ""
  | .none => false

def kwFlag (kw : DDict) (k : String) : Bool := ((getKV kw k).map truthy).getD false

/-- `g_ls` of the decay object is a REAL variable (`ParticleDecayLS.init_params` with `same_phase`) -/
def glsReal (kw : DDict) : Bool := classOfE kw == .lsDecay && kwFlag kw "same_phase"

/-- `self.g_ls.set_same_ratio()` -/
def glsShareR (kw : DDict) : Bool := classOfE kw == .lsDecay && kwFlag kw "same_ratio" && !kwFlag kw "same_phase"

/-- only the two registered selectors change the (l,s) list (they need the QR decomposition of a CG matrix) -/
def kwSupportedE (kw : DDict) : Bool :=
  match getKV kw "ls_selector" with
  | some (.str s) => !(s == "qr" || s == "weight")
  | _ => true

/-! ## the card -/

inductive DSpec where
  | absent
  | scalar (v : String)
  | list (vs : List String)
  | dict (kv : List (String × String))      -- as written: `for d, j in zip(decay_d, chain)`
  | dictAll (kv : List (String × String))   -- after fixes/C19-fix_decay_d_dict.diff: `for j in chain`
  | bad
  deriving Repr

structure CardE where
  d : CardD
  decayD : DSpec := .absent
  preTrans : List String := []
  fromTrans : List (String × Option String) := []
  deriving Repr

def CardE.context (c : CardE) : Option CtxD := do
  let decs ← decayItemD c.d.decay
  let merged ← mergeIncludes c.d.base.particle c.d.base.includes
  let props := c.d.base.props merged
  some ⟨props, (registerAllD (particleMap merged) decs).map fun r => (r.1, effKwargsE props r.1 r.2)⟩

def flatteShapes : List String := ["Flatte", "Flatte2", "FlatteC", "FlatteGen"]
def unsupportedShapes : List String := ["KMatrixSplitLS", "KmatrixSimple"]

def pdOf (x : CtxD) (n : Name) : PDict := (getKV x.props n).getD []

def hasKey (pd : PDict) (k : String) : Bool :=
  match getKV (renameParams pd) k with
  | some .none => false
  | some _ => true
  | none => false

/-- what the particle constructor raises (`get_particle(name, **params)` in `add_particle`) -/
def particleError (pd : PDict) : Option String :=
  let m := modelOf pd
  if flatteShapes.contains m && !hasKey pd "mass_list" then some "ValueError"
  else if m == "KMatrixSingleChannel" && !hasKey pd "mass_list" then some "AttributeError"
  else none

/-- first exception of the construction loop `for chain: for dec: add_particle(core), add_particle(outs), add_decay` -/
def firstError (x : CtxD) (cand : List Chain) : Option String :=
  (cand.flatMap id).findSome? fun d =>
    (particleError (pdOf x d.core)).orElse fun _ => (particleError (pdOf x d.o1)).orElse fun _ =>
      (particleError (pdOf x d.o2)).orElse fun _ => if classOfE (x.kwOf d) == .unknown then some "KeyError" else none

def decayUnsupported (x : CtxD) (d : BDecay) : Bool :=
  classOfE (x.kwOf d) == .other || !kwSupportedE (x.kwOf d) ||
    [d.core, d.o1, d.o2].any fun n =>
      unsupportedShapes.contains (modelOf (pdOf x n)) ||
        ((modelOf (pdOf x n) == "MultiBWR" || modelOf (pdOf x n) == "MultiBW") &&
          !(hasKey (pdOf x n) "mass_list" && hasKey (pdOf x n) "width_list"))

def dedup (l : List Name) : List Name := l.foldl (fun acc n => if acc.contains n then acc else acc ++ [n]) []

/-- the SECOND pass of `DecayConfig.__init__` (`decay_struct`: `get_decay_struct(self.dec, {}, particle_property,
process_cut=False)`): the particle map is empty, so every slot name is a particle of its own, `$top` / `$finals` are
inferred (`split_particle_type`), nothing is cut — but every decay of a candidate chain is CONSTRUCTED with the entry's
keywords, so an unregistered `model` of an entry that the first pass never instantiated (empty candidate list) raises
here. -/
def CardE.structError (c : CardE) (props : List (Name × PDict)) : Option String :=
  match decayItemD c.d.decay with
  | none => some "malformed"
  | some decs =>
    let xs : CtxD := ⟨props, (registerAllD [] decs).map fun r => (r.1, effKwargsE props r.1 r.2)⟩
    let cores := xs.regs.map (·.core)
    let outs := xs.regs.flatMap fun d => [d.o1, d.o2]
    match dedup (cores.filter fun n => !outs.contains n) with
    | [t] =>
      match candidates xs.regs t (dedup (outs.filter fun n => !cores.contains n)) with
      | none => some "RecursionError"
      | some cand => if cand.isEmpty then some "RuntimeError" else firstError xs cand
    | _ => some "AssertionError"

inductive OutcomeE where
  | ok (x : CtxD) (cand : List Chain) (chains : List Chain)
  | raise (what : String)

def CardE.expand (c : CardE) : OutcomeE :=
  match c.context with
  | none => .raise "malformed"
  | some x =>
    match candidates x.regs c.d.base.top c.d.base.finals with
    | none => .raise "RecursionError"
    | some cand =>
      if !(cand.all simpleChain) then .raise "unsupported"
      else if (cand.flatMap id).any (decayUnsupported x) then .raise "unsupported"
      else match firstError x cand with
        | some e => .raise e
        | none =>
          if (cand.filter x.toCtx.survives).isEmpty then .raise "RuntimeError"
          else match c.structError x.props with
            | some e => .raise e
            | none => .ok x cand (cand.filter x.toCtx.survives)

/-! ## variables: `Variable.__init__(name, overwrite=True)` -/

structure Var where
  base : String
  comps : List String
  group : List String := []     -- `set_share_r` of the variable's own components
  deriving DecidableEq, Repr

/-- variables of an earlier `Variable` with the same name are removed (`remove_var` also takes them out of
`same_list`), the new ones are appended -/
def addVar (st : List Var) (v : Var) : List Var := st.filter (fun w => w.base != v.base) ++ [v]

def realV (b : String) : Var := ⟨b, [b], []⟩
def cplxV (b : String) : Var := ⟨b, [b ++ "r", b ++ "i"], []⟩
def realNames (b : String) (n : Nat) : List String := (List.range n).map fun i => b ++ "_" ++ toString i
def shapedV (b : String) (n : Nat) : Var := ⟨b, realNames b n, []⟩

/-- `len(v)` of a list value of the particle dict, given as text without blanks (`[a,b,c]`, `[[a,b],[c,d]]`):
commas at bracket depth 1, plus one -/
def outerLen (s : String) : Nat :=
  if s == "[]" then 0 else
  (s.toList.foldl (fun (acc : Nat × Nat) ch =>
    if ch == '[' then (acc.1, acc.2 + 1) else if ch == ']' then (acc.1, acc.2 - 1)
    else if ch == ',' && acc.2 == 1 then (acc.1 + 1, acc.2) else acc) (0, 0)).1 + 1

def listLen (pd : PDict) (k : String) : Nat :=
  match getKV (renameParams pd) k with
  | some (.other s) => outerLen s
  | _ => 0

/-- number of channels of a Flatte `mass_list` (`enumerate(self.mass_list)`) -/
def pairLen (pd : PDict) (k : String) : Nat := listLen pd k

/-- decays that `decay_cut` removes from `core.decay`: the FIRST failing decay of every candidate chain -/
def cutRemoved (x : CtxD) (cand : List Chain) : List BDecay :=
  cand.filterMap fun c => c.find? fun d => (x.ls d).isEmpty

/-- `particle.decay[0]`: `BaseDecay.__init__` does not call `core.add_decay(self)` for a decay with a truthy `disable` -/
def firstDecayOf (x : CtxD) (cand : List Chain) (n : Name) : Option BDecay :=
  (seenDecays cand).find? fun d =>
    d.core == n && !kwFlag (x.kwOf d) "disable" && !((cutRemoved x cand).any fun e => e.same d)

def firstLsLen (x : CtxD) (cand : List Chain) (n : Name) : Nat :=
  match firstDecayOf x cand n with
  | some d => (x.ls d).length
  | none => 0

/-- line shapes whose `init_params` reads `self.decay[0]` -/
def needsDecay0 : List String := ["Kmatrix", "BWR_LS", "MultiBWR", "MultiBW", "KMatrixSingleChannel"]

/-- `init_params` of the particle classes: the variables in creation order; `none` = outside the model -/
def partVars0 (x : CtxD) (cand : List Chain) (n : Name) : Option (List Var) :=
  let pd := pdOf x n
  let m := modelOf pd
  let p := fun (s : String) => n ++ "_" ++ s
  let mw := [realV (p "mass")] ++ (if hasWidth pd then [realV (p "width")] else [])
  let nls := firstLsLen x cand n
  if ["default", "BW", "BWR", "BWR2", "BWR_below", "BWR_coupling", "BWR_normal", "GS_rho", "x", "BWR_LS2"].contains m then some mw
  else if m == "LASS" then some (mw ++ [realV (p "a"), realV (p "r")])
  else if m == "exp" then some [realV (p "a")]
  else if m == "exp_com" then some [realV (p "a"), realV (p "b")]
  else if m == "one" then some []
  else if m == "BWR_LS" then some (mw ++ (List.range (nls - 1)).map fun i => realV (p ("theta" ++ toString i)))
  else if m == "MultiBWR" || m == "MultiBW" then
    let nm := listLen pd "mass_list"
    some [shapedV (p "com_mass") nm, shapedV (p "com_width") (listLen pd "width_list"),
          ⟨p "coeff", (List.range nls).flatMap (fun a => complexNames (p "coeff" ++ "_" ++ toString a) nm), []⟩]
  else if flatteShapes.contains m then
    some ([realV (p "mass")] ++ (List.range (pairLen pd "mass_list")).map fun i => realV (p ("g_" ++ toString i)))
  else if m == "Kmatrix" then
    some [realV (p "mass1"), realV (p "mass2"), realV (p "width1"), realV (p "width2"), cplxV (p "KNR"), realV (p "alpha"),
          cplxV (p "beta0"), cplxV (p "beta1"), cplxV (p "beta2")]
  else if m == "KMatrixSingleChannel" then
    some ((List.range (listLen pd "mass_list")).flatMap fun i =>
      [realV (p ("mass" ++ toString (i + 1))), realV (p ("width" ++ toString (i + 1))), cplxV (p ("beta" ++ toString (i + 1)))])
  else if unsupportedShapes.contains m then none
  else some mw

/-- … with the IndexError of `self.decay[0]` when every decay of the particle is disabled, and the AttributeError of
`self.width_list` of a `KMatrixSingleChannel` particle that has a `mass_list` only -/
def partVars (x : CtxD) (cand : List Chain) (n : Name) : Except String (List Var) :=
  if needsDecay0.contains (modelOf (pdOf x n)) && (firstDecayOf x cand n).isNone then .error "IndexError"
  else if modelOf (pdOf x n) == "KMatrixSingleChannel" && !hasKey (pdOf x n) "width_list" then .error "AttributeError"
  else match partVars0 x cand n with
    | some l => .ok l
    | none => .error "unsupported"

/-- `g_ls` of one decay object -/
def glsVar (x : CtxD) (d : BDecay) : Var :=
  let b := x.headOf d ++ "_g_ls"
  let n := (x.ls d).length
  let kw := x.kwOf d
  if glsReal kw then ⟨b, realNames b n, []⟩
  else ⟨b, complexNames b n, if glsShareR kw then (List.range n).map fun i => b ++ "_" ++ toString i ++ "r" else []⟩

def totalVar (x : CtxD) (c : Chain) : Var :=
  let b := x.chainHead c ++ "_total"
  ⟨b, complexNames b 1, []⟩

/-- `DecayGroup.init_params`: the `Variable` objects in creation order -/
def creation (x : CtxD) (cand chains : List Chain) : Except String (List Var) :=
  ((resonances chains).mapM (partVars x cand)).map fun res =>
    let step := fun (st : List Var × List BDecay) (c : Chain) =>
      c.foldl (fun (st : List Var × List BDecay) d =>
        if st.2.any (fun e => e.same d) then st else (st.1 ++ [glsVar x d], st.2 ++ [d])) (st.1 ++ [totalVar x c], st.2)
    res.flatMap id ++ (chains.foldl step ([], [])).1

def varState (vs : List Var) : List Var := vs.foldl addVar []

/-! ## constraints -/

/-- `add_from_trans_constraints`: (new variables, `var_equal` pairs) or TypeError -/
def fromTrans (ft : List (String × Option String)) : Except String (List String × List (String × String)) :=
  ft.foldlM (init := ([], [])) fun acc kx =>
    match kx.2 with
    | none => .ok acc
    | some x => if x != kx.1 then .ok (acc.1 ++ [x], acc.2 ++ [(x, kx.1)]) else .error "TypeError"

/-- `for i in new_var: if i not in amp.vm.variables: amp.vm.add_real_var(i)` -/
def addNew (names : List String) (new : List String) : List String :=
  new.foldl (fun acc n => if acc.contains n then acc else acc ++ [n]) names

/-- keys of `vm.pre_trans` in insertion order -/
def transKeys (c : CardE) : List String :=
  (c.preTrans ++ c.fromTrans.map (·.1)).foldl (fun acc k => if acc.contains k then acc else acc ++ [k]) []

def setD (st : List (BDecay × String)) (d : BDecay) (v : String) : List (BDecay × String) :=
  match st with
  | [] => [(d, v)]
  | (d', v') :: r => if d'.same d then (d', v) :: r else (d', v') :: setD r d v

/-- `add_decay_constraints`, the `decay_d` part: `for i in decay_group: for d, j in zip(decay_d, i)` -/
def applyD (spec : DSpec) (chains : List Chain) : List (BDecay × String) :=
  match spec with
  | .absent => []
  | .bad => []
  | .scalar v =>
    let vs := List.replicate (chains.headD []).length v
    chains.foldl (fun st c => (vs.zip c).foldl (fun st vj => setD st vj.2 vj.1) st) []
  | .list vs => chains.foldl (fun st c => (vs.zip c).foldl (fun st vj => setD st vj.2 vj.1) st) []
  | .dict kv =>
    chains.foldl (fun st c => (kv.zip c).foldl (fun st kj =>
      match getKV kv kj.2.core with
      | some v => setD st kj.2 v
      | none => st) st) []
  | .dictAll kv =>
    chains.foldl (fun st c => c.foldl (fun st j =>
      match getKV kv j.core with
      | some v => setD st j v
      | none => st) st) []

def dOf (st : List (BDecay × String)) (d : BDecay) : String :=
  match st.find? fun r => r.1.same d with
  | some r => r.2
  | none => "3.0"

/-- effective keywords of the decay after `as_config()` → load: the exported particle dict has lost `model` (consumed by
`get_particle`), so nothing is injected; the exported option dict is the decay entry -/
def reloadKwargs (props : List (Name × PDict)) (d : BDecay) (kw : DDict) : DDict :=
  updKV (updKV (updKV (updKV [] (partDict props d.o1 "production_params")) (partDict props d.o2 "production_params"))
    (partDict props d.core "decay_params")) (exportOpts kw)

/-- the (l,s) list of the decay after export → load -/
def reloadLs (x : CtxD) (d : BDecay) : List (Nat × Nat) :=
  lsOf (qnOfName x.props d.core) (qnOfName x.props d.o1) (qnOfName x.props d.o2) (readOpt (reloadKwargs x.props d (x.kwOf d)))

def attrsE (kw : DDict) (dv : String) : DDict :=
  attrDefaults.map (fun kd => (kd.1, (getKV kw kd.1).getD kd.2)) ++ [("d", .str dv)]

/-! ## `coef_head` with the rewriting of `particle_config["coef_head"]` -/

structure CoefStE where
  resDec : List (Name × Chain) := []
  ties : List (String × String) := []
  rew : List (Name × Name) := []          -- `particle_config["coef_head"] = i`

def glsTiesE (x : CtxD) (i : Name) (acc : List (String × String)) (jh : BDecay × BDecay) : Except String (List (String × String)) :=
  let j := jh.1
  let h := jh.2
  if i == j.o1 || i == j.o2 || i == j.core then
    if (x.ls h).length != (x.ls j).length then .error "Exception"
    else if glsReal (x.kwOf h) != glsReal (x.kwOf j) then .error "Exception"
    else .ok (acc ++ (List.range (x.ls j).length).map fun k =>
      (x.headOf h ++ "_g_ls_" ++ toString k, x.headOf j ++ "_g_ls_" ++ toString k))
  else .ok acc

/-- the coef head in force when particle `i` is visited -/
def headInForce (st : CoefStE) (i : Name) (pc : PDict) : Option Name :=
  (getKV st.rew i).orElse fun _ => coefHeadOf pc

def coefStepE (x : CtxD) (chain : Chain) (st : CoefStE) (i : Name) : Except String CoefStE :=
  let resDec := setKV st.resDec i chain
  match getKV x.props i with
  | none => .error "KeyError"
  | some pc =>
    match headInForce st i pc with
    | none => .ok { st with resDec := resDec }
    | some h =>
      match getKV resDec h with
      | none => .ok { st with resDec := resDec, rew := setKV st.rew i i }
      | some dh => do
        let ties ← (chain.zip dh).foldlM (glsTiesE x i) st.ties
        .ok ⟨resDec, ties ++ [(x.chainHead dh ++ "_total_0r", x.chainHead chain ++ "_total_0r")], st.rew⟩

def coefRun (x : CtxD) (plan : List (Chain × Name)) (st : CoefStE) : Except String CoefStE :=
  plan.foldlM (fun st ci => coefStepE x ci.1 st ci.2) st

def coefTiesE (x : CtxD) (chains : List Chain) : Except String (List (String × String)) :=
  (coefRun x (coefPlan chains) {}).map (·.ties)

/-- `set_share_r(names)` = `set_same([n ++ "r" …])`: as pairs with the first component -/
def groupPairs (g : List String) : List (String × String) :=
  match g with
  | [] => []
  | a :: r => r.map fun b => (a, b)

/-! ## the amplitude stage as a whole -/

structure Amp where
  names : List String
  ties : List (String × String)
  dvals : List (BDecay × String)
  trans : List String

/-- `get_amplitude()`: variables, then `add_constraints` in its order (decay, particle, …, pre_trans, from_trans) -/
def amplitude (c : CardE) (x : CtxD) (cand chains : List Chain) : Except String Amp :=
  match creation x cand chains with
  | .error e => .error e
  | .ok vs =>
    let st := varState vs
    match c.decayD with
    | .bad => .error "ValueError"
    | _ =>
      match coefTiesE x chains with
      | .error e => .error e
      | .ok ct =>
        match fromTrans c.fromTrans with
        | .error e => .error e
        | .ok (new, eq) =>
          .ok ⟨addNew (st.flatMap (·.comps)) new, st.flatMap (fun v => groupPairs v.group) ++ ct ++ eq,
               applyD c.decayD chains, transKeys c⟩

/-! ## line protocol: the tokens of `ConfigD.parseCardD`, then `## <decay_d> <pre_trans> <from_trans>` -/

def parseStrs : Nat → List String → Option (List String × List String)
  | 0, ws => some ([], ws)
  | n + 1, w :: ws => (parseStrs n ws).map fun (l, ws) => (w :: l, ws)
  | _ + 1, [] => none

def parsePairs : Nat → List String → Option (List (String × String) × List String)
  | 0, ws => some ([], ws)
  | n + 1, k :: v :: ws => (parsePairs n ws).map fun (l, ws) => ((k, v) :: l, ws)
  | _ + 1, _ => none

def parseDSpec : List String → Option (DSpec × List String)
  | "-" :: ws => some (.absent, ws)
  | "b" :: ws => some (.bad, ws)
  | "s" :: v :: ws => some (.scalar v, ws)
  | "l" :: n :: ws => do let n ← n.toNat?; let (l, ws) ← parseStrs n ws; some (.list l, ws)
  | "d" :: n :: ws => do let n ← n.toNat?; let (l, ws) ← parsePairs n ws; some (.dict l, ws)
  | "D" :: n :: ws => do let n ← n.toNat?; let (l, ws) ← parsePairs n ws; some (.dictAll l, ws)
  | _ => none

def splitAtX : List String → List String × List String
  | [] => ([], [])
  | "##" :: r => ([], r)
  | w :: r => let (a, b) := splitAtX r; (w :: a, b)

def parseCardE (ws : List String) : Option CardE := do
  let (dws, xws) := splitAtX ws
  let d ← parseCardD dws
  if xws.isEmpty then some ⟨d, .absent, [], []⟩ else
  let (spec, ws) ← parseDSpec xws
  let (pre, ws) ← match ws with
    | n :: ws => do let n ← n.toNat?; parseStrs n ws
    | [] => none
  let (ft, ws) ← match ws with
    | n :: ws => do let n ← n.toNat?; parsePairs n ws
    | [] => none
  if ws.isEmpty then some ⟨d, spec, pre, ft.map fun kv => (kv.1, if kv.2 == "-" then none else some kv.2)⟩ else none

def handle : List String → Option String
  | op :: ws =>
    match parseCardE ws with
    | none => some "parse-error"
    | some card =>
      match card.expand with
      | .raise w => some ("raise:" ++ w)
      | .ok x cand chains =>
        if op == "chains" then some ("|".intercalate (chains.map showChain))
        else if op == "ls" then some ("|".intercalate (chains.map fun c => ";".intercalate (c.map fun d => showLs (x.ls d))))
        else if op == "export" then some (perDecay chains fun d => showDDict (exportOpts (x.kwOf d)))
        else if op == "reload" then
          some (perDecay chains fun d => showLs (reloadLs x d))
        else match amplitude card x cand chains with
          | .error e => some ("raise:" ++ e)
          | .ok a =>
            if op == "params" then some (" ".intercalate a.names)
            else if op == "ties" then some (" ".intercalate (a.ties.map fun p => p.1 ++ "=" ++ p.2))
            else if op == "attrs" then some (perDecay chains fun d => showDDict (attrsE (x.kwOf d) (dOf a.dvals d)))
            else if op == "trans" then some (" ".intercalate a.trans)
            else none
  | [] => none

end TfPwaV.ConfigE
