import TfPwaV.Model.VarsF
import TfPwaV.Model.VarsSep
/-! C16: the hypotheses `tieOK` (`WellNamed`) and `sepOK` (`WellSeparated`) of the history theorems, evaluated by the
Lean definitions themselves on the Float instance of the model.
`C16S hyp <fixSame> <fixStd> <polar> <op tokens> ; …` → per call two characters `<tieOK><sepOK>`, joined by `,`. -/
namespace TfPwaV.VarsSepF
open TfPwaV.Vars TfPwaV.VarsF

def runHyp (cfg : Cfg) (s : State Float) (ops : List (List String)) : Option (List String) :=
  match ops with
  | [] => some []
  | o :: rest => do
    let op ← parseOp o
    let tl ← runHyp cfg (step arithF cfg s op).1 rest
    some (((if tieOK s op then "1" else "0") ++ (if sepOK s op then "1" else "0")) :: tl)

def handle : List String → Option String
  | "hyp" :: fs :: fa :: pol :: rest => do
    let fs ← pB fs; let fa ← pB fa; let pol ← pB pol
    let fl ← runHyp ⟨fs, fa, false, false⟩ (State.empty 0.0 pol) (splitOps rest)
    some (",".intercalate fl)
  | _ => none

end TfPwaV.VarsSepF
