import TfPwaV.Model.Superpose
/-!
Model for C03b: the fit-fraction bookkeeping of `tf_pwa/fitfractions.py` (`FitFractions`, `cal_fitfractions`,
`cal_fitfractions_no_grad`) and the library's own users of the chain selection (`DecayGroup.partial_weight`,
`partial_weight_interference`, `BaseAmplitudeModel.partial_weight`).  Mathlib-free and executable; the selection
logic is `TfPwaV.Superpose.setUsedRes`.

## Arguments of `set_used_res` as Python values (core.py:2045-2060)
`res` that is not a `list`/`tuple` is wrapped (`Arg.single`); every element must be a `str`/`BaseParticle`
(`Entry.res`) or an `int` (`Entry.idx`); anything else — in particular a nested list or tuple — raises `TypeError`
inside the dispatch loop, i.e. **before** `chains_idx` is touched (`Item.other`, result `none`).
So a "nested list" is legal exactly one level deep: `partial_weight(combine=[[…], […]])` hands each inner list to
`set_used_res`, which selects the union of its entries; `FitFractions(amp, res)` / `cal_fitfractions(res=…)` hand
`[res[i]]` and `[res[i], res[j]]`, so a list-valued `res[i]` raises.

## `FitFractions` (fitfractions.py:26-165), scalar `K` abstract
* `cached_int` / `cached_grad` are dictionaries with the fixed key set written by `init_res_table`
  (`for i in range(n): for j in range(i, -1, -1)`), modelled as functions on `(i, j)` together with the key list
  `keys n` (insertion order).  The model indexes by position, the code by `str(res[i])`: they agree when the names
  `str(res[i])` are pairwise distinct (stated in ASSUMPTIONS).
* `eval_integral(f, data, var, weight)` = `(Σ_e f(e)·w_e, ∇ of it)`; the per-event density `dens S e` under chain
  list `S` and its per-event gradient components `gdens k S e` (what the tape returns) are parameters.
* `append_int`: total with the selection found at entry (`cur`; `keep_used_chains` puts it back after the key
  loop, so every batch sees the same `cur`), then one integral per key with `set_used_res([res i])` resp.
  `set_used_res([res i, res j])`, each **added** to the cached value.
* `integral(batch)`: `init_res_table` then one `append_int` for the whole sample (`batch=None`) or one per
  `data_split` slice.
* `get_frac_grad`, `get_frac_diag_sum` as coded (order of operations kept: `g/I - (Ii/I)*gI/I`, python `sum`
  as a left fold).
* `cal_fitfractions` (method "old"): the same table with the total integrated under `set_used_res(res)`;
  per-batch values summed with python `sum` (left fold from 0), i.e. the same accumulation order.
-/
namespace TfPwaV.FitFrac
open TfPwaV.Superpose

-- ---------------------------------------------------------------------------------------------
-- arguments of set_used_res as Python values
-- ---------------------------------------------------------------------------------------------

/-- one element of the `res` list -/
inductive Item where
  | ent (e : Entry)
  /-- a value that is neither `str`, `BaseParticle` nor `int` (nested list, tuple, float, None, …) -/
  | other
deriving Repr, DecidableEq

/-- the `res` argument itself -/
inductive Arg where
  /-- not a list/tuple: wrapped into `[res]` -/
  | single (i : Item)
  | many (l : List Item)
deriving Repr, DecidableEq

def Arg.items : Arg → List Item
  | .single i => [i]
  | .many l => l

def Item.ent? : Item → Option Entry
  | .ent e => some e
  | .other => none

/-- the type-dispatch loop (`for i in res: if isinstance …`); `none` = `TypeError` at the first offender -/
def parseItems : List Item → Option (List Entry)
  | [] => some []
  | .other :: _ => none
  | .ent e :: t => (parseItems t).map (e :: ·)

/-- `set_used_res(arg, only)`: `none` = `TypeError` raised, state untouched -/
def setUsedResArg (g : Group) (a : Arg) (only : Bool) : Option State :=
  (parseItems a.items).map fun es => setUsedRes g es only

/-- state after the call, whether it raised or not -/
def stateAfter (g : Group) (s : State) (a : Arg) (only : Bool) : State := (setUsedResArg g a only).getD s

/-- `DecayGroup.partial_weight(data, combine)`: the chain lists whose density is evaluated, in order; `none` when a
`TypeError` aborts the loop.  `combine=None` means `[[0], [1], …]`. -/
def pwLoop (g : Group) : List Arg → Option (List (List Nat))
  | [] => some []
  | a :: t =>
    match setUsedResArg g a false with
    | none => none
    | some s => (pwLoop g t).map (s.chainsIdx :: ·)

def partialWeightSels (g : Group) (combine : Option (List Arg)) : Option (List (List Nat)) :=
  pwLoop g (combine.getD ((List.range g.n).map fun i => Arg.many [.ent (.idx i)]))

/-- … and the state it leaves: `keep_used_chains` restores `chains_idx` and `not_full`, exception or not -/
def partialWeight (g : Group) (s : State) (combine : Option (List Arg)) : Option (List (List Nat)) × State :=
  (partialWeightSels g combine, s)

/-- `BaseAmplitudeModel.partial_weight` (amp.py:157): `set_used_chains(i)` on every element -/
def partialWeightBase (g : Group) (s : State) (combine : Option (List (List Nat))) : List (List Nat) × State :=
  ((combine.getD ((List.range g.n).map fun i => [i])).map fun l => (setUsedChains g l).chainsIdx, s)

/-- `itertools.combinations(range(n), 2)` -/
def pairs2 (n : Nat) : List (Nat × Nat) :=
  (List.range n).flatMap fun i => ((List.range n).filter fun j => i < j).map fun j => (i, j)

/-- `partial_weight_interference`: keys `(i, j)`, `i < j`, each evaluated under `set_used_chains((i, j))` -/
def pwiSels (g : Group) : List ((Nat × Nat) × List Nat) := (pairs2 g.n).map fun p => (p, [p.1, p.2])

-- ---------------------------------------------------------------------------------------------
-- FitFractions
-- ---------------------------------------------------------------------------------------------

/-- dictionary keys in insertion order: `for i in range(n): for j in range(i, -1, -1)`; `(i, i)` is `str(res[i])`,
`(i, j)` is `(str(res[i]), str(res[j]))` -/
def keys (n : Nat) : List (Nat × Nat) :=
  (List.range n).flatMap fun i => (List.range (i + 1)).reverse.map fun j => (i, j)

/-- the chain list each key is integrated under -/
def keySel (g : Group) (res : List Entry) (k : Nat × Nat) : List Nat :=
  if k.1 = k.2 then sel g [res.getD k.1 (.idx 0)]
  else sel g [res.getD k.1 (.idx 0), res.getD k.2 (.idx 0)]

section Numeric
variable {K : Type} [Add K] [Mul K] [Sub K] [Zero K] [Div K]

/-- python `sum(list)` / repeated `+=`: left fold from 0 -/
def pysum (l : List K) : K := l.foldl (fun acc x => acc + x) 0

/-- `tf.reduce_sum(f(data) * weight)` for the events of one batch under chain list `S` -/
def evalInt (dens : List Nat → Nat → K) (w : Nat → K) (c : List Nat) (S : List Nat) : K :=
  (c.map fun e => dens S e * w e).sum

structure FF (K : Type) where
  /-- `cached_int` -/
  int : Nat × Nat → K
  /-- `cached_grad`, component `k` -/
  grad : Nat × Nat → Nat → K
  /-- `cached_int_total` -/
  total : K
  /-- `cached_grad_total` -/
  gtotal : Nat → K

/-- `init_res_table` -/
def initResTable : FF K := ⟨fun _ => 0, fun _ _ => 0, 0, fun _ => 0⟩

/-- `append_int(batch)`; `cur` is the selection active at the call -/
def appendInt (g : Group) (res : List Entry) (dens : List Nat → Nat → K) (gdens : Nat → List Nat → Nat → K)
    (w : Nat → K) (cur : List Nat) (st : FF K) (c : List Nat) : FF K :=
  { total := st.total + evalInt dens w c cur
    gtotal := fun k => st.gtotal k + evalInt (gdens k) w c cur
    int := fun key => st.int key + evalInt dens w c (keySel g res key)
    grad := fun key k => st.grad key k + evalInt (gdens k) w c (keySel g res key) }

/-- `integral(mcdata, batch)`: `batch = none` is `batch=None` -/
def integralFF (g : Group) (res : List Entry) (dens : List Nat → Nat → K) (gdens : Nat → List Nat → Nat → K)
    (w : Nat → K) (cur : List Nat) (batch : Option Nat) (ev : List Nat) : FF K :=
  match batch with
  | none => appendInt g res dens gdens w cur initResTable ev
  | some b => (chunks b ev).foldl (appendInt g res dens gdens w cur) initResTable

/-- `cal_fitfractions(amp, mcdata, res, batch)`: every integral is `sum` of the per-batch values; the total is
taken under `set_used_res(res)` -/
def calFF (g : Group) (res : List Entry) (dens : List Nat → Nat → K) (gdens : Nat → List Nat → Nat → K)
    (w : Nat → K) (b : Nat) (ev : List Nat) : FF K :=
  let acc := fun (d : List Nat → Nat → K) (S : List Nat) => pysum ((chunks b ev).map fun c => evalInt d w c S)
  { total := acc dens (sel g res)
    gtotal := fun k => acc (gdens k) (sel g res)
    int := fun key => acc dens (keySel g res key)
    grad := fun key k => acc (gdens k) (keySel g res key) }

-- get_frac_grad ------------------------------------------------------------------------------

/-- `fit_frac[str(res[i])] = int_tmp / int_mc` -/
def fracOf (st : FF K) (i : Nat) : K := st.int (i, i) / st.total
/-- `g_int_tmp / int_mc - (int_tmp / int_mc) * g_int_mc / int_mc` -/
def gradOf (st : FF K) (i k : Nat) : K :=
  st.grad (i, i) k / st.total - (st.int (i, i) / st.total) * st.gtotal k / st.total
/-- `(int_tmp / int_mc) - fit_frac[i] - fit_frac[j]` -/
def fracIJ (st : FF K) (i j : Nat) : K := st.int (i, j) / st.total - fracOf st i - fracOf st j
/-- `g_int_tmp / int_mc - (int_tmp / int_mc) * g_int_mc / int_mc - g_fit_frac[i] - g_fit_frac[j]` -/
def gradIJ (st : FF K) (i j k : Nat) : K :=
  st.grad (i, j) k / st.total - (st.int (i, j) / st.total) * st.gtotal k / st.total - gradOf st i k
    - gradOf st j k

def entry (st : FF K) (key : Nat × Nat) : K := if key.1 = key.2 then fracOf st key.1 else fracIJ st key.1 key.2
def gentry (st : FF K) (key : Nat × Nat) (k : Nat) : K :=
  if key.1 = key.2 then gradOf st key.1 k else gradIJ st key.1 key.2 k

/-- values of `get_frac_grad(sum_diag=False)[0]` in dictionary order -/
def fracVals (n : Nat) (st : FF K) : List K := (keys n).map (entry st)
/-- `get_frac_grad(sum_diag=False)[1]` -/
def gradVals (n nvar : Nat) (st : FF K) : List (List K) :=
  (keys n).map fun key => (List.range nvar).map (gentry st key)
/-- `fit_frac["sum_diag"]` -/
def sumDiag (n : Nat) (st : FF K) : K := pysum ((List.range n).map (fracOf st))
def gsumDiag (n : Nat) (st : FF K) (k : Nat) : K := pysum ((List.range n).map fun i => gradOf st i k)
/-- `get_frac_diag_sum()[0]`: adds the cached **integrals** of the `str` keys (no division by the total) -/
def fracDiagSum (n : Nat) (st : FF K) : K := pysum ((List.range n).map fun i => st.int (i, i))
def gfracDiagSum (n : Nat) (st : FF K) (k : Nat) : K := pysum ((List.range n).map fun i => st.grad (i, i) k)

end Numeric

-- ---------------------------------------------------------------------------------------------
-- line protocol (Float instance)
-- ---------------------------------------------------------------------------------------------
open TfPwaV.Util

/-- `r3`, `i2` as in `Superpose.parseEntry`; `x` = a value of another type (nested list, …) -/
def parseItem (s : String) : Option Item :=
  if s == "x" then some .other else (parseEntry s).map .ent

/-- `S:r3` single value, `L:r0,i2,x` list (`L:-` empty) -/
def parseArg (s : String) : Option Arg :=
  match s.splitOn ":" with
  | ["S", it] => (parseItem it).map .single
  | ["L", its] => if its == "-" then some (.many []) else ((its.splitOn ",").mapM parseItem).map .many
  | _ => none

def insertSorted (x : Nat) : List Nat → List Nat
  | [] => [x]
  | y :: ys => if x ≤ y then x :: y :: ys else y :: insertSorted x ys

def sortNats (l : List Nat) : List Nat := l.foldr insertSorted []

/-- densities / gradients handed over by the harness for a list of chain subsets -/
structure Tab where
  subs : Array (List Nat)
  ne : Nat
  nvar : Nat
  dens : Array Float
  gdens : Array Float

def Tab.find (t : Tab) (S : List Nat) : Option Nat :=
  let key := sortNats (dedup S)
  (List.range t.subs.size).find? fun i => t.subs.getD i [] == key

/-- missing subsets evaluate to NaN (reported by the harness as a disagreement) -/
def Tab.densF (t : Tab) (S : List Nat) (e : Nat) : Float :=
  match t.find S with
  | some i => t.dens.getD (i * t.ne + e) (0.0 / 0.0)
  | none => 0.0 / 0.0

def Tab.gdensF (t : Tab) (k : Nat) (S : List Nat) (e : Nat) : Float :=
  match t.find S with
  | some i => t.gdens.getD ((i * t.ne + e) * t.nvar + k) (0.0 / 0.0)
  | none => 0.0 / 0.0

def showSels (l : List (List Nat)) : String := "/".intercalate (l.map showNats)

def handle : List String → Option String
  -- C03b arg <inner> <resonances> <only 0|1> <cur chains> <cur notfull> <arg> → state after | TypeError + state
  | ["arg", inner, rs, only, cur, nf, a] => do
    let g ← parseGroup inner rs
    let cur ← parseNats cur
    let a ← parseArg a
    let s : State := ⟨cur, nf == "1"⟩
    let r := setUsedResArg g a (only == "1")
    pure ((if r.isSome then "ok " else "TypeError ") ++ showState (stateAfter g s a (only == "1")))
  -- C03b pw <inner> <resonances> <cur chains> <cur notfull> <arg|None> … → selections, final state
  | "pw" :: inner :: rs :: cur :: nf :: args => do
    let g ← parseGroup inner rs
    let cur ← parseNats cur
    let combine ← if args == ["None"] then some none else (args.mapM parseArg).map some
    let (r, s) := partialWeight g ⟨cur, nf == "1"⟩ combine
    pure ((match r with | some l => showSels l | none => "TypeError") ++ " ; " ++ showState s)
  -- C03b pwb <inner> <resonances> <cur chains> <cur notfull> <sel/sel/…|None>
  | ["pwb", inner, rs, cur, nf, sels] => do
    let g ← parseGroup inner rs
    let cur ← parseNats cur
    let combine ← if sels == "None" then some none else ((sels.splitOn "/").mapM parseNats).map some
    let (r, s) := partialWeightBase g ⟨cur, nf == "1"⟩ combine
    pure (showSels r ++ " ; " ++ showState s)
  -- C03b pwi <inner> <resonances> → i,j/i,j/…
  | ["pwi", inner, rs] => do
    let g ← parseGroup inner rs
    pure (showSels ((pwiSels g).map Prod.snd))
  -- C03b ffx <new|old> <inner> <resonances> <cur chains> <res entries> <batch, 0 = None> <nvar> <ne> <nsub>
  --          <sub_1> … <sub_nsub> <ne weights> <nsub·ne densities> <nsub·ne·nvar gradients>
  --   → total, gtotal[nvar], per key: int, grad[nvar]; per key: frac, gfrac[nvar]; sum_diag, gsum_diag[nvar];
  --     diag_sum, gdiag_sum[nvar]
  | "ffx" :: meth :: inner :: rs :: cur :: es :: b :: nvar :: ne :: nsub :: rest => do
    let g ← parseGroup inner rs
    let cur ← parseNats cur
    let es ← parseEntries es
    let b ← b.toNat?
    let nvar ← nvar.toNat?
    let ne ← ne.toNat?
    let nsub ← nsub.toNat?
    let subs ← (rest.take nsub).mapM parseNats
    let fl ← parseFs (rest.drop nsub)
    if fl.length ≠ ne + nsub * ne + nsub * ne * nvar then none else
    let wa := (fl.take ne).toArray
    let t : Tab := ⟨(subs.map sortNats).toArray, ne, nvar, ((fl.drop ne).take (nsub * ne)).toArray,
      (fl.drop (ne + nsub * ne)).toArray⟩
    let w : Nat → Float := fun e => wa.getD e 0.0
    let ev := List.range ne
    let st : FF Float :=
      if meth == "old" then calFF g es t.densF t.gdensF w b ev
      else integralFF g es t.densF t.gdensF w cur (if b = 0 then none else some b) ev
    let n := es.length
    let vars := List.range nvar
    let out : List Float :=
      st.total :: vars.map st.gtotal
        ++ (keys n).flatMap (fun key => st.int key :: vars.map (st.grad key))
        ++ (keys n).flatMap (fun key => entry st key :: vars.map (gentry st key))
        ++ sumDiag n st :: vars.map (gsumDiag n st)
        ++ fracDiagSum n st :: vars.map (gfracDiagSum n st)
    pure (showFs out)
  | _ => none

end TfPwaV.FitFrac
