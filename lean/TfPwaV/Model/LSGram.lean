import TfPwaV.Model.LS
import TfPwaV.Model.Wigner
/-!
Exact Gram matrix of the LS → helicity coupling matrix (C13 rank clause).

`HelicityDecay.get_cg_matrix` (particle.py:406-447, amp/core.py:852-900):
  `M[(l,s),(λb,λc)] = sqrt((2l+1)/(2ja+1)) ⟨jb λb; jc −λc | s δ⟩ ⟨l 0; s δ | ja δ⟩`,  `δ = λb − λc`.
With `⟨j1 m1 j2 m2|J M⟩ = sqrt(jPart(j1,j2,J,M)·mPart(j1,m1,j2,m2))·cgRat` (model `TfPwaV.Wigner`, compared with
`cg_coef` on every run) and `F(j,m) = ((j+m)/2)!((j−m)/2)!` every term of
`G[(l,s),(l',s')] = Σ_{λb,λc} M[(l,s),λ]·M[(l',s'),λ]` is `sqrt(C)·R(λ)` with a surd `C` that does not depend on
`(λb,λc)` and a rational
  `R = F(s,δ) F(s',δ) F(ja,δ) mPart(jb,λb,jc,−λc) · cgRat₂ cgRat₂' cgRat₁ cgRat₁'`.
Hence `G = δ` is equivalent to the rational statements checked by `gramCheck`:
  diagonal:  `(2l+1)(2s+1) Δ(jb,jc,s) Δ(l,s,ja) F(l,0) · Σ_λ R = 1`,   off-diagonal: `Σ_λ R = 0`.
All spins doubled, `l` undoubled as in `LS.lsList`.
-/
namespace TfPwaV.LSGram
open TfPwaV.Wigner

def F (j : Nat) (m : Int) : Rat := ((fact (ihalf (j + m)) * fact (ihalf (j - m)) : Nat) : Rat)

/-- rational part of one term of the Gram sum (0 when a CG vanishes by its selection rules) -/
def term (ja jb jc : Nat) (l s l' s' : Nat) (lb lc : Int) : Rat :=
  let d := lb - lc
  if cgValid jb lb jc (-lc) s d && cgValid jb lb jc (-lc) s' d &&
     cgValid (2 * l) 0 s d ja d && cgValid (2 * l') 0 s' d ja d then
    F s d * F s' d * F ja d * mPart jb lb jc (-lc) *
      cgRat jb lb jc (-lc) s d * cgRat jb lb jc (-lc) s' d *
      cgRat (2 * l) 0 s d ja d * cgRat (2 * l') 0 s' d ja d
  else 0

/-- all helicity pairs (λb, λc), doubled -/
def pairs (jb jc : Nat) : List (Int × Int) :=
  (mRange jb).flatMap fun lb => (mRange jc).map fun lc => (lb, lc)

/-- per coupling `(l,s)`: the vector over helicity pairs of `F(s,δ)·cgRat₂·cgRat₁` (0 where a CG vanishes) -/
def vec (ja jb jc : Nat) (p : Nat × Nat) : List Rat :=
  (pairs jb jc).map fun (lb, lc) =>
    let d := lb - lc
    if cgValid jb lb jc (-lc) p.2 d && cgValid (2 * p.1) 0 p.2 d ja d then
      F p.2 d * cgRat jb lb jc (-lc) p.2 d * cgRat (2 * p.1) 0 p.2 d ja d
    else 0

/-- common weight `F(ja,δ)·mPart(jb,λb,jc,−λc)` -/
def wts (ja jb jc : Nat) : List Rat :=
  (pairs jb jc).map fun (lb, lc) => F ja (lb - lc) * mPart jb lb jc (-lc)

def dot3 : List Rat → List Rat → List Rat → Rat
  | w :: ws, x :: xs, y :: ys => w * x * y + dot3 ws xs ys
  | _, _, _ => 0

def gramSum (ja jb jc : Nat) (p q : Nat × Nat) : Rat :=
  dot3 (wts ja jb jc) (vec ja jb jc p) (vec ja jb jc q)

/-- normalisation of a diagonal entry: `(2l+1)(2s+1) Δ(jb,jc,s) Δ(l,s,ja) F(l,0)` -/
def diagNorm (ja jb jc : Nat) (p : Nat × Nat) : Rat :=
  ((2 * p.1 + 1 : Nat) : Rat) * ((p.2 + 1 : Nat) : Rat) * triDelta jb jc p.2 * triDelta (2 * p.1) p.2 ja * F (2 * p.1) 0

/-- the Gram matrix of the columns of the LS→helicity matrix over the full (parity-violating) coupling list is the identity -/
def gramRow (w : List Rat) (ja jb jc : Nat) (p : Nat × Nat) (vp : List Rat) : List ((Nat × Nat) × List Rat) → Bool
  | [] => true
  | (q, vq) :: rest =>
    (if p = q then diagNorm ja jb jc p * dot3 w vp vq == 1 else dot3 w vp vq == 0) && gramRow w ja jb jc p vp rest

def gramCheck (ja jb jc : Nat) : Bool :=
  let ls := LS.lsList ja jb jc none none none true none
  let w := wts ja jb jc
  let vs := ls.map fun p => (p, vec ja jb jc p)
  vs.all fun pv => gramRow w ja jb jc pv.1 pv.2 vs

def handle : List String → Option String
  | ["gram", ja, jb, jc] => do
    let ja ← ja.toNat?; let jb ← jb.toNat?; let jc ← jc.toNat?
    some (toString (gramCheck ja jb jc))
  | _ => none

end TfPwaV.LSGram
