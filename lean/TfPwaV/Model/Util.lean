/-! Shared helpers for the line protocol (Mathlib-free). Floats travel as the decimal value of their
IEEE-754 bit pattern (`common.f2h` / `common.h2f` on the Python side), so no decimal parsing is involved. -/
namespace TfPwaV.Util

def parseF (s : String) : Option Float := s.toNat?.map fun n => Float.ofBits n.toUInt64
def showF (x : Float) : String := toString x.toBits.toNat
def parseFs (ws : List String) : Option (List Float) := ws.mapM parseF
def showFs (xs : List Float) : String := " ".intercalate (xs.map showF)
def parseI (s : String) : Option Int := s.toInt?
def parseN (s : String) : Option Nat := s.toNat?
def showB (b : Bool) : String := if b then "1" else "0"

end TfPwaV.Util
