import TfPwaV.Model.Vars
/-!
# Model of the bookkeeping around the minimiser (C08): `tf_pwa.fit.fit_scipy`, `fit_newton_cg`, `fit_minuit_v2`,
`except_result`, `FitResult`

Mathlib-free, generic in the value arithmetic (built on the `VarsManager` state machine of `Model/Vars.lean`).
The minimiser (scipy / iminuit) is an **oracle**: it performs an arbitrary finite sequence of evaluations of the
objective (every evaluation moves the parameters: `fcn.nll_grad(y)` does `vm.set_all(y)`, and the wrappers
`trans_fcn_grad` / `trans_f_grad_hess` / `trans_grad_hessp` first map the fit coordinates through the registered
bounds, exactly what `set_trans_var` does) and then returns an arbitrary answer `(x, fun, success)`, possibly
without a `hess_inv` attribute, or is interrupted by `LargeNumberError` raised in the callback.

`Fix` has one flag per site where the proposed patches change a statement: `false` = the statements of the
unchanged tree, `true` = the statements after the patch.  The harness observes which variant the tree has.
Outside the model: `check_grad=True` (extra evaluations after the fit), `improve=True`, method `root` (needs ROOT).
-/
namespace TfPwaV.Fit
open TfPwaV.Vars

variable {V : Type}

/-- one evaluation of the objective by the minimiser -/
inductive Eval (V : Type) where
  /-- through `trans_fcn_grad` / `trans_f_grad_hess` / `trans_grad_hessp`: `set_all(x2y(x))` -/
  | trans (x : List V)
  /-- `fcn.nll_grad(x)` / `fcn(x)` directly: `set_all(x)` -/
  | raw (x : List V)

def Eval.op : Eval V → Op V
  | .trans x => .setTransVar x
  | .raw x => .setAllList x false

/-- everything the external minimiser decides -/
structure Oracle (V : Type) where
  evals : List (Eval V)
  /-- the callback raised `LargeNumberError` (after `evals`) -/
  abort : Bool
  /-- `s.x` / `m.values` -/
  x : List V
  /-- `s.fun` / `m.fval` (after an abort: `fcn.cached_nll`) -/
  fval : V
  success : Bool
  /-- the `OptimizeResult` has a `hess_inv` attribute (BFGS: yes; CG, Nelder-Mead, `fit_improve.minimize`: no) -/
  hasHessInv : Bool

/-- the branch of `fit_scipy` selected by the method name -/
inductive Method where
  /-- `BFGS`, `CG`, `Nelder-Mead`, `test` -/
  | quasi
  /-- `L-BFGS-B` -/
  | lbfgsb
  /-- `Newton-CG`, `trust-krylov`, `trust-ncg`, `trust-exact` and the `-p` variants (`fit_newton_cg`) -/
  | newton
  /-- `iminuit` (`fit_minuit(fcn)`) -/
  | minuit
  /-- any other name: `raise Exception("unknown method")` -/
  | unknown
deriving DecidableEq, Repr

structure Fix where
  /-- L-BFGS-B: `fcn.vm.set_all(xn)` instead of the non-existent `fcn.vm.set_var(xn)` -/
  lbfgsb : Bool
  /-- `fit_newton_cg` calls `remove_bound()` after `set_trans_var(s.x)` -/
  newtonRm : Bool
  /-- `hess_inv` is read with `getattr(s, "hess_inv", None)` -/
  hessOpt : Bool
  /-- `fit_minuit_v2` sets the model to `m.values` before it builds the result -/
  minuitSet : Bool
  /-- `except_result` removes the registered bounds -/
  exceptRm : Bool
  /-- `fit_scipy` ends with `standard_complex(bounded=bounds_dict)` instead of `standard_complex()`
  (tree after `fix_C08_standard_complex_bounded.diff`) -/
  stdBounded : Bool := false
deriving DecidableEq, Repr

structure FitResult (V : Type) where
  params : Dict V
  minNll : V
  ndf : Nat
  success : Bool

inductive Outcome (V : Type) where
  | ok (r : FitResult V)
  | raised (exc : String)

def Outcome.exc : Outcome V → Option String
  | .ok _ => none
  | .raised e => some e

def Outcome.result : Outcome V → Option (FitResult V)
  | .ok r => some r
  | .raised _ => none

def evalOps (o : Oracle V) : List (Op V) := o.evals.map Eval.op

/-- `except_result(fcn, ndf)` -/
def exceptResult (A : Arith V) (fx : Fix) (s : State V) (o : Oracle V) : State V × Outcome V :=
  let s1 := if fx.exceptRm then ({ s with bnd := [] } : State V) else s
  (s1, .ok ⟨getAllDic A s1 false, o.fval, s.trainable.length, false⟩)

/-- tail of `fit_scipy`: `standard_complex(bounded)`, `get_params`, `FitResult` -/
def finish (A : Arith V) (cfg : Cfg) (stdc : Bool) (s : State V) (o : Oracle V) (bounded : List Name) : State V × Outcome V :=
  let s1 := if stdc then (standardComplex A cfg s bounded).1 else s
  (s1, .ok ⟨getAllDic A s1 false, o.fval, o.x.length, o.success⟩)

/-- the state when the minimiser hands control back: `breg` registered (where the branch does so), all its evaluations done -/
def afterEvals (A : Arith V) (cfg : Cfg) (m : Method) (s : State V) (bounds : Dict (Option V × Option V)) (o : Oracle V) : State V :=
  match m with
  | .quasi | .newton => run A cfg (setBound s bounds) (evalOps o)
  | .lbfgsb | .minuit => run A cfg s (evalOps o)
  | .unknown => s

/-- the body of `fit_scipy` after its first statements: `bounds` is the dict that `set_bound` stores (its keys already
passed through `bound_name` where the tree does that), `bounded` what is handed to `standard_complex` -/
def fitCore (A : Arith V) (cfg : Cfg) (fx : Fix) (m : Method) (stdc : Bool) (s : State V)
    (bounds : Dict (Option V × Option V)) (bounded : List Name) (o : Oracle V) : State V × Outcome V :=
  let s1 := afterEvals A cfg m s bounds o
  match m with
  | .quasi =>
    if o.abort then exceptResult A fx s1 o else
    -- fcn.vm.set_trans_var(s.x)  # make sure fit results same as variable
    let s2 := (step A cfg s1 (.setTransVar o.x)).1
    -- hess_inv = fcn.vm.trans_error_matrix(s.hess_inv * grad_scale, s.x)
    if !o.hasHessInv && !fx.hessOpt then (s2, .raised "AttributeError") else
    -- fcn.vm.remove_bound()
    let s3 := (step A cfg s2 .removeBound).1
    finish A cfg stdc s3 o bounded
  | .lbfgsb =>
    if o.abort then exceptResult A fx s1 o else
    -- fcn.vm.set_var(xn)
    if !fx.lbfgsb then (s1, .raised "AttributeError") else
    let s2 := (step A cfg s1 (.setAllList o.x false)).1
    finish A cfg stdc s2 o bounded
  | .newton =>
    let s2 := (step A cfg s1 (.setTransVar o.x)).1
    let s3 := if fx.newtonRm then (step A cfg s2 .removeBound).1 else s2
    -- params = fcn.get_params(); FitResult(...)   (no standard_complex in fit_newton_cg)
    finish A cfg false s3 o bounded
  | .minuit =>
    let s2 := if fx.minuitSet then (step A cfg s1 (.setAllList o.x false)).1 else s1
    -- FitResult(dict(zip(var_names, m.values)), fcn, m.fval, ndf=len(var_names), success=m.valid)
    (s2, .ok ⟨s.trainable.zip o.x, o.fval, s.trainable.length, o.success⟩)
  | .unknown => (s, .raised "Exception")

/-- the `bounds_dict` the body of `fit_scipy` works with: `{vm.bound_name(k): v}` after
`fix_C08_set_bound_free_name.diff` (L-BFGS-B `bnds`, Minuit limits, `standard_complex(bounded=…)`, `set_bound`), the
argument itself on the unchanged tree -/
def fitBounds (cfg : Cfg) (s : State V) (bounds : Dict (Option V × Option V)) : Dict (Option V × Option V) :=
  routeBounds cfg s bounds

/-- what `vm.set_bound(bounds_dict)` stores: `set_bound` passes the keys through `bound_name` itself (again) -/
def regBounds (cfg : Cfg) (s : State V) (bounds : Dict (Option V × Option V)) : Dict (Option V × Option V) :=
  routeBounds cfg s (fitBounds cfg s bounds)

/-- the names `fit_scipy` hands to `standard_complex` -/
def stdBoundedNames (cfg : Cfg) (fx : Fix) (s : State V) (bounds : Dict (Option V × Option V)) : List Name :=
  if fx.stdBounded then dkeys (fitBounds cfg s bounds) else []

/-- `fit_scipy(fcn, method, bounds_dict, standard_complex=stdc)` -/
def fit (A : Arith V) (cfg : Cfg) (fx : Fix) (m : Method) (stdc : Bool) (s : State V)
    (bounds : Dict (Option V × Option V)) (o : Oracle V) : State V × Outcome V :=
  fitCore A cfg fx m stdc s (regBounds cfg s bounds) (stdBoundedNames cfg fx s bounds) o

/-- what the answer `x` means for the i-th free parameter while `bnd` is registered: `x2y` for a bounded name -/
def yOf (A : Arith V) (bnd : Dict (Option V × Option V)) (n : Name) (x : V) : V :=
  match dget bnd n with
  | some b => A.x2y b.1 b.2 x
  | none => x

/-! ### save / load as maps (`FitResult.save_as`, `ConfigLoader.save_params`, `ConfigLoader.set_params(file)`) -/

/-- `json.dump({"value": params, ...})` then `yaml.safe_load(...)["value"]`: the map itself (doubles survive `repr`) -/
def saved (r : FitResult V) : Dict V := r.params

/-- `set_params(file)`: drop the names in `_neglect_when_set_params`, then `vm.set_all(dict)` -/
def loadInto (A : Arith V) (s0 : State V) (d : Dict V) (neglect : List Name) : State V :=
  setAllDict A s0 (d.filter fun kv => !(neglect.contains kv.1)) false

end TfPwaV.Fit
