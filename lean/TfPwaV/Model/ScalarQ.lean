/-! Scalar vocabulary for templates instantiated at core `Rat` (exact, executable; no roots/transcendentals). -/
namespace TfPwaV.ScalarQ
abbrev K := Rat
def kabs (x : K) : K := if x < 0 then -x else x
def kofNat (n : Nat) : K := (n : Rat)
end TfPwaV.ScalarQ
