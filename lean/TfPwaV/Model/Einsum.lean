/-
Model of `tf_pwa/einsum.py` (C05): the library's own tensor contraction `einsum(expr, *args)`.

Tensors are (shape, flat row-major data) over any type with `0 + *` (executed over `Int` and over the Gaussian
integers `GI`, so that the implementation run on small-integer float64 / complex128 operands must agree EXACTLY).
Index labels are the code points of the characters (`Idx = Nat`); in the *input* of `einsumCustom`
the label `0` stands for the ellipsis `...`.

Python                                   model
---------------------------------------  -----------------------------------------------------------
replace_ellipsis                          replaceEllipsis   (fresh symbols of opt_einsum.get_symbol)
contract_path (validation part only)      validate          (the PATH itself is an input parameter)
remove_size1                              sizeMap / removeSize1
ordered_indices + _get_order_bound_list   orderedIndices    (IEEE doubles, 0.4/0.6/0.01 rule, recursion with fuel =
                                                             RecursionError; the iteration order of the Python set
                                                             `combined_index` is an input: `procOrder`)
einsum (pairwise loop over the path)      loop / einsumCustom
tensor_einsum_reduce_sum                  stepReduceSum     (transpose, reshape with 1's, broadcast product, reduce_sum)
tf.einsum / numpy.einsum                  einsumRef         (reference semantics: sum over the non-output labels of
                                                             the product of entries, with numpy's size-1 broadcasting)

Results: `.ok tensor`, `.error "raise"` (the Python code raises: callers fall back to tf.einsum) and
`.error "tie"`: two labels of one contraction step have the same order value, in which case the Python result
depends on the iteration order of a `set` of one-character strings (string hash seed) — the model does not
define a value there (this is exactly the region of known finding `einsum:order-tie`).
-/
namespace TfPwaV.Einsum

abbrev Idx := Nat

structure Tensor (R : Type) where
  shape : List Nat
  data : Array R
deriving Repr, DecidableEq

def prodN : List Nat → Nat
  | [] => 1
  | n :: s => n * prodN s

/-- row-major offset of a multi-index -/
def flatIdx : List Nat → List Nat → Nat
  | _ :: s, i :: is => i * prodN s + flatIdx s is
  | _, _ => 0

/-- all multi-indices of a shape, in row-major order -/
def allIdx : List Nat → List (List Nat)
  | [] => [[]]
  | n :: s => (List.range n).flatMap fun i => (allIdx s).map (i :: ·)

section ops
variable {R : Type} [Zero R] [Add R] [Mul R]

def Tensor.get (t : Tensor R) (idx : List Nat) : R := t.data.getD (flatIdx t.shape idx) 0

def ofFn (shape : List Nat) (f : List Nat → R) : Tensor R := ⟨shape, ((allIdx shape).map f).toArray⟩

/-- well-formed: as many entries as the shape says -/
def Tensor.WF (t : Tensor R) : Prop := t.data.size = prodN t.shape

/-- `tf.transpose(t, perm)`: axis j of the result is axis perm[j] of the argument -/
def transposeT (t : Tensor R) (perm : List Nat) : Tensor R :=
  ofFn (perm.map fun p => t.shape.getD p 1) fun idx' =>
    t.get ((List.range t.shape.length).map fun k => idx'.getD (perm.idxOf k) 0)

/-- `tf.reshape(t, shape)`: same flat data; raises when the number of entries differs -/
def reshapeT (t : Tensor R) (shape : List Nat) : Except String (Tensor R) :=
  if prodN shape = t.data.size then .ok ⟨shape, t.data⟩ else .error "raise"

/-- broadcast shape of two shapes of equal rank -/
def bshape : List Nat → List Nat → Option (List Nat)
  | [], [] => some []
  | a :: s, b :: s' =>
    (bshape s s').bind fun r =>
      if a = b then some (a :: r) else if a = 1 then some (b :: r) else if b = 1 then some (a :: r) else none
  | _, _ => none

/-- index into a tensor that is broadcast along its size-1 axes -/
def clip (shape idx : List Nat) : List Nat := List.zipWith (fun d i => if d = 1 then 0 else i) shape idx

/-- `a * b` with TensorFlow broadcasting (equal ranks) -/
def mulB (a b : Tensor R) : Except String (Tensor R) :=
  match bshape a.shape b.shape with
  | some s => .ok (ofFn s fun idx => a.get (clip a.shape idx) * b.get (clip b.shape idx))
  | none => .error "raise"

def keepMask : List Bool → List Nat → List Nat
  | m :: ms, x :: xs => if m then x :: keepMask ms xs else keepMask ms xs
  | _, _ => []

def dropMask : List Bool → List Nat → List Nat
  | m :: ms, x :: xs => if m then dropMask ms xs else x :: dropMask ms xs
  | _, _ => []

/-- interleave: positions with mask=true take the next entry of `s`, the others the next entry of `o` -/
def merge : List Bool → List Nat → List Nat → List Nat
  | true :: m, o, s :: ss => s :: merge m o ss
  | false :: m, o :: os, s => o :: merge m os s
  | _, _, _ => []

/-- `tf.reduce_sum(t, axis=[positions with mask = true])` -/
def reduceSum (t : Tensor R) (mask : List Bool) : Tensor R :=
  ofFn (dropMask mask t.shape) fun oi =>
    ((allIdx (keepMask mask t.shape)).map fun si => t.get (merge mask oi si)).sum

end ops

/-! ### label bookkeeping -/

def dedup : List Idx → List Idx
  | [] => []
  | x :: xs => let r := dedup xs; if r.contains x then r else x :: r

/-- distinct labels in order of first occurrence -/
def labelSet (l : List Idx) : List Idx := (dedup l.reverse).reverse

def hasDup (l : List Idx) : Bool := (dedup l).length != l.length

def insertBy (key : Idx → Nat) (x : Idx) : List Idx → List Idx
  | [] => [x]
  | y :: ys => if key x ≤ key y then x :: y :: ys else y :: insertBy key x ys

/-- stable sort by key (Python `sorted(…, key=…)`) -/
def sortBy (key : Idx → Nat) (l : List Idx) : List Idx := l.foldr (insertBy key) []

def lookupD (m : List (Idx × Nat)) (d : Nat) (l : Idx) : Nat := (m.lookup l).getD d

/-! ### reference semantics -/

abbrev Env := Idx → Nat

def upd (env : Env) (l : Idx) (v : Nat) : Env := fun x => if x = l then v else env x

def envOfList : List Idx → List Nat → Env → Env
  | l :: ls, v :: vs, env => envOfList ls vs (upd env l v)
  | _, _, env => env

section ref
variable {R : Type} [Zero R] [Add R] [Mul R]

/-- entry of an operand under an assignment of its labels (numpy broadcasting of size-1 axes) -/
def bget (t : Tensor R) (labels : List Idx) (env : Env) : R :=
  t.get (List.zipWith (fun l d => if d = 1 then 0 else env l) labels t.shape)

/-- sum over all assignments of the labels `ls` (nested finite sums) -/
def sumLabels (sizes : Idx → Nat) : List Idx → Env → (Env → R) → R
  | [], env, f => f env
  | l :: ls, env, f => ((List.range (sizes l)).map fun v => sumLabels sizes ls (upd env l v) f).sum

/-- product of a non-empty list (right nested) -/
def prodL : List R → R
  | [] => 0
  | [x] => x
  | x :: xs => x * prodL xs

def termProd (ops : List (List Idx × Tensor R)) (env : Env) : R := prodL (ops.map fun p => bget p.2 p.1 env)

/-- labels summed by `ins -> out` -/
def summedLabels (ins : List (List Idx)) (out : List Idx) : List Idx :=
  (labelSet ins.flatten).filter fun l => !out.contains l

/-- reference einsum: `out[o] = Σ_{summed labels} Π_k T_k[labels_k]` -/
def einsumRef (sizes : Idx → Nat) (ops : List (List Idx × Tensor R)) (out : List Idx) : Tensor R :=
  ofFn (out.map sizes) fun oi =>
    sumLabels sizes (summedLabels (ops.map (·.1)) out) (envOfList out oi fun _ => 0) (termProd ops)

end ref

/-! ### `replace_ellipsis` -/

/-- `opt_einsum.get_symbol(i)` -/
def getSymbol (i : Nat) : Idx := if i < 26 then 97 + i else if i < 52 then 65 + (i - 26) else i + 140

/-- number of characters of a term in the string (`...` counts 3) -/
def strLen (term : List Idx) : Nat := (term.map fun l => if l = 0 then 3 else 1).sum

def exprLen (ins : List (List Idx)) (out : List Idx) : Nat :=
  (ins.map strLen).sum + (ins.length - 1) + 2 + strLen out

/-- returns (ins', out', extra) or none when the symbol generator is exhausted (StopIteration) -/
def replaceEllipsis (ins : List (List Idx)) (out : List Idx) (rank0 : Nat) :
    Option (List (List Idx) × List Idx × List Idx) :=
  if (ins.flatten ++ out).contains 0 then
    let extraSize : Int := (rank0 : Int) - (strLen (ins.headD []) : Int) + 3
    let used := ins.flatten ++ out
    let syms := ((List.range 100).map getSymbol).filter fun s => !used.contains s
    let n := extraSize.toNat
    if syms.length < n then none
    else
      let extra := syms.take n
      let rep := fun (t : List Idx) => t.flatMap fun l => if l = 0 then extra else [l]
      some (ins.map rep, rep out, extra)
  else some (ins, out, [])

/-! ### the checks of `opt_einsum.contract_path` that make it raise (the path it returns is an input) -/

/-- sizes with broadcasting: largest dim wins; a dim that is neither 1 nor the known size raises -/
def pathSizes : List (List Idx × List Nat) → List (Idx × Nat) → Option (List (Idx × Nat))
  | [], m => some m
  | (term, sh) :: rest, m =>
    if term.length ≠ sh.length then none
    else
      let step := fun (acc : Option (List (Idx × Nat))) (p : Idx × Nat) =>
        acc.bind fun m =>
          match m.lookup p.1 with
          | none => some ((p.1, p.2) :: m)
          | some s =>
            if s = 1 then some ((p.1, p.2) :: m.filter (·.1 ≠ p.1))
            else if p.2 = 1 ∨ p.2 = s then some m else none
      match (term.zip sh).foldl step (some m) with
      | none => none
      | some m' => pathSizes rest m'

def validate (ins : List (List Idx)) (out : List Idx) (shapes : List (List Nat)) : Bool :=
  ins.length == shapes.length && ins.length > 0 &&
  !hasDup out && out.all (fun l => ins.flatten.contains l) &&
  (pathSizes (ins.zip shapes) []).isSome

/-! ### `remove_size1` -/

/-- `size_map`: per label the largest dimension seen (`if j >= l: size_map[i] = j`), in first-seen order -/
def sizeMap (ins : List (List Idx)) (shapes : List (List Nat)) : List (Idx × Nat) :=
  ((ins.zip shapes).flatMap fun p => p.1.zip p.2).foldl (fun m p =>
    match m.lookup p.1 with
    | none => m ++ [(p.1, if p.2 ≥ 1 then p.2 else 1)]   -- l defaults to 1: a 0-dim is not recorded over it
    | some l => if p.2 ≥ l then m.map (fun q => if q.1 = p.1 then (q.1, p.2) else q) else m) []

def removeIdx (sm : List (Idx × Nat)) (extra : List Idx) : List Idx :=
  (sm.filter fun p => p.2 = 1 ∧ !extra.contains p.1).map (·.1)

/-! ### `ordered_indices` (IEEE doubles) -/

def f04 : Float := Float.ofBits 0x3FD999999999999A
def f06 : Float := Float.ofBits 0x3FE3333333333333
def f001 : Float := Float.ofBits 0x3F847AE147AE147B
def lblMin : Idx := 1
def lblMax : Idx := 2

def fmax : List Float → Float
  | [] => 0
  | x :: xs => xs.foldl (fun a b => if b > a then b else a) x
def fmin : List Float → Float
  | [] => 0
  | x :: xs => xs.foldl (fun a b => if b < a then b else a) x

/-- neighbours of label `i`: (left list, right list), one entry per operand containing it -/
def bounds (ins : List (List Idx)) (i : Idx) : List Idx × List Idx :=
  let occ := ins.filter (·.contains i)
  (occ.map fun j => let pos := j.idxOf i; if pos ≥ 1 then j.getD (pos - 1) lblMin else lblMin,
   occ.map fun j => let pos := j.idxOf i; if pos + 1 < j.length then j.getD (pos + 1) lblMax else lblMax)

/-- `_get_order_bound_list`; `none` = recursion limit exceeded (RecursionError) or assertion failure -/
def getOrderBoundList (bd : List (Idx × (List Idx × List Idx))) (ord : List (Idx × Float)) (side : Bool) :
    Nat → Idx → Option (List Float)
  | 0, _ => none
  | fuel + 1, idx =>
    match ord.lookup idx with
    | some v => some [v]
    | none =>
      match bd.lookup idx with
      | none => none
      | some b =>
        (if side then b.2 else b.1).foldl (fun acc i =>
          acc.bind fun od =>
            match ord.lookup i with
            | some v => some (od ++ [v])
            | none => (getOrderBoundList bd ord side fuel i).map (od ++ ·)) (some [])

/-- `ordered_indices(expr2, shapes)`; `procOrder` = iteration order of the set `combined_index` -/
def orderedIndices (ins : List (List Idx)) (out : List Idx) (procOrder : List Idx) : Option (List (Idx × Float)) :=
  let maxI := exprLen ins out
  let base : List (Idx × Float) :=
    (out.zipIdx.map fun p => (p.1, p.2.toFloat)) ++ [(lblMin, -1.0), (lblMax, maxI.toFloat)]
  let bd := procOrder.map fun i => (i, bounds ins i)
  procOrder.foldl (fun acc i =>
    acc.bind fun ord =>
      match getOrderBoundList bd ord false 200 i, getOrderBoundList bd ord true 200 i with
      | some ls, some rs =>
        let left := fmax ls
        let right := fmin rs
        let v := if right > left then left * f04 + right * f06 else left + f001
        some ((i, v) :: ord.filter (·.1 ≠ i))
      | _, _ => none) (some base)

/-- order-preserving map of the double keys to naturals (ties keep equal keys) -/
def rankOf (ord : List (Idx × Float)) (l : Idx) : Nat :=
  match ord.lookup l with
  | none => 0
  | some v => (ord.filter fun p => p.2 < v).length

/-! #### strict variant (tree with `fix_einsum_order_tie.diff`):
    `ranked = sorted(base_order.items(), key=lambda x: (x[1], x[0])); base_order = {k: i for i, (k, _) in enumerate(ranked)}` -/

/-- tie-break by name: "_max" < "_min" < (no label is "_") ; single characters by code point -/
def nameKey (l : Idx) : Nat := if l = lblMax then 190 else if l = lblMin then 191 else 2 * l

def leEntry (a b : Idx × Float) : Bool := a.2 < b.2 || (a.2 == b.2 && nameKey a.1 ≤ nameKey b.1)

def insertE (x : Idx × Float) : List (Idx × Float) → List (Idx × Float)
  | [] => [x]
  | y :: ys => if leEntry x y then x :: y :: ys else y :: insertE x ys

def sortE (l : List (Idx × Float)) : List (Idx × Float) := l.foldr insertE []

/-- position of the label in the ranking: a strict order whatever the double comparisons do -/
def rankFixed (ord : List (Idx × Float)) (l : Idx) : Nat := ((sortE ord).map (·.1)).idxOf l

def orderedIndicesFixed (ins : List (List Idx)) (out : List Idx) (procOrder : List Idx) : Option (List (Idx × Float)) :=
  (orderedIndices ins out procOrder).map fun ord => (sortE ord).zipIdx.map fun p => (p.1.1, p.2.toFloat)

/-! ### `tensor_einsum_reduce_sum` and the contraction loop -/

section custom
variable {R : Type} [Zero R] [Add R] [Mul R]

/-- `ret_1 = s_args.pop(); while s_args: ret_1 = ret_1 * s_args.pop()` -/
def mulAll (ts : List (Tensor R)) : Except String (Tensor R) :=
  match ts.reverse with
  | [] => .error "raise"
  | t :: rest => rest.foldlM (fun acc s => mulB acc s) t

def keysDistinct (key : Idx → Nat) (l : List Idx) : Bool := !hasDup (l.map key)

/-- transpose to the sorted label order and reshape with 1's to the axes `ro` (one operand of a step) -/
def expandOp (key : Idx → Nat) (ro : List Idx) (p : List Idx × Tensor R) : Except String (Tensor R) :=
  let sortedIdx := sortBy key p.1
  let tArg := if p.1 = sortedIdx then p.2 else transposeT p.2 (sortedIdx.map fun k => p.1.idxOf k)
  let shapeDict := p.1.zip p.2.shape
  reshapeT tArg (ro.map fun l => (shapeDict.lookup l).getD 1)

/-- one call `tensor_einsum_reduce_sum("L1,L2,..->final", T1, T2, .., order=key)`.
    Returns the labels of the axes of the result (require_order without the summed ones) and the result. -/
def stepReduceSum (sizes : Idx → Nat) (key : Idx → Nat) (ops : List (List Idx × Tensor R)) (final : List Idx) :
    Except String (List Idx × Tensor R) :=
  if ops.any (fun p => hasDup p.1) then
    -- "inner product": delegated to tf.einsum, i.e. to the reference semantics; tf.einsum does not broadcast
    -- a named label: every occurrence (within the call) must have the same dimension
    if (ops.flatMap fun p => p.1.zip p.2.shape).all (fun q => q.2 = sizes q.1) then
      .ok (final, einsumRef sizes ops final)
    else
      -- dimensions that differ from the global label sizes (a label broadcast later): tf.einsum works with the
      -- dimensions of its own operands, which must agree among themselves
      let loc := ops.flatMap fun p => p.1.zip p.2.shape
      if loc.all (fun q => loc.lookup q.1 = some q.2) then
        .ok (final, einsumRef (fun l => (loc.lookup l).getD 1) ops final)
      else .error "raise"
  else
    let labels := labelSet (ops.map (·.1)).flatten
    if !keysDistinct key labels then .error "tie"
    else
      let ro := sortBy key labels
      match ops.mapM (expandOp key ro) with
      | .error e => .error e
      | .ok ss =>
        match mulAll ss with
        | .error e => .error e
        | .ok prod =>
          let mask := ro.map fun l => !final.contains l
          .ok (ro.filter (final.contains ·), reduceSum prod mask)

/-- remove the entries at the given positions (`for i in sorted(idx)[::-1]: del data[i]`) -/
def removePositions {α : Type} (l : List α) (pos : List Nat) : List α :=
  ((List.range l.length).filter fun i => !pos.contains i).filterMap fun i => l[i]?

/-- the loop `for idx in path:` of `einsum` -/
def loop (sizes : Idx → Nat) (key : Idx → Nat) (final : List Idx) :
    List (List Nat) → List (List Idx × Tensor R) → Except String (List (List Idx × Tensor R))
  | [], data => .ok data
  | pos :: path, data =>
    if pos.any (· ≥ data.length) || pos.isEmpty || hasDup pos then .error "raise"
    else
      let part := pos.filterMap fun i => data[i]?
      let rest := removePositions data pos
      let keep := final ++ (rest.map (·.1)).flatten
      let outSet := (labelSet (part.map (·.1)).flatten).filter (keep.contains ·)
      if !keysDistinct key outSet then .error "tie"
      else
        let outIdx := sortBy key outSet
        match stepReduceSum sizes key part outIdx with
        | .error e => .error e
        | .ok (_, t) => loop sizes key final path (rest ++ [(outIdx, t)])

/-- `tf_pwa.einsum.einsum(expr, *args)` for the path `path` returned by `opt_einsum.contract_path`
    (label 0 = ellipsis). -/
def einsumCustom (fixed : Bool) (ins : List (List Idx)) (out : List Idx) (path : List (List Nat)) (procOrder : List Idx)
    (ts : List (Tensor R)) : Except String (Tensor R) :=
  let shapes := ts.map (·.shape)
  match replaceEllipsis ins out ((shapes.headD []).length) with
  | none => .error "raise"
  | some (ins1, out1, extra) =>
    if !validate ins1 out1 shapes then .error "raise"
    else
      let sm := sizeMap ins1 shapes
      let rm := removeIdx sm extra
      let ins2 := ins1.map fun t => t.filter fun l => !rm.contains l
      let out2 := out1.filter fun l => !rm.contains l
      -- operands with their size-1 axes removed
      let args2 : Except String (List (Tensor R)) := (ins1.zip ts).mapM fun p =>
        reshapeT p.2 (((p.1.zip p.2.shape).filter fun q => !rm.contains q.1).map (·.2))
      match args2 with
      | .error e => .error e
      | .ok a2 =>
        let finalShape := out1.map (lookupD sm 1)
        match orderedIndices ins2 out2 procOrder with
        | none => .error "raise"
        | some ord =>
          let key := if fixed then rankFixed ord else rankOf ord
          match loop (lookupD sm 1) key out2 path (ins2.zip a2) with
          | .error e => .error e
          | .ok [] => .error "raise"
          | .ok ((_, t) :: _) => reshapeT t finalShape

end custom

/-! ### decidable form of the hypotheses of `C05b.einsum_correct`
    (used by the harness to count how many of the programs it runs lie inside the theorem) -/

section hyp
variable {R : Type} [Zero R] [Add R] [Mul R]

/-- no repeated label, axes of the label size or of size 1, every label with its full size somewhere -/
def invCheck (sizes : Idx → Nat) (data : List (List Idx × Tensor R)) : Bool :=
  let dim := fun (p : List Idx × Tensor R) (l : Idx) => ((p.1.zip p.2.shape).lookup l).getD 1
  data.all (fun p => !hasDup p.1 && p.1.length == p.2.shape.length &&
      p.1.all (fun l => dim p l == sizes l || dim p l == 1)) &&
  (labelSet (data.map (·.1)).flatten).all (fun l => data.any fun p => p.1.contains l && dim p l == sizes l)

/-- "in" when the call satisfies the hypotheses of `einsum_correct` (consistent shapes, the path reduces the operands
    to a single one laid out along the output labels), otherwise "out:<which hypothesis fails>" -/
def hypCheck (fixed : Bool) (ins : List (List Idx)) (out : List Idx) (path : List (List Nat)) (procOrder : List Idx)
    (ts : List (Tensor R)) : String :=
  let shapes := ts.map (·.shape)
  match replaceEllipsis ins out ((shapes.headD []).length) with
  | none => "out:ellipsis"
  | some (ins1, out1, extra) =>
    let sm := sizeMap ins1 shapes
    if !invCheck (lookupD sm 1) (ins1.zip ts) then "out:shapes"
    else
      let rm := removeIdx sm extra
      let ins2 := ins1.map fun t => t.filter fun l => !rm.contains l
      let out2 := out1.filter fun l => !rm.contains l
      let args2 : Except String (List (Tensor R)) := (ins1.zip ts).mapM fun p =>
        reshapeT p.2 (((p.1.zip p.2.shape).filter fun q => !rm.contains q.1).map (·.2))
      match args2 with
      | .error _ => "out:reshape"
      | .ok a2 =>
        match orderedIndices ins2 out2 procOrder with
        | none => "out:order"
        | some ord =>
          let key := if fixed then rankFixed ord else rankOf ord
          match loop (lookupD sm 1) key out2 path (ins2.zip a2) with
          | .error e => "out:" ++ e
          | .ok [(o, _)] => if o = out2 then "in" else "out:final-order"
          | .ok _ => "out:path"

end hyp

/-! ### Gaussian integers (complex128 operands with integer parts) -/

structure GI where
  re : Int
  im : Int
deriving DecidableEq, Repr

instance : Zero GI := ⟨⟨0, 0⟩⟩
instance : Add GI := ⟨fun a b => ⟨a.re + b.re, a.im + b.im⟩⟩
instance : Mul GI := ⟨fun a b => ⟨a.re * b.re - a.im * b.im, a.re * b.im + a.im * b.re⟩⟩

/-! ### line protocol -/

def parseNats (s : String) : Option (List Nat) :=
  if s == "-" then some [] else (s.splitOn ",").mapM (·.toNat?)
def parseInts (s : String) : Option (List Int) :=
  if s == "-" then some [] else (s.splitOn ",").mapM (·.toInt?)
def parseNatss (s : String) : Option (List (List Nat)) :=
  if s == "-" then some [] else (s.splitOn ";").mapM parseNats
/-- operand terms: always at least one term, an empty term is "-" -/
def parseTerms (s : String) : Option (List (List Nat)) := (s.splitOn ";").mapM parseNats
def showNats (l : List Nat) : String := if l.isEmpty then "-" else ",".intercalate (l.map toString)
def showInts (l : List Int) : String := if l.isEmpty then "-" else ",".intercalate (l.map toString)

def pairUp : List Int → List GI
  | a :: b :: r => ⟨a, b⟩ :: pairUp r
  | _ => []

def parseOpsZ : List String → Option (List (Tensor Int))
  | sh :: d :: rest => do
    let s ← parseNats sh
    let v ← parseInts d
    let r ← parseOpsZ rest
    pure (⟨s, v.toArray⟩ :: r)
  | [] => some []
  | _ => none

def parseOpsG : List String → Option (List (Tensor GI))
  | sh :: d :: rest => do
    let s ← parseNats sh
    let v ← parseInts d
    let r ← parseOpsG rest
    pure (⟨s, (pairUp v).toArray⟩ :: r)
  | [] => some []
  | _ => none

def showResZ : Except String (Tensor Int) → String
  | .ok t => "ok " ++ showNats t.shape ++ " " ++ showInts t.data.toList
  | .error e => e
def showResG : Except String (Tensor GI) → String
  | .ok t => "ok " ++ showNats t.shape ++ " " ++ showInts (t.data.toList.flatMap fun g => [g.re, g.im])
  | .error e => e

def showOrd (o : Option (List (Idx × Float))) : String :=
  match o with
  | none => "raise"
  | some l => "ok " ++ " ".intercalate (l.map fun p => toString p.1 ++ ":" ++ toString p.2.toBits.toNat)

def handle : List String → Option String
  | "ein" :: fixed :: kind :: ins :: out :: path :: proc :: ops => do
    let ins ← parseTerms ins
    let out ← parseNats out
    let path ← parseNatss path
    let proc ← parseNats proc
    if kind == "Z" then
      let ts ← parseOpsZ ops
      pure (showResZ (einsumCustom (fixed == "1") ins out path proc ts))
    else
      let ts ← parseOpsG ops
      pure (showResG (einsumCustom (fixed == "1") ins out path proc ts))
  | "hyp" :: fixed :: kind :: ins :: out :: path :: proc :: ops => do
    let ins ← parseTerms ins
    let out ← parseNats out
    let path ← parseNatss path
    let proc ← parseNats proc
    if kind == "Z" then
      let ts ← parseOpsZ ops
      pure (hypCheck (fixed == "1") ins out path proc ts)
    else
      let ts ← parseOpsG ops
      pure (hypCheck (fixed == "1") ins out path proc ts)
  | "ref" :: kind :: ins :: out :: ops => do
    -- reference semantics on an ellipsis-free expression
    let ins ← parseTerms ins
    let out ← parseNats out
    if kind == "Z" then
      let ts ← parseOpsZ ops
      let sm := sizeMap ins (ts.map (·.shape))
      pure (showResZ (.ok (einsumRef (lookupD sm 1) (ins.zip ts) out)))
    else
      let ts ← parseOpsG ops
      let sm := sizeMap ins (ts.map (·.shape))
      pure (showResG (.ok (einsumRef (lookupD sm 1) (ins.zip ts) out)))
  | ["ord", fixed, ins, out, proc] => do
    let ins ← parseTerms ins
    let out ← parseNats out
    let proc ← parseNats proc
    pure (showOrd (if fixed == "1" then orderedIndicesFixed ins out proc else orderedIndices ins out proc))
  | _ => none

end TfPwaV.Einsum
