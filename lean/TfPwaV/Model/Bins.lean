import TfPwaV.Model.Util
/-!
Model of `tf_pwa/adaptive_bins.py: AdaptiveBound` (C20), Mathlib-free and polymorphic in the value type
(only comparisons are used; executed at `Rat`, into which every double embeds exactly).

* `chain lb cs rb`      — `single_split_bound`: `[(lb,c₁),(c₁,c₂),…,(c_{n-1},rb)]`; the cut points
                          `cᵢ = np.percentile(data, 100 i/n) + 1e-6` are INPUTS.
* `inIv`, `inBox`       — `get_bool_mask`: `idx_data >= lb` and `idx_data < rb` in every dimension (half-open).
* `splitBox/splitRound` — the body of `multi_split_bound` for one `idx`: every current box is replaced by its
                          sub-boxes along dimension `idx`.
* `multiSplit`          — `multi_split_bound` (`for idx, size in enumerate(n)`), cuts in call order.
* `loopRound/loopSplit` — `loop_split_bound` (`for idx, size in enumerate(n)`; `for bnd, data in zip(...)`).
-/
namespace TfPwaV.Bins

section
variable {α : Type} [LT α] [LE α] [DecidableLT α] [DecidableLE α]

abbrev Box (α : Type) := List (α × α)

def chain (lb : α) : List α → α → List (α × α)
  | [], rb => [(lb, rb)]
  | c :: cs, rb => (lb, c) :: chain c cs rb

/-- the hypothesis of the partition theorems, as a checkable function: `lb ≤ c₁ ≤ … ≤ rb` -/
def sortedChain (lb : α) : List α → α → Bool
  | [], rb => decide (lb ≤ rb)
  | c :: cs, rb => decide (lb ≤ c) && sortedChain c cs rb

def inIv (v : α) (iv : α × α) : Bool := decide (iv.1 ≤ v) && decide (v < iv.2)

/-- `np.all(mask, axis=0)` over the first `len(box)` coordinates of the point -/
def inBox : List α → Box α → Bool
  | v :: vs, iv :: ivs => inIv v iv && inBox vs ivs
  | _, _ => true

def memberCount (p : List α) (boxes : List (Box α)) : Nat := (boxes.filter (inBox p)).length

def setIv : Box α → Nat → α × α → Box α
  | [], _, _ => []
  | _ :: ivs, 0, n => n :: ivs
  | iv :: ivs, i + 1, n => iv :: setIv ivs i n

def getIv : Box α → Nat → Option (α × α)
  | [], _ => none
  | iv :: _, 0 => some iv
  | _ :: ivs, i + 1 => getIv ivs i

def splitBox (b : Box α) (idx : Nat) (cuts : List α) : List (Box α) :=
  match getIv b idx with
  | none => []
  | some (lb, rb) => (chain lb cuts rb).map (setIv b idx)

def splitRound (idx : Nat) (boxes : List (Box α)) (cutss : List (List α)) : List (Box α) :=
  (boxes.zip cutss).flatMap fun bc => splitBox bc.1 idx bc.2

def multiGo : Nat → List (Box α) → List (List (List α)) → List (Box α)
  | _, boxes, [] => boxes
  | idx, boxes, cutss :: rest => multiGo (idx + 1) (splitRound idx boxes cutss) rest

def multiSplit (b : Box α) (spec : List (List (List α))) : List (Box α) := multiGo 0 [b] spec

def loopRound (boxes : List (Box α)) (specs : List (List (List (List α)))) : List (Box α) :=
  (boxes.zip specs).flatMap fun bs => multiSplit bs.1 bs.2

def loopSplit (base : Box α) (rounds : List (List (List (List (List α))))) : List (Box α) :=
  rounds.foldl loopRound [base]

/-- all cut chains handed to `splitRound` are monotone and address an existing dimension (`idx < D`) -/
def validRound (D idx : Nat) (boxes : List (Box α)) (cutss : List (List α)) : Bool :=
  decide (idx < D) && decide (boxes.length = cutss.length) &&
  (boxes.zip cutss).all fun bc =>
    match getIv bc.1 idx with
    | none => false
    | some (lb, rb) => sortedChain lb bc.2 rb

def validGo (D : Nat) : Nat → List (Box α) → List (List (List α)) → Bool
  | _, _, [] => true
  | idx, boxes, cutss :: rest =>
    validRound D idx boxes cutss && validGo D (idx + 1) (splitRound idx boxes cutss) rest

def validLoopRound (D : Nat) (boxes : List (Box α)) (specs : List (List (List (List α)))) : Bool :=
  decide (boxes.length = specs.length) && (boxes.zip specs).all fun bs => validGo D 0 [bs.1] bs.2

def validLoop (D : Nat) : List (Box α) → List (List (List (List (List α)))) → Bool
  | _, [] => true
  | boxes, specs :: rest => validLoopRound D boxes specs && validLoop D (loopRound boxes specs) rest

end

-- line protocol (values as exact rationals "p/q" or "p") ------------------------------------------

def parseQ (s : String) : Option Rat :=
  match s.splitOn "/" with
  | [a] => a.toInt?.map fun (n : Int) => (n : Rat)
  | [a, b] => do
    let n ← a.toInt?
    let d ← b.toNat?
    some (mkRat n d)
  | _ => none

def showQ (r : Rat) : String := s!"{r.num}/{r.den}"

/-- decode a nested list: `n item…` with the item decoder consuming tokens -/
def parseList {β : Type} (item : List String → Option (β × List String)) : Nat → List String → Option (List β × List String)
  | 0, ws => some ([], ws)
  | n + 1, ws => do
    let (x, ws) ← item ws
    let (xs, ws) ← parseList item n ws
    some (x :: xs, ws)

def parseCounted {β : Type} (item : List String → Option (β × List String)) : List String → Option (List β × List String)
  | [] => none
  | n :: ws => do
    let n ← n.toNat?
    parseList item n ws

def itemQ : List String → Option (Rat × List String)
  | [] => none
  | w :: ws => (parseQ w).map fun q => (q, ws)

def showBox (b : Box Rat) : String := ",".intercalate (b.map fun iv => showQ iv.1 ++ ":" ++ showQ iv.2)

/-- `split D lb… rb… <rounds>`: rounds → per box → per idx → per sub-box → cuts (all counted lists);
    then `P` points (each `D` values).  Answer: valid flag, boxes, membership matrix rows. -/
def handle : List String → Option String
  | "split" :: d :: ws => do
    let d ← d.toNat?
    let (lbs, ws) ← parseList itemQ d ws
    let (rbs, ws) ← parseList itemQ d ws
    let (rounds, ws) ← parseCounted (parseCounted (parseCounted (parseCounted (parseCounted itemQ)))) ws
    let (pts, _) ← parseCounted (parseList itemQ d) ws
    let base : Box Rat := lbs.zip rbs
    let boxes := loopSplit base rounds
    let ok := validLoop d [base] rounds
    let rows := pts.map fun p => String.join (boxes.map fun b => if inBox p b then "1" else "0")
    some (TfPwaV.Util.showB ok ++ "|" ++ ";".intercalate (boxes.map showBox) ++ "|" ++ ",".intercalate rows)
  | _ => none

end TfPwaV.Bins
