import TfPwaV.Model.Config
/-!
Model of the decay-card loader, part D (C19g): what `Model/Config.lean` leaves out.

* decay-entry parameters as GENERAL dicts (`_list2decay`: `params[k] = v` for every key of every dict item, in order),
  the way they reach the decay object: `get_decay(core, outs, **params)` of `tf_pwa/amp/core.py` merges
  `{**production_params of the daughters, **decay_params of the mother, **entry params}`; the key `model` selects the class
  (`get_decay_model`, KeyError for an unregistered name); `HelicityDecay.__init__` / `BaseDecay.__init__` split the
  keywords into named arguments and `_kwargs` (exported by `BaseDecay.as_config`); `l_list` / `ls_list` / `p_break` /
  `c_break` restrict the (l,s) list (`HelicityDecay.get_ls_list`), `params_head` replaces the head of the variable names;
  `init_params` sets `self.d = 3.0` AFTER the keywords were stored (an entry key `d` does not reach the barrier factor).
* parameter names of a whole card for the line-shape models whose variables are created by name suffix
  (`lineShape`), with `params_head`.
* `coef_head` of `ConfigLoader.add_particle_constraints`: which variables are tied.

Definitions of `Model/Config.lean` are reused unchanged (`candidates`, `Ctx.ls`, `Ctx.survives`, `simpleChain`, …):
the D-context is projected to a `Config.Ctx` by `readOpt`.
-/
namespace TfPwaV.ConfigD
open TfPwaV.Config

/-- value of a key of a decay-option dict -/
inductive DV where
  | bool (b : Bool)
  | nats (l : List Nat)            -- `l_list: [0, 2]`
  | pairs (l : List (Nat × Nat))   -- `ls_list: [[0, 1], [2, 1]]` (l, 2s)
  | str (s : String)               -- anything else, opaque text
  | none                           -- YAML null
  deriving DecidableEq, Repr

abbrev DDict := List (String × DV)

inductive DItemD where
  | name (n : Name)
  | opt (d : DDict)
  deriving Repr

structure DecEntryD where
  core : Name
  o1 : Name
  o2 : Name
  params : DDict
  deriving Repr

def itemNamesD : List DItemD → List Name
  | [] => []
  | .name n :: r => n :: itemNamesD r
  | .opt _ :: r => itemNamesD r

/-- `for j in outs: if isinstance(j, dict): for k, v in j.items(): params[k] = v` -/
def itemOptsD (acc : DDict) : List DItemD → DDict
  | [] => acc
  | .name _ :: r => itemOptsD acc r
  | .opt o :: r => itemOptsD (updKV acc o) r

def list2decayD (core : Name) (items : List DItemD) : Option DecEntryD :=
  match itemNamesD items with
  | [a, b] => some ⟨core, a, b, itemOptsD [] items⟩
  | _ => none

inductive DValD where
  | flat (items : List DItemD)
  | nested (ls : List (List DItemD))
  deriving Repr

def decayItemD (sec : List (Name × DValD)) : Option (List DecEntryD) :=
  sec.foldlM (init := []) fun acc (core, v) =>
    match v with
    | .flat [] => some acc
    | .flat items => (list2decayD core items).map fun d => acc ++ [d]
    | .nested ls => (ls.mapM (list2decayD core)).map fun ds => acc ++ ds

/-- `Config.register` for any payload: first key object, LAST params -/
def registerG {β : Type} (regs : List (BDecay × β)) (d : BDecay) (o : β) : List (BDecay × β) :=
  match regs with
  | [] => [(d, o)]
  | (d', o') :: r => if d'.same d then (d', o) :: r else (d', o') :: registerG r d o

def instancesD (pm : List (Name × List Name)) (e : DecEntryD) : List (BDecay × DDict) :=
  (wrap pm e.core).flatMap fun c => (wrap pm e.o1).flatMap fun a => (wrap pm e.o2).map fun b => (⟨c, a, b⟩, e.params)

def registerAllD (pm : List (Name × List Name)) (decs : List DecEntryD) : List (BDecay × DDict) :=
  (decs.flatMap (instancesD pm)).foldl (fun regs x => registerG regs x.1 x.2) []

/-! ## dict-valued particle keys (`decay_params`, `production_params`) travel as text `@k=v;k=v` -/

def parseNatListD (s : String) : Option (List Nat) :=
  if s = "" then some [] else (s.splitOn ",").mapM String.toNat?

def parsePairListD (s : String) : Option (List (Nat × Nat)) :=
  if s = "" then some [] else (s.splitOn ",").mapM fun p =>
    match p.splitOn "." with
    | [a, b] => do some ((← a.toNat?), (← b.toNat?))
    | _ => none

def parseDV (s : String) : Option DV :=
  match s.toList with
  | ['n'] => some .none
  | ['b', '1'] => some (.bool true)
  | ['b', '0'] => some (.bool false)
  | 'L' :: r => (parseNatListD (String.ofList r)).map .nats
  | 'P' :: r => (parsePairListD (String.ofList r)).map .pairs
  | 's' :: r => some (.str (String.ofList r))
  | _ => none

def parseDDictBody (s : String) : Option DDict :=
  if s = "" then some [] else (s.splitOn ";").mapM fun kv =>
    match kv.splitOn "=" with
    | [k, v] => (parseDV v).map fun v => (k, v)
    | _ => none

def parseDDict (s : String) : Option DDict :=
  match s.toList with
  | '@' :: r => parseDDictBody (String.ofList r)
  | _ => none

/-- `getattr(particle, key, {})` for `key` = `decay_params` / `production_params` (set by `BaseParticle.__init__` from the
renamed particle dict) -/
def partDict (props : List (Name × PDict)) (n : Name) (key : String) : DDict :=
  match getKV (renameParams ((getKV props n).getD [])) key with
  | some (.other s) => (parseDDict s).getD []
  | _ => []

def modelOf (d : PDict) : String :=
  match getKV (renameParams d) "model" with
  | some (.other s) => s
  | _ => "default"

/-- line shapes whose particle class (`ParticleLS`, tf_pwa/amp/split_ls.py) puts `model: LS-decay` in front of its
`decay_params`: every decay of such a particle is built by another class -/
def lsDecayShapes : List String := ["BWR_LS", "BWR_LS2", "MultiBWR", "MultiBW"]

/-- `getattr(core, "decay_params", {})` -/
def decayParamsOf (props : List (Name × PDict)) (n : Name) : DDict :=
  if lsDecayShapes.contains (modelOf ((getKV props n).getD [])) then
    updKV [("model", .str "LS-decay")] (partDict props n "decay_params")
  else partDict props n "decay_params"

/-- `get_decay`: `{**prod_params, **decay_params, **kwargs}`, `prod_params.update(...)` over the daughters in order -/
def effKwargs (props : List (Name × PDict)) (d : BDecay) (e : DDict) : DDict :=
  updKV (updKV (updKV (updKV [] (partDict props d.o1 "production_params")) (partDict props d.o2 "production_params"))
    (decayParamsOf props d.core)) e

/-! ## what the decay object does with the keywords -/

def helicityNamed : List String :=
  ["has_barrier_factor", "l_list", "barrier_factor_mass", "has_ql", "has_bprime", "aligned", "allow_cc", "ls_list",
   "barrier_factor_norm", "params_polar", "below_threshold", "force_min_l", "params_head", "no_q0",
   "helicity_inner_full", "ls_selector"]

def baseNamed : List String := ["name", "disable", "p_break", "c_break", "curve_style"]

/-- `BaseDecay._kwargs`: what neither `HelicityDecay.__init__` nor `BaseDecay.__init__` names -/
def restKwargs (kw : DDict) : DDict :=
  kw.filter fun kv => !(helicityNamed.contains kv.1 || baseNamed.contains kv.1)

/-- attributes with the defaults of the two signatures (those that the loader does not touch afterwards) -/
def attrDefaults : DDict :=
  [("has_barrier_factor", .bool true), ("l_list", .none), ("barrier_factor_mass", .bool false), ("has_ql", .bool true),
   ("has_bprime", .bool true), ("aligned", .bool false), ("barrier_factor_norm", .bool false), ("params_polar", .none),
   ("below_threshold", .bool false), ("force_min_l", .bool false), ("no_q0", .bool false),
   ("helicity_inner_full", .bool false), ("ls_selector", .none), ("p_break", .bool false), ("c_break", .bool true),
   ("curve_style", .none)]

def attrs (kw : DDict) : DDict :=
  attrDefaults.map (fun kd => (kd.1, (getKV kw kd.1).getD kd.2)) ++ [("d", .str "3.0")]

/-- `BaseDecay.as_config` option dict: `p_break, c_break, curve_style, **_kwargs` -/
def exportOpts (kw : DDict) : DDict :=
  [("p_break", (getKV kw "p_break").getD (.bool false)), ("c_break", (getKV kw "c_break").getD (.bool true)),
   ("curve_style", (getKV kw "curve_style").getD .none)] ++ restKwargs kw

/-- the four keys that restrict the (l,s) list; `None` is falsy for the two flags -/
def readOpt (kw : DDict) : DOpt :=
  { pBreak := match getKV kw "p_break" with
      | some (.bool b) => some b
      | some .none => some false
      | _ => none
    cBreak := match getKV kw "c_break" with
      | some (.bool b) => some b
      | some .none => some false
      | _ => none
    lList := match getKV kw "l_list" with
      | some (.nats l) => some l
      | _ => none
    lsList := match getKV kw "ls_list" with
      | some (.pairs l) => some l
      | _ => none }

inductive Cls where
  | helicity   -- `HelicityDecay` ("default", "gls-bf")
  | other      -- another registered two-body class: outside the model
  | unknown    -- `get_config(DECAY_MODEL)[(2, model)]` raises KeyError
  deriving DecidableEq, Repr

def helicityModels : List String := ["default", "gls-bf"]
def otherModels : List String :=
  ["LS-decay", "LS-decay-Kmatrix", "gls-cpv", "helicity_full", "helicity_full-bf", "helicity_parity", "particle-decay"]

/-- `new_kwargs.get("model", "default")` -/
def classOf (kw : DDict) : Cls :=
  match getKV kw "model" with
  | none => .helicity
  | some (.str m) =>
    if helicityModels.contains m then .helicity else if otherModels.contains m then .other else .unknown
  | some _ => .unknown

/-- keywords that change the (l,s) list or the variables in a way the model does not follow -/
def kwSupported (kw : DDict) : Bool :=
  (match getKV kw "ls_selector" with | none => true | some .none => true | _ => false) &&
  (match getKV kw "params_polar" with | none => true | some .none => true | _ => false) &&
  (match getKV kw "disable" with | none => true | some (.bool false) => true | _ => false)

/-! ## the card and its expansion -/

structure CardD where
  base : Card                       -- particle part, `$top`, `$finals`, includes (`base.decay` is not read)
  decay : List (Name × DValD)
  deriving Repr

structure CtxD where
  props : List (Name × PDict)
  kw : List (BDecay × DDict)        -- effective keywords of every registered decay

def CtxD.toCtx (x : CtxD) : Ctx := ⟨x.props, x.kw.map fun r => (r.1, readOpt r.2)⟩

def CtxD.kwOf (x : CtxD) (d : BDecay) : DDict :=
  match x.kw.find? fun r => r.1.same d with
  | some r => r.2
  | none => []

def CtxD.ls (x : CtxD) (d : BDecay) : List (Nat × Nat) := x.toCtx.ls d

def CardD.context (c : CardD) : Option CtxD := do
  let decs ← decayItemD c.decay
  let merged ← mergeIncludes c.base.particle c.base.includes
  let props := c.base.props merged
  some ⟨props, (registerAllD (particleMap merged) decs).map fun r => (r.1, effKwargs props r.1 r.2)⟩

inductive OutcomeD where
  | ok (x : CtxD) (chains : List Chain)
  | raise (what : String)

def CtxD.regs (x : CtxD) : List BDecay := x.kw.map (·.1)

/-- decay objects are built (`add_decay`) for every candidate chain with the right final state, before the cut -/
def CardD.expand (c : CardD) : OutcomeD :=
  match c.context with
  | none => .raise "malformed"
  | some x =>
    match candidates x.regs c.base.top c.base.finals with
    | none => .raise "RecursionError"
    | some cand =>
      if !(cand.all simpleChain) then .raise "unsupported"
      else if (cand.flatMap id).any (fun d => classOf (x.kwOf d) == .unknown) then .raise "KeyError"
      else if (cand.flatMap id).any (fun d => classOf (x.kwOf d) == .other || !kwSupported (x.kwOf d)) then .raise "unsupported"
      else if (cand.filter x.toCtx.survives).isEmpty then .raise "RuntimeError"
      else .ok x (cand.filter x.toCtx.survives)

/-! ## names -/

/-- `HelicityDecay.get_params_head` -/
def CtxD.headOf (x : CtxD) (d : BDecay) : String :=
  match getKV (x.kwOf d) "params_head" with
  | some (.str h) => h
  | _ => decayHead d

def CtxD.chainHead (x : CtxD) (c : Chain) : String := String.join (c.map x.headOf)

/-- variable suffixes a line-shape model creates (`init_params`), `none` = outside the model; a name that is not
registered falls back to "default" (`get_particle` prints a warning) -/
def lineShape (model : String) (hasW : Bool) : Option (List String) :=
  let mw := ["mass"] ++ (if hasW then ["width"] else [])
  if ["default", "BW", "BWR", "BWR2", "BWR_below", "BWR_coupling", "BWR_normal", "GS_rho", "x"].contains model then some mw
  else if model == "LASS" then some (mw ++ ["a", "r"])
  else if model == "exp" then some ["a"]
  else if model == "exp_com" then some ["a", "b"]
  else if model == "one" then some []
  else if ["BWR_LS", "BWR_LS2", "Flatte", "Flatte2", "FlatteC", "FlatteGen", "KMatrixSingleChannel", "KMatrixSplitLS", "Kmatrix", "KmatrixSimple",
      "MultiBW", "MultiBWR"].contains model then none
  else some mw

def CtxD.resNames (x : CtxD) (n : Name) : Option (List String) :=
  let pd := (getKV x.props n).getD []
  (lineShape (modelOf pd) (hasWidth pd)).map fun l => l.map fun s => n ++ "_" ++ s

/-- what the names are a function of: per resonance its variable list, per chain its head and, per decay, the head
and the number of couplings -/
structure Shape where
  res : List (List String)
  chains : List (String × List (BDecay × String × Nat))
  deriving DecidableEq, Repr

def CtxD.shape (x : CtxD) (chains : List Chain) : Option Shape :=
  ((resonances chains).mapM x.resNames).map fun res =>
    ⟨res, chains.map fun c => (x.chainHead c, c.map fun d => (d, x.headOf d, (x.ls d).length))⟩

/-- `DecayGroup.init_params`: creation order -/
def Shape.names (s : Shape) : List String :=
  let step := fun (st : List String × List BDecay) (c : String × List (BDecay × String × Nat)) =>
    c.2.foldl (fun (st : List String × List BDecay) d =>
      if st.2.any (fun e => e.same d.1) then st
      else (st.1 ++ complexNames (d.2.1 ++ "_g_ls") d.2.2, st.2 ++ [d.1])) (st.1 ++ complexNames (c.1 ++ "_total") 1, st.2)
  s.res.flatMap id ++ (s.chains.foldl step ([], [])).1

def CtxD.paramNames (x : CtxD) (chains : List Chain) : Option (List String) := (x.shape chains).map Shape.names

/-- heads of the decay objects the group creates: first-seen decays -/
def seenDecays (chains : List Chain) : List BDecay :=
  (chains.flatMap id).foldl (fun acc d => if acc.any (fun e => e.same d) then acc else acc ++ [d]) []

/-- two decay objects with one `params_head` share (and silently reshape) their variables: outside the model -/
def CtxD.headsDistinct (x : CtxD) (chains : List Chain) : Bool := ((seenDecays chains).map x.headOf).Nodup

/-! ## `coef_head` (ConfigLoader.add_particle_constraints) -/

structure CoefSt where
  resDec : List (Name × Chain) := []
  ties : List (String × String) := []       -- `set_same([a, b])`: complex heads for g_ls, real names for the totals

def coefHeadOf (pc : PDict) : Option Name :=
  match getKV pc "coef_head" with
  | some (.other h) => some h
  | _ => none

/-- the ties one (chain position) contributes: `h.g_ls.sameas(j.g_ls)` -/
def glsTies (x : CtxD) (i : Name) (acc : List (String × String)) (jh : BDecay × BDecay) : Except String (List (String × String)) :=
  let j := jh.1
  let h := jh.2
  if i == j.o1 || i == j.o2 || i == j.core then
    if (x.ls h).length != (x.ls j).length then .error "Exception"
    else .ok (acc ++ (List.range (x.ls j).length).map fun k =>
      (x.headOf h ++ "_g_ls_" ++ toString k, x.headOf j ++ "_g_ls_" ++ toString k))
  else .ok acc

/-- body of `for p_i in d.inner` as far as `coef_head` is concerned -/
def coefStep (x : CtxD) (chain : Chain) (st : CoefSt) (i : Name) : Except String CoefSt :=
  let resDec := setKV st.resDec i chain
  match getKV x.props i with
  | none => .error "KeyError"
  | some pc =>
    match coefHeadOf pc with
    | none => .ok { st with resDec := resDec }
    | some h =>
      match getKV resDec h with
      | none => .ok { st with resDec := resDec }       -- `particle_config["coef_head"] = i`
      | some dh => do
        let ties ← (chain.zip dh).foldlM (glsTies x i) st.ties
        .ok ⟨resDec, ties ++ [(x.chainHead dh ++ "_total_0r", x.chainHead chain ++ "_total_0r")]⟩

def coefPlan (chains : List Chain) : List (Chain × Name) :=
  chains.flatMap fun c => (sortNames (chainInner c)).map fun i => (c, i)

def CtxD.coefTies (x : CtxD) (chains : List Chain) : Except String (List (String × String)) :=
  ((coefPlan chains).foldlM (fun st ci => coefStep x ci.1 st ci.2) ({} : CoefSt)).map (·.ties)

/-- modelled: a particle with `coef_head` is inner particle of ONE chain and does not name itself (otherwise the
loader rewrites `coef_head` to the particle itself and ties variables to themselves) -/
def CtxD.coefSupported (x : CtxD) (chains : List Chain) : Bool :=
  (coefPlan chains).all fun ci =>
    match coefHeadOf ((getKV x.props ci.2).getD []) with
    | none => true
    | some h => h != ci.2 && ((coefPlan chains).filter fun cj => cj.2 == ci.2).length == 1

/-! ## line protocol -/

def parseDItemD : List String → Option (DItemD × List String)
  | w :: ws =>
    match w.splitOn ":" with
    | ["n", n] => some (.name n, ws)
    | "O" :: r => (parseDDictBody (":".intercalate r)).map fun o => (.opt o, ws)
    | _ => none
  | [] => none

def parseItemsD : List String → Option (List DItemD × List String) := parseCounted parseDItemD

def parseDValD : List String → Option (DValD × List String)
  | "f" :: ws => (parseItemsD ws).map fun (l, ws) => (.flat l, ws)
  | "n" :: ws => (parseCounted parseItemsD ws).map fun (l, ws) => (.nested l, ws)
  | _ => none

def parseDecayEntryD : List String → Option ((Name × DValD) × List String)
  | n :: ws => (parseDValD ws).map fun (v, ws) => ((n, v), ws)
  | [] => none

def parseCardD (ws : List String) : Option CardD := do
  let (top, topDict, ws) ← match ws with
    | "T" :: n :: ws => some (n, (none : Option PDict), ws)
    | "TD" :: n :: ws => (parsePDict ws).map fun (d, ws) => (n, some d, ws)
    | _ => none
  let (finals, finalsDict, ws) ← match ws with
    | "F" :: ws => (parseCounted parseName ws).map fun (l, ws) => (l, (none : Option (List (Name × PDict))), ws)
    | "FD" :: ws => (parseCounted parseNamedDict ws).map fun (l, ws) => (l.map (·.1), some l, ws)
    | _ => none
  let (incs, ws) ← match ws with
    | "I" :: ws => parseCounted (parseCounted parsePEntry) ws
    | _ => none
  let (part, ws) ← match ws with
    | "P" :: ws => parseCounted parsePEntry ws
    | _ => none
  let (dec, ws) ← match ws with
    | "D" :: ws => parseCounted parseDecayEntryD ws
    | _ => none
  if ws.isEmpty then some ⟨⟨top, topDict, finals, finalsDict, incs, part, []⟩, dec⟩ else none

def showDV : DV → String
  | .bool true => "b1"
  | .bool false => "b0"
  | .nats l => "L" ++ ",".intercalate (l.map toString)
  | .pairs l => "P" ++ ",".intercalate (l.map fun p => s!"{p.1}.{p.2}")
  | .str s => "s" ++ s
  | .none => "n"

def showDDict (d : DDict) : String := ";".intercalate (d.map fun kv => kv.1 ++ "=" ++ showDV kv.2)

def perDecay (chains : List Chain) (f : BDecay → String) : String :=
  "|".intercalate (chains.map fun c => " & ".intercalate (c.map f))

def handle : List String → Option String
  | op :: ws =>
    match parseCardD ws with
    | none => some "parse-error"
    | some card =>
      match card.expand with
      | .raise w => some ("raise:" ++ w)
      | .ok x chains =>
        if op == "chains" then some ("|".intercalate (chains.map showChain))
        else if op == "ls" then some ("|".intercalate (chains.map fun c => ";".intercalate (c.map fun d => showLs (x.ls d))))
        else if op == "params" then
          if !x.headsDistinct chains then some "raise:unsupported" else
          match x.paramNames chains with
          | some l => some (" ".intercalate l)
          | none => some "raise:unsupported"
        else if op == "attrs" then some (perDecay chains fun d => showDDict (attrs (x.kwOf d)))
        else if op == "export" then some (perDecay chains fun d => showDDict (exportOpts (x.kwOf d)))
        else if op == "ties" then
          if !x.coefSupported chains || !x.headsDistinct chains then some "raise:unsupported" else
          match x.coefTies chains with
          | .ok l => some (" ".intercalate (l.map fun p => p.1 ++ "=" ++ p.2))
          | .error w => some ("raise:" ++ w)
        else none
  | [] => none

end TfPwaV.ConfigD
